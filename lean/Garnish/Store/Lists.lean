/-
L2 store models of lists (property C16): the list code of the two shipped `GarnishData` implementations,
transliterated function by function.

  Simple  /repo/data/src/runtime.rs   start_list / add_to_list / end_list, get_list_len, get_list_item,
                                      get_list_item_with_symbol, get_list_item_iter, get_concatenation_iter
          /repo/data/src/simple.rs    collect_concatenation_indices
  Basic   /repo/data/src/basic/garnish/garnish_impl.rs   the same functions on the cell heap
          /repo/data/src/basic/search.rs                 search_for_associative_item(_index)
  runtime /repo/runtime/src/runtime/list.rs              index_list

`Err` is `Outcome.err`, slicing / indexing that can panic is `Outcome.panic`.  Loops with a run-time bound
(`count > len`) are structural recursions on the remaining budget `rem = len - count`; loops without one
(the concatenation work lists) take explicit fuel and answer `Outcome.fuelOut` when it runs out.
Numbers are `Int` (the integer variant of `SimpleNumber`); symbols are `Nat` (< 2^64, `usize` is 64 bit so
`sym as usize` is the identity).
-/
import Garnish.Model.Outcome
namespace Garnish.Store.Lists
open Garnish

/-! ## SimpleGarnishData -/

/-- what the list code can observe about a cell of `data: Vec<SimpleData>` (slices are outside this view) -/
inductive SCell where
  | pair (l r : Nat)
  | sym (s : Nat)
  | list (items : List Nat) (assoc : Array Nat)
  | concat (l r : Nat)
  | other                         -- unit, true, false, number, text, … : not a pair, symbol, list or concatenation
deriving Repr, Inhabited

/-- `self.data.get(addr)`: `none` = no data at that address (`get` / `get_data_type` return `Err`) -/
abbrev SView := Nat → Option SCell

/-- `i += 1; if i >= len { i = 0 }` -/
def nextIdx (n i : Nat) : Nat := if i + 1 ≥ n then 0 else i + 1

/-- `end_list`, the inner `while ordered[i] != 0 { … }` for one item; `rem = len - count`.
The guard `count > len` fires exactly when the slot is taken and `rem = 0`. -/
def probeEmpty (ordered : Array Nat) (n : Nat) (rem i : Nat) : Outcome Nat :=
  match ordered[i]? with
  | none => .panic "end_list: ordered[i]"
  | some v =>
    if v = 0 then .ok i else
    match rem with
    | 0 => .err .data                           -- "Could not place associative value"
    | rem' + 1 => probeEmpty ordered n rem' (nextIdx n i)

/-- `end_list`, the outer `for index in 0..associations.len()` (`associations` = the items, see `add_to_list`) -/
def placeAll (n : Nat) : List Nat → Array Nat → Outcome (Array Nat)
  | [], o => .ok o
  | item :: rest, o =>
    match probeEmpty o n n (item % n) with
    | .ok i =>
      if h : i < o.size then placeAll n rest (o.set i item h)
      else .panic "end_list: ordered[i] = item"
    | .err e => .err e
    | .panic s => .panic s
    | .fuelOut => .fuelOut

/-- `start_list; add_to_list*; end_list` on item addresses: the `(items, ordered)` of the new `SimpleData::List`.
Every item — keyed or not — is placed at `address % n` with linear probing; `0` means "empty slot". -/
def endListSimple (items : List Nat) : Outcome (List Nat × Array Nat) :=
  match placeAll items.length items (Array.replicate items.length 0) with
  | .ok o => .ok (items, o)
  | .err e => .err e
  | .panic s => .panic s
  | .fuelOut => .fuelOut

/-- the `(symbol, right)` of an item that is a pair keyed by a symbol:
`get_data_type(a)?`, `get_pair(a)?`, `get_data_type(left)?`, `get_symbol(left)?` -/
def keyedValue (view : SView) (a : Nat) : Outcome (Option (Nat × Nat)) :=
  match view a with
  | none => .err .data
  | some (.pair l r) =>
    match view l with
    | none => .err .data
    | some (.sym v) => .ok (some (v, r))
    | some _ => .ok none
  | some _ => .ok none

/-- `if v == sym { return Ok(Some(right)) }` -/
def keyMatch (kv : Option (Nat × Nat)) (sym : Nat) : Option Nat :=
  match kv with
  | some (v, r) => if v = sym then some r else none
  | none => none

/-- `get_list_item_with_symbol`, the `loop { … }`; `rem = len - count` -/
def lookupLoop (view : SView) (assoc : Array Nat) (sym n : Nat) (rem i : Nat) : Outcome (Option Nat) :=
  match assoc[i]? with
  | none => .err .data                           -- `get_list_association`: "No list item at index"
  | some a =>
    match keyedValue view a with
    | .err e => .err e
    | .panic s => .panic s
    | .fuelOut => .fuelOut
    | .ok kv =>
      match keyMatch kv sym with
      | some r => .ok (some r)                   -- found match: the pair's right is the value
      | none =>
        match rem with
        | 0 => .ok none                          -- `count > associations_len`
        | rem' + 1 => lookupLoop view assoc sym n rem' (nextIdx n i)

/-- `get_list_item_with_symbol` on the association vector of a list -/
def lookupSimple (view : SView) (assoc : Array Nat) (sym : Nat) : Outcome (Option Nat) :=
  if assoc.size = 0 then .ok none
  else lookupLoop view assoc sym assoc.size assoc.size (sym % assoc.size)

/-- `x as usize` for an `i32` -/
def asUsize (i : Int) : Nat := (i % (2 ^ 64 : Int)).toNat

/-- `get_list_len` given the cell -/
def listLenSimple (view : SView) (addr : Nat) : Outcome Nat :=
  match view addr with
  | some (.list items _) => .ok items.length
  | _ => .err .data

/-- `get_list_item` with an integer index: `items.get(item_index as usize)` -/
def listItemSimple (view : SView) (addr : Nat) (idx : Int) : Outcome (Option Nat) :=
  match view addr with
  | some (.list items _) => .ok items[asUsize idx]?
  | _ => .err .data

def listLookupSimple (view : SView) (addr : Nat) (sym : Nat) : Outcome (Option Nat) :=
  match view addr with
  | some (.list _ assoc) => lookupSimple view assoc sym
  | _ => .err .data

/-- `get_list_item_iter`: the items, or nothing when the address is not a list -/
def listIterSimple (view : SView) (addr : Nat) : Outcome (List Nat) :=
  match view addr with
  | some (.list items _) => .ok items
  | _ => .ok []

/-- `collect_concatenation_indices`, the `while let Some(item) = con_stack.pop()` (top of the stack = head) -/
def collectConcatSimple (view : SView) : Nat → List Nat → List Nat → Outcome (List Nat)
  | _, [], acc => .ok acc.reverse
  | 0, _ :: _, _ => .fuelOut
  | fuel + 1, item :: stack, acc =>
    match view item with
    | none => collectConcatSimple view fuel stack (0 :: acc)          -- UNIT_INDEX
    | some (.concat l r) => collectConcatSimple view fuel (l :: r :: stack) acc
    | some (.list items _) => collectConcatSimple view fuel stack (items.reverse ++ acc)
    | some _ => collectConcatSimple view fuel stack (item :: acc)

/-- `get_concatenation_iter` -/
def concatIterSimple (view : SView) (fuel : Nat) (addr : Nat) : Outcome (List Nat) :=
  match view addr with
  | some (.concat l r) => collectConcatSimple view fuel [l, r] []
  | _ => .ok []

/-! ## BasicGarnishData -/

/-- cells of the data block as far as the list code looks at them.
Layout of a list of `n` items at address `a`:  `a : List(n, k)`,  `a+1 … a+n : ListItem(item)`,
`a+n+1 … a+2n : association slots` (`AssociativeItem(sym, value)` for items that are pairs keyed by a symbol,
`Empty` otherwise; after `end_list` the `k` associative items come first, ordered by symbol). -/
inductive BCell where
  | empty
  | uninitList (len count : Nat)
  | list (len k : Nat)
  | listItem (a : Nat)
  | assoc (sym val : Nat)
  | pair (l r : Nat)
  | sym (s : Nat)
  | concat (l r : Nat)
  | other
deriving DecidableEq, Repr, Inhabited

/-- the data block up to its cursor, addresses relative to the block start.
(The model is stricter than the code in one place: a slice that reaches beyond the cursor is `panic`, the
code would read cells of the next block.  No reachable list header describes such a range.) -/
abbrev BHeap := Array BCell

/-- `get_from_data_block_ensure_index` -/
def getCell (h : BHeap) (i : Nat) : Outcome BCell :=
  match h[i]? with
  | some c => .ok c
  | none => .err .data

/-- `start_list(len)`: header + `2·len` empty cells (allocation limits of `push_to_data_block` not modelled) -/
def startList (h : BHeap) (len : Nat) : BHeap × Nat :=
  (h.push (.uninitList len 0) ++ Array.replicate (2 * len) .empty, h.size)

/-- `add_to_list` -/
def addToList (h : BHeap) (li item : Nat) : Outcome BHeap :=
  match h[li]? with
  | none => .err .data
  | some (.uninitList len count) =>
    if count ≥ len then .err .data else                  -- ExceededInitialListLength
    let cur := li + 1 + count
    let h1 := h.setIfInBounds li (.uninitList len (count + 1))
    match h1[cur]? with
    | none => .err .data
    | some _ =>
      let h2 := h1.setIfInBounds cur (.listItem item)
      match h2[item]? with
      | none => .err .data
      | some (.pair l r) =>
        match h2[l]? with
        | none => .err .data
        | some (.sym s) =>
          match h2[cur + len]? with
          | none => .err .data
          | some _ => .ok (h2.setIfInBounds (cur + len) (.assoc s r))
        | some _ => .ok h2
      | some _ => .ok h2
  | some _ => .err .data                                   -- `as_uninitialized_list_mut`

/-- the comparator handed to `sort_by` in `end_list` -/
def cmpCell : BCell → BCell → Ordering
  | .assoc s1 _, .assoc s2 _ => compare s1 s2
  | .assoc _ _, _ => .lt
  | _, .assoc _ _ => .gt
  | _, _ => .eq

/-- `slice::sort_by` is a stable sort; `cmpCell` is a total preorder, so its result is the unique stable
arrangement, which insertion sort (new element in front of its equals, elements taken from the back) computes. -/
def insertStable (x : BCell) : List BCell → List BCell
  | [] => [x]
  | y :: ys => if cmpCell x y = .gt then y :: insertStable x ys else x :: y :: ys

def sortStable : List BCell → List BCell
  | [] => []
  | x :: xs => insertStable x (sortStable xs)

/-- `end_list` -/
def endListBasic (h : BHeap) (li : Nat) : Outcome (BHeap × Nat) :=
  match h[li]? with
  | none => .err .data
  | some (.uninitList len count) =>
    if count < len then .err .data else                   -- NotFullyInitializedList
    let start := li + 1 + len
    if start + len > h.size then .panic "end_list: data_mut()[associations_range]" else
    let slots := (h.extract start (start + len)).toList
    let k := slots.countP (fun c => c != .empty)
    let sorted := sortStable slots
    let h' := h.extract 0 start ++ sorted.toArray ++ h.extract (start + len) h.size
    .ok (h'.setIfInBounds li (.list len k), li)
  | some _ => .err .data

/-- `add_to_list` for every item in order -/
def addAll (li : Nat) : List Nat → BHeap → Outcome BHeap
  | [], h => .ok h
  | a :: as, h =>
    match addToList h li a with
    | .ok h' => addAll li as h'
    | .err e => .err e
    | .panic m => .panic m
    | .fuelOut => .fuelOut

/-- `start_list(n); add_to_list(item)…; end_list` as the runtime's `make_list` and every builder call them -/
def buildListBasic (h : BHeap) (items : List Nat) : Outcome (BHeap × Nat) :=
  match addAll h.size items (startList h items.length).1 with
  | .ok h1 => endListBasic h1 h.size
  | .err e => .err e
  | .panic m => .panic m
  | .fuelOut => .fuelOut

/-- `search_for_associative_item_index`, the `while size > 1` loop -/
def searchLoop (items : Array BCell) (s : Nat) (base size : Nat) : Outcome Nat :=
  if _h : size > 1 then
    let half := size / 2
    let mid := base + half
    match items[mid]? with
    | none => .panic "search: items[mid]"
    | some (.assoc k _) => searchLoop items s (if compare k s = .gt then base else mid) (size - half)
    | some _ => .err .data                                  -- `as_associative_item`
  else .ok base
termination_by size
decreasing_by omega

/-- `search_for_associative_item_index` -/
def searchAssoc (items : Array BCell) (s : Nat) : Outcome (Option Nat) :=
  if items.size = 0 then .ok none else
  match searchLoop items s 0 items.size with
  | .ok base =>
    match items[base]? with
    | none => .panic "search: items[base]"
    | some (.assoc k _) => if k = s then .ok (some base) else .ok none
    | some _ => .err .data
  | .err e => .err e
  | .panic m => .panic m
  | .fuelOut => .fuelOut

/-- `get_list_item_with_symbol` -/
def lookupBasic (h : BHeap) (li : Nat) (s : Nat) : Outcome (Option Nat) :=
  match h[li]? with
  | some (.list len k) =>
    let start := li + len + 1
    if start + k > h.size then .panic "get_list_item_with_symbol: data()[association_range]" else
    let slice := h.extract start (start + k)
    match searchAssoc slice s with
    | .ok (some idx) =>
      match slice[idx]? with
      | some (.assoc _ v) => .ok (some v)
      | some _ => .err .data
      | none => .panic "search: items[index]"
    | .ok none => .ok none
    | .err e => .err e
    | .panic m => .panic m
    | .fuelOut => .fuelOut
  | _ => .err .data                                         -- bad address / `as_list`

def listLenBasic (h : BHeap) (li : Nat) : Outcome Nat :=
  match h[li]? with
  | some (.list len _) => .ok len
  | _ => .err .data

/-- `get_list_item`: a negative index is no item (fix commit); `index >= len` is an error -/
def listItemBasic (h : BHeap) (li : Nat) (idx : Int) : Outcome (Option Nat) :=
  match h[li]? with
  | some (.list len _) =>
    if idx < 0 then .ok none else
    let index := (max idx 0).toNat
    if index ≥ len then .err .data else                      -- InvalidListItemIndex
    match h[li + 1 + index]? with
    | some (.listItem a) => .ok (some a)
    | _ => .err .data
  | _ => .err .data

/-- every cell must be a `ListItem` -/
def listItemsOf : List BCell → Outcome (List Nat)
  | [] => .ok []
  | .listItem a :: rest =>
    match listItemsOf rest with
    | .ok xs => .ok (a :: xs)
    | e => e
  | _ :: _ => .err .data                                     -- NotAListItem

/-- `get_list_item_iter` with the full extents `0 .. max` -/
def listIterBasic (h : BHeap) (li : Nat) : Outcome (List Nat) :=
  match h[li]? with
  | some (.list len _) =>
    if li + 1 + len > h.size then .panic "get_list_item_iter: data()[start..end]" else
    listItemsOf (h.extract (li + 1) (li + 1 + len)).toList
  | _ => .err .data

/-- `get_concatenation_iter`, the `while let Some(index) = stack.pop()` -/
def collectConcatBasic (h : BHeap) : Nat → List Nat → List Nat → Outcome (List Nat)
  | _, [], acc => .ok acc.reverse
  | 0, _ :: _, _ => .fuelOut
  | fuel + 1, index :: stack, acc =>
    match h[index]? with
    | none => .err .data
    | some (.concat l r) => collectConcatBasic h fuel (l :: r :: stack) acc
    | some (.list _ _) =>
      match listIterBasic h index with
      | .ok items => collectConcatBasic h fuel stack (items.reverse ++ acc)
      | e => e
    | some _ => collectConcatBasic h fuel stack (index :: acc)

/-- `get_concatenation_iter` with the full extents -/
def concatIterBasic (h : BHeap) (fuel : Nat) (addr : Nat) : Outcome (List Nat) :=
  match h[addr]? with
  | some (.concat _ _) => collectConcatBasic h fuel [addr] []
  | _ => .err .data                                          -- `as_concatenation`

/-! ## runtime: `index_list` over either data implementation -/

/-- what `index_list` hands back: no item, an item address, or a freshly added unit (`get_list_item` said
`None` inside the range — no shipped implementation does) -/
inductive Nth where
  | none
  | item (a : Nat)
  | freshUnit
deriving DecidableEq, Repr

/-- `index_list` for an integer index; `len` = `get_list_len(list)`, `item` = `get_list_item(list, ·)`.
`||` short-circuits: the length is not read for a negative index. -/
def indexList (len : Outcome Nat) (item : Int → Outcome (Option Nat)) (idx : Int) : Outcome Nth :=
  if idx < 0 then .ok .none else
  match len with
  | .ok n =>
    if idx ≥ (n : Int) then .ok .none else
    match item idx with
    | .ok (some a) => .ok (.item a)
    | .ok none => .ok .freshUnit
    | .err e => .err e
    | .panic m => .panic m
    | .fuelOut => .fuelOut
  | .err e => .err e
  | .panic m => .panic m
  | .fuelOut => .fuelOut

end Garnish.Store.Lists
