/-
L2 code model of compaction and cloning on `BasicGarnishData`:
  data/src/basic/ordering.rs  `create_index_stack`
  data/src/basic/clone.rs     `clone_index_stack`, `lookup_in_data_slice(_optional)`
  data/src/basic/optimize.rs  `optimize_data_block_and_retain`
  data/src/basic/basic.rs     `optimize`, `clone_data`, `retain_all_current_data`, `set_data_retention_count`
and of the public operations the OPT scripts use to build a heap (garnish_impl.rs: adds, lists,
stacks, `parse_add_symbol`; merge_to_symbol_list.rs).

Every `?` of the Rust is an `Outcome.err .data` (all of them are `DataError`s), every unchecked
subtraction / slice is an `Outcome.panic` naming the site (the harness is built with overflow checks,
as is any debug build; a release build wraps instead), loops that are not `for` loops over a fixed
range carry explicit fuel.

Addresses.  `index`/`cursor` values are relative to the data block; `lookup_in_data_slice_optional`
slices the *whole heap* (`&self.data()[start..end]`), so its `start`/`end` are heap-absolute.
`clone_index_stack` passes absolute bounds; `optimize_data_block_and_retain` passes
`lookup_start = data_block.start + index_list_start` and the absolute `index_list_end` (since the fix
commit "optimize looks mappings up from the heap index of the index list"; before it the relative
`index_list_start` was passed and stale `CloneIndexMap` cells of an earlier `clone_data` were searched too).
After cloning, `optimize` walks the input-value chain and re-points the `value` link of retained
`Value`/`ValueRoot` cells that refer above the retained prefix (fix commit "optimize re-points input-value
cells of the retained prefix that were updated in place"): `repointLoop`.
Modelling assumption (checked by the harness on every case: it reports any `CloneIndexMap` cell outside
the data block): the instruction, jump, symbol and expression-symbol blocks contain no `CloneIndexMap`
cell, so heap positions below `data_block.start` never match a lookup.
-/
import Garnish.Store.BasicCells
namespace Garnish.BasicOpt
open Garnish

namespace Store

/-! ### ordering.rs -/

/-- `for i in start..end { item = get(i)?.as_list_item()?; push(CloneItem(item))? }` -/
def pushListItems : Store → Nat → Nat → Outcome Store
  | s, _, 0 => .ok s
  | s, i, n + 1 => do
    let c ← s.get i
    match c with
    | .listItem item => do
      let (s, _) ← s.push (.cloneItem item)
      pushListItems s (i + 1) n
    | _ => .err .data

/-- the `UninitializedList` arm: `ListItem` pushes, `Empty` is skipped, anything else is an error -/
def pushUninitItems : Store → Nat → Nat → Outcome Store
  | s, _, 0 => .ok s
  | s, i, n + 1 => do
    let c ← s.get i
    match c with
    | .listItem item => do
      let (s, _) ← s.push (.cloneItem item)
      pushUninitItems s (i + 1) n
    | .empty => pushUninitItems s (i + 1) n
    | _ => .err .data

def push2 (s : Store) (a b : Nat) : Outcome Store := do
  let (s, _) ← s.push (.cloneItem a)
  let (s, _) ← s.push (.cloneItem b)
  pure s

def push1 (s : Store) (a : Nat) : Outcome Store := do
  let (s, _) ← s.push (.cloneItem a)
  pure s

/-- body of the `match` in `create_index_stack` for the cell `c` found at `index` -/
def pushChildren (s : Store) (index : Nat) (c : Cell) : Outcome Store :=
  match c with
  | .pair l r | .range l r | .slice l r | .partial_ l r | .concatenation l r => push2 s r l
  | .list length _ => pushListItems s (index + 1) length
  | .uninitializedList _ count => pushUninitItems s (index + 1) count
  | .value p v | .register p v | .frame p v => push2 s p v
  | .valueRoot v | .registerRoot v | .instructionWithData _ v | .frameIndex v | .frameRegister v => push1 s v
  | _ => .ok s

/-- the `while current < cursor` loop; at most `maxIter + 1` bodies run before `CloneLimitReached` -/
def indexLoop (maxIter : Nat) : Nat → Store → Nat → Nat → Outcome Store
  | 0, _, _, _ => .fuelOut
  | fuel + 1, s, current, iterations =>
    if current < s.cursor then do
      let ci ← s.get current
      match ci with
      | .cloneItem index => do
        let c ← s.get index
        let s ← pushChildren s index c
        if iterations + 1 > maxIter then .err .data
        else indexLoop maxIter fuel s (current + 1) (iterations + 1)
      | _ => .err .data
    else .ok s

/-- `create_index_stack(from)`: returns the store and the (relative) index of the first `CloneItem` -/
def createIndexStack (s : Store) (frm : Nat) : Outcome (Store × Nat) := do
  let (s, start) ← s.push (.cloneItem frm)
  let maxIter := (s.size / 2) ^ 2
  let s ← indexLoop maxIter (maxIter + 2) s start 0
  pure (s, start)

/-! ### clone.rs -/

/-- `find_map` over data cells `lo, lo+1, …` (`n` of them) for `CloneIndexMap(idx, new)` -/
def findMap (cells : Array Cell) (idx : Nat) : Nat → Nat → Option Nat
  | _, 0 => none
  | lo, n + 1 =>
    match cells[lo]? with
    | some (.cloneIndexMap o nw) => if o = idx then some nw else findMap cells idx (lo + 1) n
    | _ => findMap cells idx (lo + 1) n

/-- `lookup_in_data_slice_optional(start, end, lookup_index)`, `start`/`end` heap-absolute.
Positions below `data_block.start` belong to other blocks (no `CloneIndexMap` there), positions at or
above the cursor are `Empty`/custom cells. -/
def lookupOpt (s : Store) (absStart absEnd idx : Nat) : Outcome (Option Nat) :=
  if idx < s.retention then .ok (some idx)
  else if absStart > absEnd then .panic "clone.rs:lookup_slice start>end"
  else if absEnd > s.custom.start + s.custom.size then .panic "clone.rs:lookup_slice end>len"
  else
    let lo := absStart - s.start
    let hi := absEnd - s.start
    .ok (findMap s.cells idx lo (hi - lo))

/-- `lookup_in_data_slice` -/
def lookup (s : Store) (absStart absEnd idx : Nat) : Outcome Nat := do
  match ← lookupOpt s absStart absEnd idx with
  | some v => pure v
  | none => .err .data

/-- `for i in start..end { push(get(i)?.clone())? }` -/
def copyCells : Store → Nat → Nat → Outcome Store
  | s, _, 0 => .ok s
  | s, i, n + 1 => do
    let c ← s.get i
    let (s, _) ← s.push c
    copyCells s (i + 1) n

/-- item / association slots of a list being cloned -/
def cloneSlots (ls le : Nat) : Store → Nat → Nat → Outcome Store
  | s, _, 0 => .ok s
  | s, i, n + 1 => do
    let c ← s.get i
    match c with
    | .listItem item => do
      let item ← lookup s ls le item
      let (s, _) ← s.push (.listItem item)
      cloneSlots ls le s (i + 1) n
    | .associativeItem sym item => do
      let item ← lookup s ls le item
      let (s, _) ← s.push (.associativeItem sym item)
      cloneSlots ls le s (i + 1) n
    | .empty => do
      let (s, _) ← s.push .empty
      cloneSlots ls le s (i + 1) n
    | _ => .err .data

/-- `get(index - 1)?.as_jump_point()?` (`index - 1` is an unchecked subtraction) -/
def jumpBefore (s : Store) (index : Nat) : Outcome Nat :=
  match index with
  | 0 => .panic "clone.rs:index-1"
  | i + 1 => do
    match ← s.get i with
    | .jumpPoint p => pure p
    | _ => .err .data

/-- cells with links: every arm of `clone_index_stack` for such a cell first looks all links up
(`lookup_in_data_slice`, and the return point before a frame cell) and only then pushes; the result is
the one or two cells it pushes, in order -/
def relink (s : Store) (ls le index : Nat) : Cell → Outcome (List Cell)
  | .pair l r => do
    let l ← lookup s ls le l
    let r ← lookup s ls le r
    pure [.pair l r]
  | .range l r => do
    let l ← lookup s ls le l
    let r ← lookup s ls le r
    pure [.range l r]
  | .slice l r => do
    let l ← lookup s ls le l
    let r ← lookup s ls le r
    pure [.slice l r]
  | .partial_ l r => do
    let l ← lookup s ls le l
    let r ← lookup s ls le r
    pure [.partial_ l r]
  | .concatenation l r => do
    let l ← lookup s ls le l
    let r ← lookup s ls le r
    pure [.concatenation l r]
  | .value p v => do
    let p ← lookup s ls le p
    let v ← lookup s ls le v
    pure [.value p v]
  | .valueRoot v => do
    let v ← lookup s ls le v
    pure [.valueRoot v]
  | .register p v => do
    let p ← lookup s ls le p
    let v ← lookup s ls le v
    pure [.register p v]
  | .registerRoot v => do
    let v ← lookup s ls le v
    pure [.registerRoot v]
  | .instructionWithData code d => do
    let d ← lookup s ls le d
    pure [.instructionWithData code d]
  | .frame p r => do
    let point ← jumpBefore s index
    let p ← lookup s ls le p
    let r ← lookup s ls le r
    pure [.jumpPoint point, .frame p r]
  | .frameIndex p => do
    let point ← jumpBefore s index
    let p ← lookup s ls le p
    pure [.jumpPoint point, .frameIndex p]
  | .frameRegister r => do
    let point ← jumpBefore s index
    let r ← lookup s ls le r
    pure [.jumpPoint point, .frameRegister r]
  | .frameRoot => do
    let point ← jumpBefore s index
    pure [.jumpPoint point, .frameRoot]
  | _ => .err .data

/-- push the cells in order; the index of the last one pushed is the clone's address -/
def pushLast : Store → List Cell → Nat → Outcome (Store × Nat)
  | s, [], last => .ok (s, last)
  | s, c :: cs, _ => do
    let (s, i) ← s.push c
    pushLast s cs i

/-- the `None` arm of `clone_index_stack`: copy the cell `c` found at `index` to the end of the block,
children looked up in `[ls, le)`; returns the (relative) index the copy got -/
def cloneCell (s : Store) (ls le index : Nat) (c : Cell) : Outcome (Store × Nat) :=
  match c with
  | .unit | .tru | .fls | .type _ | .number _ | .char _ | .byte _ | .symbol _ | .expression _
  | .external _ | .custom | .empty | .instruction _ | .jumpPoint _ => s.push c
  | .symbolList len | .charList len | .byteList len => do
    let (s, li) ← s.push c
    let s ← copyCells s (index + 1) len
    pure (s, li)
  | .list length _ | .uninitializedList length _ => do
    let (s, li) ← s.push c
    let s ← cloneSlots ls le s (index + 1) (length * 2)
    pure (s, li)
  | .listItem _ | .associativeItem _ _ | .cloneItem _ | .cloneIndexMap _ _ => .err .data
  | _ => do
    let cells ← relink s ls le index c
    pushLast s cells 0

/-- `*get_mut(i)? = cell` -/
def setCell (s : Store) (i : Nat) (c : Cell) : Outcome Store :=
  if i < s.cells.size then .ok { s with cells := s.cells.setIfInBounds i c } else .err .data

/-- `for i in clone_range.rev()`: `k` iterations remain, the next one handles `i = top + k - 1`;
`lookup_start` has been decremented once per finished iteration, i.e. it is `start + i + 1`. -/
def cloneLoop (offset lookupEnd top : Nat) : Nat → Store → Outcome Store
  | 0, s => .ok s
  | k + 1, s => do
    let i := top + k
    let lookupStart := s.start + i + 1
    match ← s.get i with
    | .cloneItem index => do
      let existing ← lookupOpt s lookupStart lookupEnd index
      let (s, newIndex) ← (match existing with
        | some j => (pure (s, j) : Outcome (Store × Nat))
        | none => do
          let c ← s.get index
          let (s, ni) ← cloneCell s lookupStart lookupEnd index c
          if ni < s.retention then pure (s, ni)
          else if ni < offset then .panic "clone.rs:new_index-offset"
          else pure (s, ni - offset))
      let s ← setCell s i (.cloneIndexMap index newIndex)
      cloneLoop offset lookupEnd top k s
    | _ => .err .data

/-- `clone_index_stack(top_index, offset)` -/
def cloneIndexStack (s : Store) (top offset : Nat) : Outcome (Store × Nat) := do
  let cursor0 := s.cursor
  let lookupEnd := s.start + cursor0
  let s ← cloneLoop offset lookupEnd top (cursor0 - top) s
  match ← s.get top with
  | .cloneIndexMap _ nw => pure (s, nw)
  | _ => .err .data

/-- `clone_data` -/
def cloneData (s : Store) (index : Nat) : Outcome (Store × Nat) := do
  let (s, st) ← createIndexStack s index
  cloneIndexStack s st 0

/-! ### optimize.rs -/

/-- `get_from_symbol_table_block_ensure_index(i)` for every `i < cursor` -/
def symEntry (s : Store) (i : Nat) : Outcome (Nat × Nat) :=
  match s.symtab[i]? with
  | some (.associativeItem sym di) => .ok (sym, di)
  | some _ => .err .data
  | none => .err .data

def indexSymbols : Store → Nat → Nat → Outcome Store
  | s, _, 0 => .ok s
  | s, i, n + 1 => do
    let (_, di) ← symEntry s i
    let (s, _) ← createIndexStack s di
    indexSymbols s (i + 1) n

def indexOpt (s : Store) : Option Nat → Outcome Store
  | none => .ok s
  | some i => do
    let (s, _) ← createIndexStack s i
    pure s

def indexRoots : Store → List Nat → Outcome Store
  | s, [] => .ok s
  | s, r :: rs => do
    let (s, _) ← createIndexStack s r
    indexRoots s rs

def remapSymbols (ls le : Nat) : Store → Nat → Nat → Outcome Store
  | s, _, 0 => .ok s
  | s, i, n + 1 => do
    let (sym, di) ← symEntry s i
    let m ← lookup s ls le di
    remapSymbols ls le { s with symtab := s.symtab.setIfInBounds i (.associativeItem sym m) } (i + 1) n

def remapOpt (s : Store) (ls le : Nat) : Option Nat → Outcome (Option Nat)
  | none => .ok none
  | some i => do
    let m ← lookup s ls le i
    pure (some m)

def remapRoots (s : Store) (ls le : Nat) : List Nat → Outcome (List Nat)
  | [] => .ok []
  | r :: rs => do
    let m ← lookup s ls le r
    let ms ← remapRoots s ls le rs
    pure (m :: ms)

/-- `for i in from_range { data[current] = data[i].clone(); current += 1 }` on data-relative indices -/
def slide : Array Cell → Nat → Nat → Nat → Array Cell
  | cells, _, _, 0 => cells
  | cells, dst, src, n + 1 => slide (cells.setIfInBounds dst (cells.getD src .empty)) (dst + 1) (src + 1) n

/-- one body of the re-pointing `while let Some(index) = next_value` loop: `none` = `break` on a cell that
is not a `Value`/`ValueRoot`, `some previous` = continue with `next_value = previous` -/
def repointStep (ls le : Nat) (s : Store) (index : Nat) : Outcome (Store × Option (Option Nat)) := do
  let c ← s.get index
  match c with
  | .value previous value =>
    if index < s.retention ∧ value ≥ s.retention then do
      let mapped ← lookup s ls le value
      let s ← setCell s index (.value previous mapped)
      pure (s, some (some previous))
    else pure (s, some (some previous))
  | .valueRoot value =>
    if index < s.retention ∧ value ≥ s.retention then do
      let mapped ← lookup s ls le value
      let s ← setCell s index (.valueRoot mapped)
      pure (s, some none)
    else pure (s, some none)
  | _ => pure (s, none)

/-- the re-pointing loop with its `remaining` counter (`if remaining == 0 { break } remaining -= 1` after
each body): at most `remaining + 1` bodies run -/
def repointLoop (ls le : Nat) : Nat → Store → Option Nat → Outcome Store
  | _, s, none => .ok s
  | 0, s, some index => do
    let (s, _) ← repointStep ls le s index
    pure s
  | remaining + 1, s, some index => do
    let (s, next) ← repointStep ls le s index
    match next with
    | none => pure s
    | some previous => repointLoop ls le remaining s previous

/-- `optimize_data_block_and_retain(additional_data_retentions)` after its entry guard -/
def optimizeBody (s : Store) (roots : List Nat) : Outcome (Store × List Nat) := do
  let currentDataEnd := s.start + s.cursor
  let retainedDataEnd := s.start + s.retention
  let originalRegister := s.currentRegister
  let originalValue := s.currentValue
  let originalFrame := s.currentFrame
  -- relative
  let indexListStart := s.cursor
  -- absolute
  let lookupStart := s.start + indexListStart
  let symCount := s.symtab.size
  let s ← indexSymbols s 0 symCount
  let s ← indexOpt s originalRegister
  let s ← indexOpt s originalValue
  let s ← indexOpt s originalFrame
  let s ← indexRoots s roots
  -- absolute
  let indexListEnd := s.start + s.cursor
  if s.start + s.cursor < retainedDataEnd then .panic "optimize.rs:42 subtract with overflow" else
  let offset := s.start + s.cursor - retainedDataEnd
  let s ← (if indexListEnd ≠ currentDataEnd then do
      let (s, _) ← cloneIndexStack s indexListStart offset
      pure s
    else pure s : Outcome Store)
  let s ← repointLoop lookupStart indexListEnd (currentDataEnd - s.start) s originalValue
  let s ← remapSymbols lookupStart indexListEnd s 0 symCount
  let reg ← remapOpt s lookupStart indexListEnd originalRegister
  let s := (match reg with | some r => { s with currentRegister := some r } | none => s)
  let val ← remapOpt s lookupStart indexListEnd originalValue
  let s := (match val with | some r => { s with currentValue := some r } | none => s)
  let fr ← remapOpt s lookupStart indexListEnd originalFrame
  let s := (match fr with | some r => { s with currentFrame := some r } | none => s)
  let mapped ← remapRoots s lookupStart indexListEnd roots
  let newDataEnd := s.start + s.cursor
  let n := newDataEnd - indexListEnd
  let moved := slide s.cells s.retention (indexListEnd - s.start) n
  let newCursor := s.retention + n
  -- cursor := current - start; cells in `current..new_data_end` are set to `Empty`
  pure ({ s with cells := moved.extract 0 newCursor }, mapped)

/-- `optimize_data_block_and_retain(additional_data_retentions)` = `optimize`: a retention count beyond the
existing data is an `Err` before anything is touched (fix commit "optimize returns an error for a data
retention count beyond the existing data instead of panicking on an underflow") -/
def optimize (s : Store) (roots : List Nat) : Outcome (Store × List Nat) :=
  if s.retention > s.cursor then .err .data else optimizeBody s roots

def retainAll (s : Store) : Store := { s with retention := s.cursor }
def setRetention (s : Store) (n : Nat) : Store := { s with retention := n }

/-! ### public operations used to build heaps (garnish_impl.rs) -/

def pushRegister (s : Store) (v : Nat) : Outcome Store := do
  let (s, i) ← (match s.currentRegister with
    | some p => s.push (.register p v)
    | none => s.push (.registerRoot v))
  pure { s with currentRegister := some i }

def pushValue (s : Store) (v : Nat) : Outcome Store := do
  let (s, i) ← (match s.currentValue with
    | some p => s.push (.value p v)
    | none => s.push (.valueRoot v))
  pure { s with currentValue := some i }

def pushFrame (s : Store) (ret : Nat) : Outcome Store := do
  let (s, _) ← s.push (.jumpPoint ret)
  let cell := (match s.currentFrame, s.currentRegister with
    | some f, some r => Cell.frame f r
    | some f, none => .frameIndex f
    | none, some r => .frameRegister r
    | none, none => .frameRoot)
  let (s, i) ← s.push cell
  pure { s with currentFrame := some i }

/-- `pop_register` -/
def popRegister (s : Store) : Outcome (Store × Option Nat) :=
  match s.currentRegister with
  | none => .ok (s, none)
  | some i => do
    match ← s.get i with
    | .register p v => pure ({ s with currentRegister := some p }, some v)
    | .registerRoot v => pure ({ s with currentRegister := none }, some v)
    | _ => .err .data

/-- `pop_value_stack` (returns `None` on any malformed head, leaving the head in place) -/
def popValue (s : Store) : Store × Option Nat :=
  match s.currentValue with
  | none => (s, none)
  | some i =>
    match s.cells[i]? with
    | some (.value p v) => ({ s with currentValue := some p }, some v)
    | some (.valueRoot v) => ({ s with currentValue := none }, some v)
    | _ => (s, none)

/-- `*get_current_value_mut() = v` (runtime `update_value`, top-level `end_expression`, reapply): the top
`Value`/`ValueRoot` cell is overwritten in place; `None` (an `Err` for the caller) on a malformed head -/
def setCurrentValue (s : Store) (v : Nat) : Outcome Store :=
  match s.currentValue with
  | none => .err .state
  | some i =>
    match s.cells[i]? with
    | some (.value p _) => setCell s i (.value p v)
    | some (.valueRoot _) => setCell s i (.valueRoot v)
    | _ => .err .state

/-- `pop_frame` (`index - 1` unchecked) -/
def popFrame (s : Store) : Outcome (Store × Option Nat) :=
  match s.currentFrame with
  | none => .ok (s, none)
  | some i => do
    let ret ← jumpBefore s i
    match ← s.get i with
    | .frame p r => pure ({ s with currentFrame := some p, currentRegister := some r }, some ret)
    | .frameIndex p => pure ({ s with currentFrame := some p, currentRegister := none }, some ret)
    | .frameRegister r => pure ({ s with currentFrame := none, currentRegister := some r }, some ret)
    | .frameRoot => pure ({ s with currentFrame := none, currentRegister := none }, some ret)
    | _ => .err .data

def pushAll : Store → List Cell → Outcome Store
  | s, [] => .ok s
  | s, c :: cs => do
    let (s, _) ← s.push c
    pushAll s cs

/-- `add_string` / `add_byte_slice` / `parse_add_char_list`: header then the items -/
def addInline (s : Store) (header : Cell) (items : List Cell) : Outcome (Store × Nat) := do
  let (s, i) ← s.push header
  let s ← pushAll s items
  pure (s, i)

/-- `start_list(len)` -/
def startList (s : Store) (len : Nat) : Outcome (Store × Nat) := do
  let (s, i) ← s.push (.uninitializedList len 0)
  let s ← pushAll s (List.replicate (len * 2) .empty)
  pure (s, i)

/-- `add_to_list(list_index, item_index)` -/
def addToList (s : Store) (li item : Nat) : Outcome Store := do
  match ← s.get li with
  | .uninitializedList len count =>
    if count ≥ len then .err .data else do
    let cur := li + 1 + count
    let s ← setCell s li (.uninitializedList len (count + 1))
    let s ← setCell s cur (.listItem item)
    match ← s.get item with
    | .pair l r => do
      match ← s.get l with
      | .symbol sym => setCell s (cur + len) (.associativeItem sym r)
      | _ => pure s
    | _ => pure s
  | _ => .err .data

/-- comparator of the `sort_by` calls (stable sort: `AssociativeItem`s by symbol first, the rest after) -/
def assocLe : Cell → Cell → Bool
  | .associativeItem a _, .associativeItem b _ => a ≤ b
  | .associativeItem _ _, _ => true
  | _, .associativeItem _ _ => false
  | _, _ => true

def setRange : Array Cell → Nat → List Cell → Array Cell
  | cells, _, [] => cells
  | cells, i, c :: cs => setRange (cells.setIfInBounds i c) (i + 1) cs

/-- `end_list(list_index)`; the association slice is `&mut data[start..start+len]` (panics past the heap) -/
def endList (s : Store) (li : Nat) : Outcome (Store × Nat) := do
  match ← s.get li with
  | .uninitializedList len count =>
    if count < len then .err .data else
    let a := li + 1 + len
    if s.start + a + len > s.custom.start + s.custom.size then .panic "garnish_impl.rs:end_list slice" else
    let slots := (List.range len).map (fun j => s.cells.getD (a + j) .empty)
    let k := (slots.filter (fun c => c != .empty)).length
    let sorted := slots.mergeSort assocLe
    let s := { s with cells := setRange s.cells a sorted }
    let s ← setCell s li (.list len k)
    pure (s, li)
  | _ => .err .data

/-- a whole list the way `values::build` and the runtime's `make_list` construct it: `start_list(len)`, one
`add_to_list` per item (the items exist already), `end_list` -/
def buildList (s : Store) (items : List Nat) : Outcome (Store × Nat) := do
  let (s, li) ← s.startList items.length
  let s ← items.foldlM (fun s a => s.addToList li a) s
  s.endList li

/-- `merge_to_symbol_list(first, second)` -/
def mergeToSymbolList (s : Store) (first second : Nat) : Outcome (Store × Nat) := do
  let a ← s.get first
  let b ← s.get second
  let isPart : Cell → Bool := isSymPart
  match a, b with
  | .symbolList n1, .symbolList n2 => do
    let (s, i) ← s.push (.symbolList (n1 + n2))
    let s ← copyCells s (first + 1) n1
    let s ← copyCells s (second + 1) n2
    pure (s, i)
  | .symbolList n1, y =>
    if isPart y then do
      let (s, i) ← s.push (.symbolList (n1 + 1))
      let s ← copyCells s (first + 1) n1
      let (s, _) ← s.push y
      pure (s, i)
    else s.push .unit
  | x, .symbolList n2 =>
    if isPart x then do
      let (s, i) ← s.push (.symbolList (n2 + 1))
      let (s, _) ← s.push x
      let s ← copyCells s (second + 1) n2
      pure (s, i)
    else s.push .unit
  | x, y =>
    if isPart x && isPart y then do
      let (s, i) ← s.push (.symbolList 2)
      let (s, _) ← s.push x
      let (s, _) ← s.push y
      pure (s, i)
    else s.push .unit

/-- `push_to_symbol_table_block(symbol, value)`: append, then stable sort by symbol = insert after the
last entry whose symbol is `≤` the new one -/
def pushSymbol (s : Store) (sym di : Nat) : Store :=
  let grown := s.symtab.size ≥ s.symSize
  let s1 := if grown then
      { s with symSize := s.symSize + s.symGrow, start := s.start + s.symGrow
               expr := { s.expr with start := s.expr.start + s.symGrow }
               custom := { s.custom with start := s.custom.start + s.symGrow } }
    else s
  let sorted := (s1.symtab.toList ++ [Cell.associativeItem sym di]).mergeSort assocLe
  { s1 with symtab := sorted.toArray }

/-- `parse_add_symbol(name)` with the symbol value `sym = symbol_value(name)` supplied by the caller -/
def parseAddSymbol (s : Store) (sym : Nat) (name : List Nat) : Outcome (Store × Nat) := do
  let (s, si) ← s.push (.symbol sym)
  let (s, li) ← addInline s (.charList name.length) (name.map .char)
  pure (pushSymbol s sym li, si)

/-- binary search of search.rs over `AssociativeItem`s (`items[mid].as_associative_item()?`) -/
def searchAssoc (items : List Cell) (sym : Nat) : Outcome (Option Nat) :=
  let arr := items.toArray
  let key (i : Nat) : Outcome Nat := match arr[i]? with
    | some (.associativeItem s _) => .ok s
    | some _ => .err .data
    | none => .panic "search.rs:index"
  let rec go : Nat → Nat → Nat → Outcome Nat
    | 0, base, _ => .ok base
    | fuel + 1, base, size =>
      if size > 1 then do
        let half := size / 2
        let mid := base + half
        let k ← key mid
        go fuel (if k > sym then base else mid) (size - half)
      else .ok base
  if arr.size = 0 then .ok none else do
    let base ← go (arr.size + 1) 0 arr.size
    let k ← key base
    pure (if k = sym then some base else none)

end Store
end Garnish.BasicOpt
