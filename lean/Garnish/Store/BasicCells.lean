/-
L2 code model of the heap cells of `BasicGarnishData` (data/src/basic/data.rs, basic.rs, internal.rs):
the `BasicData` cell type, the data block with its heads and the symbol-name table, and the
structural read-back (`shape` / `unfold` / `decode`) of the value graph stored in it.

Payload conventions: chars, bytes, symbols, jump points are `Nat`; a number is an opaque `Nat`
(the driver encodes `SimpleNumber` injectively, theorems never look inside); `Custom(T)` is modelled
at `T = ()` (a leaf: the default `push_clone_items_for_custom_data` pushes nothing and the default
`create_cloned_custom_data` returns the value); instruction cells carry an opaque instruction code.

Block model.  Only the data block and the symbol-name table are modelled cell by cell; the other four
blocks are represented by their (start, cursor, size) triples because `optimize` never touches them.
`cells` is the data block `[0, cursor)`: every heap cell of a block at or above its cursor is
`Empty` (`reallocate_heap` copies only `[0, cursor)` into a fresh `Empty` vector, `optimize` clears
its tail, nothing else lowers a cursor), so `cells.size` *is* the cursor.
-/
import Garnish.Model.Outcome
import Garnish.Abs.Val
namespace Garnish.BasicOpt
open Garnish Gen

/-- `BasicData<()>` (declaration order of data.rs) -/
inductive Cell where
  | unit | tru | fls
  | type (t : Ty)
  | number (n : Nat)
  | char (c : Nat)
  | byte (b : Nat)
  | symbol (s : Nat)
  | symbolList (n : Nat)
  | expression (e : Nat)
  | external (e : Nat)
  | charList (n : Nat)
  | byteList (n : Nat)
  | pair (l r : Nat)
  | range (l r : Nat)
  | slice (l r : Nat)
  | partial_ (l r : Nat)
  | list (len assoc : Nat)
  | concatenation (l r : Nat)
  | custom
  | empty
  | uninitializedList (len count : Nat)
  | listItem (i : Nat)
  | associativeItem (sym idx : Nat)
  | value (prev v : Nat)
  | valueRoot (v : Nat)
  | register (prev v : Nat)
  | registerRoot (v : Nat)
  | instructionWithData (code d : Nat)
  | instruction (code : Nat)
  | jumpPoint (p : Nat)
  | frame (prev reg : Nat)
  | frameIndex (prev : Nat)
  | frameRegister (reg : Nat)
  | frameRoot
  | cloneItem (i : Nat)
  | cloneIndexMap (orig new : Nat)
deriving DecidableEq, Repr, Inhabited

/-- a storage block that is not modelled cell by cell: `StorageBlock {start, cursor, size}` -/
structure BlockInfo where
  start : Nat
  cursor : Nat
  size : Nat
deriving DecidableEq, Repr, Inhabited

/-- `BasicGarnishData` restricted to what `optimize` / `clone_data` read and write -/
structure Store where
  /-- data block `[0, cursor)` -/
  cells : Array Cell
  /-- `data_block.size` (allocated) -/
  size : Nat
  /-- `data_block.start` (heap index of data cell 0) -/
  start : Nat
  /-- `ReallocationStrategy::FixedSize(grow)` of the data block (default 10) -/
  grow : Nat
  /-- symbol-name table `[0, cursor)`: `AssociativeItem(symbol, dataIndex)` sorted by symbol -/
  symtab : Array Cell
  symSize : Nat
  symGrow : Nat
  instr : BlockInfo
  jump : BlockInfo
  expr : BlockInfo
  custom : BlockInfo
  currentValue : Option Nat
  currentRegister : Option Nat
  currentFrame : Option Nat
  retention : Nat
deriving Repr, Inhabited

namespace Store

def cursor (s : Store) : Nat := s.cells.size

/-- `BasicGarnishData::new` with default settings: six blocks of 10, `FixedSize(10)` -/
def fresh : Store :=
  { cells := #[], size := 10, start := 40, grow := 10, symtab := #[], symSize := 10, symGrow := 10
    instr := ⟨0, 0, 10⟩, jump := ⟨10, 0, 10⟩, expr := ⟨30, 0, 10⟩, custom := ⟨50, 0, 10⟩
    currentValue := none, currentRegister := none, currentFrame := none, retention := 0 }

/-- `get_from_data_block_ensure_index` -/
def get (s : Store) (i : Nat) : Outcome Cell :=
  match s.cells[i]? with
  | some c => .ok c
  | none => .err .data

/-- `push_to_data_block`: one growth step when `cursor ≥ size`, then `heap[start + cursor] = data`.
If the step does not make room (`FixedSize(0)`) the write lands outside the block: modelled as the
out-of-bounds panic of `heap[block.start + index]` (with a non-empty custom block behind it the real
code silently overwrites that block instead; no shipped setting reaches this). -/
def push (s : Store) (c : Cell) : Outcome (Store × Nat) :=
  let s1 := if s.cells.size ≥ s.size
    then { s with size := s.size + s.grow, custom := { s.custom with start := s.custom.start + s.grow } }
    else s
  if s1.cells.size ≥ s1.size then .panic "internal.rs:push_to_block"
  else .ok ({ s1 with cells := s1.cells.push c }, s.cells.size)

end Store

/-! ### structural read-back -/

/-- what one address denotes: the cell with its address fields erased, the cells stored inline with
it (text, bytes, symbol-list parts, list keys, a frame's return point) and the addresses it refers to -/
structure Shape where
  label : Cell
  inl : List Cell
  kids : List Nat
deriving DecidableEq, Repr

/-- `n` cells starting at `a`, all of which satisfy `p` -/
def inlineCells (cells : Array Cell) (p : Cell → Bool) : Nat → Nat → Option (List Cell)
  | _, 0 => some []
  | a, n + 1 =>
    match cells[a]? with
    | some c => if p c then (inlineCells cells p (a + 1) n).map (c :: ·) else none
    | none => none

/-- the `n` `ListItem` targets starting at `a` -/
def listItems (cells : Array Cell) : Nat → Nat → Option (List Nat)
  | _, 0 => some []
  | a, n + 1 =>
    match cells[a]? with
    | some (.listItem j) => (listItems cells (a + 1) n).map (j :: ·)
    | _ => none

/-- the `k` `AssociativeItem`s starting at `a`: (keys with the index erased, targets) -/
def assocItems (cells : Array Cell) : Nat → Nat → Option (List Cell × List Nat)
  | _, 0 => some ([], [])
  | a, k + 1 =>
    match cells[a]? with
    | some (.associativeItem s j) => (assocItems cells (a + 1) k).map (fun (ks, js) => (.associativeItem s 0 :: ks, j :: js))
    | _ => none

def isChar : Cell → Bool | .char _ => true | _ => false
def isByte : Cell → Bool | .byte _ => true | _ => false
def isSymPart : Cell → Bool | .symbol _ => true | .number _ => true | _ => false

/-- return point stored immediately before a frame cell -/
def framePoint (cells : Array Cell) (a : Nat) : Option Cell :=
  match a with
  | 0 => none
  | a + 1 => match cells[a]? with
    | some (.jumpPoint p) => some (.jumpPoint p)
    | _ => none

def shape (cells : Array Cell) (a : Nat) : Option Shape :=
  match cells[a]? with
  | none => none
  | some c =>
    match c with
    | .unit | .tru | .fls | .type _ | .number _ | .char _ | .byte _ | .symbol _ | .expression _
    | .external _ | .custom | .empty | .jumpPoint _ | .instruction _ => some ⟨c, [], []⟩
    | .charList n => (inlineCells cells isChar (a + 1) n).map (fun i => ⟨c, i, []⟩)
    | .byteList n => (inlineCells cells isByte (a + 1) n).map (fun i => ⟨c, i, []⟩)
    | .symbolList n => (inlineCells cells isSymPart (a + 1) n).map (fun i => ⟨c, i, []⟩)
    | .pair l r => some ⟨.pair 0 0, [], [l, r]⟩
    | .range l r => some ⟨.range 0 0, [], [l, r]⟩
    | .slice l r => some ⟨.slice 0 0, [], [l, r]⟩
    | .partial_ l r => some ⟨.partial_ 0 0, [], [l, r]⟩
    | .concatenation l r => some ⟨.concatenation 0 0, [], [l, r]⟩
    | .list n k =>
      match listItems cells (a + 1) n, assocItems cells (a + 1 + n) k with
      | some items, some (keys, targets) => some ⟨c, keys, items ++ targets⟩
      | _, _ => none
    | .value p v => some ⟨.value 0 0, [], [p, v]⟩
    | .valueRoot v => some ⟨.valueRoot 0, [], [v]⟩
    | .register p v => some ⟨.register 0 0, [], [p, v]⟩
    | .registerRoot v => some ⟨.registerRoot 0, [], [v]⟩
    | .instructionWithData code d => some ⟨.instructionWithData code 0, [], [d]⟩
    | .frame p r => (framePoint cells a).map (fun j => ⟨.frame 0 0, [j], [p, r]⟩)
    | .frameIndex p => (framePoint cells a).map (fun j => ⟨.frameIndex 0, [j], [p]⟩)
    | .frameRegister r => (framePoint cells a).map (fun j => ⟨.frameRegister 0, [j], [r]⟩)
    | .frameRoot => (framePoint cells a).map (fun j => ⟨.frameRoot, [j], []⟩)
    | .uninitializedList _ _ | .listItem _ | .associativeItem _ _ | .cloneItem _ | .cloneIndexMap _ _ => none

/-- the address-free unfolding of the graph below an address -/
inductive Tree where
  | node (label : Cell) (inl : List Cell) (kids : List Tree)
deriving Repr, Inhabited

/-- `mapM` in `Option`, spelled out so that proofs can unfold it -/
def allSome {α β} (f : α → Option β) : List α → Option (List β)
  | [] => some []
  | x :: xs => match f x, allSome f xs with
    | some y, some ys => some (y :: ys)
    | _, _ => none

/-- unfold the graph at `a` into a tree; `none` when some reachable address has no shape or the fuel
runs out (cyclic or deeper than `fuel`) -/
def unfold (cells : Array Cell) : Nat → Nat → Option Tree
  | 0, _ => none
  | fuel + 1, a =>
    match shape cells a with
    | none => none
    | some sh => (allSome (unfold cells fuel) sh.kids).map (Tree.node sh.label sh.inl)

/-! ### trees as values -/

section toVal
variable {F : Type} (numOf : Nat → Number F)

def charCode : Cell → Nat | .char c => c | .byte b => b | _ => 0

def symPartOf : Cell → SymPart F
  | .symbol s => .sym s
  | .number n => .num (numOf n)
  | _ => .sym 0

mutual
def Tree.toVal : Tree → Option (Val F)
  | .node lab inl kids =>
    match lab with
    | .unit => some .unit | .tru => some .tru | .fls => some .fls
    | .type t => some (.type t)
    | .number n => some (.num (numOf n))
    | .char c => some (.char c) | .byte b => some (.byte b) | .symbol s => some (.sym s)
    | .expression e => some (.expr e) | .external e => some (.ext e) | .custom => some .custom
    | .charList _ => some (.chars (inl.map charCode))
    | .byteList _ => some (.bytes (inl.map charCode))
    | .symbolList _ => some (.symList (inl.map (symPartOf numOf)))
    | .pair _ _ => (Tree.toVals kids).bind (fun vs => match vs with | [x, y] => some (.pair x y) | _ => none)
    | .range _ _ => (Tree.toVals kids).bind (fun vs => match vs with | [x, y] => some (.range x y) | _ => none)
    | .slice _ _ => (Tree.toVals kids).bind (fun vs => match vs with | [x, y] => some (.slice x y) | _ => none)
    | .partial_ _ _ => (Tree.toVals kids).bind (fun vs => match vs with | [x, y] => some (.part x y) | _ => none)
    | .concatenation _ _ => (Tree.toVals kids).bind (fun vs => match vs with | [x, y] => some (.concat x y) | _ => none)
    | .list n _ => (Tree.toVals kids).map (fun vs => .list (vs.take n))
    | _ => none
def Tree.toVals : List Tree → Option (List (Val F))
  | [] => some []
  | t :: ts => match Tree.toVal t, Tree.toVals ts with
    | some v, some vs => some (v :: vs)
    | _, _ => none
end

/-- the structural value at an address (deliverable 1): `none` for non-values, malformed or cyclic
graphs, or when the graph is deeper than `fuel` -/
def decode (cells : Array Cell) (fuel a : Nat) : Option (Val F) :=
  (unfold cells fuel a).bind (Tree.toVal numOf)

end toVal

/-! ### chains (register stack, input-value stack, frame chain) -/

/-- a chain from a head: the sequence of unfolded entries, top first.  Registers and values carry the
tree of the referenced value; a frame carries its return point and the register chain it saved. -/
def chainCells (cells : Array Cell) : Nat → Option Nat → Option (List Nat)
  | _, none => some []
  | 0, some _ => none
  | fuel + 1, some a =>
    match cells[a]? with
    | some (.register p _) | some (.value p _) | some (.frame p _) | some (.frameIndex p) =>
      (chainCells cells fuel (some p)).map (a :: ·)
    | some (.registerRoot _) | some (.valueRoot _) | some (.frameRegister _) | some .frameRoot => some [a]
    | _ => none

/-- `decodeStack`: the tree of the head cell contains the whole chain (previous links are children),
so one unfolding is the structural content of a stack. `none` head = empty stack. -/
def decodeStack (cells : Array Cell) (fuel : Nat) : Option Nat → Option (Option Tree)
  | none => some none
  | some a => (unfold cells fuel a).map some

/-- values held by a register / value chain, top first, as trees -/
def Tree.stackEntries : Nat → Tree → List Tree
  | 0, _ => []
  | fuel + 1, .node lab _ kids =>
    match lab, kids with
    | .register _ _, [p, v] => v :: Tree.stackEntries fuel p
    | .value _ _, [p, v] => v :: Tree.stackEntries fuel p
    | .registerRoot _, [v] => [v]
    | .valueRoot _, [v] => [v]
    | _, _ => []

end Garnish.BasicOpt
