/-
SimpleGarnishData's constant interning (data/src/simple.rs `cache_add`, data/src/runtime.rs `add_*`), as it is written:

    let mut h = DefaultHasher::new();  value.hash(&mut h);  value.get_data_type().hash(&mut h);  let hv = h.finish();
    match self.cache.get(&hv) { Some(addr) => Ok(*addr),                       // NO comparison with the stored value
                                None => { push value; cache.insert(hv, addr); Ok(addr) } }

`cacheAdd` is parameterised by the hash; `rustHash` is the hash the code computes: SipHash-1-3 with zero keys
(`DefaultHasher::new()`) over the byte stream produced by the derived `Hash` of `SimpleData`, the hand-written
`Hash` of `SimpleNumber` (integers: 4 bytes; floats: the `Display` text as a `str`) and the derived `Hash` of
`GarnishDataType`.
-/
namespace Garnish.Store

/-- the constants that go through `cache_add` from the data interface -/
inductive Const where
  | int (v : Int)                 -- Number(Integer(i32))
  | float (bits : UInt64)         -- Number(Float(f64))
  | char (cp : Nat)
  | byte (b : Nat)
  | symbol (s : Nat)
  | expression (n : Nat)
  | external (n : Nat)
  | type (discr : Nat)            -- Type(GarnishDataType), by discriminant
  | charList (cps : List Nat)
  | byteList (bs : List Nat)
deriving DecidableEq, Repr, Inhabited

/-- cells of `SimpleDataList`: seeded with Unit, False, True -/
inductive SCell where
  | unit | false | true
  | const (c : Const)
deriving DecidableEq, Repr, Inhabited

structure SimpleStore where
  data : Array SCell := #[.unit, .false, .true]
  /-- `HashMap<u64, usize>`; keys are inserted only when absent, so an association list is faithful -/
  cache : List (UInt64 × Nat) := []
deriving Repr

def cacheLookup (cache : List (UInt64 × Nat)) (hv : UInt64) : Option Nat :=
  match cache with
  | [] => none
  | (k, a) :: rest => if k = hv then some a else cacheLookup rest hv

/-- `cache_add` as it is written today -/
def cacheAdd (hash : Const → UInt64) (s : SimpleStore) (c : Const) : SimpleStore × Nat :=
  let hv := hash c
  match cacheLookup s.cache hv with
  | some addr => (s, addr)
  | none => ({ data := s.data.push (.const c), cache := (hv, s.data.size) :: s.cache }, s.data.size)

theorem cacheAdd_eq (hash : Const → UInt64) (s : SimpleStore) (c : Const) :
    cacheAdd hash s c =
      match cacheLookup s.cache (hash c) with
      | some addr => (s, addr)
      | none => ({ data := s.data.push (.const c), cache := (hash c, s.data.size) :: s.cache }, s.data.size) := rfl

def isNaNBits (b : UInt64) : Bool :=
  ((b >>> 52) &&& 0x7ff) == 0x7ff && (b &&& 0xfffffffffffff) != 0

/-- `==` of `SimpleData` on the constants of one kind: floats compare as `f64` (NaN ≠ NaN, +0 = −0).
(`Integer(n) == Float(n as f64)` also holds in the code; the two never share a cache key unless SipHash collides.) -/
def Const.rustEq : Const → Const → Bool
  | .float a, .float b => !isNaNBits a && !isNaNBits b && (a == b || ((a ||| b) &&& 0x7fffffffffffffff) == 0)
  | a, b => decide (a = b)

/-- `cache_add` with the proposed repair: on a hit the stored value is compared; a different value probes the next key.
`fuel` bounds the probe sequence (every probe consumes a distinct occupied key, so `cache.length + 1` suffices). -/
def cacheAddFixedLoop (s : SimpleStore) (c : Const) : Nat → UInt64 → Option (SimpleStore × Nat)
  | 0, _ => none
  | fuel + 1, hv =>
    match cacheLookup s.cache hv with
    | some addr =>
      if (match s.data[addr]? with | some (.const c') => c'.rustEq c | _ => false) then some (s, addr)
      else cacheAddFixedLoop s c fuel (hv + 1)
    | none => some ({ data := s.data.push (.const c), cache := (hv, s.data.size) :: s.cache }, s.data.size)

def cacheAddFixed (hash : Const → UInt64) (s : SimpleStore) (c : Const) : Option (SimpleStore × Nat) :=
  cacheAddFixedLoop s c (s.cache.length + 1) (hash c)

/-- add a sequence of constants, collecting the returned addresses -/
def addAll (hash : Const → UInt64) : List Const → SimpleStore → SimpleStore × List Nat
  | [], s => (s, [])
  | c :: cs, s =>
    let (s1, a) := cacheAdd hash s c
    let (s2, as) := addAll hash cs s1
    (s2, a :: as)

/-! ### the hash the code computes -/

def rotl (x : UInt64) (n : UInt64) : UInt64 := (x <<< n) ||| (x >>> (64 - n))

structure Sip where
  v0 : UInt64
  v1 : UInt64
  v2 : UInt64
  v3 : UInt64

def Sip.round (s : Sip) : Sip :=
  let v0 := s.v0 + s.v1
  let v1 := rotl s.v1 13
  let v1 := v1 ^^^ v0
  let v0 := rotl v0 32
  let v2 := s.v2 + s.v3
  let v3 := rotl s.v3 16
  let v3 := v3 ^^^ v2
  let v0 := v0 + v3
  let v3 := rotl v3 21
  let v3 := v3 ^^^ v0
  let v2 := v2 + v1
  let v1 := rotl v1 17
  let v1 := v1 ^^^ v2
  let v2 := rotl v2 32
  ⟨v0, v1, v2, v3⟩

def leWord (bs : List UInt8) : UInt64 :=
  bs.foldr (fun b acc => (acc <<< 8) ||| b.toUInt64) 0

def Sip.absorb (s : Sip) (m : UInt64) : Sip :=
  let s := { s with v3 := s.v3 ^^^ m }
  let s := s.round
  { s with v0 := s.v0 ^^^ m }

/-- consume full 8-byte words; returns the state and the (< 8 byte) tail -/
def sipWords : Nat → Sip → List UInt8 → Sip × List UInt8
  | 0, s, bs => (s, bs)
  | fuel + 1, s, bs =>
    if bs.length < 8 then (s, bs)
    else sipWords fuel (s.absorb (leWord (bs.take 8))) (bs.drop 8)

/-- SipHash-1-3, keys (0, 0): `DefaultHasher::new()` -/
def sip13 (bs : List UInt8) : UInt64 :=
  let s : Sip := ⟨0x736f6d6570736575, 0x646f72616e646f6d, 0x6c7967656e657261, 0x7465646279746573⟩
  let (s, tail) := sipWords (bs.length + 1) s bs
  let b : UInt64 := ((UInt64.ofNat bs.length) <<< 56) ||| leWord tail
  let s := s.absorb b
  let s := { s with v2 := s.v2 ^^^ 0xff }
  let s := s.round.round.round
  s.v0 ^^^ s.v1 ^^^ s.v2 ^^^ s.v3

/-- little-endian bytes of `n mod 256^k` -/
def leBytes : Nat → Nat → List UInt8
  | 0, _ => []
  | k + 1, n => UInt8.ofNat (n % 256) :: leBytes k (n / 256)

/-- UTF-8 encoding of one scalar value -/
def utf8Enc (cp : Nat) : List UInt8 :=
  if cp < 0x80 then [UInt8.ofNat cp]
  else if cp < 0x800 then [UInt8.ofNat (0xC0 + cp / 64), UInt8.ofNat (0x80 + cp % 64)]
  else if cp < 0x10000 then [UInt8.ofNat (0xE0 + cp / 4096), UInt8.ofNat (0x80 + cp / 64 % 64), UInt8.ofNat (0x80 + cp % 64)]
  else [UInt8.ofNat (0xF0 + cp / 262144), UInt8.ofNat (0x80 + cp / 4096 % 64), UInt8.ofNat (0x80 + cp / 64 % 64),
        UInt8.ofNat (0x80 + cp % 64)]

def utf8 (cps : List Nat) : List UInt8 := cps.flatMap utf8Enc

/-- the byte stream `cache_add` feeds to the hasher. `display bits` is Rust's `format!("{}", f64)` (as code points). -/
def hashBytes (display : UInt64 → List Nat) : Const → List UInt8
  | .int v => leBytes 8 4 ++ leBytes 4 (v % 4294967296).toNat ++ leBytes 8 2
  | .float bits => leBytes 8 4 ++ utf8 (display bits) ++ [0xff] ++ leBytes 8 2
  | .char cp => leBytes 8 5 ++ leBytes 4 cp ++ leBytes 8 4
  | .byte b => leBytes 8 6 ++ leBytes 1 b ++ leBytes 8 6
  | .symbol s => leBytes 8 7 ++ leBytes 8 s ++ leBytes 8 8
  | .expression n => leBytes 8 9 ++ leBytes 8 n ++ leBytes 8 16
  | .external n => leBytes 8 10 ++ leBytes 8 n ++ leBytes 8 17
  | .type d => leBytes 8 3 ++ leBytes 8 d ++ leBytes 8 3
  | .charList cps => leBytes 8 11 ++ utf8 cps ++ [0xff] ++ leBytes 8 5
  | .byteList bs => leBytes 8 12 ++ leBytes 8 bs.length ++ bs.map UInt8.ofNat ++ leBytes 8 7

def rustHash (display : UInt64 → List Nat) (c : Const) : UInt64 := sip13 (hashBytes display c)

end Garnish.Store
