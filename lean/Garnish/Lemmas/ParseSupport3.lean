/-
Every node of the reference tree sits on the token it was made from: a node `(d, k)` of `refParse toks` is a `List` node, or
`toks[k]` exists and `d` is the definition of its type (an Identifier after `.` becomes a Property) — `refParse_nodes`.
Hence a node whose definition reads the token text is never on a Whitespace / Subexpression token.
-/
import Garnish.Lemmas.LexRewriteElab
import Garnish.Spec.RefParse

namespace Garnish.Spec
open Garnish Garnish.Gen Garnish.Model.Parser Garnish.Abs.Source

def nodeOK (toks : List PToken) (d : Definition) (k : Nat) : Prop :=
  d = .list ∨ ∃ tok, toks[k]? = some tok ∧
    (d = (getDefinition tok.type).1 ∨ (d = .property ∧ (getDefinition tok.type).1 = .identifier))

def TreeOK (toks : List PToken) (t : RTree) : Prop := ∀ d k, (d, k) ∈ nodeDefs t → nodeOK toks d k

theorem mem_absorb (tbl : Table) (q : Nat) (rtl : Bool) (d : Definition) (k : Nat) (x : Definition × Nat) :
    ∀ (t t' : RTree), absorb tbl q rtl d k t = some t' → x ∈ nodeDefs t' → x = (d, k) ∨ x ∈ nodeDefs t
  | .nil, _, h, _ => by cases h
  | .group _ _ _, _, h, _ => by cases h
  | .node l a ka r, t', h, hx => by
    simp only [absorb] at h
    cases h1 : absorb tbl q rtl d k r with
    | some r' =>
      rw [h1] at h; cases h
      simp only [nodeDefs, List.mem_append, List.mem_cons] at hx ⊢
      rcases hx with hx | hx | hx
      · exact Or.inr (Or.inl hx)
      · exact Or.inr (Or.inr (Or.inl hx))
      · rcases mem_absorb tbl q rtl d k x r r' h1 hx with h2 | h2
        · exact Or.inl h2
        · exact Or.inr (Or.inr (Or.inr h2))
    | none =>
      rw [h1] at h
      cases hp : tbl.prio a with
      | none => rw [hp] at h; cases h
      | some pa =>
        rw [hp] at h
        simp only at h
        split at h
        · cases h
          simp only [nodeDefs, List.mem_append, List.mem_cons, List.not_mem_nil, or_false] at hx ⊢
          rcases hx with hx | hx | hx | hx
          · exact Or.inr (Or.inl hx)
          · exact Or.inr (Or.inr (Or.inl hx))
          · exact Or.inr (Or.inr (Or.inr hx))
          · exact Or.inl hx
        · cases h

theorem attach_ok {toks : List PToken} (tbl : Table) (q : Nat) (rtl : Bool) (d : Definition) (k : Nat) {t : RTree}
    (ht : TreeOK toks t) (hd : nodeOK toks d k) : TreeOK toks (attach tbl q rtl d k t) := by
  intro d' k' hm
  unfold attach at hm
  cases h : absorb tbl q rtl d k t with
  | some t' =>
    rw [h] at hm
    rcases mem_absorb tbl q rtl d k _ t t' h hm with e | e
    · cases e; exact hd
    · exact ht _ _ e
  | none =>
    rw [h] at hm
    simp only [nodeDefs, List.mem_append, List.mem_cons, List.not_mem_nil, or_false] at hm
    rcases hm with e | e
    · exact ht _ _ e
    · cases e; exact hd

theorem plug_ok {toks : List PToken} : ∀ {R : RTree} {X : RTree}, TreeOK toks R → TreeOK toks X →
    TreeOK toks (asProperty X) → TreeOK toks (plug R X)
  | .nil, X, _, hX, _ => hX
  | .group _ _ _, _, hR, _, _ => hR
  | .node l d k r, X, hR, hX, hA => by
    intro d' k' hm
    simp only [plug] at hm
    have hl : ∀ y, y ∈ nodeDefs l → nodeOK toks y.1 y.2 := fun y hy => hR _ _ (nodeDefs_left l d k r hy)
    have hself := hR d k (nodeDefs_self l d k r)
    split at hm
    · simp only [nodeDefs, List.mem_append, List.mem_cons] at hm
      rcases hm with e | e | e
      · exact hl _ e
      · cases e; exact hself
      · split at e
        · exact hA _ _ e
        · exact hX _ _ e
    · simp only [nodeDefs, List.mem_append, List.mem_cons] at hm
      rcases hm with e | e | e
      · exact hl _ e
      · cases e; exact hself
      · exact plug_ok (R := r) (fun a b h => hR a b (nodeDefs_right l d k r h)) hX hA _ _ e

theorem leaf_ok {toks : List PToken} {pos : Nat} {tok : PToken} (h : toks[pos]? = some tok) :
    TreeOK toks (.node .nil (getDefinition tok.type).1 pos .nil) ∧
      TreeOK toks (asProperty (.node .nil (getDefinition tok.type).1 pos .nil)) := by
  constructor
  · intro d k hm
    simp only [nodeDefs, List.nil_append, List.mem_cons, List.not_mem_nil, or_false] at hm
    cases hm
    exact Or.inr ⟨tok, h, Or.inl rfl⟩
  · intro d k hm
    unfold asProperty at hm
    split at hm
    · rename_i kk heq
      simp only [nodeDefs, List.nil_append, List.mem_cons, List.not_mem_nil, or_false] at hm
      cases hm
      injection heq with _ e2 e3 _
      subst e3
      exact Or.inr ⟨tok, h, Or.inr ⟨rfl, e2⟩⟩
    · simp only [nodeDefs, List.nil_append, List.mem_cons, List.not_mem_nil, or_false] at hm
      cases hm
      exact Or.inr ⟨tok, h, Or.inl rfl⟩

structure FOK (toks : List PToken) (f : Frame) : Prop where
  cur : TreeOK toks f.cur
  ctx : ∀ gd gp, f.ctx = some (gd, gp) → nodeOK toks gd gp

theorem beforeOperand_ok {toks : List PToken} {f f1 : Frame} {pos : Nat} (hf : FOK toks f)
    (h : beforeOperand Table.gen f pos = .ok f1) : FOK toks f1 := by
  unfold beforeOperand at h
  split at h
  all_goals first
    | (cases h; exact hf)
    | cases h
    | skip
  split at h
  · cases hq : Table.gen.prio .list with
    | none => rw [hq] at h; cases h
    | some q =>
      rw [hq] at h
      cases h
      exact ⟨attach_ok Table.gen q false .list _ hf.cur (Or.inl rfl), hf.ctx⟩
  · cases h

theorem refStep_ok {toks : List PToken} {f f' : Frame} {stack stack' : List Frame} {pos : Nat} {t : PToken}
    {rest : List PToken} (hf : FOK toks f) (hs : ∀ g ∈ stack, FOK toks g) (ht : toks[pos]? = some t)
    (h : refStep Table.gen f stack pos t rest = .ok (f', stack')) : FOK toks f' ∧ ∀ g ∈ stack', FOK toks g := by
  have hself : nodeOK toks (getDefinition t.type).1 pos := Or.inr ⟨t, ht, Or.inl rfl⟩
  have hleaf := leaf_ok ht
  unfold refStep at h
  have hd : Table.gen.define t.type = getDefinition t.type := rfl
  rw [hd] at h
  generalize getDefinition t.type = ds at h hself hleaf
  obtain ⟨d, s⟩ := ds
  simp only at hself hleaf
  cases s with
  | none => cases h
  | startSideEffect => cases h
  | endSideEffect => cases h
  | annotation => simp only at h; cases h; exact ⟨hf, hs⟩
  | whitespace => simp only at h; cases h; exact ⟨⟨hf.cur, hf.ctx⟩, hs⟩
  | value | identifier =>
    simp only at h
    split at h
    · cases h
    · cases hb : beforeOperand Table.gen f pos with
      | ok g =>
        rw [hb] at h; simp only [Outcome.bind] at h; cases h
        have hg := beforeOperand_ok hf hb
        exact ⟨⟨plug_ok hg.cur hleaf.1 hleaf.2, hg.ctx⟩, hs⟩
      | err _ => rw [hb] at h; cases h
      | panic _ => rw [hb] at h; cases h
      | fuelOut => rw [hb] at h; cases h
  | unaryPrefix =>
    simp only at h
    cases hb : beforeOperand Table.gen f pos with
    | ok g =>
      rw [hb] at h; simp only [Outcome.bind] at h; cases h
      have hg := beforeOperand_ok hf hb
      exact ⟨⟨plug_ok hg.cur hleaf.1 hleaf.2, hg.ctx⟩, hs⟩
    | err _ => rw [hb] at h; cases h
    | panic _ => rw [hb] at h; cases h
    | fuelOut => rw [hb] at h; cases h
  | startGrouping =>
    simp only at h
    cases hb : beforeOperand Table.gen f pos with
    | ok g =>
      rw [hb] at h; simp only [Outcome.bind] at h; cases h
      have hg := beforeOperand_ok hf hb
      refine ⟨⟨fun _ _ hm => by simp [nodeDefs] at hm, fun gd gp e => by cases e; exact hself⟩, ?_⟩
      intro x hx
      rcases List.mem_cons.mp hx with e | e
      · subst e; exact ⟨hg.cur, hg.ctx⟩
      · exact hs x e
    | err _ => rw [hb] at h; cases h
    | panic _ => rw [hb] at h; cases h
    | fuelOut => rw [hb] at h; cases h
  | binaryLeftToRight | binaryRightToLeft | optionalBinaryLeftToRight | unarySuffix =>
    simp only at h
    cases hq : Table.gen.prio d with
    | none => rw [hq] at h; cases h
    | some q =>
      rw [hq] at h; simp only at h
      split at h
      · cases h
      · cases h
        exact ⟨⟨attach_ok Table.gen q _ d pos hf.cur hself, hf.ctx⟩, hs⟩
  | endGrouping =>
    simp only at h
    cases hctx : f.ctx with
    | none => rw [hctx] at h; cases h
    | some gp =>
      obtain ⟨gd, gpos⟩ := gp
      rw [hctx] at h
      cases stack with
      | nil => cases h
      | cons parent st =>
        simp only at h
        split at h
        · cases h
        · split at h
          · cases h
          · cases h
            have hp := hs parent (List.mem_cons_self ..)
            have hgrp : TreeOK toks (.group gd gpos f.cur) := by
              intro d' k' hm
              simp only [nodeDefs, List.mem_cons] at hm
              rcases hm with e | e
              · cases e; exact hf.ctx _ _ hctx
              · exact hf.cur _ _ e
            exact ⟨⟨plug_ok hp.cur hgrp hgrp, hp.ctx⟩, fun g hg => hs g (List.mem_cons_of_mem _ hg)⟩
  | subexpression =>
    simp only at h
    split at h
    · cases h; exact ⟨⟨hf.cur, hf.ctx⟩, hs⟩
    · split at h
      · cases h; exact ⟨⟨hf.cur, hf.ctx⟩, hs⟩
      · split at h
        · cases h
        · cases hq : Table.gen.prio d with
          | none => rw [hq] at h; cases h
          | some q =>
            rw [hq] at h; cases h
            exact ⟨⟨attach_ok Table.gen q false d pos hf.cur hself, hf.ctx⟩, hs⟩

theorem refLoop_ok {toks : List PToken} : ∀ (rest : List PToken) (f : Frame) (stack : List Frame) (pos : Nat) (T : RTree),
    FOK toks f → (∀ g ∈ stack, FOK toks g) → (∀ i t, rest[i]? = some t → toks[pos + i]? = some t) →
    refLoop Table.gen f stack pos rest = .ok T → TreeOK toks T
  | [], f, stack, pos, T, hf, _, _, h => by
    unfold refLoop at h
    split at h
    · cases h
    · split at h
      · cases h
      · cases h; exact hf.cur
  | t :: rest, f, stack, pos, T, hf, hs, hr, h => by
    unfold refLoop at h
    cases hst : refStep Table.gen f stack pos t rest with
    | ok fs =>
      obtain ⟨f', stack'⟩ := fs
      rw [hst] at h
      simp only [Outcome.bind] at h
      obtain ⟨hf', hs'⟩ := refStep_ok hf hs (by have := hr 0 t rfl; simpa using this) hst
      refine refLoop_ok rest f' stack' (pos + 1) T hf' hs' ?_ h
      intro i x hx
      have := hr (i + 1) x (by simpa using hx)
      have e : pos + 1 + i = pos + (i + 1) := by omega
      rw [e]; exact this
    | err _ => rw [hst] at h; cases h
    | panic _ => rw [hst] at h; cases h
    | fuelOut => rw [hst] at h; cases h

/-- **every node of the reference tree sits on the token it was made from** -/
theorem refParse_nodes (toks : List PToken) (rt : RTree) (h : refParse Table.gen toks = .ok rt) : TreeOK toks rt := by
  unfold refParse at h
  simp only at h
  split at h
  · cases h; intro d k hm; simp [nodeDefs] at hm
  · refine refLoop_ok _ Frame.top [] _ rt ⟨fun d k hm => by simp [Frame.top, nodeDefs] at hm, fun gd gp e => by
      simp [Frame.top] at e⟩ (fun g hg => by cases hg) ?_ h
    intro i t hi
    rw [List.getElem?_take] at hi
    split at hi
    · rw [List.getElem?_drop] at hi; exact hi
    · cases hi

/-- a node whose definition reads its token`s text is not on a Whitespace / Subexpression token -/
theorem refParse_text_nodes (toks : List PToken) (rt : RTree) (h : refParse Table.gen toks = .ok rt) :
    ∀ d k, (d, k) ∈ nodeDefs rt → readsText d = true →
      ∀ tok, toks[k]? = some tok → tok.type ≠ .whitespace ∧ tok.type ≠ .subexpression := by
  intro d k hm hr tok htok
  rcases refParse_nodes toks rt h d k hm with e | ⟨tok', htok', e⟩
  · subst e; cases hr
  · rw [htok] at htok'; cases htok'
    constructor
    · intro hw
      rw [hw] at e
      rcases e with e | ⟨e, e2⟩
      · rw [e] at hr; revert hr; decide
      · revert e2; decide
    · intro hw
      rw [hw] at e
      rcases e with e | ⟨e, e2⟩
      · rw [e] at hr; revert hr; decide
      · revert e2; decide

end Garnish.Spec
