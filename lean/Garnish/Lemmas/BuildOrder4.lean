/-
C04, builder half — sibling order, part 4: the conditional arm, the else-chain head, the root pop.
-/
import Garnish.Lemmas.BuildOrder3
namespace Garnish.Lemmas.BuildOrder
open Garnish Garnish.Gen Garnish.Model.Parser Garnish.Model.Literals Garnish.Model.Build Garnish.Lemmas.Build
open Garnish.Lemmas.BuildTotal

variable {F : Type} {root : Nat} {tree : Array ParseNode} {G : Nat → Prop} {m0 : Nat}

theorem isB_of_late {d : Definition} (h : isLate d = true) : isB d = false := by
  cases d <;> simp [isLate] at h <;> rfl

theorem nodup_init {S0 : List Nat} {x : Nat} (h : (S0 ++ [x]).Nodup) : S0.Nodup := (List.nodup_append.1 h).1

/-- `handle_jump_if`, second visit under a conditional parent -/
theorem cond_ord (V : Validated root tree G) {ph : Nat → Phase} {ctx ctx' : Ctx F} (hinv : Inv root tree G ph ctx)
    {ni : Nat} (hG : G ni) (hph : ph ni = .p1 ∨ ph ni = .p2) {pn : ParseNode} (hpn : tree[ni]? = some pn)
    {M M' : Array (Option Nat)} (ho : OInv root tree G m0 ph (ctx.stack.toList ++ [ni]) ctx.nodes M)
    {r : Nat} (hr : pn.right = some r) (hlate : isLate pn.definition = true)
    {cp : Nat} {parent : BuildNode} (hcp : ctx.nodes[cp]? = some (some parent)) (item : ConditionItem)
    (l : List (Option Nat)) (hS : ctx'.stack = ctx.stack)
    (hN : ctx'.nodes = putNode ctx.nodes cp { parent with conditionalItems := parent.conditionalItems.push item })
    (hM : M'.toList = M.toList ++ l) (hl : ∀ m, m ∈ l → m = none ∨ m = some ni) :
    OInv root tree G m0 (condPhase ph ni r cp) ctx'.stack.toList ctx'.nodes M' := by
  have hchild : IsChild tree ni r := ⟨pn, hpn, Or.inr hr⟩
  have hlr : LateRight tree ni r := ⟨pn, hpn, hr, hlate⟩
  have hnot : ¬ SchedDone tree ph ni r := by
    intro ⟨_, hs2⟩
    have := hs2 hlr
    rcases hph with h1 | h1 <;> rw [h1] at this <;> cases this
  obtain ⟨hr0, _⟩ := child_fresh V hinv hG hchild hnot
  have hrn : r ≠ ni := by
    intro e; rw [e] at hr0
    rcases hph with h1 | h1 <;> rw [h1] at hr0 <;> cases hr0
  have hnb := isB_of_late hlate
  refine step_ord_gen V hinv hG hph hpn ho .p3 (Or.inr rfl) (fun h => by cases h) [] [r] [] l (by simp [condPhase])
    (fun c hc => by cases hc) ?_ ?_ (by rw [hS]; simp) hM hl (fun h => by cases h) (fun c hc => by cases hc)
    (by rw [hS]; exact nodup_init ho.nodup) (fun c hc => by cases hc) ?_ ?_
    (fun h => by rw [hnb] at h; cases h) (fun h => by rw [hnb] at h; cases h) (fun h => by rw [hnb] at h; cases h)
  · intro c hc
    have : c = r := by simpa using hc
    subst this
    simp [condPhase, hrn]
  · intro x hxn hx
    have : x ≠ r := by simpa using hx
    simp [condPhase, hxn, this]
  · intro c hc
    have : c = r := by simpa using hc
    subst this
    exact ⟨Or.inl hr0, hrn⟩
  · intro x bn hx hxp hxn
    refine ⟨fun hm => ?_, fun hm => ?_⟩
    · have : x = r := by simpa using hm
      subst this
      simp [condPhase, hrn] at hxp
    · rw [hN, getElem?_putNode] at hx
      rcases Classical.em (cp = x) with hcx | hcx
      · rw [if_pos hcx] at hx
        subst hcx
        split at hx
        · cases hx; exact ⟨parent, hcp, rfl⟩
        · cases hx
      · rw [if_neg hcx] at hx
        exact ⟨bn, hx, rfl⟩

/-- the head of an else-chain releases its arms -/
theorem else_ord (V : Validated root tree G) {ph : Nat → Phase} {ctx ctx' : Ctx F} (hinv : Inv root tree G ph ctx)
    {ni : Nat} (hG : G ni) (hph : ph ni = .p1 ∨ ph ni = .p2) {pn : ParseNode} (hpn : tree[ni]? = some pn)
    (hnb : isB pn.definition = false)
    {M M' : Array (Option Nat)} (ho : OInv root tree G m0 ph (ctx.stack.toList ++ [ni]) ctx.nodes M)
    {node : BuildNode} (hnode : ctx.nodes[ni]? = some (some node)) (containing jumpToIndex : Nat)
    (l : List (Option Nat)) (hS : ctx'.stack = ctx.stack)
    (hN : ctx'.nodes = assign ctx.nodes (node.conditionalItems.toList.map (itemNode containing jumpToIndex)))
    (hM : M'.toList = M.toList ++ l) (hl : ∀ m, m ∈ l → m = none ∨ m = some ni) :
    OInv root tree G m0 (elsePhase ph ni (node.conditionalItems.toList.map (·.nodeIndex))) ctx'.stack.toList ctx'.nodes M' := by
  have hni3 : ph ni ≠ .p3 := by rcases hph with h1 | h1 <;> rw [h1] <;> intro h <;> cases h
  have hidx : ∀ x, x ∈ node.conditionalItems.toList.map (·.nodeIndex) → ph x = .pc ni ∧ x ≠ ni := by
    intro x hx
    obtain ⟨it, hit, hxe⟩ := List.mem_map.1 hx
    subst hxe
    have := (hinv.items ni node hnode hni3 it hit).2
    refine ⟨this, fun e => ?_⟩
    rw [e] at this
    rcases hph with h1 | h1 <;> rw [h1] at this <;> cases this
  refine step_ord_gen V hinv hG hph hpn ho .p3 (Or.inr rfl) (fun h => by cases h) []
    (node.conditionalItems.toList.map (·.nodeIndex)) [] l (by simp [elsePhase])
    (fun c hc => by cases hc) ?_ ?_ (by rw [hS]; simp) hM hl (fun h => by cases h) (fun c hc => by cases hc)
    (by rw [hS]; exact nodup_init ho.nodup) (fun c hc => by cases hc) ?_ ?_
    (fun h => by rw [hnb] at h; cases h) (fun h => by rw [hnb] at h; cases h) (fun h => by rw [hnb] at h; cases h)
  · intro c hc
    have := (hidx c hc).2
    simp [elsePhase, this, hc]
  · intro x hxn hx
    have : x ∉ node.conditionalItems.toList.map (·.nodeIndex) := by simpa using hx
    simp only [elsePhase, hxn, if_false]
    rw [if_neg this]
  · intro c hc
    exact ⟨Or.inr ⟨ni, (hidx c hc).1⟩, (hidx c hc).2⟩
  · intro x bn hx _ hxn
    rw [hN] at hx
    rcases assign_get _ ctx.nodes x _ hx with ⟨b, hb, hvb⟩ | ⟨hold, hno⟩
    · cases hvb
      obtain ⟨it, hit, he⟩ := List.mem_map.1 hb
      simp only [itemNode, Prod.mk.injEq] at he
      obtain ⟨h1, h2⟩ := he
      refine ⟨fun _ => by rw [← h2]; rfl, fun hm => ?_⟩
      exact absurd (by simpa using List.mem_map.2 ⟨it, hit, h1⟩) hm
    · refine ⟨fun hm => ?_, fun _ => ⟨bn, hold, rfl⟩⟩
      have hm' : x ∈ node.conditionalItems.toList.map (·.nodeIndex) := by simpa using hm
      obtain ⟨it, hit, he⟩ := List.mem_map.1 hm'
      subst he
      exact absurd (List.mem_map.2 ⟨it, hit, rfl⟩) (hno (itemNode containing jumpToIndex it).2)

/-- the outer loop pops a root onto an empty inner work list -/
theorem pop_ord (V : Validated root tree G) {ph : Nat → Phase} {ctx : Ctx F} (hinv : Inv root tree G ph ctx) {r : Nat}
    (hb : ctx.rootStack.back? = some r) {nodes : Nodes} {M : Array (Option Nat)}
    (ho : OInv root tree G m0 ph [] nodes M) : OInv root tree G m0 (popPhase ph r) [r] nodes M := by
  have hmem : r ∈ ctx.rootStack.toList := by rw [toList_of_back hb]; simp
  obtain ⟨hrG, hrp⟩ := hinv.rootOk r hmem
  have hr' : popPhase ph r r = .p1 := by simp [popPhase]
  have hother : ∀ x, x ≠ r → popPhase ph r x = ph x := by intro x hx; simp [popPhase, hx]
  have hne : ∀ x, (ph x = .p1 ∨ ph x = .p2 ∨ ph x = .p3) → x ≠ r := by
    intro x hx e; subst e; rw [hrp] at hx; rcases hx with h | h | h <;> cases h
  have hnone : ∀ x, ¬ (ph x = .p1 ∨ ph x = .p2) := fun x hx => by have := ho.onStack x hx; cases this
  -- r is not an operand of an inline node
  have hrnb : ∀ y, G y → ¬ BChild tree y r := by
    intro y hy hc
    rcases hinv.fresh r hrG (by rw [hrp]; intro h; cases h) with h1 | ⟨p, hp, hpc, hs, _⟩
    · exact child_ne_root V hy hc.isChild h1
    · have := parent_unique V hp hy hpc hc.isChild
      subst this
      have := ho.childSched p r hy hc hs
      rw [hrp] at this; rcases this with h | h | h <;> cases h
  refine ⟨by simp, ?_, ?_, ?_, ?_, ?_, ?_, ?_, ?_, ?_, ho.ord⟩
  · intro x hx
    rcases Classical.em (x = r) with e | e
    · simp [e]
    · rw [hother x e] at hx; exact absurd hx (hnone x)
  · intro x hx
    have hp := ho.attrVisited x hx
    rw [hother x (hne x (Or.inr hp))]; exact hp
  · intro y pn hy hb' ha
    have hp := ho.attrB y pn hy hb' ha
    rw [hother y (hne y (Or.inr (Or.inr hp)))]; exact hp
  · intro y c hy hc hyp
    have hyr : y ≠ r := fun e => by subst e; rw [hr'] at hyp; rcases hyp with h | h <;> cases h
    rw [hother y hyr] at hyp
    have hp := ho.childSched y c hy hc hyp
    rw [hother c (hne c hp)]; exact hp
  · intro y c hy hc hcp
    rcases Classical.em (c = r) with e | e
    · subst e; exact absurd hc (hrnb y hy)
    · rw [hother c e] at hcp; exact absurd hcp (hnone c)
  · intro y c hy hc hy3
    have hyr : y ≠ r := fun e => by subst e; rw [hr'] at hy3; cases hy3
    rw [hother y hyr] at hy3
    have hp := ho.parentDone y c hy hc hy3
    rw [hother c (hne c (Or.inr (Or.inr hp)))]; exact hp
  · intro y a b hy hord hap
    rcases Classical.em (a = r) with e | e
    · subst e; exact absurd hord.left (hrnb y hy)
    · rw [hother a e] at hap; exact absurd hap (hnone a)
  · intro y a b hy hord hbp
    have hbr : b ≠ r := fun e => by subst e; rw [hr'] at hbp; rcases hbp with h | h <;> cases h
    rw [hother b hbr] at hbp
    have hp := ho.sibDone y a b hy hord hbp
    rw [hother a (hne a (Or.inr (Or.inr hp)))]; exact hp
  · intro x bn hx hxp
    rcases Classical.em (x = r) with e | e
    · subst e; exact ho.uninit x bn hx (Or.inr hrp)
    · rw [hother x e] at hxp; exact ho.uninit x bn hx hxp

end Garnish.Lemmas.BuildOrder
