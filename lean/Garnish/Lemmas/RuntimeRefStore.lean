/-
The list-backed reference store (Model/Runtime/RefStore.lean) satisfies the trait contract `StoreLaws`, for
every host and in every state (no well-formedness invariant is needed): `refStore_laws`.
-/
import Garnish.Model.Runtime.RefStore
import Garnish.Lemmas.RuntimeMono
import Garnish.Lemmas.RuntimeBase
set_option linter.unusedSimpArgs false
set_option linter.unusedVariables false
namespace Garnish.Lemmas.Runtime
open Garnish Gen Garnish.Abs Garnish.Model.Equality Garnish.Model.Runtime

variable {F : Type}

/-! ### the getters of `refView`, unfolded one at a time (unfolding the whole structure is slow) -/

theorem rv_typeOf (cells : List (RCell F)) (a : Nat) :
    (refView cells).typeOf a = match cells[a]? with | some c => some c.ty | none => none := rfl
theorem rv_number (cells : List (RCell F)) (a : Nat) :
    (refView cells).number a = match cells[a]? with | some (.num n) => some n | _ => none := rfl
theorem rv_char (cells : List (RCell F)) (a : Nat) :
    (refView cells).char a = match cells[a]? with | some (.char c) => some c | _ => none := rfl
theorem rv_byte (cells : List (RCell F)) (a : Nat) :
    (refView cells).byte a = match cells[a]? with | some (.byte b) => some b | _ => none := rfl
theorem rv_symbol (cells : List (RCell F)) (a : Nat) :
    (refView cells).symbol a = match cells[a]? with | some (.sym s) => some s | _ => none := rfl
theorem rv_expression (cells : List (RCell F)) (a : Nat) :
    (refView cells).expression a = match cells[a]? with | some (.expr j) => some j | _ => none := rfl
theorem rv_external (cells : List (RCell F)) (a : Nat) :
    (refView cells).external a = match cells[a]? with | some (.ext n) => some n | _ => none := rfl
theorem rv_type_ (cells : List (RCell F)) (a : Nat) :
    (refView cells).type_ a = match cells[a]? with | some (.type t) => some t | _ => none := rfl
theorem rv_pair (cells : List (RCell F)) (a : Nat) :
    (refView cells).pair a = match cells[a]? with | some (.pair l r) => some (l, r) | _ => none := rfl
theorem rv_range (cells : List (RCell F)) (a : Nat) :
    (refView cells).range a = match cells[a]? with | some (.range s e) => some (s, e) | _ => none := rfl
theorem rv_concatenation (cells : List (RCell F)) (a : Nat) :
    (refView cells).concatenation a = match cells[a]? with | some (.concat l r _) => some (l, r) | _ => none := rfl
theorem rv_slice (cells : List (RCell F)) (a : Nat) :
    (refView cells).slice a = match cells[a]? with | some (.slice v r) => some (v, r) | _ => none := rfl
theorem rv_partial_ (cells : List (RCell F)) (a : Nat) :
    (refView cells).partial_ a = match cells[a]? with | some (.part f x) => some (f, x) | _ => none := rfl
theorem rv_listItems (cells : List (RCell F)) (a : Nat) :
    (refView cells).listItems a = match cells[a]? with | some (.list items) => some items | _ => none := rfl
theorem rv_concatItems (cells : List (RCell F)) (a : Nat) :
    (refView cells).concatItems a = match cells[a]? with | some (.concat _ _ items) => some items | _ => none := rfl
theorem rv_chars (cells : List (RCell F)) (a : Nat) :
    (refView cells).chars a = match cells[a]? with | some (.chars cs) => some cs | _ => none := rfl
theorem rv_bytes (cells : List (RCell F)) (a : Nat) :
    (refView cells).bytes a = match cells[a]? with | some (.bytes bs) => some bs | _ => none := rfl
theorem rv_symList (cells : List (RCell F)) (a : Nat) :
    (refView cells).symList a = match cells[a]? with | some (.symList ps) => some ps | _ => none := rfl

/-- rewrite every getter of `refView` to its `match` on the cell -/
local macro "rv" : tactic => `(tactic| simp only [rv_typeOf, rv_number, rv_char, rv_byte, rv_symbol, rv_expression, rv_external, rv_type_, rv_pair, rv_range, rv_concatenation, rv_slice, rv_partial_, rv_listItems, rv_concatItems, rv_chars, rv_bytes, rv_symList, List.getElem?_concat_length, RCell.ty])

theorem getElem?_append_of_ne {α} {l m : List α} {a : Nat} (h : l[a]? ≠ none) : (l ++ m)[a]? = l[a]? := by
  have : a < l.length := by
    apply Nat.lt_of_not_le
    intro hc
    exact h (List.getElem?_eq_none hc)
  exact List.getElem?_append_left this

/-- appending cells keeps every answer of every getter -/
theorem refView_le (cells more : List (RCell F)) : ViewLe (refView cells) (refView (cells ++ more)) := by
  constructor <;>
  · intro a x h
    have hh : cells[a]? ≠ none := by
      intro e
      simp [rv_typeOf, rv_number, rv_char, rv_byte, rv_symbol, rv_expression, rv_external, rv_type_, rv_pair, rv_range, rv_concatenation, rv_slice, rv_partial_, rv_listItems, rv_concatItems, rv_chars, rv_bytes, rv_symList, e] at h
    simpa [rv_typeOf, rv_number, rv_char, rv_byte, rv_symbol, rv_expression, rv_external, rv_type_, rv_pair, rv_range, rv_concatenation, rv_slice, rv_partial_, rv_listItems, rv_concatItems, rv_chars, rv_bytes, rv_symList, getElem?_append_of_ne hh] using h

theorem refView_new (cells : List (RCell F)) (c : RCell F) : (cells ++ [c])[cells.length]? = some c := by
  simp

theorem refView_typeOf {cells : List (RCell F)} {a : Nat} {c : RCell F} (hc : cells[a]? = some c) :
    (refView cells).typeOf a = some c.ty := by simp [rv_typeOf, hc]

/-- a decodable address has its flat items where `flat` looks for them -/
theorem flatOf_flat {cells : List (RCell F)} {a : Nat} {v : Val F} (h : Decodes (refView cells) a v) :
    FlatOf (refView cells) a (flat cells a) := by
  have ht' := EqualityRefine.decodes_typeOf h
  cases hc : cells[a]? with
  | none => simp [rv_typeOf, hc] at ht'
  | some c =>
    have ht := refView_typeOf hc
    cases c with
    | list items =>
      have e : flat cells a = items := by simp [flat, hc]
      rw [e]; exact .list ht (by simp [rv_listItems, hc])
    | concat l r items =>
      have e : flat cells a = items := by simp [flat, hc]
      rw [e]
      rw [ht] at ht'
      cases h
      all_goals first
        | (exfalso; simp [Val.typeOf, RCell.ty] at ht'; done)
        | skip
      rename_i dl dr fl fr _ hcc ci
      have e1 : (refView cells).concatItems a = some items := by simp [rv_concatItems, hc]
      rw [e1] at ci
      cases ci
      exact .concat ht hcc fl fr
    | _ =>
      have e : flat cells a = [a] := by simp [flat, hc]
      rw [e]; exact .other ht (by simp [RCell.ty]) (by simp [RCell.ty])

variable (host : RefHost F)

theorem keeps_of_append {st st' : RefState F} (more : List (RCell F)) (hc : st'.cells = st.cells ++ more)
    (hj : st'.jumps = st.jumps) (hi : st'.instrLen = st.instrLen) (hu : st'.cursor = st.cursor)
    (hin : st'.instrs = st.instrs) :
    Keeps (refStore host) st st' := by
  refine ⟨fun a v h => ?_, ?_, hi, hu, ?_⟩
  · show Decodes (refView st'.cells) a v
    rw [hc]; exact decodes_mono (refView_le st.cells more) h
  · show (fun j => st'.jumps[j]?) = fun j => st.jumps[j]?
    rw [hj]
  · show (fun i => st'.instrs[i]?) = fun i => st.instrs[i]?
    rw [hin]

theorem keeps_same {st st' : RefState F} (hc : st'.cells = st.cells)
    (hj : st'.jumps = st.jumps) (hi : st'.instrLen = st.instrLen) (hu : st'.cursor = st.cursor)
    (hin : st'.instrs = st.instrs) :
    Keeps (refStore host) st st' := keeps_of_append host [] (by simp [hc]) hj hi hu hin

/-- appending the cell `c` is an adder for `v` when the new cell denotes `v` -/
theorem adds_add (st : RefState F) (c : RCell F) (v : Val F)
    (hd : Decodes (refView (st.cells ++ [c])) st.cells.length v) :
    Adds (refStore host) (RefState.add c) st v :=
  ⟨st.cells.length, { st with cells := st.cells ++ [c] }, rfl, hd,
    ⟨keeps_of_append host [c] rfl rfl rfl rfl rfl, rfl, rfl, rfl, rfl⟩⟩

theorem dec_old {cells : List (RCell F)} (c : RCell F) {a : Nat} {v : Val F} (h : Decodes (refView cells) a v) :
    Decodes (refView (cells ++ [c])) a v := decodes_mono (refView_le cells [c]) h

theorem records_host (c : HostCall) : Records (refStore host) (RefState.host host c) c := by
  intro s b s' h
  simp only [RefState.host] at h
  cases hh : host c <;> rw [hh] at h <;> simp only [Outcome.ok.injEq, Prod.mk.injEq] at h <;>
    (obtain ⟨_, rfl⟩ := h; rfl)

/-- the `parts` of `Abs.mergeSymList` -/
def valParts : Val F → Option (List (SymPart F))
  | .sym s => some [.sym s]
  | .num n => some [.num n]
  | .symList ps => some ps
  | _ => none

theorem mergeSymList_eq (l r : Val F) : mergeSymList l r =
    match valParts l, valParts r with
    | some a, some b => some (.symList (a ++ b))
    | _, _ => none := by
  cases l <;> cases r <;> rfl

theorem symParts_of {cells : List (RCell F)} {a : Nat} {ps : List (SymPart F)} :
    ∀ {v : Val F}, valParts v = some ps → Decodes (refView cells) a v → symParts cells a = some ps := by
  intro v hp h
  have ht := EqualityRefine.decodes_typeOf h
  cases hc : cells[a]? with
  | none => simp [rv_typeOf, hc] at ht
  | some c =>
    cases h <;> simp [valParts] at hp <;> rename_i _ hg <;>
      cases c <;> simp_all [rv_typeOf, rv_symbol, rv_number, rv_symList, symParts, RCell.ty]

/-- a cell that is a pair whose left cell is a symbol decodes to a pair keyed by that symbol -/
theorem keyed_of_cells {cells : List (RCell F)} {item l r k : Nat} {x : Val F}
    (hx : Decodes (refView cells) item x) (h1 : cells[item]? = some (.pair l r)) (h2 : cells[l]? = some (.sym k)) :
    ∃ v, x = .pair (.sym k) v ∧ Decodes (refView cells) r v := by
  have ht := EqualityRefine.decodes_typeOf hx
  rw [rv_typeOf, h1] at ht
  cases hx
  all_goals first
    | (exfalso; simp [Val.typeOf, RCell.ty] at ht; done)
    | skip
  rename_i l' r' vl vr dl dr _ hp
  rw [rv_pair, h1] at hp
  cases hp
  have htl := EqualityRefine.decodes_typeOf dl
  rw [rv_typeOf, h2] at htl
  cases dl
  all_goals first
    | (exfalso; simp [Val.typeOf, RCell.ty] at htl; done)
    | skip
  rename_i s' _ hs
  rw [rv_symbol, h2] at hs
  cases hs
  exact ⟨vr, rfl, dr⟩

/-- conversely, what the cells of a decoded keyed pair look like -/
theorem cells_of_keyed {cells : List (RCell F)} {item k : Nat} {v : Val F}
    (hx : Decodes (refView cells) item (.pair (.sym k) v)) :
    ∃ l r, cells[item]? = some (.pair l r) ∧ cells[l]? = some (.sym k) ∧ Decodes (refView cells) r v := by
  cases hx with
  | pair ht hp dl dr =>
    rename_i l r
    refine ⟨l, r, ?_, ?_, dr⟩
    · rw [rv_pair] at hp
      cases hc : cells[item]? with
      | none => rw [hc] at hp; cases hp
      | some c => rw [hc] at hp; cases c <;> cases hp <;> rfl
    · cases dl with
      | sym _ hs =>
        rw [rv_symbol] at hs
        cases hc : cells[l]? with
        | none => rw [hc] at hs; cases hs
        | some c => rw [hc] at hs; cases c <;> cases hs <;> rfl

theorem findKeyed_spec (cells : List (RCell F)) (sym : Nat) : ∀ (items : List Nat) (vs : List (Val F)),
    DecodesList (refView cells) items vs →
    match Abs.lookupSym sym vs with
    | some v => ∃ r, findKeyed cells sym items = some r ∧ Decodes (refView cells) r v
    | none => findKeyed cells sym items = none
  | [], _, .nil => rfl
  | item :: rest, x :: xs, .cons hx hrest => by
    have ih := findKeyed_spec cells sym rest xs hrest
    -- is the item a pair keyed by a symbol?
    by_cases hk : ∃ k v, x = .pair (.sym k) v
    · obtain ⟨k, v, rfl⟩ := hk
      obtain ⟨l, r, h1, h2, dr⟩ := cells_of_keyed hx
      simp only [Abs.lookupSym, findKeyed, h1, h2]
      by_cases hks : k = sym
      · subst hks; simp only [beq_self_eq_true, if_true]; exact ⟨r, rfl, dr⟩
      · have : (k == sym) = false := by simpa using hks
        simp only [this]; exact ih
    · have e1 : Abs.lookupSym sym (x :: xs) = Abs.lookupSym sym xs := by
        cases x <;> try rfl
        rename_i xl xr
        cases xl <;> try rfl
        exact absurd ⟨_, _, rfl⟩ hk
      have e2 : findKeyed cells sym (item :: rest) = findKeyed cells sym rest := by
        rw [findKeyed]
        cases h1 : cells[item]? with
        | none => rfl
        | some c =>
          cases c <;> try rfl
          rename_i l r
          simp only []
          cases h2 : cells[l]? with
          | none => rfl
          | some c2 =>
            cases c2 <;> try rfl
            rename_i k
            obtain ⟨v, rfl, _⟩ := keyed_of_cells hx h1 h2
            exact absurd ⟨_, _, rfl⟩ hk
      rw [e1, e2]; exact ih

theorem idx_laws {β : Type} (seq : Nat → Option (List β)) :
    Indexes (F := F) (fun a => idxLen (seq a)) (fun a i => idxItem (seq a) i) seq := by
  intro a xs h
  simp only [h, idxLen, idxItem]
  refine ⟨trivial, fun i hi => ?_⟩
  have : ¬ ((i : Int) < 0) := by omega
  simp [this]

theorem refStore_laws : StoreLaws (refStore host) where
  rangeTyped st a p h := by
    change (refView st.cells).range a = _ at h
    show (refView st.cells).typeOf a = _
    rw [rv_range] at h
    rw [rv_typeOf]
    generalize st.cells[a]? = oc at h ⊢
    cases oc with
    | none => cases h
    | some c => cases c <;> first | rfl | cases h
  listIdx st := idx_laws _
  charIdx st := idx_laws _
  byteIdx st := idx_laws _
  symIdx st := idx_laws _
  listSym st a items vs sym hi hd := by
    have h := findKeyed_spec st.cells sym items vs hd
    have e : (refStore host).listItemWithSymbol st a sym = .ok (findKeyed st.cells sym items) := by
      show (match (refView st.cells).listItems a with
        | some items => Outcome.ok (findKeyed st.cells sym items)
        | none => .err .data) = _
      rw [show (refView st.cells).listItems a = some items from hi]
    cases hl : Abs.lookupSym sym vs with
    | none => rw [hl] at h; simp only [] at h ⊢; rw [e, h]
    | some v =>
      rw [hl] at h
      obtain ⟨r, h1, d⟩ := h
      exact ⟨r, by rw [e, h1], d⟩
  addUnit st := adds_add host st .unit .unit (.unit (by rv))
  addTrue st := adds_add host st .tru .tru (.tru (by rv))
  addFalse st := adds_add host st .fls .fls (.fls (by rv))
  addNumber n st := adds_add host st (.num n) (.num n) (.num (by rv) (by rv))
  addType t st := adds_add host st (.type t) (.type t) (.type (by rv) (by rv))
  addChar c st := adds_add host st (.char c) (.char c) (.char (by rv) (by rv))
  addByte b st := adds_add host st (.byte b) (.byte b) (.byte (by rv) (by rv))
  addSymbol y st := adds_add host st (.sym y) (.sym y) (.sym (by rv) (by rv))
  addPair l r vl vr st hl hr := adds_add host st (.pair l r) (.pair vl vr)
    (.pair (by rv) (by rv) (dec_old _ hl) (dec_old _ hr))
  addConcatenation l r vl vr st hl hr :=
    adds_add host st (.concat l r (flat st.cells l ++ flat st.cells r)) (.concat vl vr)
      (.concat (by rv) (by rv) (dec_old _ hl) (dec_old _ hr)
        (flatOf_mono (refView_le _ _) (flatOf_flat hl)) (flatOf_mono (refView_le _ _) (flatOf_flat hr))
        (by rv))
  addRange l r vl vr st hl hr := adds_add host st (.range l r) (.range vl vr)
    (.range (by rv) (by rv) (dec_old _ hl) (dec_old _ hr))
  addSlice l r vl vr st hl hr := adds_add host st (.slice l r) (.slice vl vr)
    (.slice (by rv) (by rv) (dec_old _ hl) (dec_old _ hr))
  addPartial l r vl vr st hl hr := adds_add host st (.part l r) (.part vl vr)
    (.part (by rv) (by rv) (dec_old _ hl) (dec_old _ hr))
  mergeSome l r vl vr v st hl hr hm := by
    rw [mergeSymList_eq] at hm
    split at hm
    · rename_i a b ha hb
      cases hm
      have e1 := symParts_of ha hl
      have e2 := symParts_of hb hr
      have key : (refStore host).mergeToSymbolList l r st = RefState.add (.symList (a ++ b)) st := by
        show (match symParts st.cells l, symParts st.cells r with
          | some a, some b => RefState.add (.symList (a ++ b)) st
          | _, _ => .err .data) = _
        rw [e1, e2]
      obtain ⟨x, s', h1, d, e⟩ := adds_add host st (.symList (a ++ b)) (.symList (a ++ b))
        (.symList (by rv) (by rv))
      exact ⟨x, s', key.trans h1, d, e⟩
    · cases hm
  startList n st := ⟨0, { st with building := some (0, []) }, rfl,
    ⟨keeps_same host rfl rfl rfl rfl rfl, rfl, rfl, rfl, rfl⟩, rfl⟩
  addToList t items a st hb := by
    have hb' : st.building = some (t, items) := hb
    refine ⟨t + 1, { st with building := some (t + 1, items ++ [a]) }, ?_,
      ⟨keeps_same host rfl rfl rfl rfl rfl, rfl, rfl, rfl, rfl⟩, rfl⟩
    show (match st.building with
      | some (t0, items) =>
        if t0 == t then Outcome.ok (t + 1, { st with building := some (t + 1, items ++ [a]) }) else .err .data
      | none => .err .data) = _
    rw [hb']; simp
  endList t items vs st hb hd := by
    have hb' : st.building = some (t, items) := hb
    refine ⟨st.cells.length, { st with cells := st.cells ++ [.list items], building := none }, ?_, ?_,
      ⟨keeps_of_append host [.list items] rfl rfl rfl rfl rfl, rfl, rfl, rfl, rfl⟩⟩
    · show (match st.building with
        | some (t0, items) =>
          if t0 == t then
            Outcome.ok (st.cells.length, { st with cells := st.cells ++ [RCell.list items], building := none })
          else .err .data
        | none => .err .data) = _
      rw [hb']; simp
    · show Decodes (refView (st.cells ++ [RCell.list items])) st.cells.length (.list vs)
      exact Decodes.list (by rw [rv_typeOf, List.getElem?_concat_length]; rfl)
        (by rw [rv_listItems, List.getElem?_concat_length]) (decodesList_mono (refView_le _ _) hd)
  popRegisterBuilding st o st' h := by
    have h' : (match st.regs with
      | [] => Outcome.ok (none, st)
      | a :: rest => .ok (some a, { st with regs := rest })) = .ok (o, st') := h
    cases hr : st.regs with
    | nil => rw [hr] at h'; cases h'; rfl
    | cons a rest => rw [hr] at h'; cases h'; rfl
  pushRegister a st := ⟨{ st with regs := a :: st.regs }, rfl, keeps_same host rfl rfl rfl rfl rfl, rfl, rfl, rfl, rfl⟩
  popRegisterNil st h := ⟨st, by
    show (match st.regs with | [] => _ | a :: rest => _) = _
    rw [show st.regs = [] from h], keeps_same host rfl rfl rfl rfl rfl, h, rfl, rfl, rfl⟩
  popRegisterCons st a rest h := ⟨{ st with regs := rest }, by
    show (match st.regs with | [] => _ | a :: rest => _) = _
    rw [show st.regs = a :: rest from h], keeps_same host rfl rfl rfl rfl rfl, rfl, rfl, rfl, rfl⟩
  pushValueStack a st := ⟨{ st with vals := a :: st.vals }, rfl, keeps_same host rfl rfl rfl rfl rfl, rfl, rfl, rfl, rfl⟩
  popValueStackNil st h := ⟨st, by
    show (match st.vals with | [] => _ | a :: rest => _) = _
    rw [show st.vals = [] from h], keeps_same host rfl rfl rfl rfl rfl, rfl, h, rfl, rfl⟩
  popValueStackCons st a rest h := ⟨{ st with vals := rest }, by
    show (match st.vals with | [] => _ | a :: rest => _) = _
    rw [show st.vals = a :: rest from h], keeps_same host rfl rfl rfl rfl rfl, rfl, rfl, rfl, rfl⟩
  setCurrentNil r st h := ⟨st, by
    show (match st.vals with | [] => _ | _ :: rest => _) = _
    rw [show st.vals = [] from h], keeps_same host rfl rfl rfl rfl rfl, rfl, h, rfl, rfl⟩
  setCurrentCons r st a rest h := ⟨{ st with vals := r :: rest }, by
    show (match st.vals with | [] => _ | _ :: rest => _) = _
    rw [show st.vals = a :: rest from h], keeps_same host rfl rfl rfl rfl rfl, rfl, rfl, rfl, rfl⟩
  pushFrame j st := ⟨{ st with frames := (j, st.regs) :: st.frames }, rfl,
    ⟨keeps_same host rfl rfl rfl rfl rfl, rfl, rfl, rfl, rfl⟩⟩
  popFrameNil st hf := by
    refine ⟨st, ?_, keeps_same host rfl rfl rfl rfl rfl, rfl, rfl, rfl, rfl⟩
    show (match st.frames with | [] => _ | (ret, saved) :: fs => _) = _
    rw [show st.frames = [] from hf]
  popFrameCons st ret saved fs hf := by
    refine ⟨{ st with frames := fs, regs := saved }, ?_, ⟨keeps_same host rfl rfl rfl rfl rfl, rfl, rfl, rfl, rfl⟩⟩
    show (match st.frames with | [] => _ | (ret, saved) :: fs => _) = _
    rw [show st.frames = (ret, saved) :: fs from hf]
  setCursor n st := ⟨{ st with cursor := n }, rfl, rfl, fun _ _ h => h, rfl, rfl, rfl, rfl, rfl, rfl, rfl, rfl⟩
  deferOp op l r := records_host host _
  resolve y := records_host host _
  apply e a := records_host host _

end Garnish.Lemmas.Runtime
