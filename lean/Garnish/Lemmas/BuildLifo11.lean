/-
C04, builder half — the order of the out-of-line parts, part 11: the conditional arm and the else-chain head as `StepL`.
-/
import Garnish.Lemmas.BuildLifo10
namespace Garnish.Lemmas.BuildSeq
open Garnish Garnish.Gen Garnish.Model.Parser Garnish.Model.Literals Garnish.Model.Build Garnish.Lemmas.Build
open Garnish.Lemmas.BuildTotal
open Garnish.Lemmas.BuildOrder (Above Attr Moving)
open Garnish.Lemmas.BuildAttr (assign_some)

variable {F : Type} {root : Nat} {tree : Array ParseNode} {G : Nat → Prop} {m0 : Nat}

theorem get_lt' {nodes : Nodes} {x : Nat} {v : Option BuildNode} (h : nodes[x]? = some v) : x < nodes.size := by
  rcases Nat.lt_or_ge x nodes.size with h1 | h1
  · exact h1
  · rw [Array.getElem?_eq_none h1] at h; cases h

/-- `handle_jump_if`, second visit under a conditional parent: the arm is recorded at the parent -/
theorem mkStepL_cond {ph : Nat → Phase} {ctx ctx' : Ctx F} {ni : Nat} {pn : ParseNode} {r cp : Nat} {l : List (Option Nat)}
    {M M' : Array (Option Nat)}
    (st : Step root tree G ph (condPhase ph ni r cp) ctx ctx' ni pn .p3 [] [r] [] l M M')
    (hr : pn.right = some r) (hj : isJumpIf pn.definition = true) {node parent : BuildNode}
    (hnode : ctx.nodes[ni]? = some (some node)) (hcpn : node.conditionalParent = some cp)
    (hcp : ctx.nodes[cp]? = some (some parent)) (item : ConditionItem) (hitem : item.nodeIndex = r)
    (hR : ctx'.rootStack = ctx.rootStack)
    (hN : ctx'.nodes = putNode ctx.nodes cp { parent with conditionalItems := parent.conditionalItems.push item })
    (hp2 : ph ni ≠ .p1) (hr0 : ph r = .p0) :
    StepL root tree G ph (condPhase ph ni r cp) ctx ctx' ni pn .p3 [] [r] [] [] l M M' := by
  have hrn : r ≠ ni := (st.hfreshrs r (by simp)).2
  have hr' : condPhase ph ni r cp r = .pc cp := by simp [condPhase, hrn]
  have hcplt := get_lt' hcp
  have hget : ctx'.nodes[cp]? = some (some { parent with conditionalItems := parent.conditionalItems.push item }) := by
    rw [hN, getElem?_putNode, if_pos rfl, if_pos hcplt]
  have hmem : ∀ c, c ∈ [r] → c = r := fun c hc => by simpa using hc
  refine ⟨st, by rw [hR]; simp, fun c => ⟨(fun h => by cases h), (fun h => ?_)⟩, (fun c hc => Or.inr ⟨cp, by rw [hmem c hc]; exact hr'⟩),
    fun _ => rfl, (fun h => absurd h hp2), (fun c hc => Or.inl (by rw [hmem c hc]; exact ⟨hr0, hr⟩)), ?_, ?_, ?_, ?_, ?_, ?_, ?_, ?_,
    (fun h => by rw [h] at hj; simp [isJumpIf] at hj)⟩
  · have := hmem c h.1
    rw [this, hr'] at h; cases h.2
  · intro c hc _ hp
    rw [hmem c hc, hr'] at hp; cases hp
  · intro c cp' hc hp
    rw [hmem c hc, hr'] at hp
    cases hp
    exact ⟨hj, node, parent, hnode, hcpn, hcp, _, hget, by rw [hmem c hc]; simp [itemsOf, hitem]⟩
  · intro _ r' bn hr'' hn
    rw [hr] at hr''; cases hr''
    rw [hnode] at hn; cases hn
    refine ⟨fun h => ?_, fun _ cp' parent' hc' _ => ?_⟩
    · rcases h with h | ⟨_, h⟩
      · rw [jumpIf_not_direct hj] at h; cases h
      · rw [hcpn] at h; cases h
    · rw [hcpn] at hc'; cases hc'
      exact ⟨by simp, hr'⟩
  · intro _ hd
    exact absurd hd (jumpIf_not_else hj)
  · intro x bn' hb' _
    rcases Classical.em (cp = x) with e | e
    · subst e
      rw [hget] at hb'; cases hb'
      exact ⟨parent, hcp, rfl, Or.inr ⟨r, by simp, hr', by simp [itemsOf, hitem]⟩⟩
    · rw [hN, getElem?_putNode, if_neg e] at hb'
      exact ⟨bn', hb', rfl, Or.inl rfl⟩
  · intro x bn' hb' hno
    rcases Classical.em (cp = x) with e | e
    · subst e; exact absurd hcp (hno parent)
    · rw [hN, getElem?_putNode, if_neg e] at hb'
      exact absurd hb' (hno bn')
  · intro x bn hb
    rcases Classical.em (cp = x) with e | e
    · subst e; exact ⟨_, hget⟩
    · rw [hN, getElem?_putNode, if_neg e]; exact ⟨bn, hb⟩
  · intro c hc
    rcases hc with h | ⟨h, h'⟩
    · cases h
    · rw [hmem c h, hr'] at h'; cases h'

/-- the head of an else-chain releases its arms -/
theorem mkStepL_else {ph : Nat → Phase} {ctx ctx' : Ctx F} {ni : Nat} {pn : ParseNode} {node : BuildNode} {l : List (Option Nat)}
    {M M' : Array (Option Nat)}
    (st : Step root tree G ph (elsePhase ph ni (node.conditionalItems.toList.map (·.nodeIndex))) ctx ctx' ni pn .p3 []
      (node.conditionalItems.toList.map (·.nodeIndex)) [] l M M')
    (hdef : pn.definition = .elseJump) (hnode : ctx.nodes[ni]? = some (some node)) (hcpn : node.conditionalParent = none)
    (containing jumpToIndex : Nat)
    (hR : ctx'.rootStack.toList = ctx.rootStack.toList ++ node.conditionalItems.toList.map (·.nodeIndex))
    (hN : ctx'.nodes = assign ctx.nodes (node.conditionalItems.toList.map (itemNode containing jumpToIndex)))
    (hp2 : ph ni ≠ .p1)
    (hidx : ∀ x, x ∈ node.conditionalItems.toList.map (·.nodeIndex) → ph x = .pc ni ∧ x ≠ ni ∧ x < ctx.nodes.size ∧
      NCP tree G root x ∧ ∀ (bn : BuildNode), ctx.nodes[x]? ≠ some (some bn)) :
    StepL root tree G ph (elsePhase ph ni (node.conditionalItems.toList.map (·.nodeIndex))) ctx ctx' ni pn .p3 []
      (node.conditionalItems.toList.map (·.nodeIndex)) [] (node.conditionalItems.toList.map (·.nodeIndex)) l M M' := by
  have hpr : ∀ c, c ∈ node.conditionalItems.toList.map (·.nodeIndex) →
      elsePhase ph ni (node.conditionalItems.toList.map (·.nodeIndex)) c = .pr := by
    intro c hc
    have := (hidx c hc).2.1
    simp [elsePhase, this, hc]
  have hnj : isJumpIf pn.definition = false := by rw [hdef]; rfl
  have hnd : isDirect pn.definition = false := by rw [hdef]; rfl
  have hkey : ∀ q, q ∈ node.conditionalItems.toList.map (itemNode containing jumpToIndex) →
      q.1 ∈ node.conditionalItems.toList.map (·.nodeIndex) ∧ q.2.conditionalItems = #[] ∧ q.2.conditionalParent = none := by
    intro q hq
    obtain ⟨it, hit, he⟩ := List.mem_map.1 hq
    subst he
    exact ⟨List.mem_map.2 ⟨it, hit, rfl⟩, rfl, rfl⟩
  refine ⟨st, hR, fun c => ⟨fun h => ⟨h, hpr c h⟩, fun h => h.1⟩, fun c hc => Or.inl (hpr c hc), fun _ => rfl,
    fun h => absurd h hp2, fun c hc => Or.inr ⟨(hidx c hc).1, hdef, hpr c hc, fun bn hn => ?_⟩, ?_, ?_, ?_, ?_, ?_, ?_, ?_, ?_,
    (fun h => by rw [hdef] at h; cases h)⟩
  · rw [hnode] at hn; cases hn; exact hcpn
  · intro c hc h0
    rw [(hidx c hc).1] at h0; cases h0
  · intro c cp hc hp
    rw [hpr c hc] at hp; cases hp
  · intro _ r bn _ _
    refine ⟨fun h => ?_, fun h => ?_⟩
    · rcases h with h | ⟨h, _⟩
      · rw [hnd] at h; cases h
      · rw [hnj] at h; cases h
    · rw [hnj] at h; cases h
  · intro _ _ bn hn _
    rw [hnode] at hn; cases hn; rfl
  · intro x bn' hb' ⟨bn0, hb0⟩
    rw [hN] at hb'
    rcases assign_get _ ctx.nodes x _ hb' with ⟨b, hb, hvb⟩ | ⟨hold, _⟩
    · exact absurd hb0 ((hidx x (hkey _ hb).1).2.2.2.2 bn0)
    · exact ⟨bn', hold, rfl, Or.inl rfl⟩
  · intro x bn' hb' hno
    rw [hN] at hb'
    rcases assign_get _ ctx.nodes x _ hb' with ⟨b, hb, hvb⟩ | ⟨hold, _⟩
    · cases hvb
      obtain ⟨h1, h2, h3⟩ := hkey _ hb
      have h2' : bn'.conditionalItems = #[] := h2
      have h3' : bn'.conditionalParent = none := h3
      refine ⟨Or.inr ⟨h1, hpr x h1⟩, by simp [itemsOf, h2'], ?_⟩
      rw [h3']; exact (hidx x h1).2.2.2.1
    · exact absurd hold (hno bn')
  · intro x bn hb
    rw [hN]; exact assign_some _ ctx.nodes x bn hb
  · intro c hc
    rcases hc with h | ⟨h, _⟩
    · cases h
    · obtain ⟨it, hit, he⟩ := List.mem_map.1 h
      rw [hN]
      exact assign_mem _ ctx.nodes c (itemNode containing jumpToIndex it).2
        (List.mem_map.2 ⟨it, hit, by simp [itemNode, he]⟩) (hidx c h).2.2.1

end Garnish.Lemmas.BuildSeq
