/-
The tie between the two builder models (9): nodes with two operands scheduled inline.
-/
import Garnish.Lemmas.CompileTree8
namespace Garnish.Abs.Tree
open Garnish Garnish.Gen Garnish.Spec Garnish.Abs Garnish.Model.Parser Garnish.Model.Literals Garnish.Model.Build

variable {F : Type} {pf : List Char → Option F} {tree : Array ParseNode} {bodies : List (Nat × Expr F)}

/-- **a node with two operands scheduled inline**; `c1` is popped first. The intervals `[lo1, hi1)`, `[lo2, hi2)` of the
operands and `i` make up `[lo, hi)`. -/
theorem sim_two_children {lo hi lo1 hi1 lo2 hi2 i c1 c2 : Nat} {e e1 e2 : Expr F} {pn : ParseNode}
    {pre_ : LState F → LState F} {post : Nat → LState F → LState F}
    (hpn : tree[i]? = some pn) (hin : lo ≤ i ∧ i < hi) (hc1 : lo1 ≤ c1 ∧ c1 < hi1) (hc2 : lo2 ≤ c2 ∧ c2 < hi2)
    (hc1t : c1 < tree.size) (hc2t : c2 < tree.size)
    (hiv : ∀ y, (y = i ∨ (Ival lo1 hi1 y ∨ Ival lo2 hi2 y)) ↔ Ival lo hi y)
    (hni1 : ¬ Ival lo1 hi1 i) (hni2 : ¬ Ival lo2 hi2 i) (hdisj : ∀ y, Ival lo1 hi1 y → Ival lo2 hi2 y → False)
    (hsz : (hi1 - lo1) + (hi2 - lo2) + 1 ≤ hi - lo)
    (hfirst : ∀ (crj : Nat) (data : BState F) (nodes : Nodes) (RS S : Array Nat) (b : BuildNode) (s : LState F),
      nodes[i]? = some (some b) → b.state = .uninitialized → b.parseNodeIndex = i → c1 < nodes.size → c2 < nodes.size →
      DataEq data s →
      ∃ dataF nodesH, handleParseNode pf ⟨data, nodes, RS, S⟩ crj i pn = .ok ⟨dataF, nodesH, RS, ((S.push i).push c2).push c1⟩ ∧
        DataEq dataF (pre_ s) ∧ nodesH.size = nodes.size ∧ nodesH[i]? = some (some (visited b)) ∧
        nodesH[c1]? = some (some (BuildNode.new c1 b.containingExpressionJump)) ∧
        nodesH[c2]? = some (some (BuildNode.new c2 b.containingExpressionJump)) ∧
        ∀ y, y ≠ i → y ≠ c1 → y ≠ c2 → nodesH[y]? = nodes[y]?)
    (hsecond : ∀ (crj cur : Nat) (data : BState F) (nodes : Nodes) (RS S : Array Nat) (b : BuildNode) (s : LState F),
      nodes[i]? = some (some b) → b.state = .initialized → b.parseNodeIndex = i → b.containingExpressionJump = cur →
      DataEq data s →
      ∃ dataZ, handleParseNode pf ⟨data, nodes, RS, S⟩ crj i pn = .ok ⟨dataZ, nodes, RS, S⟩ ∧ DataEq dataZ (post cur s))
    (hpre_p : ∀ s, (pre_ s).pending = s.pending) (hpre_j : ∀ s, s.jumps.size ≤ (pre_ s).jumps.size)
    (hpost_p : ∀ cur s, (post cur s).pending = s.pending)
    (hemit : ∀ root cur s, emit root cur e s = post cur (emit root cur e2 (emit root cur e1 (pre_ s))))
    (ih1 : SimT pf tree bodies lo1 hi1 c1 e1) (ih2 : SimT pf tree bodies lo2 hi2 c2 e2) : SimT pf tree bodies lo hi i e := by
  intro crj root cur data nodes RS S s lp cp pbn pre hdat hcur
  have hlt : i < nodes.size := lt_of_get pre.node
  have hic1 : i ≠ c1 := fun h => hni1 (h ▸ hc1)
  have hic2 : i ≠ c2 := fun h => hni2 (h ▸ hc2)
  have hc12 : c1 ≠ c2 := fun h => hdisj c1 hc1 (h ▸ hc2)
  have hc1in : Ival lo hi c1 := (hiv c1).1 (.inr (.inl hc1))
  have hc2in : Ival lo hi c2 := (hiv c2).1 (.inr (.inr hc2))
  have hne : ∀ par d, lp = some (par, d) → par ≠ i ∧ par ≠ c1 ∧ par ≠ c2 := fun par d h => by
    have := (pre.par par d h).1
    have := hc1in.1; have := hc1in.2; have := hc2in.1; have := hc2in.2
    exact ⟨by omega, by omega, by omega⟩
  have hparOut : ∀ par d, lp = some (par, d) → ¬ (Ival lo1 hi1 par ∨ Ival lo2 hi2 par) := fun par d h hh => by
    have := (pre.par par d h).1
    have := (hiv par).1 (.inr hh)
    simp only [Ival] at this; omega
  -- first visit
  obtain ⟨dataF, nodesH, hhF, hdF, hHsz, hHi, hH1, hH2, hHo⟩ :=
    hfirst crj data nodes RS S _ s pre.node rfl rfl (by rw [pre.size]; exact hc1t) (by rw [pre.size]; exact hc2t) hdat
  have st1 := first_visit (pf := pf) (crj := crj) (data := data) (RS := RS) (S := S) pre hin hpn hhF hHi
    (fun par d h => hHo par (hne par d h).1 (hne par d h).2.1 (hne par d h).2.2)
  generalize hA : counted nodesH i (visited (mkNode i cur lp cp)) lp pbn = A at st1
  have hAi : A[i]? = some (some (node1 i cur lp cp)) := by rw [← hA]; exact counted_node hHi (fun p d h => (hne p d h).1)
  have hAo : ∀ y, y ≠ i → (∀ par d, lp = some (par, d) → y ≠ par) → A[y]? = nodesH[y]? := fun y h1 h2 => by
    rw [← hA]; exact counted_other h1 h2
  have hAsz : A.size = nodes.size := by rw [← hA, counted_size, hHsz]
  -- first operand
  have preC1 : Pre tree A lo1 hi1 c1 cur none Ex.none pbn :=
    Pre.child none pbn (by rw [hAsz, pre.size])
      (by rw [hAo c1 (Ne.symm hic1) (fun p d h => Ne.symm (hne p d h).2.1), hH1]; rfl) (fun ⟨_, h⟩ => by cases h)
  obtain ⟨k1, data1, B, RS1, R1, stB, hk1, hd1, hrs1, hp1, done1, _⟩ :=
    ih1 crj root cur dataF A RS ((S.push i).push c2) (pre_ s) none Ex.none pbn preC1 hdF (by have := hpre_j s; omega)
  have hj1 : cur < (emit root cur e1 (pre_ s)).jumps.size := by
    have := (emit_pre root cur e1 (pre_ s) (by have := hpre_j s; omega)).1.jsize
    have := hpre_j s; omega
  -- second operand
  have preC2 : Pre tree B lo2 hi2 c2 cur none Ex.none pbn :=
    Pre.child none pbn (by rw [done1.size, hAsz, pre.size])
      (by
        rw [done1.frame c2 (fun h => hdisj c2 h hc2) (fun _ _ h => by cases h),
          hAo c2 (Ne.symm hic2) (fun p d h => Ne.symm (hne p d h).2.2), hH2]; rfl)
      (fun ⟨_, h⟩ => by cases h)
  obtain ⟨k2, data2, C, RS2, R2, stC, hk2, hd2, hrs2, hp2, done2, _⟩ :=
    ih2 crj root cur data1 B RS1 (S.push i) _ none Ex.none pbn preC2 hd1 hj1
  have done12 := done1.trans (n3 := 0) done2 hdisj
  -- second visit
  have hCi : C[i]? = some (some (node1 i cur lp cp)) := by
    rw [done12.frame i (fun h => h.elim hni1 hni2) (fun _ _ h => by cases h)]; exact hAi
  obtain ⟨dataZ, hhZ, hdZ⟩ := hsecond crj cur data2 C RS2 S _ _ hCi rfl rfl rfl hd2
  have st2 := second_visit (lp := lp) (crj := crj) (RS := RS2) (S := S) hpn hhZ hCi rfl rfl
  refine ⟨1 + k1 + k2 + 1, dataZ, C, RS2, R2 ++ R1, ((st1.trans stB).trans stC).trans st2, (by simp only [wsum_nil, wsum_append, wsum_cons] at *; omega), ?_, ?_, ?_, ?_, ⟨_, hCi, rfl⟩⟩
  · rw [hemit]; exact hdZ
  · rw [hrs2, hrs1]; simp
  · rw [hemit, hpost_p, hp2, hp1, hpre_p]; simp
  · refine (Done.wrap (i := i) (lp := lp) (pbn := pbn) (N := nodes) done12 hAsz (fun y h1 h2 h3 => ?_) ⟨_, hAi⟩
      (fun h => h.elim hni1 hni2) (fun par d h => ⟨hparOut par d h, ?_⟩)).cong hiv
    · have e1 : y ≠ c1 := fun e => h2 (.inl (by subst e; exact hc1))
      have e2 : y ≠ c2 := fun e => h2 (.inr (by subst e; exact hc2))
      rw [hAo y h1 h3, hHo y h1 e1 e2]
    · subst h
      rw [← hA]
      refine counted_parent ?_
      rw [hHo par (hne par d rfl).1 (hne par d rfl).2.1 (hne par d rfl).2.2]
      exact (pre.par par d rfl).2.1

end Garnish.Abs.Tree
