/-
**`optimize` keeps `WFq`**: the compacted block is the retained prefix — with the retained cells of the input-value
chain re-pointed to the moved data — followed by well-formed copies whose links lead to retained nodes or to copies
at lower addresses; the copies of input-value cells are chained.
Hypothesis `hstale`: a retained input-value cell that still refers to data behind the retention count is on the
current input-value chain (the re-pointing loop walks that chain only; a popped cell would keep a stale address).
-/
import Garnish.Lemmas.MutOptPre
set_option maxHeartbeats 4000000
namespace Garnish.BasicOpt
open Garnish

/-- no retained input-value cell off the current chain refers to data behind the retention count -/
def NoStale (s : Store) : Prop :=
  ∀ i v, i < s.retention → ((∃ p, s.cells[i]? = some (.value p v)) ∨ s.cells[i]? = some (.valueRoot v)) →
    v < s.retention ∨ OnHead s.cells s.currentValue i

theorem optimize_wfq {s s' : Store} {roots m : List Nat} (hwf : WFq s) (hroots : rootsOK s roots = true)
    (hstale : NoStale s) (h : Store.optimize s roots = .ok (s', m)) : WFq s' ∧ rootsOK s' m = true := by
  obtain ⟨hr, hbody⟩ := optimize_ok h
  obtain ⟨s5, s6, sR, hinv, hc0A, hret6, hstart6, hval6, hR, tf, hidx, hnoidx, hloopX, hret5⟩ :=
    optimizeBody_coreX hbody hr hwf.listsWF
  have hpre := indexPhase_preq hwf hroots hidx
  have hfresh := hinv.fresh hpre
  -- provenance of the copies
  have hprov : Prov (s5.cells.size - s.retention) s.cells s6 s5.cells.size := by
    rcases hloopX with hloop | ⟨e1, e2⟩
    · have hinv0 : CInv (s5.cells.size - s.retention) s.cells s5 s.cells.size s5.cells.size
          (s5.cells.size - s.cells.size) s5 :=
        ⟨indexPhase_agree hidx, rfl, rfl, Nat.le_refl _, by omega, fun _ _ _ => rfl, fun j hj1 hj2 => by omega,
          fun _ j h1 h2 => by omega⟩
      exact cloneLoop_prov (Nat.le_refl _) hwf.listsWF (Or.inr (by rw [hret5]; omega)) (by rw [hret5]; omega) hpre
        _ _ _ hinv0 (fun j h1 h2 => by omega) hloop
    · intro j h1 h2
      rw [e1] at h2; omega
  -- the re-pointing loop
  obtain ⟨eR, hszR, hkeep, hrep⟩ := repoint_facts hwf hinv.agree0 hret6 hr hR
  have hhigh : ∀ j, s.cells.size ≤ j → sR.cells[j]? = s6.cells[j]? :=
    fun j hj => hkeep j (fun ⟨h1, _⟩ => by have := onHead_lt h1; omega)
  have hlinkR : ∀ x x', Link sR s.cells.size s5.cells.size x x' → Link s6 s.cells.size s5.cells.size x x' :=
    fun x x' hl => Link.mono (Nat.le_refl _) eR.frame.1.symm (fun j hj1 _ => (hhigh j hj1).symm) hl
  have hu6 : SVUpd s6.cells sR.cells := by
    refine ⟨hszR, fun j => ?_⟩
    by_cases hj : OnHead s.cells s.currentValue j ∧ j < s.retention
    · right
      rcases hrep j hj.1 hj.2 with ⟨p, v, v', h1, h2, _⟩ | ⟨v, v', h1, h2, _⟩
      · exact ⟨by simp [svAt, hinv.agree0 _ _ h1, isSV], by simp [svAt, h2, isSV]⟩
      · exact ⟨by simp [svAt, hinv.agree0 _ _ h1, isSV], by simp [svAt, h2, isSV]⟩
    · exact Or.inl (hkeep j hj)
  have hs6cell : ∀ i, i < s.cells.size → s6.cells[i]? = s.cells[i]? := by
    intro i hi
    obtain ⟨c, hc⟩ : ∃ c, s.cells[i]? = some c := ⟨s.cells[i], by simp [hi]⟩
    rw [hc]; exact hinv.agree0 i c hc
  -- the retained prefix of the result, cell by cell
  have hA : ∀ i, i < s.retention →
      (s'.cells[i]? = s.cells[i]? ∧ (∀ v, ((∃ p, s.cells[i]? = some (.value p v)) ∨ s.cells[i]? = some (.valueRoot v)) →
        v < s.retention)) ∨
      (∃ p v v', s.cells[i]? = some (.value p v) ∧ s'.cells[i]? = some (.value p v') ∧
        Link s6 s.cells.size s5.cells.size v v') ∨
      (∃ v v', s.cells[i]? = some (.valueRoot v) ∧ s'.cells[i]? = some (.valueRoot v') ∧
        Link s6 s.cells.size s5.cells.size v v') := by
    intro i hi
    by_cases hon : OnHead s.cells s.currentValue i
    · rcases hrep i hon hi with ⟨p, v, v', h1, h2, h3⟩ | ⟨v, v', h1, h2, h3⟩
      · exact Or.inr (Or.inl ⟨p, v, v', h1, by rw [tf.pre i hi]; exact h2, h3⟩)
      · exact Or.inr (Or.inr ⟨v, v', h1, by rw [tf.pre i hi]; exact h2, h3⟩)
    · refine Or.inl ⟨by rw [tf.pre i hi, hkeep i (fun ⟨h1, _⟩ => hon h1), hs6cell i (by omega)], ?_⟩
      intro v hv
      rcases hstale i v hi hv with h | h
      · exact h
      · exact absurd h hon
  -- sizes
  have hszV : s.retention ≤ s'.cells.size := by
    rcases Nat.lt_or_ge s'.cells.size s.retention with hlt | hge
    · exfalso
      have h1 := tf.pre s'.cells.size hlt
      rw [Array.getElem?_eq_none (Nat.le_refl _)] at h1
      have hlt2 : s'.cells.size < sR.cells.size := by rw [hszR]; have := hinv.hiLe; omega
      rw [Array.getElem?_eq_getElem hlt2] at h1; cases h1
    · exact hge
  -- `W`: the original block with the re-pointed chain cells; `P`: its retained prefix
  let W := sR.cells.extract 0 s.cells.size
  have hWsz : W.size = s.cells.size := by
    simp only [W, Array.size_extract]; rw [hszR]; have := hinv.hiLe; omega
  have hWcell : ∀ i, i < s.cells.size → W[i]? = sR.cells[i]? := by
    intro i hi
    simp only [W]; rw [Array.getElem?_extract]; simp; rw [hszR]; have := hinv.hiLe; omega
  have hW : SVUpd s.cells W := by
    refine ⟨hWsz, fun j => ?_⟩
    by_cases hj : j < s.cells.size
    · rcases hu6.2 j with e | ⟨e1, e2⟩
      · left; rw [hWcell j hj, e, hs6cell j hj]
      · right
        simp only [svAt, hs6cell j hj] at e1
        exact ⟨by simpa [svAt] using e1, by simpa [svAt, hWcell j hj] using e2⟩
    · left
      rw [Array.getElem?_eq_none (by omega), Array.getElem?_eq_none (by omega)]
  let P := W.extract 0 s.retention
  have hPsz : P.size = s.retention := by simp only [P, Array.size_extract]; omega
  have hPcell : ∀ i, i < s.retention → P[i]? = s'.cells[i]? := by
    intro i hi
    simp only [P]; rw [Array.getElem?_extract, tf.pre i hi, ← hWcell i (by omega)]; simp; omega
  have hPW : SVUpd (s.cells.extract 0 s.retention) P := hW.extract s.retention
  have hcellsV : s'.cells = P ++ s'.cells.extract P.size s'.cells.size :=
    prefix_append (by rw [hPsz]; exact hszV) (fun i hi => by rw [hPsz] at hi; exact (hPcell i hi).symm)
  have hexcell : ∀ i, i < s.retention → (s.cells.extract 0 s.retention)[i]? = s.cells[i]? := by
    intro i hi
    rw [Array.getElem?_extract]; simp; omega
  -- shapes in the retained prefix
  have hshapeP : ∀ i, i < s.retention → s'.cells[i]? = s.cells[i]? → shape P i = shape s.cells i := by
    intro i hi hsame
    have hext := hwf.extent i hi
    simp only [extentOK, decide_eq_true_eq] at hext
    rw [← hext]
    exact hPW.shape_same (by rw [hPcell i hi, hexcell i hi, hsame])
  have hhP : ∀ i, i < P.size → headerOK P i = true := by
    intro i hi
    rw [hPsz] at hi
    have hlt : i < s.cells.size := by omega
    have hold := hwf.headers i hlt
    rcases hA i hi with ⟨e, _⟩ | ⟨p, v, v', h1, h2, _⟩ | ⟨v, v', h1, h2, _⟩
    · simp only [headerOK, hPcell i hi, e, isNode, hshapeP i hi e] at hold ⊢
      exact hold
    · simp [headerOK, hPcell i hi, h2]
    · simp [headerOK, hPcell i hi, h2]
  have hshapeVP : ∀ i, i < s.retention → shape s'.cells i = shape P i := by
    intro i hi
    rw [hcellsV]; exact shape_append_eq P _ hhP (by rw [hPsz]; exact hi)
  have hshapeOld : ∀ i, i < s.retention → s'.cells[i]? = s.cells[i]? → shape s'.cells i = shape s.cells i :=
    fun i hi hsame => (hshapeVP i hi).trans (hshapeP i hi hsame)
  have hnodeOld : ∀ k, k < s.retention → isNode s.cells k = true → isNode s'.cells k = true := by
    intro k hk hn
    rcases hA k hk with ⟨e, _⟩ | ⟨p, v, v', h1, h2, _⟩ | ⟨v, v', h1, h2, _⟩
    · simp only [isNode, hshapeOld k hk e]; exact hn
    · exact sv_isNode (by simp [svAt, h2, isSV])
    · exact sv_isNode (by simp [svAt, h2, isSV])
  have hsvOld : ∀ k, k < s.retention → svAt s'.cells k = svAt s.cells k := by
    intro k hk
    rcases hA k hk with ⟨e, _⟩ | ⟨p, v, v', h1, h2, _⟩ | ⟨v, v', h1, h2, _⟩
    · simp only [svAt, e]
    · simp [svAt, h1, h2, isSV]
    · simp [svAt, h1, h2, isSV]
  -- shapes behind the index list
  have hshape6 : ∀ k, k < s.cells.size → shape s6.cells k = shape s.cells k := by
    intro k hk
    have hcells6 : s6.cells = s.cells ++ s6.cells.extract s.cells.size s6.cells.size :=
      prefix_append (Nat.le_trans hc0A hinv.hiLe) (fun i hi => hs6cell i hi)
    rw [hcells6]; exact shape_append_eq _ _ hwf.headers hk
  have hno : s.cells.size < s5.cells.size → framePoint sR.cells s5.cells.size = none := by
    intro hpos
    obtain ⟨o2, n2, hc2, _, _⟩ := hinv.done (s5.cells.size - 1) (by omega) (by omega)
    have e : s5.cells.size = (s5.cells.size - 1) + 1 := by omega
    rw [e]
    simp [framePoint, hhigh (s5.cells.size - 1) (by omega), hc2]
  have hposOf : ∀ u, s5.cells.size + u < s6.cells.size → s.cells.size < s5.cells.size := by
    intro u hu
    rcases Nat.lt_or_ge s.cells.size s5.cells.size with h | h
    · exact h
    · have := hnoidx (by omega); omega
  have hshapeNew : ∀ u sh, s5.cells.size + u < s6.cells.size → shape s6.cells (s5.cells.size + u) = some sh →
      shape s'.cells (s.retention + u) = some sh := by
    intro u sh hu hsh
    have h1 : shape sR.cells (s5.cells.size + u) = some sh := by
      rw [hu6.shape_same (hhigh _ (by omega))]; exact hsh
    exact shape_shift tf.shift (hno (hposOf u hu)) h1
  have hcellNew : ∀ u, s'.cells[s.retention + u]? = s6.cells[s5.cells.size + u]? := by
    intro u; rw [tf.shift u, hhigh _ (by omega)]
  -- where links lead
  have hlinkNode : ∀ x x', Link s6 s.cells.size s5.cells.size x x' → isNode s.cells x = true →
      isNode s'.cells x' = true := by
    intro x x' hl hx
    obtain ⟨shx, hshx⟩ := node_shape hx
    rcases hl with ⟨rfl, hxr⟩ | ⟨j, hj1, hj2, hjc⟩
    · exact hnodeOld _ (by rw [hret6] at hxr; exact hxr) hx
    · obtain ⟨o', n', hcell', _, hg⟩ := hinv.done j (by omega) hj2
      rw [hjc] at hcell'
      simp only [Option.some.injEq, Cell.cloneIndexMap.injEq] at hcell'
      obtain ⟨ho, hn⟩ := hcell'
      subst ho; subst hn
      rcases hg with ⟨rfl, hxr⟩ | ⟨ni, hni1, hni2, hg⟩
      · exact hnodeOld _ (by rw [hret6] at hxr; exact hxr) hx
      · obtain ⟨sh', g1, _⟩ := hg shx hshx
        have hb := shape_bound g1
        have e1 : ni = s5.cells.size + (ni - s5.cells.size) := by omega
        have e2 : x' = s.retention + (ni - s5.cells.size) := by omega
        rw [e1] at g1 hb
        have := hshapeNew _ _ hb g1
        rw [← e2] at this
        simp [isNode, this]
  have hlinkSV : ∀ x x', Link s6 s.cells.size s5.cells.size x x' → svAt s.cells x = true →
      svAt s'.cells x' = true := by
    intro x x' hl hx
    obtain ⟨shx, hshx⟩ := node_shape (sv_isNode hx)
    rcases hl with ⟨rfl, hxr⟩ | ⟨j, hj1, hj2, hjc⟩
    · rw [hsvOld _ (by rw [hret6] at hxr; exact hxr)]; exact hx
    · obtain ⟨o', n', hcell', _, hg⟩ := hinv.done j (by omega) hj2
      rw [hjc] at hcell'
      simp only [Option.some.injEq, Cell.cloneIndexMap.injEq] at hcell'
      obtain ⟨ho, hn⟩ := hcell'
      subst ho; subst hn
      rcases hg with ⟨rfl, hxr⟩ | ⟨ni, hni1, hni2, hg⟩
      · rw [hsvOld _ (by rw [hret6] at hxr; exact hxr)]; exact hx
      · obtain ⟨sh', g1, g2, _⟩ := hg shx hshx
        have hb := shape_bound g1
        have hsv6 : svAt s6.cells ni = true := by rw [← label_sv g1, g2, label_sv hshx]; exact hx
        have e2 : x' = s.retention + (ni - s5.cells.size) := by omega
        have e1 : ni = s5.cells.size + (ni - s5.cells.size) := by omega
        rw [e2]
        simp only [svAt, hcellNew, ← e1]
        exact hsv6
  -- a link target of a fresh cell at `s5.size + u` is a node below `retention + u`
  have htarget : ∀ u k', Target (s5.cells.size - s.retention) s6 s5.cells.size k' (s5.cells.size + u) →
      k' < s.retention + u ∧ isNode s'.cells k' = true := by
    intro u k' ht
    rcases ht with ⟨h1, sh2, h2⟩ | ⟨h1, h2, sh2, h3⟩
    · rw [hret6] at h1
      rw [hshape6 k' (by omega)] at h2
      exact ⟨by omega, hnodeOld k' h1 (by simp [isNode, h2])⟩
    · have e1 : k' + (s5.cells.size - s.retention) = s5.cells.size + (k' + (s5.cells.size - s.retention) - s5.cells.size) := by omega
      have hb := shape_bound h3
      rw [e1] at h3 hb
      have := hshapeNew _ _ hb h3
      have e2 : s.retention + (k' + (s5.cells.size - s.retention) - s5.cells.size) = k' := by omega
      rw [e2] at this
      exact ⟨by omega, by simp [isNode, this]⟩
  have hsizeV : ∀ j, j < s'.cells.size → s.retention ≤ j → s5.cells.size + (j - s.retention) < s6.cells.size := by
    intro j hj hjr
    have hc := hcellNew (j - s.retention)
    have e : s.retention + (j - s.retention) = j := by omega
    rw [e] at hc
    rcases Nat.lt_or_ge (s5.cells.size + (j - s.retention)) s6.cells.size with h | h
    · exact h
    · rw [Array.getElem?_eq_none h, Array.getElem?_eq_getElem hj] at hc; cases hc
  -- the fields of `WFq s'`
  have hnodes : ∀ i, i < s'.cells.size → nodeOKq s'.cells i = true ∧ listOK s'.cells i = true ∧ headerOK s'.cells i = true := by
    intro i hi
    by_cases hir : i < s.retention
    · -- a retained cell
      have hlt : i < s.cells.size := by omega
      have hold := hwf.nodes i hlt
      rcases hA i hir with ⟨e, hv⟩ | ⟨p, v, v', h1, h2, h3⟩ | ⟨v, v', h1, h2, h3⟩
      · obtain ⟨c, hc⟩ : ∃ c, s.cells[i]? = some c := ⟨s.cells[i], by simp [hlt]⟩
        have hc' : s'.cells[i]? = some c := by rw [e]; exact hc
        refine ⟨?_, ?_, ?_⟩
        · by_cases hcsv : isSV c = true
          · cases c <;> simp [isSV] at hcsv
            · rename_i p v
              simp only [nodeOKq, hc, Bool.and_eq_true, decide_eq_true_eq] at hold
              simp only [nodeOKq, hc', Bool.and_eq_true, decide_eq_true_eq]
              have hvr := hv v (Or.inl ⟨p, hc⟩)
              exact ⟨⟨hold.1.1, by rw [hsvOld p (by omega)]; exact hold.1.2⟩, hnodeOld v hvr hold.2⟩
            · rename_i v
              simp only [nodeOKq, hc] at hold
              simp only [nodeOKq, hc']
              exact hnodeOld v (hv v (Or.inr hc)) hold
          · have hns : isSV c = false := by simpa using hcsv
            rw [nodeOKq_of_cell hc hns] at hold
            rw [nodeOKq_of_cell hc' hns]
            cases hsh : shape s.cells i with
            | none => simp [nodeOK, hshapeOld i hir e, hsh]
            | some sh =>
              simp only [nodeOK, hsh, List.all_eq_true, Bool.and_eq_true, decide_eq_true_eq] at hold
              simp only [nodeOK, hshapeOld i hir e, hsh, List.all_eq_true, Bool.and_eq_true, decide_eq_true_eq]
              intro k hk
              obtain ⟨g1, g2⟩ := hold k hk
              exact ⟨g1, hnodeOld k (by omega) g2⟩
        · have := hwf.lists i hlt
          simpa [listOK, hc, hc'] using this
        · have := hwf.headers i hlt
          simp only [headerOK, hc] at this
          simp only [headerOK, hc']
          cases c <;> first | rfl | exact hnodeOld i hir this
      · simp only [nodeOKq, h1, Bool.and_eq_true, decide_eq_true_eq] at hold
        refine ⟨?_, by simp [listOK, h2], by simp [headerOK, h2]⟩
        simp only [nodeOKq, h2, Bool.and_eq_true, decide_eq_true_eq]
        exact ⟨⟨hold.1.1, by rw [hsvOld p (by omega)]; exact hold.1.2⟩, hlinkNode v v' h3 hold.2⟩
      · simp only [nodeOKq, h1] at hold
        refine ⟨?_, by simp [listOK, h2], by simp [headerOK, h2]⟩
        simp only [nodeOKq, h2]
        exact hlinkNode v v' h3 hold
    · -- a copy
      obtain ⟨u, rfl⟩ : ∃ u, i = s.retention + u := ⟨i - s.retention, by omega⟩
      have hJ : s5.cells.size + u < s6.cells.size := by
        have := hsizeV _ hi (by omega)
        have e : s.retention + u - s.retention = u := by omega
        rw [e] at this; exact this
      obtain ⟨c, hc, hl, hk⟩ := hfresh (s5.cells.size + u) (by omega) hJ
      have hcV : s'.cells[s.retention + u]? = some c := by rw [hcellNew]; exact hc
      have hlist : listOK s'.cells (s.retention + u) = true := by
        unfold listOK; rw [hcV]
        cases c <;> first | rfl | (simp only [decide_eq_true_eq]; exact hl _ _ rfl)
      rcases hk with hn | ⟨sh, hsh, hkids⟩
      · exact ⟨nodeOKq_of_none (neverNode_shape hcV hn), hlist, headerOK_of hcV (Or.inl hn)⟩
      · have hshV := hshapeNew u sh hJ hsh
        refine ⟨?_, hlist, headerOK_of hcV (Or.inr (by simp [isNode, hshV]))⟩
        by_cases hcsv : isSV c = true
        · cases c <;> simp [isSV] at hcsv
          · rename_i p' v'
            have e := solo_of_shape hc (sh' := ⟨.value 0 0, [], [p', v']⟩) rfl hsh
            subst e
            obtain ⟨g1, _⟩ := htarget u p' (hkids p' (by simp))
            obtain ⟨_, g2⟩ := htarget u v' (hkids v' (by simp))
            simp only [nodeOKq, hcV, Bool.and_eq_true, decide_eq_true_eq]
            refine ⟨⟨g1, ?_⟩, g2⟩
            rcases hprov.chain hwf.chain hinv.agree0 (by omega) hc with ⟨q1, q2⟩ | ⟨q1, q2, q3⟩
            · rw [hret6] at q1
              rw [hsvOld p' q1]
              simpa [svAt, hs6cell p' (by omega)] using q2
            · have e1 : p' + (s5.cells.size - s.retention) = s5.cells.size + (p' + (s5.cells.size - s.retention) - s5.cells.size) := by omega
              have e2 : p' = s.retention + (p' + (s5.cells.size - s.retention) - s5.cells.size) := by omega
              rw [e2]
              simp only [svAt, hcellNew, ← e1]
              exact q3
          · rename_i v'
            have e := solo_of_shape hc (sh' := ⟨.valueRoot 0, [], [v']⟩) rfl hsh
            subst e
            obtain ⟨_, g2⟩ := htarget u v' (hkids v' (by simp))
            simp only [nodeOKq, hcV]
            exact g2
        · rw [nodeOKq_of_cell hcV (by simpa using hcsv)]
          simp only [nodeOK, hshV, List.all_eq_true, Bool.and_eq_true, decide_eq_true_eq]
          intro k' hk'
          exact htarget u k' (hkids k' hk')
  have headNode : ∀ {o o' : Option Nat}, headOK s.cells o = true → HeadRel (Link sR s.cells.size s5.cells.size) o o' →
      headOK s'.cells o' = true := by
    intro o o' ho hrel
    rcases hrel with ⟨_, rfl⟩ | ⟨i, m', rfl, rfl, hl⟩
    · rfl
    · exact hlinkNode i m' (hlinkR _ _ hl) ho
  refine ⟨⟨by rw [tf.retention]; exact hszV, fun i hi => (hnodes i hi).1, fun i hi => (hnodes i hi).2.1,
    fun i hi => (hnodes i hi).2.2, ?_, headNode hwf.reg tf.register, ?_, headNode hwf.frm tf.frame, ?_⟩, ?_⟩
  · -- the retention count does not cut a value
    intro i hi
    rw [tf.retention] at hi ⊢
    simp only [extentOK, decide_eq_true_eq]
    have hex : s'.cells.extract 0 s.retention = P := by
      have := extract_append_self P (s'.cells.extract P.size s'.cells.size)
      rw [← hcellsV, hPsz] at this
      exact this
    rw [hex, hshapeVP i hi]
  · rcases tf.value with ⟨_, e⟩ | ⟨i, m', e1, e2, hl⟩
    · rw [e]; rfl
    · rw [e2]
      have := hwf.val
      rw [e1] at this
      exact hlinkSV i m' (hlinkR _ _ hl) this
  · intro c hc
    obtain ⟨j, hj⟩ := List.getElem?_of_mem hc
    rw [Array.getElem?_toList] at hj
    have hjlt : j < s.symtab.size := by
      rw [← tf.symLen]
      rcases Nat.lt_or_ge j s'.symtab.size with h | h
      · exact h
      · rw [Array.getElem?_eq_none h] at hj; cases hj
    have hmem : s.symtab[j] ∈ s.symtab.toList := by simp
    have hok := hwf.syms _ hmem
    cases hcj : s.symtab[j] with
    | associativeItem sym di =>
      rw [hcj] at hok
      obtain ⟨di', h1, h2⟩ := tf.syms j sym di (by rw [Array.getElem?_eq_getElem hjlt, hcj])
      rw [hj] at h1
      simp only [Option.some.injEq] at h1
      subst h1
      simp only [symOK]
      exact hlinkNode di di' (hlinkR _ _ h2) (by simpa [symOK] using hok)
    | _ => rw [hcj] at hok; simp [symOK] at hok
  · simp only [rootsOK, List.all_eq_true]
    intro r' hr'
    obtain ⟨k, hk⟩ := List.getElem?_of_mem hr'
    have hklt : k < roots.length := by
      rw [← tf.rootsLen]
      rcases Nat.lt_or_ge k m.length with h | h
      · exact h
      · rw [List.getElem?_eq_none h] at hk; cases hk
    obtain ⟨r'', g1, g2⟩ := tf.roots k roots[k] (by simp [hklt])
    rw [hk] at g1
    simp only [Option.some.injEq] at g1
    subst g1
    simp only [rootsOK, List.all_eq_true] at hroots
    exact hlinkNode _ _ (hlinkR _ _ g2) (hroots _ (List.getElem_mem hklt))

end Garnish.BasicOpt
