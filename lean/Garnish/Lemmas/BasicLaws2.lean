/-
`StoreLaws` for `BasicGarnishData`, continued: the scalar adders, pair / range / slice / partial / concatenation, the
getters, the instruction cursor, the host extension points, the register stack and the input-value stack.
-/
import Garnish.Lemmas.BasicLaws
set_option linter.unusedSimpArgs false
set_option maxHeartbeats 1000000
namespace Garnish.Lemmas.Runtime.Basic
open Garnish Gen Garnish.Model.Equality Garnish.Model.Runtime Garnish.Model.Runtime.Basic Garnish.BasicOpt
open Garnish.Lemmas.Runtime Garnish.Lemmas.EqualityRefine

variable {F : Type}

/-! ### flattening -/

theorem flatB_fuel (cells : Array Cell) : ∀ (f a : Nat), a < f → flatB cells f a = flatB cells (a + 1) a := by
  intro f
  induction f using Nat.strongRecOn with
  | _ f ih =>
    intro a ha
    cases f with
    | zero => omega
    | succ f =>
      simp only [flatB]
      cases cells[a]? with
      | none => rfl
      | some c =>
        cases c <;> try rfl
        rename_i l r
        simp only
        by_cases hlr : l < a ∧ r < a
        · simp only [hlr, and_self, if_true]
          rw [ih f (by omega) l (by omega), ih f (by omega) r (by omega), ih a (by omega) l hlr.1, ih a (by omega) r hlr.2]
        · simp [hlr]

/-- a decodable address flattens: what `FlatOf` relates is what `flatB` computes -/
theorem flat_of_decodes {numOf : Nat → Number F} {cells : Array Cell} {a : Nat} {v : Val F}
    (h : Decodes (basicView numOf cells) a v) :
    ∃ il, FlatOf (basicView numOf cells) a il ∧ flatB cells (a + 1) a = some il := by
  have ht := decodes_typeOf h
  have htc := ht
  rw [bv_typeOf] at htc
  cases hc : cells[a]? with
  | none => simp [hc] at htc
  | some c =>
    rw [hc] at htc
    simp only [Option.bind_some] at htc
    cases h with
    | @list _ items vs h1 h2 _ =>
      refine ⟨items, .list h1 h2, ?_⟩
      rw [bv_listItems, hc] at h2
      cases c <;> simp only [] at h2 <;> try (cases h2; done)
      simp only [flatB, hc]; exact h2
    | @concat _ l r vl vr il ir h1 h2 _ _ f1 f2 h3 =>
      refine ⟨il ++ ir, .concat h1 h2 f1 f2, ?_⟩
      rw [bv_concatItems, hc] at h3
      cases c <;> simp only [] at h3 <;> try (cases h3; done)
      rename_i l' r'
      simp only [flatB, hc]
      split at h3
      · rename_i hlr
        rw [if_pos hlr]
        exact h3
      · cases h3
    | _ =>
      all_goals (
        refine ⟨[a], .other ht (by simp [Val.typeOf]) (by simp [Val.typeOf]), ?_⟩
        simp only [Val.typeOf] at htc
        cases c <;> simp only [cellTy, Option.some.injEq] at htc <;> first
          | (cases htc; done)
          | (simp [flatB, hc, cellTy]))

/-! ### the value adders -/

section adders
variable (nc : NumCode F) {st : BState} (hinv : BInv st)
include hinv

theorem addUnit_law : AddsB nc (basicRStore nc).addUnit st .unit :=
  adds_leaf nc hinv (c := .unit) rfl rfl (fun cells h => .unit (by simp [bv_typeOf, h, cellTy]))

theorem addTrue_law : AddsB nc (basicRStore nc).addTrue st .tru :=
  adds_leaf nc hinv (c := .tru) rfl rfl (fun cells h => .tru (by simp [bv_typeOf, h, cellTy]))

theorem addFalse_law : AddsB nc (basicRStore nc).addFalse st .fls :=
  adds_leaf nc hinv (c := .fls) rfl rfl (fun cells h => .fls (by simp [bv_typeOf, h, cellTy]))

theorem addNumber_law (n : Number F) : AddsB nc ((basicRStore nc).addNumber n) st (.num n) :=
  adds_leaf nc hinv (c := .number (nc.enc n)) rfl rfl
    (fun cells h => .num (by simp [bv_typeOf, h, cellTy]) (by simp [bv_number, h, nc.dec_enc]))

theorem addType_law (t : Ty) : AddsB nc ((basicRStore nc).addType t) st (.type t) :=
  adds_leaf nc hinv (c := .type t) rfl rfl
    (fun cells h => .type (by simp [bv_typeOf, h, cellTy]) (by simp [bv_type_, h]))

theorem addChar_law (c : Nat) : AddsB nc ((basicRStore nc).addChar c) st (.char c) :=
  adds_leaf nc hinv (c := .char c) rfl rfl
    (fun cells h => .char (by simp [bv_typeOf, h, cellTy]) (by simp [bv_char, h]))

theorem addByte_law (b : Nat) : AddsB nc ((basicRStore nc).addByte b) st (.byte b) :=
  adds_leaf nc hinv (c := .byte b) rfl rfl
    (fun cells h => .byte (by simp [bv_typeOf, h, cellTy]) (by simp [bv_byte, h]))

theorem addSymbol_law (y : Nat) : AddsB nc ((basicRStore nc).addSymbol y) st (.sym y) :=
  adds_leaf nc hinv (c := .symbol y) rfl rfl
    (fun cells h => .sym (by simp [bv_typeOf, h, cellTy]) (by simp [bv_symbol, h]))

variable {l r : Nat} {vl vr : Val F}
  (hl : Decodes ((basicRStore nc).view st) l vl) (hr : Decodes ((basicRStore nc).view st) r vr)
include hl hr

theorem addPair_law : AddsB nc ((basicRStore nc).addPair (l, r)) st (.pair vl vr) :=
  adds_two nc hinv (c := .pair l r) rfl rfl hl hr
    (fun cells h d1 d2 => .pair (by simp [bv_typeOf, h, cellTy]) (by simp [bv_pair, h]) d1 d2)

theorem addRange_law : AddsB nc ((basicRStore nc).addRange l r) st (.range vl vr) :=
  adds_two nc hinv (c := .range l r) rfl rfl hl hr
    (fun cells h d1 d2 => .range (by simp [bv_typeOf, h, cellTy]) (by simp [bv_range, h]) d1 d2)

theorem addSlice_law : AddsB nc ((basicRStore nc).addSlice l r) st (.slice vl vr) :=
  adds_two nc hinv (c := .slice l r) rfl rfl hl hr
    (fun cells h d1 d2 => .slice (by simp [bv_typeOf, h, cellTy]) (by simp [bv_slice, h]) d1 d2)

theorem addPartial_law : AddsB nc ((basicRStore nc).addPartial l r) st (.part vl vr) :=
  adds_two nc hinv (c := .partial_ l r) rfl rfl hl hr
    (fun cells h d1 d2 => .part (by simp [bv_typeOf, h, cellTy]) (by simp [bv_partial_, h]) d1 d2)

theorem addConcatenation_law : AddsB nc ((basicRStore nc).addConcatenation l r) st (.concat vl vr) := by
  have hln := (decodes_node hinv.wfq hl).1
  have hrn := (decodes_node hinv.wfq hr).1
  refine adds_two nc hinv (c := .concatenation l r) rfl rfl hl hr (fun cells h d1 d2 => ?_)
  obtain ⟨il, f1, g1⟩ := flat_of_decodes d1
  obtain ⟨ir, f2, g2⟩ := flat_of_decodes d2
  refine .concat (by simp [bv_typeOf, h, cellTy]) (by simp [bv_concatenation, h]) d1 d2 f1 f2 ?_
  rw [bv_concatItems, h]
  simp only
  rw [if_pos ⟨hln, hrn⟩, flatB_fuel cells _ l hln, flatB_fuel cells _ r hrn, g1, g2]

end adders

/-! ### getters, cursor, host -/

theorem rangeTyped_law (nc : NumCode F) (st : BState) (a : Nat) (p : Nat × Nat)
    (h : ((basicRStore nc).view st).range a = some p) : ((basicRStore nc).view st).typeOf a = some .range := by
  show (basicView nc.dec st.store.cells).typeOf a = some .range
  change (basicView nc.dec st.store.cells).range a = some p at h
  rw [bv_range] at h
  rw [bv_typeOf]
  cases hc : st.store.cells[a]? with
  | none => simp [hc] at h
  | some c => rw [hc] at h; cases c <;> simp at h <;> rfl

theorem seq_indexes {β : Type} (seq : Nat → Option (List β)) :
    Indexes (F := F) (fun a => seqLen (seq a)) (fun a i => seqItemB (seq a) i) seq := by
  intro a xs h
  refine ⟨by simp [seqLen, h], ?_⟩
  intro i hi
  simp [seqItemB, h]

theorem list_indexes (seq : Nat → Option (List Nat)) :
    Indexes (F := F) (fun a => seqLen (seq a)) (fun a i => listItemB (seq a) i) seq := by
  intro a xs h
  refine ⟨by simp [seqLen, h], ?_⟩
  intro i hi
  have h1 : ¬ ((i : Int) < 0) := by omega
  have h2 : ¬ ((i : Int).toNat ≥ xs.length) := by simp; omega
  simp [listItemB, h, h1]
  omega

theorem setCursor_law (nc : NumCode F) (n : Nat) (st : BState) :
    ∃ st', (basicRStore nc).setInstructionCursor n st = .ok ((), st') ∧ (basicRStore nc).cursor st' = n ∧
      (∀ a v, Decodes ((basicRStore nc).view st) a v → Decodes ((basicRStore nc).view st') a v) ∧
      (basicRStore nc).jumpTable st' = (basicRStore nc).jumpTable st ∧
      (basicRStore nc).instrLen st' = (basicRStore nc).instrLen st ∧
      (basicRStore nc).instruction st' = (basicRStore nc).instruction st ∧
      (basicRStore nc).dataLen st' = (basicRStore nc).dataLen st ∧
      (basicRStore nc).regs st' = (basicRStore nc).regs st ∧ (basicRStore nc).vals st' = (basicRStore nc).vals st ∧
      (basicRStore nc).trace st' = (basicRStore nc).trace st ∧ (basicRStore nc).frames st' = (basicRStore nc).frames st ∧
      (BInv st → BInv st') :=
  ⟨{ st with cursor := n }, rfl, rfl, fun _ _ h => h, rfl, rfl, rfl, rfl, rfl, rfl, rfl, rfl,
    fun h => ⟨h.wfq, h.fits, h.regHead, h.regPrev, h.frameSaved,
      ⟨h.ftyped.head, h.ftyped.prev, h.ftyped.reg⟩⟩⟩

theorem records_law (nc : NumCode F) (c : HostCall) : Records (basicRStore nc) (recordHost c) c := by
  intro s b s' h
  simp only [recordHost, Outcome.ok.injEq, Prod.mk.injEq] at h
  rw [← h.2]; rfl

end Garnish.Lemmas.Runtime.Basic
