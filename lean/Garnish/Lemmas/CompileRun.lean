/-
Compile correctness, part (ii): `run_located`. If the main line of `e` is `Located` at `pc` in the program
`P`, the flat machine started at `pc` — with any operands below, any input-value stack below the current
value, any frames and any trace so far — does what the reference evaluator says: it reaches the end of the
main line with the value pushed, or (restart) the entry of the containing body with `$` replaced.
Induction on the evaluator's fuel, so loops (`^~`) and recursion through apply are covered.
This file: the statements, the glue lemmas, and the constructs without control transfer.
-/
import Garnish.Lemmas.CompileLast
namespace Garnish.Abs
open Garnish Gen Garnish.Spec

variable {F : Type}

/-- every body of the program's table is laid out at the jump entry that is its id, followed by `EndExpression` -/
structure Env (P : Prog F) (bodies : List (Nat × Expr F)) : Prop where
  body : ∀ id b, lookupBody bodies id = some b → ∃ t, P.jumps[id]? = some t ∧ Located P id id t b ∧
    wfC b = true ∧ P.instrs[t + len b]? = some (.endExpression, none)

section
variable (fo : FloatOps F) (host : Host F) (P : Prog F) (bodies : List (Nat × Expr F))

/-- what the machine does for an evaluation result: `pcEnd` = end of the main line, `entry` = address of the
containing body (where a restart goes), `tail` = the expression is in tail position (a restart leaves no
operands behind) -/
def ResOK (entry pc pcEnd : Nat) (tail : Bool) (rs vs : List (Val F)) (fr : List (Frame F)) (st : St F)
    (res : Res F) (st' : St F) : Prop :=
  match res with
  | .val v => Reach fo host P ⟨pc, rs, st.inp :: vs, fr, st.trace⟩ ⟨pcEnd, v :: rs, st'.inp :: vs, fr, st'.trace⟩
  | .restart v => ∃ extra, Reach fo host P ⟨pc, rs, st.inp :: vs, fr, st.trace⟩ ⟨entry, extra ++ rs, v :: vs, fr, st'.trace⟩ ∧
      (tail = true → extra = [])

def SimAt (fuel : Nat) (e : Expr F) : Prop :=
  ∀ cur st res st', evalFS fo host bodies cur fuel e st = .ok (res, st') →
  ∀ root pc rs vs fr entry, Located P root cur pc e → wfC e = true →
  P.jumps[cur]? = some entry → entry < P.instrs.size → pc + len e < P.instrs.size →
  ResOK fo host P entry pc (pc + len e) (tailR e) rs vs fr st res st'

def SimE (fuel : Nat) : Prop := ∀ e, SimAt fo host P bodies fuel e

def SimL (fuel : Nat) : Prop :=
  ∀ cur items st acc r st', evalListS fo host bodies cur fuel items st acc = .ok (r, st') →
  ∀ root pc rs0 vs fr entry, LocatedList P root cur pc items → wfCList items = true →
  P.jumps[cur]? = some entry → entry < P.instrs.size → pc + lenList items < P.instrs.size →
  match r with
  | .inl vals => ∃ nv, vals = acc.reverse ++ nv ∧ nv.length = items.length ∧
      Reach fo host P ⟨pc, rs0, st.inp :: vs, fr, st.trace⟩
        ⟨pc + lenList items, nv.reverse ++ rs0, st'.inp :: vs, fr, st'.trace⟩
  | .inr v => ∃ extra, Reach fo host P ⟨pc, rs0, st.inp :: vs, fr, st.trace⟩ ⟨entry, extra ++ rs0, v :: vs, fr, st'.trace⟩

def SimC (fuel : Nat) : Prop :=
  ∀ cur arms fe st res st', evalChainS fo host bodies cur fuel arms (some fe) st = .ok (res, st') →
  ∀ root pc rs vs fr entry join, LocatedArms P root cur join pc arms → Located P root cur (pc + lenArms arms) fe →
  wfCArms arms = true → wfC fe = true →
  (arms ≠ [] → P.jumps[join]? = some (pc + lenArms arms + len fe) ∧ join ≠ cur) →
  P.jumps[cur]? = some entry → entry < P.instrs.size → pc + lenArms arms + len fe < P.instrs.size →
  ResOK fo host P entry pc (pc + lenArms arms + len fe) (tailRArms arms && tailR fe) rs vs fr st res st'

/-- else-chain WITHOUT a final arm, under the strict evaluator: some arm matches (the empty chain is an error) -/
def SimCN (fuel : Nat) : Prop :=
  ∀ cur arms st res st', evalChainS fo host bodies cur fuel arms none st = .ok (res, st') →
  ∀ root pc rs vs fr entry join, LocatedArms P root cur join pc arms →
  wfCArms arms = true →
  (arms ≠ [] → P.jumps[join]? = some (pc + lenArms arms) ∧ join ≠ cur) →
  P.jumps[cur]? = some entry → entry < P.instrs.size → pc + lenArms arms < P.instrs.size →
  ResOK fo host P entry pc (pc + lenArms arms) (tailRArms arms) rs vs fr st res st'

def SimA (fuel : Nat) : Prop :=
  ∀ cur instr useRight f x st res st', applyValsS fo host bodies cur fuel instr useRight f x st = .ok (res, st') →
  ∀ pcA rs vs fr, pcA + 1 < P.instrs.size →
  ∃ v s1, res = .val v ∧
    finish P (applyStep fo host P ⟨pcA, rs, st.inp :: vs, fr, st.trace⟩ instr useRight f x) = .running s1 ∧
    Reach fo host P s1 ⟨pcA + 1, v :: rs, st'.inp :: vs, fr, st'.trace⟩

def SimB (fuel : Nat) : Prop :=
  ∀ cur body st v st', evalBodyS fo host bodies cur fuel body st = .ok (v, st') →
  ∀ t rs vs fr, Located P cur cur t body → wfC body = true → P.jumps[cur]? = some t →
  t + len body < P.instrs.size →
  ∃ rs', Reach fo host P ⟨t, rs, st.inp :: vs, fr, st.trace⟩ ⟨t + len body, v :: rs', st'.inp :: vs, fr, st'.trace⟩ ∧
    (tailR body = true → rs' = rs)
end

variable {fo : FloatOps F} {host : Host F} {P : Prog F} {bodies : List (Nat × Expr F)}

/-- a restart of a sub-expression is a restart of the whole: the operands pending at that point stay behind -/
theorem ResOK.sub_restart {entry pc pcEnd pc' pcEnd' : Nat} {tail tail' : Bool} {rs pend vs : List (Val F)}
    {fr : List (Frame F)} {st0 st st' : St F} {v : Val F}
    (pre : Reach fo host P ⟨pc, rs, st0.inp :: vs, fr, st0.trace⟩ ⟨pc', pend ++ rs, st.inp :: vs, fr, st.trace⟩)
    (sub : ResOK fo host P entry pc' pcEnd' tail' (pend ++ rs) vs fr st (.restart v) st')
    (ht : tail = true → tail' = true ∧ pend = []) :
    ResOK fo host P entry pc pcEnd tail rs vs fr st0 (.restart v) st' := by
  obtain ⟨extra, hr, he⟩ := sub
  refine ⟨extra ++ pend, ?_, ?_⟩
  · rw [List.append_assoc]; exact pre.trans hr
  · intro h
    obtain ⟨h1, h2⟩ := ht h
    simp [he h1, h2]

/-- outcome of a sub-evaluation, as the evaluator's `match … | other => other` sees it -/
theorem eval_cases {cur fuel : Nat} {x : Expr F} {st : St F} :
    (∃ v st1, evalFS fo host bodies cur fuel x st = .ok (.val v, st1)) ∨
    (∃ v st1, evalFS fo host bodies cur fuel x st = .ok (.restart v, st1)) ∨
    (∃ e, evalFS fo host bodies cur fuel x st = .err e) ∨ evalFS fo host bodies cur fuel x st = .fuelOut := by
  cases h : evalFS fo host bodies cur fuel x st with
  | ok p =>
    obtain ⟨r, st1⟩ := p
    cases r with
    | val v => exact .inl ⟨v, st1, rfl⟩
    | restart v => exact .inr (.inl ⟨v, st1, rfl⟩)
  | err e => exact .inr (.inr (.inl ⟨e, rfl⟩))
  | fuelOut => exact .inr (.inr (.inr rfl))

theorem settle_cases (st : St F) (o : OpOut F) :
    (∃ v st1, settle host st o = .ok (v, st1)) ∨ (∃ e, settle host st o = .err e) := by
  cases o with
  | val v => exact .inl ⟨v, st, rfl⟩
  | defer op l r =>
    simp only [settle]
    cases host.defer op l r <;> simp
  | err e => exact .inr ⟨e, rfl⟩

theorem evalF_inp_trace_val {cur fuel : Nat} {x : Expr F} {st st1 : St F} {v : Val F}
    (_ : evalFS fo host bodies cur fuel x st = .ok (.val v, st1)) : True := trivial

/-! ### constructs without control transfer -/

theorem sim_lit {fuel : Nat} (v : Val F) : SimAt fo host P bodies (fuel + 1) (.lit v) := by
  intro cur st res st' h root pc rs vs fr entry hloc _ _ _ hlt
  simp only [evalFS, Out.ok.injEq, Prod.mk.injEq] at h
  obtain ⟨rfl, rfl⟩ := h
  simp only [Located] at hloc
  obtain ⟨k, hi, hc⟩ := hloc
  simp only [len] at hlt ⊢
  exact .single (step_put hi hc hlt)

theorem sim_input {fuel : Nat} : SimAt fo host P bodies (fuel + 1) (.input) := by
  intro cur st res st' h root pc rs vs fr entry hloc _ _ _ hlt
  simp only [evalFS, Out.ok.injEq, Prod.mk.injEq] at h
  obtain ⟨rfl, rfl⟩ := h
  simp only [Located] at hloc
  simp only [len] at hlt ⊢
  exact .single (step_putValue hloc hlt)

theorem sim_nested {fuel : Nat} (id : Nat) : SimAt fo host P bodies (fuel + 1) (.nested id) := by
  intro cur st res st' h root pc rs vs fr entry hloc _ _ _ hlt
  simp only [evalFS, Out.ok.injEq, Prod.mk.injEq] at h
  obtain ⟨rfl, rfl⟩ := h
  simp only [Located] at hloc
  obtain ⟨k, hi, hc⟩ := hloc
  simp only [len] at hlt ⊢
  exact .single (step_put hi hc hlt)

theorem sim_emptyNested {fuel : Nat} : SimAt fo host P bodies (fuel + 1) (.emptyNested) := by
  intro cur st res st' h root pc rs vs fr entry hloc _ _ _ hlt
  simp only [evalFS, Out.ok.injEq, Prod.mk.injEq] at h
  obtain ⟨rfl, rfl⟩ := h
  simp only [Located] at hloc
  obtain ⟨k, hi, hc⟩ := hloc
  simp only [len] at hlt ⊢
  exact .single (step_put hi hc hlt)

theorem sim_ident {fuel : Nat} (sym : Nat) : SimAt fo host P bodies (fuel + 1) (.ident sym) := by
  intro cur st res st' h root pc rs vs fr entry hloc _ _ _ hlt
  simp only [evalFS] at h
  simp only [Located] at hloc
  obtain ⟨k, hi, hc⟩ := hloc
  simp only [len] at hlt ⊢
  rcases resolveVal_cases (fo := fo) (host := host) st sym with ⟨w, st1, hr⟩ | ⟨e, hr⟩ <;> simp [hr] at h
  obtain ⟨rfl, rfl⟩ := h
  have := resolveVal_inp hr
  simp only [ResOK, this]
  exact .single (step_resolve hi hc hlt rfl rfl hr)

end Garnish.Abs
