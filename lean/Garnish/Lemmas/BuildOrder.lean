/-
C04, builder half — sibling order, part 1: definitions, the order invariant, and what it implies for a node that is
being visited.

On a validated tree the operands that an inline node (an inline binary operator, a List / CommaList) schedules in its
first visit lie on `stack` above the node, the operand that is emitted first above the other one; a node is visited only
while it is on top of `stack`; an instruction is attributed only to the node being visited.  `OInv` records this with
the ghost phases of Lemmas/BuildTotal*, `Prec x z` says "everything attributed to `x` must come before everything
attributed to `z`", and `prec_key` is the step that keeps the metadata ordered.
-/
import Garnish.Lemmas.BuildTotalLoops
namespace Garnish.Lemmas.BuildOrder
open Garnish Garnish.Gen Garnish.Model.Parser Garnish.Model.Literals Garnish.Model.Build Garnish.Lemmas.Build
open Garnish.Lemmas.BuildTotal

/-! ### positions on the work list -/

/-- `u` lies above `v` (was pushed later) -/
def Above (S : List Nat) (u v : Nat) : Prop := ∃ s1 s2, S = s1 ++ v :: s2 ∧ u ∈ s2

theorem above_append_left {S T : List Nat} {u v : Nat} (h : Above S u v) : Above (S ++ T) u v := by
  obtain ⟨s1, s2, hs, hu⟩ := h
  exact ⟨s1, s2 ++ T, by rw [hs]; simp, List.mem_append_left _ hu⟩

theorem above_append_mem {S T : List Nat} {u v : Nat} (hv : v ∈ S) (hu : u ∈ T) : Above (S ++ T) u v := by
  obtain ⟨s1, s2, hs⟩ := List.append_of_mem hv
  exact ⟨s1, s2 ++ T, by rw [hs]; simp, List.mem_append_right _ hu⟩

theorem above_append_right {S T : List Nat} {u v : Nat} (h : Above T u v) : Above (S ++ T) u v := by
  obtain ⟨s1, s2, hs, hu⟩ := h
  exact ⟨S ++ s1, s2, by rw [hs]; simp, hu⟩

theorem above_mem {S : List Nat} {u v : Nat} (h : Above S u v) : u ∈ S ∧ v ∈ S := by
  obtain ⟨s1, s2, hs, hu⟩ := h
  subst hs
  exact ⟨by simp [hu], by simp⟩

theorem above_irrefl {S : List Nat} (hn : S.Nodup) {u : Nat} : ¬ Above S u u := by
  intro ⟨s1, s2, hs, hu⟩
  subst hs
  have := (List.nodup_append.1 hn).2.1
  exact (List.nodup_cons.1 this).1 hu

/-- nothing lies above the top entry -/
theorem above_top_false {S0 : List Nat} {x u : Nat} (hn : (S0 ++ [x]).Nodup) : ¬ Above (S0 ++ [x]) u x := by
  intro ⟨s1, s2, hs, hu⟩
  have hr := congrArg List.reverse hs
  simp only [List.reverse_append, List.reverse_cons, List.reverse_nil, List.nil_append, List.singleton_append,
    List.append_assoc] at hr
  -- x :: S0.reverse = s2.reverse ++ (x :: s1.reverse)
  cases hs2 : s2.reverse with
  | nil =>
    have : s2 = [] := by simpa using hs2
    subst this; cases hu
  | cons y t =>
    rw [hs2] at hr
    simp only [List.cons_append] at hr
    have hxy : x = y := (List.cons.inj hr).1
    have hy : y ∈ s2 := by
      have : y ∈ s2.reverse := by rw [hs2]; simp
      simpa using this
    rw [hs] at hn
    have := (List.nodup_append.1 hn).2.1
    exact (List.nodup_cons.1 this).1 (hxy ▸ hy)

/-- relative positions below the top entry survive its pop -/
theorem above_init {S0 : List Nat} {x u v : Nat} (h : Above (S0 ++ [x]) u v) (hux : u ≠ x) : Above S0 u v := by
  obtain ⟨s1, s2, hs, hu⟩ := h
  -- s2 ends in x
  have hne : s2 ≠ [] := by intro h; subst h; cases hu
  have hlast := List.dropLast_concat_getLast hne
  have hx : s2.getLast hne = x := by
    have h1 : (S0 ++ [x]).getLast? = some x := by simp
    rw [hs] at h1
    have h2 : (s1 ++ v :: s2).getLast? = s2.getLast? := by
      rw [List.getLast?_append]
      simp [List.getLast?_cons, hne]
      cases hh : s2.getLast? with
      | none => exact absurd (List.getLast?_eq_none_iff.1 hh) hne
      | some w => simp
    rw [h2, List.getLast?_eq_some_getLast hne] at h1
    simpa using h1
  rw [hx] at hlast
  refine ⟨s1, s2.dropLast, ?_, ?_⟩
  · have : S0 ++ [x] = (s1 ++ v :: s2.dropLast) ++ [x] := by rw [hs, ← hlast]; simp
    exact List.append_cancel_right this
  · rw [← hlast] at hu
    rcases List.mem_append.1 hu with h | h
    · exact h
    · simp only [List.mem_singleton] at h; exact absurd h hux

/-! ### inline nodes and the order of their operands -/

/-- definitions whose handler schedules both operands on `stack` in one visit and emits its own instruction last, and
whether the right operand is emitted first (`Pair`, `ApplyTo`) -/
def inlineBinary (d : Definition) : Option Bool :=
  match d with
  | .pair => some true
  | .applyTo => some true
  | .addition | .subtraction | .multiplicationSign | .division | .access | .range | .startExclusiveRange | .endExclusiveRange
  | .exclusiveRange | .exponentialSign | .remainder | .integerDivision | .bitwiseAnd | .bitwiseOr | .bitwiseXor
  | .bitwiseRightShift | .bitwiseLeftShift | .xor | .typeEqual | .typeCast | .equality | .inequality | .lessThan
  | .lessThanOrEqual | .greaterThan | .greaterThanOrEqual | .apply | .partialApply | .concatenation | .infixApply => some false
  | _ => none

/-- inline nodes: inline binary operators and lists -/
def isB (d : Definition) : Bool := (inlineBinary d).isSome || d == .list || d == .commaList

/-- `c` is an operand of the inline node `y` -/
def BChild (tree : Array ParseNode) (y c : Nat) : Prop :=
  ∃ pn, tree[y]? = some pn ∧ isB pn.definition = true ∧ (pn.left = some c ∨ pn.right = some c)

/-- `a` and `b` are the operands of the inline node `y`, `a` the one that is emitted first -/
def Ordered (tree : Array ParseNode) (y a b : Nat) : Prop :=
  ∃ pn, tree[y]? = some pn ∧ isB pn.definition = true ∧
    ((inlineBinary pn.definition = some true ∧ pn.right = some a ∧ pn.left = some b) ∨
     (inlineBinary pn.definition ≠ some true ∧ pn.left = some a ∧ pn.right = some b))

/-- descendants through inline nodes -/
inductive Desc (tree : Array ParseNode) : Nat → Nat → Prop
  | refl (a : Nat) : Desc tree a a
  | step {a w x : Nat} : Desc tree a w → BChild tree w x → Desc tree a x

theorem BChild.isChild {tree : Array ParseNode} {y c : Nat} (h : BChild tree y c) : IsChild tree y c := by
  obtain ⟨pn, h1, _, h3⟩ := h; exact ⟨pn, h1, h3⟩

theorem Ordered.left {tree : Array ParseNode} {y a b : Nat} (h : Ordered tree y a b) : BChild tree y a := by
  obtain ⟨pn, h1, h2, h3⟩ := h
  rcases h3 with ⟨_, h4, _⟩ | ⟨_, h4, _⟩
  · exact ⟨pn, h1, h2, Or.inr h4⟩
  · exact ⟨pn, h1, h2, Or.inl h4⟩

theorem Ordered.right {tree : Array ParseNode} {y a b : Nat} (h : Ordered tree y a b) : BChild tree y b := by
  obtain ⟨pn, h1, h2, h3⟩ := h
  rcases h3 with ⟨_, _, h4⟩ | ⟨_, _, h4⟩
  · exact ⟨pn, h1, h2, Or.inl h4⟩
  · exact ⟨pn, h1, h2, Or.inr h4⟩

/-- an instruction appended by this build names `x` -/
def Attr (m0 : Nat) (M : Array (Option Nat)) (x : Nat) : Prop := ∃ k, m0 ≤ k ∧ M[k]? = some (some x)

/-- everything attributed to `x` has to precede everything attributed to `z` -/
def Prec (tree : Array ParseNode) (G : Nat → Prop) (x z : Nat) : Prop :=
  (∃ y a b, G y ∧ Ordered tree y a b ∧ Desc tree a x ∧ Desc tree b z) ∨
  (∃ y c, G y ∧ BChild tree y c ∧ Desc tree c x ∧ z = y)

/-! ### the order invariant (at the head of the inner loop; `S` is the whole work list) -/

structure OInv (root : Nat) (tree : Array ParseNode) (G : Nat → Prop) (m0 : Nat) (ph : Nat → Phase) (S : List Nat)
    (nodes : Nodes) (M : Array (Option Nat)) : Prop where
  nodup : S.Nodup
  onStack : ∀ x, (ph x = .p1 ∨ ph x = .p2) → x ∈ S
  attrVisited : ∀ x, Attr m0 M x → ph x = .p2 ∨ ph x = .p3
  attrB : ∀ (y : Nat) (pn : ParseNode), tree[y]? = some pn → isB pn.definition = true → Attr m0 M y → ph y = .p3
  childSched : ∀ y c, G y → BChild tree y c → (ph y = .p2 ∨ ph y = .p3) → ph c = .p1 ∨ ph c = .p2 ∨ ph c = .p3
  childAbove : ∀ y c, G y → BChild tree y c → (ph c = .p1 ∨ ph c = .p2) → ph y = .p2 ∧ Above S c y
  parentDone : ∀ y c, G y → BChild tree y c → ph y = .p3 → ph c = .p3
  sibAbove : ∀ y a b, G y → Ordered tree y a b → (ph a = .p1 ∨ ph a = .p2) → ph b = .p1 ∧ Above S a b
  sibDone : ∀ y a b, G y → Ordered tree y a b → (ph b = .p2 ∨ ph b = .p3) → ph a = .p3
  uninit : ∀ (x : Nat) (bn : BuildNode), nodes[x]? = some (some bn) → (ph x = .p1 ∨ ph x = .pr) → bn.state = .uninitialized
  ord : ∀ x z, Prec tree G x z → ∀ kx kz : Nat, m0 ≤ kx → m0 ≤ kz → M[kx]? = some (some x) → M[kz]? = some (some z) → kx < kz

section facts
variable {F : Type} {root : Nat} {tree : Array ParseNode} {G : Nat → Prop} {m0 : Nat} {ph : Nat → Phase}

theorem desc_G (V : Validated root tree G) {a x : Nat} (ha : G a) (h : Desc tree a x) : G x := by
  induction h with
  | refl => exact ha
  | step _ hc ih => exact (child_facts V ih hc.isChild).1

/-- a scheduled descendant means the ancestors have been visited -/
theorem desc_climb (V : Validated root tree G) {ctx : Ctx F} (hinv : Inv root tree G ph ctx) {b z : Nat} (hb : G b)
    (h : Desc tree b z) (hz : ph z ≠ .p0) : z = b ∨ ph b = .p2 ∨ ph b = .p3 := by
  induction h with
  | refl => exact Or.inl rfl
  | @step w x hw hc ih =>
    have hwG := desc_G V hb hw
    have hxG := (child_facts V hwG hc.isChild).1
    rcases hinv.fresh x hxG hz with h1 | ⟨p, hp, hpc, hs, _⟩
    · exact absurd h1 (child_ne_root V hwG hc.isChild)
    · have := parent_unique V hp hwG hpc hc.isChild
      subst this
      have hw0 : ph p ≠ .p0 := by rcases hs with h | h <;> rw [h] <;> intro h' <;> cases h'
      rcases ih hw0 with h2 | h2
      · subst h2; exact Or.inr hs
      · exact Or.inr h2

/-- a finished inline node has finished descendants -/
theorem desc_down {S : List Nat} {nodes : Nodes} {M : Array (Option Nat)} (V : Validated root tree G)
    (ho : OInv root tree G m0 ph S nodes M) {a x : Nat} (ha : G a) (h : Desc tree a x) (h3 : ph a = .p3) : ph x = .p3 := by
  induction h with
  | refl => exact h3
  | step hw hc ih => exact ho.parentDone _ _ (desc_G V ha hw) hc ih

theorem ordered_ne (V : Validated root tree G) {y a b : Nat} (hy : G y) (h : Ordered tree y a b) : a ≠ b := by
  obtain ⟨pn, h1, _, h3⟩ := h
  rcases h3 with ⟨_, h4, h5⟩ | ⟨_, h4, h5⟩
  · exact fun e => left_ne_right V hy h1 h5 h4 e.symm
  · exact left_ne_right V hy h1 h4 h5

/-- the node on top of the work list, still being visited: nothing that has to come after it is attributed yet -/
theorem prec_key (V : Validated root tree G) {ctx : Ctx F} (hinv : Inv root tree G ph ctx) {S0 : List Nat} {x : Nat}
    {nodes : Nodes} {M : Array (Option Nat)} (ho : OInv root tree G m0 ph (S0 ++ [x]) nodes M)
    (hx : ph x = .p1 ∨ ph x = .p2) {z : Nat} (hp : Prec tree G x z) : ¬ Attr m0 M z ∧ z ≠ x := by
  have hx3 : ph x ≠ .p3 := by rcases hx with h | h <;> rw [h] <;> intro h' <;> cases h'
  have hx0 : ph x ≠ .p0 := by rcases hx with h | h <;> rw [h] <;> intro h' <;> cases h'
  -- it suffices to refute "z is attributed or z = x"
  suffices hkey : (Attr m0 M z ∨ z = x) → False from ⟨fun h => hkey (Or.inl h), fun h => hkey (Or.inr h)⟩
  intro hz
  rcases hp with ⟨y, a, b, hy, hord, hda, hdb⟩ | ⟨y, c, hy, hc, hdc, hzy⟩
  · have haG := (child_facts V hy hord.left.isChild).1
    have hbG := (child_facts V hy hord.right.isChild).1
    have hz0 : ph z ≠ .p0 := by
      rcases hz with h | h
      · rcases ho.attrVisited z h with h' | h' <;> rw [h'] <;> intro h'' <;> cases h''
      · rw [h]; exact hx0
    -- b has been visited, or z = b
    have hbv : ph b = .p2 ∨ ph b = .p3 := by
      rcases desc_climb V hinv hbG hdb hz0 with h1 | h1
      · subst h1
        rcases hz with h | h
        · exact ho.attrVisited z h
        · -- z = x = b lies in the subtree of a
          subst h
          rcases desc_climb V hinv haG hda hx0 with h2 | h2
          · exact absurd h2.symm (ordered_ne V hy hord)
          · rcases h2 with h2 | h2
            · have := (ho.sibAbove y a z hy hord (Or.inr h2)).2
              exact absurd this (above_top_false ho.nodup)
            · exact absurd (desc_down V ho haG hda h2) hx3
      · exact h1
    have ha3 := ho.sibDone y a b hy hord hbv
    exact hx3 (desc_down V ho haG hda ha3)
  · subst hzy
    have hcG := (child_facts V hy hc.isChild).1
    rcases hz with h | h
    · obtain ⟨pn, h1, h2, _⟩ := hc
      have hy3 := ho.attrB z pn h1 h2 h
      have hc3 := ho.parentDone z c hy ⟨pn, h1, h2, by assumption⟩ hy3
      exact hx3 (desc_down V ho hcG hdc hc3)
    · subst h
      rcases desc_climb V hinv hcG hdc hx0 with h2 | h2
      · subst h2
        have := (ho.childAbove z z hy hc hx).2
        exact above_irrefl ho.nodup this
      · rcases h2 with h2 | h2
        · have := (ho.childAbove z c hy hc (Or.inr h2)).2
          exact above_top_false ho.nodup this
        · exact hx3 (desc_down V ho hcG hdc h2)

end facts

end Garnish.Lemmas.BuildOrder
