/-
Refinement lemmas for casting.rs, part 6: the domain of the refinement (`CastDomain`) and `type_cast` against
Abs/Casts `castOp`, arm by arm.
-/
import Garnish.Lemmas.RuntimeCast5
set_option linter.unusedSimpArgs false
set_option linter.unusedVariables false
namespace Garnish.Lemmas.Runtime
open Garnish Gen Garnish.Abs Garnish.Model.Equality Garnish.Model.Runtime

variable {F σ : Type} {S : RStore F σ} {C : CastOps σ} {env : CastEnv F} (fo : FloatOps F)

/-- the operands for which `type_cast` is proved to refine `castOp`.
* The list-construction contract of `StoreLaws` (`start_list` / `add_to_list` / `end_list`) does not check the
  announced length — that is SimpleGarnishData's behaviour; BasicGarnishData's strict protocol is outside `StoreLaws`.
  Where the number of items can differ from the announced length (range → list with float ends, slice → list) the
  value-level model is therefore taken at `store = simple`.
* loops need fuel for their rounds; `size_to_number` is exact below i32::MAX;
* slices of lists / texts / byte lists: integer extents inside the sliced sequence (`SliceDomain`; outside, the two data
  implementations differ and the trait promises nothing);
* concatenations (as the source, or sliced): fuel for the register work-list (one round per node) and at most i32::MAX
  items (the running index is a `Data::Number`). -/
def CastDomain (env : CastEnv F) (fuel : Nat) (vl vr : Val F) : Prop :=
  match castArm vl.typeOf (castTarget vr) with
  | .rangeList => env.store = .simple ∧
      ∀ x y len, vl = .range (.num x) (.num y) → Abs.rangeLen fo x y = some len → numToSize fo len + 1 ≤ fuel
  | .charListList => ∀ cs, vl = .chars cs → cs.length ≤ 2147483647 ∧ cs.length + 1 ≤ fuel
  | .byteListList => ∀ bs, vl = .bytes bs → bs.length ≤ 2147483647 ∧ bs.length + 1 ≤ fuel
  | .sliceList => env.store = .simple ∧ ∀ x rng, vl = .slice x rng → SliceDomain fo fuel x rng
  | .concatenationList => ∀ a b, vl = .concat a b →
      nodes a + nodes b + 1 ≤ fuel ∧ (flatItems a ++ flatItems b).length ≤ 2147483647
  | _ => True

theorem castCore_number (env : CastEnv F) (cs : List Nat) (vr : Val F) :
    castCore fo env (.chars cs) vr .number = .val (numberOut cs) := by
  simp only [castCore, numberOut]; cases parseI32 cs <;> rfl

theorem castCore_charListChar (env : CastEnv F) (cs : List Nat) (vr : Val F) :
    castCore fo env (.chars cs) vr .char = .val (oneChar cs) := by
  cases cs with
  | nil => rfl
  | cons c cs => cases cs <;> rfl

/-- `(Concatenation, List)`: `concatenation_len`, `start_list`, one `add_to_list` per visited item, `end_list` -/
theorem castBody_concatenationList (L : StoreLawsC S C env) (fuel : Nat) {s s0 : σ} {rest : List Nat} {l r : Nat}
    {ca cb : Val F} (e0 : Eff S s s0 rest (S.vals s)) (hl : Decodes (S.view s0) l (.concat ca cb))
    (hfu : nodes ca + nodes cb + 1 ≤ fuel) (hmx : (flatItems ca ++ flatItems cb).length ≤ 2147483647) :
    Pushed S s ((castBody fo S C fuel l r .concatenation .list >>= fun _ => pure (none : Option Nat)) s0) none rest
      (.list (flatItems ca ++ flatItems cb)) := by
  have harm : castArm .concatenation .list = .concatenationList := rfl
  unfold castBody
  rw [harm]
  simp only []
  obtain ⟨s1, h1, e1⟩ := castConcatenationLen_spec fo L.toStoreLaws fuel hl hfu hmx
  obtain ⟨t0, s2, h2, e2, b2⟩ := L.startList (flatItems ca ++ flatItems cb).length s1
  rw [e1.regs, e1.vals] at e2
  obtain ⟨rr, idx', acc', s3, new, h3, e3, q3, d3, _⟩ :=
    iterateConcatenation_pick fo L.toStoreLaws (addFn_refines L.toStoreLaws L.buildPushRegister) fuel
      ((e1.trans e2).dec hl) hfu hmx t0 [] b2
  rw [pickItems_add] at d3
  rw [e2.regs, e2.vals] at e3
  obtain ⟨a, s4, h4, d4, e4⟩ := L.endList acc' new _ s3 (by simpa using q3) d3
  rw [e3.regs, e3.vals] at e4
  obtain ⟨s5, h5, e5⟩ := L.pushRegister a s4
  rw [e4.regs, e4.vals, e0.regs, e0.vals] at e5
  refine ⟨a, s5, ?_, e5.dec d4, ((e0.trans ((e1.trans e2).trans e3)).trans e4).trans e5⟩
  rw [bind_ok2 h1, bind_ok2 h2, bind_ok2 h3]
  simp only []
  rw [bind_ok2 h4, bind_ok h5]; rfl

/-- `type_cast` refines `castOp` -/
theorem typeCast_refines (L : StoreLawsC S C env) (fuel : Nat) {s : σ} {r l : Nat} {vr vl : Val F}
    {rest : List Nat} (hregs : S.regs s = r :: l :: rest) (hl : Decodes (S.view s) l vl)
    (hr : Decodes (S.view s) r vr) (hdom : CastDomain fo env fuel vl vr) :
    RefinesCast S s (typeCast fo S C fuel s) none rest l r (castOp fo env vl vr) := by
  obtain ⟨s0, e0, hl0, hr0, heq⟩ := typeCast_prefix fo L.toStoreLaws C fuel hregs hl hr
  rw [heq]
  by_cases hty : vl.typeOf = castTarget vr
  · have harm : castArm vl.typeOf (castTarget vr) = .noop := castArm_noop.mpr hty
    have hop : castOp fo env vl vr = .val vl := by simp [castOp, hty]
    rw [hop]
    unfold castBody
    rw [harm]
    exact castPushLeft L.toStoreLaws e0 hl0
  · rw [castOp_of_ne fo env hty]
    unfold CastDomain at hdom
    obtain ⟨hs1, hs2, hs3, hs4⟩ := castCore_simple fo env vl vr (castTarget vr)
    obtain ⟨hc1, hc2, hc3⟩ := castCore_conv fo env vl vr (castTarget vr)
    obtain ⟨hp1, hp2, hp3, hp4, hp5, hp6, hp7, hp8⟩ := castArm_shapes vl (castTarget vr)
    obtain ⟨hq1, hq2, hq3, hq4, hq5, hq6⟩ := castArm_list_shapes vl (castTarget vr)
    cases harm : castArm vl.typeOf (castTarget vr)
    case noop => exact absurd (castArm_noop.mp harm) hty
    case falseOut =>
      rw [hs1 harm]; unfold castBody; rw [harm]
      exact castPush L.toStoreLaws e0 (L.addFalse s0)
    case trueOut =>
      rw [hs2 harm]; unfold castBody; rw [harm]
      exact castPush L.toStoreLaws e0 (L.addTrue s0)
    case unitOut =>
      rw [hs3 harm]; unfold castBody; rw [harm]
      exact castPushUnit L.toStoreLaws e0
    case deferOp =>
      rw [hs4 harm]; unfold castBody; rw [harm]
      exact ⟨s0, e0, deferOrUnit_spec L.toStoreLaws s0 _ _ _ none⟩
    case toCharList =>
      rw [hc1 harm]; unfold castBody; rw [harm]
      exact castConv L.toStoreLaws e0 (L.addCharListFrom s0 l vl hl0)
    case toByteList =>
      rw [hc2 harm]; unfold castBody; rw [harm]
      exact castConv L.toStoreLaws e0 (L.addByteListFrom s0 l vl hl0)
    case toSymbol =>
      rw [hc3 harm]; unfold castBody; rw [harm]
      exact castConv L.toStoreLaws e0 (L.addSymbolFrom s0 l vl hl0)
    case charListNumber =>
      obtain ⟨hrt, cs, rfl⟩ := hp1 harm
      rw [hrt] at harm ⊢; rw [castCore_number]; unfold castBody; rw [harm]
      exact castPush L.toStoreLaws e0 (L.addNumberFrom s0 l cs hl0)
    case numberChar =>
      obtain ⟨hrt, n, rfl⟩ := hp2 harm
      rw [hrt] at harm ⊢; unfold castBody; rw [harm]
      cases n with
      | int v => exact primitiveCast_some L.toStoreLaws e0 (getNumber_of hl0) rfl (L.addChar _ s0)
      | float f => exact primitiveCast_none L.toStoreLaws e0 (getNumber_of hl0) rfl
    case numberByte =>
      obtain ⟨hrt, n, rfl⟩ := hp3 harm
      rw [hrt] at harm ⊢; unfold castBody; rw [harm]
      cases n with
      | int v =>
        by_cases hv : 0 ≤ v ∧ v ≤ 255
        · have hcast : numberToByte (F := F) (.int v) = some v.toNat := by simp [numberToByte, hv]
          have hcore : castCore fo env (.num (.int v)) vr .byte = .val (.byte v.toNat) := by simp [castCore, hv]
          rw [hcore]
          exact primitiveCast_some L.toStoreLaws e0 (getNumber_of hl0) hcast (L.addByte _ s0)
        · have hcast : numberToByte (F := F) (.int v) = none := by simp [numberToByte, hv]
          have hcore : castCore fo env (.num (.int v)) vr .byte = .val .unit := by simp [castCore, hv]
          rw [hcore]
          exact primitiveCast_none L.toStoreLaws e0 (getNumber_of hl0) hcast
      | float f => exact primitiveCast_none L.toStoreLaws e0 (getNumber_of hl0) rfl
    case charNumber =>
      obtain ⟨hrt, c, rfl⟩ := hp4 harm
      rw [hrt] at harm ⊢; unfold castBody; rw [harm]
      exact primitiveCast_some L.toStoreLaws e0 (getChar_of hl0) rfl (L.addNumber _ s0)
    case charByte =>
      obtain ⟨hrt, c, rfl⟩ := hp5 harm
      rw [hrt] at harm ⊢; unfold castBody; rw [harm]
      exact primitiveCast_some L.toStoreLaws e0 (getChar_of hl0) rfl (L.addByte _ s0)
    case byteNumber =>
      obtain ⟨hrt, b, rfl⟩ := hp6 harm
      rw [hrt] at harm ⊢; unfold castBody; rw [harm]
      exact primitiveCast_some L.toStoreLaws e0 (getByte_of hl0) rfl (L.addNumber _ s0)
    case byteChar =>
      obtain ⟨hrt, b, rfl⟩ := hp7 harm
      rw [hrt] at harm ⊢; unfold castBody; rw [harm]
      exact primitiveCast_some L.toStoreLaws e0 (getByte_of hl0) rfl (L.addChar _ s0)
    case charListChar =>
      obtain ⟨hrt, cs, rfl⟩ := hp8 harm
      rw [hrt, castCore_charListChar]
      exact castBody_charListChar fo L fuel e0 hl0
    case symbolListList =>
      obtain ⟨hrt, ps, rfl⟩ := hq1 harm
      rw [hrt]
      have hcore : castCore fo env (.symList ps) vr .list = .val (.list (ps.map symPartVal)) := by
        simp only [castCore]; rw [← List.length_map (f := symPartVal)]; exact buildList_exact _ _
      rw [hcore]
      exact castBody_symbolListList fo L fuel e0 hl0
    case rangeList =>
      obtain ⟨hrt, a, b, rfl⟩ := hq2 harm
      rw [harm] at hdom
      obtain ⟨hst, hfuel⟩ := hdom
      rw [hrt]
      have hcore : castCore fo env (.range a b) vr .list = rangeToList fo .simple a b := by
        simp only [castCore, hst]
      rw [hcore]
      exact castBody_rangeList fo L fuel e0 hl0 (fun x y len ha hb hlen => hfuel x y len (by rw [ha, hb]) hlen)
    case charListList =>
      obtain ⟨hrt, cs, rfl⟩ := hq3 harm
      rw [harm] at hdom
      obtain ⟨hmax, hfuel⟩ := hdom cs rfl
      rw [hrt]
      have hcore : castCore fo env (.chars cs) vr .list = .val (.list (cs.map .char)) := by
        simp only [castCore]; rw [← List.length_map (f := Val.char)]; exact buildList_exact _ _
      rw [hcore]
      exact castBody_charListList fo L fuel e0 hl0 hmax hfuel
    case byteListList =>
      obtain ⟨hrt, bs, rfl⟩ := hq4 harm
      rw [harm] at hdom
      obtain ⟨hmax, hfuel⟩ := hdom bs rfl
      rw [hrt]
      have hcore : castCore fo env (.bytes bs) vr .list = .val (.list (bs.map .byte)) := by
        simp only [castCore]; rw [← List.length_map (f := Val.byte)]; exact buildList_exact _ _
      rw [hcore]
      exact castBody_byteListList fo L fuel e0 hl0 hmax hfuel
    case concatenationList =>
      obtain ⟨hrt, ca, cb, rfl⟩ := hq5 harm
      rw [harm] at hdom
      obtain ⟨hfu, hmx⟩ := hdom ca cb rfl
      rw [hrt]
      have hcore : castCore fo env (.concat ca cb) vr .list = .val (.list (flatItems ca ++ flatItems cb)) := by
        simp only [castCore]; exact buildList_exact _ _
      rw [hcore]
      exact castBody_concatenationList fo L fuel e0 hl0 hfu hmx
    case sliceList =>
      obtain ⟨hrt, x, rng, rfl⟩ := hq6 harm
      rw [harm] at hdom
      obtain ⟨hst, hsd⟩ := hdom
      rw [hrt]
      have hcore : castCore fo env (.slice x rng) vr .list = sliceToList fo .simple x rng := by
        simp only [castCore, hst]
      rw [hcore]
      exact castBody_sliceList fo L fuel e0 hl0 (hsd x rng rfl)

end Garnish.Lemmas.Runtime
