/-
Separators, part 5: a separator between two expressions of a frame that is not a group (`expr_sep`: the separator is a
binary operator of priority 1000 / 990; further separators after it are dropped), and a nested expression that ends with a
blank line before its `}` (`opd_bracket_trail`: the EndGrouping arm unlinks the separator node again).
-/
import Garnish.Lemmas.ParserB22

namespace Garnish.Spec
open Garnish Garnish.Gen Garnish.Model.Parser

theorem KindOK.congr {st st' : PState} {ug : Option Nat} {inG : Bool} (h : KindOK st ug inG)
    (hd : ∀ g, ug = some g → (st'.nodes[g]?).map (·.definition) = (st.nodes[g]?).map (·.definition)) :
    KindOK st' ug inG := by
  cases ug with
  | none => exact h
  | some g =>
    obtain ⟨G, hG, hdef⟩ := h
    have := hd g rfl
    rw [hG] at this
    cases h1 : st'.nodes[g]? with
    | none => rw [h1] at this; cases this
    | some G1 =>
      rw [h1] at this
      simp only [Option.map_some, Option.some.injEq] at this
      exact ⟨G1, h1, by rw [this]; exact hdef⟩

theorem sep_not_optional (tt : TokenType) (h : (getDefinition tt).2 = SecDef.subexpression) :
    (getDefinition tt).1.isOptional = false := by
  revert h
  cases tt <;> simp only [getDefinition] <;> decide

/-- the separator node and the open position behind it -/
theorem sep_open {st : PState} {ug p : Option Nat} {base : Nat} {E : Tree} {re cb : Nat}
    (hinv : UInv st ug p base E re cb) (hk : KindOK st ug false) (t : PToken) (ht : isSepTok t = true)
    (nodes' : Array ParseNode) (info : Info)
    (hsz' : nodes'.size = st.nodes.size)
    (hdefs : ∀ j, j < st.nodes.size → (nodes'[j]?).map (·.definition) = (st.nodes[j]?).map (·.definition)) :
    (sepState st t nodes' info).nodes[st.nodes.size]? =
        some ⟨(getDefinition t.type).1, .subexpression, info.parent, info.left, info.right, t⟩ ∧
      (sepState st t nodes' info).nodes.size = st.nodes.size + 1 ∧ KindOK (sepState st t nodes' info) ug false ∧
      SkipTop (sepState st t nodes' info) ug false ∧ FillPrev (sepState st t nodes' info) := by
  have hS : (sepState st t nodes' info).nodes[st.nodes.size]? =
      some ⟨(getDefinition t.type).1, .subexpression, info.parent, info.left, info.right, t⟩ := by
    simp only [sepState]; rw [Array.getElem?_push, if_pos hsz'.symm]
  have hs : (sepState st t nodes' info).nodes.size = st.nodes.size + 1 := by simp [sepState, hsz']
  refine ⟨hS, hs, ?_, ?_, Or.inr (Or.inl rfl)⟩
  · apply hk.congr
    intro g hg
    have hgl : g < st.nodes.size := by
      cases hinv.n.frame with
      | top re => cases hg
      | bracket g' re' G pg _ _ _ _ => injection hg with hg; have := hinv.n.pos; omega
    simp only [sepState]
    rw [Array.getElem?_push, if_neg (by omega)]
    exact hdefs g hgl
  · refine ⟨_, by rw [hs, Nat.add_sub_cancel]; exact hS, ?_, Or.inr ⟨rfl, rfl⟩⟩
    show (getDefinition t.type).1.isOptional = false
    exact sep_not_optional t.type (by unfold isSepTok at ht; simpa using ht)

/-- an expression, a separator (with trivia before and trivia / further separators after it), and an operand -/
theorem expr_sep {c1 c2 : Nat} {e x ws1 ws2 : List PToken} {ls : Bool} {t : PToken} (he : ExprOK c1 false e ls)
    (hx : OpdOK c2 x)
    (ht : isSepTok t = true) (hw1 : ∀ w ∈ ws1, isTriviaTok w = true) (hw2 : ∀ w ∈ ws2, isFillTok w = true)
    (hxne : x ≠ []) (hxh : ∀ r, closerFollows (x ++ r) = false) :
    ExprOK (c1 + c2) false (e ++ (ws1 ++ (t :: (ws2 ++ x)))) false := by
  intro st0 ug p base hO hfs hprios hcg hk hsp pos hnum rest
  have hs : (getDefinition t.type).2 = .subexpression := by unfold isSepTok at ht; simpa using ht
  obtain ⟨_, _, _, _, _, hnb, _, _⟩ := sep_def_facts t.type hs
  -- positions
  have hnume := numbered_prefix e _ pos hnum
  have hnum1 := numbered_append e _ pos hnum
  have hnum2 := numbered_append ws1 _ _ hnum1
  have htcol : t.col = pos + e.length + ws1.length := hnum2.1
  have hnum3 := numbered_append ws2 x _ hnum2.2
  -- the expression so far
  obtain ⟨stE, E, re, cb, hloopE, hinvE, hgsE, hcgE, ho1E, ho2E, hrdE, hcntE, hrefE⟩ :=
    he st0 ug p base hO hfs hprios hcg hk hsp pos hnume (ws1 ++ (t :: (ws2 ++ x)) ++ rest)
  have hkE : KindOK stE ug false := by
    apply hk.transfer (base := base) _ ho2E
    intro g hg
    cases hfs with
    | top _ _ => cases hg
    | bracket g' G pg h1 _ _ _ _ _ => injection hg with hg; omega
  -- trivia, separator
  obtain ⟨stE', hloopW1, hinvE', hnE', hgsE', hcgE'⟩ := trivia_runU ws1 stE ((t :: (ws2 ++ x)) ++ rest) hinvE hw1
  have hkE' : KindOK stE' ug false := hkE.congr (fun g _ => by rw [hnE'])
  obtain ⟨q, nodes', info, hq, h1, hsz', hir, hO1, hprios1, habove1, hdefs, _, _, _, hK⟩ := sep_stepU hinvE' hkE' t ht
  obtain ⟨hS1, hs1, hk1, htop1, hfp1⟩ := sep_open hinvE' hkE' t ht nodes' info hsz' hdefs
  -- trivia / dropped separators, operand
  obtain ⟨s1', hloopW2, hO1', hn1', hnp1', hll1', hgs1', hcg1', _⟩ :=
    skip_runB ug false ws2 (sepState stE' t nodes' info) (x ++ rest) hO1 hk1 (by omega) htop1 hfp1 hw2
  have hcg1ok : CGOK s1' := by
    unfold CGOK at hcg ⊢
    rw [hcg1', hgs1']
    show stE'.currentGroup = if stE'.groupStack.isEmpty then none else some (stE'.groupStack.size - 1)
    rw [hcgE', hgsE', hcgE, hgsE]; exact hcg
  obtain ⟨st2, sub, cb', P, hloopX, hres, hP, hcntX, hrefX⟩ :=
    hx s1' ug hO1' (by rw [hn1']; exact hprios1) hcg1ok _ hnum3 rest
  have hres1 : OpdRes (sepState stE' t nodes' info) st2 sub cb' := hres.transfer hn1'.symm hnp1'.symm hgs1'.symm hcg1'.symm
  obtain ⟨re', hinv2, hdefs2, ho12, ho22, hdn⟩ := hK st2 sub cb' hres1
  rw [hnE'] at hinv2 hdefs2 ho12 ho22 hdn
  have hSs : (sepState stE' t nodes' info).nodes.size = stE.nodes.size + 1 := by
    have : (sepState stE' t nodes' info).nodes.size = nodes'.size + 1 := by simp [sepState]
    rw [this, hsz', hnE']
  have hcnt : (insertC cb (prioAt stE.nodes) q false stE.nodes.size t.col sub E).inorder.length + base + (c1 + c2) =
      st2.nodes.size := by
    rw [insertC_inorder]
    simp only [List.length_append, List.length_cons]
    rw [hn1'] at hcntX
    omega
  refine ⟨st2, _, re', cb', ?_, hinv2, ?_, ?_, fun j hj => by rw [ho22 j hj, ho1E j hj],
    fun j hj => by rw [ho12 j hj, ho2E j hj], fun _ => hres.ready, hcnt, ?_⟩
  · have e1 : e ++ (ws1 ++ (t :: (ws2 ++ x))) ++ rest = e ++ (ws1 ++ (t :: (ws2 ++ x)) ++ rest) := by simp
    have e2 : ws1 ++ (t :: (ws2 ++ x)) ++ rest = ws1 ++ ((t :: (ws2 ++ x)) ++ rest) := by simp
    rw [e1, hloopE, e2, hloopW1]
    simp only [List.cons_append, loop]
    have he' : (ws2 ++ x ++ rest).isEmpty = false := by cases ws2 <;> cases x <;> simp_all
    rw [he', h1]
    simp only [Outcome.bind]
    rw [List.append_assoc, hloopW2, hloopX]
  · rw [hres1.gs]; show stE'.groupStack = _; rw [hgsE', hgsE]
  · rw [hres1.cg]; show stE'.currentGroup = _; rw [hcgE', hcgE]
  · intro f stack restR hc hl hig
    have e1 : e ++ (ws1 ++ (t :: (ws2 ++ x))) ++ restR = e ++ (ws1 ++ (t :: (ws2 ++ x ++ restR))) := by simp
    rw [e1, hrefE f stack _ hc hl hig]
    let fE : Frame :=
      { f with cur := toRG (dfOf stE.nodes) E, last := (if ls then Last.suffix else Last.operand), ws := false,
               prevSep := false }
    obtain ⟨b1, hb1⟩ := ref_skipK ws1 fE stack (pos + e.length) (t :: (ws2 ++ x ++ restR)) hw1
    rw [hb1]
    conv => lhs; unfold refLoop
    have hcf : closerFollows (ws2 ++ x ++ restR) = false := by
      rw [List.append_assoc, closerFollows_skip ws2 _ hw2]; exact hxh restR
    let fE1 : Frame := { fE with ws := b1 }
    have hig1 : fE1.inGroup = false := hig
    rw [ref_sep_stepK fE1 stack _ q t _ ht hq hig1 rfl hcf (by cases ls <;> simp [fE1, fE])]
    simp only [Outcome.bind]
    let fS : Frame :=
      { f with cur := attach Table.gen q false (getDefinition t.type).1 (pos + e.length + ws1.length) (toRG (dfOf stE.nodes) E),
               last := Last.sep, ws := false, prevSep := true }
    obtain ⟨b2, hb2⟩ := ref_skip_fillK ws2 fS stack (pos + e.length + ws1.length + 1) (x ++ restR) hw2 (Or.inr rfl)
    rw [List.append_assoc, hb2, hrefX _ stack restR (Or.inr (Or.inr (Or.inr rfl)))]
    have hcong : ∀ i ∈ E.inorder, dfOf stE.nodes i = dfOf st2.nodes i := by
      intro i hi
      have := hdefs2 i (hinvE.n.mem i hi).2
      simp only [dfOf, this]
    have habove : aboveDef s1' = dfOf st2.nodes stE.nodes.size := by
      rw [hdn, ← habove1]; unfold aboveDef; rw [hn1']
    have hcur : P (attach Table.gen q false (getDefinition t.type).1 (pos + e.length + ws1.length)
          (toRG (dfOf stE.nodes) E)) =
        toRG (dfOf st2.nodes) (insertC cb (prioAt stE.nodes) q false stE.nodes.size t.col sub E) := by
      rw [toRG_congr _ _ E hcong, ← hdn, htcol]
      apply insertC_toRG (dfOf st2.nodes) (prioAt stE.nodes) q _ stE.nodes.size (pos + e.length + ws1.length) sub cb P
        (by rw [← habove]; exact hP) (by rw [hdn]; exact hnb) E
      · intro i hi
        rw [← hcong i hi]
        exact prio_dfOf hinvE.n.prios (hinvE.n.mem i hi).2
      · exact hinvE.spine.congr hcong
    simp only [fS]
    rw [hcur]
    have hlen : pos + e.length + ws1.length + 1 + ws2.length + x.length =
        pos + (e ++ (ws1 ++ (t :: (ws2 ++ x)))).length := by
      simp only [List.length_append, List.length_cons]; omega
    rw [hlen]
    rfl

end Garnish.Spec
