/-
Suffix operators, groundwork: the node at the bottom of the right spine may stop the next operator.
  * `walk_insertB`: the array-level insertion lemma for that case (the new operator becomes the right child of the bottom
    node and has no left operand),
  * `parseToken_bottom(_ok)`: what `parse_token` does then (`parent == true_left`, so `true_left` is unset),
  * `SInv`: the state invariant after a value OR a suffix operator,
  * trivia lemmas that do not assume a value node before the trivia.
-/
import Garnish.Lemmas.ParserPrefix

namespace Garnish.Spec
open Garnish Garnish.Gen Garnish.Model.Parser

/-- the bottom node `b` of the right spine stops the new operator -/
theorem walk_insertB (nodes : Array ParseNode) (q : Nat) (rtl : Bool) (n ko : Nat) (sub : Tree) (rlink : Option Nat) :
    ∀ {p link : Option Nat} {t : Tree}, IsTreeAt nodes p link t → ∀ i, link = some i → t.inorder.Nodup →
      ∀ b, t.inorder.getLast? = some b → stops q rtl (prioAt nodes b) = true → ∀ tl0 : Option Nat,
        walkSpec nodes q rtl tl0 (rspineUp t) = (tl0, some b) ∧ (∃ nb, nodes[b]? = some nb ∧ nb.right = none) ∧
        ∃ t', absorbS (prioAt nodes) q rtl n ko sub t = some t' ∧
          ∀ arr : Array ParseNode, (∀ j ∈ t.inorder, j ≠ b → arr[j]? = nodes[j]?) →
            arr[b]? = (nodes[b]?).map (setRight (some n)) → NewOpS arr n ko sub (some b) none rlink →
            IsTreeAt arr p link t' := by
  intro p link t h
  induction h with
  | nil p => intro i hi; cases hi
  | node p i nd l r hn hpar hl hr _ ihr =>
    intro i' hi' hnd b hb hstop tl0
    injection hi' with hi'; subst hi'
    simp only [Tree.inorder] at hnd hb
    rw [List.nodup_append] at hnd
    obtain ⟨ndl, ndir, hdisj⟩ := hnd
    rw [List.nodup_cons] at ndir
    obtain ⟨hir, ndr⟩ := ndir
    have hil : i ∉ l.inorder := fun hm => hdisj i hm i (List.mem_cons_self ..) rfl
    cases hrl : nd.right with
    | none =>
      rw [hrl] at hr
      cases hr
      simp only [Tree.inorder, List.getLast?_concat, Option.some.injEq] at hb
      subst hb
      have hs : (decide (q < prioAt nodes i) || (q == prioAt nodes i && rtl)) = true := hstop
      refine ⟨by simp only [rspineUp, List.nil_append, walkSpec, hs, if_true], ⟨nd, hn, hrl⟩, ?_⟩
      refine ⟨.node l i (tokPos nd) (newOpS .nil n ko sub), by simp [absorbS, hstop], ?_⟩
      intro arr hfr hb' hnew
      rw [hn] at hb'
      refine isTreeAt_node (setRight (some n) nd) hb' hpar ?_ ?_ rfl
      · exact hl.frame (fun j hj => hfr j (by simp [Tree.inorder, hj]) (fun e => hil (e ▸ hj)))
      · exact newOpS_isTreeAt hnew (.nil _)
    | some ri =>
      have hr' := hr
      rw [hrl] at hr'
      have hrne : r.inorder ≠ [] := by
        cases hr' with
        | node _ _ _ _ _ _ _ _ _ => simp [Tree.inorder]
      have hbr : r.inorder.getLast? = some b := by
        rw [show i :: r.inorder = [i] ++ r.inorder from rfl, ← List.append_assoc, List.getLast?_append] at hb
        cases hg : r.inorder.getLast? with
        | none => simp at hg; exact absurd hg hrne
        | some z => rw [hg] at hb; simpa using hb
      have hbmem : b ∈ r.inorder := List.mem_of_getLast? hbr
      obtain ⟨hw, hnb, r', habs, harr⟩ := ihr ri hrl ndr b hbr hstop tl0
      refine ⟨?_, hnb, .node l i (tokPos nd) r', by simp [absorbS, habs], ?_⟩
      · simp only [rspineUp, walkSpec_append, hw]
      · intro arr hfr hb' hnew
        have hib : i ≠ b := fun e => hir (e ▸ hbmem)
        refine isTreeAt_node nd (by rw [hfr i (by simp [Tree.inorder]) hib]; exact hn) hpar ?_ ?_ rfl
        · exact hl.frame (fun j hj => hfr j (by simp [Tree.inorder, hj])
            (fun e => hdisj j hj b (List.mem_cons_of_mem _ hbmem) e))
        · exact harr arr (fun j hj => hfr j (by simp [Tree.inorder, hj])) hb' hnew

end Garnish.Spec

namespace Garnish.Model.Parser
open Garnish Garnish.Gen

/-- the new operator stops at the very node the walk started from: `parent == true_left`, no left operand -/
theorem parseToken_bottom {id q b : Nat} {d : Definition} {left right : Option Nat} {nodes nodes' : Array ParseNode}
    {ug : Option Nat} {rtl : Bool} {info : Info} {nb : ParseNode} (hq : priority d = some q)
    (hw : walkLoop nodes q ug rtl (nodes.size + 1) 0 left left = .ok (some b, some b))
    (hb : nodes[b]? = some nb) (hbr : nb.right = none)
    (h : parseToken id d left right nodes ug rtl = .ok (nodes', info)) :
    info = ⟨d, some b, none, right⟩ ∧
      ∀ j, nodes'[j]? = if j = b then (nodes[j]?).map (setRight (some id)) else nodes[j]? := by
  unfold parseToken at h
  simp only [hq] at h
  obtain ⟨⟨tl, par⟩, hw', h⟩ := bind_ok h
  rw [hw] at hw'
  injection hw' with hw'; injection hw' with e1 e2; subst e1; subst e2
  simp only [beq_self_eq_true, if_true, Outcome.bind, hb] at h
  split at h
  · cases h
  · rename_i nodes2 hm2
    simp only [hbr] at h
    injection h with h; injection h with e1 e2
    subst e1
    exact ⟨e2.symm, fun j => modifyNode?_get hm2 j⟩

theorem parseToken_bottom_ok {id q b : Nat} {d : Definition} {left right : Option Nat} {nodes : Array ParseNode}
    {ug : Option Nat} {rtl : Bool} {nb : ParseNode} (hq : priority d = some q)
    (hw : walkLoop nodes q ug rtl (nodes.size + 1) 0 left left = .ok (some b, some b))
    (hb : nodes[b]? = some nb) (hbr : nb.right = none) :
    ∃ nodes' info, parseToken id d left right nodes ug rtl = .ok (nodes', info) := by
  have hbs : b < nodes.size := (Array.getElem?_eq_some_iff.mp hb).1
  obtain ⟨n2, h2⟩ := modifyNode?_isSome (fun p => { p with right := some id }) hbs
  unfold parseToken
  rw [hq]
  simp only [hw, Outcome.bind, beq_self_eq_true, if_true, hb, h2, hbr]
  exact ⟨_, _, rfl⟩

/-! ### trivia, without assuming what kind of node precedes it -/

/-- `last_left` is a node that is neither a bracket nor a side effect (a value, an operator, a suffix operator) -/
def PlainOK (st : PState) : Prop :=
  ∃ i n, st.lastLeft = some i ∧ st.nodes[i]? = some n ∧ n.definition.isGroupLike = false

theorem adjustLastLeft_plainOK {st : PState} (h : PlainOK st) (ug : Option Nat) : adjustLastLeft st ug = .ok st := by
  obtain ⟨i, n, hl, hn, hg⟩ := h
  unfold adjustLastLeft
  simp [hl, hn, not_sideEffect_of_not_groupLike hg]

/-- a trivia token after a plain node: only the list flag (whitespace after a value), `previous_second_def` and
    `last_token` change -/
theorem step_trivia_plain (st : PState) (w : PToken) (il : Bool) (hw : isTriviaTok w = true) (ht : PlainOK st)
    (hnl : st.nextLastLeft = none) :
    ∃ c, step st w il = Outcome.bind (underGroupOf st) fun _ =>
      .ok { st with checkForList := c, previousSecondDef := (getDefinition w.type).2, lastToken := w } := by
  have hadj := adjustLastLeft_plainOK ht
  obtain ⟨i, n, hl, hn, hg⟩ := ht
  unfold isTriviaTok at hw
  have hcases : w.type = .whitespace ∨ w.type = .annotation ∨ w.type = .lineAnnotation := by
    simp only [Bool.or_eq_true, beq_iff_eq] at hw
    rcases hw with (h | h) | h
    · exact Or.inl h
    · exact Or.inr (Or.inl h)
    · exact Or.inr (Or.inr h)
  have hkey : ∀ ug, underGroupOf st = .ok ug → ∃ c, step st w il =
      .ok { st with checkForList := c, previousSecondDef := (getDefinition w.type).2, lastToken := w } := by
    intro ug hu
    unfold step
    simp only [hu, Outcome.bind, hadj]
    rcases hcases with h | h | h
    · rw [h]
      cases hv : n.definition.isValueLike with
      | true =>
        refine ⟨true, ?_⟩
        simp only [getDefinition, (checkComposition_trivia _ _).1, Bool.not_true, Bool.false_eq_true, if_false, dispatch,
          setupSpaceListCheck, hl, hn, hv, Bool.true_or, if_true, Outcome.bind, pushNode, bne_self_eq_false]
        simp [hl, hnl]
      | false =>
        refine ⟨st.checkForList, ?_⟩
        simp only [getDefinition, (checkComposition_trivia _ _).1, Bool.not_true, Bool.false_eq_true, if_false, dispatch,
          setupSpaceListCheck, hl, hn, hv, hg, Bool.false_and, Bool.or_self, Outcome.bind, pushNode, bne_self_eq_false]
        simp [hl, hnl]
    · rw [h]
      refine ⟨st.checkForList, ?_⟩
      simp only [getDefinition, (checkComposition_trivia _ _).2, Bool.not_true, Bool.false_eq_true, if_false, dispatch,
        Outcome.bind, pushNode, bne_self_eq_false]
      simp [hl, hnl]
    · rw [h]
      refine ⟨st.checkForList, ?_⟩
      simp only [getDefinition, (checkComposition_trivia _ _).2, Bool.not_true, Bool.false_eq_true, if_false, dispatch,
        Outcome.bind, pushNode, bne_self_eq_false]
      simp [hl, hnl]
  cases hu : underGroupOf st with
  | ok ug => obtain ⟨c, hc⟩ := hkey ug hu; exact ⟨c, by rw [hc]; rfl⟩
  | err e => exact ⟨false, by unfold step; rw [hu]; rfl⟩
  | panic s => exact ⟨false, by unfold step; rw [hu]; rfl⟩
  | fuelOut => exact ⟨false, by unfold step; rw [hu]; rfl⟩

/-- a binary-operator token does not look at `check_for_list` or `last_token`, and at `previous_second_def` only through
    the composition check (version for any `last_left` that is not a side effect) -/
theorem step_binop_indep' (st : PState) (c : Bool) (s : SecDef) (w o : PToken) (il : Bool) (ho : isBinopTok o = true)
    (ht : PlainOK st)
    (hcomp : checkComposition s (getDefinition o.type).2 c =
      checkComposition st.previousSecondDef (getDefinition o.type).2 st.checkForList) :
    step { st with checkForList := c, previousSecondDef := s, lastToken := w } o il = step st o il := by
  have ht2 : PlainOK { st with checkForList := c, previousSecondDef := s, lastToken := w } := ht
  unfold step
  have hu : underGroupOf { st with checkForList := c, previousSecondDef := s, lastToken := w } = underGroupOf st := rfl
  rw [hu]
  cases underGroupOf st with
  | err e => rfl
  | panic s => rfl
  | fuelOut => rfl
  | ok ug =>
    simp only [Outcome.bind, adjustLastLeft_plainOK ht, adjustLastLeft_plainOK ht2]
    unfold isBinopTok at ho
    generalize getDefinition o.type = ds at ho hcomp
    obtain ⟨d, so⟩ := ds
    simp only at ho hcomp ⊢
    rw [hcomp]
    split
    · rfl
    · have hso : so = .binaryLeftToRight ∨ so = .binaryRightToLeft := by
        simpa [Bool.or_eq_true, beq_iff_eq] using ho
      rcases hso with hso | hso <;> subst hso <;>
      · simp only [dispatch, parseTokenLeftToRight, parseTokenRightToLeft, parseTokenSt]
        cases parseToken st.nodes.size d st.lastLeft (if il = true then none else some (st.nodes.size + 1)) st.nodes ug _ with
        | err e => rfl
        | panic s => rfl
        | fuelOut => rfl
        | ok res =>
          obtain ⟨nodes', info⟩ := res
          simp only [Outcome.bind, pushNode]
          cases hdrop : (info.definition != Definition.drop) <;> cases hnl : st.nextLastLeft <;> simp [hnl]

/-- any run of trivia between a plain node (value or suffix operator) and a binary operator -/
theorem loop_trivia_then_binop' (o : PToken) (post : List PToken) (ho : isBinopTok o = true) :
    ∀ (ws : List PToken) (st : PState), (∀ w ∈ ws, isTriviaTok w = true) → PlainOK st → st.nextLastLeft = none →
      underGroupOf st = .ok none →
      checkComposition st.previousSecondDef (getDefinition o.type).2 st.checkForList = true →
      loop st (ws ++ o :: post) = loop st (o :: post) := by
  intro ws
  induction ws with
  | nil => intro st _ _ _ _ _; rfl
  | cons w ws ih =>
    intro st hws ht hnl hcg hcomp
    have hw : isTriviaTok w = true := hws w (List.mem_cons_self ..)
    have hso : (getDefinition o.type).2 = .binaryLeftToRight ∨ (getDefinition o.type).2 = .binaryRightToLeft := by
      unfold isBinopTok at ho; simpa [Bool.or_eq_true, beq_iff_eq] using ho
    simp only [List.cons_append, loop]
    have he : (ws ++ o :: post).isEmpty = false := by cases ws <;> rfl
    obtain ⟨c, hc⟩ := step_trivia_plain st w false hw ht hnl
    rw [he, hc, hcg]
    simp only [Outcome.bind]
    have hcw : ∀ c, checkComposition (getDefinition w.type).2 (getDefinition o.type).2 c = true :=
      fun c => composition_trivia_binop _ _ c (trivia_secdef hw) hso
    rw [ih { st with checkForList := c, previousSecondDef := (getDefinition w.type).2, lastToken := w }
      (fun x hx => hws x (List.mem_cons_of_mem _ hx)) ht hnl hcg (hcw _)]
    simp only [loop]
    rw [step_binop_indep' st _ _ w o _ ho ht (by rw [hcw, hcomp])]
    rfl

end Garnish.Model.Parser
