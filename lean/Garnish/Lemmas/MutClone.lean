/-
`WFq` is kept by `clone_data`: the copies are well-formed cells whose links lead to retained nodes or to copies made
earlier, and the copies of input-value cells are chained (Lemmas/MutProv.lean).
-/
import Garnish.Lemmas.MutProv
import Garnish.Lemmas.MutOps
import Garnish.Lemmas.OptimizeResultWF
set_option maxHeartbeats 2000000
namespace Garnish.BasicOpt
open Garnish

/-- **`clone_data` keeps `WFq`** and returns a readable address -/
theorem cloneData_wfq {s s' : Store} {a r : Nat} (hwf : WFq s) (ha : isNode s.cells a = true)
    (h : Store.cloneData s a = .ok (s', r)) : WFq s' ∧ isNode s'.cells r = true := by
  have hext0 := cloneData_original_untouched h
  simp only [isNode, Option.isSome_iff_exists] at ha
  obtain ⟨sha, hsha⟩ := ha
  simp only [Store.cloneData, bind_eq_ok] at h
  obtain ⟨⟨s1, st⟩, h1, h2⟩ := h
  obtain ⟨e1, hst⟩ := createIndexStack_ext s.cells.size h1
  subst hst
  have hkn := hwf.kidsNodes
  -- the index list names nodes
  have hin0 : ItemsNodes s.cells s.cells.size s := ⟨fun _ _ h => h, fun j h1 h2 => by omega⟩
  obtain ⟨hin1, hsz1⟩ := createIndexStack_nodes (Nat.le_refl _) hkn hin0 (Nat.le_refl _) hsha h1
  have hpre : FreshPre s.cells s1 s.cells.size s1.cells.size := by
    refine ⟨hkn, ?_⟩
    intro j hj1 hj2 o ho
    obtain ⟨o', sh, h3, h4⟩ := hin1.items j hj1 hj2
    rw [ho] at h3
    simp only [Option.some.injEq, Cell.cloneItem.injEq] at h3
    subst h3; exact ⟨sh, h4⟩
  -- the walk
  simp only [Store.cloneIndexStack, bind_eq_ok] at h2
  obtain ⟨s2, hloop, c, hgt, h3⟩ := h2
  have hhead : s1.cells[s.cells.size]? = some (.cloneItem a) := by
    simp only [Store.createIndexStack, bind_eq_ok, pure_eq_ok] at h1
    obtain ⟨⟨sp, ip⟩, hp, sl, hl, h3'⟩ := h1
    simp only [Prod.mk.injEq] at h3'
    obtain ⟨h3', _⟩ := h3'
    subst h3'
    obtain ⟨_, hcells, _⟩ := push_ok hp
    have e := indexLoop_ext (s.cells.size + 1) _ _ _ _ _ _ hl
    rw [e.keep s.cells.size (by omega) (by rw [hcells]; simp), hcells]
    simp
  have hsize : s.cells.size < s1.cells.size := by
    rcases Nat.lt_or_ge s.cells.size s1.cells.size with h | h
    · exact h
    · rw [Array.getElem?_eq_none h] at hhead; cases hhead
  have hinv0 : CInv 0 s.cells s1 s.cells.size s1.cells.size (s1.cells.size - s.cells.size) s1 := by
    refine ⟨?_, rfl, rfl, Nat.le_refl _, by omega, fun _ _ _ => rfl, ?_, fun _ j h1 h2 => by omega⟩
    · intro i c hc
      have hi : i < s.cells.size := by
        rcases Nat.lt_or_ge i s.cells.size with h | h
        · exact h
        · rw [Array.getElem?_eq_none h] at hc; cases hc
      rw [e1.keep i hi hi]; exact hc
    · intro j hj1 hj2; omega
  have hinv := cloneLoop_step_inv (Nat.le_refl _) hwf.listsWF (Or.inl rfl) _ _ _ hinv0
    (by simpa [Store.cursor] using hloop)
  have hprov : Prov 0 s.cells s2 s1.cells.size :=
    cloneLoop_prov (Nat.le_refl _) hwf.listsWF (Or.inl rfl)
      (by rw [e1.frame.1]; have := hwf.retLe; omega) hpre _ _ _ hinv0
      (fun j h1 h2 => by omega) (by simpa [Store.cursor] using hloop)
  -- the returned address
  obtain ⟨o, n, hcell, hs1, hgood⟩ := hinv.done s.cells.size (by omega) hsize
  rw [hhead] at hs1
  simp only [Option.some.injEq, Cell.cloneItem.injEq] at hs1
  subst hs1
  have hc := get_ok hgt
  rw [hcell] at hc
  simp only [Option.some.injEq] at hc
  subst hc
  simp only [pure, Outcome.ok.injEq, Prod.mk.injEq] at h3
  obtain ⟨hs', hr⟩ := h3
  subst hs'; subst hr
  have hretle : s2.retention ≤ s1.cells.size := by
    rw [hinv.ret, e1.frame.1]; have := hwf.retLe; omega
  have hrnode : isNode s2.cells n = true := by
    rcases hgood with ⟨e, _⟩ | ⟨ni, _, hni, hcl⟩
    · subst e
      simp [isNode, shape_agree (agreeNC_of_all hinv.agree0) hsha]
    · simp only [Nat.add_zero] at hni
      subst hni
      obtain ⟨sh', g1, _⟩ := hcl sha hsha
      simp [isNode, g1]
  refine ⟨?_, hrnode⟩
  -- `s2` is `s` with cells appended
  have hsz2 : s.cells.size ≤ s2.cells.size := hext0.mono
  have hcells : s2.cells = s.cells ++ s2.cells.extract s.cells.size s2.cells.size :=
    prefix_append hsz2 (fun i hi => hext0.keep i hi hi)
  have hf := hext0.frame
  refine append_wfq _ hwf hcells hf.1 hf.2.2.1 ?_ ?_ ?_ ?_
  · intro j hj1 hj2
    by_cases hjh : j < s1.cells.size
    · -- a cell of the index list: now a map entry
      obtain ⟨o, n', hc', _, _⟩ := hinv.done j (by omega) hjh
      have hsh : shape s2.cells j = none := neverNode_shape hc' rfl
      exact ⟨nodeOKq_of_none hsh, by simp [listOK, hc'], by simp [headerOK, hc']⟩
    · obtain ⟨g1, g2, g3⟩ := freshOK_local hretle (by omega) (hinv.fresh hpre j (by omega) hj2)
      refine ⟨?_, g2, g3⟩
      obtain ⟨c, hc⟩ : ∃ c, s2.cells[j]? = some c := ⟨s2.cells[j], by simp [hj2]⟩
      by_cases hcsv : isSV c = true
      · cases c <;> simp [isSV] at hcsv
        · rename_i p' v'
          have hsh : shape s2.cells j = some ⟨.value 0 0, [], [p', v']⟩ := shape_of_solo hc rfl
          simp only [nodeOK, hsh, List.all_eq_true, Bool.and_eq_true, decide_eq_true_eq] at g1
          simp only [nodeOKq, hc, Bool.and_eq_true, decide_eq_true_eq]
          refine ⟨⟨(g1 p' (by simp)).1, ?_⟩, (g1 v' (by simp)).2⟩
          rcases hprov.chain hwf.chain hinv.agree0 (by omega) hc with ⟨_, h⟩ | ⟨_, _, h⟩
          · exact h
          · simpa using h
        · rename_i v'
          have hsh : shape s2.cells j = some ⟨.valueRoot 0, [], [v']⟩ := shape_of_solo hc rfl
          simp only [nodeOK, hsh, List.all_eq_true, Bool.and_eq_true, decide_eq_true_eq] at g1
          simp only [nodeOKq, hc]
          exact (g1 v' (by simp)).2
      · rw [nodeOKq_of_cell hc (by simpa using hcsv)]; exact g1
  · rw [hf.2.2.2.2.1, hcells]; exact headOK_appendq hwf _ hwf.reg
  · rw [hf.2.2.2.1, hcells]; exact headSV_append _ hwf.val
  · rw [hf.2.2.2.2.2, hcells]; exact headOK_appendq hwf _ hwf.frm

end Garnish.BasicOpt
