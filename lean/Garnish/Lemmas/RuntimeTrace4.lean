/-
Trace half of the step simulation, part 4 (mirrors Lemmas/RuntimeStep4.lean): none of these instructions calls the
host on either side.
-/
import Garnish.Lemmas.RuntimeTrace3
set_option linter.unusedSimpArgs false
set_option linter.unusedVariables false
namespace Garnish.Lemmas.Runtime
open Garnish Gen Garnish.Abs Garnish.Model.Equality Garnish.Model.Runtime Garnish.Props.RuntimeRefine

variable {F σ : Type} {S : RStore F σ} {P : Prog F} {host : Host F} (fo : FloatOps F)

/-- `Invalid`: nothing happens -/
theorem stepTrace_invalid (L : StoreLaws S) (fuel : Nat) (H : OtherHandlers σ) {s : σ} {m : MState F}
    (hsim : Sim S P s m) {operand : Option Nat} (hfetch : P.instrs[m.pc]? = some (.invalid, operand)) :
    StepTrace fo host S P fuel H s m := by
  refine stepTrace_of fo L fuel H hsim hfetch (r := .ok (m, m.pc + 1)) (by unfold Abs.step; rw [hfetch]; rfl) ?_
  exact handlerTrace_quiet (fun next s1 h => by cases h; exact ⟨rfl, fun _ _ x => x⟩) rfl

/-- `Put k`: the constant's own address -/
theorem stepTrace_put (L : StoreLaws S) (fuel : Nat) (H : OtherHandlers σ) {s : σ} {m : MState F}
    (hsim : Sim S P s m) {k : Nat} {v : Val F} (hfetch : P.instrs[m.pc]? = some (.put, some k))
    (hc : P.consts[k]? = some v) (hk : k < S.dataLen s) (hdv : Decodes (S.view s) k v) :
    StepTrace fo host S P fuel H s m := by
  refine stepTrace_of fo L fuel H hsim hfetch (r := .ok ({ m with regs := v :: m.regs }, m.pc + 1))
    (by unfold Abs.step; rw [hfetch]; simp only [hc]; rfl) ?_
  have h := C06_refine_put L k s
  simp only [hk, if_true] at h
  obtain ⟨s1, h1, e1⟩ := h
  exact handlerTrace_ofEff hsim.2 (md := { m with regs := v :: m.regs }) h1 e1
    (.cons (e1.dec hdv) (Sim.tail e1 hsim.2.regs)) (Sim.tail e1 hsim.2.vals) rfl (by simp [hsim.1])

/-- `PutValue` -/
theorem stepTrace_putValue (L : StoreLaws S) (fuel : Nat) (H : OtherHandlers σ) {s : σ} {m : MState F}
    (hsim : Sim S P s m) {operand : Option Nat} (hfetch : P.instrs[m.pc]? = some (.putValue, operand)) :
    StepTrace fo host S P fuel H s m := by
  have h := C06_refine_put_value L s
  have hv := hsim.2.vals
  cases hmv : m.vals with
  | nil =>
    rw [hmv] at hv
    cases hsv : S.vals s with
    | cons _ _ => rw [hsv] at hv; cases hv
    | nil =>
      rw [hsv] at h
      obtain ⟨a, s1, h1, d1, e1⟩ := h
      refine stepTrace_of fo L fuel H hsim hfetch (r := .ok ({ m with regs := .unit :: m.regs }, m.pc + 1))
        (by unfold Abs.step; rw [hfetch]; simp only [hmv]; rfl) ?_
      exact handlerTrace_ofEff hsim.2 (md := { m with regs := .unit :: m.regs }) h1 e1
        (.cons d1 (Sim.tail e1 hsim.2.regs)) (Sim.tail e1 hsim.2.vals) rfl (by simp [hsim.1])
  | cons v vs =>
    rw [hmv] at hv
    obtain ⟨a, as, hsv, da, _⟩ := decodesList_cons_inv hv
    rw [hsv] at h
    obtain ⟨s1, h1, e1⟩ := h
    refine stepTrace_of fo L fuel H hsim hfetch (r := .ok ({ m with regs := v :: m.regs }, m.pc + 1))
      (by unfold Abs.step; rw [hfetch]; simp only [hmv]; rfl) ?_
    exact handlerTrace_ofEff hsim.2 (md := { m with regs := v :: m.regs }) h1 e1
      (.cons (e1.dec da) (Sim.tail e1 hsim.2.regs)) (hsv ▸ Sim.tail e1 hsim.2.vals) rfl (by simp [hsim.1])

/-- `PushValue` -/
theorem stepTrace_pushValue (L : StoreLaws S) (fuel : Nat) (H : OtherHandlers σ) {s : σ} {m : MState F}
    (hsim : Sim S P s m) {operand : Option Nat} (hfetch : P.instrs[m.pc]? = some (.pushValue, operand))
    {v : Val F} {rs : List (Val F)} (hregs : m.regs = v :: rs) : StepTrace fo host S P fuel H s m := by
  have hr := hsim.2.regs
  rw [hregs] at hr
  obtain ⟨a, rest, hsr, da, t⟩ := decodesList_cons_inv hr
  obtain ⟨s1, h1, e1⟩ := C06_refine_push_value L hsr
  refine stepTrace_of fo L fuel H hsim hfetch (r := .ok ({ m with regs := rs, vals := v :: m.vals }, m.pc + 1))
    (by unfold Abs.step; rw [hfetch]; simp only [hregs]; rfl) ?_
  exact handlerTrace_ofEff hsim.2 (md := { m with regs := rs, vals := v :: m.vals }) h1 e1
    (Sim.tail e1 t) (.cons (e1.dec da) (Sim.tail e1 hsim.2.vals)) rfl (by simp [hsim.1])

/-- `UpdateValue` -/
theorem stepTrace_updateValue (L : StoreLaws S) (fuel : Nat) (H : OtherHandlers σ) {s : σ} {m : MState F}
    (hsim : Sim S P s m) {operand : Option Nat} (hfetch : P.instrs[m.pc]? = some (.updateValue, operand))
    {v x : Val F} {rs vs : List (Val F)} (hregs : m.regs = v :: rs) (hvals : m.vals = x :: vs) :
    StepTrace fo host S P fuel H s m := by
  have hr := hsim.2.regs
  rw [hregs] at hr
  obtain ⟨a, rest, hsr, da, t⟩ := decodesList_cons_inv hr
  have hv := hsim.2.vals
  rw [hvals] at hv
  obtain ⟨b, bs, hsv, _, tv⟩ := decodesList_cons_inv hv
  have h := C06_refine_update_value L hsr
  rw [hsv] at h
  obtain ⟨s1, h1, e1⟩ := h
  refine stepTrace_of fo L fuel H hsim hfetch (r := .ok ({ m with regs := rs, vals := v :: vs }, m.pc + 1))
    (by unfold Abs.step; rw [hfetch]; simp only [hregs, hvals]; rfl) ?_
  exact handlerTrace_ofEff hsim.2 (md := { m with regs := rs, vals := v :: vs }) h1 e1
    (Sim.tail e1 t) (.cons (e1.dec da) (Sim.tail e1 tv)) rfl (by simp [hsim.1])

/-- `StartSideEffect` -/
theorem stepTrace_startSideEffect (L : StoreLaws S) (fuel : Nat) (H : OtherHandlers σ) {s : σ} {m : MState F}
    (hsim : Sim S P s m) {operand : Option Nat} (hfetch : P.instrs[m.pc]? = some (.startSideEffect, operand)) :
    StepTrace fo host S P fuel H s m := by
  have h := C06_refine_start_side_effect L s
  have hv := hsim.2.vals
  cases hmv : m.vals with
  | nil =>
    rw [hmv] at hv
    cases hsv : S.vals s with
    | cons _ _ => rw [hsv] at hv; cases hv
    | nil =>
      rw [hsv] at h
      obtain ⟨a, s1, h1, d1, e1⟩ := h
      refine stepTrace_of fo L fuel H hsim hfetch (r := .ok ({ m with vals := [.unit] }, m.pc + 1))
        (by unfold Abs.step; rw [hfetch]; simp only [hmv]; rfl) ?_
      exact handlerTrace_ofEff hsim.2 (md := { m with vals := [.unit] }) h1 e1
        (Sim.tail e1 hsim.2.regs) (.cons d1 .nil) rfl (by simp [hsim.1])
  | cons v vs =>
    rw [hmv] at hv
    obtain ⟨a, as, hsv, da, ta⟩ := decodesList_cons_inv hv
    rw [hsv] at h
    obtain ⟨s1, h1, e1⟩ := h
    refine stepTrace_of fo L fuel H hsim hfetch (r := .ok ({ m with vals := v :: v :: vs }, m.pc + 1))
      (by unfold Abs.step; rw [hfetch]; simp only [hmv]; rfl) ?_
    exact handlerTrace_ofEff hsim.2 (md := { m with vals := v :: v :: vs }) h1 e1
      (Sim.tail e1 hsim.2.regs) (.cons (e1.dec da) (.cons (e1.dec da) (Sim.tail e1 ta))) rfl (by simp [hsim.1])

/-- `EndSideEffect` -/
theorem stepTrace_endSideEffect (L : StoreLaws S) (fuel : Nat) (H : OtherHandlers σ) {s : σ} {m : MState F}
    (hsim : Sim S P s m) {operand : Option Nat} (hfetch : P.instrs[m.pc]? = some (.endSideEffect, operand))
    {v x : Val F} {rs vs : List (Val F)} (hregs : m.regs = v :: rs) (hvals : m.vals = x :: vs) :
    StepTrace fo host S P fuel H s m := by
  have hr := hsim.2.regs
  rw [hregs] at hr
  obtain ⟨a, rest, hsr, _, t⟩ := decodesList_cons_inv hr
  have hv := hsim.2.vals
  rw [hvals] at hv
  obtain ⟨b, bs, hsv, _, tv⟩ := decodesList_cons_inv hv
  have h := C06_refine_end_side_effect L s
  rw [hsv, hsr] at h
  obtain ⟨s1, h1, e1⟩ := h
  refine stepTrace_of fo L fuel H hsim hfetch (r := .ok ({ m with vals := vs, regs := rs }, m.pc + 1))
    (by unfold Abs.step; rw [hfetch]; simp only [hregs, hvals]; rfl) ?_
  exact handlerTrace_ofEff hsim.2 (md := { m with vals := vs, regs := rs }) h1 e1
    (Sim.tail e1 t) (Sim.tail e1 tv) rfl (by simp [hsim.1])

/-- `MakePair`: the left component is on top -/
theorem stepTrace_makePair (L : StoreLaws S) (fuel : Nat) (H : OtherHandlers σ) {s : σ} {m : MState F}
    (hsim : Sim S P s m) {operand : Option Nat} (hfetch : P.instrs[m.pc]? = some (.makePair, operand))
    {vl vr : Val F} {rs : List (Val F)} (hregs : m.regs = vl :: vr :: rs) : StepTrace fo host S P fuel H s m := by
  have hr := hsim.2.regs
  rw [hregs] at hr
  obtain ⟨l, as1, e1, dl, t1⟩ := decodesList_cons_inv hr
  obtain ⟨r, rest, e2, dr, t2⟩ := decodesList_cons_inv t1
  subst e2
  obtain ⟨a, s1, h1, d1, ef⟩ := C06_refine_make_pair L e1 dl dr
  refine stepTrace_of fo L fuel H hsim hfetch (r := .ok ({ m with regs := .pair vl vr :: rs }, m.pc + 1))
    (by unfold Abs.step; rw [hfetch]; simp only [hregs]; rfl) ?_
  exact handlerTrace_ofEff hsim.2 (md := { m with regs := .pair vl vr :: rs }) h1 ef
    (.cons d1 (Sim.tail ef t2)) (Sim.tail ef hsim.2.vals) rfl (by simp [hsim.1])

/-- `MakeList n` -/
theorem stepTrace_makeList (L : StoreLaws S) (fuel : Nat) (H : OtherHandlers σ) {s : σ} {m : MState F}
    (hsim : Sim S P s m) {n : Nat} (hfetch : P.instrs[m.pc]? = some (.makeList, some n))
    (hn : n ≤ m.regs.length) : StepTrace fo host S P fuel H s m := by
  have hlen := EqualityRefine.decodesList_length hsim.2.regs
  obtain ⟨a, s1, h1, d1, e1⟩ := C16_refine_make_list_machine L n (m.regs.take n) (by omega)
    (decodesList_take n hsim.2.regs)
  refine stepTrace_of fo L fuel H hsim hfetch
    (r := .ok ({ m with regs := .list (m.regs.take n).reverse :: m.regs.drop n }, m.pc + 1))
    (by unfold Abs.step; rw [hfetch]; simp only [show ¬ n > m.regs.length by omega, if_false]; rfl) ?_
  exact handlerTrace_ofEff hsim.2 (md := { m with regs := .list (m.regs.take n).reverse :: m.regs.drop n }) h1 e1
    (.cons d1 (Sim.tail e1 (decodesList_drop n hsim.2.regs))) (Sim.tail e1 hsim.2.vals) rfl (by simp [hsim.1])

end Garnish.Lemmas.Runtime
