/-
The elaboration of a reference-grammar tree (Spec/RefParse.lean `RTree`, as `refParse` returns it and as
`toRG (dfOf r.nodes) t` / `treeToRG r t` reads it off the node array of `parse`) into the abstract program of
Abs/Compile.lean.

`elabWith pf κ toks t`: one bottom-up pass (`go`).  A node is read by its definition and by which children it has:
  no child      value nodes — unit / true / false, number / text / byte list (Model/Literals on the text of token `tok` of
                `toks`, with the same float parser `pf` as `build`), symbol, property, `$`, identifier
  right only    prefix operators (table of `handle_parse_node`), `^~`, prefix identifier application;
                a VALUE node whose right child is a `SideEffect` node without left child: `v [ body ]`, the side-effect block
                after a value (`.sideAfter v body`)
  left only     suffix operators, suffix identifier application
  both          binary operators, `=`, `~>`, blank line / `;`, `List` / `CommaList` (a left spine of nodes of the same
                definition is ONE list), `?>` / `!>`, `|>` (a left spine is ONE else-chain; a conditional as the right
                child of the top `|>` is its last arm, anything else its final arm), `&&`, `||`, infix identifier application
  ( … )         transparent;   { }  the empty nested expression;   { body }  `.nested (κ tok)` and the body `(κ tok, body)`
                in the table of bodies (`κ`: how bodies are named, from the position of their `{`).
`none` — exactly what `Abs.Tree.Rep` cannot represent:
  * side-effect blocks anywhere but directly after a literal / `$` / identifier: `[b] v` (the block is the LEFT child of the
    value), `(e) [b]` and `v [b] [c]` (the builder never looks at the `left` of a SideEffect node: the group content / the
    first block is not compiled), `[ ]` without body; the expression terminator, Unknown / Drop nodes;
  * an operator with a missing operand (leading / trailing `,`, leading infix identifier, a separator without operand);
  * a value node whose text does not parse (number out of range, bad escape, …);
  * a conditional or else-chain as the DIRECT left operand of `&&` / `||` or as direct final arm of an else-chain
    (`a ?> b |> c |> d`), a `|>` whose left operand is neither a conditional nor a chain of conditionals (`5 |> 6`);
  * a list node as the direct right child of a list node of the same definition;
  * two bodies with the same name, or a body named `0` (the name of the program itself).
`elabSrc` names the bodies 1, 2, … in source order (the numbering of the generator, tools/gen/proggen.py `Numbering`);
`elaborate` (`elab` is a Lean keyword) names them by the jump entries `compile` gives them (what `C01.WFProgram` asks for).
-/
import Garnish.Spec.RefParse
import Garnish.Lemmas.CompileTree
namespace Garnish.Abs.Source
open Garnish Garnish.Gen Garnish.Spec Garnish.Abs Garnish.Abs.Tree Garnish.Model.Parser Garnish.Model.Literals

variable {F : Type}

/-- what `go` knows about a subtree -/
structure Res (F : Type) where
  e : Expr F
  /-- the bodies of the nested expressions in the subtree, in source order -/
  bodies : List (Nat × Expr F)
  /-- root = list node: its items -/
  items : List (Expr F)
  /-- root = conditional: this arm; root = `|>` over conditionals only: the arms -/
  arms : List (Bool × Expr F × Expr F)

def rootDef : RTree → Option Definition
  | .nil => none
  | .node _ d _ _ => some d
  | .group d _ _ => some d

def rootIs (t : RTree) (d : Definition) : Bool := rootDef t == some d

def rootCond (t : RTree) : Bool :=
  match rootDef t with
  | some d => condDef d
  | none => false

def textAt (toks : List PToken) (k : Nat) : List Char :=
  match toks[k]? with
  | some t => t.text
  | none => []

variable (pf : List Char → Option F)

/-- a value node -/
def leafE (d : Definition) (text : List Char) : Option (Expr F) :=
  match d with
  | .unit => some (.lit .unit)
  | .true => some (.lit .tru)
  | .false => some (.lit .fls)
  | .number => match parseSimpleNumber pf text with
    | .ok n => some (.lit (.num n))
    | _ => none
  | .charList => match parseCharList pf text with
    | .ok cs => some (.lit (.chars (cs.map Char.toNat)))
    | _ => none
  | .byteList => match parseByteList pf text with
    | .ok bs => some (.lit (.bytes bs))
    | _ => none
  | .symbol => match dropFirstByte text with
    | some rest => some (.lit (.sym (parseSymbol rest)))
    | none => none
  | .property => some (.lit (.sym (parseSymbol text)))
  | .value => some .input
  | .identifier => some (.ident (parseSymbol text))
  | _ => none

def plain (e : Expr F) (bodies : List (Nat × Expr F)) : Res F := ⟨e, bodies, [], []⟩

/-- a node with only a right child -/
def preE (d : Definition) (text : List Char) (x : Res F) : Option (Res F) :=
  match prefixOp d with
  | some op => some (plain (.unary op x.e) x.bodies)
  | none =>
    if d == .reapply then some (plain (.reapply x.e) x.bodies)
    else if d == .prefixApply then some (plain (.prefixApply (parseSymbol (trimMatches '`' text)) x.e) x.bodies)
    else none

/-- a node with only a left child -/
def sufE (d : Definition) (text : List Char) (x : Res F) : Option (Res F) :=
  match suffixOp d with
  | some op => some (plain (.unary op x.e) x.bodies)
  | none =>
    if d == .suffixApply then some (plain (.suffixApply x.e (parseSymbol (trimMatches '`' text))) x.bodies)
    else none

/-- a node with both children; `lIs` / `rIs`: the definition of the child's root is that of this node, `lC` / `rC`: the
child's root is a conditional or `|>` node, `rJ`: the right child's root is a conditional -/
def binE (d : Definition) (text : List Char) (lIs rIs lC rC rJ : Bool) (a b : Res F) : Option (Res F) :=
  let bs := a.bodies ++ b.bodies
  match binOp d with
  | some op => some (plain (.binary op a.e b.e) bs)
  | none =>
    match d with
    | .pair => some (plain (.pair a.e b.e) bs)
    | .applyTo => some (plain (.applyTo a.e b.e) bs)
    | .subexpression => some (plain (.seq a.e b.e) bs)
    | .expressionSeparator => some (plain (.seq a.e b.e) bs)
    | .infixApply => some (plain (.infixApply a.e (parseSymbol (trimMatches '`' text)) b.e) bs)
    | .list | .commaList =>
      if rIs then none
      else if lIs then
        match a.items with
        | [] => none
        | it :: its => some ⟨.list ((it :: its) ++ [b.e]), bs, (it :: its) ++ [b.e], []⟩
      else some ⟨.list [a.e, b.e], bs, [a.e, b.e], []⟩
    | .jumpIfTrue => some ⟨.cond true a.e b.e, bs, [], [(true, a.e, b.e)]⟩
    | .jumpIfFalse => some ⟨.cond false a.e b.e, bs, [], [(false, a.e, b.e)]⟩
    | .and => if lC then none else some (plain (.and a.e b.e) bs)
    | .or => if lC then none else some (plain (.or a.e b.e) bs)
    | .elseJump =>
      match a.arms with
      | [] => none
      | arm :: arms =>
        if rJ then
          match b.arms with
          | [last] => some ⟨.chain ((arm :: arms) ++ [last]) none, bs, [], (arm :: arms) ++ [last]⟩
          | _ => none
        else if rC then none
        else some (plain (.chain (arm :: arms) (some b.e)) bs)
    | _ => none

def isJumpIf (t : RTree) : Bool := rootIs t .jumpIfTrue || rootIs t .jumpIfFalse

variable (κ : Nat → Nat) (toks : List PToken)

def go : RTree → Option (Res F)
  | .nil => none
  | .group d k inner =>
    if d == .group then
      match go inner with
      | some x => some (plain x.e x.bodies)
      | none => none
    else if d == .nestedExpression then
      match inner with
      | .nil => some (plain .emptyNested [])
      | _ =>
        match go inner with
        | some x => some (plain (.nested (κ k)) ((κ k, x.e) :: x.bodies))
        | none => none
    else none
  | .node .nil d k .nil => (leafE pf d (textAt toks k)).map (fun e => plain e [])
  | .node .nil d k (.node .nil d2 k2 body) =>
    if d2 == .sideEffect then
      -- `v [ body ]`: a value node over a SideEffect node over the body
      match leafE pf d (textAt toks k), go body with
      | some e, some x => some (plain (.sideAfter e x.e) x.bodies)
      | _, _ => none
    else
      match go (.node .nil d2 k2 body) with
      | some x => preE d (textAt toks k) x
      | none => none
  | .node .nil d k r =>
    match go r with
    | some x => preE d (textAt toks k) x
    | none => none
  | .node l d k .nil =>
    match go l with
    | some x => sufE d (textAt toks k) x
    | none => none
  | .node l d k r =>
    match go l, go r with
    | some a, some b => binE d (textAt toks k) (rootIs l d) (rootIs r d) (rootCond l) (rootCond r) (isJumpIf r) a b
    | _, _ => none

def nodupB : List Nat → Bool
  | [] => true
  | a :: l => !l.contains a && nodupB l

def idsOK (ids : List Nat) : Bool := !ids.contains 0 && nodupB ids

/-- the program of a reference tree, bodies named by `κ` -/
def elabWith (t : RTree) : Option (Program F) :=
  match go pf κ toks t with
  | some x => if idsOK (x.bodies.map (·.1)) then some { main := x.e, bodies := (0, x.e) :: x.bodies } else none
  | none => none

/-- the reference tree read off a node array along an index tree (`toRG (dfOf nodes)` of Lemmas/ParserB8.lean, restated here
so that the driver need not import the parser proofs; `treeRT_eq`, Lemmas/SourceRep2.lean) -/
def treeRT (nodes : Array ParseNode) : Spec.Tree → RTree
  | .nil => .nil
  | .node l i k r =>
    let d := ((nodes[i]?).map (·.definition)).getD .drop
    if d == .group || d == .nestedExpression then .group d k (treeRT nodes r) else .node (treeRT nodes l) d k (treeRT nodes r)

/-- the positions of the `{` of the non-empty nested expressions, in source order -/
def braces : RTree → List Nat
  | .nil => []
  | .node l _ _ r => braces l ++ braces r
  | .group d k inner => (if d == .nestedExpression && !inner.isNil then [k] else []) ++ braces inner

/-- source order: 1, 2, … -/
def srcName (t : RTree) (k : Nat) : Nat := (braces t).idxOf k + 1

/-- **the elaboration with the bodies numbered in source order** (the AST of the generator) -/
def elabSrc (t : RTree) : Option (Program F) := elabWith pf (srcName t) toks t

/-- the names `compile` gives: body `id` of `p` is laid out as the root that patches jump entry `canonName p id` -/
def canonName (p : Program F) (id : Nat) : Nat :=
  let ids := (compileState Prog.empty p).done.filterMap (fun r =>
    match r.kind with
    | .ref i => some (i, r.patch)
    | .code _ => none)
  ((ids.find? (fun q => q.1 == id)).map (·.2)).getD id

/-- **the elaboration**: bodies named by their jump entries -/
def elaborate (t : RTree) : Option (Program F) :=
  match elabSrc pf toks t with
  | some p0 => elabWith pf (fun k => canonName p0 (srcName t k)) toks t
  | none => none

end Garnish.Abs.Source
