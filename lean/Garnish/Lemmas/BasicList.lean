/-
Totality of list construction on `BasicGarnishData`: `start_list(n)`, exactly `n` × `add_to_list`, `end_list` — the
protocol that respects the announced length — answers `Ok` whenever the store has room to grow (`Fits`), the items are
existing addresses whose pair keys exist, and the data block ends inside the heap (`LayoutOK`, the condition of
`end_list`'s slice `&mut data[start .. start + len]`).
-/
import Garnish.Lemmas.BasicLaws11
set_option linter.unusedSimpArgs false
set_option linter.unusedVariables false
set_option maxHeartbeats 2000000
namespace Garnish.Lemmas.Runtime.Basic
open Garnish Gen Garnish.Model.Equality Garnish.Model.Runtime Garnish.Model.Runtime.Basic Garnish.BasicOpt
open Garnish.Lemmas.Runtime Garnish.Lemmas.EqualityRefine

/-- the data block ends inside the heap (the custom block follows it) -/
def LayoutOK (s : Store) : Prop := s.start + s.size ≤ s.custom.start + s.custom.size

instance (s : Store) : Decidable (LayoutOK s) := by unfold LayoutOK; infer_instance

theorem layout_fresh : LayoutOK Store.fresh := by decide

/-- positions of the block under construction hold a cell -/
theorem exp_some (base : Array Cell) (items : List Nat) (j p : Nat) (h1 : base.size ≤ p)
    (h2 : p ≤ base.size + 2 * items.length) : ∃ c, expCell base items j p = some c := by
  unfold expCell
  rw [if_neg (by omega)]
  simp only
  by_cases h3 : p - base.size = 0
  · rw [if_pos h3]; exact ⟨_, rfl⟩
  · rw [if_neg h3]
    by_cases h4 : p - base.size ≤ items.length
    · rw [if_pos h4]; exact ⟨_, rfl⟩
    · rw [if_neg h4, if_pos (by omega)]; exact ⟨_, rfl⟩

theorem exp_lt {base : Array Cell} {items : List Nat} {cur : Store} {j : Nat}
    (hinv : ∀ p, cur.cells[p]? = expCell base items j p) {p : Nat} (h1 : base.size ≤ p)
    (h2 : p ≤ base.size + 2 * items.length) : p < cur.cells.size := by
  obtain ⟨c, hc⟩ := exp_some base items j p h1 h2
  exact cell_lt (by rw [hinv p]; exact hc)

theorem setCell_ok {s : Store} {i : Nat} (c : Cell) (hi : i < s.cells.size) :
    Store.setCell s i c = .ok { s with cells := s.cells.setIfInBounds i c } := by
  simp [Store.setCell, hi]

/-- **`add_to_list` answers `Ok`** while fewer than the announced number of items are there -/
theorem addToList_total {base : Array Cell} {items : List Nat} {cur : Store} {j a : Nat}
    (hinv : ∀ p, cur.cells[p]? = expCell base items j p) (hj : items[j]? = some a) (ha : a < base.size)
    (hpair : ∀ l r, base[a]? = some (Cell.pair l r) → l < base.size) :
    ∃ cur', Store.addToList cur base.size a = .ok cur' := by
  have hjn : j < items.length := by
    rcases Nat.lt_or_ge j items.length with h | h
    · exact h
    · rw [List.getElem?_eq_none h] at hj; cases hj
  have hli : cur.cells[base.size]? = some (.uninitializedList items.length j) := by
    rw [hinv]; simp [expCell]
  have hsz0 : base.size < cur.cells.size := exp_lt hinv (Nat.le_refl _) (by omega)
  have hsz1 : base.size + 1 + j < cur.cells.size := exp_lt hinv (by omega) (by omega)
  have hsz2 : base.size + 1 + j + items.length < cur.cells.size := exp_lt hinv (by omega) (by omega)
  have hold : ∀ p, p < base.size → cur.cells[p]? = base[p]? := fun p hp => by rw [hinv p, expCell_base hp]
  -- the two writes
  let s1 : Store := { cur with cells := cur.cells.setIfInBounds base.size (.uninitializedList items.length (j + 1)) }
  let s2 : Store := { s1 with cells := s1.cells.setIfInBounds (base.size + 1 + j) (.listItem a) }
  have h1 : Store.setCell cur base.size (.uninitializedList items.length (j + 1)) = .ok s1 := setCell_ok _ hsz0
  have hs1 : s1.cells.size = cur.cells.size := by simp [s1]
  have h2 : Store.setCell s1 (base.size + 1 + j) (.listItem a) = .ok s2 := setCell_ok _ (by rw [hs1]; exact hsz1)
  have hs2 : s2.cells.size = cur.cells.size := by simp [s2, s1]
  have hold2 : ∀ p, p < base.size → s2.cells[p]? = base[p]? := by
    intro p hp
    show ((cur.cells.setIfInBounds base.size _).setIfInBounds (base.size + 1 + j) _)[p]? = _
    rw [Array.getElem?_setIfInBounds, if_neg (by omega), Array.getElem?_setIfInBounds, if_neg (by omega)]
    exact hold p hp
  obtain ⟨ca, hca⟩ : ∃ c, base[a]? = some c := ⟨base[a], by simp [ha]⟩
  have hga : s2.get a = .ok ca := by simp [Store.get, hold2 a ha, hca]
  have hstep : Store.addToList cur base.size a =
      (match ca with
       | .pair l r => (s2.get l).bind fun cl =>
           match cl with
           | .symbol sym => Store.setCell s2 (base.size + 1 + j + items.length) (.associativeItem sym r)
           | _ => .ok s2
       | _ => .ok s2) := by
    simp only [Store.addToList, bind, Outcome.bind, Store.get, hli, h1, h2]
    rw [if_neg (by omega)]
    simp only [Store.get] at hga
    cases ca <;> simp only [hold2 a ha, hca] <;> rfl
  rw [hstep]
  cases ca <;> try exact ⟨_, rfl⟩
  rename_i l r
  have hl := hpair l r hca
  obtain ⟨cl, hcl⟩ : ∃ c, base[l]? = some c := ⟨base[l], by simp [hl]⟩
  have hgl : s2.get l = .ok cl := by simp [Store.get, hold2 l hl, hcl]
  simp only [hgl, Outcome.bind]
  cases cl <;> try exact ⟨_, rfl⟩
  exact ⟨_, setCell_ok _ (by rw [hs2]; exact hsz2)⟩

/-- the adds of a whole announced list answer `Ok` -/
theorem addAll_total {base : Array Cell} {items : List Nat}
    (hpair : ∀ a ∈ items, ∀ l r, base[a]? = some (Cell.pair l r) → l < base.size) :
    ∀ (rest : List Nat) (j : Nat) (cur : Store), items.drop j = rest →
      (∀ p, cur.cells[p]? = expCell base items j p) → (∀ a ∈ rest, a < base.size) →
      ∃ cur', rest.foldlM (fun s a => Store.addToList s base.size a) cur = .ok cur'
  | [], _, cur, _, _, _ => ⟨cur, rfl⟩
  | a :: rest, j, cur, hdrop, hinv, hlt => by
    have hj : items[j]? = some a := by
      have := congrArg (fun l => l[0]?) hdrop
      simpa using this
    have hmem : a ∈ items := List.mem_of_getElem? hj
    obtain ⟨c1, h1⟩ := addToList_total hinv hj (hlt a (by simp)) (hpair a hmem)
    obtain ⟨hinv1, _⟩ := addToList_exp hinv hj (hlt a (by simp)) h1
    have hdrop1 : items.drop (j + 1) = rest := by
      have := congrArg List.tail hdrop
      simpa using this
    obtain ⟨c2, h2⟩ := addAll_total hpair rest (j + 1) c1 hdrop1 hinv1 (fun x hx => hlt x (by simp [hx]))
    exact ⟨c2, by simp [List.foldlM, bind, Outcome.bind, h1, h2]⟩

end Garnish.Lemmas.Runtime.Basic
