/-
`WF` preservation for list construction: `start_list`, `add_to_list` for every item, `end_list` with its sorted
key table (`Store.buildList`).
-/
import Garnish.Lemmas.OptimizeOps2
set_option maxHeartbeats 2000000
namespace Garnish.BasicOpt
open Garnish

/-- the key-table slot `add_to_list` writes for an item: `AssociativeItem(sym, right)` when the item is a pair whose
left is a symbol, otherwise the slot stays `Empty` -/
def assocOf (cells : Array Cell) (a : Nat) : Cell :=
  match cells[a]? with
  | some (.pair l r) =>
    (match cells[l]? with
     | some (.symbol sym) => .associativeItem sym r
     | _ => .empty)
  | _ => .empty

/-- the cell expected at position `p` after `j` of the items have been added -/
def expCell (base : Array Cell) (items : List Nat) (j p : Nat) : Option Cell :=
  if p < base.size then base[p]? else
  let t := p - base.size
  if t = 0 then some (.uninitializedList items.length j)
  else if t ≤ items.length then
    some (if t - 1 < j then (match items[t - 1]? with | some a => .listItem a | none => .empty) else .empty)
  else if t ≤ 2 * items.length then
    some (if t - 1 - items.length < j then
      (match items[t - 1 - items.length]? with | some a => assocOf base a | none => .empty) else .empty)
  else none

theorem startList_spec {s s' : Store} {n li : Nat} (h : Store.startList s n = .ok (s', li)) :
    li = s.cells.size ∧ s'.cells = s.cells ++ (#[Cell.uninitializedList n 0] ++ (List.replicate (n * 2) Cell.empty).toArray) ∧
      SameFrame s s' := by
  simp only [Store.startList, bind_eq_ok, pure_eq_ok, Prod.mk.injEq] at h
  obtain ⟨⟨s1, i⟩, hp, s2, hall, hs2, hi⟩ := h
  subst hs2; subst hi
  obtain ⟨hi, hc1, hf1⟩ := push_ok hp
  obtain ⟨hc2, hf2⟩ := pushAll_spec _ _ _ hall
  exact ⟨hi, by rw [hc2, hc1]; apply Array.ext'; simp, hf1.trans hf2⟩

theorem startList_exp {s s' : Store} {items : List Nat} {li : Nat}
    (h : Store.startList s items.length = .ok (s', li)) : ∀ p, s'.cells[p]? = expCell s.cells items 0 p := by
  obtain ⟨_, hc, _⟩ := startList_spec h
  intro p
  have hl : s'.cells.toList = s.cells.toList ++ (Cell.uninitializedList items.length 0 ::
      List.replicate (items.length * 2) Cell.empty) := by rw [hc]; simp
  rw [← Array.getElem?_toList, hl]
  unfold expCell
  by_cases hp : p < s.cells.size
  · rw [List.getElem?_append_left (by simpa using hp)]
    simp [hp]
  · simp only [hp, if_false]
    rw [List.getElem?_append_right (by simpa using Nat.le_of_not_lt hp)]
    simp only [Array.length_toList]
    by_cases ht : p - s.cells.size = 0
    · simp [ht]
    · obtain ⟨t, hte⟩ : ∃ t, p - s.cells.size = t + 1 := ⟨p - s.cells.size - 1, by omega⟩
      rw [hte]
      simp only [List.getElem?_cons_succ, List.getElem?_replicate, Nat.add_one_ne_zero, if_false, Nat.not_lt_zero,
        Nat.add_sub_cancel]
      by_cases h1 : t + 1 ≤ items.length
      · have : t < items.length * 2 := by omega
        simp [h1, this]
      · by_cases h2 : t + 1 ≤ 2 * items.length
        · have : t < items.length * 2 := by omega
          simp [h1, h2, this]
        · have : ¬ t < items.length * 2 := by omega
          simp [h1, h2, this]

theorem setCell_get {s s' : Store} {i : Nat} {c : Cell} (h : Store.setCell s i c = .ok s') :
    (∀ p, s'.cells[p]? = if p = i then some c else s.cells[p]?) ∧ s'.cells.size = s.cells.size ∧ SameFrame s s' := by
  obtain ⟨hi, hc, hf⟩ := setCell_cells h
  refine ⟨?_, by rw [hc]; simp, hf⟩
  intro p
  rw [hc, Array.getElem?_setIfInBounds]
  by_cases hp : p = i
  · subst hp; simp [hi]
  · have : ¬ i = p := fun h => hp h.symm
    simp [hp, this]

theorem expCell_base {base : Array Cell} {items : List Nat} {j p : Nat} (hp : p < base.size) :
    expCell base items j p = base[p]? := by simp [expCell, hp]

theorem expCell_not_symbol {base : Array Cell} {items : List Nat} {j p sym : Nat} (hp : base.size ≤ p) :
    expCell base items j p ≠ some (.symbol sym) := by
  unfold expCell
  have : ¬ p < base.size := by omega
  simp only [this, if_false]
  intro h
  split at h
  · cases h
  · split at h
    · simp only [Option.some.injEq] at h
      split at h
      · split at h <;> cases h
      · cases h
    · split at h
      · simp only [Option.some.injEq] at h
        split at h
        · split at h
          · rename_i a _
            unfold assocOf at h
            split at h
            · split at h <;> cases h
            · cases h
          · cases h
        · cases h
      · cases h

/-- `add_to_list` for the `j`-th item -/
theorem addToList_exp {base : Array Cell} {items : List Nat} {cur cur' : Store} {j a : Nat}
    (hinv : ∀ p, cur.cells[p]? = expCell base items j p) (hj : items[j]? = some a) (ha : a < base.size)
    (h : Store.addToList cur base.size a = .ok cur') :
    (∀ p, cur'.cells[p]? = expCell base items (j + 1) p) ∧ SameFrame cur cur' := by
  have hjn : j < items.length := by
    rcases Nat.lt_or_ge j items.length with h | h
    · exact h
    · rw [List.getElem?_eq_none h] at hj; cases hj
  have hli : cur.cells[base.size]? = some (.uninitializedList items.length j) := by
    rw [hinv]; simp [expCell]
  simp only [Store.addToList, bind_eq_ok] at h
  obtain ⟨c0, hg0, h⟩ := h
  have := get_ok hg0
  rw [hli] at this
  simp only [Option.some.injEq] at this
  subst this
  simp only at h
  rw [if_neg (by omega)] at h
  simp only [bind_eq_ok] at h
  obtain ⟨c1, hs1, c2, hs2, citem, hgi, h⟩ := h
  obtain ⟨g1, _, f1⟩ := setCell_get hs1
  obtain ⟨g2, _, f2⟩ := setCell_get hs2
  have hc2 : ∀ p, c2.cells[p]? = if p = base.size + 1 + j then some (.listItem a)
      else if p = base.size then some (.uninitializedList items.length (j + 1)) else cur.cells[p]? := by
    intro p; rw [g2, g1]
  have hitem : base[a]? = some citem := by
    have := get_ok hgi
    rw [hc2, if_neg (by omega), if_neg (by omega), hinv, expCell_base ha] at this
    exact this
  -- the state before the optional key-table write, pointwise
  have hmid : ∀ p, p ≠ base.size + 1 + j + items.length → c2.cells[p]? = expCell base items (j + 1) p := by
    intro p hp
    rw [hc2]
    by_cases h1 : p = base.size + 1 + j
    · subst h1
      have e1 : ¬ base.size + 1 + j < base.size := by omega
      have e2 : base.size + 1 + j - base.size = j + 1 := by omega
      simp [expCell, e1, e2, hj, Nat.succ_le_of_lt hjn]
    · by_cases h2 : p = base.size
      · subst h2; simp [expCell, h1]
      · simp only [h1, h2, if_false, hinv]
        unfold expCell
        by_cases h3 : p < base.size
        · simp [h3]
        · simp only [h3, if_false]
          have ht : p - base.size ≠ 0 := by omega
          simp only [ht, if_false]
          by_cases h4 : p - base.size ≤ items.length
          · simp only [h4, if_true]
            have : (p - base.size - 1 < j) ↔ (p - base.size - 1 < j + 1) := by omega
            simp only [this]
          · simp only [h4, if_false]
            by_cases h5 : p - base.size ≤ 2 * items.length
            · simp only [h5, if_true]
              have : (p - base.size - 1 - items.length < j) ↔ (p - base.size - 1 - items.length < j + 1) := by omega
              simp only [this]
            · simp [h5]
  have hslot_old : c2.cells[base.size + 1 + j + items.length]? = some .empty := by
    rw [hc2, if_neg (by omega), if_neg (by omega), hinv]
    have e1 : ¬ base.size + 1 + j + items.length < base.size := by omega
    have e2 : base.size + 1 + j + items.length - base.size = j + 1 + items.length := by omega
    have e3 : ¬ j + 1 + items.length ≤ items.length := by omega
    have e4 : j + 1 + items.length ≤ 2 * items.length := by omega
    simp [expCell, e1, e2, e3, e4]
  have hslot_new : expCell base items (j + 1) (base.size + 1 + j + items.length) = some (assocOf base a) := by
    have e1 : ¬ base.size + 1 + j + items.length < base.size := by omega
    have e2 : base.size + 1 + j + items.length - base.size = j + 1 + items.length := by omega
    have e3 : ¬ j + 1 + items.length ≤ items.length := by omega
    have e4 : j + 1 + items.length ≤ 2 * items.length := by omega
    simp [expCell, e1, e2, e3, e4, hj]
  have noWrite : assocOf base a = .empty → c2 = cur' →
      (∀ p, cur'.cells[p]? = expCell base items (j + 1) p) ∧ SameFrame cur cur' := by
    intro hae hcc
    subst hcc
    refine ⟨fun p => ?_, f1.trans f2⟩
    by_cases hp : p = base.size + 1 + j + items.length
    · subst hp; rw [hslot_old, hslot_new, hae]
    · exact hmid p hp
  cases citem <;> simp only [pure_eq_ok] at h <;>
    first
      | exact noWrite (by simp [assocOf, hitem]) h
      | skip
  -- the item is a pair
  rename_i l r
  simp only [bind_eq_ok] at h
  obtain ⟨cl, hgl, h⟩ := h
  have hcl := get_ok hgl
  have hsym : ∀ sym, cl = .symbol sym → base[l]? = some (.symbol sym) := by
    intro sym hcs
    subst hcs
    by_cases hl : l < base.size
    · rw [hc2, if_neg (by omega), if_neg (by omega), hinv, expCell_base hl] at hcl; exact hcl
    · exfalso
      by_cases hl2 : l = base.size + 1 + j + items.length
      · subst hl2; rw [hslot_old] at hcl; cases hcl
      · rw [hmid l hl2] at hcl
        exact expCell_not_symbol (by omega) hcl
  cases cl <;> simp only [pure_eq_ok] at h <;>
    first
      | (refine noWrite ?_ h
         unfold assocOf
         rw [hitem]
         simp only
         cases hbl : base[l]? with
         | none => rfl
         | some d =>
           by_cases hl : l < base.size
           · have : c2.cells[l]? = base[l]? := by
               rw [hc2, if_neg (by omega), if_neg (by omega), hinv, expCell_base hl]
             rw [this, hbl] at hcl
             simp only [Option.some.injEq] at hcl
             subst hcl
             rfl
           · rw [Array.getElem?_eq_none (by omega)] at hbl; cases hbl)
      | skip
  -- left of the pair is a symbol: the key-table slot is written
  rename_i sym
  have hbl := hsym sym rfl
  obtain ⟨g3, _, f3⟩ := setCell_get h
  refine ⟨fun p => ?_, (f1.trans f2).trans f3⟩
  rw [g3]
  by_cases hp : p = base.size + 1 + j + items.length
  · subst hp
    simp only [if_true]
    rw [hslot_new]
    simp [assocOf, hitem, hbl]
  · simp only [hp, if_false]
    exact hmid p hp

theorem addAll_exp {base : Array Cell} {items : List Nat} : ∀ (rest : List Nat) (j : Nat) (cur cur' : Store),
    items.drop j = rest → (∀ p, cur.cells[p]? = expCell base items j p) → (∀ a ∈ rest, a < base.size) →
    rest.foldlM (fun s a => Store.addToList s base.size a) cur = .ok cur' →
    (∀ p, cur'.cells[p]? = expCell base items (j + rest.length) p) ∧ SameFrame cur cur'
  | [], j, cur, cur', _, hinv, _, h => by
    simp only [List.foldlM_nil, pure_eq_ok] at h
    subst h
    exact ⟨by simpa using hinv, SameFrame.rfl' _⟩
  | a :: rest, j, cur, cur', hdrop, hinv, hlt, h => by
    simp only [List.foldlM_cons, bind_eq_ok] at h
    obtain ⟨c1, h1, h2⟩ := h
    have hj : items[j]? = some a := by
      have := congrArg (fun l => l[0]?) hdrop
      simpa using this
    have hdrop' : items.drop (j + 1) = rest := by
      have := congrArg List.tail hdrop
      simpa using this
    obtain ⟨g1, f1⟩ := addToList_exp hinv hj (hlt a (by simp)) h1
    obtain ⟨g2, f2⟩ := addAll_exp rest (j + 1) c1 cur' hdrop' g1 (fun x hx => hlt x (by simp [hx])) h2
    refine ⟨fun p => ?_, f1.trans f2⟩
    rw [g2 p]
    have : j + 1 + rest.length = j + (a :: rest).length := by simp; omega
    rw [this]

theorem setRange_get : ∀ (l : List Cell) (cells : Array Cell) (i p : Nat),
    (Store.setRange cells i l)[p]? =
      if i ≤ p ∧ p < i + l.length ∧ p < cells.size then l[p - i]? else cells[p]?
  | [], cells, i, p => by
    simp only [Store.setRange, List.length_nil, Nat.add_zero]
    rw [if_neg (by omega)]
  | c :: cs, cells, i, p => by
    simp only [Store.setRange]
    rw [setRange_get cs _ (i + 1) p]
    simp only [Array.size_setIfInBounds, List.length_cons, Array.getElem?_setIfInBounds]
    by_cases h1 : i + 1 ≤ p ∧ p < i + 1 + cs.length ∧ p < cells.size
    · rw [if_pos h1, if_pos (by omega)]
      have : p - i = (p - (i + 1)) + 1 := by omega
      rw [this, List.getElem?_cons_succ]
    · rw [if_neg h1]
      by_cases h2 : i = p
      · subst h2
        by_cases h3 : i < cells.size
        · simp [h3]
        · have : cells[i]? = none := Array.getElem?_eq_none (by omega)
          simp [h3, this]
      · simp only [h2, if_false]
        rw [if_neg (by omega)]

theorem setRange_size : ∀ (l : List Cell) (cells : Array Cell) (i : Nat), (Store.setRange cells i l).size = cells.size
  | [], _, _ => rfl
  | _ :: cs, cells, i => by simp only [Store.setRange]; rw [setRange_size cs]; simp

/-- the block `buildList` appends: header, items, sorted key table -/
def listBlockOf (base : Array Cell) (items : List Nat) : List Cell :=
  let slots := items.map (assocOf base)
  Cell.list items.length (slots.filter (fun c => c != .empty)).length ::
    (items.map Cell.listItem ++ slots.mergeSort Store.assocLe)

/-- **`buildList`**: the store afterwards is the store before with one block appended -/
theorem buildList_spec {s s' : Store} {items : List Nat} {li : Nat} (hlt : ∀ a ∈ items, a < s.cells.size)
    (h : Store.buildList s items = .ok (s', li)) :
    li = s.cells.size ∧ s'.cells = s.cells ++ (listBlockOf s.cells items).toArray ∧ SameFrame s s' := by
  simp only [Store.buildList, bind_eq_ok] at h
  obtain ⟨⟨s1, li1⟩, hstart, s2, hfold, hend⟩ := h
  obtain ⟨hli, hc1, f1⟩ := startList_spec hstart
  subst hli
  have hinv0 := startList_exp hstart
  obtain ⟨hinv, f2⟩ := addAll_exp items 0 s1 s2 (by simp) hinv0 hlt hfold
  simp only [Nat.zero_add] at hinv
  have hsz2 : s2.cells.size = s.cells.size + 1 + 2 * items.length := by
    -- the first position without a cell
    have h1 := hinv (s.cells.size + 1 + 2 * items.length)
    have h2 := hinv (s.cells.size + 2 * items.length)
    have e1 : expCell s.cells items items.length (s.cells.size + 1 + 2 * items.length) = none := by
      have a1 : ¬ s.cells.size + 1 + 2 * items.length < s.cells.size := by omega
      have a2 : s.cells.size + 1 + 2 * items.length - s.cells.size = 2 * items.length + 1 := by omega
      have a3 : ¬ 2 * items.length + 1 ≤ items.length := by omega
      have a4 : ¬ 2 * items.length + 1 ≤ 2 * items.length := by omega
      simp [expCell, a1, a2, a3, a4]
    rw [e1] at h1
    have hle : s2.cells.size ≤ s.cells.size + 1 + 2 * items.length := by
      rcases Nat.lt_or_ge (s.cells.size + 1 + 2 * items.length) s2.cells.size with h | h
      · rw [Array.getElem?_eq_getElem h] at h1; cases h1
      · exact h
    have hge : s.cells.size + 2 * items.length < s2.cells.size := by
      rcases Nat.lt_or_ge (s.cells.size + 2 * items.length) s2.cells.size with h | h
      · exact h
      · rw [Array.getElem?_eq_none h] at h2
        have : (expCell s.cells items items.length (s.cells.size + 2 * items.length)).isSome = true := by
          unfold expCell
          have a1 : ¬ s.cells.size + 2 * items.length < s.cells.size := by omega
          simp only [a1, if_false, Nat.add_sub_cancel_left]
          by_cases hz : 2 * items.length = 0
          · simp [hz]
          · simp only [hz, if_false]
            by_cases hz2 : 2 * items.length ≤ items.length
            · simp [hz2]
            · simp [hz2]
        rw [← h2] at this; cases this
    omega
  -- end_list
  simp only [Store.endList, bind_eq_ok] at hend
  obtain ⟨c0, hg0, hend⟩ := hend
  have hc0 := get_ok hg0
  rw [hinv] at hc0
  have : expCell s.cells items items.length s.cells.size = some (.uninitializedList items.length items.length) := by
    simp [expCell]
  rw [this] at hc0
  simp only [Option.some.injEq] at hc0
  subst hc0
  simp only at hend
  rw [if_neg (by omega)] at hend
  split at hend
  · simp at hend
  · simp only [bind_eq_ok, pure_eq_ok, Prod.mk.injEq] at hend
    obtain ⟨s3, hset, hs', hli'⟩ := hend
    subst hs'; subst hli'
    obtain ⟨g3, _, f3⟩ := setCell_get hset
    -- the slots read by `end_list` are the key-table slots of the items
    have hslots : (List.range items.length).map (fun j => s2.cells.getD (s.cells.size + 1 + items.length + j) Cell.empty) =
        items.map (assocOf s.cells) := by
      apply List.ext_getElem?
      intro t
      simp only [List.getElem?_map, List.getElem?_range']
      by_cases ht : t < items.length
      · have hr : (List.range items.length)[t]? = some t := by simp [ht]
        rw [hr]
        simp only [Option.map_some]
        obtain ⟨a, hat⟩ : ∃ a, items[t]? = some a := ⟨items[t], by simp [ht]⟩
        rw [hat]
        simp only [Option.map_some, Option.some.injEq]
        have hcell := hinv (s.cells.size + 1 + items.length + t)
        have a1 : ¬ s.cells.size + 1 + items.length + t < s.cells.size := by omega
        have a2 : s.cells.size + 1 + items.length + t - s.cells.size = items.length + t + 1 := by omega
        have a3 : ¬ items.length + t + 1 ≤ items.length := by omega
        have a4 : items.length + t + 1 ≤ 2 * items.length := by omega
        have a5 : items.length + t + 1 - 1 - items.length = t := by omega
        simp only [expCell, a1, a2, a3, a4, a5, if_false, if_true, ht, hat, Nat.add_one_ne_zero] at hcell
        simp [Array.getD, hcell]
        split
        · rename_i hlt2
          have := Array.getElem?_eq_getElem hlt2
          rw [hcell] at this
          exact (Option.some.inj this).symm
        · rename_i hge
          rw [Array.getElem?_eq_none (by omega)] at hcell; cases hcell
      · have hr : (List.range items.length)[t]? = none := by simp; omega
        rw [hr, List.getElem?_eq_none (by omega)]
        rfl
    refine ⟨rfl, ?_, (f1.trans f2).trans f3⟩
    apply Array.ext_getElem?
    intro p
    rw [g3]
    simp only [setRange_get, hslots]
    unfold listBlockOf
    simp only
    by_cases hp0 : p < s.cells.size
    · rw [if_neg (by omega), if_neg (by omega), hinv, expCell_base hp0]
      simp [Array.getElem?_append, hp0]
    · rw [Array.getElem?_append_right (by omega)]
      simp only [List.getElem?_toArray]
      by_cases hp1 : p = s.cells.size
      · subst hp1; simp
      · rw [if_neg hp1]
        obtain ⟨t, ht⟩ : ∃ t, p - s.cells.size = t + 1 := ⟨p - s.cells.size - 1, by omega⟩
        rw [ht, List.getElem?_cons_succ]
        by_cases hp2 : t < items.length
        · rw [if_neg (by omega), hinv]
          rw [List.getElem?_append_left (by simpa using hp2)]
          have a1 : ¬ p < s.cells.size := hp0
          have a3 : t + 1 ≤ items.length := by omega
          obtain ⟨a, hat⟩ : ∃ a, items[t]? = some a := ⟨items[t], by simp [hp2]⟩
          simp [expCell, a1, ht, a3, hp2, hat]
        · rw [List.getElem?_append_right (by simpa using Nat.le_of_not_lt hp2)]
          simp only [List.length_map]
          by_cases hp3 : t < 2 * items.length
          · rw [if_pos ⟨by omega, by simp [List.length_mergeSort]; omega, by omega⟩]
            congr 1
            omega
          · rw [if_neg (by simp [List.length_mergeSort]; omega), Array.getElem?_eq_none (by omega),
              List.getElem?_eq_none (by simp [List.length_mergeSort]; omega)]

/-! ### the sorted key table -/

/-- a key-table slot: an `AssociativeItem` or `Empty` -/
def isAE : Cell → Bool
  | .associativeItem _ _ => true
  | .empty => true
  | _ => false

theorem assocOf_isAE (base : Array Cell) (a : Nat) : isAE (assocOf base a) = true := by
  unfold assocOf
  split
  · split <;> rfl
  · rfl

theorem assocLe_trans : ∀ (a b c : Cell), Store.assocLe a b = true → Store.assocLe b c = true → Store.assocLe a c = true := by
  intro a b c h1 h2
  cases a <;> cases b <;> cases c <;> simp_all [Store.assocLe] <;> omega

theorem assocLe_total : ∀ (a b : Cell), (Store.assocLe a b || Store.assocLe b a) = true := by
  intro a b
  cases a <;> cases b <;> simp [Store.assocLe] <;> omega

/-- in a sorted key table the entries come first: position `i` below the number of non-empty slots is an entry -/
theorem sorted_prefix : ∀ (L : List Cell), (∀ c ∈ L, isAE c = true) → L.Pairwise (fun a b => Store.assocLe a b = true) →
    ∀ i, i < (L.filter (fun c => c != .empty)).length → ∃ sy d, L[i]? = some (.associativeItem sy d)
  | [], _, _, i, hi => by simp at hi
  | x :: L', hae, hp, i, hi => by
    have hx := hae x (by simp)
    rw [List.pairwise_cons] at hp
    cases x <;> simp [isAE] at hx
    · -- `Empty` first: everything after it is `Empty`
      exfalso
      have hall : ∀ y ∈ L', y = Cell.empty := by
        intro y hy
        have h1 := hp.1 y hy
        have h2 := hae y (by simp [hy])
        cases y <;> simp [isAE] at h2 <;> simp [Store.assocLe] at h1
        rfl
      have : (L'.filter (fun c => c != Cell.empty)) = [] := by
        rw [List.filter_eq_nil_iff]
        intro y hy
        simp [hall y hy]
      simp [this] at hi
    · -- an entry first
      rename_i sy d
      cases i with
      | zero => exact ⟨sy, d, rfl⟩
      | succ i =>
        have := sorted_prefix L' (fun c hc => hae c (by simp [hc])) hp.2 i (by simpa using hi)
        simpa using this

theorem listItems_read {cells : Array Cell} : ∀ (items : List Nat) (a : Nat),
    (∀ t, t < items.length → cells[a + t]? = (items[t]?).map Cell.listItem) → listItems cells a items.length = some items
  | [], _, _ => rfl
  | x :: xs, a, h => by
    simp only [List.length_cons, listItems]
    have h0 := h 0 (by simp)
    simp only [Nat.add_zero, List.getElem?_cons_zero, Option.map_some] at h0
    rw [h0]
    simp only
    rw [listItems_read xs (a + 1) (fun t ht => by
      have := h (t + 1) (by simp; omega)
      have e : a + (t + 1) = a + 1 + t := by omega
      rw [e] at this
      simpa using this)]
    rfl

theorem assocItems_read {cells : Array Cell} {P : Nat → Prop} : ∀ (k a : Nat),
    (∀ t, t < k → ∃ sy d, cells[a + t]? = some (.associativeItem sy d) ∧ P d) →
    ∃ keys targets, assocItems cells a k = some (keys, targets) ∧ ∀ d ∈ targets, P d
  | 0, _, _ => ⟨[], [], rfl, by simp⟩
  | k + 1, a, h => by
    obtain ⟨sy, d, h0, hd⟩ := h 0 (by omega)
    rw [Nat.add_zero] at h0
    obtain ⟨keys, targets, hr, hall⟩ := assocItems_read k (a + 1) (fun t ht => by
      obtain ⟨sy', d', h1, h2⟩ := h (t + 1) (by omega)
      have e : a + (t + 1) = a + 1 + t := by omega
      rw [e] at h1
      exact ⟨sy', d', h1, h2⟩)
    refine ⟨.associativeItem sy 0 :: keys, d :: targets, ?_, ?_⟩
    · simp only [assocItems, h0, hr, Option.map_some]
    · intro x hx
      rcases List.mem_cons.mp hx with rfl | hx
      · exact hd
      · exact hall x hx

/-- **`buildList` keeps `WF`** (the items are existing readable addresses) -/
theorem buildList_wf {s s' : Store} {items : List Nat} {li : Nat} (hwf : WF s)
    (hitems : ∀ a ∈ items, isNode s.cells a = true) (h : Store.buildList s items = .ok (s', li)) :
    WF s' ∧ li = s.cells.size ∧ isNode s'.cells li = true := by
  have hlt : ∀ a ∈ items, a < s.cells.size := fun a ha => head_lt (cells := s.cells) (a := a) (hitems a ha)
  obtain ⟨hli, hcells, hf⟩ := buildList_spec hlt h
  subst hli
  -- names for the parts of the block
  generalize hslots : items.map (assocOf s.cells) = slots at hcells
  have hblock : listBlockOf s.cells items = Cell.list items.length (slots.filter (fun c => c != .empty)).length ::
      (items.map Cell.listItem ++ slots.mergeSort Store.assocLe) := by simp [listBlockOf, hslots]
  generalize hL : slots.mergeSort Store.assocLe = L at hblock
  generalize hk : (slots.filter (fun c => c != Cell.empty)).length = k at hblock
  have hslen : slots.length = items.length := by rw [← hslots]; simp
  have hLlen : L.length = items.length := by rw [← hL, List.length_mergeSort, hslen]
  have hperm : L.Perm slots := by rw [← hL]; exact List.mergeSort_perm _ _
  have hkn : k ≤ items.length := by rw [← hk, ← hslen]; exact List.length_filter_le _ _
  have hLae : ∀ c ∈ L, isAE c = true := by
    intro c hc
    have : c ∈ slots := hperm.mem_iff.mp hc
    rw [← hslots] at this
    simp only [List.mem_map] at this
    obtain ⟨a, _, rfl⟩ := this
    exact assocOf_isAE _ _
  have hLk : (L.filter (fun c => c != Cell.empty)).length = k := by
    rw [← hk]; exact (hperm.filter _).length_eq
  have hsorted : L.Pairwise (fun a b => Store.assocLe a b = true) := by
    rw [← hL]; exact List.pairwise_mergeSort assocLe_trans assocLe_total slots
  -- reading the new cells
  have hget : ∀ u, s'.cells[s.cells.size + u]? = (listBlockOf s.cells items)[u]? := by
    intro u
    rw [hcells, Array.getElem?_append_right (by omega)]
    simp
  have hhdr : s'.cells[s.cells.size]? = some (.list items.length k) := by
    have := hget 0; rw [hblock] at this; simpa using this
  have hitem : ∀ t, t < items.length → s'.cells[s.cells.size + 1 + t]? = (items[t]?).map Cell.listItem := by
    intro t ht
    have := hget (1 + t)
    rw [hblock] at this
    have e : s.cells.size + (1 + t) = s.cells.size + 1 + t := by omega
    rw [e] at this
    rw [this]
    have e2 : 1 + t = t + 1 := by omega
    rw [e2, List.getElem?_cons_succ, List.getElem?_append_left (by simpa using ht)]
    simp
  have hkey : ∀ t, t < items.length → s'.cells[s.cells.size + 1 + items.length + t]? = L[t]? := by
    intro t ht
    have := hget (1 + items.length + t)
    rw [hblock] at this
    have e : s.cells.size + (1 + items.length + t) = s.cells.size + 1 + items.length + t := by omega
    rw [e] at this
    rw [this]
    have e2 : 1 + items.length + t = (items.length + t) + 1 := by omega
    rw [e2, List.getElem?_cons_succ, List.getElem?_append_right (by simp)]
    simp
  -- every key-table entry refers to a node below the block
  have hentry : ∀ sy d, Cell.associativeItem sy d ∈ L → d < s.cells.size ∧ isNode s.cells d = true := by
    intro sy d hm
    have : Cell.associativeItem sy d ∈ slots := hperm.mem_iff.mp hm
    rw [← hslots] at this
    simp only [List.mem_map] at this
    obtain ⟨a, ha, hae⟩ := this
    unfold assocOf at hae
    split at hae
    · rename_i l r hpair
      split at hae
      · simp only [Cell.associativeItem.injEq] at hae
        obtain ⟨_, hr⟩ := hae
        subst hr
        have hsh : shape s.cells a = some ⟨.pair 0 0, [], [l, r]⟩ := shape_of_solo hpair rfl
        have hn := kid_node hwf hsh (k := r) (by simp)
        exact ⟨head_lt (cells := s.cells) (a := r) hn, hn⟩
      · cases hae
    · cases hae
  -- the header reads back as a list
  have hli_items := listItems_read (cells := s'.cells) items (s.cells.size + 1) hitem
  obtain ⟨keys, targets, hassoc, htargets⟩ := assocItems_read (cells := s'.cells)
    (P := fun d => d < s.cells.size ∧ isNode s.cells d = true) k (s.cells.size + 1 + items.length) (fun t ht => by
      obtain ⟨sy, d, hLt⟩ := sorted_prefix L hLae hsorted t (by rw [hLk]; exact ht)
      refine ⟨sy, d, by rw [hkey t (by omega)]; exact hLt, hentry sy d (List.mem_of_getElem? hLt)⟩)
  have hshape : shape s'.cells s.cells.size = some ⟨.list items.length k, keys, items ++ targets⟩ := by
    unfold shape
    rw [hhdr]
    simp only [hli_items, hassoc]
  have hnode : isNode s'.cells s.cells.size = true := by simp [isNode, hshape]
  have hsize : s'.cells.size = s.cells.size + 1 + 2 * items.length := by
    have : s'.cells.size = s.cells.size + (1 + (items.length + L.length)) := by
      rw [hcells, hblock]
      simp only [Array.size_append, List.size_toArray, List.length_cons, List.length_append, List.length_map]
      omega
    omega
  have hB : (listBlockOf s.cells items).toArray = (listBlockOf s.cells items).toArray := rfl
  refine ⟨append_wf _ hwf hcells hf.1 hf.2.2.1 ?_ ?_ ?_ ?_, rfl, hnode⟩
  · intro j hj1 hj2
    by_cases hj : j = s.cells.size
    · subst hj
      refine ⟨?_, by simp [listOK, hhdr, hkn], by simp [headerOK, hhdr, hnode]⟩
      simp only [nodeOK, hshape, List.all_eq_true, Bool.and_eq_true, decide_eq_true_eq]
      intro x hx
      have hx' : x < s.cells.size ∧ isNode s.cells x = true := by
        rcases List.mem_append.mp hx with h | h
        · exact ⟨hlt x h, hitems x h⟩
        · exact htargets x h
      exact ⟨hx'.1, by rw [hcells, isNode_append _ _ hwf.headers hx'.1]; exact hx'.2⟩
    · obtain ⟨t, rfl⟩ : ∃ t, j = s.cells.size + 1 + t := ⟨j - (s.cells.size + 1), by omega⟩
      by_cases ht : t < items.length
      · -- an item slot
        obtain ⟨a, hat⟩ : ∃ a, items[t]? = some a := ⟨items[t], by simp [ht]⟩
        have hc : s'.cells[s.cells.size + 1 + t]? = some (.listItem a) := by rw [hitem t ht, hat]; rfl
        have hsh : shape s'.cells (s.cells.size + 1 + t) = none := by unfold shape; rw [hc]
        exact ⟨by simp [nodeOK, hsh], by simp [listOK, hc], by simp [headerOK, hc]⟩
      · -- a key-table slot
        obtain ⟨u, rfl⟩ : ∃ u, t = items.length + u := ⟨t - items.length, by omega⟩
        have hu : u < items.length := by omega
        obtain ⟨c, hcu⟩ : ∃ c, L[u]? = some c := ⟨L[u]'(by omega), by simp [hLlen, hu]⟩
        have hc : s'.cells[s.cells.size + 1 + (items.length + u)]? = some c := by
          have e : s.cells.size + 1 + (items.length + u) = s.cells.size + 1 + items.length + u := by omega
          rw [e, hkey u hu, hcu]
        have hae := hLae c (List.mem_of_getElem? hcu)
        cases c <;> simp [isAE] at hae
        · have hsh : shape s'.cells (s.cells.size + 1 + (items.length + u)) = some ⟨.empty, [], []⟩ :=
            shape_of_solo hc rfl
          exact ⟨by simp [nodeOK, hsh], by simp [listOK, hc], by simp [headerOK, hc]⟩
        · have hsh : shape s'.cells (s.cells.size + 1 + (items.length + u)) = none := by unfold shape; rw [hc]
          exact ⟨by simp [nodeOK, hsh], by simp [listOK, hc], by simp [headerOK, hc]⟩
  · rw [hf.2.2.2.2.1, hcells]; exact headOK_append hwf _ hwf.reg
  · rw [hf.2.2.2.1, hcells]; exact headOK_append hwf _ hwf.val
  · rw [hf.2.2.2.2.2, hcells]; exact headOK_append hwf _ hwf.frm

end Garnish.BasicOpt
