/-
Text-level rewrites, elaboration side, part 5b (C18):
  `relabel_of_erase_sig`  two reference trees that are equal after erasing the positions, and whose in-order lists of
                          significant positions correspond by `f`, are relabellings of each other;
  `elaborate_relabel`     then they elaborate to the same program, when the texts at the text-reading nodes correspond
                          and `f` is injective (the names of the nested expressions are their ranks among the `{`).
-/
import Garnish.Lemmas.LexRewrite5Elab
import Garnish.Lemmas.RefSim
set_option linter.unusedSimpArgs false
set_option linter.unusedVariables false
namespace Garnish.Abs.Source
open Garnish Garnish.Gen Garnish.Spec Garnish.Model.Parser

theorem sig_length_erase : ∀ t : RTree, t.eraseTok.inorderSig.length = t.inorderSig.length
  | .nil => rfl
  | .node l d k r => by
    simp only [RTree.eraseTok, RTree.inorderSig, List.length_append, sig_length_erase l, sig_length_erase r]
    split <;> rfl
  | .group d k i => by simp [RTree.eraseTok, RTree.inorderSig, sig_length_erase i]

theorem relabel_of_erase_sig (f : Nat → Nat) : ∀ a b : RTree, a.eraseTok = b.eraseTok →
    b.inorderSig = a.inorderSig.map f → relabelL f a = relabelL id b
  | .nil, b, he, _ => by
    cases b <;> simp [RTree.eraseTok] at he
    rfl
  | .node l d k r, b, he, hs => by
    cases b with
    | nil => simp [RTree.eraseTok] at he
    | group _ _ _ => simp [RTree.eraseTok] at he
    | node l' d' k' r' =>
      simp only [RTree.eraseTok, RTree.node.injEq] at he
      obtain ⟨hl, hd, _, hr⟩ := he
      subst hd
      have ll : l'.inorderSig.length = (l.inorderSig.map f).length := by
        rw [List.length_map, ← sig_length_erase l, ← sig_length_erase l', hl]
      simp only [RTree.inorderSig, List.map_append, List.append_assoc] at hs
      obtain ⟨h1, h2⟩ := List.append_inj hs ll
      have lm : (if (d == Definition.list) = true then ([] : List Nat) else [k']).length =
          ((if (d == Definition.list) = true then ([] : List Nat) else [k]).map f).length := by
        split <;> rfl
      obtain ⟨h3, h4⟩ := List.append_inj h2 lm
      simp only [relabelL, relabel_of_erase_sig f l l' hl h1, relabel_of_erase_sig f r r' hr h4, RTree.node.injEq, true_and,
        and_true]
      unfold lp
      by_cases hdl : (d == Definition.list) = true
      · simp [hdl]
      · simp only [hdl] at h3 ⊢
        simpa using h3.symm
  | .group d k i, b, he, hs => by
    cases b with
    | nil => simp [RTree.eraseTok] at he
    | node _ _ _ _ => simp [RTree.eraseTok] at he
    | group d' k' i' =>
      simp only [RTree.eraseTok, RTree.group.injEq] at he
      obtain ⟨hd, _, hi⟩ := he
      subst hd
      simp only [RTree.inorderSig, List.map_cons, List.cons.injEq] at hs
      simp only [relabelL, relabel_of_erase_sig f i i' hi hs.2, hs.1, id]

theorem isNil_relabelL (g : Nat → Nat) (t : RTree) : (relabelL g t).isNil = t.isNil := by
  cases t <;> rfl

theorem braces_relabelL (g : Nat → Nat) : ∀ t : RTree, braces (relabelL g t) = (braces t).map g
  | .nil => rfl
  | .node l d k r => by simp [relabelL, braces, braces_relabelL g l, braces_relabelL g r]
  | .group d k i => by
    simp only [relabelL, braces, isNil_relabelL, braces_relabelL g i, List.map_append]
    split <;> simp

theorem idxOf_map_inj {f : Nat → Nat} (hf : ∀ x y, f x = f y → x = y) (k : Nat) :
    ∀ l : List Nat, (l.map f).idxOf (f k) = l.idxOf k
  | [] => rfl
  | x :: l => by
    simp only [List.map_cons, List.idxOf_cons]
    by_cases h : x = k
    · simp [h]
    · have h' : ¬ f x = f k := fun e => h (hf _ _ e)
      have e1 : (f x == f k) = false := by simpa using h'
      have e2 : (x == k) = false := by simpa using h
      simp [e1, e2, idxOf_map_inj hf k l]

variable {F : Type} (pf : List Char → Option F)

theorem elabWith_relabel (κ κ' : Nat → Nat) (toks toks' : List PToken) (f : Nat → Nat) (a b : RTree)
    (hshape : relabelL f a = relabelL id b)
    (h : ∀ d k, (d, k) ∈ nodeDefs a → NodeOK κ κ' toks toks' f d k) :
    elabWith pf κ' toks' b = elabWith pf κ toks a := by
  have h1 := go_relabel pf κ κ' toks toks' f a h
  have h2 := go_relabel pf κ' κ' toks' toks' id b (fun d k _ => ⟨fun _ => rfl, fun _ => rfl⟩)
  unfold elabWith
  rw [← h2, ← hshape, h1]

/-- **two reference trees that are relabellings of each other elaborate to the same program** -/
theorem elaborate_relabel (toks toks' : List PToken) (f : Nat → Nat) (a b : RTree)
    (hf : ∀ x y, f x = f y → x = y) (hshape : relabelL f a = relabelL id b)
    (htext : ∀ d k, (d, k) ∈ nodeDefs a → readsText d = true → textAt toks' (f k) = textAt toks k) :
    elaborate pf toks' b = elaborate pf toks a := by
  have hb : braces b = (braces a).map f := by
    have := congrArg braces hshape
    rw [braces_relabelL, braces_relabelL] at this
    simpa using this.symm
  have hname : ∀ k, srcName b (f k) = srcName a k := fun k => by
    unfold srcName
    rw [hb, idxOf_map_inj hf]
  have h1 : elabSrc pf toks' b = elabSrc pf toks a :=
    elabWith_relabel pf _ _ toks toks' f a b hshape (fun d k hm => ⟨htext d k hm, fun _ => hname k⟩)
  unfold elaborate
  rw [h1]
  cases elabSrc pf toks a with
  | none => rfl
  | some p0 =>
    exact elabWith_relabel pf _ _ toks toks' f a b hshape
      (fun d k hm => ⟨htext d k hm, fun _ => by simp only [hname k]⟩)

end Garnish.Abs.Source
