/-
Trace half of the step simulation, part 9 (mirrors Lemmas/RuntimeStep9.lean): the instructions of
Model/Runtime/Internals.lean.
-/
import Garnish.Lemmas.RuntimeTrace8
set_option linter.unusedSimpArgs false
set_option linter.unusedVariables false
namespace Garnish.Lemmas.Runtime
open Garnish Gen Garnish.Abs Garnish.Model.Equality Garnish.Model.Runtime Garnish.Props.RuntimeRefine

variable {F σ : Type} {S : RStore F σ} {P : Prog F} {host : Host F} (fo : FloatOps F)

section
variable (L : StoreLaws S) (HR : HostRefines S host) (fuel : Nat) (cast : RM σ (Option Nat)) {s : σ} {m : MState F}
  (hsim : Sim S P s m) {operand : Option Nat}
include L HR hsim

theorem stepTrace_typeOf (hfetch : P.instrs[m.pc]? = some (.typeOf, operand)) :
    StepTrace fo host S P fuel (fullHandlers fo S fuel cast) s m :=
  totalT_unary fo fuel _ s hfetch rfl (fun v rs hr =>
    stepTrace_unary fo L HR fuel _ hsim hfetch rfl hr (o := .val (.type v.typeOf)) rfl
      (fun a rest hra da => typeOfH_spec L hra da) (fun _ _ _ h => by cases h))

theorem stepTrace_typeEqual (hfetch : P.instrs[m.pc]? = some (.typeEqual, operand)) :
    StepTrace fo host S P fuel (fullHandlers fo S fuel cast) s m :=
  totalT_binary fo fuel _ s hfetch rfl (fun _ => rfl) (fun vr vl rs hr =>
    stepTrace_binary fo L HR fuel _ hsim hfetch rfl hr (o := .val (Abs.typeEqual vl vr)) rfl rfl
      (fun r l rest hrr dl dr => typeEqualH_spec L hrr dl dr) (fun _ _ _ h => by cases h))

theorem stepTrace_equal (hfetch : P.instrs[m.pc]? = some (.equal, operand))
    (hok : ∀ vr vl rs, m.regs = vr :: vl :: rs → EqualDomain fuel vl vr) :
    StepTrace fo host S P fuel (fullHandlers fo S fuel cast) s m :=
  totalT_binary fo fuel _ s hfetch rfl (fun _ => rfl) (fun vr vl rs hr => by
    obtain ⟨nl, nr, hf⟩ := hok vr vl rs hr
    exact stepTrace_binary fo L HR fuel _ hsim hfetch rfl hr (o := .val (Val.ofBool (valEq fo vl vr))) rfl rfl
      (fun r l rest hrr dl dr => equalH_spec fo L fuel false hrr dl dr nl nr hf) (fun _ _ _ h => by cases h))

theorem stepTrace_notEqual (hfetch : P.instrs[m.pc]? = some (.notEqual, operand))
    (hok : ∀ vr vl rs, m.regs = vr :: vl :: rs → EqualDomain fuel vl vr) :
    StepTrace fo host S P fuel (fullHandlers fo S fuel cast) s m :=
  totalT_binary fo fuel _ s hfetch rfl (fun _ => rfl) (fun vr vl rs hr => by
    obtain ⟨nl, nr, hf⟩ := hok vr vl rs hr
    exact stepTrace_binary fo L HR fuel _ hsim hfetch rfl hr (o := .val (Val.ofBool (!valEq fo vl vr))) rfl rfl
      (fun r l rest hrr dl dr => equalH_spec fo L fuel true hrr dl dr nl nr hf) (fun _ _ _ h => by cases h))

theorem stepTrace_leftInternal (hfetch : P.instrs[m.pc]? = some (.accessLeftInternal, operand)) :
    StepTrace fo host S P fuel (fullHandlers fo S fuel cast) s m :=
  totalT_unary fo fuel _ s hfetch rfl (fun v rs hr =>
    stepTrace_unary fo L HR fuel _ hsim hfetch rfl hr (o := Abs.accessLeftInternal v) rfl
      (fun a rest hra da => accessLeftInternalH_spec L hra da) (fun _ _ _ h => leftInternal_defer h))

theorem stepTrace_rightInternal (hfetch : P.instrs[m.pc]? = some (.accessRightInternal, operand)) :
    StepTrace fo host S P fuel (fullHandlers fo S fuel cast) s m :=
  totalT_unary fo fuel _ s hfetch rfl (fun v rs hr =>
    stepTrace_unary fo L HR fuel _ hsim hfetch rfl hr (o := Abs.accessRightInternal v) rfl
      (fun a rest hra da => accessRightInternalH_spec L hra da) (fun _ _ _ h => rightInternal_defer h))

theorem stepTrace_lengthInternal (hfetch : P.instrs[m.pc]? = some (.accessLengthInternal, operand))
    (hok : ∀ v rs, m.regs = v :: rs → LengthDomain v ∧ accessFuel v ≤ fuel) :
    StepTrace fo host S P fuel (fullHandlers fo S fuel cast) s m :=
  totalT_unary fo fuel _ s hfetch rfl (fun v rs hr => by
    obtain ⟨hd, hf⟩ := hok v rs hr
    exact stepTrace_unary fo L HR fuel _ hsim hfetch rfl hr (o := Abs.accessLengthInternal fo v) rfl
      (fun a rest hra da => accessLengthInternalH_spec fo L fuel hra da hd hf)
      (fun _ _ _ h => lengthInternal_defer fo h))

end

end Garnish.Lemmas.Runtime
