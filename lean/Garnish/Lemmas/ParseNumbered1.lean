/-
The nodes of a parse result are numbered in in-order, and — apart from the separator nodes the parser pushes for a
trailing blank line before `}` and unlinks again — all of them are in the tree: for an expression `e` of the fragment
  `t.inorder` is strictly increasing, below `r.nodes.size`, and `t.inorder.length + e.garb = r.nodes.size`
(`e.garb` = the number of trailing blank lines before a `}`), hence `t.inorder = List.range r.nodes.size` when `e.garb = 0`.
The count is maintained by the induction of Lemmas/ParserB9 … B26 (`OpdOK c`, `ExprOK c`, `ListOpdOK c`).
-/
import Garnish.Lemmas.ParserB28

namespace Garnish.Spec
open Garnish Garnish.Gen Garnish.Model.Parser

/-- a strictly increasing list of `n` numbers in `[a, a + n)` is `a, a+1, …` -/
theorem sorted_eq_range' : ∀ (l : List Nat) (a : Nat), l.Pairwise (· < ·) → (∀ j ∈ l, a ≤ j ∧ j < a + l.length) →
    l = List.range' a l.length
  | [], _, _, _ => rfl
  | x :: l, a, hp, hb => by
    have hp' := List.pairwise_cons.mp hp
    have hxb := hb x (List.mem_cons_self ..)
    simp only [List.length_cons] at hxb hb
    have ih := sorted_eq_range' l (x + 1) hp'.2 (fun y hy => by
      have h1 := hp'.1 y hy
      have h2 := hb y (List.mem_cons_of_mem _ hy)
      omega)
    have hxa : x = a := by
      cases hl : l with
      | nil => rw [hl] at hxb; simp only [List.length_nil] at hxb; omega
      | cons y ys =>
        have hpos0 : 0 < l.length := by rw [hl]; simp
        have hmem : x + 1 + (l.length - 1) ∈ List.range' (x + 1) l.length := by
          rw [List.mem_range'_1]
          omega
        rw [← ih] at hmem
        have := hb _ (List.mem_cons_of_mem _ hmem)
        have hpos : 0 < l.length := by rw [hl]; simp
        omega
    subst hxa
    rw [List.length_cons, List.range'_succ, ← ih]

theorem sortedIn_full {n : Nat} {l : List Nat} (h : SortedIn 0 n l) (hlen : l.length = n) : l = List.range n := by
  have := sorted_eq_range' l 0 h.1 (fun j hj => by have := h.2 j hj; omega)
  rw [this, hlen, List.range_eq_range']

/-- **numbering, syntax form** -/
theorem parse_ex_numbered {F : Fl} (e : Ex) (hok : e.ok F false = true) (hnum : NumberedFrom 0 e.toks) :
    ∃ r t, parse e.toks = .ok r ∧ toTree r = some t ∧ SortedIn 0 r.nodes.size t.inorder ∧
      t.inorder.length + e.garb = r.nodes.size := by
  have hne := e.toks_ne
  obtain ⟨htrim, _, _⟩ := ex_trim e hok
  obtain ⟨st1, E, re, cb, hloop, hinv, hgs, hcg, _, _, _, hcnt, href⟩ :=
    (ex_ok e false hok).1 PState.init none none 0 openB_init (.top rfl rfl) (by intro i nd h; simp [PState.init] at h) rfl
      rfl (Or.inl rfl) 0 hnum []
  simp only [List.append_nil] at hloop
  obtain ⟨r, hr, ht, hn⟩ := finish_U hinv hgs
  refine ⟨r, E, ?_, ht, by rw [hn]; exact hinv.n.inord, by rw [hn]; simpa using hcnt⟩
  unfold parse
  rw [htrim]
  have he : e.toks.isEmpty = false := by cases h : e.toks with
    | nil => exact absurd h hne
    | cons _ _ => rfl
  simp only [Outcome.bind, he, Bool.false_eq_true, if_false, hloop, loop, hr]

/-- **numbering, an expression followed by a comma at the very end** -/
theorem parse_ex_comma_numbered {F : Fl} (e : Ex) (hok : e.ok F false = true) (ws1 : List PToken) (k : PToken)
    (hw1 : ∀ w ∈ ws1, isTriviaTok w = true) (hk : isCommaTok k = true)
    (hnum : NumberedFrom 0 (e.toks ++ (ws1 ++ [k]))) :
    ∃ r t, parse (e.toks ++ (ws1 ++ [k])) = .ok r ∧ toTree r = some t ∧ SortedIn 0 r.nodes.size t.inorder ∧
      t.inorder.length + e.garb = r.nodes.size := by
  obtain ⟨hk3, hkd⟩ := comma_facts hk
  have hne : e.toks ++ (ws1 ++ [k]) ≠ [] := by simp
  obtain ⟨th, trest, hth, hthn⟩ := ex_head e false hok
  have hhead : isTrimmable ((e.toks ++ (ws1 ++ [k])).head hne) = false := by
    have : (e.toks ++ (ws1 ++ [k])).head hne = th := by simp [hth]
    rw [this]; exact hthn
  have hlast : isTrimmable ((e.toks ++ (ws1 ++ [k])).getLast hne) = false := by
    have e1 : e.toks ++ (ws1 ++ [k]) = (e.toks ++ ws1) ++ [k] := by simp
    rw [getLast_of_eq_append hne e1]
    unfold isCommaTok at hk
    have : k.type = .comma := by simpa using hk
    simp only [isTrimmable, this]; rfl
  obtain ⟨htrim, _, _⟩ := trim_id _ hne hhead hlast
  have hnume := numbered_prefix e.toks _ 0 hnum
  obtain ⟨st1, E, re, cb, hloop, hinv, hgs, hcg, _, _, _, hcnt, href⟩ :=
    (ex_ok e false hok).1 PState.init none none 0 openB_init (.top rfl rfl) (by intro i nd h; simp [PState.init] at h) rfl
      rfl (Or.inl rfl) 0 hnume (ws1 ++ [k])
  obtain ⟨st1', hloopW, hinv', hn1', hgs1', hcg1'⟩ := trivia_runU ws1 st1 [k] hinv hw1
  obtain ⟨nodes', info, hpt, hir, hdefs, _, _, htreeK, _⟩ := core_effectU hinv' .commaList 900 false none rfl (by omega)
  have hsz' : nodes'.size = st1'.nodes.size := (parseToken_size_def hpt).1
  have hpt' : parseToken st1'.nodes.size (getDefinition k.type).1 st1'.lastLeft none st1'.nodes none
      ((getDefinition k.type).2 == .binaryRightToLeft) = .ok (nodes', info) := by rw [hkd]; exact hpt
  obtain ⟨st2, h2⟩ := step_bin3_okT st1' k hk3 hinv'.hug hinv'.adjust
    (hinv'.comp_binop _ (by rw [hkd]; exact Or.inr (Or.inr rfl))) ⟨_, _, hpt'⟩
  obtain ⟨nodes2, info2, hpt2, hn2, hl2, hc2, hnl2, hgs2, hcg2, hp2⟩ :=
    step_bin3_specT st1' st2 k hk3 hinv'.nnl hinv'.hug hinv'.adjust h2
  rw [hpt'] at hpt2
  injection hpt2 with hpt2; injection hpt2 with e1 e2; subst e1; subst e2
  rw [hkd, hir] at hn2
  simp only at hn2
  have hs2 : st2.nodes.size = st1'.nodes.size + 1 := by rw [hn2]; simp [hsz']
  have hC2 : st2.nodes[st1'.nodes.size]? =
      some ⟨.commaList, .optionalBinaryLeftToRight, info.parent, info.left, none, k⟩ := by
    rw [hn2, Array.getElem?_push, if_pos hsz'.symm]
  have hlt2 : ∀ j, j < st1'.nodes.size → st2.nodes[j]? = nodes'[j]? := by
    intro j hj; rw [hn2, Array.getElem?_push, if_neg (by omega)]
  obtain ⟨re', htree', _⟩ := htreeK st2.nodes .nil k.col hlt2 ⟨_, hC2, rfl, rfl, rfl, rfl⟩ (.nil _)
  have hin2 : (insertC cb (prioAt st1'.nodes) 900 false st1'.nodes.size k.col .nil E).inorder =
      E.inorder ++ [st1'.nodes.size] := by rw [insertC_inorder]; rfl
  have hpos := hinv'.n.pos
  have hsorted : SortedIn 0 st2.nodes.size (E.inorder ++ [st1'.nodes.size]) := by
    rw [hs2]
    exact hinv'.n.inord.append_cons (l2 := []) ⟨List.Pairwise.nil, fun j hj => by cases hj⟩ (by omega) (by omega)
  obtain ⟨r, hr, ht, hn⟩ := finish_gen (st := st2) (T := insertC cb (prioAt st1'.nodes) 900 false st1'.nodes.size k.col .nil E)
    (by rw [hp2, hc2, hkd]; rfl) (by rw [hgs2, hgs1', hgs]; rfl) htree' (by rw [hin2]; exact hsorted.nodup)
    (by rw [hin2]; exact List.mem_append_left _ hinv'.n.first) (by omega)
  refine ⟨r, _, ?_, ht, by rw [hn, hin2]; exact hsorted, ?_⟩
  · unfold parse
    rw [htrim]
    have he : (e.toks ++ (ws1 ++ [k])).isEmpty = false := by
      cases h : e.toks ++ (ws1 ++ [k]) with
      | nil => exact absurd h hne
      | cons _ _ => rfl
    simp only [Outcome.bind, he, Bool.false_eq_true, if_false]
    rw [hloop, hloopW]
    simp only [loop, List.isEmpty_nil, h2, Outcome.bind]
    exact hr
  · rw [hn, hin2, hs2, hn1']
    simp only [List.length_append, List.length_cons, List.length_nil]
    simp only [Nat.add_zero] at hcnt
    omega

end Garnish.Spec
