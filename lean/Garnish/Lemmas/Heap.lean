/-
Helper lemmas for C15 (Garnish.Props.C15): layout invariant of the six-block heap, what `reallocate_heap` and
`push_to_block` do under it, stable insertion.
-/
import Garnish.Store.BasicHeap
import Garnish.Spec.Tables6
namespace Garnish.Store
open Garnish Garnish.Spec

/-! ### progress of a growth policy -/

/-- the growth settings under which `next_size` really grows the block: additive step ≥ 1;
multiplicative factor ≥ 2 from a non-zero size -/
def Block.Progress (b : Block) : Prop :=
  match b.policy with
  | .fixed n => 1 ≤ n
  | .mult n => 2 ≤ n ∧ 1 ≤ b.size

instance (b : Block) : Decidable b.Progress := by
  unfold Block.Progress; cases b.policy <;> infer_instance

theorem Block.Progress.lt_nextSize {b : Block} (h : b.Progress) : b.size < b.nextSize := by
  unfold Block.Progress at h
  unfold Block.nextSize
  cases hp : b.policy with
  | fixed n => rw [hp] at h; simp only at h ⊢; omega
  | mult n =>
    rw [hp] at h; simp only at h ⊢
    have : b.size * 2 ≤ b.size * n := Nat.mul_le_mul_left _ h.1
    omega

theorem Block.Progress.grow {b : Block} (h : b.Progress) (s z : Nat) (hz : b.size ≤ z) :
    ({ b with start := s, size := z } : Block).Progress := by
  unfold Block.Progress at h ⊢
  dsimp only
  cases hp : b.policy with
  | fixed n => rw [hp] at h; exact h
  | mult n => rw [hp] at h; exact ⟨h.1, by have := h.2; omega⟩

theorem Block.Progress.mono {b b' : Block} (h : b.Progress) (hp : b'.policy = b.policy) (hz : b.size ≤ b'.size) :
    b'.Progress := by
  unfold Block.Progress at h ⊢
  rw [hp]
  cases hq : b.policy with
  | fixed n => rw [hq] at h; exact h
  | mult n => rw [hq] at h; exact ⟨h.1, by have := h.2; omega⟩

/-! ### layout -/

/-- the blocks tile `[s, e)` in list order and no cursor is past its block -/
def Contig : Nat → List Block → Nat → Prop
  | s, [], e => s = e
  | s, b :: bs, e => b.start = s ∧ b.cursor ≤ b.size ∧ Contig (s + b.size) bs e

theorem Contig.le : ∀ {bs : List Block} {s e : Nat}, Contig s bs e → s ≤ e
  | [], s, e, h => by simp [Contig] at h; omega
  | b :: bs, s, e, h => by
    have := Contig.le h.2.2
    omega

theorem Contig.get : ∀ {bs : List Block} {s e k : Nat} {b : Block}, Contig s bs e → bs[k]? = some b →
    s ≤ b.start ∧ b.start + b.size ≤ e ∧ b.cursor ≤ b.size
  | [], _, _, _, _, _, hk => by simp at hk
  | b0 :: bs, s, e, 0, b, h, hk => by
    simp at hk; subst hk
    have := Contig.le h.2.2
    exact ⟨by have := h.1; omega, by have := h.1; omega, h.2.1⟩
  | b0 :: bs, s, e, k + 1, b, h, hk => by
    simp at hk
    have := Contig.get h.2.2 hk
    omega

theorem Contig.sep : ∀ {bs : List Block} {s e j k : Nat} {bj bk : Block}, Contig s bs e → j < k →
    bs[j]? = some bj → bs[k]? = some bk → bj.start + bj.size ≤ bk.start
  | [], _, _, _, _, _, _, _, _, hj, _ => by simp at hj
  | b0 :: bs, s, e, 0, k + 1, bj, bk, h, _, hj, hk => by
    simp at hj hk; subst hj
    have := Contig.get h.2.2 hk
    have := h.1
    omega
  | b0 :: bs, s, e, j + 1, k + 1, bj, bk, h, hlt, hj, hk => by
    simp at hj hk
    exact Contig.sep h.2.2 (by omega) hj hk

theorem Contig.setCursor : ∀ {bs : List Block} {s e k : Nat} {b : Block} (c : Nat), Contig s bs e → bs[k]? = some b →
    c ≤ b.size → Contig s (bs.set k { b with cursor := c }) e
  | [], _, _, _, _, _, _, hk, _ => by simp at hk
  | b0 :: bs, s, e, 0, b, c, h, hk, hc => by
    simp at hk; subst hk
    simp only [List.set_cons_zero, Contig]
    exact ⟨h.1, hc, h.2.2⟩
  | b0 :: bs, s, e, k + 1, b, c, h, hk, hc => by
    simp at hk
    simp only [List.set_cons_succ, Contig]
    exact ⟨h.1, h.2.1, Contig.setCursor c h.2.2 hk hc⟩

/-! ### block contents -/

theorem getElem?_blockCells (cells : Array Cell) (b : Block) (i : Nat) :
    (blockCells cells b)[i]? = if i < b.cursor then cells[b.start + i]? else none := by
  unfold blockCells
  rw [List.getElem?_take, List.getElem?_drop, Array.getElem?_toList]

theorem blockCells_ext {cells cells' : Array Cell} {b b' : Block} (hc : b.cursor = b'.cursor)
    (h : ∀ i, i < b.cursor → cells[b.start + i]? = cells'[b'.start + i]?) : blockCells cells b = blockCells cells' b' := by
  apply List.ext_getElem?
  intro i
  rw [getElem?_blockCells, getElem?_blockCells, ← hc]
  by_cases hi : i < b.cursor
  · simp [hi, h i hi]
  · simp [hi]

theorem length_blockCells {cells : Array Cell} {b : Block} (h : b.start + b.cursor ≤ cells.size) :
    (blockCells cells b).length = b.cursor := by
  unfold blockCells
  rw [List.length_take, List.length_drop, Array.length_toList]
  omega

/-! ### `reallocate_heap` -/

theorem copyLoop_spec (old : Array Cell) (src dst : Nat) : ∀ (n i : Nat) (new : Array Cell),
    src + i + n ≤ old.size → dst + i + n ≤ new.size →
    ∃ new', copyLoop old src dst n i new = .ok new' ∧ new'.size = new.size ∧
      ∀ j, new'[j]? = if dst + i ≤ j ∧ j < dst + i + n then old[src + (j - dst)]? else new[j]?
  | 0, i, new, _, _ => ⟨new, rfl, rfl, by intro j; simp; omega⟩
  | n + 1, i, new, h1, h2 => by
    have hs : src + i < old.size := by omega
    have hd : dst + i < new.size := by omega
    obtain ⟨new', hr, hsz, hget⟩ := copyLoop_spec old src dst n (i + 1) (new.set (dst + i) old[src + i] hd)
      (by omega) (by rw [Array.size_set]; omega)
    refine ⟨new', ?_, ?_, ?_⟩
    · rw [copyLoop, dif_pos hs, dif_pos hd]; exact hr
    · rw [hsz, Array.size_set]
    · intro j
      rw [hget j, Array.getElem?_set]
      by_cases hj : dst + i = j
      · subst hj
        have : src + (dst + i - dst) = src + i := by omega
        simp [this, Array.getElem?_eq_getElem hs]
      · by_cases hin : dst + (i + 1) ≤ j ∧ j < dst + (i + 1) + n
        · have : dst + i ≤ j ∧ j < dst + i + (n + 1) := by omega
          simp [hin, this]
        · have : ¬ (dst + i ≤ j ∧ j < dst + i + (n + 1)) := by omega
          simp [hin, this, hj]

/-- where `reallocate_heap` puts the blocks -/
def layout : Nat → List (Block × Nat) → List Block
  | _, [] => []
  | cur, (b, z) :: rest => { b with start := cur, size := z } :: layout (cur + z) rest

def sumSnd : List (Block × Nat) → Nat
  | [] => 0
  | (_, z) :: rest => z + sumSnd rest

theorem reallocBlocks_spec (old : Array Cell) : ∀ (bz : List (Block × Nat)) (cur : Nat) (new : Array Cell),
    (∀ p ∈ bz, p.1.start + p.1.cursor ≤ old.size ∧ p.1.cursor ≤ p.2) → cur + sumSnd bz = new.size →
    ∃ new', reallocBlocks old bz cur new = .ok (layout cur bz, new') ∧ new'.size = new.size ∧
      (∀ j, j < cur → new'[j]? = new[j]?) ∧ Contig cur (layout cur bz) new.size ∧
      (layout cur bz).map (blockCells new') = bz.map (fun p => blockCells old p.1)
  | [], cur, new, _, hsum => ⟨new, rfl, rfl, fun _ _ => rfl, by simpa [layout, Contig, sumSnd] using hsum, rfl⟩
  | (b, z) :: rest, cur, new, hall, hsum => by
    have hb := hall (b, z) (by simp)
    simp only [sumSnd] at hsum
    obtain ⟨new1, hc, hsz1, hget1⟩ := copyLoop_spec old b.start cur b.cursor 0 new (by simpa using hb.1)
      (by have := hb.2; simp only at this; omega)
    obtain ⟨new2, hr, hsz2, hlow, hcontig, hmap⟩ := reallocBlocks_spec old rest (cur + z) new1
      (fun p hp => hall p (by simp [hp])) (by omega)
    refine ⟨new2, ?_, by omega, ?_, ?_, ?_⟩
    · rw [reallocBlocks, hc]; simp only; rw [hr]; rfl
    · intro j hj
      rw [hlow j (by omega), hget1 j]
      rw [if_neg (by omega)]
    · simp only [layout, Contig]
      exact ⟨trivial, hb.2, by rw [← hsz1]; exact hcontig⟩
    · simp only [layout, List.map_cons, hmap]
      congr 1
      refine blockCells_ext (b' := b) ?_ ?_
      · rfl
      intro i hi
      simp only at hi ⊢
      have hlt : cur + i < cur + z := by have := hb.2; simp only at this; omega
      rw [hlow (cur + i) hlt, hget1 (cur + i)]
      have h2 : cur + i - cur = i := by omega
      rw [if_pos (by omega), h2]

/-! ### the sizes `push_to_*_block` asks for -/

theorem length_grownSizes : ∀ (bs : List Block) (k : Nat), (grownSizes bs k).length = bs.length
  | [], _ => rfl
  | b :: bs, 0 => by simp [grownSizes]
  | b :: bs, k + 1 => by simp [grownSizes, length_grownSizes bs k]

theorem sumSnd_zip : ∀ (bs : List Block) (zs : List Nat), bs.length = zs.length → sumSnd (bs.zip zs) = sumSizes zs
  | [], [], _ => rfl
  | [], _ :: _, h => by simp at h
  | _ :: _, [], h => by simp at h
  | b :: bs, z :: zs, h => by
    simp only [List.zip_cons_cons, sumSnd, sumSizes]
    rw [sumSnd_zip bs zs (by simpa using h)]

theorem mem_zip_map_self {f : Block → Nat} : ∀ {bs : List Block} {p : Block × Nat}, p ∈ bs.zip (bs.map f) →
    p.1 ∈ bs ∧ p.2 = f p.1
  | [], _, hp => by simp at hp
  | b :: bs, p, hp => by
    simp only [List.map_cons, List.zip_cons_cons, List.mem_cons] at hp
    rcases hp with rfl | hp
    · exact ⟨by simp, rfl⟩
    · have := mem_zip_map_self hp
      exact ⟨by simp [this.1], this.2⟩

theorem grown_mem : ∀ {bs : List Block} {k : Nat} {p : Block × Nat}, p ∈ bs.zip (grownSizes bs k) →
    p.1 ∈ bs ∧ (p.2 = p.1.size ∨ (bs[k]? = some p.1 ∧ p.2 = p.1.nextSize))
  | [], _, _, hp => by simp [grownSizes] at hp
  | b :: bs, 0, p, hp => by
    simp only [grownSizes, List.zip_cons_cons, List.mem_cons] at hp
    rcases hp with rfl | hp
    · exact ⟨by simp, Or.inr ⟨by simp, rfl⟩⟩
    · have := mem_zip_map_self hp
      exact ⟨by simp [this.1], Or.inl this.2⟩
  | b :: bs, k + 1, p, hp => by
    simp only [grownSizes, List.zip_cons_cons, List.mem_cons] at hp
    rcases hp with rfl | hp
    · exact ⟨by simp, Or.inl rfl⟩
    · have := grown_mem hp
      exact ⟨by simp [this.1], by simpa using this.2⟩

theorem grown_get : ∀ {bs : List Block} {k : Nat} {b : Block}, bs[k]? = some b →
    (bs.zip (grownSizes bs k))[k]? = some (b, b.nextSize)
  | [], _, _, h => by simp at h
  | b0 :: bs, 0, b, h => by simp at h; subst h; simp [grownSizes]
  | b0 :: bs, k + 1, b, h => by
    simp at h
    simp [grownSizes]
    exact grown_get h

theorem layout_mem : ∀ {bz : List (Block × Nat)} {cur : Nat} {b' : Block}, b' ∈ layout cur bz →
    ∃ p ∈ bz, ∃ s, b' = { p.1 with start := s, size := p.2 }
  | [], _, _, h => by simp [layout] at h
  | (b, z) :: rest, cur, b', h => by
    simp only [layout, List.mem_cons] at h
    rcases h with rfl | h
    · exact ⟨(b, z), by simp, cur, rfl⟩
    · obtain ⟨p, hp, s, rfl⟩ := layout_mem h
      exact ⟨p, by simp [hp], s, rfl⟩

theorem layout_get : ∀ {bz : List (Block × Nat)} {cur k : Nat} {p : Block × Nat}, bz[k]? = some p →
    ∃ s, (layout cur bz)[k]? = some { p.1 with start := s, size := p.2 }
  | [], _, _, _, h => by simp at h
  | (b, z) :: rest, cur, 0, p, h => by simp at h; subst h; exact ⟨cur, by simp [layout]⟩
  | (b, z) :: rest, cur, k + 1, p, h => by
    simp at h
    obtain ⟨s, hs⟩ := layout_get (cur := cur + z) h
    exact ⟨s, by simpa [layout] using hs⟩

theorem length_layout : ∀ (bz : List (Block × Nat)) (cur : Nat), (layout cur bz).length = bz.length
  | [], _ => rfl
  | (b, z) :: rest, cur => by simp [layout, length_layout rest]

theorem exceedsMax_false : ∀ {bz : List (Block × Nat)}, (∀ p ∈ bz, p.1.maxItems = none) → exceedsMax bz = false
  | [], _ => rfl
  | (b, z) :: rest, h => by
    have hb : b.maxItems = none := h (b, z) (by simp)
    simp only [exceedsMax, hb, Bool.false_or]
    exact exceedsMax_false (fun p hp => h p (by simp [hp]))

theorem map_fst_zip_grown (bs : List Block) (k : Nat) : (bs.zip (grownSizes bs k)).map Prod.fst = bs :=
  List.map_fst_zip (by rw [length_grownSizes]; exact Nat.le_refl _)

/-- `reallocate_heap` as called from `push_to_*_block`, under the layout invariant: it fails only on `max_items`,
never panics, re-establishes the layout and moves every block's contents unchanged -/
theorem reallocate_grown {h : Heap} {k : Nat} {b : Block} (hinv : Contig 0 h.blocks h.cells.size)
    (hk : h.blocks[k]? = some b) (hgrow : b.size ≤ b.nextSize) :
    reallocate h (grownSizes h.blocks k) = .err .data ∧ (∃ b' ∈ h.blocks, b'.maxItems ≠ none) ∨
    ∃ cells', reallocate h (grownSizes h.blocks k) =
        .ok { cells := cells', blocks := layout 0 (h.blocks.zip (grownSizes h.blocks k)) } ∧
      Contig 0 (layout 0 (h.blocks.zip (grownSizes h.blocks k))) cells'.size ∧
      (layout 0 (h.blocks.zip (grownSizes h.blocks k))).map (blockCells cells') = abs h := by
  unfold reallocate
  by_cases hmax : exceedsMax (h.blocks.zip (grownSizes h.blocks k)) = true
  · left
    refine ⟨by simp [hmax], ?_⟩
    apply Classical.byContradiction
    intro hno
    have : exceedsMax (h.blocks.zip (grownSizes h.blocks k)) = false := by
      apply exceedsMax_false
      intro p hp
      have := (grown_mem hp).1
      apply Classical.byContradiction
      intro hne
      exact hno ⟨p.1, this, hne⟩
    rw [this] at hmax
    exact Bool.noConfusion hmax
  · right
    have hall : ∀ p ∈ h.blocks.zip (grownSizes h.blocks k), p.1.start + p.1.cursor ≤ h.cells.size ∧ p.1.cursor ≤ p.2 := by
      intro p hp
      obtain ⟨hm, hz⟩ := grown_mem hp
      obtain ⟨j, hj⟩ := List.mem_iff_getElem?.mp hm
      have hg := Contig.get hinv hj
      refine ⟨by omega, ?_⟩
      rcases hz with hz | ⟨hkk, hz⟩
      · omega
      · rw [hk] at hkk
        have : b = p.1 := Option.some.inj hkk
        subst this
        omega
    obtain ⟨new', hr, hsz, _, hcontig, hmap⟩ := reallocBlocks_spec h.cells (h.blocks.zip (grownSizes h.blocks k)) 0
      (Array.replicate (sumSizes (grownSizes h.blocks k)) Cell.empty) hall
      (by rw [sumSnd_zip _ _ (length_grownSizes _ _).symm, Array.size_replicate]; omega)
    refine ⟨new', ?_, ?_, ?_⟩
    · simp only [hmax, hr]
      simp
    · rw [hsz]; exact hcontig
    · rw [hmap]
      unfold abs
      have : (fun p : Block × Nat => blockCells h.cells p.fst) = blockCells h.cells ∘ Prod.fst := rfl
      rw [this, ← List.map_map, map_fst_zip_grown]

/-! ### `push_to_block` -/

theorem blockCells_push {cells : Array Cell} {b1 : Block} (c : Cell) (hlt : b1.start + b1.cursor < cells.size) :
    blockCells (cells.set (b1.start + b1.cursor) c hlt) { b1 with cursor := b1.cursor + 1 } = blockCells cells b1 ++ [c] := by
  apply List.ext_getElem?
  intro i
  rw [getElem?_blockCells, List.getElem?_append, length_blockCells (by omega), getElem?_blockCells, Array.getElem?_set]
  simp only
  by_cases h1 : i < b1.cursor
  · have : ¬ (b1.cursor = i) := by omega
    simp [h1, this, show i < b1.cursor + 1 by omega]
  · by_cases h2 : i = b1.cursor
    · subst h2; simp
    · have h3 : ¬ (i < b1.cursor + 1) := by omega
      have h4 : ¬ (i - b1.cursor = 0) := by omega
      simp [h1, h3]
      cases hh : i - b1.cursor with
      | zero => exact absurd hh h4
      | succ n => simp

theorem blockCells_other {cells : Array Cell} {bj : Block} {pos : Nat} (c : Cell) (hlt : pos < cells.size)
    (hdis : pos < bj.start ∨ bj.start + bj.cursor ≤ pos) :
    blockCells (cells.set pos c hlt) bj = blockCells cells bj := by
  apply blockCells_ext rfl
  intro i hi
  rw [Array.getElem?_set]
  have : ¬ (pos = bj.start + i) := by omega
  simp [this]

theorem write_spec {cells : Array Cell} {bs : List Block} {k : Nat} {b1 : Block} (c : Cell)
    (hinv : Contig 0 bs cells.size) (hk : bs[k]? = some b1) (hlt : b1.cursor < b1.size) :
    ∃ hlt' : b1.start + b1.cursor < cells.size,
      Contig 0 (bs.set k { b1 with cursor := b1.cursor + 1 }) (cells.set (b1.start + b1.cursor) c hlt').size ∧
      (bs.set k { b1 with cursor := b1.cursor + 1 }).map (blockCells (cells.set (b1.start + b1.cursor) c hlt')) =
        (bs.map (blockCells cells)).modify k (· ++ [c]) := by
  have hg := Contig.get hinv hk
  have hlt' : b1.start + b1.cursor < cells.size := by omega
  refine ⟨hlt', ?_, ?_⟩
  · rw [Array.size_set]; exact Contig.setCursor _ hinv hk (by omega)
  · apply List.ext_getElem?
    intro j
    rw [List.getElem?_map, List.getElem?_set, List.getElem?_modify, List.getElem?_map]
    have hkl : k < bs.length := by
      apply Classical.byContradiction; intro hn
      rw [List.getElem?_eq_none (by omega)] at hk; cases hk
    by_cases hkj : k = j
    · subst hkj
      simp only [if_true, hkl, hk, Option.map_some, Functor.map]
      rw [blockCells_push c hlt']
    · simp only [hkj, if_false]
      cases hj : bs[j]? with
      | none => rfl
      | some bj =>
        simp only [Option.map_some, Functor.map]
        congr 1
        apply blockCells_other
        rcases Nat.lt_or_gt_of_ne hkj with h | h
        · have := Contig.sep hinv h hk hj; left; omega
        · have := Contig.sep hinv h hj hk; right; have := (Contig.get hinv hj).2.2; omega

theorem mem_of_getElem? {α} {l : List α} {k : Nat} {a : α} (h : l[k]? = some a) : a ∈ l :=
  List.mem_iff_getElem?.mpr ⟨k, h⟩

/-- what one push does under the layout invariant when the block's policy makes progress -/
theorem pushToBlockN_spec {h : Heap} {k : Nat} {b : Block} (c : Cell)
    (hinv : Contig 0 h.blocks h.cells.size) (hk : h.blocks[k]? = some b) (hprog : b.Progress) :
    (pushToBlockN h k c = .err .data ∧ ∃ b' ∈ h.blocks, b'.maxItems ≠ none) ∨
    ∃ h', pushToBlockN h k c = .ok (h', b.cursor) ∧ Contig 0 h'.blocks h'.cells.size ∧
      abs h' = (abs h).modify k (· ++ [c]) ∧ h'.blocks.length = h.blocks.length ∧
      ((∀ b ∈ h.blocks, b.Progress) → ∀ b ∈ h'.blocks, b.Progress) ∧
      ((∀ b ∈ h.blocks, b.maxItems = none) → ∀ b ∈ h'.blocks, b.maxItems = none) := by
  unfold pushToBlockN
  simp only [hk]
  by_cases hfull : b.cursor ≥ b.size
  · simp only [hfull, if_true]
    rcases reallocate_grown hinv hk (Nat.le_of_lt hprog.lt_nextSize) with ⟨he, hm⟩ | ⟨cells', hr, hcontig, hmap⟩
    · left; rw [he]; exact ⟨rfl, hm⟩
    · right
      rw [hr]
      obtain ⟨s, hs⟩ := layout_get (cur := 0) (grown_get hk)
      simp only [hs]
      have hcur : b.cursor < b.nextSize := by have := hprog.lt_nextSize; have := (Contig.get hinv hk).2.2; omega
      obtain ⟨hlt', hc2, hm2⟩ := write_spec (b1 := { b with start := s, size := b.nextSize }) c hcontig hs hcur
      simp only at hlt'
      refine ⟨_, by rw [dif_pos hlt'], hc2, ?_, ?_, ?_, ?_⟩
      · unfold abs; simp only; rw [hm2, hmap]; rfl
      · simp [length_layout, length_grownSizes]
      · intro hall b' hb'
        rcases List.mem_or_eq_of_mem_set hb' with hb' | rfl
        · obtain ⟨p, hp, s', rfl⟩ := layout_mem hb'
          obtain ⟨hm, hz⟩ := grown_mem hp
          refine (hall _ hm).mono (b' := { p.1 with start := s', size := p.2 }) rfl ?_
          rcases hz with hz | ⟨_, hz⟩
          · simp only; omega
          · simp only; rw [hz]; exact Nat.le_of_lt (hall _ hm).lt_nextSize
        · exact hprog.mono rfl (Nat.le_of_lt hprog.lt_nextSize)
      · intro hall b' hb'
        rcases List.mem_or_eq_of_mem_set hb' with hb' | rfl
        · obtain ⟨p, hp, s', rfl⟩ := layout_mem hb'
          exact (hall p.1 (grown_mem hp).1 : p.1.maxItems = none)
        · exact (hall b (mem_of_getElem? hk) : b.maxItems = none)
  · simp only [hfull, if_false, hk]
    right
    obtain ⟨hlt', hc2, hm2⟩ := write_spec c hinv hk (by omega)
    refine ⟨_, by rw [dif_pos hlt'], hc2, ?_, by simp, ?_, ?_⟩
    · unfold abs; simp only; rw [hm2]
    · intro hall b' hb'
      rcases List.mem_or_eq_of_mem_set hb' with hb' | rfl
      · exact hall _ hb'
      · exact hprog.mono rfl (Nat.le_refl _)
    · intro hall b' hb'
      rcases List.mem_or_eq_of_mem_set hb' with hb' | rfl
      · exact hall _ hb'
      · exact (hall b (mem_of_getElem? hk) : b.maxItems = none)

/-! ### the sort of the symbol tables -/

theorem length_insertStable (x : Cell) : ∀ l : List Cell, (insertStable x l).length = l.length + 1
  | [] => rfl
  | y :: ys => by
    unfold insertStable
    split
    · simp
    · simp [length_insertStable x ys]

theorem mem_insertStable {x z : Cell} : ∀ {l : List Cell}, z ∈ insertStable x l ↔ z = x ∨ z ∈ l
  | [] => by simp [insertStable]
  | y :: ys => by
    unfold insertStable
    split
    · simp
    · simp only [List.mem_cons, mem_insertStable (l := ys)]
      constructor
      · rintro (h | h | h) <;> simp [h]
      · rintro (h | h | h) <;> simp [h]

theorem foldl_insert_length : ∀ (l acc : List Cell),
    (l.foldl (fun acc x => insertStable x acc) acc).length = acc.length + l.length
  | [], acc => by simp
  | x :: xs, acc => by
    simp only [List.foldl_cons, List.length_cons]
    rw [foldl_insert_length xs, length_insertStable]; omega

theorem foldl_insert_mem {z : Cell} : ∀ (l acc : List Cell),
    z ∈ l.foldl (fun acc x => insertStable x acc) acc ↔ z ∈ acc ∨ z ∈ l
  | [], acc => by simp
  | x :: xs, acc => by
    simp only [List.foldl_cons, List.mem_cons]
    rw [foldl_insert_mem xs, mem_insertStable]
    constructor
    · rintro ((h | h) | h) <;> simp [h]
    · rintro (h | h | h) <;> simp [h]

theorem length_sortStable (l : List Cell) : (sortStable l).length = l.length := by
  unfold sortStable; rw [foldl_insert_length]; simp

theorem mem_sortStable {z : Cell} {l : List Cell} : z ∈ sortStable l ↔ z ∈ l := by
  unfold sortStable; rw [foldl_insert_mem]; simp

theorem getElem?_splice (l X : List Cell) (s i : Nat) (hs : s + X.length ≤ l.length) :
    (l.take s ++ X ++ l.drop (s + X.length))[i]? =
      if i < s then l[i]? else if i < s + X.length then X[i - s]? else l[i]? := by
  have hts : (l.take s).length = s := by rw [List.length_take]; omega
  rw [List.getElem?_append, List.length_append, hts]
  by_cases h1 : i < s + X.length
  · rw [if_pos h1, List.getElem?_append, hts]
    by_cases h2 : i < s
    · simp [h2, List.getElem?_take]
    · simp [h2, h1]
  · rw [if_neg h1, List.getElem?_drop]
    have : ¬ i < s := by omega
    simp only [this, if_false, h1]
    congr 1; omega

/-- `data[start..start+cursor].sort_by(..)` under the layout invariant: only that block changes -/
theorem sortBlockN_spec {h : Heap} {k : Nat} {b : Block} (hinv : Contig 0 h.blocks h.cells.size)
    (hk : h.blocks[k]? = some b) :
    ∃ cells', sortBlockN h k = .ok { cells := cells', blocks := h.blocks } ∧ cells'.size = h.cells.size ∧
      abs { cells := cells', blocks := h.blocks } = (abs h).modify k sortStable := by
  have hg := Contig.get hinv hk
  have hin : b.start + b.cursor ≤ h.cells.size := by omega
  unfold sortBlockN
  simp only [hk, hin, if_true]
  have hlen : (sortStable ((h.cells.toList.drop b.start).take b.cursor)).length = b.cursor := by
    rw [length_sortStable, List.length_take, List.length_drop, Array.length_toList]; omega
  have hget : ∀ i, (h.cells.toList.take b.start ++ sortStable ((h.cells.toList.drop b.start).take b.cursor) ++
        h.cells.toList.drop (b.start + b.cursor)).toArray[i]? =
      if i < b.start then h.cells[i]? else if i < b.start + b.cursor
        then (sortStable (blockCells h.cells b))[i - b.start]? else h.cells[i]? := by
    intro i
    have := getElem?_splice h.cells.toList (sortStable ((h.cells.toList.drop b.start).take b.cursor)) b.start i
      (by rw [hlen, Array.length_toList]; exact hin)
    rw [hlen] at this
    rw [List.getElem?_toArray, this, Array.getElem?_toList]
    rfl
  refine ⟨_, rfl, ?_, ?_⟩
  · rw [List.size_toArray]
    simp only [List.length_append, hlen, List.length_take, List.length_drop, Array.length_toList]
    omega
  · unfold abs
    simp only
    apply List.ext_getElem?
    intro j
    rw [List.getElem?_map, List.getElem?_modify, List.getElem?_map]
    cases hj : h.blocks[j]? with
    | none => rfl
    | some bj =>
      simp only [Option.map_some, Functor.map]
      congr 1
      by_cases hkj : k = j
      · subst hkj
        rw [hk] at hj; cases hj
        simp only [if_true]
        apply List.ext_getElem?
        intro i
        rw [getElem?_blockCells, hget]
        by_cases hi : i < b.cursor
        · have h1 : ¬ (b.start + i < b.start) := by omega
          have h2 : b.start + i - b.start = i := by omega
          simp [hi, h1, h2]
        · rw [if_neg hi, List.getElem?_eq_none]
          rw [length_sortStable, length_blockCells hin]; omega
      · simp only [hkj, if_false]
        apply blockCells_ext rfl
        intro i hi
        rw [hget]
        rcases Nat.lt_or_gt_of_ne hkj with hlt | hlt
        · have := Contig.sep hinv hlt hk hj
          have h1 : ¬ (bj.start + i < b.start) := by omega
          have h2 : ¬ (bj.start + i < b.start + b.cursor) := by omega
          simp [h1, h2]
        · have := Contig.sep hinv hlt hj hk
          have := (Contig.get hinv hj).2.2
          have h1 : bj.start + i < b.start := by omega
          simp [h1]

/-! ### one operation, a history -/

def NoMax (h : Heap) : Prop := ∀ b ∈ h.blocks, b.maxItems = none

instance (h : Heap) : Decidable (NoMax h) := by unfold NoMax; infer_instance

/-- layout invariant + every block's growth policy makes progress -/
structure Good (h : Heap) : Prop where
  contig : Contig 0 h.blocks h.cells.size
  progress : ∀ b ∈ h.blocks, b.Progress

theorem modify_modify {α} (l : List α) (k : Nat) (f g : α → α) : (l.modify k f).modify k g = l.modify k (g ∘ f) := by
  apply List.ext_getElem?
  intro j
  simp only [List.getElem?_modify]
  cases l[j]? with
  | none => rfl
  | some a => by_cases hk : k = j <;> simp [hk, Functor.map]

theorem get_of_lt {bs : List Block} {k : Nat} (h : k < bs.length) : ∃ b, bs[k]? = some b :=
  ⟨bs[k], List.getElem?_eq_getElem h⟩

theorem step_spec {h : Heap} (op : Op) (hg : Good h) (hw : op.which < h.blocks.length) :
    (step h op = .err .data ∧ ¬ NoMax h) ∨
    ∃ h', step h op = .ok h' ∧ Good h' ∧ abs h' = Tables.step (abs h) op ∧ h'.blocks.length = h.blocks.length ∧
      (NoMax h → NoMax h') := by
  obtain ⟨b, hk⟩ := get_of_lt hw
  unfold step
  rcases pushToBlockN_spec op.cell hg.contig hk (hg.progress b (mem_of_getElem? hk)) with
    ⟨he, b', hb', hm⟩ | ⟨h1, hr, hc1, habs1, hlen1, hprog1, hmax1⟩
  · left
    refine ⟨?_, fun hno => hm (hno b' hb')⟩
    unfold pushSortedN
    split <;> simp [he]
  · right
    by_cases hs : sortedTable op.which = true
    · simp only [hs, if_true]
      unfold pushSortedN
      simp only [hr]
      obtain ⟨b1, hk1⟩ := get_of_lt (bs := h1.blocks) (k := op.which) (by omega)
      obtain ⟨cells', hsr, hsz, habs2⟩ := sortBlockN_spec hc1 hk1
      refine ⟨_, hsr, ⟨by simpa [hsz] using hc1, hprog1 hg.progress⟩, ?_, hlen1, hmax1⟩
      rw [habs2, habs1, modify_modify]
      unfold Tables.step Tables.push Tables.pushTable
      simp only [hs, if_true]
      rfl
    · simp only [hs]
      simp only [hr]
      refine ⟨h1, by simp, ⟨hc1, hprog1 hg.progress⟩, ?_, hlen1, hmax1⟩
      rw [habs1]
      unfold Tables.step Tables.push Tables.pushTable
      simp only [hs]
      rfl

theorem run_spec : ∀ (ops : List Op) {h : Heap}, Good h → (∀ op ∈ ops, op.which < h.blocks.length) →
    (run ops h = .err .data ∧ ¬ NoMax h) ∨
    ∃ h', run ops h = .ok h' ∧ Good h' ∧ abs h' = Tables.run ops (abs h) ∧ h'.blocks.length = h.blocks.length ∧
      (NoMax h → NoMax h')
  | [], h, hg, _ => Or.inr ⟨h, rfl, hg, rfl, rfl, id⟩
  | op :: ops, h, hg, hw => by
    rcases step_spec op hg (hw op (by simp)) with ⟨he, hm⟩ | ⟨h1, hr, hg1, habs1, hlen1, hmax1⟩
    · left; exact ⟨by simp [run, he], hm⟩
    · rcases run_spec ops hg1 (fun o ho => by rw [hlen1]; exact hw o (by simp [ho])) with
        ⟨he, hm⟩ | ⟨h2, hr2, hg2, habs2, hlen2, hmax2⟩
      · left; exact ⟨by simp [run, hr, he], fun hno => hm (hmax1 hno)⟩
      · right
        exact ⟨h2, by simp [run, hr, hr2], hg2, by rw [habs2, habs1]; rfl, by omega, fun hno => hmax2 (hmax1 hno)⟩

/-- an operation on a table that does not exist panics (so a history that ran to the end only named existing tables) -/
theorem step_ok_which {h h' : Heap} {op : Op} (hr : step h op = .ok h') : op.which < h.blocks.length := by
  apply Classical.byContradiction
  intro hn
  have hnone : h.blocks[op.which]? = none := List.getElem?_eq_none (by omega)
  unfold step pushSortedN pushToBlockN at hr
  simp only [hnone] at hr
  split at hr <;> simp at hr

/-- `run` to the end implies every step ran -/
theorem run_ok_cons {op : Op} {ops : List Op} {h h' : Heap} (hr : run (op :: ops) h = .ok h') :
    ∃ h1, step h op = .ok h1 ∧ run ops h1 = .ok h' := by
  unfold run at hr
  cases hs : step h op with
  | ok h1 => rw [hs] at hr; exact ⟨h1, rfl, hr⟩
  | err e => rw [hs] at hr; cases hr
  | panic s => rw [hs] at hr; cases hr
  | fuelOut => rw [hs] at hr; cases hr

theorem run_ok_spec : ∀ (ops : List Op) {h h' : Heap}, Good h → run ops h = .ok h' →
    Good h' ∧ abs h' = Tables.run ops (abs h) ∧ h'.blocks.length = h.blocks.length
  | [], h, h', hg, hr => by cases hr; exact ⟨hg, rfl, rfl⟩
  | op :: ops, h, h', hg, hr => by
    obtain ⟨h1, hs, hr1⟩ := run_ok_cons hr
    rcases step_spec op hg (step_ok_which hs) with ⟨he, _⟩ | ⟨h1', hs', hg1, habs1, hlen1, _⟩
    · rw [hs] at he; cases he
    · rw [hs] at hs'; cases hs'
      obtain ⟨hg2, habs2, hlen2⟩ := run_ok_spec ops hg1 hr1
      exact ⟨hg2, by rw [habs2, habs1]; rfl, by omega⟩

/-! ### reading -/

theorem getN_of_abs {h : Heap} {k i : Nat} {t : List Cell} {c : Cell} (hinv : Contig 0 h.blocks h.cells.size)
    (ht : (abs h)[k]? = some t) (hc : t[i]? = some c) : getN h k i = .ok c := by
  unfold abs at ht
  rw [List.getElem?_map] at ht
  cases hb : h.blocks[k]? with
  | none => rw [hb] at ht; cases ht
  | some b =>
    rw [hb] at ht
    simp only [Option.map_some] at ht
    cases ht
    rw [getElem?_blockCells] at hc
    by_cases hi : i < b.cursor
    · rw [if_pos hi] at hc
      have hlt : b.start + i < h.cells.size := by
        apply Classical.byContradiction; intro hn
        rw [Array.getElem?_eq_none (by omega)] at hc; cases hc
      rw [Array.getElem?_eq_getElem hlt] at hc
      unfold getN
      simp only [hb, show ¬ (i ≥ b.cursor) by omega, if_false, dif_pos hlt]
      cases hc; rfl
    · rw [if_neg hi] at hc; cases hc

theorem Tables.run_prefix {k : Nat} (hk : sortedTable k = false) : ∀ (ops : List Op) {T : Tables} {t : List Cell},
    T[k]? = some t → ∃ t', (Tables.run ops T)[k]? = some (t ++ t')
  | [], T, t, h => ⟨[], by simpa [Tables.run] using h⟩
  | op :: ops, T, t, h => by
    unfold Tables.run
    by_cases hw : op.which = k
    · have : (Tables.step T op)[k]? = some (t ++ [op.cell]) := by
        unfold Tables.step Tables.push Tables.pushTable
        rw [List.getElem?_modify, h, hw, hk]; simp [Functor.map]
      obtain ⟨t', ht'⟩ := Tables.run_prefix hk ops this
      exact ⟨op.cell :: t', by simpa using ht'⟩
    · have : (Tables.step T op)[k]? = some t := by
        unfold Tables.step Tables.push
        rw [List.getElem?_modify, h]; simp [Functor.map, hw]
      exact Tables.run_prefix hk ops this

theorem Tables.pushTable_mem {k : Nat} {c x : Cell} {t : List Cell} (hx : x ∈ t) : x ∈ Tables.pushTable k c t := by
  unfold Tables.pushTable
  split
  · rw [mem_sortStable]; simp [hx]
  · simp [hx]

theorem Tables.pushTable_self (k : Nat) (c : Cell) (t : List Cell) : c ∈ Tables.pushTable k c t := by
  unfold Tables.pushTable
  split
  · rw [mem_sortStable]; simp
  · simp

theorem Tables.run_mem {k : Nat} {x : Cell} : ∀ (ops : List Op) {T : Tables} {t : List Cell},
    T[k]? = some t → x ∈ t → ∃ t', (Tables.run ops T)[k]? = some t' ∧ x ∈ t'
  | [], T, t, h, hx => ⟨t, by simpa [Tables.run] using h, hx⟩
  | op :: ops, T, t, h, hx => by
    unfold Tables.run
    by_cases hw : op.which = k
    · have : (Tables.step T op)[k]? = some (Tables.pushTable k op.cell t) := by
        unfold Tables.step Tables.push
        rw [List.getElem?_modify, h, hw]; simp [Functor.map]
      exact Tables.run_mem ops this (Tables.pushTable_mem hx)
    · have : (Tables.step T op)[k]? = some t := by
        unfold Tables.step Tables.push
        rw [List.getElem?_modify, h]; simp [Functor.map, hw]
      exact Tables.run_mem ops this hx

end Garnish.Store
