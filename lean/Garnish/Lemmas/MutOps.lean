/-
`WFq` is kept by the operations that append cells or move a head: the public `add_*` value constructors, text and
byte lists, the register / input-value / frame stacks, the retention count.
-/
import Garnish.Lemmas.MutWF
import Garnish.Lemmas.OptimizeOps2
set_option maxHeartbeats 1000000
namespace Garnish.BasicOpt
open Garnish

/-- pushing one cell that is read without its neighbours, is not an input-value cell, and links to existing nodes -/
theorem push_solo_wfq {s s' : Store} {c : Cell} {i : Nat} {sh : Shape} (hwf : WFq s) (hso : soloShape c = some sh)
    (hns : isSV c = false) (hk : ∀ k ∈ sh.kids, k < s.cells.size ∧ isNode s.cells k = true)
    (hp : s.push c = .ok (s', i)) : WFq s' ∧ i = s.cells.size ∧ isNode s'.cells i = true := by
  obtain ⟨hi, hc, hf⟩ := push_ok hp
  have hcells : s'.cells = s.cells ++ #[c] := by rw [hc]; simp
  have hshape : shape s'.cells s.cells.size = some sh := by rw [hc]; exact shape_push_solo _ _ _ hso
  have hnode : isNode s'.cells s.cells.size = true := by simp [isNode, hshape]
  refine ⟨append_wfq #[c] hwf hcells hf.1 hf.2.2.1 ?_ ?_ ?_ ?_, hi, by rw [hi]; exact hnode⟩
  · intro j hj1 hj2
    have hj : j = s.cells.size := by rw [hc] at hj2; simp at hj2; omega
    subst hj
    have hget : s'.cells[s.cells.size]? = some c := by rw [hc]; simp
    refine ⟨?_, ?_, ?_⟩
    · rw [nodeOKq_of_cell hget hns]
      simp only [nodeOK, hshape, List.all_eq_true, Bool.and_eq_true, decide_eq_true_eq]
      intro k hkm
      obtain ⟨h1, h2⟩ := hk k hkm
      exact ⟨h1, by rw [hcells, isNode_append _ _ hwf.headers h1]; exact h2⟩
    · simp only [listOK, hget]
      cases c <;> simp only [soloShape] at hso ⊢ <;> first | rfl | (simp at hso)
    · simp only [headerOK, hget]
      cases c <;> simp only [soloShape] at hso ⊢ <;> first | rfl | (simp at hso)
  · rw [hf.2.2.2.2.1, hcells]; exact headOK_appendq hwf _ hwf.reg
  · rw [hf.2.2.2.1, hcells]; exact headSV_append _ hwf.val
  · rw [hf.2.2.2.2.2, hcells]; exact headOK_appendq hwf _ hwf.frm

/-- `push_register` keeps `WFq` -/
theorem pushRegister_wfq {s s' : Store} {v : Nat} (hwf : WFq s) (hv : isNode s.cells v = true)
    (h : Store.pushRegister s v = .ok s') : WFq s' := by
  have hvlt : v < s.cells.size := node_lt hv
  simp only [Store.pushRegister, bind_eq_ok, pure_eq_ok] at h
  obtain ⟨⟨s1, i⟩, hp, hs'⟩ := h
  subst hs'
  cases hreg : s.currentRegister with
  | none =>
    rw [hreg] at hp
    obtain ⟨hw, _, hn⟩ := push_solo_wfq (sh := ⟨.registerRoot 0, [], [v]⟩) hwf rfl rfl
      (by intro k hk; simp at hk; subst hk; exact ⟨hvlt, hv⟩) hp
    exact hw.withHeads _ _ _ hn hw.val hw.frm
  | some p =>
    rw [hreg] at hp
    have hpn := hwf.reg
    rw [hreg] at hpn
    obtain ⟨hw, _, hn⟩ := push_solo_wfq (sh := ⟨.register 0 0, [], [p, v]⟩) hwf rfl rfl
      (by intro k hk
          simp at hk
          rcases hk with rfl | rfl
          · exact ⟨head_lt hpn, hpn⟩
          · exact ⟨hvlt, hv⟩) hp
    exact hw.withHeads _ _ _ hn hw.val hw.frm

/-- `push_value_stack` keeps `WFq`: the new cell continues the chain -/
theorem pushValue_wfq {s s' : Store} {v : Nat} (hwf : WFq s) (hv : isNode s.cells v = true)
    (h : Store.pushValue s v = .ok s') : WFq s' := by
  have hvlt : v < s.cells.size := node_lt hv
  simp only [Store.pushValue, bind_eq_ok, pure_eq_ok] at h
  obtain ⟨⟨s1, i⟩, hp, hs'⟩ := h
  subst hs'
  -- the pushed cell
  have key : ∃ c, s.push c = .ok (s1, i) ∧ isSV c = true ∧
      ((∃ p, c = .value p v ∧ s.currentValue = some p) ∨ (c = .valueRoot v ∧ s.currentValue = none)) := by
    cases hcur : s.currentValue with
    | none => rw [hcur] at hp; exact ⟨_, hp, rfl, Or.inr ⟨rfl, rfl⟩⟩
    | some p => rw [hcur] at hp; exact ⟨_, hp, rfl, Or.inl ⟨p, rfl, rfl⟩⟩
  obtain ⟨c, hpc, hsv, hkind⟩ := key
  obtain ⟨hi, hc, hf⟩ := push_ok hpc
  have hcells : s1.cells = s.cells ++ #[c] := by rw [hc]; simp
  have hget : s1.cells[s.cells.size]? = some c := by rw [hc]; simp
  have hsvNew : svAt s1.cells s.cells.size = true := by simp [svAt, hget, hsv]
  have hw1 : WFq s1 := by
    refine append_wfq #[c] hwf hcells hf.1 hf.2.2.1 ?_ ?_ ?_ ?_
    · intro j hj1 hj2
      have hj : j = s.cells.size := by rw [hc] at hj2; simp at hj2; omega
      subst hj
      have hvn : isNode s1.cells v = true := by rw [hcells, isNode_append _ _ hwf.headers hvlt]; exact hv
      refine ⟨?_, ?_, ?_⟩
      · rcases hkind with ⟨p, rfl, hcur⟩ | ⟨rfl, _⟩
        · have hps := hwf.val
          rw [hcur] at hps
          simp only [headSV] at hps
          have hplt := svAt_lt hps
          simp only [nodeOKq, hget, Bool.and_eq_true, decide_eq_true_eq]
          exact ⟨⟨hplt, by rw [hcells, svAt_append _ _ hplt]; exact hps⟩, hvn⟩
        · simp only [nodeOKq, hget]; exact hvn
      · rcases hkind with ⟨p, rfl, _⟩ | ⟨rfl, _⟩ <;> simp [listOK, hget]
      · rcases hkind with ⟨p, rfl, _⟩ | ⟨rfl, _⟩ <;> simp [headerOK, hget]
    · rw [hf.2.2.2.2.1, hcells]; exact headOK_appendq hwf _ hwf.reg
    · rw [hf.2.2.2.1, hcells]; exact headSV_append _ hwf.val
    · rw [hf.2.2.2.2.2, hcells]; exact headOK_appendq hwf _ hwf.frm
  exact hw1.withHeads _ _ _ hw1.reg (by rw [hi]; exact hsvNew) hw1.frm

theorem retainAll_wfq {s : Store} (hwf : WFq s) : WFq s.retainAll := by
  refine ⟨Nat.le_refl _, hwf.nodes, hwf.lists, hwf.headers, ?_, hwf.reg, hwf.val, hwf.frm, hwf.syms⟩
  intro i _
  simp [extentOK, Store.retainAll, Store.cursor]

theorem setRetention_wfq {s : Store} {n : Nat} (hwf : WFq s) (hn : n ≤ s.cells.size)
    (hext : ∀ i, i < n → extentOK s.cells n i = true) : WFq (s.setRetention n) :=
  ⟨hn, hwf.nodes, hwf.lists, hwf.headers, hext, hwf.reg, hwf.val, hwf.frm, hwf.syms⟩

/-- `pop_register` keeps `WFq` -/
theorem popRegister_wfq {s s' : Store} {r : Option Nat} (hwf : WFq s) (h : Store.popRegister s = .ok (s', r)) :
    WFq s' ∧ (∀ v, r = some v → isNode s'.cells v = true) := by
  unfold Store.popRegister at h
  cases hreg : s.currentRegister with
  | none =>
    simp only [hreg, Outcome.ok.injEq, Prod.mk.injEq] at h
    obtain ⟨h1, h2⟩ := h
    subst h1; subst h2
    exact ⟨hwf, fun v hv => by cases hv⟩
  | some i =>
    simp only [hreg, bind_eq_ok] at h
    obtain ⟨c, hg, h2⟩ := h
    have hc := get_ok hg
    cases c <;> simp only [pure_eq_ok, Prod.mk.injEq] at h2 <;> try (simp at h2; done)
    · rename_i p v
      obtain ⟨h1, h2⟩ := h2
      subst h1; subst h2
      have hsh : shape s.cells i = some ⟨.register 0 0, [], [p, v]⟩ := shape_of_solo hc rfl
      exact ⟨hwf.withHeads _ _ _ (hwf.kid_node hsh (by simp)) hwf.val hwf.frm,
        fun v' hv' => by cases hv'; exact hwf.kid_node hsh (by simp)⟩
    · rename_i v
      obtain ⟨h1, h2⟩ := h2
      subst h1; subst h2
      have hsh : shape s.cells i = some ⟨.registerRoot 0, [], [v]⟩ := shape_of_solo hc rfl
      exact ⟨hwf.withHeads _ _ _ rfl hwf.val hwf.frm, fun v' hv' => by cases hv'; exact hwf.kid_node hsh (by simp)⟩

/-- `pop_value_stack` keeps `WFq`: the head moves down the chain -/
theorem popValue_wfq {s : Store} (hwf : WFq s) :
    WFq (Store.popValue s).1 ∧ (∀ v, (Store.popValue s).2 = some v → isNode s.cells v = true) := by
  unfold Store.popValue
  cases hcur : s.currentValue with
  | none => exact ⟨hwf, fun v hv => by cases hv⟩
  | some i =>
    simp only
    cases hc : s.cells[i]? with
    | none => exact ⟨hwf, fun v hv => by cases hv⟩
    | some c =>
      cases c <;> simp only [] <;> try exact ⟨hwf, fun v hv => by cases hv⟩
      · rename_i p v
        have hsh : shape s.cells i = some ⟨.value 0 0, [], [p, v]⟩ := shape_of_solo hc rfl
        exact ⟨hwf.withHeads _ _ _ hwf.reg (hwf.chain i p v hc).2 hwf.frm,
          fun v' hv' => by cases hv'; exact hwf.kid_node hsh (by simp)⟩
      · rename_i v
        have hsh : shape s.cells i = some ⟨.valueRoot 0, [], [v]⟩ := shape_of_solo hc rfl
        exact ⟨hwf.withHeads _ _ _ hwf.reg rfl hwf.frm, fun v' hv' => by cases hv'; exact hwf.kid_node hsh (by simp)⟩

/-- `pop_frame` keeps `WFq` -/
theorem popFrame_wfq {s s' : Store} {r : Option Nat} (hwf : WFq s) (h : Store.popFrame s = .ok (s', r)) : WFq s' := by
  unfold Store.popFrame at h
  cases hcf : s.currentFrame with
  | none =>
    simp only [hcf, Outcome.ok.injEq, Prod.mk.injEq] at h
    rw [← h.1]; exact hwf
  | some i =>
    simp only [hcf, bind_eq_ok] at h
    obtain ⟨ret, _, c, hg, h2⟩ := h
    have hc := get_ok hg
    have hfn := hwf.frm
    rw [hcf] at hfn
    simp only [headOK, isNode, Option.isSome_iff_exists] at hfn
    obtain ⟨sh, hsh⟩ := hfn
    have hkid : ∀ k ∈ sh.kids, isNode s.cells k = true := fun k hk => hwf.kid_node hsh hk
    unfold shape at hsh
    rw [hc] at hsh
    cases c <;> simp only [pure_eq_ok, Prod.mk.injEq] at h2 <;> try (simp at h2; done)
    all_goals obtain ⟨h2, _⟩ := h2
    all_goals subst h2
    all_goals simp only [Option.map_eq_some_iff] at hsh
    all_goals obtain ⟨jp, _, rfl⟩ := hsh
    · exact hwf.withHeads _ _ _ (hkid _ (by simp)) hwf.val (hkid _ (by simp))
    · exact hwf.withHeads _ _ _ rfl hwf.val (hkid _ (by simp))
    · exact hwf.withHeads _ _ _ (hkid _ (by simp)) hwf.val rfl
    · exact hwf.withHeads _ _ _ rfl hwf.val rfl

/-- a header followed by its inline items, appended to a `WFq` store -/
theorem inline_block_wfq {s s' : Store} {hdr : Cell} {items : List Cell} (hwf : WFq s)
    (hcells : s'.cells = s.cells ++ (#[hdr] ++ items.toArray)) (hf : SameFrame s s')
    (hkind : (hdr = .charList items.length ∧ ∀ c ∈ items, isChar c = true) ∨
             (hdr = .byteList items.length ∧ ∀ c ∈ items, isByte c = true) ∨
             (hdr = .symbolList items.length ∧ ∀ c ∈ items, isSymPart c = true)) :
    WFq s' ∧ isNode s'.cells s.cells.size = true := by
  have hlist : s'.cells.toList = (s.cells.toList ++ [hdr]) ++ items ++ [] := by rw [hcells]; simp
  have hhdr : s'.cells[s.cells.size]? = some hdr := by
    rw [← Array.getElem?_toList, hlist]; simp
  have hsize : s'.cells.size = s.cells.size + 1 + items.length := by rw [hcells]; simp; omega
  have hshape : shape s'.cells s.cells.size = some ⟨hdr, items, []⟩ := by
    rcases hkind with ⟨rfl, hall'⟩ | ⟨rfl, hall'⟩ | ⟨rfl, hall'⟩
    · have hread := inlineCells_suffix (p := isChar) items _ [] s'.cells hall' hlist
      simp only [List.length_append, List.length_singleton, Array.length_toList] at hread
      unfold shape; rw [hhdr]; simp only [hread, Option.map_some]
    · have hread := inlineCells_suffix (p := isByte) items _ [] s'.cells hall' hlist
      simp only [List.length_append, List.length_singleton, Array.length_toList] at hread
      unfold shape; rw [hhdr]; simp only [hread, Option.map_some]
    · have hread := inlineCells_suffix (p := isSymPart) items _ [] s'.cells hall' hlist
      simp only [List.length_append, List.length_singleton, Array.length_toList] at hread
      unfold shape; rw [hhdr]; simp only [hread, Option.map_some]
  have hnode : isNode s'.cells s.cells.size = true := by simp [isNode, hshape]
  have hhns : isSV hdr = false := by rcases hkind with ⟨rfl, _⟩ | ⟨rfl, _⟩ | ⟨rfl, _⟩ <;> rfl
  refine ⟨append_wfq _ hwf hcells hf.1 hf.2.2.1 ?_ ?_ ?_ ?_, hnode⟩
  · intro j hj1 hj2
    by_cases hj : j = s.cells.size
    · subst hj
      refine ⟨by rw [nodeOKq_of_cell hhdr hhns]; simp [nodeOK, hshape], ?_, ?_⟩
      · simp only [listOK, hhdr]
        rcases hkind with ⟨rfl, _⟩ | ⟨rfl, _⟩ | ⟨rfl, _⟩ <;> rfl
      · simp only [headerOK, hhdr]
        rcases hkind with ⟨rfl, _⟩ | ⟨rfl, _⟩ | ⟨rfl, _⟩ <;> exact hnode
    · obtain ⟨t, rfl⟩ : ∃ t, j = s.cells.size + 1 + t := ⟨j - (s.cells.size + 1), by omega⟩
      have ht : t < items.length := by omega
      obtain ⟨c, hct⟩ : ∃ c, items[t]? = some c := ⟨items[t], by simp [ht]⟩
      have hget : s'.cells[s.cells.size + 1 + t]? = some c := by
        rw [← Array.getElem?_toList, hlist, List.append_nil]
        have e : s.cells.size + 1 + t = (s.cells.toList ++ [hdr]).length + t := by simp
        rw [e, List.getElem?_append_right (Nat.le_add_right _ _)]
        simpa using hct
      have hmem : c ∈ items := List.mem_of_getElem? hct
      have hleaf : soloShape c = some ⟨c, [], []⟩ ∧ isSV c = false ∧ (∀ cells : Array Cell, ∀ j, cells[j]? = some c →
          listOK cells j = true ∧ headerOK cells j = true) := by
        rcases hkind with ⟨_, hall'⟩ | ⟨_, hall'⟩ | ⟨_, hall'⟩ <;> have := hall' _ hmem <;>
          cases c <;> simp [isChar, isByte, isSymPart] at this <;>
          exact ⟨rfl, rfl, fun cells j h => by simp [listOK, headerOK, h]⟩
      have hsh : shape s'.cells (s.cells.size + 1 + t) = some ⟨c, [], []⟩ := shape_of_solo hget hleaf.1
      exact ⟨by rw [nodeOKq_of_cell hget hleaf.2.1]; simp [nodeOK, hsh], (hleaf.2.2 _ _ hget).1, (hleaf.2.2 _ _ hget).2⟩
  · rw [hf.2.2.2.2.1, hcells]; exact headOK_appendq hwf _ hwf.reg
  · rw [hf.2.2.2.1, hcells]; exact headSV_append _ hwf.val
  · rw [hf.2.2.2.2.2, hcells]; exact headOK_appendq hwf _ hwf.frm

/-- `add_string` / `parse_add_char_list` / `add_byte_slice` -/
theorem addInline_wfq {s s' : Store} {hdr : Cell} {items : List Cell} {a : Nat} (hwf : WFq s)
    (hkind : (hdr = .charList items.length ∧ ∀ c ∈ items, isChar c = true) ∨
             (hdr = .byteList items.length ∧ ∀ c ∈ items, isByte c = true))
    (h : Store.addInline s hdr items = .ok (s', a)) : WFq s' ∧ a = s.cells.size ∧ isNode s'.cells a = true := by
  simp only [Store.addInline, bind_eq_ok, pure_eq_ok, Prod.mk.injEq] at h
  obtain ⟨⟨s1, i⟩, hp, s2, hall, hs2, hia⟩ := h
  subst hs2; subst hia
  obtain ⟨hi, hc1, hf1⟩ := push_ok hp
  obtain ⟨hc2, hf2⟩ := pushAll_spec _ _ _ hall
  have hcells : s2.cells = s.cells ++ (#[hdr] ++ items.toArray) := by
    rw [hc2, hc1]; apply Array.ext'; simp
  obtain ⟨hw, hn⟩ := inline_block_wfq hwf hcells (hf1.trans hf2) (by
    rcases hkind with h | h
    · exact Or.inl h
    · exact Or.inr (Or.inl h))
  exact ⟨hw, hi, by rw [hi]; exact hn⟩

end Garnish.BasicOpt
