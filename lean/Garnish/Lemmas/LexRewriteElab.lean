/-
Text-level rewrites, elaboration side (C18): the elaboration of a reference tree (`Abs.Source.elaborate`) reads the token
list only through the TEXTS of the tokens at the positions of nodes whose definition uses its text (literals,
identifiers, properties and the three backtick applications) — `elaborate_congr`.
-/
import Garnish.Lemmas.SourceRep
namespace Garnish.Abs.Source
open Garnish Garnish.Gen Garnish.Spec Garnish.Model.Parser

/-- definitions whose elaboration looks at the token text -/
def readsText : Definition → Bool
  | .number | .charList | .byteList | .symbol | .property | .identifier | .prefixApply | .suffixApply | .infixApply => true
  | _ => false

/-- (definition, token position) of every node -/
def nodeDefs : RTree → List (Definition × Nat)
  | .nil => []
  | .node l d k r => nodeDefs l ++ (d, k) :: nodeDefs r
  | .group d k inner => (d, k) :: nodeDefs inner

variable {F : Type} (pf : List Char → Option F)

theorem leafE_congr (d : Definition) (t t' : List Char) (h : readsText d = true → t = t') :
    leafE pf d t = leafE pf d t' := by
  by_cases hr : readsText d = true
  · rw [h hr]
  · cases d <;> first | exact absurd rfl hr | rfl

theorem preE_congr (d : Definition) (t t' : List Char) (x : Res F) (h : readsText d = true → t = t') :
    preE d t x = preE d t' x := by
  by_cases hr : readsText d = true
  · rw [h hr]
  · have : (d == .prefixApply) = false := by
      cases d <;> first | exact absurd rfl hr | rfl
    simp [preE, this]

theorem sufE_congr (d : Definition) (t t' : List Char) (x : Res F) (h : readsText d = true → t = t') :
    sufE d t x = sufE d t' x := by
  by_cases hr : readsText d = true
  · rw [h hr]
  · have : (d == .suffixApply) = false := by
      cases d <;> first | exact absurd rfl hr | rfl
    simp [sufE, this]

theorem binE_congr (d : Definition) (t t' : List Char) (b1 b2 b3 b4 b5 : Bool) (x y : Res F)
    (h : readsText d = true → t = t') : binE d t b1 b2 b3 b4 b5 x y = binE d t' b1 b2 b3 b4 b5 x y := by
  by_cases hr : readsText d = true
  · rw [h hr]
  · have hd : d ≠ .infixApply := by
      intro hd; subst hd; exact hr rfl
    unfold binE
    dsimp only
    split
    · rfl
    · split <;> first | exact absurd rfl hd | rfl

theorem nodeDefs_self (l : RTree) (d : Definition) (k : Nat) (r : RTree) : (d, k) ∈ nodeDefs (.node l d k r) := by
  simp [nodeDefs]
theorem nodeDefs_left (l : RTree) (d : Definition) (k : Nat) (r : RTree) {x : Definition × Nat} (h : x ∈ nodeDefs l) :
    x ∈ nodeDefs (.node l d k r) := by simp [nodeDefs, h]
theorem nodeDefs_right (l : RTree) (d : Definition) (k : Nat) (r : RTree) {x : Definition × Nat} (h : x ∈ nodeDefs r) :
    x ∈ nodeDefs (.node l d k r) := by simp [nodeDefs, h]
theorem nodeDefs_inner (d : Definition) (k : Nat) (i : RTree) {x : Definition × Nat} (h : x ∈ nodeDefs i) :
    x ∈ nodeDefs (.group d k i) := by simp [nodeDefs, h]

/-- `go` reads the tokens only through the texts at text-reading nodes -/
theorem go_congr (κ : Nat → Nat) (toks toks' : List PToken) (t : RTree)
    (h : ∀ d k, (d, k) ∈ nodeDefs t → readsText d = true → textAt toks k = textAt toks' k) :
    go pf κ toks t = go pf κ toks' t := by
  match t, h with
  | .nil, _ => rfl
  | .group d k inner, h =>
    have hi := go_congr κ toks toks' inner (fun d' k' hm hr => h d' k' (nodeDefs_inner _ _ _ hm) hr)
    unfold go
    rw [hi]
  | .node .nil d k .nil, h =>
    have ht : readsText d = true → textAt toks k = textAt toks' k := fun hd => h d k (nodeDefs_self _ _ _ _) hd
    unfold go
    rw [leafE_congr pf d _ _ ht]
  | .node .nil d k (.node .nil d2 k2 body), h =>
    have ht : readsText d = true → textAt toks k = textAt toks' k := fun hd => h d k (nodeDefs_self _ _ _ _) hd
    have hb := go_congr κ toks toks' body (fun d' k' hm hr => h d' k' (nodeDefs_right _ _ _ _ (nodeDefs_right _ _ _ _ hm)) hr)
    have hr' := go_congr κ toks toks' (.node .nil d2 k2 body) (fun d' k' hm hr => h d' k' (nodeDefs_right _ _ _ _ hm) hr)
    unfold go
    rw [leafE_congr pf d _ _ ht, hb, hr']
    split
    · rfl
    · split
      · exact preE_congr d _ _ _ ht
      · rfl
  | .node .nil d k (.node (.node a1 a2 a3 a4) d2 k2 body), h =>
    have ht : readsText d = true → textAt toks k = textAt toks' k := fun hd => h d k (nodeDefs_self _ _ _ _) hd
    have hr' := go_congr κ toks toks' (.node (.node a1 a2 a3 a4) d2 k2 body) (fun d' k' hm hr => h d' k' (nodeDefs_right _ _ _ _ hm) hr)
    unfold go
    rw [hr']
    split
    · exact preE_congr d _ _ _ ht
    · rfl
  | .node .nil d k (.node (.group a1 a2 a3) d2 k2 body), h =>
    have ht : readsText d = true → textAt toks k = textAt toks' k := fun hd => h d k (nodeDefs_self _ _ _ _) hd
    have hr' := go_congr κ toks toks' (.node (.group a1 a2 a3) d2 k2 body) (fun d' k' hm hr => h d' k' (nodeDefs_right _ _ _ _ hm) hr)
    unfold go
    rw [hr']
    split
    · exact preE_congr d _ _ _ ht
    · rfl
  | .node .nil d k (.group a1 a2 a3), h =>
    have ht : readsText d = true → textAt toks k = textAt toks' k := fun hd => h d k (nodeDefs_self _ _ _ _) hd
    have hr' := go_congr κ toks toks' (.group a1 a2 a3) (fun d' k' hm hr => h d' k' (nodeDefs_right _ _ _ _ hm) hr)
    unfold go
    rw [hr']
    split
    · exact preE_congr d _ _ _ ht
    · rfl
  | .node (.node b1 b2 b3 b4) d k .nil, h =>
    have ht : readsText d = true → textAt toks k = textAt toks' k := fun hd => h d k (nodeDefs_self _ _ _ _) hd
    have hl := go_congr κ toks toks' (.node b1 b2 b3 b4) (fun d' k' hm hr => h d' k' (nodeDefs_left _ _ _ _ hm) hr)
    unfold go
    rw [hl]
    split
    · exact sufE_congr d _ _ _ ht
    · rfl
  | .node (.node b1 b2 b3 b4) d k (.node c1 c2 c3 c4), h =>
    have ht : readsText d = true → textAt toks k = textAt toks' k := fun hd => h d k (nodeDefs_self _ _ _ _) hd
    have hl := go_congr κ toks toks' (.node b1 b2 b3 b4) (fun d' k' hm hr => h d' k' (nodeDefs_left _ _ _ _ hm) hr)
    have hr' := go_congr κ toks toks' (.node c1 c2 c3 c4) (fun d' k' hm hr => h d' k' (nodeDefs_right _ _ _ _ hm) hr)
    unfold go
    rw [hl, hr']
    split
    · exact binE_congr d _ _ _ _ _ _ _ _ _ ht
    · rfl
  | .node (.node b1 b2 b3 b4) d k (.group c1 c2 c3), h =>
    have ht : readsText d = true → textAt toks k = textAt toks' k := fun hd => h d k (nodeDefs_self _ _ _ _) hd
    have hl := go_congr κ toks toks' (.node b1 b2 b3 b4) (fun d' k' hm hr => h d' k' (nodeDefs_left _ _ _ _ hm) hr)
    have hr' := go_congr κ toks toks' (.group c1 c2 c3) (fun d' k' hm hr => h d' k' (nodeDefs_right _ _ _ _ hm) hr)
    unfold go
    rw [hl, hr']
    split
    · exact binE_congr d _ _ _ _ _ _ _ _ _ ht
    · rfl
  | .node (.group b1 b2 b3) d k .nil, h =>
    have ht : readsText d = true → textAt toks k = textAt toks' k := fun hd => h d k (nodeDefs_self _ _ _ _) hd
    have hl := go_congr κ toks toks' (.group b1 b2 b3) (fun d' k' hm hr => h d' k' (nodeDefs_left _ _ _ _ hm) hr)
    unfold go
    rw [hl]
    split
    · exact sufE_congr d _ _ _ ht
    · rfl
  | .node (.group b1 b2 b3) d k (.node c1 c2 c3 c4), h =>
    have ht : readsText d = true → textAt toks k = textAt toks' k := fun hd => h d k (nodeDefs_self _ _ _ _) hd
    have hl := go_congr κ toks toks' (.group b1 b2 b3) (fun d' k' hm hr => h d' k' (nodeDefs_left _ _ _ _ hm) hr)
    have hr' := go_congr κ toks toks' (.node c1 c2 c3 c4) (fun d' k' hm hr => h d' k' (nodeDefs_right _ _ _ _ hm) hr)
    unfold go
    rw [hl, hr']
    split
    · exact binE_congr d _ _ _ _ _ _ _ _ _ ht
    · rfl
  | .node (.group b1 b2 b3) d k (.group c1 c2 c3), h =>
    have ht : readsText d = true → textAt toks k = textAt toks' k := fun hd => h d k (nodeDefs_self _ _ _ _) hd
    have hl := go_congr κ toks toks' (.group b1 b2 b3) (fun d' k' hm hr => h d' k' (nodeDefs_left _ _ _ _ hm) hr)
    have hr' := go_congr κ toks toks' (.group c1 c2 c3) (fun d' k' hm hr => h d' k' (nodeDefs_right _ _ _ _ hm) hr)
    unfold go
    rw [hl, hr']
    split
    · exact binE_congr d _ _ _ _ _ _ _ _ _ ht
    · rfl
termination_by sizeOf t

theorem elabWith_congr (κ : Nat → Nat) (toks toks' : List PToken) (t : RTree)
    (h : ∀ d k, (d, k) ∈ nodeDefs t → readsText d = true → textAt toks k = textAt toks' k) :
    elabWith pf κ toks t = elabWith pf κ toks' t := by
  unfold elabWith
  rw [go_congr pf κ toks toks' t h]

/-- **the elaboration reads the token list only through the texts at text-reading nodes** -/
theorem elaborate_congr (toks toks' : List PToken) (t : RTree)
    (h : ∀ d k, (d, k) ∈ nodeDefs t → readsText d = true → textAt toks k = textAt toks' k) :
    elaborate pf toks t = elaborate pf toks' t := by
  unfold elaborate elabSrc
  rw [elabWith_congr pf _ toks toks' t h]
  cases elabWith pf (srcName t) toks' t with
  | none => rfl
  | some p0 => exact elabWith_congr pf _ toks toks' t h

end Garnish.Abs.Source
