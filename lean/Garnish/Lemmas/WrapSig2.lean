/-
Parentheses and the significant positions (2): in a reference tree the `( )` nodes are exactly the significant positions that
carry a `(` token (`KindOK`, from `refParse_nodes`), so the in-order walk of the tree WITHOUT its parentheses is the in-order
walk with those positions filtered out (`sig_ungroup`); and for the value wrap the filtered walks correspond under `wrapPos`.
-/
import Garnish.Lemmas.WrapSig
import Garnish.Lemmas.WrapElab4
import Garnish.Lemmas.ParseSupport3
namespace Garnish.Abs.Source
open Garnish Garnish.Gen Garnish.Spec Garnish.Abs Garnish.Abs.Tree Garnish.Model.Parser Garnish.Model.Literals

/-- position `k` carries a `(` token -/
def isOG (toks : List PToken) (k : Nat) : Bool :=
  match toks[k]? with
  | some t => t.type == .startGroup
  | none => false

/-- on the tree without parentheses and positions: no value / operator node is called `Group`, every bracket node left is a
nested expression (true of every tree that elaborates) -/
def strippedOK : RTree → Bool
  | .nil => true
  | .node l d _ r => d != .group && strippedOK l && strippedOK r
  | .group d _ i => d == .nestedExpression && strippedOK i

/-- the `( )` nodes are the nodes on `(` tokens -/
def KindOK (toks : List PToken) : RTree → Prop
  | .nil => True
  | .node l d k r => KindOK toks l ∧ KindOK toks r ∧ (d ≠ .list → isOG toks k = false)
  | .group d k i => KindOK toks i ∧ (d == .group) = isOG toks k

theorem def_startGroup (ty : TokenType) : (getDefinition ty).1 = .group ↔ ty = .startGroup := by
  cases ty <;> decide

theorem kindOK_of {toks : List PToken} : ∀ (t : RTree), TreeOK toks t → strippedOK t.stripGroups = true → KindOK toks t
  | .nil, _, _ => trivial
  | .node l d k r, ht, hq => by
    simp only [RTree.stripGroups, strippedOK, Bool.and_eq_true, bne_iff_ne] at hq
    refine ⟨kindOK_of l (fun d' k' hm => ht d' k' (nodeDefs_left _ _ _ _ hm)) hq.1.2,
      kindOK_of r (fun d' k' hm => ht d' k' (nodeDefs_right _ _ _ _ hm)) hq.2, fun hdl => ?_⟩
    rcases ht d k (nodeDefs_self _ _ _ _) with h | ⟨tok, htok, h⟩
    · exact absurd h hdl
    · simp only [isOG, htok]
      cases hty : (tok.type == TokenType.startGroup)
      · rfl
      · have e : tok.type = .startGroup := by simpa using hty
        rw [e] at h
        rcases h with h | ⟨_, h⟩
        · exact absurd h hq.1.1
        · cases h
  | .group d k i, ht, hq => by
    have hti : TreeOK toks i := fun d' k' hm => ht d' k' (nodeDefs_inner _ _ _ hm)
    have hn := ht d k (by simp [nodeDefs])
    simp only [RTree.stripGroups] at hq
    by_cases hd : (d == .group) = true
    · simp only [hd, if_true] at hq
      refine ⟨kindOK_of i hti hq, ?_⟩
      have hd' : d = .group := by simpa using hd
      subst hd'
      rcases hn with h | ⟨tok, htok, h⟩
      · cases h
      · simp only [isOG, htok]
        rcases h with h | ⟨h, _⟩
        · rw [(def_startGroup tok.type).mp h.symm]; rfl
        · cases h
    · have hd' : (d == .group) = false := by simpa using hd
      simp only [hd', Bool.false_eq_true, if_false, strippedOK, Bool.and_eq_true, beq_iff_eq] at hq
      refine ⟨kindOK_of i hti hq.2, ?_⟩
      rw [hd']
      obtain ⟨rfl, _⟩ := hq
      rcases hn with h | ⟨tok, htok, h⟩
      · cases h
      · simp only [isOG, htok]
        rcases h with h | ⟨h, _⟩
        · cases hty : (tok.type == TokenType.startGroup)
          · rfl
          · have e : tok.type = .startGroup := by simpa using hty
            rw [e] at h; cases h
        · cases h

theorem sig_ungroup {toks : List PToken} : ∀ (t : RTree), KindOK toks t →
    (ungroup t).inorderSig = t.inorderSig.filter (fun k => !isOG toks k)
  | .nil, _ => rfl
  | .node l d k r, h => by
    obtain ⟨h1, h2, h3⟩ := h
    simp only [ungroup, RTree.inorderSig, List.filter_append, sig_ungroup l h1, sig_ungroup r h2]
    congr 2
    by_cases hd : (d == .list) = true
    · simp [hd]
    · have hd' : d ≠ .list := by simpa using hd
      simp [hd, h3 hd']
  | .group d k i, h => by
    obtain ⟨h1, h2⟩ := h
    simp only [ungroup]
    by_cases hd : (d == .group) = true
    · rw [hd] at h2
      simp [hd, RTree.inorderSig, ← h2, sig_ungroup i h1]
    · have hd' : (d == .group) = false := by simpa using hd
      rw [hd'] at h2
      simp [hd', RTree.inorderSig, ← h2, sig_ungroup i h1]

end Garnish.Abs.Source
