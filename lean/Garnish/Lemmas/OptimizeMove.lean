/-
The last phases of `optimize_data_block_and_retain`: reading a block through the slide (`Shift`), what the
slide loop produces, what the remapping loops produce.
-/
import Garnish.Lemmas.OptimizeClone
namespace Garnish.BasicOpt
open Garnish

/-- `V` from `dst` on is `W` from `src` on -/
def Shift (W V : Array Cell) (src dst : Nat) : Prop := ∀ t, V[dst + t]? = W[src + t]?

theorem inlineCells_shift {W V : Array Cell} {src dst : Nat} (hs : Shift W V src dst) (p : Cell → Bool) :
    ∀ (n u : Nat) (l : List Cell), inlineCells W p (src + u) n = some l → inlineCells V p (dst + u) n = some l
  | 0, u, l, h => by simpa [inlineCells] using h
  | n + 1, u, l, h => by
    simp only [inlineCells] at h ⊢
    rw [hs u]
    cases hc : W[src + u]? with
    | none => simp [hc] at h
    | some c =>
      rw [hc] at h
      simp only at h ⊢
      split at h
      · rename_i hpc
        simp only [hpc, if_true]
        simp only [Option.map_eq_some_iff] at h ⊢
        obtain ⟨t, ht, rfl⟩ := h
        exact ⟨t, inlineCells_shift hs p n (u + 1) t ht, rfl⟩
      · simp at h

theorem listItems_shift {W V : Array Cell} {src dst : Nat} (hs : Shift W V src dst) :
    ∀ (n u : Nat) (l : List Nat), listItems W (src + u) n = some l → listItems V (dst + u) n = some l
  | 0, u, l, h => by simpa [listItems] using h
  | n + 1, u, l, h => by
    simp only [listItems] at h ⊢
    rw [hs u]
    cases hc : W[src + u]? with
    | none => simp [hc] at h
    | some c =>
      rw [hc] at h
      cases c <;> simp only [] at h ⊢ <;> try (simp at h; done)
      simp only [Option.map_eq_some_iff] at h ⊢
      obtain ⟨t, ht, rfl⟩ := h
      exact ⟨t, listItems_shift hs n (u + 1) t ht, rfl⟩

theorem assocItems_shift {W V : Array Cell} {src dst : Nat} (hs : Shift W V src dst) :
    ∀ (n u : Nat) (l : List Cell × List Nat), assocItems W (src + u) n = some l → assocItems V (dst + u) n = some l
  | 0, u, l, h => by simpa [assocItems] using h
  | n + 1, u, l, h => by
    simp only [assocItems] at h ⊢
    rw [hs u]
    cases hc : W[src + u]? with
    | none => simp [hc] at h
    | some c =>
      rw [hc] at h
      cases c <;> simp only [] at h ⊢ <;> try (simp at h; done)
      simp only [Option.map_eq_some_iff] at h ⊢
      obtain ⟨t, ht, rfl⟩ := h
      exact ⟨t, assocItems_shift hs n (u + 1) t ht, rfl⟩

theorem framePoint_shift {W V : Array Cell} {src dst : Nat} (hs : Shift W V src dst) (hno : framePoint W src = none)
    {u : Nat} {c : Cell} (h : framePoint W (src + u) = some c) : framePoint V (dst + u) = some c := by
  cases u with
  | zero => rw [Nat.add_zero] at h; rw [hno] at h; cases h
  | succ u =>
    have e1 : src + (u + 1) = (src + u) + 1 := by omega
    have e2 : dst + (u + 1) = (dst + u) + 1 := by omega
    rw [e1] at h; rw [e2]
    simp only [framePoint] at h ⊢
    rw [hs u]; exact h

/-- a shape read behind the index list is the shape read at the slid-down address -/
theorem shape_shift {W V : Array Cell} {src dst : Nat} (hs : Shift W V src dst) (hno : framePoint W src = none)
    {u : Nat} {sh : Shape} (h : shape W (src + u) = some sh) : shape V (dst + u) = some sh := by
  unfold shape at h ⊢
  rw [hs u]
  cases hc : W[src + u]? with
  | none => simp [hc] at h
  | some c =>
    rw [hc] at h
    have e1 : ∀ x, src + u + 1 + x = src + (u + 1 + x) := by intro x; omega
    have e2 : ∀ x, dst + u + 1 + x = dst + (u + 1 + x) := by intro x; omega
    have e1' : src + u + 1 = src + (u + 1) := by omega
    have e2' : dst + u + 1 = dst + (u + 1) := by omega
    cases c <;> simp only [] at h ⊢ <;> first
      | exact h
      | (simp only [Option.map_eq_some_iff] at h ⊢
         obtain ⟨t, ht, rfl⟩ := h
         first
           | (rw [e1'] at ht; rw [e2']; exact ⟨t, inlineCells_shift hs _ _ _ _ ht, rfl⟩)
           | exact ⟨t, framePoint_shift hs hno ht, rfl⟩)
      | (split at h
         · rename_i items keys targets h1 h2
           rw [e1'] at h1; rw [e1] at h2
           rw [e2, e2', listItems_shift hs _ _ _ h1, assocItems_shift hs _ _ _ h2]
           exact h
         · simp at h)

/-! ### the slide loop -/

theorem slide_get : ∀ (n : Nat) (cells : Array Cell) (dst src : Nat), dst ≤ src → src + n ≤ cells.size →
    ∀ t, t < n → (Store.slide cells dst src n)[dst + t]? = cells[src + t]?
  | 0, _, _, _, _, _, t, ht => by omega
  | n + 1, cells, dst, src, hle, hsz, t, ht => by
    simp only [Store.slide]
    have hsrc : src < cells.size := by omega
    have hget : cells.getD src .empty = cells[src] := by simp [Array.getD, hsrc]
    cases t with
    | zero =>
      simp only [Nat.add_zero]
      rw [slide_below n _ (dst + 1) (src + 1) dst (by omega)]
      simp [hget, Nat.lt_of_le_of_lt hle hsrc]
    | succ t =>
      have e1 : dst + (t + 1) = (dst + 1) + t := by omega
      have e2 : src + (t + 1) = (src + 1) + t := by omega
      rw [e1, e2, slide_get n _ (dst + 1) (src + 1) (by omega) (by simp; omega) t (by omega)]
      have : dst ≠ src + 1 + t := by omega
      simp [this]

/-- the compacted block: the retained prefix, then everything behind the index list -/
theorem slide_extract_spec (cells : Array Cell) (r src : Nat) (hr : r ≤ src) (hs : src ≤ cells.size) :
    let V := (Store.slide cells r src (cells.size - src)).extract 0 (r + (cells.size - src))
    V.size = r + (cells.size - src) ∧ (∀ i, i < r → V[i]? = cells[i]?) ∧ Shift cells V src r := by
  intro V
  have hsize : V.size = r + (cells.size - src) := by
    simp only [V, Array.size_extract, slide_size]; omega
  refine ⟨hsize, (slide_extract_prefix cells r src _ (by omega)).2, ?_⟩
  intro t
  by_cases ht : t < cells.size - src
  · have h1 : V[r + t]? = (Store.slide cells r src (cells.size - src))[r + t]? := by
      simp only [V]
      rw [Array.getElem?_extract]
      simp [slide_size]
      omega
    rw [h1, slide_get _ cells r src hr (by omega) t ht]
  · rw [Array.getElem?_eq_none (by omega), Array.getElem?_eq_none (by omega)]

/-! ### the remapping loops -/

/-- same data block, retention count and block start (symbol table and heads may differ) -/
structure SameData (a b : Store) : Prop where
  cells : b.cells = a.cells
  ret : b.retention = a.retention
  start : b.start = a.start

theorem SameData.refl (a : Store) : SameData a a := ⟨rfl, rfl, rfl⟩
theorem SameData.trans {a b c : Store} (h1 : SameData a b) (h2 : SameData b c) : SameData a c :=
  ⟨h2.cells.trans h1.cells, h2.ret.trans h1.ret, h2.start.trans h1.start⟩

/-- a successful lookup in any store with the same data is a link of that data -/
theorem lookup_link_same {a st : Store} {lo hi x x' : Nat} (hsd : SameData a st)
    (h : Store.lookup st (a.start + lo) (a.start + hi) x = .ok x') : Link a lo hi x x' := by
  rw [← hsd.start] at h
  have hl := lookup_link h
  exact Link.mono (Nat.le_refl _) hsd.ret.symm (fun j _ _ => by rw [hsd.cells]) hl

theorem remapSymbols_spec (ls le : Nat) : ∀ (n : Nat) (s s' : Store) (i : Nat),
    Store.remapSymbols ls le s i n = .ok s' →
      SameData s s' ∧ s'.symtab.size = s.symtab.size ∧
      s'.currentRegister = s.currentRegister ∧ s'.currentValue = s.currentValue ∧ s'.currentFrame = s.currentFrame ∧
      (∀ j, j < i → s'.symtab[j]? = s.symtab[j]?) ∧ (∀ j, i + n ≤ j → s'.symtab[j]? = s.symtab[j]?) ∧
      ∀ j, i ≤ j → j < i + n → ∃ sym di di' st, s.symtab[j]? = some (.associativeItem sym di) ∧
        s'.symtab[j]? = some (.associativeItem sym di') ∧ SameData s st ∧ Store.lookup st ls le di = .ok di'
  | 0, s, s', i, h => by
    simp only [Store.remapSymbols, Outcome.ok.injEq] at h
    subst h
    exact ⟨SameData.refl _, rfl, rfl, rfl, rfl, fun _ _ => rfl, fun _ _ => rfl, fun j h1 h2 => by omega⟩
  | n + 1, s, s', i, h => by
    simp only [Store.remapSymbols, bind_eq_ok] at h
    obtain ⟨⟨sym, di⟩, hse, m, hl, hrest⟩ := h
    obtain ⟨hsd, hsz, hr, hv, hf, hlo, hhi, hmid⟩ := remapSymbols_spec ls le n _ s' (i + 1) hrest
    have hent : s.symtab[i]? = some (.associativeItem sym di) := by
      unfold Store.symEntry at hse
      split at hse
      · rename_i sy d heq
        simp only [Outcome.ok.injEq, Prod.mk.injEq] at hse
        rw [heq, hse.1, hse.2]
      · simp at hse
      · simp at hse
    have hi : i < s.symtab.size := by
      rcases Nat.lt_or_ge i s.symtab.size with h | h
      · exact h
      · rw [Array.getElem?_eq_none h] at hent; cases hent
    refine ⟨⟨hsd.cells, hsd.ret, hsd.start⟩, by simpa using hsz, hr, hv, hf, ?_, ?_, ?_⟩
    · intro j hj
      rw [hlo j (by omega)]
      simp [Array.getElem?_setIfInBounds]
      intro h; omega
    · intro j hj
      rw [hhi j (by omega)]
      simp [Array.getElem?_setIfInBounds]
      intro h; omega
    · intro j hj1 hj2
      by_cases hji : j = i
      · subst hji
        refine ⟨sym, di, m, s, hent, ?_, SameData.refl _, hl⟩
        rw [hlo j (by omega)]
        simp [Array.getElem?_setIfInBounds, hi]
      · obtain ⟨sy, d, d', st, h1, h2, h3, h4⟩ := hmid j (by omega) (by omega)
        refine ⟨sy, d, d', st, ?_, h2, ⟨h3.cells, h3.ret, h3.start⟩, h4⟩
        rw [← h1]
        simp [Array.getElem?_setIfInBounds]
        intro h; omega

theorem remapOpt_spec {st : Store} {ls le : Nat} {o r : Option Nat} (h : Store.remapOpt st ls le o = .ok r) :
    (o = none ∧ r = none) ∨ ∃ i m, o = some i ∧ r = some m ∧ Store.lookup st ls le i = .ok m := by
  cases o with
  | none =>
    simp only [Store.remapOpt, Outcome.ok.injEq] at h
    exact Or.inl ⟨rfl, h.symm⟩
  | some i =>
    simp only [Store.remapOpt, bind_eq_ok, pure_eq_ok] at h
    obtain ⟨m, hm, hr⟩ := h
    exact Or.inr ⟨i, m, rfl, hr.symm, hm⟩

theorem remapRoots_spec (st : Store) (ls le : Nat) : ∀ (roots ms : List Nat),
    Store.remapRoots st ls le roots = .ok ms →
      ms.length = roots.length ∧ ∀ (k r : Nat), roots[k]? = some r → ∃ r', ms[k]? = some r' ∧
        Store.lookup st ls le r = .ok r'
  | [], ms, h => by
    simp only [Store.remapRoots, Outcome.ok.injEq] at h
    subst h; simp
  | r :: rs, ms, h => by
    simp only [Store.remapRoots, bind_eq_ok, pure_eq_ok] at h
    obtain ⟨m, h1, ms', h2, h3⟩ := h
    subst h3
    obtain ⟨ih1, ih2⟩ := remapRoots_spec st ls le rs ms' h2
    refine ⟨by simp [ih1], ?_⟩
    intro k x hk
    cases k with
    | zero =>
      simp only [List.getElem?_cons_zero, Option.some.injEq] at hk
      subst hk
      exact ⟨m, by simp, h1⟩
    | succ k =>
      simp only [List.getElem?_cons_succ] at hk ⊢
      exact ih2 k x hk

end Garnish.BasicOpt
