/-
Relativised step theorem, group 4 — the whole instruction set with `fullHandlers`: `LookupOn`, `MachOKOn4`, `refine_step_on4`.
-/
import Garnish.Lemmas.RuntimeOnInternals
import Garnish.Lemmas.RuntimeStep9
set_option linter.unusedSimpArgs false
set_option linter.unusedVariables false
namespace Garnish.Lemmas.Runtime.On
open Garnish Gen Garnish.Abs Garnish.Model.Equality Garnish.Model.Runtime Garnish.Lemmas.Runtime
open Garnish.Props.RuntimeRefine

variable {F σ : Type} {S : RStore F σ} {Inv : σ → Prop} {Rd : σ → Nat → Prop} {P : Prog F} {host : Host F}
  (fo : FloatOps F)

/-- what the relativised contract adds to `AccessOK` / `ResolveOK` for the look-up of `key` in `cur` -/
def LookupOn (S : RStore F σ) (Inv : σ → Prop) (key cur : Val F) : Prop :=
  ncConcat cur ∧ ((∀ y, key = .sym y → ∀ vs, cur ≠ .list vs) ∨ ListSymOn S Inv) ∧
    ∀ v, getAccess fo key cur = .some v → v ≠ .custom

/-- group 4: `Access`, `Resolve`, `Equal`, `NotEqual`, `TypeOf`, `TypeEqual`, the internals; `ApplyType`: the value-level
machine answers `unsupported`, nothing is claimed -/
def MachOKOn4 (S : RStore F σ) (Inv : σ → Prop) (P : Prog F) (fuel : Nat) (m : MState F) (instr : Instruction)
    (operand : Option Nat) : Prop :=
  match instr with
  | .access => MDeepN m 2 ∧ ∀ vr vl rs, m.regs = vr :: vl :: rs → AccessOK fo fuel vl vr ∧
      (accessArm vl.typeOf vr.typeOf = .get → LookupOn fo S Inv vr vl) ∧
      (accessArm vl.typeOf vr.typeOf = .merge → (∀ n, vl ≠ .num n) ∧ (∀ n, vr ≠ .num n))
  | .resolve => MDeepN m 0 ∧ ∀ k key, operand = some k → P.consts[k]? = some key →
      ∀ cur vs, m.vals = cur :: vs → (AccessDomain cur ∧ accessFuel cur ≤ fuel ∧
        ∀ n, key = .num n → (∃ i, n = .int i) ∧ RangeOrdered fo n cur) ∧ LookupOn fo S Inv key cur
  | .typeOf => MDeepN m 1
  | .typeEqual => MDeepN m 2
  | .equal | .notEqual => MDeepN m 2 ∧ ∀ vr vl rs, m.regs = vr :: vl :: rs → EqualDomain fuel vl vr
  | .accessLeftInternal => MDeepN m 1 ∧ ∀ v rs, m.regs = v :: rs → ∀ x, Abs.accessLeftInternal v = .val x → x ≠ .custom
  | .accessRightInternal => MDeepN m 1 ∧
      ∀ v rs, m.regs = v :: rs → ∀ x, Abs.accessRightInternal v = .val x → x ≠ .custom
  | .accessLengthInternal => MDeepN m 1 ∧ ∀ v rs, m.regs = v :: rs → LengthDomain v ∧ accessFuel v ≤ fuel ∧ ncConcat v
  | .applyType => True
  | _ => MachOKOn3 fo S Inv P fuel m instr operand

theorem refine_step_on4 (L : StoreLawsOn S Inv Rd) (HR : HostRefinesI S Inv host) (fuel : Nat)
    (cast : RM σ (Option Nat)) {s : σ} {m : MState F} (hsim : Sim S P s m) (hi : Inv s) (hl : Loaded S P s)
    {instr : Instruction} {operand : Option Nat} (hfetch : P.instrs[m.pc]? = some (instr, operand))
    (hok : MachOKOn4 fo S Inv P fuel m instr operand) :
    StepSimOn fo host S Inv P fuel (fullHandlers fo S fuel cast) s m := by
  cases instr
  case access =>
    exact total_binary fo fuel _ s hfetch rfl (fun _ => rfl) (fun vr vl rs hr => by
      obtain ⟨hd, hx, hmg⟩ := hok.2 vr vl rs hr
      exact stepSim_access fo L HR fuel _ hsim hfetch hr hi (hok.1.two hr) hd hx hmg)
  case resolve =>
    cases operand with
    | none => machine_errs_on fo, fuel, (fullHandlers fo S fuel cast), s, hfetch, .implementation, []
    | some k =>
      cases hc : P.consts[k]? with
      | none => machine_errs_on fo, fuel, (fullHandlers fo S fuel cast), s, hfetch, .state, [hc]
      | some key =>
        exact stepSim_resolve fo L HR fuel _ hsim hfetch hc (hl k key hc)
          (fun cur vs hv => (hok.2 k key rfl hc cur vs hv).1) (fun cur vs hv => (hok.2 k key rfl hc cur vs hv).2)
          hi hok.1
  case typeOf =>
    exact total_unary fo fuel _ s hfetch rfl (fun v rs hr =>
      stepSim_unary fo L HR fuel _ hsim hfetch rfl hr (o := .val (.type v.typeOf)) rfl
        (fun a rest hra hdp da => typeOfH_spec L hra da) (fun _ _ _ h => by cases h) hi (MDeepN.one hok hr))
  case typeEqual =>
    exact total_binary fo fuel _ s hfetch rfl (fun _ => rfl) (fun vr vl rs hr =>
      stepSim_binary fo L HR fuel _ hsim hfetch rfl hr (o := .val (Abs.typeEqual vl vr)) rfl rfl
        (fun r l rest hrr hdp dl dr => typeEqualH_spec L hrr dl dr) (fun _ _ _ h => by cases h) hi (MDeepN.two hok hr))
  case equal =>
    exact total_binary fo fuel _ s hfetch rfl (fun _ => rfl) (fun vr vl rs hr => by
      obtain ⟨nl, nr, hf⟩ := hok.2 vr vl rs hr
      exact stepSim_binary fo L HR fuel _ hsim hfetch rfl hr (o := .val (Val.ofBool (valEq fo vl vr))) rfl rfl
        (fun r l rest hrr hdp dl dr => equalH_spec fo L fuel false hrr dl dr nl nr hf) (fun _ _ _ h => by cases h)
        hi (hok.1.two hr))
  case notEqual =>
    exact total_binary fo fuel _ s hfetch rfl (fun _ => rfl) (fun vr vl rs hr => by
      obtain ⟨nl, nr, hf⟩ := hok.2 vr vl rs hr
      exact stepSim_binary fo L HR fuel _ hsim hfetch rfl hr (o := .val (Val.ofBool (!valEq fo vl vr))) rfl rfl
        (fun r l rest hrr hdp dl dr => equalH_spec fo L fuel true hrr dl dr nl nr hf) (fun _ _ _ h => by cases h)
        hi (hok.1.two hr))
  case accessLeftInternal =>
    exact total_unary fo fuel _ s hfetch rfl (fun v rs hr =>
      stepSim_unary fo L HR fuel _ hsim hfetch rfl hr (o := Abs.accessLeftInternal v) rfl
        (fun a rest hra hdp da => accessLeftInternalH_spec L hra da (hok.2 v rs hr))
        (fun _ _ _ h => leftInternal_defer h) hi (hok.1.one hr))
  case accessRightInternal =>
    exact total_unary fo fuel _ s hfetch rfl (fun v rs hr =>
      stepSim_unary fo L HR fuel _ hsim hfetch rfl hr (o := Abs.accessRightInternal v) rfl
        (fun a rest hra hdp da => accessRightInternalH_spec L hra da (hok.2 v rs hr))
        (fun _ _ _ h => rightInternal_defer h) hi (hok.1.one hr))
  case accessLengthInternal =>
    exact total_unary fo fuel _ s hfetch rfl (fun v rs hr => by
      obtain ⟨hd, hf, hnc⟩ := hok.2 v rs hr
      exact stepSim_unary fo L HR fuel _ hsim hfetch rfl hr (o := Abs.accessLengthInternal fo v) rfl
        (fun a rest hra hdp da => accessLengthInternalH_spec fo L fuel hra da hd hf hnc)
        (fun _ _ _ h => lengthInternal_defer fo h) hi (hok.1.one hr))
  case applyType =>
    exact stepSimOn_of_err fo fuel _ s (e := .unsupported) (by unfold Abs.step; rw [hfetch])
  all_goals exact refine_step_on3 fo L HR fuel _ hsim hi hl hfetch hok

end Garnish.Lemmas.Runtime.On
