/-
List construction with register pops in between — the exact shape of the runtime's `make_list`:
`start_list(n)`, `n` × `add_to_list`, `k` × `pop_register`, `end_list`.  On BasicGarnishData `pop_register` moves the
register head and writes no cell, `end_list` writes cells and reads no head: the pops commute with the construction.
-/
import Garnish.Lemmas.BasicLayout
set_option linter.unusedSimpArgs false
set_option linter.unusedVariables false
set_option maxHeartbeats 2000000
namespace Garnish.Lemmas.Runtime.Basic
open Garnish Gen Garnish.Model.Equality Garnish.Model.Runtime Garnish.Model.Runtime.Basic Garnish.BasicOpt
open Garnish.Lemmas.Runtime Garnish.Lemmas.EqualityRefine

variable {F σ : Type}

/-- `while count < k { pop_register()?; count += 1 }` -/
def popsRM (S : RStore F σ) : Nat → RM σ Unit
  | 0 => RM.pure ()
  | k + 1 => RM.bind S.popRegister (fun _ => popsRM S k)

/-- `make_list`'s use of the list interface: the adds, then the pops, then `end_list` -/
def makeListPopRM (S : RStore F σ) (items : List Nat) (k : Nat) : RM σ Nat :=
  RM.bind (S.startList items.length) (fun t => RM.bind (addAllRM S items t) (fun t' =>
    RM.bind (popsRM S k) (fun _ => S.endList t')))

/-- the register head after `k` pops (`none` = a pop fails on a malformed head) -/
def headAfter (cells : Array Cell) : Nat → Option Nat → Option (Option Nat)
  | 0, h => some h
  | _ + 1, none => some none
  | k + 1, some i =>
    match cells[i]? with
    | some (.register p _) => headAfter cells k (some p)
    | some (.registerRoot _) => headAfter cells k none
    | _ => none

theorem headAfter_none (cells : Array Cell) : ∀ k, headAfter cells k none = some none
  | 0 => rfl
  | k + 1 => rfl

theorem headAfter_sub {cells cells' : Array Cell} (h : Sub cells cells') :
    ∀ (k : Nat) (o o' : Option Nat), headAfter cells k o = some o' → headAfter cells' k o = some o'
  | 0, _, _, hh => hh
  | k + 1, none, _, hh => hh
  | k + 1, some i, o', hh => by
    simp only [headAfter] at hh ⊢
    cases hc : cells[i]? with
    | none => simp [hc] at hh
    | some c =>
      rw [hc] at hh
      rw [h i c hc]
      cases c <;> simp only [] at hh ⊢ <;> first | (cases hh; done) | exact headAfter_sub h k _ _ hh

/-- the pops of the Basic store move the register head and nothing else -/
theorem popsRM_basic (nc : NumCode F) : ∀ (k : Nat) (st : BState) (o' : Option Nat),
    headAfter st.store.cells k st.store.currentRegister = some o' →
    popsRM (basicRStore nc) k st = .ok ((), { st with store := { st.store with currentRegister := o' } })
  | 0, st, o', h => by
    simp only [headAfter, Option.some.injEq] at h
    subst h; rfl
  | k + 1, st, o', h => by
    cases hr : st.store.currentRegister with
    | none =>
      rw [hr] at h
      have hpop : (basicRStore nc).popRegister st = .ok (none, st) := by
        show liftPop (fun s => s.popRegister) st = _
        simp [liftPop, Store.popRegister, hr]
      have ih := popsRM_basic nc k st o' (by rw [hr]; simpa [headAfter] using (headAfter_none _ k).trans (by
        simp only [headAfter] at h; exact h))
      simp only [popsRM, RM.bind, hpop]
      exact ih
    | some i =>
      rw [hr] at h
      simp only [headAfter] at h
      cases hc : st.store.cells[i]? with
      | none => simp [hc] at h
      | some c =>
        rw [hc] at h
        have hget : st.store.get i = .ok c := by simp [Store.get, hc]
        cases c <;> simp only [] at h <;> try (cases h; done)
        · rename_i p v
          have hpop : (basicRStore nc).popRegister st =
              .ok (some v, { st with store := { st.store with currentRegister := some p } }) := by
            show liftPop (fun s => s.popRegister) st = _
            simp [liftPop, Store.popRegister, hr, hget, bind, Outcome.bind, pure]
          have ih := popsRM_basic nc k { st with store := { st.store with currentRegister := some p } } o' h
          simp only [popsRM, RM.bind, hpop]
          exact ih
        · rename_i v
          have hpop : (basicRStore nc).popRegister st =
              .ok (some v, { st with store := { st.store with currentRegister := none } }) := by
            show liftPop (fun s => s.popRegister) st = _
            simp [liftPop, Store.popRegister, hr, hget, bind, Outcome.bind, pure]
          have ih := popsRM_basic nc k { st with store := { st.store with currentRegister := none } } o' h
          simp only [popsRM, RM.bind, hpop]
          exact ih

/-- on an invariant state every sequence of pops answers `Ok`; the head it ends on is typed and the registers are the
old ones without the first `k` -/
theorem headAfter_total {s : Store} (hw : WFq s)
    (hprev : ∀ (i p v : Nat), s.cells[i]? = some (Cell.register p v) → isRegCell s.cells p = true) :
    ∀ (k : Nat) (o : Option Nat), (∀ a, o = some a → isRegCell s.cells a = true) →
      ∃ o', headAfter s.cells k o = some o' ∧ (∀ a, o' = some a → isRegCell s.cells a = true) ∧
        regsOf s.cells o' = (regsOf s.cells o).drop k
  | 0, o, ho => ⟨o, rfl, ho, by simp⟩
  | k + 1, none, _ => ⟨none, rfl, (fun a h => by cases h), (by simp [regsOf])⟩
  | k + 1, some i, ho => by
    have hi := ho i rfl
    unfold isRegCell at hi
    cases hc : s.cells[i]? with
    | none => simp [hc] at hi
    | some c =>
      rw [hc] at hi
      cases c <;> simp at hi
      · rename_i p v
        have hsh : shape s.cells i = some ⟨.register 0 0, [], [p, v]⟩ := shape_of_solo hc rfl
        have hp : p < i := hw.kid_lt hsh (by simp [svAt, hc, isSV]) (by simp)
        obtain ⟨o', h1, h2, h3⟩ := headAfter_total hw hprev k (some p) (fun a ha => by cases ha; exact hprev i p v hc)
        refine ⟨o', by simp only [headAfter, hc]; exact h1, h2, ?_⟩
        rw [h3, regsOf_register hc hp]; simp
      · rename_i v
        obtain ⟨o', h1, h2, h3⟩ := headAfter_total hw hprev k none (fun a ha => by cases ha)
        refine ⟨o', by simp only [headAfter, hc]; exact h1, h2, ?_⟩
        rw [h3, regsOf_root hc]; simp [regsOf]

/-- `end_list` reads no head: with another register head it does the same to the cells -/
theorem endList_reg {s s' : Store} {li r : Nat} (x : Option Nat) (h : Store.endList s li = .ok (s', r)) :
    Store.endList { s with currentRegister := x } li = .ok ({ s' with currentRegister := x }, r) := by
  simp only [Store.endList, BasicOpt.bind_eq_ok] at h
  obtain ⟨c, hg, h⟩ := h
  have hc := get_ok hg
  split at h
  · rename_i len count
    split at h
    · cases h
    · rename_i h1
      split at h
      · cases h
      · rename_i h2
        simp only [BasicOpt.bind_eq_ok, BasicOpt.pure_eq_ok, Prod.mk.injEq] at h
        obtain ⟨s5, h5, h6, h7⟩ := h
        subst h6; subst h7
        unfold Store.setCell at h5
        split at h5
        · rename_i hilt
          simp only [Outcome.ok.injEq] at h5
          subst h5
          simp only [Store.endList, bind, Outcome.bind, Store.get, hc]
          rw [if_neg h1, if_neg h2]
          simp only [Store.setCell]
          rw [if_pos hilt]
          rfl
        · cases h5
  · cases h

end Garnish.Lemmas.Runtime.Basic
