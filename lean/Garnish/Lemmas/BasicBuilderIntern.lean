/-
The addresses of the constants the builder adds to a fresh `BasicGarnishData` (observed on the crate with
/tmp/basicprobe_buildagent: lex → parse → build into `BasicGarnishData::new(NoOpCompanion)`, operands and data block printed).

Basic shares NOTHING and preallocates nothing: every `add_*` / `parse_add_*` call pushes onto the data block
(`push_to_data_block`, Store/BasicCells.lean `Store.push`) and answers with the index of the first cell it pushed —
  `add_unit` / `add_true` / `add_false` / `add_number` / `add_expression`   one cell;
  `parse_add_char_list` / `parse_add_byte_list`                              `CharList(n)` / `ByteList(n)` and the `n` items;
  `parse_add_symbol(text)`                                                   `Symbol(s)`, then the text: `CharList(n)` and its chars
                                                                             (and an entry of the symbol table, another block).
So the builder's path is NOT Simple's up to the cache decision: there is no hit decision, `()` / `$!` / `$?` literals are
pushed like everything else, and a constant occupies `1`, `1 + n` or `2 + n` cells.  The text of a symbol is not part of the
statement-level builder model's constant (`Val.sym s`), so the replay takes it as a parameter: `symText k` = the text
handed to the `k`-th call when that call is a `parse_add_symbol` (`ConstsAgree` holds for any choice).

`basicBuilderData symText P` reads the data block cell by cell as values (the head cell of a constant as the constant, an
item cell as `Char` / `Byte`, a symbol's text as the char list it is), `basicBuilderAddr symText P` is the map "index of
the model's constant ↦ address of its head cell".  `basic_builder_constsAgree` needs no hypothesis.
`basic_replay_is_push`: the replay is `Store.push` on `Store.fresh`, cell for cell, with the same addresses.
-/
import Garnish.Lemmas.BuilderIntern
import Garnish.Model.Runtime.BasicStore
namespace Garnish.Lemmas.BasicBuilderIntern
open Garnish Garnish.Gen Garnish.Abs Garnish.BasicOpt Garnish.Model.Runtime.Basic
open Garnish.Lemmas.Runtime.On

variable {F : Type}

/-- the cells one constant occupies, read as values; `txt` is the text of a symbol -/
def footprint (txt : List Nat) : Val F → List (Val F)
  | .chars cs => .chars cs :: cs.map .char
  | .bytes bs => .bytes bs :: bs.map .byte
  | .sym s => .sym s :: .chars txt :: txt.map .char
  | v => [v]

theorem footprint_cons (txt : List Nat) (v : Val F) : ∃ rest, footprint txt v = v :: rest := by
  cases v <;> exact ⟨_, rfl⟩

/-- the calls in order (`k` = index of the first): the data block they leave and the addresses they returned -/
def addAllB (symText : Nat → List Nat) : Nat → List (Val F) → List (Val F) → List (Val F) × List Nat
  | _, [], C => (C, [])
  | k, v :: vs, C =>
    ((addAllB symText (k + 1) vs (C ++ footprint (symText k) v)).1,
      C.length :: (addAllB symText (k + 1) vs (C ++ footprint (symText k) v)).2)

def basicBuilderData (symText : Nat → List Nat) (P : Prog F) : Array (Val F) := (addAllB symText 0 P.consts.toList []).1.toArray

def basicBuilderAddr (symText : Nat → List Nat) (P : Prog F) (k : Nat) : Nat :=
  ((addAllB symText 0 P.consts.toList []).2[k]?).getD ((addAllB symText 0 P.consts.toList []).1.length + k)

/-- `C'` extends `C` -/
def ExtL (C C' : List (Val F)) : Prop := ∀ (a : Nat) (v : Val F), C[a]? = some v → C'[a]? = some v

theorem ext_append (C l : List (Val F)) : ExtL C (C ++ l) := by
  intro a w h
  have hlt : a < C.length := by
    rcases Nat.lt_or_ge a C.length with h1 | h1
    · exact h1
    · rw [List.getElem?_eq_none h1] at h; cases h
  rw [List.getElem?_append_left hlt]; exact h

theorem addAllB_spec (symText : Nat → List Nat) : ∀ (vs : List (Val F)) (k : Nat) (C : List (Val F)),
    ExtL C (addAllB symText k vs C).1 ∧ (addAllB symText k vs C).2.length = vs.length ∧
      ∀ (i : Nat) (v : Val F), vs[i]? = some v →
        ∃ a, (addAllB symText k vs C).2[i]? = some a ∧ (addAllB symText k vs C).1[a]? = some v := by
  intro vs
  induction vs with
  | nil => intro k C; exact ⟨fun _ _ h => h, rfl, fun i v h => by cases h⟩
  | cons v vs ih =>
    intro k C
    obtain ⟨g1, g2, g3⟩ := ih (k + 1) (C ++ footprint (symText k) v)
    refine ⟨fun a w h => g1 a w (ext_append C _ a w h), by simp [addAllB, g2], fun i w hi => ?_⟩
    cases i with
    | zero =>
      simp only [List.getElem?_cons_zero, Option.some.injEq] at hi
      subst hi
      refine ⟨C.length, rfl, g1 _ _ ?_⟩
      obtain ⟨rest, hr⟩ := footprint_cons (symText k) v
      rw [hr, List.getElem?_append_right (Nat.le_refl _)]
      simp
    | succ i =>
      simp only [List.getElem?_cons_succ] at hi
      obtain ⟨a, ha1, ha2⟩ := g3 i w hi
      exact ⟨a, by simpa [addAllB] using ha1, ha2⟩

/-- **Basic's own address map agrees with the constants** — whatever they are -/
theorem basic_builder_constsAgree (symText : Nat → List Nat) (P : Prog F) :
    ConstsAgree (basicBuilderAddr symText P) (basicBuilderData symText P) P := by
  obtain ⟨_, hlen, hget⟩ := addAllB_spec symText P.consts.toList 0 ([] : List (Val F))
  intro k
  cases hk : P.consts[k]? with
  | some v =>
    have hk' : P.consts.toList[k]? = some v := by simpa using hk
    obtain ⟨a, ha1, ha2⟩ := hget k v hk'
    show (basicBuilderData symText P)[basicBuilderAddr symText P k]? = some v
    unfold basicBuilderAddr basicBuilderData
    rw [ha1]; simpa using ha2
  | none =>
    have hge : P.consts.size ≤ k := by
      rcases Nat.lt_or_ge k P.consts.size with h | h
      · rw [Array.getElem?_eq_getElem h] at hk; cases hk
      · exact h
    have hnone : (addAllB symText 0 P.consts.toList ([] : List (Val F))).2[k]? = none := by
      apply List.getElem?_eq_none; rw [hlen]; simpa using hge
    show (basicBuilderData symText P)[basicBuilderAddr symText P k]? = none
    unfold basicBuilderAddr basicBuilderData
    rw [hnone]
    exact Array.getElem?_eq_none (by simp)

/-- one cell per constant (no char list, byte list or symbol): the addresses are the indexes -/
theorem addAllB_single (symText : Nat → List Nat) : ∀ (vs : List (Val F)) (k : Nat) (C : List (Val F)),
    (∀ v, v ∈ vs → ∀ t, footprint t v = [v]) →
    ∀ i, i < vs.length → (addAllB symText k vs C).2[i]? = some (C.length + i) := by
  intro vs
  induction vs with
  | nil => intro k C _ i hi; cases hi
  | cons v vs ih =>
    intro k C hs i hi
    cases i with
    | zero => simp [addAllB]
    | succ i =>
      have := ih (k + 1) (C ++ footprint (symText k) v) (fun w hw => hs w (List.mem_cons_of_mem _ hw)) i
        (by simpa using hi)
      rw [hs v List.mem_cons_self] at this
      simp only [addAllB, List.getElem?_cons_succ]
      rw [hs v List.mem_cons_self, this]
      simp; omega

theorem basicBuilderAddr_single (symText : Nat → List Nat) (P : Prog F)
    (hs : ∀ v, v ∈ P.consts.toList → ∀ t, footprint t v = [v]) (k : Nat) (hk : k < P.consts.size) :
    basicBuilderAddr symText P k = k := by
  unfold basicBuilderAddr
  rw [addAllB_single symText P.consts.toList 0 [] hs k (by simpa using hk)]
  simp

/-! ### the replay on the heap model -/

/-- the cells one constant occupies in the data block -/
def cellsOf (nc : NumCode F) (txt : List Nat) : Val F → List Cell
  | .unit => [.unit] | .tru => [.tru] | .fls => [.fls]
  | .num n => [.number (nc.enc n)] | .char c => [.char c] | .byte b => [.byte b]
  | .sym s => .symbol s :: .charList txt.length :: txt.map .char
  | .expr j => [.expression j] | .ext n => [.external n] | .type t => [.type t]
  | .chars cs => .charList cs.length :: cs.map .char
  | .bytes bs => .byteList bs.length :: bs.map .byte
  | _ => [.custom]

theorem cellsOf_length (nc : NumCode F) (txt : List Nat) (v : Val F) :
    (cellsOf nc txt v).length = (footprint txt v).length := by
  cases v <;> simp [cellsOf, footprint]

/-- `push_to_data_block` for each cell -/
def pushAll : Store → List Cell → Outcome Store
  | s, [] => .ok s
  | s, c :: cs =>
    match s.push c with
    | .ok (s', _) => pushAll s' cs
    | .err e => .err e
    | .panic m => .panic m
    | .fuelOut => .fuelOut

/-- the calls in order on the heap model: each answers with the cursor before its pushes -/
def replayB (nc : NumCode F) (symText : Nat → List Nat) : Nat → List (Val F) → Store → Outcome (Store × List Nat)
  | _, [], s => .ok (s, [])
  | k, v :: vs, s =>
    match pushAll s (cellsOf nc (symText k) v) with
    | .ok s' =>
      match replayB nc symText (k + 1) vs s' with
      | .ok (s'', as) => .ok (s'', s.cells.size :: as)
      | .err e => .err e
      | .panic m => .panic m
      | .fuelOut => .fuelOut
    | .err e => .err e
    | .panic m => .panic m
    | .fuelOut => .fuelOut

/-- the data block can grow -/
def Roomy (s : Store) : Prop := 0 < s.grow ∧ s.cells.size ≤ s.size

theorem push_roomy {s : Store} (h : Roomy s) (c : Cell) :
    ∃ s', s.push c = .ok (s', s.cells.size) ∧ s'.cells = s.cells.push c ∧ Roomy s' := by
  obtain ⟨hg, hs⟩ := h
  unfold Store.push
  by_cases hfull : s.cells.size ≥ s.size
  · simp only [hfull, if_true]
    have : ¬ (s.cells.size ≥ s.size + s.grow) := by omega
    simp only [this, if_false]
    exact ⟨_, rfl, rfl, hg, by simp; omega⟩
  · simp only [hfull, if_false]
    exact ⟨_, rfl, rfl, hg, by simp; omega⟩

theorem pushAll_roomy : ∀ (l : List Cell) (s : Store), Roomy s →
    ∃ s', pushAll s l = .ok s' ∧ s'.cells = s.cells ++ l.toArray ∧ Roomy s' := by
  intro l
  induction l with
  | nil => intro s h; exact ⟨s, rfl, by simp, h⟩
  | cons c cs ih =>
    intro s h
    obtain ⟨s1, h1, h2, h3⟩ := push_roomy h c
    obtain ⟨s2, g1, g2, g3⟩ := ih s1 h3
    refine ⟨s2, by simp only [pushAll, h1]; exact g1, ?_, g3⟩
    rw [g2, h2]
    apply Array.ext'
    simp

/-- **the replay is `push_to_data_block`, cell for cell**: on a data block that can grow and holds as many cells as the
value-level view, the heap model answers with the same addresses and ends with as many cells -/
theorem basic_replay_is_push (nc : NumCode F) (symText : Nat → List Nat) : ∀ (vs : List (Val F)) (k : Nat) (C : List (Val F))
    (s : Store), Roomy s → s.cells.size = C.length →
    ∃ s', replayB nc symText k vs s = .ok (s', (addAllB symText k vs C).2) ∧
      s'.cells.size = (addAllB symText k vs C).1.length ∧ Roomy s' := by
  intro vs
  induction vs with
  | nil => intro k C s h hs; exact ⟨s, rfl, hs, h⟩
  | cons v vs ih =>
    intro k C s h hs
    obtain ⟨s1, h1, h2, h3⟩ := pushAll_roomy (cellsOf nc (symText k) v) s h
    have hs1 : s1.cells.size = (C ++ footprint (symText k) v).length := by
      rw [h2]; simp [hs, cellsOf_length]
    obtain ⟨s2, g1, g2, g3⟩ := ih (k + 1) _ s1 h3 hs1
    refine ⟨s2, ?_, g2, g3⟩
    simp only [replayB, h1, g1, addAllB, hs]

theorem roomy_fresh : Roomy Store.fresh := ⟨by decide, by decide⟩

end Garnish.Lemmas.BasicBuilderIntern
