/-
`refParseB` on `v [ body ]`: `refParseB_value_block`.
-/
import Garnish.Lemmas.ParseBlocksB2

namespace Garnish.Spec
open Garnish Garnish.Gen Garnish.Model.Parser

theorem atom_valueTok {v : PToken} (hv : isAtom10 v = true) : isValueTok v = true ∧ noBlockTok v = true := by
  unfold isAtom10 at hv
  unfold isValueTok noBlockTok
  revert hv
  cases v.type <;> simp [getDefinition, priority]

theorem refStepB_open_value {o : PToken} (ho : o.type = .startSideEffect) (s : BSt) (hp : s.pend = none)
    (hl : s.f.last = .operand) (hb : bottomKind s.f.cur = 1) (pos : Nat) (rest : List PToken) :
    refStepB Table.gen s pos o rest =
      .ok { f := blockFrame pos, stack := s.f :: s.stack, modes := .valueRight :: s.modes, pend := none } := by
  unfold refStepB
  rw [ho]
  have : Table.gen.define TokenType.startSideEffect = (Definition.sideEffect, SecDef.startSideEffect) := rfl
  simp only [this, hp, hl, hb]
  rfl

theorem refStepB_close_value {c : PToken} (hc : c.type = .endSideEffect) (s : BSt) (gp : Nat) (parent : Frame)
    (st : List Frame) (ms : List BMode) (hctx : s.f.ctx = some (.sideEffect, gp)) (hst : s.stack = parent :: st)
    (hm : s.modes = .valueRight :: ms) (hp : s.pend = none) (hl : (s.f.last == .op || s.f.last == .sep) = false)
    (pos : Nat) (rest : List PToken) :
    refStepB Table.gen s pos c rest =
      .ok { f := { parent with cur := setBottomRight parent.cur (.group .sideEffect gp s.f.cur), last := .operand,
                               ws := false, prevSep := false },
            stack := st, modes := ms, pend := none } := by
  unfold refStepB
  rw [hc]
  have : Table.gen.define TokenType.endSideEffect = (Definition.drop, SecDef.endSideEffect) := rfl
  simp only [this, hctx, hst, hm, hp, hl]
  rfl

theorem stage_seg_run (s : BSt) (hp : s.pend = none) (seg : List PToken) (hnb : ∀ t ∈ seg, noBlockTok t = true) (pos : Nat)
    (rest : List PToken) (g : Frame) (S' : List Frame) (hrun : refRun Table.gen s.f s.stack pos seg rest = .ok (g, S')) :
    refLoopB Table.gen s pos (seg ++ rest) = refLoopB Table.gen { s with f := g, stack := S' } (pos + seg.length) rest := by
  rw [refLoopB_segment seg s pos rest hp hnb, hrun]
  rfl

theorem stage_triv (s : BSt) (hp : s.pend = none) (ws : List PToken) (hws : ∀ w ∈ ws, isTriviaTok w = true) (pos : Nat)
    (rest : List PToken) :
    ∃ b, refLoopB Table.gen s pos (ws ++ rest) =
      refLoopB Table.gen { s with f := { s.f with ws := b } } (pos + ws.length) rest := by
  obtain ⟨b, hb⟩ := refRun_trivia ws hws s.f s.stack pos rest
  exact ⟨b, stage_seg_run s hp ws (trivia_noblock hws) pos rest _ _ hb⟩

theorem stage_tok (s s' : BSt) (pos : Nat) (t : PToken) (rest : List PToken) (h : refStepB Table.gen s pos t rest = .ok s') :
    refLoopB Table.gen s pos (t :: rest) = refLoopB Table.gen s' (pos + 1) rest := by
  rw [refLoopB, h]; rfl

/-- **the value of `refParseB` on `v [ body ]`** -/
theorem refParseB_value_block {F : Fl} (v o c : PToken) (ws wsA wsB : List PToken) (body : Ex) (hv : isAtom10 v = true)
    (ho : o.type = .startSideEffect) (hc : c.type = .endSideEffect) (hbody : body.ok F false = true)
    (hws : ∀ w ∈ ws, isTriviaTok w = true) (hwA : ∀ w ∈ wsA, isTriviaTok w = true) (hwB : ∀ w ∈ wsB, isTriviaTok w = true)
    (hnum : NumberedFrom 0 (v :: (ws ++ (o :: (wsA ++ (body.toks ++ (wsB ++ [c])))))))
    (tb : RTree) (href : refParse Table.gen body.toks = .ok tb) :
    refParseB Table.gen (v :: (ws ++ (o :: (wsA ++ (body.toks ++ (wsB ++ [c])))))) =
      .ok (.node .nil (getDefinition v.type).1 0
        (.node .nil .sideEffect (1 + ws.length) (tb.shift (1 + ws.length + 1 + wsA.length)))) := by
  obtain ⟨hvt, hvn⟩ := atom_valueTok hv
  have hne : v :: (ws ++ (o :: (wsA ++ (body.toks ++ (wsB ++ [c]))))) ≠ [] := by simp
  have hhead : isTrimmable ((v :: (ws ++ (o :: (wsA ++ (body.toks ++ (wsB ++ [c])))))).head hne) = false := by
    simp only [List.head_cons]; exact atom10_not_trimmable hv
  have hlast : isTrimmable ((v :: (ws ++ (o :: (wsA ++ (body.toks ++ (wsB ++ [c])))))).getLast hne) = false := by
    have e : v :: (ws ++ (o :: (wsA ++ (body.toks ++ (wsB ++ [c]))))) =
        (v :: (ws ++ (o :: (wsA ++ (body.toks ++ wsB))))) ++ [c] := by simp
    rw [getLast_of_eq_append hne e]; simp only [isTrimmable, hc]; rfl
  obtain ⟨_, hts, htr⟩ := trim_id _ hne hhead hlast
  have hnumB : NumberedFrom (1 + ws.length + 1 + wsA.length) body.toks := by
    have hnum1 : NumberedFrom (0 + 1) (ws ++ (o :: (wsA ++ (body.toks ++ (wsB ++ [c]))))) := hnum.2
    have hnum2 := numbered_append ws _ _ hnum1
    have hnum3 := numbered_append wsA _ _ hnum2.2
    have := numbered_prefix body.toks _ _ hnum3
    rw [Nat.zero_add] at this; exact this
  unfold refParseB
  simp only [hts, htr]
  have hlen : ¬ (0 ≥ (v :: (ws ++ (o :: (wsA ++ (body.toks ++ (wsB ++ [c])))))).length) := by simp
  simp only [List.drop_zero, Nat.sub_zero, List.take_length, hlen, if_false]
  -- the states
  let f1 : Frame := { ctx := none, cur := .node .nil (getDefinition v.type).1 0 .nil, last := .operand, ws := false,
                      prevSep := false }
  let s1 : BSt := { f := f1, stack := [], modes := [], pend := none }
  have e1 : refLoopB Table.gen BSt.top 0 (v :: (ws ++ (o :: (wsA ++ (body.toks ++ (wsB ++ [c])))))) =
      refLoopB Table.gen s1 1 (ws ++ (o :: (wsA ++ (body.toks ++ (wsB ++ [c]))))) := by
    apply stage_tok
    rw [refStepB_noblock hvn BSt.top rfl, refStep_value hvt]
    rfl
  obtain ⟨b1, e2⟩ := stage_triv s1 rfl ws hws 1 (o :: (wsA ++ (body.toks ++ (wsB ++ [c]))))
  let s2 : BSt := { s1 with f := { f1 with ws := b1 } }
  let s3 : BSt := { f := blockFrame (1 + ws.length), stack := [{ f1 with ws := b1 }], modes := [.valueRight], pend := none }
  have e3 : refLoopB Table.gen s2 (1 + ws.length) (o :: (wsA ++ (body.toks ++ (wsB ++ [c])))) =
      refLoopB Table.gen s3 (1 + ws.length + 1) (wsA ++ (body.toks ++ (wsB ++ [c]))) :=
    stage_tok s2 s3 _ o _ (refStepB_open_value ho s2 rfl rfl rfl _ _)
  obtain ⟨b2, e4⟩ := stage_triv s3 rfl wsA hwA (1 + ws.length + 1) (body.toks ++ (wsB ++ [c]))
  let s4 : BSt := { s3 with f := { blockFrame (1 + ws.length) with ws := b2 } }
  obtain ⟨g, hrun, hgcur, hgctx, hglast, hnb⟩ := body_run body hbody (1 + ws.length + 1 + wsA.length) hnumB tb href
    { blockFrame (1 + ws.length) with ws := b2 } rfl rfl rfl [{ f1 with ws := b1 }] (wsB ++ [c])
  have e5 := stage_seg_run s4 rfl body.toks hnb (1 + ws.length + 1 + wsA.length) (wsB ++ [c]) g _ hrun
  let s5 : BSt := { s4 with f := g, stack := [{ f1 with ws := b1 }] }
  obtain ⟨b3, e6⟩ := stage_triv s5 rfl wsB hwB (1 + ws.length + 1 + wsA.length + body.toks.length) [c]
  let s6 : BSt := { s5 with f := { g with ws := b3 } }
  have e7 := stage_tok s6 _ (1 + ws.length + 1 + wsA.length + body.toks.length + wsB.length) c []
    (refStepB_close_value hc s6 (1 + ws.length) { f1 with ws := b1 } [] [] hgctx rfl rfl rfl hglast _ _)
  rw [e1, e2, e3, e4, e5, e6, e7]
  have hunb : unB tb = tb := unB_id hnb tb (refParse_nodes body.toks tb href)
  simp only [refLoopB, List.isEmpty_nil, Bool.not_true, Bool.false_eq_true, if_false, f1, setBottomRight,
    RTree.isNil, if_true, unB]
  have hcur : unB s6.f.cur = tb.shift (1 + ws.length + 1 + wsA.length) := by
    show unB g.cur = _
    rw [hgcur, unB_shift, hunb]
  rw [hcur]
  rfl

end Garnish.Spec
