/-
`kernel_rfl`: closes a goal `a = b` with the proof term `Eq.refl a` and leaves the definitional-equality check to the kernel,
which checks every declaration anyway — exactly what `decide +kernel` does for `Decidable` propositions.  Used where both sides
are closed up to free variables that the computation never inspects (the model of `parse` on token lists with symbolic token
TEXT): the elaborator's own unifier needs far more steps for the same check.  No axiom is involved; a wrong use is rejected by
the kernel when the theorem is added.
-/
import Lean.Elab.Tactic
namespace Garnish.Lemmas

open Lean Elab Tactic Meta in
elab "kernel_rfl" : tactic => do
  let g ← getMainGoal
  let t ← instantiateMVars (← g.getType)
  match t.eq? with
  | some (α, a, _) =>
    let u ← getLevel α
    g.assign (← mkExpectedTypeHint (mkApp2 (mkConst ``Eq.refl [u]) α a) t)
  | none => throwError "kernel_rfl: the goal is not an equality"

end Garnish.Lemmas
