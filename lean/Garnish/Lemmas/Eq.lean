import Garnish.Abs.Ops
set_option linter.unusedSimpArgs false
namespace Garnish.Lemmas
open Garnish Gen Garnish.Abs

variable {F : Type} (fo : FloatOps F)

/-- equality laws of IEEE doubles that `==` on numbers relies on (hypotheses, not axioms) -/
structure FloatEqLaws (fo : FloatOps F) : Prop where
  refl : ∀ a, fo.isNaN a = false → fo.feq a a = true
  symm : ∀ a b, fo.feq a b = fo.feq b a
  trans : ∀ a b c, fo.feq a b = true → fo.feq b c = true → fo.feq a c = true
  /-- `f64::from(i32)` is exact, hence injective, on the i32 range -/
  ofInt_inj : ∀ a b : Int, InRange a → InRange b → fo.feq (fo.ofInt a) (fo.ofInt b) = true → a = b

def numClean : Number F → Bool
  | .int a => decide (InRange a)
  | .float f => !fo.isNaN f

def symPartClean : SymPart F → Bool
  | .sym _ => true
  | .num n => numClean fo n

mutual
/-- values `==` is an equivalence on: no NaN, integers in the i32 range, no slice/partial/custom, range
end points unit or number -/
def NVal.clean : NVal F → Bool
  | .atom _ _ => true
  | .num n => numClean fo n
  | .text _ => true
  | .blob _ => true
  | .symList ps => ps.all (symPartClean fo)
  | .pair l r => NVal.clean l && NVal.clean r
  | .seq items => NVal.cleanList items
  | .range s e => NVal.cleanEnd s && NVal.cleanEnd e
  | .opaque => false
def NVal.cleanList : List (NVal F) → Bool
  | [] => true
  | x :: xs => NVal.clean x && NVal.cleanList xs
def NVal.cleanEnd : NVal F → Bool
  | .atom .unit _ => true
  | .num n => numClean fo n
  | _ => false
end

theorem numEq_refl (h : FloatEqLaws fo) (n : Number F) (hc : numClean fo n = true) : Number.numEq fo n n = true := by
  cases n with
  | int a => simp [Number.numEq]
  | float f => simp [numClean] at hc; simp [Number.numEq, h.refl f hc]

theorem numEq_symm (h : FloatEqLaws fo) (a b : Number F) : Number.numEq fo a b = Number.numEq fo b a := by
  cases a <;> cases b <;> simp only [Number.numEq, h.symm]
  exact BEq.comm

theorem numEq_trans (h : FloatEqLaws fo) (a b c : Number F) (ha : numClean fo a = true) (hc : numClean fo c = true)
    (h1 : Number.numEq fo a b = true) (h2 : Number.numEq fo b c = true) : Number.numEq fo a c = true := by
  cases a with
  | int x =>
    cases b with
    | int y =>
      have : x = y := by simpa [Number.numEq] using h1
      subst this; exact h2
    | float f =>
      cases c with
      | int z =>
        simp only [Number.numEq] at h1 h2 ⊢
        simp only [numClean, decide_eq_true_eq] at ha hc
        have := h.ofInt_inj x z ha hc (h.trans _ _ _ h1 h2)
        simp [this]
      | float g => simp only [Number.numEq] at h1 h2 ⊢; exact h.trans _ _ _ h1 h2
  | float f =>
    cases b with
    | int y =>
      cases c with
      | int z =>
        have : y = z := by simpa [Number.numEq] using h2
        subst this; exact h1
      | float g => simp only [Number.numEq] at h1 h2 ⊢; exact h.trans _ _ _ h1 h2
    | float g =>
      cases c <;> (simp only [Number.numEq] at h1 h2 ⊢; exact h.trans _ _ _ h1 h2)

theorem symPartEq_refl (h : FloatEqLaws fo) (p : SymPart F) (hc : symPartClean fo p = true) : symPartEq fo p p = true := by
  cases p with
  | sym s => simp [symPartEq]
  | num n => exact numEq_refl fo h n hc

theorem symPartsEq_refl (h : FloatEqLaws fo) : ∀ (ps : List (SymPart F)), ps.all (symPartClean fo) = true → symPartsEq fo ps ps = true
  | [], _ => rfl
  | p :: ps, hc => by
    simp [List.all_cons] at hc
    simp [symPartsEq, symPartEq_refl fo h p hc.1, symPartsEq_refl h ps (by simpa using hc.2)]

theorem symPartEq_symm (h : FloatEqLaws fo) (a b : SymPart F) : symPartEq fo a b = symPartEq fo b a := by
  cases a <;> cases b <;> simp only [symPartEq, numEq_symm fo h]
  exact BEq.comm

theorem symPartsEq_symm (h : FloatEqLaws fo) : ∀ (a b : List (SymPart F)), symPartsEq fo a b = symPartsEq fo b a
  | [], [] => rfl
  | [], _ :: _ => rfl
  | _ :: _, [] => rfl
  | x :: xs, y :: ys => by simp [symPartsEq, symPartEq_symm fo h x y, symPartsEq_symm h xs ys]

theorem symPartEq_trans (h : FloatEqLaws fo) (a b c : SymPart F) (ha : symPartClean fo a = true) (hc : symPartClean fo c = true)
    (h1 : symPartEq fo a b = true) (h2 : symPartEq fo b c = true) : symPartEq fo a c = true := by
  cases a <;> cases b <;> cases c <;> simp [symPartEq, symPartClean] at *
  · omega
  · exact numEq_trans fo h _ _ _ ha hc h1 h2

theorem symPartsEq_trans (h : FloatEqLaws fo) : ∀ (a b c : List (SymPart F)),
    a.all (symPartClean fo) = true → c.all (symPartClean fo) = true →
    symPartsEq fo a b = true → symPartsEq fo b c = true → symPartsEq fo a c = true
  | [], [], [], _, _, _, _ => rfl
  | [], [], _ :: _, _, _, _, h2 => by simp [symPartsEq] at h2
  | [], _ :: _, _, _, _, h1, _ => by simp [symPartsEq] at h1
  | _ :: _, [], _, _, _, h1, _ => by simp [symPartsEq] at h1
  | _ :: _, _ :: _, [], _, _, _, h2 => by simp [symPartsEq] at h2
  | x :: xs, y :: ys, z :: zs, ha, hc, h1, h2 => by
    simp [symPartsEq, List.all_cons] at *
    exact ⟨symPartEq_trans fo h x y z ha.1 hc.1 h1.1 h2.1,
      symPartsEq_trans h xs ys zs (by simpa using ha.2) (by simpa using hc.2) h1.2 h2.2⟩


/-! ### nvalEq is an equivalence on clean values -/

theorem rangeEndEq_refl (h : FloatEqLaws fo) (x : NVal F) (hc : NVal.cleanEnd fo x = true) : rangeEndEq fo x x = true := by
  cases x with
  | atom t n => cases t <;> simp_all [rangeEndEq, NVal.cleanEnd]
  | num n => exact numEq_refl fo h n (by simpa [NVal.cleanEnd] using hc)
  | _ => simp [NVal.cleanEnd] at hc

theorem rangeEndEq_symm (h : FloatEqLaws fo) (x y : NVal F) : rangeEndEq fo x y = rangeEndEq fo y x := by
  cases x <;> cases y <;> simp only [rangeEndEq, Bool.and_comm]
  exact numEq_symm fo h _ _

theorem rangeEndEq_trans (h : FloatEqLaws fo) (x y z : NVal F) (hx : NVal.cleanEnd fo x = true) (hz : NVal.cleanEnd fo z = true)
    (h1 : rangeEndEq fo x y = true) (h2 : rangeEndEq fo y z = true) : rangeEndEq fo x z = true := by
  cases x <;> cases y <;> simp [rangeEndEq] at h1 <;> cases z <;> simp [rangeEndEq] at h2 ⊢
  · exact ⟨h1.1, h2.2⟩
  · exact numEq_trans fo h _ _ _ (by simpa [NVal.cleanEnd] using hx) (by simpa [NVal.cleanEnd] using hz) h1 h2

mutual
theorem nvalEq_refl (h : FloatEqLaws fo) : ∀ (x : NVal F), NVal.clean fo x = true → nvalEq fo x x = true
  | .atom t n, _ => by simp [nvalEq]
  | .num n, hc => by simp only [nvalEq]; exact numEq_refl fo h n (by simpa [NVal.clean] using hc)
  | .text _, _ => by simp [nvalEq]
  | .blob _, _ => by simp [nvalEq]
  | .symList ps, hc => by simp only [nvalEq]; exact symPartsEq_refl fo h ps (by simpa [NVal.clean] using hc)
  | .pair l r, hc => by
    simp only [NVal.clean, Bool.and_eq_true] at hc
    simp [nvalEq, nvalEq_refl h l hc.1, nvalEq_refl h r hc.2]
  | .seq items, hc => by
    simp only [NVal.clean] at hc
    simp only [nvalEq]; exact nvalsEq_refl h items hc
  | .range s e, hc => by
    simp only [NVal.clean, Bool.and_eq_true] at hc
    simp [nvalEq, rangeEndEq_refl fo h s hc.1, rangeEndEq_refl fo h e hc.2]
  | .opaque, hc => by simp [NVal.clean] at hc
theorem nvalsEq_refl (h : FloatEqLaws fo) : ∀ (xs : List (NVal F)), NVal.cleanList fo xs = true → nvalsEq fo xs xs = true
  | [], _ => by simp [nvalsEq]
  | x :: xs, hc => by
    simp only [NVal.cleanList, Bool.and_eq_true] at hc
    simp [nvalsEq, nvalEq_refl h x hc.1, nvalsEq_refl h xs hc.2]
end

mutual
theorem nvalEq_symm (h : FloatEqLaws fo) : ∀ (x y : NVal F), nvalEq fo x y = nvalEq fo y x
  | .atom t n, .atom t' n' => by
    simp only [nvalEq]
    rw [show (t == t') = (t' == t) from BEq.comm, show (n == n') = (n' == n) from BEq.comm]
  | .num a, .num b => by simp only [nvalEq]; exact numEq_symm fo h a b
  | .text a, .text b => by simp only [nvalEq]; exact BEq.comm
  | .blob a, .blob b => by simp only [nvalEq]; exact BEq.comm
  | .symList a, .symList b => by simp only [nvalEq]; exact symPartsEq_symm fo h a b
  | .pair l r, .pair l' r' => by simp only [nvalEq, nvalEq_symm h l l', nvalEq_symm h r r']
  | .seq a, .seq b => by simp only [nvalEq]; exact nvalsEq_symm h a b
  | .range s e, .range s' e' => by simp only [nvalEq, rangeEndEq_symm fo h s s', rangeEndEq_symm fo h e e']
  | .atom _ _, .num _ | .atom _ _, .text _ | .atom _ _, .blob _ | .atom _ _, .symList _ | .atom _ _, .pair _ _
  | .atom _ _, .seq _ | .atom _ _, .range _ _ | .atom _ _, .opaque => by simp [nvalEq]
  | .num _, .atom _ _ | .num _, .text _ | .num _, .blob _ | .num _, .symList _ | .num _, .pair _ _
  | .num _, .seq _ | .num _, .range _ _ | .num _, .opaque => by simp [nvalEq]
  | .text _, .atom _ _ | .text _, .num _ | .text _, .blob _ | .text _, .symList _ | .text _, .pair _ _
  | .text _, .seq _ | .text _, .range _ _ | .text _, .opaque => by simp [nvalEq]
  | .blob _, .atom _ _ | .blob _, .num _ | .blob _, .text _ | .blob _, .symList _ | .blob _, .pair _ _
  | .blob _, .seq _ | .blob _, .range _ _ | .blob _, .opaque => by simp [nvalEq]
  | .symList _, .atom _ _ | .symList _, .num _ | .symList _, .text _ | .symList _, .blob _ | .symList _, .pair _ _
  | .symList _, .seq _ | .symList _, .range _ _ | .symList _, .opaque => by simp [nvalEq]
  | .pair _ _, .atom _ _ | .pair _ _, .num _ | .pair _ _, .text _ | .pair _ _, .blob _ | .pair _ _, .symList _
  | .pair _ _, .seq _ | .pair _ _, .range _ _ | .pair _ _, .opaque => by simp [nvalEq]
  | .seq _, .atom _ _ | .seq _, .num _ | .seq _, .text _ | .seq _, .blob _ | .seq _, .symList _
  | .seq _, .pair _ _ | .seq _, .range _ _ | .seq _, .opaque => by simp [nvalEq]
  | .range _ _, .atom _ _ | .range _ _, .num _ | .range _ _, .text _ | .range _ _, .blob _ | .range _ _, .symList _
  | .range _ _, .pair _ _ | .range _ _, .seq _ | .range _ _, .opaque => by simp [nvalEq]
  | .opaque, .atom _ _ | .opaque, .num _ | .opaque, .text _ | .opaque, .blob _ | .opaque, .symList _
  | .opaque, .pair _ _ | .opaque, .seq _ | .opaque, .range _ _ | .opaque, .opaque => by simp [nvalEq]
theorem nvalsEq_symm (h : FloatEqLaws fo) : ∀ (xs ys : List (NVal F)), nvalsEq fo xs ys = nvalsEq fo ys xs
  | [], [] => rfl
  | [], _ :: _ => by simp [nvalsEq]
  | _ :: _, [] => by simp [nvalsEq]
  | x :: xs, y :: ys => by simp only [nvalsEq, nvalEq_symm h x y, nvalsEq_symm h xs ys]
end


mutual
theorem nvalEq_trans (h : FloatEqLaws fo) : ∀ (x y z : NVal F), NVal.clean fo x = true → NVal.clean fo z = true →
    nvalEq fo x y = true → nvalEq fo y z = true → nvalEq fo x z = true
  | .atom t n, y, z, _, _, h1, h2 => by
    cases y <;> simp [nvalEq] at h1
    cases z <;> simp [nvalEq] at h2
    simp [nvalEq]; exact ⟨h1.1.trans h2.1, h1.2.trans h2.2⟩
  | .num a, y, z, hx, hz, h1, h2 => by
    cases y <;> simp [nvalEq] at h1
    cases z <;> simp [nvalEq] at h2
    simp only [nvalEq]
    exact numEq_trans fo h _ _ _ (by simpa [NVal.clean] using hx) (by simpa [NVal.clean] using hz) h1 h2
  | .text a, y, z, _, _, h1, h2 => by
    cases y <;> simp [nvalEq] at h1
    cases z <;> simp [nvalEq] at h2
    simp [nvalEq]; exact h1.trans h2
  | .blob a, y, z, _, _, h1, h2 => by
    cases y <;> simp [nvalEq] at h1
    cases z <;> simp [nvalEq] at h2
    simp [nvalEq]; exact h1.trans h2
  | .symList a, y, z, hx, hz, h1, h2 => by
    cases y <;> simp [nvalEq] at h1
    cases z <;> simp [nvalEq] at h2
    simp only [nvalEq]
    exact symPartsEq_trans fo h _ _ _ (by simpa [NVal.clean] using hx) (by simpa [NVal.clean] using hz) h1 h2
  | .pair l r, .pair l' r', .pair l'' r'', hx, hz, h1, h2 => by
    simp only [NVal.clean, Bool.and_eq_true] at hx hz
    simp only [nvalEq, Bool.and_eq_true] at h1 h2 ⊢
    exact ⟨nvalEq_trans h l l' l'' hx.1 hz.1 h1.1 h2.1, nvalEq_trans h r r' r'' hx.2 hz.2 h1.2 h2.2⟩
  | .seq a, .seq b, .seq c, hx, hz, h1, h2 => by
    simp only [NVal.clean] at hx hz
    simp only [nvalEq] at h1 h2 ⊢
    exact nvalsEq_trans h a b c hx hz h1 h2
  | .range s e, .range s' e', .range s'' e'', hx, hz, h1, h2 => by
    simp only [NVal.clean, Bool.and_eq_true] at hx hz
    simp only [nvalEq, Bool.and_eq_true] at h1 h2 ⊢
    exact ⟨rangeEndEq_trans fo h _ _ _ hx.1 hz.1 h1.1 h2.1, rangeEndEq_trans fo h _ _ _ hx.2 hz.2 h1.2 h2.2⟩
  | .opaque, _, _, hx, _, _, _ => by simp [NVal.clean] at hx
  | .pair _ _, .atom _ _, _, _, _, h1, _ | .pair _ _, .num _, _, _, _, h1, _ | .pair _ _, .text _, _, _, _, h1, _
  | .pair _ _, .blob _, _, _, _, h1, _ | .pair _ _, .symList _, _, _, _, h1, _ | .pair _ _, .seq _, _, _, _, h1, _
  | .pair _ _, .range _ _, _, _, _, h1, _ | .pair _ _, .opaque, _, _, _, h1, _ => by simp [nvalEq] at h1
  | .pair _ _, .pair _ _, .atom _ _, _, _, _, h2 | .pair _ _, .pair _ _, .num _, _, _, _, h2
  | .pair _ _, .pair _ _, .text _, _, _, _, h2 | .pair _ _, .pair _ _, .blob _, _, _, _, h2
  | .pair _ _, .pair _ _, .symList _, _, _, _, h2 | .pair _ _, .pair _ _, .seq _, _, _, _, h2
  | .pair _ _, .pair _ _, .range _ _, _, _, _, h2 | .pair _ _, .pair _ _, .opaque, _, _, _, h2 => by simp [nvalEq] at h2
  | .seq _, .atom _ _, _, _, _, h1, _ | .seq _, .num _, _, _, _, h1, _ | .seq _, .text _, _, _, _, h1, _
  | .seq _, .blob _, _, _, _, h1, _ | .seq _, .symList _, _, _, _, h1, _ | .seq _, .pair _ _, _, _, _, h1, _
  | .seq _, .range _ _, _, _, _, h1, _ | .seq _, .opaque, _, _, _, h1, _ => by simp [nvalEq] at h1
  | .seq _, .seq _, .atom _ _, _, _, _, h2 | .seq _, .seq _, .num _, _, _, _, h2
  | .seq _, .seq _, .text _, _, _, _, h2 | .seq _, .seq _, .blob _, _, _, _, h2
  | .seq _, .seq _, .symList _, _, _, _, h2 | .seq _, .seq _, .pair _ _, _, _, _, h2
  | .seq _, .seq _, .range _ _, _, _, _, h2 | .seq _, .seq _, .opaque, _, _, _, h2 => by simp [nvalEq] at h2
  | .range _ _, .atom _ _, _, _, _, h1, _ | .range _ _, .num _, _, _, _, h1, _ | .range _ _, .text _, _, _, _, h1, _
  | .range _ _, .blob _, _, _, _, h1, _ | .range _ _, .symList _, _, _, _, h1, _ | .range _ _, .pair _ _, _, _, _, h1, _
  | .range _ _, .seq _, _, _, _, h1, _ | .range _ _, .opaque, _, _, _, h1, _ => by simp [nvalEq] at h1
  | .range _ _, .range _ _, .atom _ _, _, _, _, h2 | .range _ _, .range _ _, .num _, _, _, _, h2
  | .range _ _, .range _ _, .text _, _, _, _, h2 | .range _ _, .range _ _, .blob _, _, _, _, h2
  | .range _ _, .range _ _, .symList _, _, _, _, h2 | .range _ _, .range _ _, .pair _ _, _, _, _, h2
  | .range _ _, .range _ _, .seq _, _, _, _, h2 | .range _ _, .range _ _, .opaque, _, _, _, h2 => by simp [nvalEq] at h2
theorem nvalsEq_trans (h : FloatEqLaws fo) : ∀ (xs ys zs : List (NVal F)), NVal.cleanList fo xs = true → NVal.cleanList fo zs = true →
    nvalsEq fo xs ys = true → nvalsEq fo ys zs = true → nvalsEq fo xs zs = true
  | [], [], [], _, _, _, _ => rfl
  | [], [], _ :: _, _, _, _, h2 => by simp [nvalsEq] at h2
  | [], _ :: _, _, _, _, h1, _ => by simp [nvalsEq] at h1
  | _ :: _, [], _, _, _, h1, _ => by simp [nvalsEq] at h1
  | _ :: _, _ :: _, [], _, _, _, h2 => by simp [nvalsEq] at h2
  | x :: xs, y :: ys, z :: zs, hx, hz, h1, h2 => by
    simp only [NVal.cleanList, Bool.and_eq_true] at hx hz
    simp only [nvalsEq, Bool.and_eq_true] at h1 h2 ⊢
    exact ⟨nvalEq_trans h x y z hx.1 hz.1 h1.1 h2.1, nvalsEq_trans h xs ys zs hx.2 hz.2 h1.2 h2.2⟩
end

end Garnish.Lemmas
