/-
Overwriting the `value` link of input-value cells (`get_current_value_mut`, and the re-pointing loop of `optimize`)
changes what those cells read as and nothing else; `WFq` is kept when the new links are readable addresses.
-/
import Garnish.Lemmas.MutWF
import Garnish.Lemmas.OptimizeList
set_option maxHeartbeats 1000000
namespace Garnish.BasicOpt
open Garnish

/-- `A'` is `A` with some input-value cells replaced by input-value cells -/
def SVUpd (A A' : Array Cell) : Prop :=
  A'.size = A.size ∧ ∀ j, A'[j]? = A[j]? ∨ (svAt A j = true ∧ svAt A' j = true)

theorem SVUpd.symm {A A' : Array Cell} (h : SVUpd A A') : SVUpd A' A :=
  ⟨h.1.symm, fun j => (h.2 j).elim (fun e => Or.inl e.symm) (fun e => Or.inr ⟨e.2, e.1⟩)⟩

theorem SVUpd.agreeNS {A A' : Array Cell} (h : SVUpd A A') : AgreeNS A A' := by
  intro i c hc hns
  rcases h.2 i with e | ⟨e, _⟩
  · rw [e]; exact hc
  · simp [svAt, hc, hns] at e

theorem SVUpd.svAt_eq {A A' : Array Cell} (h : SVUpd A A') (j : Nat) : svAt A' j = svAt A j := by
  rcases h.2 j with e | ⟨e1, e2⟩
  · simp only [svAt, e]
  · rw [e1, e2]

theorem SVUpd.shape_same {A A' : Array Cell} (h : SVUpd A A') {j : Nat} (hsame : A'[j]? = A[j]?) :
    shape A' j = shape A j := by
  have one : ∀ {B B' : Array Cell}, SVUpd B B' → B'[j]? = B[j]? → ∀ sh, shape B j = some sh → shape B' j = some sh := by
    intro B B' hu hs sh hsh
    cases hsv : svAt B j with
    | false => exact shape_agreeS hu.agreeNS hsh hsv
    | true =>
      rcases sv_cell hsv with ⟨p, v, hc⟩ | ⟨v, hc⟩
      · rw [shape_of_solo hc (sh := ⟨.value 0 0, [], [p, v]⟩) rfl] at hsh
        rw [← hsh]; exact shape_of_solo (by rw [hs]; exact hc) rfl
      · rw [shape_of_solo hc (sh := ⟨.valueRoot 0, [], [v]⟩) rfl] at hsh
        rw [← hsh]; exact shape_of_solo (by rw [hs]; exact hc) rfl
  cases hA : shape A j with
  | some sh => exact one h hsame sh hA
  | none =>
    cases hA' : shape A' j with
    | none => rfl
    | some sh' => rw [one h.symm hsame.symm sh' hA'] at hA; cases hA

theorem SVUpd.isNode_eq {A A' : Array Cell} (h : SVUpd A A') (j : Nat) : isNode A' j = isNode A j := by
  rcases h.2 j with e | ⟨e1, e2⟩
  · simp only [isNode, h.shape_same e]
  · rw [sv_isNode e1, sv_isNode e2]

theorem SVUpd.extract {A A' : Array Cell} (h : SVUpd A A') (r : Nat) : SVUpd (A.extract 0 r) (A'.extract 0 r) := by
  refine ⟨by simp [Array.size_extract, h.1], ?_⟩
  intro j
  have hget : ∀ B : Array Cell, (B.extract 0 r)[j]? = if j < min r B.size then B[j]? else none := by
    intro B
    rw [Array.getElem?_extract]
    simp
  by_cases hj : j < min r A.size
  · have hj' : j < min r A'.size := by rw [h.1]; exact hj
    rcases h.2 j with e | ⟨e1, e2⟩
    · left; rw [hget, hget, if_pos hj, if_pos hj', e]
    · right
      simp only [svAt, hget, if_pos hj, if_pos hj'] at e1 e2 ⊢
      exact ⟨e1, e2⟩
  · have hj' : ¬ j < min r A'.size := by rw [h.1]; exact hj
    left; rw [hget, hget, if_neg hj, if_neg hj']

/-- what an in-place update may do to a cell: nothing, or a new readable `value` link in an input-value cell -/
def Relinked (A A' : Array Cell) (j : Nat) : Prop :=
  A'[j]? = A[j]? ∨
  (∃ p v0 v, A[j]? = some (.value p v0) ∧ A'[j]? = some (.value p v) ∧ isNode A v = true) ∨
  (∃ v0 v, A[j]? = some (.valueRoot v0) ∧ A'[j]? = some (.valueRoot v) ∧ isNode A v = true)

theorem svupd_of_relinked {A A' : Array Cell} (hsz : A'.size = A.size) (h : ∀ j, Relinked A A' j) : SVUpd A A' := by
  refine ⟨hsz, fun j => ?_⟩
  rcases h j with e | ⟨p, v0, v, h1, h2, _⟩ | ⟨v0, v, h1, h2, _⟩
  · exact Or.inl e
  · exact Or.inr ⟨by simp [svAt, h1, isSV], by simp [svAt, h2, isSV]⟩
  · exact Or.inr ⟨by simp [svAt, h1, isSV], by simp [svAt, h2, isSV]⟩

/-- **re-linking input-value cells keeps `WFq`** -/
theorem relink_wfq {s s' : Store} (hwf : WFq s) (hsz : s'.cells.size = s.cells.size)
    (hrel : ∀ j, Relinked s.cells s'.cells j) (hret : s'.retention = s.retention) (hsym : s'.symtab = s.symtab)
    (hreg : s'.currentRegister = s.currentRegister) (hval : s'.currentValue = s.currentValue)
    (hfrm : s'.currentFrame = s.currentFrame) : WFq s' := by
  have hu := svupd_of_relinked hsz hrel
  have hnode := hu.isNode_eq
  have hsv := hu.svAt_eq
  refine ⟨by rw [hret, hsz]; exact hwf.retLe, ?_, ?_, ?_, ?_, ?_, ?_, ?_, ?_⟩
  · intro j hj
    rw [hsz] at hj
    have hold := hwf.nodes j hj
    rcases hrel j with e | ⟨p, v0, v, h1, h2, h3⟩ | ⟨v0, v, h1, h2, h3⟩
    · obtain ⟨c, hc⟩ : ∃ c, s.cells[j]? = some c := ⟨s.cells[j], by simp [hj]⟩
      have hc' : s'.cells[j]? = some c := by rw [e]; exact hc
      by_cases hcsv : isSV c = true
      · cases c <;> simp [isSV] at hcsv
        · simp only [nodeOKq, hc, Bool.and_eq_true, decide_eq_true_eq] at hold
          simp only [nodeOKq, hc', Bool.and_eq_true, decide_eq_true_eq, hsv, hnode]
          exact hold
        · simp only [nodeOKq, hc] at hold
          simp only [nodeOKq, hc', hnode]
          exact hold
      · have hns : isSV c = false := by simpa using hcsv
        rw [nodeOKq_of_cell hc hns] at hold
        rw [nodeOKq_of_cell hc' hns]
        simp only [nodeOK, hu.shape_same e, hnode]
        exact hold
    · simp only [nodeOKq, h1, Bool.and_eq_true, decide_eq_true_eq] at hold
      simp only [nodeOKq, h2, Bool.and_eq_true, decide_eq_true_eq, hsv, hnode]
      exact ⟨hold.1, h3⟩
    · simp only [nodeOKq, h2, hnode]; exact h3
  · intro j hj
    rw [hsz] at hj
    have hold := hwf.lists j hj
    rcases hrel j with e | ⟨p, v0, v, h1, h2, h3⟩ | ⟨v0, v, h1, h2, h3⟩
    · simp only [listOK, e] at hold ⊢; exact hold
    · simp [listOK, h2]
    · simp [listOK, h2]
  · intro j hj
    rw [hsz] at hj
    have hold := hwf.headers j hj
    rcases hrel j with e | ⟨p, v0, v, h1, h2, h3⟩ | ⟨v0, v, h1, h2, h3⟩
    · simp only [headerOK, e, hnode] at hold ⊢; exact hold
    · simp [headerOK, h2]
    · simp [headerOK, h2]
  · intro j hj
    rw [hret] at hj ⊢
    have hold := hwf.extent j hj
    simp only [extentOK, decide_eq_true_eq] at hold ⊢
    have hjs : j < s.cells.size := by have := hwf.retLe; omega
    have hue := hu.extract s.retention
    have hex : ∀ B : Array Cell, j < B.size → (B.extract 0 s.retention)[j]? = B[j]? := by
      intro B hB
      rw [Array.getElem?_extract]
      simp; omega
    rcases hrel j with e | ⟨p, v0, v, h1, h2, h3⟩ | ⟨v0, v, h1, h2, h3⟩
    · rw [hue.shape_same (by rw [hex _ (by omega), hex _ hjs, e]), hu.shape_same e]; exact hold
    · rw [shape_of_solo (sh := ⟨.value 0 0, [], [p, v]⟩) (by rw [hex _ (by omega)]; exact h2) rfl,
        shape_of_solo (sh := ⟨.value 0 0, [], [p, v]⟩) h2 rfl]
    · rw [shape_of_solo (sh := ⟨.valueRoot 0, [], [v]⟩) (by rw [hex _ (by omega)]; exact h2) rfl,
        shape_of_solo (sh := ⟨.valueRoot 0, [], [v]⟩) h2 rfl]
  · rw [hreg]
    have := hwf.reg
    cases h : s.currentRegister with
    | none => rfl
    | some a => rw [h] at this; simp only [headOK, hnode] at this ⊢; exact this
  · rw [hval]
    have := hwf.val
    cases h : s.currentValue with
    | none => rfl
    | some a => rw [h] at this; simp only [headSV, hsv] at this ⊢; exact this
  · rw [hfrm]
    have := hwf.frm
    cases h : s.currentFrame with
    | none => rfl
    | some a => rw [h] at this; simp only [headOK, hnode] at this ⊢; exact this
  · intro c hc
    rw [hsym] at hc
    have := hwf.syms c hc
    cases c <;> simp only [symOK, hnode] at this ⊢ <;> exact this

/-- **`*get_current_value_mut() = v` keeps `WFq`** when `v` is a readable address (of data created at any time) -/
theorem setCurrentValue_wfq {s s' : Store} {v : Nat} (hwf : WFq s) (hv : isNode s.cells v = true)
    (h : Store.setCurrentValue s v = .ok s') : WFq s' := by
  unfold Store.setCurrentValue at h
  cases hcur : s.currentValue with
  | none => simp [hcur] at h
  | some i =>
    simp only [hcur] at h
    cases hc : s.cells[i]? with
    | none => simp [hc] at h
    | some c =>
      simp only [hc] at h
      have fin : ∀ c', Store.setCell s i c' = .ok s' →
          ((∃ p v0, c = .value p v0 ∧ c' = .value p v) ∨ (∃ v0, c = .valueRoot v0 ∧ c' = .valueRoot v)) → WFq s' := by
        intro c' hset hk
        obtain ⟨hget, hsz, hf⟩ := setCell_get hset
        refine relink_wfq hwf hsz ?_ hf.1 hf.2.2.1 hf.2.2.2.2.1 hf.2.2.2.1 hf.2.2.2.2.2
        intro j
        by_cases hj : j = i
        · subst hj
          rcases hk with ⟨p, v0, rfl, rfl⟩ | ⟨v0, rfl, rfl⟩
          · exact Or.inr (Or.inl ⟨p, v0, v, hc, by rw [hget]; simp, hv⟩)
          · exact Or.inr (Or.inr ⟨v0, v, hc, by rw [hget]; simp, hv⟩)
        · exact Or.inl (by rw [hget]; simp [hj])
      cases c <;> try (simp at h; done)
      · exact fin _ h (Or.inl ⟨_, _, rfl, rfl⟩)
      · exact fin _ h (Or.inr ⟨_, rfl, rfl⟩)

end Garnish.BasicOpt
