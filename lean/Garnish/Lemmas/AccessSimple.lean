import Garnish.Lemmas.Access
import Garnish.Spec.AccessWF
namespace Garnish.Access.Simple
open Garnish Garnish.Access

/-- the repaired count: for all `i32` bounds a value, the number of integers from `start` to `end` -/
theorem sliceCount_ok {s e : Int} (hs : InRange s) (he : InRange e) :
    sliceCount s e = .ok (if e < s then 0 else (e - s + 1).toNat) := by
  unfold InRange at hs he
  unfold sliceCount
  by_cases hlt : e < s
  · simp [hlt]
  · simp only [hlt, if_false]
    have h1 : I64_MIN ≤ e - s ∧ e - s ≤ I64_MAX := by unfold I64_MIN I64_MAX; omega
    have h2 : I64_MIN ≤ e - s + 1 ∧ e - s + 1 ≤ I64_MAX := by unfold I64_MIN I64_MAX; omega
    simp only [i64sub, h1, and_self, if_true, bind_ok, i64add, h2, i64AsUsize]
    congr 1
    omega

/-- the expression before fix fbec859, `(end - start) as usize + 1`: it panicked exactly for a stored extent with
`end - start = -1` (`usize::MAX + 1`) and for a difference outside `i32` -/
theorem sliceCountOld_panics_iff {s e : Int} (hs : InRange s) (he : InRange e) :
    (∃ m, sliceCountOld s e = .panic m) ↔ (e - s = -1 ∨ ¬ InRange (e - s)) := by
  unfold InRange at hs he
  unfold sliceCountOld
  by_cases hr : InRange (e - s)
  · simp only [hr, if_true, not_true_eq_false, or_false]
    rw [uadd_panics_iff]
    unfold InRange at hr
    unfold asUsize USIZE_MAX
    omega
  · simp [hr]

theorem get_safe (d : SData) (i : Nat) : Safe (get d i) := by
  unfold get; split
  · exact safe_ok _
  · exact safe_err _

theorem nthOrErr_safe (xs : List Nat) (v : Int) : Safe (nthOrErr xs v) := by
  unfold nthOrErr; split
  · exact safe_ok _
  · exact safe_err _

theorem getListItem_safe (d : SData) (a : Nat) (ix : Num) : Safe (getListItem d a ix) := by
  cases ix with
  | int v =>
    unfold getListItem
    apply safe_bind (get_safe d a); intro c _
    apply safe_bind; · cases c <;> simp [asList, safe_ok, safe_err]
    intro _ _; exact safe_ok _
  | float _ _ => exact safe_err _

theorem getCharListItem_safe (d : SData) (a : Nat) (ix : Num) : Safe (getCharListItem d a ix) := by
  cases ix with
  | int v =>
    unfold getCharListItem
    apply safe_bind (get_safe d a); intro c _
    apply safe_bind; · cases c <;> simp [asChars, safe_ok, safe_err]
    intro _ _; exact nthOrErr_safe _ _
  | float _ _ => exact safe_err _

theorem getByteListItem_safe (d : SData) (a : Nat) (ix : Num) : Safe (getByteListItem d a ix) := by
  cases ix with
  | int v =>
    unfold getByteListItem
    apply safe_bind (get_safe d a); intro c _
    apply safe_bind; · cases c <;> simp [asBytes, safe_ok, safe_err]
    intro _ _; exact nthOrErr_safe _ _
  | float _ _ => exact safe_err _

theorem getSymbolListItem_safe (d : SData) (a : Nat) (ix : Num) : Safe (getSymbolListItem d a ix) := by
  cases ix with
  | int v =>
    unfold getSymbolListItem
    apply safe_bind (get_safe d a); intro c _
    apply safe_bind; · cases c <;> simp [asSyms, safe_ok, safe_err]
    intro _ _; exact nthOrErr_safe _ _
  | float _ _ => exact safe_err _

/-- the four flat iterator constructors never fail at all (the extents are ignored) -/
theorem flatIters_ok (d : SData) (a : Nat) :
    (∃ xs, getCharListIter d a = .ok xs) ∧ (∃ xs, getByteListIter d a = .ok xs) ∧
    (∃ xs, getSymbolListIter d a = .ok xs) ∧ (∃ xs, getListItemIter d a = .ok xs) := by
  refine ⟨?_, ?_, ?_, ?_⟩
  · unfold getCharListIter; split <;> exact ⟨_, rfl⟩
  · unfold getByteListIter; split <;> exact ⟨_, rfl⟩
  · unfold getSymbolListIter; split <;> exact ⟨_, rfl⟩
  · unfold getListItemIter; split <;> exact ⟨_, rfl⟩

theorem WF.int {d : SData} (wf : WF d) {i : Nat} {v : Int} (h : d[i]? = some (.int v)) : InRange v := by
  have hm : SCell.int v ∈ d.toList := by
    rw [← Array.getElem?_toList] at h
    exact List.mem_of_getElem? h
  simpa [cellOK] using wf _ hm

theorem nestedLoop_noPanic (d : SData) : ∀ fuel stack top outer, NoPanic (nestedLoop d fuel stack top outer) := by
  intro fuel
  induction fuel with
  | zero => intro stack top outer; cases stack <;> simp [nestedLoop, noPanic_ok, noPanic_fuelOut]
  | succ fuel ih =>
    intro stack top outer
    cases stack with
    | nil => simp [nestedLoop, noPanic_ok]
    | cons item stack =>
      unfold nestedLoop
      split <;> exact ih _ _ _

/-- `collect_concatenation_indices` never panics, whatever the fuel, the nesting and the extents stored in slices -/
theorem collectLoop_noPanic {d : SData} (wf : WF d) : ∀ fuel stack acc, NoPanic (collectLoop d fuel stack acc) := by
  intro fuel
  induction fuel with
  | zero => intro stack acc; cases stack <;> simp [collectLoop, noPanic_ok, noPanic_fuelOut]
  | succ fuel ih =>
    intro stack acc
    cases stack with
    | nil => simp [collectLoop, noPanic_ok]
    | cons item stack =>
      unfold collectLoop
      split
      · exact ih _ _
      · exact ih _ _
      · exact ih _ _
      · split
        · split
          any_goals exact ih _ _
          exact noPanic_err _
        · split
          · rename_i sv ev hs he
            apply noPanic_bind (nestedLoop_noPanic d _ _ _ _); intro p _
            rw [sliceCount_ok (wf.int hs) (wf.int he)]
            simp only [bind_ok]
            exact ih _ _
          · exact ih _ _
        · exact ih _ _
      · exact ih _ _

theorem getConcatenationIter_noPanic {d : SData} (wf : WF d) (fuel a : Nat) : NoPanic (getConcatenationIter d fuel a) := by
  unfold getConcatenationIter
  split
  · exact collectLoop_noPanic wf _ _ _
  · exact noPanic_ok _

end Garnish.Access.Simple
