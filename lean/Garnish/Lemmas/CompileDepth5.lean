/-
C06 static half on compiled code, part 5: `emit_edges` — in the final layout state every instruction of the main
line that `emit` writes for a well-formed expression (with `^~` in tail positions only, when it starts at depth 0)
is entered at its ghost depth with its operands present, and each of its edges carries the ghost depth of its target.
-/
import Garnish.Lemmas.CompileDepth4
namespace Garnish.Abs
open Garnish Gen Garnish.Spec Garnish.Props.C06

variable {F : Type} {sF : LState F} {root cur : Nat}

/-- a position that is `s1.instrs.size`, stated as `s.instrs.size + n` -/
theorem EdgeOK.at {pc a : Nat} (h : EdgeOK sF a) (e : pc = a) : EdgeOK sF pc := e ▸ h

theorem hnext_cast {sF : LState F} {a b k : Nat} (h : sF.instrs.size ≤ a ∨ sF.depths[a]? = some k) (e : a = b) :
    sF.instrs.size ≤ b ∨ sF.depths[b]? = some k := e ▸ h


/-- statement of the lemma for the items of a list -/
def ListE (sF : LState F) (root cur : Nat) (items : List (Expr F)) (s : LState F) : Prop :=
  ∀ sM, cur < s.jumps.size → PendOK s → Al s → W2 s.jumps.size (emitList root cur items s) sM → Ev sM sF → AppD sM sF →
  (∀ p ∈ sM.pending.zip sM.pendDep, s.jumps.size ≤ p.1.patch → RootD sF p.1 p.2) →
  wfEList items = true → noRList items = true →
  (∀ t, sF.jumps[cur]? = some t → sF.instrs.size ≤ t ∨ sF.depths[t]? = some 0) →
  (sF.instrs.size ≤ s.instrs.size + lenList items ∨ sF.depths[s.instrs.size + lenList items]? = some (s.dep + items.length)) →
  (∀ pc, s.instrs.size ≤ pc → pc < s.instrs.size + lenList items → EdgeOK sF pc) ∧
  (∀ p ∈ (emitList root cur items s).pending.zip (emitList root cur items s).pendDep,
    p ∉ s.pending.zip s.pendDep → TermOK sF p.1 p.2)

/-- statement of the lemma for the conditions (with their `JumpIf`s) of the arms of an else-chain -/
def ArmsE (sF : LState F) (root cur : Nat) (arms : List (Bool × Expr F × Expr F)) (s : LState F) : Prop :=
  ∀ sM join, cur < s.jumps.size → PendOK s → Al s →
  Within s.jumps.size (emitArms root cur arms s).1 sM ((emitArms root cur arms s).2.map (·.2)) →
  AppD (emitArms root cur arms s).1 sM → Ev sM sF → AppD sM sF →
  (∀ p ∈ sM.pending.zip sM.pendDep, s.jumps.size ≤ p.1.patch → RootD sF p.1 p.2) →
  wfEArms arms = true → (∀ arm ∈ arms, noR arm.2.1 = true) →
  (∀ it ∈ (emitArms root cur arms s).2, RootD sF ⟨.code it.1, it.2, [(.jumpTo, some join)], cur⟩ s.dep) →
  (∀ t, sF.jumps[cur]? = some t → sF.instrs.size ≤ t ∨ sF.depths[t]? = some 0) →
  (sF.instrs.size ≤ s.instrs.size + lenArms arms ∨ sF.depths[s.instrs.size + lenArms arms]? = some s.dep) →
  (∀ pc, s.instrs.size ≤ pc → pc < s.instrs.size + lenArms arms → EdgeOK sF pc) ∧
  (∀ p ∈ (emitArms root cur arms s).1.pending.zip (emitArms root cur arms s).1.pendDep,
    p ∉ s.pending.zip s.pendDep → TermOK sF p.1 p.2)

theorem edges_infix {a b : Expr F} {sym : Nat} {s : LState F}
    (iha : ∀ t, EmitE sF root cur a t) (ihb : ∀ t, EmitE sF root cur b t) : EmitE sF root cur (.infixApply a sym b) s := by
  intro sM hc hp hal hw hev had hroots hwf htl hcur hnext
  simp only [wfE, Bool.and_eq_true] at hwf
  have c0 : cur < (s.pushConst .resolve (.sym sym)).jumps.size := by simpa using hc
  obtain ⟨p1, z1⟩ := emit_pre root cur a (s.pushConst .resolve (.sym sym)) c0
  have c1 : cur < (emit root cur a (s.pushConst .resolve (.sym sym))).jumps.size := by have := p1.jsize; omega
  obtain ⟨p2, z2⟩ := emit_pre root cur b (emit root cur a (s.pushConst .resolve (.sym sym))) c1
  have alu := hal.pushConst .resolve (.sym sym)
  have k1 := (emit_dep root cur a (s.pushConst .resolve (.sym sym)) hwf.1).2
  have k2 := (emit_dep root cur b (emit root cur a (s.pushConst .resolve (.sym sym))) hwf.2).2
  have al1 := alu.emit (root := root) c0 hwf.1
  have al2 := al1.emit (root := root) c1 hwf.2
  have alm := al2.push .makeList (some 2)
  simp only [emit] at hw
  have hn : noR a = true ∧ noR b = true := by simpa [noR] using tail_noR htl (by simp [tailR])
  have pa := emit_pre2 root cur a _ c0 hwf.1
  have pb := emit_pre2 root cur b _ c1 hwf.2
  have hwm := hw.pre (.push _ _ _)
  have hwb := hwm.pre (.push _ _ _)
  have d0 := depth_at_const hal ((pa.app.trans pb.app).trans hwb.app) had
  have dxa := next_first (root := root) (cur := cur) alu hwf.1 (pb.app.trans hwb.app) had
  have dxb := next_first (root := root) (cur := cur) al1 hwf.2 hwb.app had
  have dm := depth_at al2 hwm.app had
  have da := depth_at alm hw.app had
  simp only [pushConst_isize, pushConst_dep] at z1 k1 dxa
  have ra := sub_edges (iha _) hc hp alu (.pushConst s _ _) (hwb.pre pb) hev had hroots hwf.1 (.inl hn.1) hcur
    (.inr (by rw [pushConst_isize, pushConst_dep, ← z1, ← k1]; exact dxb))
  have rb := sub_edges (ihb _) hc hp al1 ((Pre.pushConst s _ _).trans p1) hwb hev had hroots hwf.2 (.inl hn.2) hcur
    (.inr (by rw [← z2, ← k2]; exact dm))
  refine ⟨fun pc h1 h2 => ?_, fun p hp' hnp => ?_⟩
  rotate_left
  · simp only [emit] at hp'
    by_cases hin : p ∈ (emit root cur a (s.pushConst .resolve (.sym sym))).pending.zip
        (emit root cur a (s.pushConst .resolve (.sym sym))).pendDep
    · exact ra.2 p hin hnp
    · exact rb.2 p hp' hin
  by_cases heq : pc = s.instrs.size
  · subst heq
    exact .next d0 (edges_push1 (const_at ((hwb.pre pb).pre pa).w.1 hev).1 (.inr (.inr rfl))) (.inr dxa)
  · by_cases hlt : pc < s.instrs.size + 1 + len a
    · exact ra.1 pc (by simp; omega) (by simpa using hlt)
    · by_cases hlt2 : pc < (emit root cur a (s.pushConst .resolve (.sym sym))).instrs.size + len b
      · exact rb.1 pc (by omega) hlt2
      · by_cases heq2 : pc = (emit root cur b (emit root cur a (s.pushConst .resolve (.sym sym)))).instrs.size
        · subst heq2
          have hdm : (emit root cur b (emit root cur a (s.pushConst .resolve (.sym sym)))).dep = s.dep + 1 + 2 := by
            rw [k2, k1]
          rw [hdm] at dm
          refine .next dm (edges_makeList (k := s.dep + 1) (instr_at hwm.w.1 hev)) (.inr ?_)
          have : ((emit root cur b (emit root cur a (s.pushConst .resolve (.sym sym)))).push .makeList (some 2)).dep
              = s.dep + 1 + 1 := by simp [fall, hdm]
          rw [this] at da
          simpa using da
        · obtain rfl : pc = ((emit root cur b (emit root cur a (s.pushConst .resolve (.sym sym)))).push
              .makeList (some 2)).instrs.size := by simp only [len] at h2; simp; omega
          have : ((emit root cur b (emit root cur a (s.pushConst .resolve (.sym sym)))).push .makeList (some 2)).dep
              = s.dep + 2 := by simp [fall, k2, k1]
          rw [this] at da
          exact .next da (edges_apply (k := s.dep) (instr_at hw.w.1 hev))
            (hnext_cast hnext (by simp only [len, push_isize]; omega))

theorem edges_cond {onTrue : Bool} {c t : Expr F} {s : LState F}
    (ihc : ∀ u, EmitE sF root cur c u) : EmitE sF root cur (.cond onTrue c t) s := by
  intro sM hc hp hal hw hev had hroots hwf htl hcur hnext
  simp only [wfE, Bool.and_eq_true] at hwf
  obtain ⟨p1, z1⟩ := emit_pre root cur c s hc
  have j1 := p1.jsize
  have k1 := (emit_dep root cur c s hwf.1).2
  have al1 := hal.emit (root := root) hc hwf.1
  simp only [emit] at hw
  have hn : noR c = true := by
    rcases htl with h | ⟨h, _⟩
    · simp only [noR, Bool.and_eq_true] at h; exact h.1
    · simp only [tailR, Bool.and_eq_true] at h; exact h.1
  have p2 : Pre2 (emit root cur c s) (condTail cur onTrue t (emit root cur c s)) :=
    ⟨(condTail_pre (by omega)).1, (condTail_dep k1).1.app⟩
  obtain ⟨e1, e2, d1⟩ := condTail_edges al1 k1 j1 hw hev had hroots
    (hnext_cast hnext (by simp only [len]; omega))
  have rc := sub_edges (ihc s) hc hp hal (.refl s) (hw.pre p2) hev had hroots hwf.1 (.inl hn) hcur
    (.inr (by rw [← z1]; exact d1))
  have htt : noR t = true ∨ (tailR t = true ∧ s.dep = 0) := by
    rcases htl with h | ⟨h, h0⟩
    · simp only [noR, Bool.and_eq_true] at h; exact .inl h.2
    · simp only [tailR, Bool.and_eq_true] at h; exact .inr ⟨h.2, h0⟩
  have tt := condTail_terms (hp.of_pre p1) k1 j1 hw hev (hnext_cast hnext (by simp only [len]; omega))
    ⟨hwf.2, htt, hcur⟩
  refine ⟨fun pc h1 h2 => ?_, fun p hp' hnp => ?_⟩
  rotate_left
  · simp only [emit] at hp'
    by_cases hin : p ∈ (emit root cur c s).pending.zip (emit root cur c s).pendDep
    · exact rc.2 p hin hnp
    · exact tt p hp' hin
  by_cases hlt : pc < s.instrs.size + len c
  · exact rc.1 pc h1 hlt
  · by_cases heq : pc = (emit root cur c s).instrs.size
    · exact e1.at heq
    · exact e2.at (by simp only [len] at h2; omega)

theorem edges_logicalE {instr : Instruction} {l r e : Expr F} {s : LState F} (hi : instr = .and ∨ instr = .or)
    (he : ∀ u, emit root cur e u = logicalTail cur instr r (emit root cur l u)) (hlen : len e = len l + 1)
    (hwe : wfE e = true → wfE l = true) (hne : (noR e = true ∨ (tailR e = true ∧ s.dep = 0)) → noR l = true)
    (hwr : wfE e = true → wfE r = true)
    (hnr : (noR e = true ∨ (tailR e = true ∧ s.dep = 0)) → (noR r = true ∨ (tailR r = true ∧ s.dep = 0)))
    (ihl : ∀ u, EmitE sF root cur l u) : EmitE sF root cur e s := by
  intro sM hc hp hal hw hev had hroots hwf htl hcur hnext
  have hwl := hwe hwf
  obtain ⟨p1, z1⟩ := emit_pre root cur l s hc
  have j1 := p1.jsize
  have k1 := (emit_dep root cur l s hwl).2
  have al1 := hal.emit (root := root) hc hwl
  rw [he] at hw ⊢
  have p2 : Pre2 (emit root cur l s) (logicalTail cur instr r (emit root cur l s)) :=
    ⟨(logicalTail_pre (by omega)).1, (logicalTail_dep hi).1.app⟩
  obtain ⟨e1, d1⟩ := logicalTail_edges hi al1 k1 j1 hw hev had hroots (hnext_cast hnext (by rw [hlen]; omega))
  have rl := sub_edges (ihl s) hc hp hal (.refl s) (hw.pre p2) hev had hroots hwl (.inl (hne htl)) hcur
    (.inr (by rw [← z1]; exact d1))
  have tt := logicalTail_terms hi (hp.of_pre p1) k1 j1 hw hev (hnext_cast hnext (by rw [hlen]; omega))
    ⟨hwr hwf, hnr htl, hcur⟩
  refine ⟨fun pc h1 h2 => ?_, fun p hp' hnp => ?_⟩
  rotate_left
  · by_cases hin : p ∈ (emit root cur l s).pending.zip (emit root cur l s).pendDep
    · exact rl.2 p hin hnp
    · exact tt p hp' hin
  by_cases hlt : pc < s.instrs.size + len l
  · exact rl.1 pc h1 hlt
  · exact e1.at (by rw [hlen] at h2; omega)

theorem edges_list {items : List (Expr F)} {s : LState F} (ihL : ∀ u, ListE sF root cur items u) :
    EmitE sF root cur (.list items) s := by
  intro sM hc hp hal hw hev had hroots hwf htl hcur hnext
  simp only [wfE] at hwf
  obtain ⟨p1, z1⟩ := emitList_pre root cur items s hc
  obtain ⟨dl, kl⟩ := emitList_dep root cur items s hwf
  have all : Al (emitList root cur items s) := by
    have := dl.dsize; simp only [Al] at hal ⊢; omega
  simp only [emit] at hw
  have hn : noRList items = true := by simpa [noR] using tail_noR htl (by simp [tailR])
  have dm := depth_at all hw.app had
  rw [kl] at dm
  have rl := ihL s sM hc hp hal (hw.pre ⟨.push _ _ _, .push _ _ _⟩) hev had hroots hwf hn hcur
    (.inr (by rw [← z1]; exact dm))
  refine ⟨fun pc h1 h2 => ?_, fun p hp' hnp => ?_⟩
  rotate_left
  · simp only [emit] at hp'
    exact rl.2 p hp' hnp
  by_cases hlt : pc < s.instrs.size + lenList items
  · exact rl.1 pc h1 hlt
  · obtain rfl : pc = (emitList root cur items s).instrs.size := by simp only [len] at h2; omega
    exact .next dm (edges_makeList (k := s.dep) (instr_at hw.w.1 hev)) (hnext_cast hnext (by simp only [len]; omega))

theorem edges_chain {arms : List (Bool × Expr F × Expr F)} {fe : Expr F} {s : LState F}
    (ihA : ∀ u, ArmsE sF root cur arms u) (ihfe : ∀ u, EmitE sF root cur fe u) :
    EmitE sF root cur (.chain arms (some fe)) s := by
  intro sM hc hp hal hw hev had hroots hwf htl hcur hnext
  simp only [wfE_chain, Bool.and_eq_true] at hwf
  obtain ⟨p1, z1, ok1⟩ := emitArms_pre root cur arms s hc
  have j1 := p1.jsize
  have c1 : cur < (emitArms root cur arms s).1.jumps.size := by omega
  obtain ⟨p2, z2⟩ := emit_pre root cur fe (emitArms root cur arms s).1 c1
  have j2 := p2.jsize
  obtain ⟨da, ka⟩ := emitArms_dep root cur arms s hwf.1
  obtain ⟨dfe, kfe⟩ := emit_dep root cur fe (emitArms root cur arms s).1 hwf.2
  have ala : Al (emitArms root cur arms s).1 := by
    have := da.dsize; simp only [Al] at hal ⊢; omega
  simp only [emit] at hw
  rw [len_chain] at hnext
  simp only at hnext
  -- tail conditions
  have htA : ∀ arm ∈ arms, noR arm.2.1 = true := by
    have hgen : ∀ (as : List (Bool × Expr F × Expr F)), (noRArms as = true ∨ tailRArms as = true) →
        ∀ arm ∈ as, noR arm.2.1 = true := by
      intro as
      induction as with
      | nil => intro _ arm hm; simp at hm
      | cons a0 rest ih =>
        obtain ⟨b0, c0, t0⟩ := a0
        intro h arm hm
        simp only [List.mem_cons] at hm
        rcases hm with rfl | hm
        · rcases h with h | h
          · simp only [noRArms, Bool.and_eq_true] at h; exact h.1.1
          · simp only [tailRArms, Bool.and_eq_true] at h; exact h.1.1
        · refine ih ?_ arm hm
          rcases h with h | h
          · simp only [noRArms, Bool.and_eq_true] at h; exact .inl h.2
          · simp only [tailRArms, Bool.and_eq_true] at h; exact .inr h.2
    rcases htl with h | ⟨h, _⟩
    · rw [noR_chain, Bool.and_eq_true] at h; exact hgen arms (.inl h.1)
    · rw [tailR_chain, Bool.and_eq_true] at h; exact hgen arms (.inr h.1)
  have htfe : noR fe = true ∨ (tailR fe = true ∧ (emitArms root cur arms s).1.dep = 0) := by
    rcases htl with h | ⟨h, h0⟩
    · rw [noR_chain, Bool.and_eq_true] at h; exact .inl h.2
    · rw [tailR_chain, Bool.and_eq_true] at h; exact .inr ⟨h.2, by rw [ka]; exact h0⟩
  have hfc := finishChain_dep (cur := cur) (s2 := emit root cur fe (emitArms root cur arms s).1)
    (items := (emitArms root cur arms s).2)
  have appfe : AppD (emit root cur fe (emitArms root cur arms s).1) sM := hfc.1.app.trans hw.app
  have dfirst := next_first (root := root) (cur := cur) ala hwf.2 appfe had
  -- the arms
  have rA : (∀ pc, s.instrs.size ≤ pc → pc < s.instrs.size + lenArms arms → EdgeOK sF pc) ∧
      (∀ p ∈ (emitArms root cur arms s).1.pending.zip (emitArms root cur arms s).1.pendDep,
        p ∉ s.pending.zip s.pendDep → TermOK sF p.1 p.2) := by
    have hwA : Within s.jumps.size (emitArms root cur arms s).1 sM ((emitArms root cur arms s).2.map (·.2)) :=
      (finishChain_within p2).trans hw.w
    refine ihA s sM (emit root cur fe (emitArms root cur arms s).1).jumps.size hc hp hal hwA (dfe.app.trans appfe) hev had
      hroots hwf.1 htA (fun it hit => ?_) hcur (.inr (by rw [← z1, ← ka]; exact dfirst))
    have hpair := hw.app.keepZ _ (finishChain_pairs (cur := cur) (s2 := emit root cur fe (emitArms root cur arms s).1) hit)
    have := hroots _ hpair (ok1 it hit).1
    rw [kfe, ka] at this
    simpa using this
  -- the final arm
  have rF : (∀ pc, (emitArms root cur arms s).1.instrs.size ≤ pc →
        pc < (emitArms root cur arms s).1.instrs.size + len fe → EdgeOK sF pc) ∧
      (∀ p ∈ (emit root cur fe (emitArms root cur arms s).1).pending.zip
          (emit root cur fe (emitArms root cur arms s).1).pendDep,
        p ∉ (emitArms root cur arms s).1.pending.zip (emitArms root cur arms s).1.pendDep → TermOK sF p.1 p.2) := by
    have hwfe : W2 (emitArms root cur arms s).1.jumps.size (emit root cur fe (emitArms root cur arms s).1) sM :=
      ⟨((finishChain_within (Pre.refl _)).dropLt (fun i hi => by
          obtain ⟨it, hit, rfl⟩ := List.mem_map.1 hi
          exact (ok1 it hit).2)).trans (hw.w.mono j1), appfe⟩
    refine ihfe _ sM c1 (hp.of_pre p1) ala hwfe hev had (fun p hp h => hroots p hp (by omega)) hwf.2 htfe hcur ?_
    rw [ka]
    exact hnext_cast hnext (by omega)
  have ok2 : ItemsOK s.jumps.size (emit root cur fe (emitArms root cur arms s).1).jumps.size (emitArms root cur arms s).2 :=
    fun it hit => ⟨(ok1 it hit).1, by have := (ok1 it hit).2; omega⟩
  have hitems : ∀ it ∈ (emitArms root cur arms s).2,
      wfE it.1 = true ∧ (noR it.1 = true ∨ (tailR it.1 = true ∧ s.dep = 0)) ∧ ContOK sF cur := by
    have hgen : ∀ (as : List (Bool × Expr F × Expr F)) (u : LState F), wfEArms as = true →
        (noRArms as = true ∨ (tailRArms as = true ∧ s.dep = 0)) →
        ∀ it ∈ (emitArms root cur as u).2, wfE it.1 = true ∧
          (noR it.1 = true ∨ (tailR it.1 = true ∧ s.dep = 0)) := by
      intro as
      induction as with
      | nil => intro u _ _ it hit; simp [emitArms] at hit
      | cons a0 rest ih =>
        obtain ⟨b0, c0, t0⟩ := a0
        intro u hw0 ht0 it hit
        simp only [wfEArms, Bool.and_eq_true] at hw0
        simp only [emitArms, List.mem_cons] at hit
        rcases hit with rfl | hit
        · refine ⟨hw0.1.2, ?_⟩
          rcases ht0 with h | ⟨h, h0⟩
          · simp only [noRArms, Bool.and_eq_true] at h; exact .inl h.1.2
          · simp only [tailRArms, Bool.and_eq_true] at h; exact .inr ⟨h.1.2, h0⟩
        · refine ih _ hw0.2 ?_ it hit
          rcases ht0 with h | ⟨h, h0⟩
          · simp only [noRArms, Bool.and_eq_true] at h; exact .inl h.2
          · simp only [tailRArms, Bool.and_eq_true] at h; exact .inr ⟨h.2, h0⟩
    intro it hit
    have := hgen arms s hwf.1 (by
      rcases htl with h | ⟨h, h0⟩
      · rw [noR_chain, Bool.and_eq_true] at h; exact .inl h.1
      · rw [tailR_chain, Bool.and_eq_true] at h; exact .inr ⟨h.1, h0⟩) it hit
    exact ⟨this.1, this.2, hcur⟩
  have tt := finishChain_terms (hp.of_pre (p1.trans p2)) (by rw [kfe, ka]) ok2 (Nat.le_refl _) (by omega) hw hev
    (hnext_cast hnext (by omega)) hitems
  refine ⟨fun pc h1 h2 => ?_, fun p hp' hnp => ?_⟩
  · rw [len_chain] at h2
    simp only at h2
    by_cases hlt : pc < s.instrs.size + lenArms arms
    · exact rA.1 pc h1 hlt
    · exact rF.1 pc (by omega) (by omega)
  · simp only [emit] at hp'
    by_cases hin : p ∈ (emit root cur fe (emitArms root cur arms s).1).pending.zip
        (emit root cur fe (emitArms root cur arms s).1).pendDep
    · by_cases hin2 : p ∈ (emitArms root cur arms s).1.pending.zip (emitArms root cur arms s).1.pendDep
      · exact rA.2 p hin2 hnp
      · exact rF.2 p hin hin2
    · exact tt p hp' hin

end Garnish.Abs
