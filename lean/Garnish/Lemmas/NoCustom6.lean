/-
`step_nc`: one step of Abs/Machine keeps `NoCustom` — every instruction.
-/
import Garnish.Lemmas.NoCustom5
set_option linter.unusedSimpArgs false
set_option linter.unusedVariables false
namespace Garnish.Lemmas.NoCustom
open Garnish Gen Garnish.Abs

variable {F : Type} {fo : FloatOps F} {host : Host F} {P : Prog F}

theorem err_to {e : ErrClass} {s' : MState F} (h : StepTo (.err e : StepRes F) s') : False := by
  rcases h with h | h <;> cases h

theorem head_nc {x : Val F} {xs ys : List (Val F)} (h : ncL ys = true) (he : ys = x :: xs) :
    nc x = true ∧ ncL xs = true := by
  subst he; simpa [ncL] using h

/-- **one machine step keeps the state custom-free** (custom-free constants, a host that never answers with `custom`) -/
theorem step_nc (HN : HostNoCustom host) (hc : ConstsNC P) {s s' : MState F} (hs : NoCustom s)
    (h : StepTo (Abs.step fo host P s) s') : NoCustom s' := by
  unfold Abs.step at h
  cases hi : P.instrs[s.pc]? with
  | none =>
    rw [hi] at h
    rcases h with h | h <;> cases h
    exact hs
  | some p =>
    obtain ⟨instr, operand⟩ := p
    rw [hi] at h
    simp only [] at h
    have keep : ∀ {regs vals : List (Val F)}, ncL regs = true → ncL vals = true →
        NoCustom ({ s with regs := regs, vals := vals } : MState F) := fun hr hv => ⟨hr, hv, hs.frames⟩
    cases instr <;> simp only [] at h
    case invalid => exact seqNext_nc (fun s1 h1 => by cases h1; exact hs) h
    case put =>
      split at h
      · exact (err_to h).elim
      · rename_i k
        split at h
        · rename_i v hk
          exact seqNext_nc (fun s1 h1 => by cases h1; exact keep (ncL_cons (hc k v hk) hs.regs) hs.vals) h
        · exact (err_to h).elim
    case putValue =>
      split at h
      · exact seqNext_nc (fun s1 h1 => by cases h1; exact keep (ncL_cons rfl hs.regs) hs.vals) h
      · rename_i v vs hv
        exact seqNext_nc (fun s1 h1 => by cases h1; exact keep (ncL_cons (head_nc hs.vals hv).1 hs.regs) hs.vals) h
    case pushValue =>
      split at h
      · exact (err_to h).elim
      · rename_i r rs hr
        obtain ⟨h1, h2⟩ := head_nc hs.regs hr
        exact seqNext_nc (fun s1 hh => by cases hh; exact keep h2 (ncL_cons h1 hs.vals)) h
    case updateValue =>
      split at h
      · exact (err_to h).elim
      · rename_i r rs hr
        obtain ⟨h1, h2⟩ := head_nc hs.regs hr
        split at h
        · exact (err_to h).elim
        · rename_i x vs hv
          exact seqNext_nc (fun s1 hh => by cases hh; exact keep h2 (ncL_cons h1 (head_nc hs.vals hv).2)) h
    case startSideEffect =>
      split at h
      · exact seqNext_nc (fun s1 hh => by cases hh; exact keep hs.regs (ncL_cons rfl rfl)) h
      · rename_i v vs hv
        obtain ⟨h1, h2⟩ := head_nc hs.vals hv
        exact seqNext_nc (fun s1 hh => by cases hh; exact keep hs.regs (ncL_cons h1 (ncL_cons h1 h2))) h
    case endSideEffect =>
      split at h
      · exact (err_to h).elim
      · rename_i x vs hv
        split at h
        · exact (err_to h).elim
        · rename_i r rs hr
          exact seqNext_nc (fun s1 hh => by cases hh; exact keep (head_nc hs.regs hr).2 (head_nc hs.vals hv).2) h
    case jumpTo =>
      split at h
      · exact (err_to h).elim
      · refine finishE_nc (fun s1 n hh => ?_) h
        cases hj : jumpTarget P _ with
        | error e => rw [hj] at hh; cases hh
        | ok t => rw [hj] at hh; cases hh; exact hs
    case jumpIfTrue =>
      split at h
      · exact (err_to h).elim
      · split at h
        · exact (err_to h).elim
        · split at h
          · exact (err_to h).elim
          · rename_i d rs hr
            exact finish_nc (keep (head_nc hs.regs hr).2 hs.vals) h
    case jumpIfFalse =>
      split at h
      · exact (err_to h).elim
      · split at h
        · exact (err_to h).elim
        · split at h
          · exact (err_to h).elim
          · rename_i d rs hr
            exact finish_nc (keep (head_nc hs.regs hr).2 hs.vals) h
    case and =>
      split at h
      · exact (err_to h).elim
      · split at h
        · exact (err_to h).elim
        · rename_i d rs hr
          obtain ⟨h1, h2⟩ := head_nc hs.regs hr
          split at h
          · refine finishE_nc (fun s1 n hh => ?_) h
            cases hj : jumpTarget P _ with
            | error e => rw [hj] at hh; cases hh
            | ok t => rw [hj] at hh; cases hh; exact keep h2 hs.vals
          · exact seqNext_nc (fun s1 hh => by cases hh; exact keep (ncL_cons rfl h2) hs.vals) h
    case or =>
      split at h
      · exact (err_to h).elim
      · split at h
        · exact (err_to h).elim
        · rename_i d rs hr
          obtain ⟨h1, h2⟩ := head_nc hs.regs hr
          split at h
          · exact seqNext_nc (fun s1 hh => by cases hh; exact keep (ncL_cons rfl h2) hs.vals) h
          · refine finishE_nc (fun s1 n hh => ?_) h
            cases hj : jumpTarget P _ with
            | error e => rw [hj] at hh; cases hh
            | ok t => rw [hj] at hh; cases hh; exact keep h2 hs.vals
    case endExpression =>
      split at h
      · exact (err_to h).elim
      · rename_i r rs hr
        obtain ⟨h1, h2⟩ := head_nc hs.regs hr
        split at h
        · split at h
          · exact (err_to h).elim
          · rename_i x vs hv
            rcases h with h | h <;> cases h
            exact ⟨h2, ncL_cons h1 (head_nc hs.vals hv).2, hs.frames⟩
        · rename_i fr frs hf
          refine finish_nc ⟨ncL_cons h1 (hs.frames fr (by rw [hf]; exact List.mem_cons_self ..)), ncL_tail hs.vals,
            fun f hfm => hs.frames f (by rw [hf]; exact List.mem_cons_of_mem _ hfm)⟩ h
    case apply =>
      split at h
      · rename_i r l rs hr
        obtain ⟨h1, h23⟩ := head_nc hs.regs hr
        obtain ⟨h2, h3⟩ := head_nc h23 rfl
        exact finishE_nc (fun s1 n hh => applyStep_nc HN (keep h3 hs.vals) h2 h1 hh) h
      · exact (err_to h).elim
    case emptyApply =>
      split at h
      · rename_i l rs hr
        obtain ⟨h1, h2⟩ := head_nc hs.regs hr
        exact finishE_nc (fun s1 n hh => applyStep_nc HN (keep h2 hs.vals) h1 rfl hh) h
      · exact (err_to h).elim
    case reapply =>
      split at h
      · exact (err_to h).elim
      · split at h
        · exact (err_to h).elim
        · rename_i v rs hr
          obtain ⟨h1, h2⟩ := head_nc hs.regs hr
          split at h
          · exact (err_to h).elim
          · split at h
            · exact (err_to h).elim
            · rename_i x vs hv
              exact finish_nc (keep h2 (ncL_cons h1 (head_nc hs.vals hv).2)) h
    case makeList =>
      split at h
      · exact (err_to h).elim
      · split at h
        · exact (err_to h).elim
        · rename_i n _
          refine seqNext_nc (fun s1 hh => ?_) h
          cases hh
          refine keep (ncL_cons ?_ (ncL_drop hs.regs n)) hs.vals
          show ncL _ = true
          exact ncL_reverse (ncL_take hs.regs n)
    case resolve =>
      split at h
      · exact (err_to h).elim
      · split at h
        · exact (err_to h).elim
        · exact seqNext_nc (fun s1 hh => resolveStep_nc HN hs hh) h
    case makePair =>
      split at h
      · rename_i l r rs hr
        obtain ⟨h1, h23⟩ := head_nc hs.regs hr
        obtain ⟨h2, h3⟩ := head_nc h23 rfl
        refine seqNext_nc (fun s1 hh => ?_) h
        cases hh
        refine keep (ncL_cons ?_ h3) hs.vals
        show (nc l && nc r) = true
        rw [h1, h2]; rfl
      · exact (err_to h).elim
    case applyType => exact (err_to h).elim
    all_goals
      split at h
      · exact (err_to h).elim
      · rename_i top rest hr
        obtain ⟨h1, h2⟩ := head_nc hs.regs hr
        split at h
        · rename_i o ho
          exact seqNext_nc (fun s1 hh => pushOut_nc HN (keep h2 hs.vals) (outNC_unaryOp fo h1 ho) hh) h
        · split at h
          · exact (err_to h).elim
          · rename_i l rs
            obtain ⟨h3, h4⟩ := head_nc h2 rfl
            split at h
            · rename_i o ho
              exact seqNext_nc (fun s1 hh => pushOut_nc HN (keep h4 hs.vals) (outNC_binaryOp fo h3 h1 ho) hh) h
            · exact (err_to h).elim

end Garnish.Lemmas.NoCustom
