/-
`ScalarState`, `HostScalar`, and `step_scalar`: one step of a program of the scalar class keeps every value a scalar (Lemmas/NoCustom5-6
adapted, with the excluded instructions ruled out by `scalarInstr`).
-/
import Garnish.Lemmas.Scalar1
set_option linter.unusedSimpArgs false
set_option linter.unusedVariables false
namespace Garnish.Lemmas.Scalar
open Garnish Gen Garnish.Abs

variable {F : Type} {fo : FloatOps F} {host : Host F} {P : Prog F}

/-- the host answers with scalars -/
structure HostScalar (host : Host F) : Prop where
  defer : ∀ op l r v, host.defer op l r = some v → scalar v = true
  resolve : ∀ y v, host.resolve y = some v → scalar v = true
  apply : ∀ n a v, host.apply n a = some v → scalar v = true

/-- every value in the machine state is a scalar -/
structure ScalarState (m : MState F) : Prop where
  regs : scalarL m.regs = true
  vals : scalarL m.vals = true
  frames : ∀ fr ∈ m.frames, scalarL fr.saved = true

/-- the step result is a state (running or halted) -/
def StepTo (r : StepRes F) (s' : MState F) : Prop := r = .running s' ∨ r = .halted s'

theorem ScalarState.mk' {m : MState F} {regs vals : List (Val F)} {frames : List (Frame F)} (hr : scalarL regs = true)
    (hv : scalarL vals = true) (hf : ∀ fr ∈ frames, scalarL fr.saved = true) (pc : Nat) (tr : List (HostCall F)) :
    ScalarState (⟨pc, regs, vals, frames, tr⟩ : MState F) := ⟨hr, hv, hf⟩

theorem finish_scalar {s1 s' : MState F} {n : Nat} (h1 : ScalarState s1) (h : StepTo (finish P (.ok (s1, n))) s') :
    ScalarState s' := by
  unfold finish at h
  simp only [] at h
  split at h <;> rcases h with h | h <;> cases h <;> exact ⟨h1.regs, h1.vals, h1.frames⟩

theorem finishE_scalar {r : Except ErrClass (MState F × Nat)} {s' : MState F}
    (hr : ∀ s1 n, r = .ok (s1, n) → ScalarState s1) (h : StepTo (finish P r) s') : ScalarState s' := by
  cases r with
  | error e => rcases h with h | h <;> cases h
  | ok p => obtain ⟨s1, n⟩ := p; exact finish_scalar (hr s1 n rfl) h

theorem seqNext_scalar {s s' : MState F} {r : Except ErrClass (MState F)} (hr : ∀ s1, r = .ok s1 → ScalarState s1)
    (h : StepTo (seqNext P s r) s') : ScalarState s' := by
  cases r with
  | error e => rcases h with h | h <;> cases h
  | ok s1 => exact finish_scalar (hr s1 rfl) h

theorem pushOut_scalar (HN : HostScalar host) {s s' : MState F} {o : OpOut F} (hs : ScalarState s) (ho : OutScalar o)
    (h : pushOut host s o = .ok s') : ScalarState s' := by
  cases o with
  | val v => simp [pushOut] at h; subst h; exact ⟨scalarL_cons ho hs.regs, hs.vals, hs.frames⟩
  | defer op l r =>
    simp only [pushOut] at h
    cases hd : host.defer op l r with
    | some v => rw [hd] at h; cases h; exact ⟨scalarL_cons (HN.defer op l r v hd) hs.regs, hs.vals, hs.frames⟩
    | none => rw [hd] at h; cases h; exact ⟨scalarL_cons rfl hs.regs, hs.vals, hs.frames⟩
  | err e => simp [pushOut] at h

theorem applyStep_scalar (HN : HostScalar host) {s s' : MState F} {instr : Instruction} {ur : Bool} {l r : Val F}
    {n : Nat} (hs : ScalarState s) (hl : scalar l = true) (hr : scalar r = true)
    (h : applyStep fo host P s instr ur l r = .ok (s', n)) : ScalarState s' := by
  have hk := applyKind_scalar fo instr ur hl hr
  unfold applyStep at h
  cases hkk : applyKind fo instr ur l r with
  | enter j input =>
    rw [hkk] at h hk
    simp only [] at h
    cases hj : jumpTarget P j with
    | error e => rw [hj] at h; cases h
    | ok t =>
      rw [hj] at h
      cases h
      refine ⟨hs.regs, scalarL_cons hk hs.vals, fun fr hfr => ?_⟩
      rcases List.mem_cons.mp hfr with rfl | hfr
      · exact hs.regs
      · exact hs.frames fr hfr
  | external m arg =>
    rw [hkk] at h
    simp only [] at h
    cases ha : host.apply m arg with
    | some v => rw [ha] at h; cases h; exact ⟨scalarL_cons (HN.apply m arg v ha) hs.regs, hs.vals, hs.frames⟩
    | none => rw [ha] at h; cases h; exact ⟨scalarL_cons rfl hs.regs, hs.vals, hs.frames⟩
  | out o =>
    rw [hkk] at h hk
    simp only [] at h
    cases hp : pushOut host s o with
    | error e => rw [hp] at h; cases h
    | ok s1 => rw [hp] at h; cases h; exact pushOut_scalar HN hs hk hp


theorem err_to {e : ErrClass} {s' : MState F} (h : StepTo (.err e : StepRes F) s') : False := by
  rcases h with h | h <;> cases h

/-- **one machine step of a program of the scalar class keeps every value a scalar** -/
theorem step_scalar (HN : HostScalar host) (hc : ∀ (k : Nat) (v : Val F), P.consts[k]? = some v → scalar v = true)
    (hin : ∀ (pc : Nat) (i : Instruction) (o : Option Nat), P.instrs[pc]? = some (i, o) → scalarInstr i = true)
    {s s' : MState F} (hs : ScalarState s)
    (h : StepTo (Abs.step fo host P s) s') : ScalarState s' := by
  unfold Abs.step at h
  cases hi : P.instrs[s.pc]? with
  | none =>
    rw [hi] at h
    rcases h with h | h <;> cases h
    exact hs
  | some p =>
    obtain ⟨instr, operand⟩ := p
    rw [hi] at h
    simp only [] at h
    have keep : ∀ {regs vals : List (Val F)}, scalarL regs = true → scalarL vals = true →
        ScalarState ({ s with regs := regs, vals := vals } : MState F) := fun hr hv => ⟨hr, hv, hs.frames⟩
    have hsi := hin s.pc instr operand hi
    cases instr <;> simp only [] at h
    case invalid => exact seqNext_scalar (fun s1 h1 => by cases h1; exact hs) h
    case put =>
      split at h
      · exact (err_to h).elim
      · rename_i k
        split at h
        · rename_i v hk
          exact seqNext_scalar (fun s1 h1 => by cases h1; exact keep (scalarL_cons (hc k v hk) hs.regs) hs.vals) h
        · exact (err_to h).elim
    case putValue =>
      split at h
      · exact seqNext_scalar (fun s1 h1 => by cases h1; exact keep (scalarL_cons rfl hs.regs) hs.vals) h
      · rename_i v vs hv
        exact seqNext_scalar (fun s1 h1 => by cases h1; exact keep (scalarL_cons (head_scalar hs.vals hv).1 hs.regs) hs.vals) h
    case pushValue =>
      split at h
      · exact (err_to h).elim
      · rename_i r rs hr
        obtain ⟨h1, h2⟩ := head_scalar hs.regs hr
        exact seqNext_scalar (fun s1 hh => by cases hh; exact keep h2 (scalarL_cons h1 hs.vals)) h
    case updateValue =>
      split at h
      · exact (err_to h).elim
      · rename_i r rs hr
        obtain ⟨h1, h2⟩ := head_scalar hs.regs hr
        split at h
        · exact (err_to h).elim
        · rename_i x vs hv
          exact seqNext_scalar (fun s1 hh => by cases hh; exact keep h2 (scalarL_cons h1 (head_scalar hs.vals hv).2)) h
    case startSideEffect =>
      split at h
      · exact seqNext_scalar (fun s1 hh => by cases hh; exact keep hs.regs (scalarL_cons rfl rfl)) h
      · rename_i v vs hv
        obtain ⟨h1, h2⟩ := head_scalar hs.vals hv
        exact seqNext_scalar (fun s1 hh => by cases hh; exact keep hs.regs (scalarL_cons h1 (scalarL_cons h1 h2))) h
    case endSideEffect =>
      split at h
      · exact (err_to h).elim
      · rename_i x vs hv
        split at h
        · exact (err_to h).elim
        · rename_i r rs hr
          exact seqNext_scalar (fun s1 hh => by cases hh; exact keep (head_scalar hs.regs hr).2 (head_scalar hs.vals hv).2) h
    case jumpTo =>
      split at h
      · exact (err_to h).elim
      · refine finishE_scalar (fun s1 n hh => ?_) h
        cases hj : jumpTarget P _ with
        | error e => rw [hj] at hh; cases hh
        | ok t => rw [hj] at hh; cases hh; exact hs
    case jumpIfTrue =>
      split at h
      · exact (err_to h).elim
      · split at h
        · exact (err_to h).elim
        · split at h
          · exact (err_to h).elim
          · rename_i d rs hr
            exact finish_scalar (keep (head_scalar hs.regs hr).2 hs.vals) h
    case jumpIfFalse =>
      split at h
      · exact (err_to h).elim
      · split at h
        · exact (err_to h).elim
        · split at h
          · exact (err_to h).elim
          · rename_i d rs hr
            exact finish_scalar (keep (head_scalar hs.regs hr).2 hs.vals) h
    case and =>
      split at h
      · exact (err_to h).elim
      · split at h
        · exact (err_to h).elim
        · rename_i d rs hr
          obtain ⟨h1, h2⟩ := head_scalar hs.regs hr
          split at h
          · refine finishE_scalar (fun s1 n hh => ?_) h
            cases hj : jumpTarget P _ with
            | error e => rw [hj] at hh; cases hh
            | ok t => rw [hj] at hh; cases hh; exact keep h2 hs.vals
          · exact seqNext_scalar (fun s1 hh => by cases hh; exact keep (scalarL_cons rfl h2) hs.vals) h
    case or =>
      split at h
      · exact (err_to h).elim
      · split at h
        · exact (err_to h).elim
        · rename_i d rs hr
          obtain ⟨h1, h2⟩ := head_scalar hs.regs hr
          split at h
          · exact seqNext_scalar (fun s1 hh => by cases hh; exact keep (scalarL_cons rfl h2) hs.vals) h
          · refine finishE_scalar (fun s1 n hh => ?_) h
            cases hj : jumpTarget P _ with
            | error e => rw [hj] at hh; cases hh
            | ok t => rw [hj] at hh; cases hh; exact keep h2 hs.vals
    case endExpression =>
      split at h
      · exact (err_to h).elim
      · rename_i r rs hr
        obtain ⟨h1, h2⟩ := head_scalar hs.regs hr
        split at h
        · split at h
          · exact (err_to h).elim
          · rename_i x vs hv
            rcases h with h | h <;> cases h
            exact ⟨h2, scalarL_cons h1 (head_scalar hs.vals hv).2, hs.frames⟩
        · rename_i fr frs hf
          refine finish_scalar ⟨scalarL_cons h1 (hs.frames fr (by rw [hf]; exact List.mem_cons_self ..)), scalarL_tail hs.vals,
            fun f hfm => hs.frames f (by rw [hf]; exact List.mem_cons_of_mem _ hfm)⟩ h
    case apply =>
      split at h
      · rename_i r l rs hr
        obtain ⟨h1, h23⟩ := head_scalar hs.regs hr
        obtain ⟨h2, h3⟩ := head_scalar h23 rfl
        exact finishE_scalar (fun s1 n hh => applyStep_scalar HN (keep h3 hs.vals) h2 h1 hh) h
      · exact (err_to h).elim
    case emptyApply =>
      split at h
      · rename_i l rs hr
        obtain ⟨h1, h2⟩ := head_scalar hs.regs hr
        exact finishE_scalar (fun s1 n hh => applyStep_scalar HN (keep h2 hs.vals) h1 rfl hh) h
      · exact (err_to h).elim
    case reapply =>
      split at h
      · exact (err_to h).elim
      · split at h
        · exact (err_to h).elim
        · rename_i v rs hr
          obtain ⟨h1, h2⟩ := head_scalar hs.regs hr
          split at h
          · exact (err_to h).elim
          · split at h
            · exact (err_to h).elim
            · rename_i x vs hv
              exact finish_scalar (keep h2 (scalarL_cons h1 (head_scalar hs.vals hv).2)) h
    case makeList => cases hsi
    case resolve => cases hsi
    case makePair => cases hsi
    case applyType => exact (err_to h).elim
    all_goals
      split at h
      · exact (err_to h).elim
      · rename_i top rest hr
        obtain ⟨h1, h2⟩ := head_scalar hs.regs hr
        split at h
        · rename_i o ho
          exact seqNext_scalar (fun s1 hh => pushOut_scalar HN (keep h2 hs.vals) (outScalar_unaryOp fo hsi h1 ho) hh) h
        · split at h
          · exact (err_to h).elim
          · rename_i l rs
            obtain ⟨h3, h4⟩ := head_scalar h2 rfl
            split at h
            · rename_i o ho
              exact seqNext_scalar (fun s1 hh => pushOut_scalar HN (keep h4 hs.vals) (outScalar_binaryOp fo hsi h3 h1 ho) hh) h
            · exact (err_to h).elim


end Garnish.Lemmas.Scalar
