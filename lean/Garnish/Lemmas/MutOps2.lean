/-
`WFq` is kept by `push_frame`, `parse_add_symbol`, `merge_to_symbol_list`.
-/
import Garnish.Lemmas.MutOps
set_option maxHeartbeats 1000000
namespace Garnish.BasicOpt
open Garnish

/-- `push_frame` keeps `WFq` -/
theorem pushFrame_wfq {s s' : Store} {ret : Nat} (hwf : WFq s) (h : Store.pushFrame s ret = .ok s') : WFq s' := by
  simp only [Store.pushFrame, bind_eq_ok, pure_eq_ok] at h
  obtain ⟨⟨s1, i0⟩, hp1, ⟨s2, i⟩, hp2, hs'⟩ := h
  subst hs'
  obtain ⟨_, hc1, hf1⟩ := push_ok hp1
  obtain ⟨hi2, hc2, hf2⟩ := push_ok hp2
  have hf := hf1.trans hf2
  have hsz1 : s1.cells.size = s.cells.size + 1 := by rw [hc1]; simp
  have key : ∃ c sh, s2.cells = (s.cells.push (.jumpPoint ret)).push c ∧ isSV c = false ∧
      shape ((s.cells.push (.jumpPoint ret)).push c) (s.cells.size + 1) = some sh ∧
      (∀ k ∈ sh.kids, k < s.cells.size ∧ isNode s.cells k = true) ∧
      (∀ (cells : Array Cell) (j : Nat), cells[j]? = some c → listOK cells j = true ∧ headerOK cells j = true) := by
    have hfr := hwf.frm
    have hrg := hwf.reg
    rw [hf1.2.2.2.2.2, hf1.2.2.2.2.1] at hc2
    cases hcf : s.currentFrame with
    | none =>
      cases hcr : s.currentRegister with
      | none =>
        rw [hcf, hcr] at hc2
        exact ⟨_, _, by rw [hc2, hc1], rfl, frame_shape_push _ _ _ _ (Or.inr (Or.inr (Or.inr ⟨rfl, rfl⟩))),
          by intro k hk; simp at hk, by intro cells j h; simp [listOK, headerOK, h]⟩
      | some r =>
        rw [hcf, hcr] at hc2
        rw [hcr] at hrg
        exact ⟨_, _, by rw [hc2, hc1], rfl, frame_shape_push _ _ _ _ (Or.inr (Or.inr (Or.inl ⟨r, rfl, rfl⟩))),
          by intro k hk; simp at hk; subst hk; exact ⟨head_lt hrg, hrg⟩,
          by intro cells j h; simp [listOK, headerOK, h]⟩
    | some f =>
      rw [hcf] at hfr
      cases hcr : s.currentRegister with
      | none =>
        rw [hcf, hcr] at hc2
        exact ⟨_, _, by rw [hc2, hc1], rfl, frame_shape_push _ _ _ _ (Or.inr (Or.inl ⟨f, rfl, rfl⟩)),
          by intro k hk; simp at hk; subst hk; exact ⟨head_lt hfr, hfr⟩,
          by intro cells j h; simp [listOK, headerOK, h]⟩
      | some r =>
        rw [hcf, hcr] at hc2
        rw [hcr] at hrg
        exact ⟨_, _, by rw [hc2, hc1], rfl, frame_shape_push _ _ _ _ (Or.inl ⟨f, r, rfl, rfl⟩),
          by intro k hk
             simp at hk
             rcases hk with rfl | rfl
             · exact ⟨head_lt hfr, hfr⟩
             · exact ⟨head_lt hrg, hrg⟩,
          by intro cells j h; simp [listOK, headerOK, h]⟩
  obtain ⟨c, sh, hcells2, hcns, hshape, hkids, hplain⟩ := key
  have hcells : s2.cells = s.cells ++ #[.jumpPoint ret, c] := by rw [hcells2]; apply Array.ext'; simp
  have hi : i = s.cells.size + 1 := by rw [hi2, hsz1]
  have hnodeNew : isNode s2.cells (s.cells.size + 1) = true := by rw [hcells2]; simp [isNode, hshape]
  have hwf2 : WFq s2 := by
    refine append_wfq _ hwf hcells hf.1 hf.2.2.1 ?_ ?_ ?_ ?_
    · intro j hj1 hj2
      have hsz : s2.cells.size = s.cells.size + 2 := by rw [hcells]; simp
      by_cases hj : j = s.cells.size
      · subst hj
        have hget : s2.cells[s.cells.size]? = some (.jumpPoint ret) := by
          rw [hcells2, Array.getElem?_push]; simp
        have hsh : shape s2.cells s.cells.size = some ⟨.jumpPoint ret, [], []⟩ := shape_of_solo hget rfl
        exact ⟨by rw [nodeOKq_of_cell hget rfl]; simp [nodeOK, hsh], by simp [listOK, hget], by simp [headerOK, hget]⟩
      · have hj' : j = s.cells.size + 1 := by omega
        subst hj'
        have hget : s2.cells[s.cells.size + 1]? = some c := by rw [hcells2]; exact get_push2 _ _ _
        refine ⟨?_, ?_, ?_⟩
        · rw [nodeOKq_of_cell hget hcns, hcells2]
          simp only [nodeOK, hshape, List.all_eq_true, Bool.and_eq_true, decide_eq_true_eq]
          intro k hk
          obtain ⟨h1, h2⟩ := hkids k hk
          refine ⟨by omega, ?_⟩
          rw [← hcells2, hcells, isNode_append _ _ hwf.headers h1]; exact h2
        · exact (hplain _ _ hget).1
        · exact (hplain _ _ hget).2
    · rw [hf.2.2.2.2.1, hcells]; exact headOK_appendq hwf _ hwf.reg
    · rw [hf.2.2.2.1, hcells]; exact headSV_append _ hwf.val
    · rw [hf.2.2.2.2.2, hcells]; exact headOK_appendq hwf _ hwf.frm
  exact hwf2.withHeads _ _ _ hwf2.reg hwf2.val (by rw [hi]; exact hnodeNew)

/-- the symbol table gets an entry that points to a node -/
theorem pushSymbol_wfq {s : Store} {sym di : Nat} (hwf : WFq s) (hd : isNode s.cells di = true) :
    WFq (Store.pushSymbol s sym di) := by
  have hcells : (Store.pushSymbol s sym di).cells = s.cells := by unfold Store.pushSymbol; simp only; split <;> rfl
  have hret : (Store.pushSymbol s sym di).retention = s.retention := by unfold Store.pushSymbol; simp only; split <;> rfl
  have hreg : (Store.pushSymbol s sym di).currentRegister = s.currentRegister := by
    unfold Store.pushSymbol; simp only; split <;> rfl
  have hval : (Store.pushSymbol s sym di).currentValue = s.currentValue := by
    unfold Store.pushSymbol; simp only; split <;> rfl
  have hfrm : (Store.pushSymbol s sym di).currentFrame = s.currentFrame := by
    unfold Store.pushSymbol; simp only; split <;> rfl
  have hsym : ∀ c ∈ (Store.pushSymbol s sym di).symtab.toList, c ∈ s.symtab.toList ∨ c = .associativeItem sym di := by
    intro c hc
    unfold Store.pushSymbol at hc
    simp only at hc
    split at hc <;>
    · simp only [List.mem_mergeSort, List.mem_append, List.mem_singleton] at hc
      exact hc
  refine ⟨by rw [hcells, hret]; exact hwf.retLe, by rw [hcells]; exact hwf.nodes, by rw [hcells]; exact hwf.lists,
    by rw [hcells]; exact hwf.headers, by rw [hcells, hret]; exact hwf.extent, by rw [hcells, hreg]; exact hwf.reg,
    by rw [hcells, hval]; exact hwf.val, by rw [hcells, hfrm]; exact hwf.frm, ?_⟩
  intro c hc
  rw [hcells]
  rcases hsym c hc with h | rfl
  · exact hwf.syms c h
  · simpa [symOK] using hd

/-- `parse_add_symbol` keeps `WFq` -/
theorem parseAddSymbol_wfq {s s' : Store} {sym : Nat} {name : List Nat} {a : Nat} (hwf : WFq s)
    (h : Store.parseAddSymbol s sym name = .ok (s', a)) : WFq s' ∧ isNode s'.cells a = true := by
  simp only [Store.parseAddSymbol, bind_eq_ok, pure_eq_ok, Prod.mk.injEq] at h
  obtain ⟨⟨s1, si⟩, hp, ⟨s2, li⟩, hin, hs', ha⟩ := h
  subst hs'; subst ha
  obtain ⟨hw1, hsi, hn1⟩ := push_solo_wfq (sh := ⟨.symbol sym, [], []⟩) hwf rfl rfl (by intro k hk; simp at hk) hp
  obtain ⟨hw2, hli, hn2⟩ := addInline_wfq hw1 (Or.inl ⟨by simp, by
    intro c hc
    simp only [List.mem_map] at hc
    obtain ⟨x, _, rfl⟩ := hc
    rfl⟩) hin
  refine ⟨pushSymbol_wfq hw2 hn2, ?_⟩
  have hcells : (Store.pushSymbol s2 sym li).cells = s2.cells := by unfold Store.pushSymbol; simp only; split <;> rfl
  rw [hcells]
  simp only [Store.addInline, bind_eq_ok, pure_eq_ok, Prod.mk.injEq] at hin
  obtain ⟨⟨s1', i'⟩, hp', s2', hall, hs2, _⟩ := hin
  subst hs2
  obtain ⟨_, hc1', _⟩ := push_ok hp'
  obtain ⟨hc2', _⟩ := pushAll_spec _ _ _ hall
  have hlt : si < s1.cells.size := node_lt hn1
  have : s2'.cells = s1.cells ++ (#[Cell.charList (name.map Cell.char).length] ++ (name.map Cell.char).toArray) := by
    rw [hc2', hc1']; apply Array.ext'; simp
  rw [this, isNode_append _ _ hw1.headers hlt]; exact hn1

/-- `merge_to_symbol_list` keeps `WFq` -/
theorem mergeToSymbolList_wfq {s s' : Store} {first second i : Nat} (hwf : WFq s)
    (hn1 : isNode s.cells first = true) (hn2 : isNode s.cells second = true)
    (h : Store.mergeToSymbolList s first second = .ok (s', i)) : WFq s' ∧ isNode s'.cells i = true := by
  simp only [Store.mergeToSymbolList, bind_eq_ok] at h
  obtain ⟨a, hga, b, hgb, h⟩ := h
  have hca := get_ok hga
  have hcb := get_ok hgb
  have unitCase : ∀ {s' i}, s.push Cell.unit = .ok (s', i) → WFq s' ∧ isNode s'.cells i = true := by
    intro s' i hp
    obtain ⟨hw, hi, hn⟩ := push_solo_wfq (sh := ⟨.unit, [], []⟩) hwf rfl rfl (by intro k hk; simp at hk) hp
    exact ⟨hw, hn⟩
  have finish : ∀ {s' : Store} {n : Nat} {items : List Cell}, s'.cells.toList = s.cells.toList ++ (Cell.symbolList n :: items) →
      SameFrame s s' → items.length = n → (∀ c ∈ items, isSymPart c = true) → WFq s' ∧ isNode s'.cells s.cells.size = true := by
    intro s' n items hl hf hlen hall
    have hcells : s'.cells = s.cells ++ (#[Cell.symbolList n] ++ items.toArray) := by
      apply Array.ext'; rw [hl]; simp
    exact inline_block_wfq hwf hcells hf (Or.inr (Or.inr ⟨by rw [hlen], hall⟩))
  split at h
  · rename_i n1 n2
    simp only [bind_eq_ok, pure_eq_ok, Prod.mk.injEq] at h
    obtain ⟨⟨s1, i1⟩, hp, s2, hcp1, s3, hcp2, hs', hi⟩ := h
    subst hs'; subst hi
    obtain ⟨hi1, hc1, hf1⟩ := push_ok hp
    obtain ⟨l1, hl1⟩ := symList_parts hca hn1
    obtain ⟨l2, hl2⟩ := symList_parts hcb hn2
    have hl1s : s1.cells.toList = s.cells.toList ++ [Cell.symbolList (n1 + n2)] := by rw [hc1]; simp
    have e1 := copyCells_spec (p := isSymPart) (by intro x; rfl) _ _ _ _ _
      (inlineCells_agree (agreeNC_append_toList hl1s) _ (by intro x; rfl) _ _ _ hl1) hcp1
    have hl2s : s2.cells.toList = s.cells.toList ++ ([Cell.symbolList (n1 + n2)] ++ l1) := by rw [e1, hl1s]; simp
    have e2 := copyCells_spec (p := isSymPart) (by intro x; rfl) _ _ _ _ _
      (inlineCells_agree (agreeNC_append_toList hl2s) _ (by intro x; rfl) _ _ _ hl2) hcp2
    obtain ⟨len1, all1⟩ := inlineCells_props _ _ _ hl1
    obtain ⟨len2, all2⟩ := inlineCells_props _ _ _ hl2
    rw [hi1]
    have hfin : s3.cells.toList = s.cells.toList ++ (Cell.symbolList (n1 + n2) :: (l1 ++ l2)) := by
      rw [e2, hl2s]; simp
    have hlen : (l1 ++ l2).length = n1 + n2 := by rw [List.length_append, len1, len2]
    exact finish hfin
      ((hf1.trans (copyCells_frame _ _ _ _ hcp1)).trans (copyCells_frame _ _ _ _ hcp2)) hlen
      (fun c hc => by
        rcases List.mem_append.mp hc with h | h
        · exact all1 c h
        · exact all2 c h)
  · rename_i n1 hne
    split at h
    · rename_i hy
      simp only [bind_eq_ok, pure_eq_ok, Prod.mk.injEq] at h
      obtain ⟨⟨s1, i1⟩, hp, s2, hcp1, ⟨s3, i3⟩, hp3, hs', hi⟩ := h
      subst hs'; subst hi
      obtain ⟨hi1, hc1, hf1⟩ := push_ok hp
      obtain ⟨_, hc3, hf3⟩ := push_ok hp3
      obtain ⟨l1, hl1⟩ := symList_parts hca hn1
      have hl1s : s1.cells.toList = s.cells.toList ++ [Cell.symbolList (n1 + 1)] := by rw [hc1]; simp
      have e1 := copyCells_spec (p := isSymPart) (by intro x; rfl) _ _ _ _ _
        (inlineCells_agree (agreeNC_append_toList hl1s) _ (by intro x; rfl) _ _ _ hl1) hcp1
      obtain ⟨len1, all1⟩ := inlineCells_props _ _ _ hl1
      rw [hi1]
      have hfin : s3.cells.toList = s.cells.toList ++ (Cell.symbolList (n1 + 1) :: (l1 ++ [b])) := by
        rw [hc3]; simp [e1, hl1s]
      have hlen : (l1 ++ [b]).length = n1 + 1 := by rw [List.length_append, len1]; rfl
      exact finish hfin ((hf1.trans (copyCells_frame _ _ _ _ hcp1)).trans hf3) hlen
        (fun c hc => by
          rcases List.mem_append.mp hc with h | h
          · exact all1 c h
          · simp at h; subst h; exact hy)
    · exact unitCase h
  · rename_i n2 hne
    split at h
    · rename_i hx
      simp only [bind_eq_ok, pure_eq_ok, Prod.mk.injEq] at h
      obtain ⟨⟨s1, i1⟩, hp, ⟨s2, i2⟩, hp2, s3, hcp2, hs', hi⟩ := h
      subst hs'; subst hi
      obtain ⟨hi1, hc1, hf1⟩ := push_ok hp
      obtain ⟨_, hc2, hf2⟩ := push_ok hp2
      obtain ⟨l2, hl2⟩ := symList_parts hcb hn2
      have hl2s : s2.cells.toList = s.cells.toList ++ [Cell.symbolList (n2 + 1), a] := by rw [hc2, hc1]; simp
      have e2 := copyCells_spec (p := isSymPart) (by intro x; rfl) _ _ _ _ _
        (inlineCells_agree (agreeNC_append_toList hl2s) _ (by intro x; rfl) _ _ _ hl2) hcp2
      obtain ⟨len2, all2⟩ := inlineCells_props _ _ _ hl2
      rw [hi1]
      have hfin : s3.cells.toList = s.cells.toList ++ (Cell.symbolList (n2 + 1) :: (a :: l2)) := by
        rw [e2, hl2s]; simp
      have hlen : (a :: l2).length = n2 + 1 := by rw [List.length_cons, len2]
      exact finish hfin ((hf1.trans hf2).trans (copyCells_frame _ _ _ _ hcp2)) hlen
        (fun c hc => by
          rcases List.mem_cons.mp hc with h | h
          · subst h; exact hx
          · exact all2 c h)
    · exact unitCase h
  · rename_i hne1 hne2
    split at h
    · rename_i hxy
      simp only [Bool.and_eq_true] at hxy
      simp only [bind_eq_ok, pure_eq_ok, Prod.mk.injEq] at h
      obtain ⟨⟨s1, i1⟩, hp, ⟨s2, i2⟩, hp2, ⟨s3, i3⟩, hp3, hs', hi⟩ := h
      subst hs'; subst hi
      obtain ⟨hi1, hc1, hf1⟩ := push_ok hp
      obtain ⟨_, hc2, hf2⟩ := push_ok hp2
      obtain ⟨_, hc3, hf3⟩ := push_ok hp3
      rw [hi1]
      have hfin : s3.cells.toList = s.cells.toList ++ (Cell.symbolList 2 :: [a, b]) := by rw [hc3, hc2, hc1]; simp
      exact finish hfin ((hf1.trans hf2).trans hf3) rfl
        (fun c hc => by
          simp at hc
          rcases hc with rfl | rfl
          · exact hxy.1
          · exact hxy.2)
    · exact unitCase h

end Garnish.BasicOpt
