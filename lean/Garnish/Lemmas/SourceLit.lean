/-
One-literal sources and `literal operator literal` sources: the parser model, the reference tree and the elaboration evaluated
SYMBOLICALLY — for every token text (the parser never looks at the text of a token, only at its type), so that the value-level
theorems about literals (C14) and operators (C09 / C11 / C12) can be composed with `C01_text_correct_blocks`.
-/
import Garnish.Props.C01Blocks
namespace Garnish.Abs.Source
open Garnish Garnish.Gen Garnish.Spec Garnish.Abs Garnish.Abs.Tree Garnish.Model Garnish.Model.Parser
open Garnish.Model.Lexer Garnish.Model.Literals Garnish.Model.Build Garnish.Props.C01Build Garnish.Props.C01Source
open Garnish.Props.C02Numbered Garnish.Props.C01Text Garnish.Props.C01Blocks

variable {F : Type} {pf : List Char → Option F}

/-- the literal token types and the definitions of their value nodes -/
def litDef : TokenType → Option Definition
  | .number => some .number
  | .charList => some .charList
  | .byteList => some .byteList
  | .symbol => some .symbol
  | .unitLiteral => some .unit
  | .true => some .true
  | .false => some .false
  | _ => none

def litProg (v : Val F) : Program F := ⟨.lit v, [(0, .lit v)]⟩
def binProg (op : Instruction) (a b : Val F) : Program F := ⟨.binary op (.lit a) (.lit b), [(0, .binary op (.lit a) (.lit b))]⟩

theorem leafE_lit_wf {d : Definition} {tx : List Char} {v : Val F} (h : leafE pf d tx = some (.lit v)) :
    wfE (Expr.lit v : Expr F) = true := by
  unfold leafE at h
  repeat' split at h
  all_goals first | (cases h; rfl) | cases h

/-- a program without nested bodies is well formed as soon as its expression is and `compile` lays out nothing but the
program itself as a body -/
theorem wf_single (main : Expr F) (hw : wfE main = true) (ht : tailR main = true)
    (hd : ∀ r ∈ (compileState Prog.empty (⟨main, [(0, main)]⟩ : Program F)).done, ∀ id, r.kind = .ref id → r.patch = 0 ∧ id = 0)
    (hs : ∃ r ∈ (compileState Prog.empty (⟨main, [(0, main)]⟩ : Program F)).done, r.kind = .ref 0) :
    Garnish.Props.C01.WFProgram (⟨main, [(0, main)]⟩ : Program F) where
  main0 := rfl
  wf := by
    intro id b h
    simp only [lookupBody] at h
    split at h
    · cases h; exact hw
    · cases h
  tail := ht
  labels := fun r hr id hk => by obtain ⟨h1, h2⟩ := hd r hr id hk; rw [h1, h2]
  covered := by
    intro id b h
    simp only [lookupBody] at h
    split at h
    · rename_i hid
      have h0 : (0 : Nat) = id := by simpa using hid
      subst h0
      exact hs
    · cases h

theorem litProg_done (v : Val F) : (compileState Prog.empty (litProg v)).done = [⟨.ref 0, 0, [(.endExpression, none)], 0⟩] := rfl

theorem litProg_wf (v : Val F) (hw : wfE (Expr.lit v : Expr F) = true) : Garnish.Props.C01.WFProgram (litProg v) :=
  wf_single (.lit v) hw rfl
    (fun r hr id hk => by
      rw [show (⟨.lit v, [(0, .lit v)]⟩ : Program F) = litProg v from rfl, litProg_done] at hr
      simp only [List.mem_cons, List.not_mem_nil, or_false] at hr
      subst hr; cases hk; exact ⟨rfl, rfl⟩)
    ⟨⟨.ref 0, 0, [(.endExpression, none)], 0⟩,
      by rw [show (⟨.lit v, [(0, .lit v)]⟩ : Program F) = litProg v from rfl, litProg_done]; simp, rfl⟩

theorem binProg_done (op : Instruction) (a b : Val F) (hop : binOK op = true) :
    (compileState Prog.empty (binProg op a b)).done = [⟨.ref 0, 0, [(.endExpression, none)], 0⟩] := by
  cases op <;> first | rfl | (simp [binOK] at hop)

theorem binProg_wf (op : Instruction) (a b : Val F) (hop : binOK op = true) (ha : wfE (Expr.lit a : Expr F) = true)
    (hb : wfE (Expr.lit b : Expr F) = true) : Garnish.Props.C01.WFProgram (binProg op a b) :=
  wf_single (.binary op (.lit a) (.lit b)) (by simp [wfE, hop, ha, hb]) rfl
    (fun r hr id hk => by
      rw [show (⟨.binary op (.lit a) (.lit b), [(0, .binary op (.lit a) (.lit b))]⟩ : Program F) = binProg op a b from rfl,
        binProg_done op a b hop] at hr
      simp only [List.mem_cons, List.not_mem_nil, or_false] at hr
      subst hr; cases hk; exact ⟨rfl, rfl⟩)
    ⟨⟨.ref 0, 0, [(.endExpression, none)], 0⟩,
      by rw [show (⟨.binary op (.lit a) (.lit b), [(0, .binary op (.lit a) (.lit b))]⟩ : Program F) = binProg op a b from rfl,
        binProg_done op a b hop]; simp, rfl⟩

/-- the result of `parse` on a single literal token -/
def oneNode (d : Definition) (tok : PToken) : ParseResult := ⟨0, #[⟨d, .value, none, none, none, tok⟩]⟩

/-- **a one-literal source, symbolically**: for every text of the token -/
theorem one_token (tx : List Char) (ty : TokenType) (d : Definition) (hd : litDef ty = some d) (v : Val F)
    (hv : leafE pf d tx = some (.lit v)) :
    parse [⟨tx, ty, 0, 0⟩] = .ok (oneNode d ⟨tx, ty, 0, 0⟩) ∧
    toTree (oneNode d ⟨tx, ty, 0, 0⟩) = some (.node .nil 0 0 .nil) ∧
    (Spec.Tree.node .nil 0 0 .nil).inorder = List.range (oneNode d ⟨tx, ty, 0, 0⟩).nodes.size ∧
    elaborate pf [⟨tx, ty, 0, 0⟩] (refTreeOf (oneNode d ⟨tx, ty, 0, 0⟩) (.node .nil 0 0 .nil)) = some (litProg v) := by
  have key : ∀ d', refTreeOf (oneNode d' ⟨tx, ty, 0, 0⟩) (.node .nil 0 0 .nil) = .node .nil d' 0 .nil →
      leafE pf d' tx = some (.lit v) →
      elaborate pf [⟨tx, ty, 0, 0⟩] (refTreeOf (oneNode d' ⟨tx, ty, 0, 0⟩) (.node .nil 0 0 .nil)) = some (litProg v) := by
    intro d' h1 h2
    rw [h1]
    simp [elaborate, elabSrc, elabWith, go_leaf, textAt, h2, plain, idsOK, nodupB, litProg]
  cases ty <;> simp only [litDef, reduceCtorEq, Option.some.injEq] at hd <;> subst hd <;>
    exact ⟨rfl, rfl, rfl, key _ rfl hv⟩

end Garnish.Abs.Source
