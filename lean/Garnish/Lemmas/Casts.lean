/-
Helper lemmas about the value-level cast (Abs/Casts.lean): decimal text of numbers and its parser, the
counting loop on integer ranges, "this helper never offers to the host", and the declarative table of the
type pairs for which the language defines a cast.
-/
import Garnish.Abs.Casts
set_option linter.unusedSimpArgs false
set_option linter.unusedVariables false

namespace Garnish.Spec
open Garnish Gen

/-- the type pairs (type of the value, target type) for which `~#` is defined.  Written down from the
language's point of view, independently of `castOp`:
* a value of the target type is left alone; unit converts to nothing but itself (the answer is unit) —
  except for the targets of the next line, which accept everything;
* every value has a text, a byte list, a symbol and a truth value: targets CharList, ByteList, Symbol,
  True, False accept every source;
* numbers, characters and bytes convert into each other, a text converts to a number and (if it has exactly
  one character) to a character;
* the sequence-like types (symbol list, range, text, byte list, concatenation, slice) convert to a list. -/
def castDefined (lt rt : Ty) : Bool :=
  lt == rt || lt == .unit ||
  match rt with
  | .charList | .byteList | .symbol | .true | .false => true
  | .number => lt == .charList || lt == .char || lt == .byte
  | .char => lt == .number || lt == .byte || lt == .charList
  | .byte => lt == .number || lt == .char
  | .list => lt == .symbolList || lt == .range || lt == .charList || lt == .byteList ||
             lt == .concatenation || lt == .slice
  | _ => false

end Garnish.Spec

namespace Garnish.Lemmas
open Garnish Gen Garnish.Abs

variable {F : Type} (fo : FloatOps F)

/-! ### decimal digits -/

theorem digitsVal_append (xs ys : Txt) (acc : Nat) :
    digitsVal (xs ++ ys) acc = (digitsVal xs acc).bind (digitsVal ys) := by
  induction xs generalizing acc with
  | nil => simp [digitsVal]
  | cons c cs ih =>
    simp only [List.cons_append, digitsVal]
    split <;> simp [ih]

theorem digitsVal_natDigitsAux (fuel n : Nat) (h : n < fuel) :
    digitsVal (natDigitsAux fuel n) 0 = some n := by
  induction fuel generalizing n with
  | zero => omega
  | succ fuel ih =>
    unfold natDigitsAux
    by_cases h10 : n < 10
    · have h1 : 48 ≤ 48 + n ∧ 48 + n ≤ 57 := by omega
      simp [h10, digitsVal, h1]
    · have hq : n / 10 < fuel := by omega
      have h1 : 48 ≤ 48 + n % 10 ∧ 48 + n % 10 ≤ 57 := by omega
      simp only [h10, if_false, digitsVal_append, ih _ hq, Option.bind_some, digitsVal, h1, and_self, if_true]
      congr 1; omega

theorem digitsVal_natDigits (n : Nat) : digitsVal (natDigits n) 0 = some n :=
  digitsVal_natDigitsAux (n + 1) n (by omega)

theorem natDigitsAux_head (fuel n : Nat) (h : n < fuel) :
    ∃ d ds, natDigitsAux fuel n = d :: ds ∧ 48 ≤ d ∧ d ≤ 57 := by
  induction fuel generalizing n with
  | zero => omega
  | succ fuel ih =>
    unfold natDigitsAux
    by_cases h10 : n < 10
    · exact ⟨48 + n, [], by simp [h10], by omega, by omega⟩
    · obtain ⟨d, ds, hd, h1, h2⟩ := ih (n / 10) (by omega)
      exact ⟨d, ds ++ [48 + n % 10], by simp [h10, hd], h1, h2⟩

theorem natDigits_head (n : Nat) : ∃ d ds, natDigits n = d :: ds ∧ 48 ≤ d ∧ d ≤ 57 :=
  natDigitsAux_head (n + 1) n (by omega)

/-- `i32::to_string` followed by `str::parse::<i32>` is the identity on i32 -/
theorem parseI32_showInt (v : Int) (h : InRange v) : parseI32 (showInt v) = some v := by
  unfold InRange at h
  by_cases hneg : v < 0
  · obtain ⟨d, ds, hd, h1, h2⟩ := natDigits_head v.natAbs
    have hv := digitsVal_natDigits v.natAbs
    rw [hd] at hv
    simp only [showInt, hneg, if_true, hd, parseI32, List.isEmpty_cons, Bool.false_eq_true, if_false, hv]
    have : I32_MIN ≤ -((v.natAbs : Nat) : Int) := by unfold I32_MIN; omega
    simp only [this, if_true]
    congr 1; omega
  · obtain ⟨d, ds, hd, h1, h2⟩ := natDigits_head v.toNat
    have hv := digitsVal_natDigits v.toNat
    rw [hd] at hv
    simp only [showInt, hneg, if_false, hd]
    unfold parseI32
    split
    · simp at *
    · rename_i heq; simp at heq; omega
    · rename_i heq; simp at heq; omega
    · simp only [hv]
      have : ((v.toNat : Nat) : Int) ≤ I32_MAX := by unfold I32_MAX; omega
      simp only [this, if_true]
      congr 1; omega

/-! ### the counting loop on integers -/

theorem numLe_int (a b : Int) : numLe fo (.int a) (.int b) = decide (a ≤ b) := by
  simp only [numLe, Number.partialCmp]
  cases hc : compare a b
  · have := Int.compare_eq_lt.mp hc; simp; omega
  · have := Int.compare_eq_eq.mp hc; simp; omega
  · have := Int.compare_eq_gt.mp hc; simp; omega

theorem numLt_int (a b : Int) : numLt fo (.int a) (.int b) = decide (a < b) := by
  simp only [numLt, Number.partialCmp]
  cases hc : compare a b
  · have := Int.compare_eq_lt.mp hc; simp; omega
  · have := Int.compare_eq_eq.mp hc; simp; omega
  · have := Int.compare_eq_gt.mp hc; simp; omega

theorem cast_increment_int (c : Int) (h1 : -2147483649 ≤ c) (h2 : c < 2147483647) :
    Number.increment fo (.int c) = some (.int (c + 1)) := by
  have hr : InRange (c + 1) := by unfold InRange; omega
  have hw : wrap (c + 1) = c + 1 := by unfold wrap; omega
  simp [Number.increment, Number.overflowingAdd, Number.ovf, hr, hw]

/-- the integers `s, s+1, …` (`n` of them) -/
def intsFrom (s : Int) : Nat → List Int
  | 0 => []
  | n + 1 => s :: intsFrom (s + 1) n

theorem intsFrom_length (s : Int) (n : Nat) : (intsFrom s n).length = n := by
  induction n generalizing s with
  | zero => rfl
  | succ n ih => simp [intsFrom, ih]

theorem intsFrom_get (s : Int) (n i : Nat) (h : i < n) : (intsFrom s n)[i]? = some (s + i) := by
  induction n generalizing s i with
  | zero => omega
  | succ n ih =>
    cases i with
    | zero => simp [intsFrom]
    | succ i =>
      simp only [intsFrom, List.getElem?_cons_succ]
      rw [ih (s + 1) i (by omega)]
      congr 1; push_cast; omega

/-- `while count <= end` on i32 visits exactly `max 0 (end - start + 1)` integers and stops by itself,
provided `end` is not i32::MAX (there the final increment overflows: a number error) -/
theorem countLoop_int (fuel : Nat) (s e : Int) (hs : -2147483648 ≤ s) (he : e < 2147483647)
    (hf : (e - s + 1).toNat ≤ fuel) :
    countLoop fo false fuel (.int s) (.int e) = .ok ((intsFrom s (e - s + 1).toNat).map .int, false) := by
  induction fuel generalizing s with
  | zero =>
    have h0 : (e - s + 1).toNat = 0 := by omega
    have : ¬ s ≤ e := by omega
    simp [countLoop, numLe_int, h0, intsFrom, this]
  | succ fuel ih =>
    unfold countLoop
    by_cases hle : s ≤ e
    · have hn : (e - s + 1).toNat = (e - (s + 1) + 1).toNat + 1 := by omega
      simp only [Bool.false_eq_true, if_false, numLe_int, hle, decide_true, if_true,
        cast_increment_int fo s (by omega) (by omega), ih (s + 1) (by omega) (by omega), hn, intsFrom, List.map_cons]
    · have h0 : (e - s + 1).toNat = 0 := by omega
      simp [numLe_int, hle, h0, intsFrom]

/-- `while count < end` on i32 (text / byte-list slices, `end` already incremented) -/
theorem countLoop_int_strict (fuel : Nat) (s e : Int) (hs : -2147483648 ≤ s) (he : e ≤ 2147483647)
    (hf : (e - s).toNat ≤ fuel) :
    countLoop fo true fuel (.int s) (.int e) = .ok ((intsFrom s (e - s).toNat).map .int, false) := by
  induction fuel generalizing s with
  | zero =>
    have h0 : (e - s).toNat = 0 := by omega
    have : ¬ s < e := by omega
    simp [countLoop, numLt_int, h0, intsFrom, this]
  | succ fuel ih =>
    unfold countLoop
    by_cases hlt : s < e
    · have hn : (e - s).toNat = (e - (s + 1)).toNat + 1 := by omega
      simp only [if_true, numLt_int, hlt, decide_true,
        cast_increment_int fo s (by omega) (by omega), ih (s + 1) (by omega) (by omega), hn, intsFrom, List.map_cons]
    · have h0 : (e - s).toNat = 0 := by omega
      simp [numLt_int, hlt, h0, intsFrom]

/-- when the range ends at i32::MAX the loop's last `increment` overflows: a number error -/
theorem countLoop_int_max (fuel : Nat) (s : Int) (hs : -2147483648 ≤ s) (hs2 : s ≤ 2147483647)
    (hf : (2147483647 - s + 1).toNat ≤ fuel) :
    countLoop fo false fuel (.int s) (.int 2147483647) = .error .number := by
  induction fuel generalizing s with
  | zero => omega
  | succ fuel ih =>
    unfold countLoop
    by_cases hmax : s = 2147483647
    · subst hmax
      simp [numLe_int, Number.increment, Number.overflowingAdd, Number.ovf, InRange]
    · simp only [Bool.false_eq_true, if_false, numLe_int, hs2, decide_true, if_true,
        cast_increment_int fo s (by omega) (by omega), ih (s + 1) (by omega) (by omega) (by omega)]

/-- the range → list loop on i32 pushes exactly `max 0 (end - start + 1)` integers, for every i32 end
(no increment follows the last item) -/
theorem rangeItems_int (n : Nat) (s e : Int) (hs : -2147483648 ≤ s) (he : e ≤ 2147483647)
    (hn : n = (e - s + 1).toNat) :
    rangeItems fo n (.int s) (.int e) = .ok ((intsFrom s n).map .int) := by
  induction n generalizing s with
  | zero => rfl
  | succ n ih =>
    have hle : s ≤ e := by omega
    cases n with
    | zero => simp [rangeItems, numLe_int, hle, intsFrom]
    | succ n =>
      simp only [rangeItems, numLe_int, hle, decide_true, if_true,
        cast_increment_int fo s (by omega) (by omega), ih (s + 1) (by omega) (by omega), intsFrom, List.map_cons]

theorem rangeLen_int_overflow (s e : Int) (hs : InRange s) (he : InRange e) (h : 2147483647 < e - s + 1) :
    rangeLen fo (.int s) (.int e) = none := by
  unfold InRange at hs he
  by_cases h1 : InRange (e - s)
  · have hw1 : wrap (e - s) = e - s := by unfold InRange at h1; unfold wrap; omega
    have h2 : ¬ InRange (e - s + 1) := by unfold InRange; omega
    simp [rangeLen, Number.subtract, Number.doOp, Number.overflowingSub, Number.ovf, h1, hw1,
      Number.increment, Number.overflowingAdd, h2]
  · simp [rangeLen, Number.subtract, Number.doOp, Number.overflowingSub, Number.ovf, h1]

theorem mapItems_ok (get : Number F → Except ErrClass (Val F)) (f : Number F → Val F) (idx : List (Number F))
    (h : ∀ i ∈ idx, get i = .ok (f i)) : mapItems get idx = .ok (idx.map f) := by
  induction idx with
  | nil => rfl
  | cons i is ih =>
    have h1 := h i (by simp)
    have h2 := ih (fun j hj => h j (by simp [hj]))
    simp [mapItems, h1, h2]

theorem mem_intsFrom (s : Int) (n : Nat) (i : Int) (h : i ∈ intsFrom s n) : s ≤ i ∧ i < s + n := by
  induction n generalizing s with
  | zero => simp [intsFrom] at h
  | succ n ih =>
    simp only [intsFrom, List.mem_cons] at h
    rcases h with h | h
    · subst h; omega
    · have := ih (s + 1) h; omega

theorem rangeLen_int (s e : Int) (h1 : InRange (e - s)) (h2 : InRange (e - s + 1)) :
    rangeLen fo (.int s) (.int e) = some (.int (e - s + 1)) := by
  unfold InRange at h1 h2
  have hr1 : InRange (e - s) := by unfold InRange; omega
  have hr2 : InRange (e - s + 1) := by unfold InRange; omega
  have hw1 : wrap (e - s) = e - s := by unfold wrap; omega
  have hw2 : wrap (e - s + 1) = e - s + 1 := by unfold wrap; omega
  simp [rangeLen, Number.subtract, Number.doOp, Number.overflowingSub, Number.ovf, hr1, hw1,
    Number.increment, Number.overflowingAdd, hr2, hw2]

/-! ### helpers that never offer to the host -/

def isDefer : OpOut F → Bool
  | .defer _ _ _ => true
  | _ => false

theorem buildList_not_defer (st : StoreKind) (d : Nat) (items : List (Val F)) :
    isDefer (buildList st d items) = false := by
  cases st <;> simp only [buildList] <;> (try split) <;> rfl

theorem overrun_not_defer (st : StoreKind) : isDefer (overrun (F := F) st) = false := by
  cases st <;> rfl

theorem sliceLoop_not_defer (st : StoreKind) (strict : Bool) (n d : Nat) (s e : Number F)
    (get : Number F → Except ErrClass (Val F)) : isDefer (sliceLoop fo st strict n d s e get) = false := by
  unfold sliceLoop
  split
  · rfl
  · split
    · exact overrun_not_defer st
    · split
      · exact buildList_not_defer _ _ _
      · rfl

theorem rangeToList_not_defer (st : StoreKind) (s e : Val F) : isDefer (rangeToList fo st s e) = false := by
  unfold rangeToList
  split
  · split
    · rfl
    · simp only []
      split
      · rfl
      · exact buildList_not_defer _ _ _
  · rfl

theorem sliceToList_not_defer (st : StoreKind) (x rng : Val F) : isDefer (sliceToList fo st x rng) = false := by
  unfold sliceToList
  split
  · split
    · rfl
    · simp only []
      split
      · exact sliceLoop_not_defer fo _ _ _ _ _ _ _
      · split
        · exact sliceLoop_not_defer fo _ _ _ _ _ _ _
        · rfl
      · split
        · exact sliceLoop_not_defer fo _ _ _ _ _ _ _
        · rfl
      · exact buildList_not_defer _ _ _
      · rfl
  · rfl
  · rfl

theorem symbolFrom_not_defer (env : CastEnv F) (v : Val F) : isDefer (symbolFrom env v) = false := by
  unfold symbolFrom
  split
  · rfl
  · split <;> rfl

theorem byteListFrom_not_defer (env : CastEnv F) (v : Val F) : isDefer (byteListFrom env v) = false := by
  unfold byteListFrom
  split
  · split <;> rfl
  · rfl

end Garnish.Lemmas
