/-
Base lemmas for the runtime refinement (Props/RuntimeRefine*.lean): the `RM` monad, composition of effects,
and the contracts of the utilities (utilities.rs) derived from `StoreLaws`.
-/
import Garnish.Model.Runtime.Utilities
import Garnish.Lemmas.EqualityRefine
set_option linter.unusedSimpArgs false
set_option linter.unusedVariables false
namespace Garnish.Lemmas.Runtime
open Garnish Gen Garnish.Abs Garnish.Model.Equality Garnish.Model.Runtime
open Garnish.Lemmas.EqualityRefine (decodes_typeOf)

variable {F σ : Type} {S : RStore F σ}

/-! ### the monad -/

theorem bind_apply {α β} (x : RM σ α) (f : α → RM σ β) (s : σ) :
    (x >>= f) s = match x s with
      | .ok (a, s') => f a s'
      | .err e => .err e
      | .panic p => .panic p
      | .fuelOut => .fuelOut := rfl

theorem bind_ok {α β} {x : RM σ α} {f : α → RM σ β} {s s' : σ} {a : α} (h : x s = .ok (a, s')) :
    (x >>= f) s = f a s' := by rw [bind_apply, h]

theorem bind_err {α β} {x : RM σ α} {f : α → RM σ β} {s : σ} {e : ErrClass} (h : x s = .err e) :
    (x >>= f) s = .err e := by rw [bind_apply, h]

theorem bind_ok2 {α β γ} {x : RM σ α} {f : α → RM σ β} {g : β → RM σ γ} {s s' : σ} {a : α}
    (h : x s = .ok (a, s')) : ((x >>= f) >>= g) s = (f a >>= g) s' := by
  rw [bind_apply, bind_ok h, ← bind_apply]

@[simp] theorem pure_apply {α} (a : α) (s : σ) : (pure a : RM σ α) s = .ok (a, s) := rfl
@[simp] theorem fail_apply {α} (e : ErrClass) (s : σ) : (RM.fail e : RM σ α) s = .err e := rfl
@[simp] theorem stateError_apply {α} (s : σ) : (stateError : RM σ α) s = .err .state := rfl
@[simp] theorem read_apply {α} (f : σ → α) (s : σ) : (RM.read f) s = .ok (f s, s) := rfl
theorem readR_ok {α} {g : σ → Outcome α} {s : σ} {a : α} (h : g s = .ok a) : RM.readR g s = .ok (a, s) := by
  simp [RM.readR, h, Outcome.bind]
theorem readR_err {α} {g : σ → Outcome α} {s : σ} {e : ErrClass} (h : g s = .err e) : RM.readR g s = .err e := by
  simp [RM.readR, h, Outcome.bind]
@[simp] theorem orNumErr_some {α} (a : α) (s : σ) : (orNumErr (some a) : RM σ α) s = .ok (a, s) := rfl
@[simp] theorem orNumErr_none {α} (s : σ) : (orNumErr (none : Option α) : RM σ α) s = .err .number := rfl

/-! ### effects compose -/

theorem _root_.Garnish.Model.Runtime.Keeps.refl (S : RStore F σ) (s : σ) : Keeps S s s := ⟨fun _ _ h => h, rfl, rfl, rfl, rfl⟩

theorem _root_.Garnish.Model.Runtime.Keeps.trans {s s1 s2 : σ} (h1 : Keeps S s s1) (h2 : Keeps S s1 s2) : Keeps S s s2 :=
  ⟨fun a v h => h2.dec a v (h1.dec a v h), h2.jump.trans h1.jump, h2.ilen.trans h1.ilen, h2.cur.trans h1.cur,
    h2.instr.trans h1.instr⟩

theorem _root_.Garnish.Model.Runtime.Eff.refl (S : RStore F σ) (s : σ) : Eff S s s (S.regs s) (S.vals s) := ⟨Keeps.refl S s, rfl, rfl, rfl, rfl⟩

theorem _root_.Garnish.Model.Runtime.Eff.trans {s s1 s2 : σ} {R1 V1 R2 V2 : List Nat} (h1 : Eff S s s1 R1 V1) (h2 : Eff S s1 s2 R2 V2) :
    Eff S s s2 R2 V2 :=
  ⟨h1.keeps.trans h2.keeps, h2.regs, h2.vals, h2.trace.trans h1.trace, h2.frames.trans h1.frames⟩

theorem _root_.Garnish.Model.Runtime.Eff.toF {s s' : σ} {R V : List Nat} (h : Eff S s s' R V) :
    FEff S s s' R V (S.frames s) := ⟨h.keeps, h.regs, h.vals, h.trace, h.frames⟩

theorem _root_.Garnish.Model.Runtime.FEff.trans {s s1 s2 : σ} {R1 V1 R2 V2 : List Nat} {Fr1 Fr2 : List (Nat × List Nat)}
    (h1 : FEff S s s1 R1 V1 Fr1) (h2 : FEff S s1 s2 R2 V2 Fr2) : FEff S s s2 R2 V2 Fr2 :=
  ⟨h1.keeps.trans h2.keeps, h2.regs, h2.vals, h2.trace.trans h1.trace, h2.frames⟩

/-- an ordinary effect after a frame effect keeps the new frame chain -/
theorem _root_.Garnish.Model.Runtime.FEff.thenEff {s s1 s2 : σ} {R1 V1 R2 V2 : List Nat} {Fr1 : List (Nat × List Nat)}
    (h1 : FEff S s s1 R1 V1 Fr1) (h2 : Eff S s1 s2 R2 V2) : FEff S s s2 R2 V2 Fr1 :=
  ⟨h1.keeps.trans h2.keeps, h2.regs, h2.vals, h2.trace.trans h1.trace, h2.frames.trans h1.frames⟩

theorem _root_.Garnish.Model.Runtime.FEff.dec {s s' : σ} {R V : List Nat} {Fr : List (Nat × List Nat)}
    (h : FEff S s s' R V Fr) {a : Nat} {v : Val F} (d : Decodes (S.view s) a v) : Decodes (S.view s') a v :=
  h.keeps.dec a v d

/-- re-express an effect stated relative to the intermediate state -/
theorem _root_.Garnish.Model.Runtime.Eff.after {s s1 s2 : σ} {R1 V1 : List Nat} (h1 : Eff S s s1 R1 V1)
    {R2 V2 : List Nat → List Nat} (h2 : Eff S s1 s2 (R2 (S.regs s1)) (V2 (S.vals s1))) :
    Eff S s s2 (R2 R1) (V2 V1) := by
  have := h1.trans h2
  rwa [h1.regs, h1.vals] at this

theorem _root_.Garnish.Model.Runtime.Eff.dec {s s' : σ} {R V : List Nat} (h : Eff S s s' R V) {a : Nat} {v : Val F}
    (d : Decodes (S.view s) a v) : Decodes (S.view s') a v := h.keeps.dec a v d

/-! ### getters on decodable addresses -/

theorem getDataType_of {s : σ} {a : Nat} {v : Val F} (h : Decodes (S.view s) a v) :
    getDataType S a s = .ok (v.typeOf, s) := by
  simp [getDataType, RM.lift, decodes_typeOf h, fetch, Outcome.ofOption, Outcome.bind]

theorem getNumber_of {s : σ} {a : Nat} {n : Number F} (h : Decodes (S.view s) a (.num n)) :
    getNumber S a s = .ok (n, s) := by
  cases h with
  | num _ hn => simp [getNumber, RM.lift, hn, fetch, Outcome.ofOption, Outcome.bind]

theorem getFromJumpTable_apply (j : Nat) (s : σ) : getFromJumpTable S j s = .ok (S.jumpTable s j, s) := rfl

/-! ### utilities.rs -/

theorem nextRef_cons (L : StoreLaws S) {s : σ} {a : Nat} {rest : List Nat} (h : S.regs s = a :: rest) :
    ∃ s', nextRef S s = .ok (a, s') ∧ Eff S s s' rest (S.vals s) := by
  obtain ⟨s', h1, e⟩ := L.popRegisterCons s a rest h
  exact ⟨s', by simp [nextRef, bind_ok h1], e⟩

theorem nextRef_nil (L : StoreLaws S) {s : σ} (h : S.regs s = []) : nextRef S s = .err .state := by
  obtain ⟨s', h1, e⟩ := L.popRegisterNil s h
  simp [nextRef, bind_ok h1]

theorem nextTwoRawRef_cons (L : StoreLaws S) {s : σ} {a b : Nat} {rest : List Nat}
    (h : S.regs s = a :: b :: rest) :
    ∃ s', nextTwoRawRef S s = .ok ((a, b), s') ∧ Eff S s s' rest (S.vals s) := by
  obtain ⟨s1, h1, e1⟩ := nextRef_cons L h
  obtain ⟨s2, h2, e2⟩ := nextRef_cons L e1.regs
  rw [e1.vals] at e2
  exact ⟨s2, by simp [nextTwoRawRef, bind_ok h1, bind_ok h2], e1.trans e2⟩

/-- what the `push_*` utilities establish: one new register on top, denoting `v` -/
def PushedOn (S : RStore F σ) (s : σ) (res : Outcome (Unit × σ)) (v : Val F) : Prop :=
  ∃ a s', res = .ok ((), s') ∧ Decodes (S.view s') a v ∧ Eff S s s' (a :: S.regs s) (S.vals s)

theorem push_of_adds (L : StoreLaws S) {m : RM σ Nat} {s : σ} {v : Val F} (h : Adds S m s v) :
    PushedOn S s ((m >>= fun a => S.pushRegister a) s) v := by
  obtain ⟨a, s1, h1, d, e1⟩ := h
  obtain ⟨s2, h2, e2⟩ := L.pushRegister a s1
  rw [e1.regs, e1.vals] at e2
  exact ⟨a, s2, by rw [bind_ok h1, h2], e2.dec d, e1.trans e2⟩

theorem pushUnit_spec (L : StoreLaws S) (s : σ) : PushedOn S s (pushUnit S s) .unit :=
  push_of_adds L (L.addUnit s)

theorem pushNumber_spec (L : StoreLaws S) (n : Number F) (s : σ) : PushedOn S s (pushNumber S n s) (.num n) :=
  push_of_adds L (L.addNumber n s)

theorem pushBoolean_spec (L : StoreLaws S) (b : Bool) (s : σ) :
    PushedOn S s (pushBoolean S b s) (Val.ofBool b) := by
  cases b
  · exact push_of_adds L (L.addFalse s)
  · exact push_of_adds L (L.addTrue s)

theorem pushPair_spec (L : StoreLaws S) {l r : Nat} {vl vr : Val F} {s : σ}
    (hl : Decodes (S.view s) l vl) (hr : Decodes (S.view s) r vr) :
    PushedOn S s (pushPair S l r s) (.pair vl vr) :=
  push_of_adds L (L.addPair l r vl vr s hl hr)

end Garnish.Lemmas.Runtime
