/-
Side conditions move along the relocation `reloc` (`runOKG_reloc`, `machOKOn1_reloc`).
-/
import Garnish.Lemmas.RuntimeOnBalanced2
import Garnish.Lemmas.RuntimeReloc
set_option linter.unusedSimpArgs false
set_option linter.unusedVariables false
namespace Garnish.Lemmas.Runtime.On
open Garnish Gen Garnish.Abs Garnish.Model.Equality Garnish.Model.Runtime Garnish.Lemmas.Runtime

variable {F : Type} {P : Prog F} {host : Host F} {fo : FloatOps F}

theorem reloc_fetch (P : Prog F) (pc : Nat) : (reloc P).instrs[pc]? = (P.instrs[pc]?).map relocI := by
  simp [reloc]

/-- side conditions move along the relocation -/
theorem runOKG_reloc (ok ok' : MState F → Instruction → Option Nat → Prop)
    (h : ∀ m i o, P.instrs[m.pc]? = some (i, o) → ok' m i o → ok m (relocI (i, o)).1 (relocI (i, o)).2) :
    ∀ (n : Nat) (m : MState F), RunOKG fo ok' host P n m → RunOKG fo ok host (reloc P) n m
  | 0, _, _ => trivial
  | n + 1, m, hr => by
    obtain ⟨h1, h2⟩ := hr
    refine ⟨fun i o hf => ?_, fun m' hst => runOKG_reloc ok ok' h n m' (h2 m' (by rw [← step_reloc]; exact hst))⟩
    rw [reloc_fetch] at hf
    cases hp : P.instrs[m.pc]? with
    | none => rw [hp] at hf; cases hf
    | some p =>
      rw [hp] at hf
      obtain ⟨i0, o0⟩ := p
      have : relocI (i0, o0) = (i, o) := by simpa using hf
      have := h m i0 o0 hp (h1 i0 o0 hp)
      rw [‹relocI (i0, o0) = (i, o)›] at this
      exact this

theorem machOKOn1_reloc {m : MState F} {i : Instruction} {o : Option Nat} (h : MachOKOn1 P m i o) :
    MachOKOn1 (reloc P) m (relocI (i, o)).1 (relocI (i, o)).2 := by
  cases i <;> cases o <;> first
    | exact h
    | (intro k v hk hc
       simp only [relocI, Option.some.injEq] at hk
       subst hk
       rw [reloc_const] at hc
       exact h _ v rfl hc)
    | (intro k v hk hc; cases hk)

end Garnish.Lemmas.Runtime.On
