/-
C04, builder half — evaluation order, part 8: the outer loop pops a root onto an empty inner work list.
-/
import Garnish.Lemmas.BuildSeq7
namespace Garnish.Lemmas.BuildSeq
open Garnish Garnish.Gen Garnish.Model.Parser Garnish.Model.Literals Garnish.Model.Build Garnish.Lemmas.Build
open Garnish.Lemmas.BuildTotal
open Garnish.Lemmas.BuildOrder (Above above_append_left above_append_mem above_append_right above_mem above_irrefl
  above_top_false above_init Attr)

variable {F : Type} {root : Nat} {tree : Array ParseNode} {G : Nat → Prop} {m0 : Nat}

/-- an in-line descendant of an in-line child is an in-line child of some node -/
theorem idesc_ilink (V : Validated root tree G) {y a x : Nat} (hy : G y) (ha : ILink tree y a) (h : IDesc tree a x) :
    ∃ w, G w ∧ ILink tree w x := by
  cases h with
  | refl => exact ⟨y, hy, ha⟩
  | @step w _ h1 h2 => exact ⟨w, idesc_G V (child_facts V hy ha.isChild).1 h1, h2⟩

theorem pop_sinv (V : Validated root tree G) {ph : Nat → Phase} {ctx : Ctx F} (hinv : Inv root tree G ph ctx) {r : Nat}
    (hb : ctx.rootStack.back? = some r) {nodes : Nodes} {M : Array (Option Nat)}
    (ho : SInv root tree G m0 ph [] nodes M) : SInv root tree G m0 (popPhase ph r) [r] nodes M := by
  have hmem : r ∈ ctx.rootStack.toList := by rw [toList_of_back hb]; simp
  obtain ⟨hrG, hrp⟩ := hinv.rootOk r hmem
  have hr' : popPhase ph r r = .p1 := by simp [popPhase]
  have hother : ∀ x, x ≠ r → popPhase ph r x = ph x := by intro x hx; simp [popPhase, hx]
  have hnone : ∀ x, ¬ Act ph x := fun x hx => by have := ho.onStack x hx; cases this
  -- the only active node is r
  have hact : ∀ x, Act (popPhase ph r) x → x = r := by
    intro x hx
    rcases Classical.em (x = r) with e | e
    · exact e
    · rw [Act, hother x e] at hx; exact absurd hx (hnone x)
  have hvis : ∀ x, (popPhase ph r x = .p2 ∨ popPhase ph r x = .p3) → x ≠ r ∧ (ph x = .p2 ∨ ph x = .p3) := by
    intro x hx
    have hxr : x ≠ r := fun e => by subst e; rw [hr'] at hx; rcases hx with h | h <;> cases h
    rw [hother x hxr] at hx; exact ⟨hxr, hx⟩
  -- r is not an in-line child
  have hrnl : ∀ w, G w → ¬ ILink tree w r := fun w hw hl => (ho.inl w r hw hl).1 hrp
  have hnod : ∀ y a, G y → ILink tree y a → ¬ IDesc tree a r := by
    intro y a hy ha hd
    obtain ⟨w, hw, hl⟩ := idesc_ilink V hy ha hd
    exact hrnl w hw hl
  refine ⟨by simp, ?_, ?_, ?_, ?_, ?_, ?_, ?_, ?_, ?_, ?_, ?_, ?_, ho.ord⟩
  · intro x hx; rw [hact x hx]; simp
  · intro x hx
    have hp := ho.attrVisited x hx
    have hxr : x ≠ r := fun e => by subst e; rw [hrp] at hp; rcases hp with h | h <;> cases h
    rw [hother x hxr]; exact hp
  · intro y pn hy hnse ha
    have hp := ho.attrLast y pn hy hnse ha
    have hyr : y ≠ r := fun e => by subst e; rw [hrp] at hp; cases hp
    rw [hother y hyr]; exact hp
  · intro y c hy hc
    rcases Classical.em (c = r) with e | e
    · subst e; exact absurd hc (hrnl y hy)
    · rw [hother c e]; exact ho.inl y c hy hc
  · intro y a b x hy hord hda hx
    rw [hact x hx] at hda; exact absurd hda (hnod y a hy hord.left)
  · intro y a b x hy hord hda _ hx
    rw [hact x hx] at hda; exact absurd hda (hnod y a hy hord.left)
  · intro y c x hy hc hdc hx
    rw [hact x hx] at hdc; exact absurd hdc (hnod y c hy hc.ilink)
  · intro y c x hy hc hdc _ hx
    rw [hact x hx] at hdc; exact absurd hdc (hnod y c hy hc.ilink)
  · intro y c z hy hc hdc hz _
    rw [hact z hz] at hdc; exact absurd hdc (hnod y c hy hc.ilink)
  · intro y c z hy hc hdc hzv
    obtain ⟨_, hzv0⟩ := hvis z hzv
    have h3 := ho.postAfter y c z hy hc hdc hzv0
    have hyr : y ≠ r := fun e => by subst e; rw [hrp] at h3; cases h3
    rw [hother y hyr]; exact h3
  · intro ρ y q x hρ hdy hool hq hdx hx
    have hxr := hact x hx
    subst hxr
    have hyG := idesc_G V hρ hdy
    -- ρ = x, since x is not an in-line child
    have hρx : ρ = x := by
      cases hdx with
      | refl => rfl
      | @step w _ h1 h2 => exact absurd h2 (hrnl w (idesc_G V hρ h1))
    subst hρx
    have hq0 : ph q ≠ .p0 := by
      rcases Classical.em (q = ρ) with e | e
      · subst e; rw [hrp]; intro h; cases h
      · rw [hother q e] at hq; rcases hq with h | h | h <;> rw [h] <;> intro h' <;> cases h'
    have hyv := child_visited V hinv hyG hool.isChild hq0
    have hy0 : ph y ≠ .p0 := by rcases hyv with h | h <;> rw [h] <;> intro h' <;> cases h'
    rcases idesc_climb V hinv hρ hdy hy0 with h | h
    · subst h; rw [hrp] at hyv; rcases hyv with h | h <;> cases h
    · rw [hrp] at h; rcases h with h | h <;> cases h
  · intro x bn hx hxp
    rcases Classical.em (x = r) with e | e
    · subst e; exact ho.uninit x bn hx (Or.inr hrp)
    · rw [hother x e] at hxp; exact ho.uninit x bn hx hxp

theorem pop_binv {ph : Nat → Phase} {r : Nat} (hrp : ph r = .pr) {M : Array (Option Nat)} (hb : BInv tree G m0 ph M) :
    BInv tree G m0 (popPhase ph r) M := by
  have hvis : ∀ x, (popPhase ph r x = .p2 ∨ popPhase ph r x = .p3) → ph x = popPhase ph r x := by
    intro x hx
    rcases Classical.em (x = r) with e | e
    · subst e; simp [popPhase] at hx
    · simp [popPhase, e]
  refine ⟨?_, hb.before, ?_⟩
  · intro y pn hy hd hyv
    exact hb.started y pn hy hd (by rw [hvis y hyv]; exact hyv)
  · intro y pn c x kx hy hpy hd hc hdc hkx hmx hy3
    exact hb.after y pn c x kx hy hpy hd hc hdc hkx hmx (by rw [hvis y (Or.inr hy3)]; exact hy3)

end Garnish.Lemmas.BuildSeq
