/-
Suffix operators, part 4: reference side, and the two loops side by side for items
`trivia* binop trivia* prefix* value suffix*` (`frag_loop_sitems`).
-/
import Garnish.Lemmas.ParserSuffix3

namespace Garnish.Spec
open Garnish Garnish.Gen Garnish.Model.Parser

/-! ### reference side -/

theorem ref_suffix_step (f : Frame) (pos q : Nat) (s : PToken) (rest : List PToken) (hs : isSuffixTok s = true)
    (hq : priority (getDefinition s.type).1 = some q) (hl : f.last = .operand ∨ f.last = .suffix) :
    refStep Table.gen f [] pos s rest =
      .ok ({ f with cur := attach Table.gen q false (getDefinition s.type).1 pos f.cur, last := .suffix, ws := false,
                    prevSep := false }, []) := by
  have hsd : (getDefinition s.type).2 = .unarySuffix := by unfold isSuffixTok at hs; simpa using hs
  have hgen : Table.gen.define = getDefinition := rfl
  have hpr : Table.gen.prio = priority := rfl
  unfold refStep
  rw [hgen]
  generalize getDefinition s.type = ds at hsd hq ⊢
  obtain ⟨d, sd⟩ := ds
  simp only at hsd hq ⊢
  subst hsd
  rcases hl with hl | hl <;> simp [hpr, hq, hl] <;> rfl

theorem ref_op_step' (f : Frame) (pos q : Nat) (o : PToken) (rest : List PToken) (ho : isBinopTok o = true)
    (hq : priority (getDefinition o.type).1 = some q) (hl : f.last = .operand ∨ f.last = .suffix) :
    refStep Table.gen f [] pos o rest =
      .ok ({ f with cur := attach Table.gen q ((getDefinition o.type).2 == .binaryRightToLeft) (getDefinition o.type).1 pos f.cur,
                    last := .op, ws := false, prevSep := false }, []) := by
  have hso := binop_secdef ho
  have hgen : Table.gen.define = getDefinition := rfl
  have hpr : Table.gen.prio = priority := rfl
  unfold refStep
  rw [hgen]
  generalize getDefinition o.type = ds at hso hq ⊢
  obtain ⟨d, s⟩ := ds
  simp only at hso hq ⊢
  rcases hso with rfl | rfl <;> rcases hl with hl | hl <;> simp [hpr, hq, hl]

theorem ref_oitemS (f : Frame) (pos q : Nat) (it : OItem) (hok : it.ok) (rest : List PToken)
    (hq : priority (getDefinition it.op.type).1 = some q) (hl : f.last = .operand ∨ f.last = .suffix) :
    refLoop Table.gen f [] pos (it.dec ++ rest) =
      refLoop Table.gen
        { f with cur := plugLeaves (attach Table.gen q ((getDefinition it.op.type).2 == .binaryRightToLeft)
                          (getDefinition it.op.type).1 (pos + it.ws1.length) f.cur)
                        (leavesP it.pre (pos + it.ws1.length + 1 + it.ws2.length) ++
                          [((getDefinition it.atom.type).1, pos + it.ws1.length + 1 + it.ws2.length + it.pre.length)]),
                 last := .operand, ws := false, prevSep := false } [] (pos + it.dec.length) rest := by
  obtain ⟨hw1, ho, hw2, hpre, ha⟩ := hok
  have e1 : it.dec ++ rest = it.ws1 ++ (it.op :: (it.ws2 ++ (it.pre ++ it.atom :: rest))) := by simp [OItem.dec]
  rw [e1]
  obtain ⟨b1, hb1⟩ := ref_skip it.ws1 f pos (it.op :: (it.ws2 ++ (it.pre ++ it.atom :: rest))) hw1
  rw [hb1]
  conv => lhs; unfold refLoop
  rw [ref_op_step' { f with ws := b1 } _ q it.op _ ho hq hl]
  simp only [Outcome.bind]
  obtain ⟨b2, hb2⟩ := ref_skip it.ws2
    { f with cur := attach Table.gen q ((getDefinition it.op.type).2 == .binaryRightToLeft) (getDefinition it.op.type).1
                      (pos + it.ws1.length) f.cur, last := .op, ws := false, prevSep := false }
    (pos + it.ws1.length + 1) (it.pre ++ it.atom :: rest) hw2
  rw [hb2, ref_operand _ _ it.pre it.atom rest hpre ha (Or.inl rfl)]
  have hlen : pos + it.ws1.length + 1 + it.ws2.length + it.pre.length + 1 = pos + it.dec.length := by
    simp [OItem.dec]; omega
  rw [hlen]

/-! ### a run of suffix operators, both sides -/

theorem suffix_loop : ∀ (sufs : List PToken) (st : PState) (T : Tree) (rt : Nat) (f : Frame) (pos : Nat)
    (rest : List PToken), SInv st T rt → (f.last = .operand ∨ f.last = .suffix) → f.cur = toRd (dfOf st.nodes) T →
    (∀ s ∈ sufs, isSuffixTok s = true) → NumberedFrom pos (sufs ++ rest) →
    ∃ st' T' rt' f', loop st (sufs ++ rest) = loop st' rest ∧ SInv st' T' rt' ∧
      refLoop Table.gen f [] pos (sufs ++ rest) = refLoop Table.gen f' [] (pos + sufs.length) rest ∧
      (f'.last = .operand ∨ f'.last = .suffix) ∧ f'.cur = toRd (dfOf st'.nodes) T'
  | [], st, T, rt, f, pos, rest, hinv, hl, hc, _, _ => ⟨st, T, rt, f, rfl, hinv, rfl, hl, hc⟩
  | s :: sufs, st, T, rt, f, pos, rest, hinv, hl, hc, hsufs, hnum => by
    have hs := hsufs s (List.mem_cons_self ..)
    obtain ⟨q, st1, rt1, hq, h1, hinv1, hsz1, hdefs, hdn⟩ := suffix_effect hinv s (sufs ++ rest).isEmpty hs
    have hcol : s.col = pos := hnum.1
    have hin := hinv.inord
    have hdf : ∀ i ∈ T.inorder, dfOf st1.nodes i = dfOf st.nodes i := by
      intro i hi
      rw [hin] at hi
      have := hdefs i (List.mem_range.mp hi)
      simp only [dfOf, this]
    have hcur : attach Table.gen q false (getDefinition s.type).1 pos f.cur =
        toRd (dfOf st1.nodes) (insertS (prioAt st.nodes) q false st.nodes.size s.col .nil T) := by
      rw [hcol]
      have := insertS_toRd (dfOf st1.nodes) (prioAt st.nodes) q false st.nodes.size pos .nil [] (fun l => rfl) T
        (by
          intro i hi
          rw [hdf i hi]
          rw [hin] at hi
          have hi' := List.mem_range.mp hi
          have hsome : ∃ nd, st.nodes[i]? = some nd := by
            cases hnd : st.nodes[i]? with
            | none => rw [Array.getElem?_eq_none_iff] at hnd; omega
            | some nd => exact ⟨nd, rfl⟩
          obtain ⟨nd, hnd⟩ := hsome
          obtain ⟨p, hp⟩ := hinv.prios i nd hnd
          show priority _ = _
          simp [dfOf, prioAt, hnd, hp])
      simp only [plugLeaves] at this
      rw [hdn, toRd_congr _ _ T hdf] at this
      rw [hc]; exact this
    obtain ⟨st', T', rt', f', hl', hinv', href', hlast', hcur'⟩ := suffix_loop sufs st1 _ rt1
      { f with cur := attach Table.gen q false (getDefinition s.type).1 pos f.cur, last := .suffix, ws := false,
               prevSep := false } (pos + 1) rest hinv1 (Or.inr rfl) hcur
      (fun x hx => hsufs x (List.mem_cons_of_mem _ hx)) hnum.2
    refine ⟨st', T', rt', f', ?_, hinv', ?_, hlast', hcur'⟩
    · simp only [List.cons_append, loop, h1, Outcome.bind]
      exact hl'
    · simp only [List.cons_append, List.length_cons]
      conv => lhs; unfold refLoop
      rw [ref_suffix_step f pos q s _ hs hq hl]
      simp only [Outcome.bind]
      rw [href']
      have : pos + 1 + sufs.length = pos + (sufs.length + 1) := by omega
      rw [this]

/-! ### items with suffix operators -/

/-- `trivia* binop trivia* prefix* value suffix*` -/
structure SItem where
  item : OItem
  sufs : List PToken

def SItem.dec (it : SItem) : List PToken := it.item.dec ++ it.sufs
def SItem.ok (it : SItem) : Prop := it.item.ok ∧ ∀ s ∈ it.sufs, isSuffixTok s = true

def flatDecS : List SItem → List PToken
  | [] => []
  | it :: rest => it.dec ++ flatDecS rest

theorem frag_loop_sitems : ∀ (items : List SItem) (st : PState) (T : Tree) (rt : Nat) (f : Frame) (pos : Nat),
    SInv st T rt → (f.last = .operand ∨ f.last = .suffix) → f.cur = toRd (dfOf st.nodes) T → (∀ it ∈ items, it.ok) →
    NumberedFrom pos (flatDecS items) →
    ∃ stF TF rtF, loop st (flatDecS items) = .ok stF ∧ SInv stF TF rtF ∧
      refLoop Table.gen f [] pos (flatDecS items) = .ok (toRd (dfOf stF.nodes) TF)
  | [], st, T, rt, f, pos, hinv, hl, hc, _, _ => by
    refine ⟨st, T, rt, rfl, hinv, ?_⟩
    simp only [flatDecS]
    unfold refLoop
    rcases hl with hl | hl <;> simp [hl, hc]
  | sit :: items, st, T, rt, f, pos, hinv, hl, hc, hoks, hnum => by
    obtain ⟨hok, hsufs⟩ := hoks sit (List.mem_cons_self ..)
    have e0 : flatDecS (sit :: items) = sit.item.dec ++ (sit.sufs ++ flatDecS items) := by
      simp [flatDecS, SItem.dec]
    rw [e0] at hnum ⊢
    obtain ⟨q, st2, rt', hq, hloop, hinv2, hdefs, hdn, hdp, hda⟩ := operand_stepS hinv sit.item hok (sit.sufs ++ flatDecS items)
    rw [hloop, ref_oitemS f pos q sit.item hok _ hq hl]
    -- positions
    have e1 : sit.item.dec ++ (sit.sufs ++ flatDecS items) = sit.item.ws1 ++ (sit.item.op :: (sit.item.ws2 ++
        (sit.item.pre ++ sit.item.atom :: (sit.sufs ++ flatDecS items)))) := by simp [OItem.dec]
    have hnum1 : NumberedFrom (pos + sit.item.ws1.length) (sit.item.op :: (sit.item.ws2 ++
        (sit.item.pre ++ sit.item.atom :: (sit.sufs ++ flatDecS items)))) := by
      rw [e1] at hnum; exact numbered_append _ _ _ hnum
    have hco : sit.item.op.col = pos + sit.item.ws1.length := hnum1.1
    have hnum2 : NumberedFrom (pos + sit.item.ws1.length + 1 + sit.item.ws2.length)
        (sit.item.pre ++ sit.item.atom :: (sit.sufs ++ flatDecS items)) := numbered_append sit.item.ws2 _ _ hnum1.2
    have hnum' : NumberedFrom (pos + sit.item.dec.length) (sit.sufs ++ flatDecS items) := numbered_append _ _ _ hnum
    have hin := hinv.inord
    have hdf : ∀ i ∈ T.inorder, dfOf st2.nodes i = dfOf st.nodes i := by
      intro i hi
      rw [hin] at hi
      have := hdefs i (List.mem_range.mp hi)
      simp only [dfOf, this]
    have hcur : plugLeaves (attach Table.gen q ((getDefinition sit.item.op.type).2 == .binaryRightToLeft)
          (getDefinition sit.item.op.type).1 (pos + sit.item.ws1.length) f.cur)
          (leavesP sit.item.pre (pos + sit.item.ws1.length + 1 + sit.item.ws2.length) ++
            [((getDefinition sit.item.atom.type).1,
              pos + sit.item.ws1.length + 1 + sit.item.ws2.length + sit.item.pre.length)]) =
        toRd (dfOf st2.nodes) (insertS (prioAt st.nodes) q ((getDefinition sit.item.op.type).2 == .binaryRightToLeft)
          st.nodes.size sit.item.op.col
          (chainTree (st.nodes.size + 1) (sit.item.pre.map (·.col)) sit.item.atom.col) T) := by
      rw [hco]
      have := insertS_toRd (dfOf st2.nodes) (prioAt st.nodes) q ((getDefinition sit.item.op.type).2 == .binaryRightToLeft)
        st.nodes.size (pos + sit.item.ws1.length)
        (chainTree (st.nodes.size + 1) (sit.item.pre.map (·.col)) sit.item.atom.col)
        (leavesP sit.item.pre (pos + sit.item.ws1.length + 1 + sit.item.ws2.length) ++
          [((getDefinition sit.item.atom.type).1,
            pos + sit.item.ws1.length + 1 + sit.item.ws2.length + sit.item.pre.length)])
        (fun l => operand_hsub (dfOf st2.nodes) sit.item.pre sit.item.atom (st.nodes.size + 1) _
          (dfOf st2.nodes st.nodes.size) (sit.sufs ++ flatDecS items) hok.2.2.2.1 hnum2 hdp (by rw [hdn]; exact hda) l _) T
        (by
          intro i hi
          rw [hdf i hi]
          rw [hin] at hi
          have hi' := List.mem_range.mp hi
          have hsome : ∃ nd, st.nodes[i]? = some nd := by
            cases hnd : st.nodes[i]? with
            | none => rw [Array.getElem?_eq_none_iff] at hnd; omega
            | some nd => exact ⟨nd, rfl⟩
          obtain ⟨nd, hnd⟩ := hsome
          obtain ⟨p, hp⟩ := hinv.prios i nd hnd
          show priority _ = _
          simp [dfOf, prioAt, hnd, hp])
      rw [hdn, toRd_congr _ _ T hdf] at this
      rw [hc]; exact this
    -- the suffix operators of the item
    obtain ⟨st3, T3, rt3, f3, hl3, hinv3, href3, hlast3, hcur3⟩ := suffix_loop sit.sufs st2 _ rt'
      { f with cur := plugLeaves (attach Table.gen q ((getDefinition sit.item.op.type).2 == .binaryRightToLeft)
                          (getDefinition sit.item.op.type).1 (pos + sit.item.ws1.length) f.cur)
                        (leavesP sit.item.pre (pos + sit.item.ws1.length + 1 + sit.item.ws2.length) ++
                          [((getDefinition sit.item.atom.type).1,
                            pos + sit.item.ws1.length + 1 + sit.item.ws2.length + sit.item.pre.length)]),
               last := .operand, ws := false, prevSep := false }
      (pos + sit.item.dec.length) (flatDecS items) hinv2.toS (Or.inl rfl) hcur hsufs hnum'
    have hnum'' : NumberedFrom (pos + sit.item.dec.length + sit.sufs.length) (flatDecS items) :=
      numbered_append _ _ _ hnum'
    obtain ⟨stF, TF, rtF, hlF, hinvF, hrefF⟩ := frag_loop_sitems items st3 T3 rt3 f3
      (pos + sit.item.dec.length + sit.sufs.length) hinv3 hlast3 hcur3
      (fun x hx => hoks x (List.mem_cons_of_mem _ hx)) hnum''
    exact ⟨stF, TF, rtF, by rw [hl3]; exact hlF, hinvF, by rw [href3]; exact hrefF⟩

end Garnish.Spec
