/-
Parentheses around a value token and the significant positions: in `pre ++ ( :: v :: ) :: post` the positions before the `(` stay,
the `(` is a new significant position, `v` moves up by one, everything behind by two (`significant_wrapValue`).
-/
import Garnish.Lemmas.LexRewrite5Sig
import Garnish.Lemmas.RefWrap3b
namespace Garnish.Spec
open Garnish Garnish.Gen Garnish.Model.Parser

/-- where position `k` of `pre ++ v :: post` is in `pre ++ ( :: v :: ) :: post` (`n = pre.length`) -/
def wrapPos (n k : Nat) : Nat := if k < n then k else if k = n then n + 1 else k + 2

theorem wrapPos_inj (n : Nat) : ∀ x y, wrapPos n x = wrapPos n y → x = y := by
  intro x y h
  unfold wrapPos at h
  split at h <;> split at h <;> (try split at h) <;> (try split at h) <;> omega

/-- the significant positions of the wrapped list, from those of the original one -/
def wrapSig (n k : Nat) : List Nat := if k = n then [n, n + 1] else [wrapPos n k]

theorem valTok_step {v : PToken} (hv : isValueTok v = true) (cf : Bool) (st : List Bracket) (prev : PrevTok) :
    stepE v.type cf st prev = (true, st, .other) := by
  unfold isValueTok at hv
  unfold stepE
  cases hty : v.type <;> rw [hty] at hv <;> first | rfl | (exfalso; revert hv; decide)

theorem closerFollows_value {v : PToken} (hv : isValueTok v = true) (rest : List PToken) : closerFollows (v :: rest) = false := by
  unfold isValueTok at hv
  simp only [closerFollows]
  cases hty : v.type <;> rw [hty] at hv <;> first | rfl | (exfalso; revert hv; decide)

theorem closerFollows_wrap {o v : PToken} (ho : o.type = .startGroup) (hv : isValueTok v = true) :
    ∀ (pre rest rest' : List PToken), closerFollows (pre ++ o :: rest) = closerFollows (pre ++ v :: rest')
  | [], rest, rest' => by
    rw [List.nil_append, List.nil_append, closerFollows_value hv]
    simp [closerFollows, ho, isFiller, isSeparator, isCloser]
  | x :: pre, rest, rest' => by
    simp only [List.cons_append, closerFollows, closerFollows_wrap ho hv pre rest rest']

theorem map_eq_flatMap {f : Nat → Nat} {g : Nat → List Nat} : ∀ (l : List Nat), (∀ x ∈ l, g x = [f x]) → l.map f = l.flatMap g
  | [], _ => rfl
  | x :: l, h => by
    simp only [List.map_cons, List.flatMap_cons, h x (List.mem_cons_self ..), List.singleton_append]
    rw [map_eq_flatMap l (fun y hy => h y (List.mem_cons_of_mem _ hy))]

theorem scan_wrapValue {o v c : PToken} (ho : o.type = .startGroup) (hc : c.type = .endGroup) (hv : isValueTok v = true) :
    ∀ (pre post : List PToken) (pos : Nat) (st : List Bracket) (prev : PrevTok),
    significantScan (pre ++ o :: v :: c :: post) pos st prev =
      (significantScan (pre ++ v :: post) pos st prev).flatMap (wrapSig (pos + pre.length))
  | [], post, pos, st, prev => by
    have ho' : ∀ cf, stepE o.type cf st prev = (true, .group :: st, .other) := fun cf => by rw [ho]; rfl
    have hc' : ∀ cf st', stepE c.type cf (Bracket.group :: st') .other = (false, st', .other) := fun cf st' => by rw [hc]; rfl
    simp only [List.nil_append, List.length_nil, Nat.add_zero]
    rw [scan_cons, ho', scan_cons, valTok_step hv, scan_cons, hc', scan_cons, valTok_step hv]
    simp only [if_true, Bool.false_eq_true, if_false, List.nil_append, List.singleton_append, List.flatMap_cons]
    rw [show pos + 1 + 1 + 1 = (pos + 1) + 1 + 1 from rfl, scan_shift, scan_shift]
    simp only [wrapSig, if_true, List.cons_append, List.nil_append, List.cons.injEq, true_and]
    rw [List.map_map]
    refine map_eq_flatMap _ (fun x hx => ?_)
    have := scan_ge post (pos + 1) st .other x hx
    unfold wrapSig wrapPos
    rw [if_neg (by omega), if_neg (by omega), if_neg (by omega)]
    rfl
  | x :: pre, post, pos, st, prev => by
    simp only [List.cons_append]
    rw [scan_cons, scan_cons, closerFollows_wrap ho hv pre (v :: c :: post) post, scan_wrapValue ho hc hv pre post (pos + 1)]
    have e : pos + 1 + pre.length = pos + (x :: pre).length := by simp; omega
    rw [e, List.flatMap_append]
    congr 1
    split
    · have h1 : ¬ pos = pos + (x :: pre).length := by simp
      have h2 : pos < pos + (x :: pre).length := by simp
      simp [wrapSig, wrapPos, h1, h2]
    · rfl

theorem significant_wrapValue {pre post : List PToken} {o v c : PToken} (ho : o.type = .startGroup) (hc : c.type = .endGroup)
    (hv : isValueTok v = true) (h : NoTrim (pre ++ v :: post)) (h' : NoTrim (pre ++ o :: v :: c :: post)) :
    significant (pre ++ o :: v :: c :: post) = (significant (pre ++ v :: post)).flatMap (wrapSig pre.length) := by
  rw [significant_noTrim h, significant_noTrim h', scan_wrapValue ho hc hv]
  simp

end Garnish.Spec
