/-
Trace half of the step simulation, part 8 (mirrors Lemmas/RuntimeStep8.lean): every instruction for every machine state.
-/
import Garnish.Lemmas.RuntimeTrace7
set_option linter.unusedSimpArgs false
set_option linter.unusedVariables false
namespace Garnish.Lemmas.Runtime
open Garnish Gen Garnish.Abs Garnish.Model.Equality Garnish.Model.Runtime Garnish.Props.RuntimeRefine

variable {F σ : Type} {S : RStore F σ} {P : Prog F} {host : Host F} (fo : FloatOps F)

/-- the machine errs: `simp` closes the unfolded step -/
macro "machine_errsT" fo:term "," fuel:term "," H:term "," s:term "," hfetch:ident "," e:term "," "[" hs:Lean.Parser.Tactic.simpLemma,* "]" : tactic =>
  `(tactic| (refine stepTrace_of_err $fo $fuel $H $s (e := $e) ?_; unfold Abs.step; rw [$hfetch:ident]; first | done | simp [$hs,*]))

section totals
variable (L : StoreLaws S) (HR : HostRefines S host) (fuel : Nat) (H : OtherHandlers σ) {s : σ} {m : MState F}
  (hsim : Sim S P s m) {operand : Option Nat}
include L hsim

theorem totalT_put (hfetch : P.instrs[m.pc]? = some (.put, operand)) (hok : ∀ k, operand = some k → PutOK S P s k) :
    StepTrace fo host S P fuel H s m := by
  cases operand with
  | none => machine_errsT fo, fuel, H, s, hfetch, .implementation, []
  | some k =>
    cases hc : P.consts[k]? with
    | none => machine_errsT fo, fuel, H, s, hfetch, .state, [hc]
    | some v =>
      obtain ⟨hk, hd⟩ := hok k rfl v hc
      exact stepTrace_put fo L fuel H hsim hfetch hc hk hd

theorem totalT_pushValue (hfetch : P.instrs[m.pc]? = some (.pushValue, operand)) :
    StepTrace fo host S P fuel H s m := by
  cases hr : m.regs with
  | nil => machine_errsT fo, fuel, H, s, hfetch, .state, [hr]
  | cons v rs => exact stepTrace_pushValue fo L fuel H hsim hfetch hr

theorem totalT_updateValue (hfetch : P.instrs[m.pc]? = some (.updateValue, operand)) :
    StepTrace fo host S P fuel H s m := by
  cases hr : m.regs with
  | nil => machine_errsT fo, fuel, H, s, hfetch, .state, [hr]
  | cons v rs =>
    cases hv : m.vals with
    | nil => machine_errsT fo, fuel, H, s, hfetch, .state, [hr, hv]
    | cons x vs => exact stepTrace_updateValue fo L fuel H hsim hfetch hr hv

theorem totalT_endSideEffect (hfetch : P.instrs[m.pc]? = some (.endSideEffect, operand)) :
    StepTrace fo host S P fuel H s m := by
  cases hv : m.vals with
  | nil => machine_errsT fo, fuel, H, s, hfetch, .state, [hv]
  | cons x vs =>
    cases hr : m.regs with
    | nil => machine_errsT fo, fuel, H, s, hfetch, .state, [hr, hv]
    | cons v rs => exact stepTrace_endSideEffect fo L fuel H hsim hfetch hr hv

theorem totalT_makePair (hfetch : P.instrs[m.pc]? = some (.makePair, operand)) :
    StepTrace fo host S P fuel H s m := by
  cases hr : m.regs with
  | nil => machine_errsT fo, fuel, H, s, hfetch, .state, [hr]
  | cons vl t =>
    cases t with
    | nil => machine_errsT fo, fuel, H, s, hfetch, .state, [hr]
    | cons vr rs => exact stepTrace_makePair fo L fuel H hsim hfetch hr

theorem totalT_makeList (hfetch : P.instrs[m.pc]? = some (.makeList, operand)) :
    StepTrace fo host S P fuel H s m := by
  cases operand with
  | none => machine_errsT fo, fuel, H, s, hfetch, .implementation, []
  | some n =>
    by_cases hn : n ≤ m.regs.length
    · exact stepTrace_makeList fo L fuel H hsim hfetch hn
    · have : n > m.regs.length := by omega
      machine_errsT fo, fuel, H, s, hfetch, .state, [this]

theorem totalT_jumpTo (hfetch : P.instrs[m.pc]? = some (.jumpTo, operand)) :
    StepTrace fo host S P fuel H s m := by
  cases operand with
  | none => machine_errsT fo, fuel, H, s, hfetch, .implementation, []
  | some j =>
    cases hj : P.jumps[j]? with
    | none => machine_errsT fo, fuel, H, s, hfetch, .state, [jumpTarget_none hj, finish, Except.map]
    | some t => exact stepTrace_jumpTo fo L fuel H hsim hfetch hj

theorem totalT_jumpIf (b : Bool) (hfetch : P.instrs[m.pc]? = some (if b then .jumpIfTrue else .jumpIfFalse, operand)) :
    StepTrace fo host S P fuel H s m := by
  cases operand with
  | none => cases b <;> machine_errsT fo, fuel, H, s, hfetch, .implementation, []
  | some j =>
    cases hj : P.jumps[j]? with
    | none => cases b <;> machine_errsT fo, fuel, H, s, hfetch, .state, [jumpTarget_none hj]
    | some t =>
      cases hr : m.regs with
      | nil => cases b <;> machine_errsT fo, fuel, H, s, hfetch, .state, [jumpTarget_some hj, hr]
      | cons d rs =>
        cases b
        · exact stepTrace_jumpIfFalse fo L fuel H hsim hfetch hj hr
        · exact stepTrace_jumpIfTrue fo L fuel H hsim hfetch hj hr

theorem totalT_and (hfetch : P.instrs[m.pc]? = some (.and, operand)) : StepTrace fo host S P fuel H s m := by
  cases operand with
  | none => machine_errsT fo, fuel, H, s, hfetch, .implementation, []
  | some j =>
    cases hr : m.regs with
    | nil => machine_errsT fo, fuel, H, s, hfetch, .state, [hr]
    | cons d rs =>
      cases hj : P.jumps[j]? with
      | some t => exact stepTrace_and fo L fuel H hsim hfetch hj hr
      | none =>
        cases hd : d.truthy with
        | true => machine_errsT fo, fuel, H, s, hfetch, .state, [hr, hd, jumpTarget_none hj, finish, Except.map]
        | false =>
          -- a false operand never looks at the jump table
          have hreg := hsim.2.regs
          rw [hr] at hreg
          obtain ⟨a, rest, hsr, da, tl⟩ := decodesList_cons_inv hreg
          have h := C10_refine_and L j hsr da
          rw [hd] at h
          simp only [Bool.false_eq_true, if_false] at h
          obtain ⟨b, s1, h1, d1, e1⟩ := h
          refine stepTrace_of fo L fuel H hsim hfetch (r := .ok ({ m with regs := .fls :: rs }, m.pc + 1))
            (by unfold Abs.step; rw [hfetch]; simp only [hr, hd, Bool.false_eq_true, if_false]; rfl) ?_
          exact handlerTrace_ofEff hsim.2 (md := { m with regs := .fls :: rs }) h1 e1 (.cons d1 (Sim.tail e1 tl))
            (Sim.tail e1 hsim.2.vals) rfl (by simp [hsim.1])

theorem totalT_or (hfetch : P.instrs[m.pc]? = some (.or, operand)) : StepTrace fo host S P fuel H s m := by
  cases operand with
  | none => machine_errsT fo, fuel, H, s, hfetch, .implementation, []
  | some j =>
    cases hr : m.regs with
    | nil => machine_errsT fo, fuel, H, s, hfetch, .state, [hr]
    | cons d rs =>
      cases hj : P.jumps[j]? with
      | some t => exact stepTrace_or fo L fuel H hsim hfetch hj hr
      | none =>
        cases hd : d.truthy with
        | false =>
          machine_errsT fo, fuel, H, s, hfetch, .state, [hr, hd, jumpTarget_none hj, finish, Except.map]
        | true =>
          have hreg := hsim.2.regs
          rw [hr] at hreg
          obtain ⟨a, rest, hsr, da, tl⟩ := decodesList_cons_inv hreg
          have h := C10_refine_or L j hsr da
          rw [hd] at h
          simp only [if_true] at h
          obtain ⟨b, s1, h1, d1, e1⟩ := h
          refine stepTrace_of fo L fuel H hsim hfetch (r := .ok ({ m with regs := .tru :: rs }, m.pc + 1))
            (by unfold Abs.step; rw [hfetch]; simp only [hr, hd, if_true]; rfl) ?_
          exact handlerTrace_ofEff hsim.2 (md := { m with regs := .tru :: rs }) h1 e1 (.cons d1 (Sim.tail e1 tl))
            (Sim.tail e1 hsim.2.vals) rfl (by simp [hsim.1])

theorem totalT_reapply (hfetch : P.instrs[m.pc]? = some (.reapply, operand)) : StepTrace fo host S P fuel H s m := by
  cases operand with
  | none => machine_errsT fo, fuel, H, s, hfetch, .implementation, []
  | some j =>
    cases hr : m.regs with
    | nil => machine_errsT fo, fuel, H, s, hfetch, .state, [hr]
    | cons v rs =>
      cases hj : P.jumps[j]? with
      | none => machine_errsT fo, fuel, H, s, hfetch, .state, [hr, jumpTarget_none hj]
      | some t =>
        cases hv : m.vals with
        | nil => machine_errsT fo, fuel, H, s, hfetch, .state, [hr, hv, jumpTarget_some hj]
        | cons x vs => exact stepTrace_reapply fo L fuel H hsim hfetch hj hr hv

theorem totalT_endExpression (hfetch : P.instrs[m.pc]? = some (.endExpression, operand)) :
    StepTrace fo host S P fuel H s m := by
  cases hr : m.regs with
  | nil => machine_errsT fo, fuel, H, s, hfetch, .state, [hr]
  | cons v rs =>
    cases hf : m.frames with
    | cons fr frs => exact stepTrace_endExpression_return fo L fuel H hsim hfetch hr hf
    | nil =>
      cases hv : m.vals with
      | nil => machine_errsT fo, fuel, H, s, hfetch, .state, [hr, hf, hv]
      | cons x vs => exact stepTrace_endExpression_top fo L fuel H hsim hfetch hr hv hf

include HR

theorem totalT_resolve (hfetch : P.instrs[m.pc]? = some (.resolve, operand))
    (hok : ∀ k, operand = some k → ResolveOK fo S P fuel s m k) : StepTrace fo host S P fuel H s m := by
  cases operand with
  | none => machine_errsT fo, fuel, H, s, hfetch, .implementation, []
  | some k =>
    cases hc : P.consts[k]? with
    | none => machine_errsT fo, fuel, H, s, hfetch, .state, [hc]
    | some key =>
      obtain ⟨hdk, hdom⟩ := hok k rfl key hc
      exact stepTrace_resolve fo L HR fuel H hsim hfetch hc hdk hdom

theorem totalT_apply (hfetch : P.instrs[m.pc]? = some (.apply, operand))
    (hok : ∀ vr vl rs, m.regs = vr :: vl :: rs → ApplyDomain fo fuel vl vr) : StepTrace fo host S P fuel H s m := by
  cases hr : m.regs with
  | nil => machine_errsT fo, fuel, H, s, hfetch, .state, [hr]
  | cons vr t =>
    cases t with
    | nil => machine_errsT fo, fuel, H, s, hfetch, .state, [hr]
    | cons vl rs => exact stepTrace_apply fo L HR fuel H hsim hfetch hr (hok vr vl rs hr)

theorem totalT_emptyApply (hfetch : P.instrs[m.pc]? = some (.emptyApply, operand))
    (hok : ∀ vl rs, m.regs = vl :: rs → ApplyDomain fo fuel vl .unit) : StepTrace fo host S P fuel H s m := by
  cases hr : m.regs with
  | nil => machine_errsT fo, fuel, H, s, hfetch, .state, [hr]
  | cons vl rs => exact stepTrace_emptyApply fo L HR fuel H hsim hfetch hr (hok vl rs hr)

end totals

end Garnish.Lemmas.Runtime
