/-
The tie between the two builder models (13): conditionals and logical operators — the left operand inline, the right one
as a root of its own.
-/
import Garnish.Lemmas.CompileTree12
namespace Garnish.Abs.Tree
open Garnish Garnish.Gen Garnish.Spec Garnish.Abs Garnish.Model.Parser Garnish.Model.Literals Garnish.Model.Build

variable {F : Type} {pf : List Char → Option F} {tree : Array ParseNode} {bodies : List (Nat × Expr F)}

/-- **a node whose left operand is inline and whose right operand becomes a pending root at the second visit** -/
theorem sim_branch {lo hi i l r : Nat} {e c t : Expr F} {pn : ParseNode} {cpc : Option Nat}
    {tail : Nat → LState F → LState F} {R : Nat → LState F → Root F}
    (hpn : tree[i]? = some pn) (hli : lo ≤ l ∧ l < i) (hri : i + 1 ≤ r ∧ r < hi) (hlt : l < tree.size) (hrt : r < tree.size)
    (hcpc : (∃ x, cpc = some x) → NotCond tree l)
    (hfirst : ∀ (crj : Nat) (data : BState F) (nodes : Nodes) (RS S : Array Nat) (b : BuildNode),
      nodes[i]? = some (some b) → b.state = .uninitialized → b.parseNodeIndex = i → l < nodes.size →
      handleParseNode pf ⟨data, nodes, RS, S⟩ crj i pn =
        .ok ⟨data, putNode (putNode nodes i (visited b)) l (mkNode l b.containingExpressionJump none (Ex.ofCond cpc)), RS, (S.push i).push l⟩)
    (hsecond : ∀ (crj cur : Nat) (data : BState F) (nodes : Nodes) (RS S : Array Nat) (b : BuildNode) (s1 : LState F),
      nodes[i]? = some (some b) → b.state = .initialized → b.parseNodeIndex = i → b.containingExpressionJump = cur →
      ((∃ x, b.conditionalParent = some x) → NotCond tree i) → r < nodes.size → DataEq data s1 →
      ∃ dataZ, handleParseNode pf ⟨data, nodes, RS, S⟩ crj i pn =
          .ok ⟨dataZ, putNode nodes r (bnOfRoot r (R cur s1)), RS.push r, S⟩ ∧ DataEq dataZ (tail cur s1))
    (htail_p : ∀ cur s1, (tail cur s1).pending = R cur s1 :: s1.pending)
    (hkind : ∀ cur s1, (R cur s1).kind = .code t)
    (hemit : ∀ root cur s, emit root cur e s = tail cur (emit root cur c s))
    (hrep : Rep pf tree bodies (i + 1) hi r t)
    (ih : SimT pf tree bodies lo i l c) : SimT pf tree bodies lo hi i e := by
  intro crj root cur data nodes RS S s lp cp pbn pre hdat hcur
  have hlti : i < nodes.size := lt_of_get pre.node
  have hllt : l < nodes.size := by rw [pre.size]; exact hlt
  have hrlt : r < nodes.size := by rw [pre.size]; exact hrt
  have hne : ∀ par d, lp = some (par, d) → par ≠ i ∧ par ≠ l ∧ par ≠ r := fun par d h => by
    have := (pre.par par d h).1; exact ⟨by omega, by omega, by omega⟩
  -- first visit
  have hhF := hfirst crj data nodes RS S _ pre.node rfl rfl hllt
  rw [show (mkNode i cur lp cp).containingExpressionJump = cur from rfl] at hhF
  generalize hH : putNode (putNode nodes i (visited (mkNode i cur lp cp))) l (mkNode l cur none (Ex.ofCond cpc)) = nodesH at hhF
  have hHi : nodesH[i]? = some (some (visited (mkNode i cur lp cp))) := by
    rw [← hH, get_putNode_ne (by omega), get_putNode_same hlti]
  have hHl : nodesH[l]? = some (some (mkNode l cur none (Ex.ofCond cpc))) := by rw [← hH, get_putNode_same (by simpa using hllt)]
  have hHo : ∀ y, y ≠ i → y ≠ l → nodesH[y]? = nodes[y]? := fun y h1 h2 => by
    rw [← hH, get_putNode_ne (Ne.symm h2), get_putNode_ne (Ne.symm h1)]
  have st1 := first_visit (pf := pf) (crj := crj) (data := data) (RS := RS) (S := S) pre ⟨by omega, by omega⟩ hpn hhF hHi
    (fun par d h => hHo par (hne par d h).1 (hne par d h).2.1)
  generalize hA : counted nodesH i (visited (mkNode i cur lp cp)) lp pbn = A at st1
  have hAi : A[i]? = some (some (node1 i cur lp cp)) := by rw [← hA]; exact counted_node hHi (fun p d h => (hne p d h).1)
  have hAo : ∀ y, y ≠ i → (∀ par d, lp = some (par, d) → y ≠ par) → A[y]? = nodesH[y]? := fun y h1 h2 => by
    rw [← hA]; exact counted_other h1 h2
  have hAsz : A.size = nodes.size := by rw [← hA, counted_size, ← hH]; simp
  -- the left operand
  have preC : Pre tree A lo i l cur none (Ex.ofCond cpc) pbn :=
    Pre.child cpc pbn (by rw [hAsz, pre.size]) (by rw [hAo l (by omega) (fun p d h => Ne.symm (hne p d h).2.1), hHl]) hcpc
  obtain ⟨k1, data1, C, RS1, R1, stC, hk1, hd1, hrs1, hp1, done1, _⟩ :=
    ih crj root cur data A RS (S.push i) s none (Ex.ofCond cpc) pbn preC hdat hcur
  -- second visit: the jump, the join, the root
  have hCi : C[i]? = some (some (node1 i cur lp cp)) := by
    rw [done1.frame i (by simp only [Ival]; omega) (fun _ _ h => by cases h)]; exact hAi
  have hCsz : C.size = nodes.size := by rw [done1.size, hAsz]
  obtain ⟨dataZ, hhZ, hdZ⟩ := hsecond crj cur data1 C RS1 S _ (emit root cur c s) hCi rfl rfl rfl
    (fun hx => pre.cond hx) (by rw [hCsz]; exact hrlt) hd1
  generalize hZ : putNode C r (bnOfRoot r (R cur (emit root cur c s))) = Z at hhZ
  have hZi : Z[i]? = some (some (node1 i cur lp cp)) := by rw [← hZ, get_putNode_ne (by omega)]; exact hCi
  have st2 := second_visit (lp := lp) (crj := crj) hpn hhZ hZi rfl rfl
  refine ⟨1 + k1 + 1, dataZ, Z, RS1.push r, ⟨r, i + 1, hi, R cur (emit root cur c s)⟩ :: R1, (st1.trans stC).trans st2,
    (by simp only [wsum_cons] at *; omega), by rw [hemit]; exact hdZ, by simp [hrs1], by rw [hemit, htail_p, hp1]; simp, ?_, ⟨_, hZi, rfl⟩⟩
  -- what is known about the nodes
  have doneZ : Done pf tree bodies (fun x => Ival lo i x ∨ Ival (i + 1) hi x) none pbn 0 A Z
      (⟨r, i + 1, hi, R cur (emit root cur c s)⟩ :: R1) := by
    refine ⟨by rw [← hZ]; simp [done1.size], fun x hx _ => ?_, fun _ _ h => (by cases h), fun q hq => ?_, fun x hx => ?_, ?_⟩
    · rw [← hZ, get_putNode_ne (fun e => hx (.inr (by subst e; exact hri))),
        done1.frame x (fun h => hx (.inl h)) (fun _ _ h => by cases h)]
    · rcases List.mem_cons.1 hq with rfl | hq
      · refine ⟨fun x h1 h2 => .inr ⟨h1, h2⟩, hri.1, hri.2, ?_, ?_⟩
        · rw [← hZ, get_putNode_same (by rw [hCsz]; exact hrlt)]
        · simp only [RepRoot, hkind]; exact hrep
      · obtain ⟨a, b, c', d, e'⟩ := done1.roots q hq
        refine ⟨fun x h1 h2 => .inl (a x h1 h2), b, c', ?_, e'⟩
        rw [← hZ, get_putNode_ne (by have := (a _ b c').2; omega)]
        exact d
    · rcases hx with hx | hx
      · rcases done1.cover x hx with ⟨b, hb⟩ | ⟨q, hq, h⟩
        · refine .inl ⟨b, ?_⟩
          rw [← hZ, get_putNode_ne (by have := hx.2; omega)]
          exact hb
        · exact .inr ⟨q, List.mem_cons_of_mem _ hq, h⟩
      · exact .inr ⟨_, List.mem_cons_self, hx.1, hx.2⟩
    · rw [List.pairwise_cons]
      refine ⟨fun q hq => ?_, done1.disj⟩
      obtain ⟨a, b, c', _⟩ := done1.roots q hq
      have := (a (q.hi - 1) (by omega) (by omega)).2
      exact .inr (by simp only; omega)
  refine (Done.wrap (i := i) (lp := lp) (pbn := pbn) (N := nodes) doneZ hAsz (fun y h1 h2 h3 => ?_) ⟨_, hAi⟩
    (fun h => by simp only [Ival] at h; omega) (fun par d h => ⟨?_, ?_⟩)).cong (ival_split lo hi i ⟨by omega, by omega⟩)
  · have a1 : y ≠ l := fun e => h2 (.inl (by subst e; exact hli))
    rw [hAo y h1 h3, hHo y h1 a1]
  · have := (pre.par par d h).1; simp only [Ival]; omega
  · subst h
    rw [← hA]
    refine counted_parent ?_
    rw [hHo par (hne par d rfl).1 (hne par d rfl).2.1]
    exact (pre.par par d rfl).2.1

theorem jumpIf_instr (onTrue : Bool) (ctx : Ctx F) (crj i : Nat) (pn : ParseNode) (hd : pn.definition = jumpIfDef onTrue) :
    handleParseNode pf ctx crj i pn = handleJumpIf (jumpIf onTrue) ctx i pn := by
  cases onTrue <;> simp only [jumpIfDef] at hd <;> simp only [handleParseNode, hd, jumpIf] <;> rfl

theorem sim_cond {lo hi i l r : Nat} {onTrue : Bool} {c t : Expr F} {pn : ParseNode} (hpn : tree[i]? = some pn)
    (hd : pn.definition = jumpIfDef onTrue) (hl : pn.left = some l) (hr : pn.right = some r)
    (hli : lo ≤ l ∧ l < i) (hri : i + 1 ≤ r ∧ r < hi) (hlt : l < tree.size) (hrt : r < tree.size)
    (hrep : Rep pf tree bodies (i + 1) hi r t) (ih : SimT pf tree bodies lo i l c) :
    SimT pf tree bodies lo hi i (.cond onTrue c t) := by
  have hcd : condDef pn.definition = true := by rw [hd]; cases onTrue <;> rfl
  refine sim_branch (cpc := none) (tail := fun cur s1 => condTail cur onTrue t s1)
    (R := fun cur s1 => ⟨.code t, s1.jumps.size,
      [(.jumpTo, some (((s1.pushJump 0).push (jumpIf onTrue) (some s1.jumps.size)).push .putValue none).jumps.size)], cur⟩)
    hpn hli hri hlt hrt (fun ⟨_, h⟩ => by cases h) ?_ ?_ (fun _ _ => rfl) (fun _ _ => rfl)
    (fun _ _ _ => by simp only [emit]) hrep ih
  · intro crj data nodes RS S b hb hs hpi hllt
    rw [jumpIf_instr onTrue _ crj i pn hd]
    simp only [handleJumpIf, getNode, hb, Outcome.bind, hs, hl]
    rw [setNodeIdx_ok (by simpa using hllt), show S.push b.parseNodeIndex = S.push i by rw [hpi]]
    rfl
  · intro crj cur data nodes RS S b s1 hb hs hpi hc hcp hrlt hdat
    have hcpn : b.conditionalParent = none := by
      cases hcpb : b.conditionalParent with
      | none => rfl
      | some x => have := hcp ⟨x, hcpb⟩ pn hpn; rw [hcd] at this; cases this
    refine ⟨pushToJumpTable (pushInstr (pushInstr (pushToJumpTable data 0) (jumpIf onTrue) (some (getJumpTableLen data)) (some i))
        .putValue none none) (getInstructionLen (pushInstr (pushInstr (pushToJumpTable data 0) (jumpIf onTrue)
          (some (getJumpTableLen data)) (some i)) .putValue none none)), ?_, ?_⟩
    · rw [jumpIf_instr onTrue _ crj i pn hd]
      simp only [handleJumpIf, getNode, hb, Outcome.bind, hs, hr, hcpn]
      rw [setNodeIdx_ok hrlt]
      simp only [bnOfRoot, hc, getJumpTableLen, getInstructionLen, pushInstr, pushToJumpTable, LState.push, LState.pushJump,
        hdat.jumps, Array.size_push]
    · simp only [condTail]
      have := ((((hdat.pushJump 0).push (jumpIf onTrue) (some s1.jumps.size) (some i)).push .putValue none none))
      refine ⟨?_, ?_, this.consts⟩
      · simpa [LState.pushRoot, LState.pushJump, pushToJumpTable, getJumpTableLen, hdat.jumps] using this.instrs
      · simp only [LState.pushRoot, LState.pushJump, LState.push, pushToJumpTable, pushInstr, getInstructionLen, getJumpTableLen,
          hdat.jumps, hdat.instrs]

/-- `l && r`, `l || r` -/
theorem sim_logical {lo hi i l r : Nat} {instr : Instruction} {e a b : Expr F} {pn : ParseNode} (hpn : tree[i]? = some pn)
    (hh : ∀ crj (ctx : Ctx F), handleParseNode pf ctx crj i pn = handleLogicalBinary instr ctx i pn)
    (hl : pn.left = some l) (hr : pn.right = some r)
    (hli : lo ≤ l ∧ l < i) (hri : i + 1 ≤ r ∧ r < hi) (hlt : l < tree.size) (hrt : r < tree.size) (hnc : NotCond tree l)
    (hemit : ∀ root cur s, emit root cur e s = logicalTail cur instr b (emit root cur a s))
    (hrep : Rep pf tree bodies (i + 1) hi r b) (ih : SimT pf tree bodies lo i l a) : SimT pf tree bodies lo hi i e := by
  refine sim_branch (cpc := some i) (tail := fun cur s1 => logicalTail cur instr b s1)
    (R := fun cur s1 => ⟨.code b, s1.jumps.size,
      [(.tis, none), (.jumpTo, some ((s1.pushJump 0).push instr (some s1.jumps.size)).jumps.size)], cur⟩)
    hpn hli hri hlt hrt (fun _ => hnc) ?_ ?_ (fun _ _ => rfl) (fun _ _ => rfl) hemit hrep ih
  · intro crj data nodes RS S b hb hs hpi hllt
    rw [hh]
    simp only [handleLogicalBinary, getNode, hb, Outcome.bind, hs, hl]
    rw [setNodeIdx_ok (by simpa using hllt), show S.push b.parseNodeIndex = S.push i by rw [hpi]]
    rfl
  · intro crj cur data nodes RS S b s1 hb hs hpi hc _ hrlt hdat
    refine ⟨pushToJumpTable (pushInstr (pushToJumpTable data 0) instr (some (getJumpTableLen data)) (some i))
      (getInstructionLen (pushInstr (pushToJumpTable data 0) instr (some (getJumpTableLen data)) (some i))), ?_, ?_⟩
    · rw [hh]
      simp only [handleLogicalBinary, getNode, hb, Outcome.bind, hs, hr]
      rw [setNodeIdx_ok hrlt]
      simp only [bnOfRoot, hc, getJumpTableLen, getInstructionLen, pushInstr, pushToJumpTable, LState.push, LState.pushJump,
        hdat.jumps, Array.size_push]
    · simp only [logicalTail]
      have := (hdat.pushJump 0).push instr (some s1.jumps.size) (some i)
      refine ⟨?_, ?_, this.consts⟩
      · simpa [LState.pushRoot, LState.pushJump, pushToJumpTable, getJumpTableLen, hdat.jumps] using this.instrs
      · simp only [LState.pushRoot, LState.pushJump, LState.push, pushToJumpTable, pushInstr, getInstructionLen, getJumpTableLen,
          hdat.jumps, hdat.instrs]

theorem sim_and {lo hi i l r : Nat} {a b : Expr F} {pn : ParseNode} (hpn : tree[i]? = some pn) (hd : pn.definition = .and)
    (hl : pn.left = some l) (hr : pn.right = some r)
    (hli : lo ≤ l ∧ l < i) (hri : i + 1 ≤ r ∧ r < hi) (hlt : l < tree.size) (hrt : r < tree.size) (hnc : NotCond tree l)
    (hrep : Rep pf tree bodies (i + 1) hi r b) (ih : SimT pf tree bodies lo i l a) :
    SimT pf tree bodies lo hi i (.and a b) :=
  sim_logical (instr := .and) hpn (fun _ _ => by simp only [handleParseNode, hd]) hl hr hli hri hlt hrt hnc
    (fun _ _ _ => by simp only [emit]) hrep ih

theorem sim_or {lo hi i l r : Nat} {a b : Expr F} {pn : ParseNode} (hpn : tree[i]? = some pn) (hd : pn.definition = .or)
    (hl : pn.left = some l) (hr : pn.right = some r)
    (hli : lo ≤ l ∧ l < i) (hri : i + 1 ≤ r ∧ r < hi) (hlt : l < tree.size) (hrt : r < tree.size) (hnc : NotCond tree l)
    (hrep : Rep pf tree bodies (i + 1) hi r b) (ih : SimT pf tree bodies lo i l a) :
    SimT pf tree bodies lo hi i (.or a b) :=
  sim_logical (instr := .or) hpn (fun _ _ => by simp only [handleParseNode, hd]) hl hr hli hri hlt hrt hnc
    (fun _ _ _ => by simp only [emit]) hrep ih

end Garnish.Abs.Tree
