/-
Theorems about the builder model (Garnish/Model/Build.lean).

(c) `build_appends_only` : whatever `build` returns, the instruction vector, the constants and the metadata of the
    initial state are prefixes of the result, the jump table only grows, and no jump-table entry below the initial
    length is modified (the core of C20).  Unconditional: holds for every parse tree, every fuel, every start state.
-/
import Garnish.Model.Build
namespace Garnish.Lemmas.Build
open Garnish Garnish.Gen Garnish.Model.Parser Garnish.Model.Literals Garnish.Model.Build

/-! ### partial-correctness predicate on outcomes -/

/-- `Sat P x` : if `x` is `ok a` then `P a` -/
def Sat {α : Type} (P : α → Prop) : Outcome α → Prop
  | .ok a => P a
  | _ => True

section
variable {α β : Type} {P : α → Prop}
@[simp] theorem sat_ok {a : α} : Sat P (.ok a) ↔ P a := Iff.rfl
@[simp] theorem sat_err {e : ErrClass} : Sat P (.err e : Outcome α) := trivial
@[simp] theorem sat_panic {s : String} : Sat P (.panic s : Outcome α) := trivial
@[simp] theorem sat_fuelOut : Sat P (.fuelOut : Outcome α) := trivial
@[simp] theorem sat_buildErr : Sat P (buildErr : Outcome α) := trivial
@[simp] theorem sat_dataErr : Sat P (dataErr : Outcome α) := trivial

theorem sat_bind {x : Outcome α} {f : α → Outcome β} {Q : α → Prop} {R : β → Prop}
    (hx : Sat Q x) (hf : ∀ a, Q a → Sat R (f a)) : Sat R (Outcome.bind x f) := by
  cases x <;> simp_all [Outcome.bind, Sat]

@[simp] theorem bind_ok {a : α} {f : α → Outcome β} : Outcome.bind (.ok a) f = f a := rfl
theorem bind_assoc {γ : Type} {x : Outcome α} {g : α → Outcome β} {f : β → Outcome γ} :
    Outcome.bind (Outcome.bind x g) f = Outcome.bind x (fun a => Outcome.bind (g a) f) := by
  cases x <;> rfl

theorem sat_mono {x : Outcome α} {Q : α → Prop} (hx : Sat Q x) (h : ∀ a, Q a → P a) : Sat P x := by
  cases x <;> simp_all [Sat]

theorem sat_true {x : Outcome α} : Sat (fun _ => True) x := by
  cases x <;> simp [Sat]
end

variable {F : Type}

/-! ### `Ext d0 d` : `d` extends `d0` without touching what `d0` contains -/

structure Ext (d0 d : BState F) : Prop where
  instrs : ∃ l, d.instrs.toList = d0.instrs.toList ++ l
  consts : ∃ l, d.consts.toList = d0.consts.toList ++ l
  metadata : ∃ l, d.metadata.toList = d0.metadata.toList ++ l
  jumpsSize : d0.jumps.size ≤ d.jumps.size
  jumpsLow : ∀ i, i < d0.jumps.size → d.jumps[i]? = d0.jumps[i]?

theorem Ext.refl (d : BState F) : Ext d d :=
  ⟨⟨[], by simp⟩, ⟨[], by simp⟩, ⟨[], by simp⟩, Nat.le_refl _, fun _ _ => rfl⟩

theorem ext_pushInstr {d0 d : BState F} (h : Ext d0 d) (i : Instruction) (o m : Option Nat) : Ext d0 (pushInstr d i o m) := by
  obtain ⟨⟨l1, h1⟩, h2, ⟨l3, h3⟩, h4, h5⟩ := h
  exact ⟨⟨l1 ++ [(i, o)], by simp [pushInstr, h1]⟩, h2, ⟨l3 ++ [m], by simp [pushInstr, h3]⟩, h4, h5⟩

theorem ext_pushToJumpTable {d0 d : BState F} (h : Ext d0 d) (v : Nat) : Ext d0 (pushToJumpTable d v) := by
  obtain ⟨h1, h2, h3, h4, h5⟩ := h
  refine ⟨h1, h2, h3, ?_, ?_⟩
  · simp [pushToJumpTable]; omega
  · intro i hi
    have : i < d.jumps.size := by omega
    simp [pushToJumpTable, Array.getElem?_push, Nat.ne_of_lt this, h5 i hi]

theorem ext_addConst {d0 d : BState F} (h : Ext d0 d) (v : Val F) : Ext d0 (addConst d v).1 := by
  obtain ⟨h1, ⟨l2, h2⟩, h3, h4, h5⟩ := h
  exact ⟨h1, ⟨l2 ++ [v], by simp [addConst, h2]⟩, h3, h4, h5⟩

theorem ext_parseAddSymbol {d0 d : BState F} (h : Ext d0 d) (s : List Char) : Ext d0 (parseAddSymbol d s).1 :=
  ext_addConst h _

theorem ext_setJump {d0 d d' : BState F} (h : Ext d0 d) {i v : Nat} (hi : d0.jumps.size ≤ i)
    (hs : setJump? d i v = some d') : Ext d0 d' := by
  obtain ⟨h1, h2, h3, h4, h5⟩ := h
  unfold setJump? at hs
  split at hs
  · cases hs
    refine ⟨h1, h2, h3, by simpa using h4, ?_⟩
    intro k hk
    have : i ≠ k := by omega
    simp [Array.getElem?_set, this, h5 k hk]
  · cases hs

/-! ### invariant on the build nodes: every jump index that will be patched later was allocated by this build -/

def BnOk (j0 : Nat) (n : BuildNode) : Prop :=
  (∀ j, n.jumpIndexToUpdate = some j → j0 ≤ j) ∧ (∀ c, c ∈ n.conditionalItems.toList → j0 ≤ c.jumpIndexToUpdate)

def NodesOk (j0 : Nat) (nodes : Nodes) : Prop :=
  ∀ (i : Nat) (n : BuildNode), nodes[i]? = some (some n) → BnOk j0 n

theorem bnOk_congr {j0 : Nat} {n n' : BuildNode} (h : BnOk j0 n) (h1 : n'.jumpIndexToUpdate = n.jumpIndexToUpdate)
    (h2 : n'.conditionalItems = n.conditionalItems) : BnOk j0 n' := by
  unfold BnOk at *; rw [h1, h2]; exact h

theorem bnOk_new (j0 a b : Nat) : BnOk j0 (BuildNode.new a b) := by simp [BnOk, BuildNode.new]
theorem bnOk_newWithList (j0 a b c : Nat) (d : Definition) : BnOk j0 (BuildNode.newWithList a b c d) := by
  simp [BnOk, BuildNode.newWithList, BuildNode.new]
theorem bnOk_newWithConditional (j0 a b c : Nat) : BnOk j0 (BuildNode.newWithConditional a b c) := by
  simp [BnOk, BuildNode.newWithConditional, BuildNode.new]
theorem bnOk_newWithJump {j0 j : Nat} (a b : Nat) (h : j0 ≤ j) : BnOk j0 (BuildNode.newWithJump a b j) := by
  simp [BnOk, BuildNode.newWithJump, BuildNode.new]; exact h
theorem bnOk_newWithJumpAndEnd {j0 j : Nat} (a b : Nat) (e : List Instr) (h : j0 ≤ j) :
    BnOk j0 (BuildNode.newWithJumpAndEnd a b j e) := by
  simp [BnOk, BuildNode.newWithJumpAndEnd, BuildNode.new]; exact h

theorem nodesOk_replicate (j0 n : Nat) : NodesOk j0 (Array.replicate n none) := by
  intro i b h
  simp [Array.getElem?_replicate] at h

theorem nodesOk_putNode {j0 : Nat} {nodes : Nodes} (h : NodesOk j0 nodes) (i : Nat) {n : BuildNode} (hn : BnOk j0 n) :
    NodesOk j0 (putNode nodes i n) := by
  intro k b hk
  unfold putNode at hk
  rw [Array.getElem?_setIfInBounds] at hk
  split at hk
  · split at hk
    · cases hk; exact hn
    · cases hk
  · exact h k b hk

theorem setNodeIdx_sat {j0 : Nat} {nodes : Nodes} (h : NodesOk j0 nodes) (i : Nat) {n : BuildNode} (hn : BnOk j0 n) (site : String) :
    Sat (NodesOk j0) (setNodeIdx nodes i n site) := by
  unfold setNodeIdx
  split
  · simp only [sat_ok]
    intro k b hk
    rw [Array.getElem?_set] at hk
    split at hk
    · cases hk; exact hn
    · exact h k b hk
  · simp

theorem getNode_sat {j0 : Nat} {nodes : Nodes} (h : NodesOk j0 nodes) (i : Nat) : Sat (BnOk j0) (getNode nodes i) := by
  unfold getNode
  split
  · rename_i n hn; simp only [sat_ok]; exact h i n hn
  · simp

/-- the invariant of the two work-list loops -/
def Inv (d0 : BState F) (ctx : Ctx F) : Prop := Ext d0 ctx.data ∧ NodesOk d0.jumps.size ctx.nodes


theorem ext_addConst_eq {d0 d d' : BState F} {v : Val F} {a : Nat} (heq : addConst d v = (d', a)) (h : Ext d0 d) : Ext d0 d' := by
  have := ext_addConst h v; rw [heq] at this; exact this

theorem ext_parseAddSymbol_eq {d0 d d' : BState F} {s : List Char} {a : Nat} (heq : parseAddSymbol d s = (d', a)) (h : Ext d0 d) :
    Ext d0 d' := ext_addConst_eq heq h

theorem ext_constsPush {d0 d : BState F} (h : Ext d0 d) (v : Val F) :
    Ext d0 { instrs := d.instrs, jumps := d.jumps, consts := d.consts.push v, metadata := d.metadata } := ext_addConst h v

/-- closes goals `Ext d0 <data>` where `<data>` is built from a state in the context by the push operations -/
macro "ext_tac" : tactic => `(tactic| (
  repeat (first
    | assumption
    | apply ext_pushInstr
    | apply ext_pushToJumpTable
    | apply ext_constsPush
    | refine ext_addConst_eq (by assumption) ?_
    | refine ext_parseAddSymbol_eq (by assumption) ?_)))

/-- closes goals `d0.jumps.size ≤ getJumpTableLen <data>` (needs `d0.jumps.size ≤ ctx.data.jumps.size` in the context) -/
macro "jump_tac" : tactic => `(tactic| (
  simp only [getJumpTableLen, getInstructionLen, pushToJumpTable, pushInstr, Array.size_push] <;> omega))

/-- closes goals `BnOk j0 <node>` -/
macro "bn_tac" : tactic => `(tactic| (
  first
    | assumption
    | exact bnOk_newWithList _ _ _ _ _
    | exact bnOk_newWithConditional _ _ _ _
    | (apply bnOk_newWithJump; jump_tac)
    | (apply bnOk_newWithJumpAndEnd; jump_tac)
    | exact bnOk_new _ _ _
    | (apply bnOk_congr (by assumption) <;> rfl)))

/-- closes goals `NodesOk j0 <nodes>` -/
macro "nodes_tac" : tactic => `(tactic| (
  repeat (first
    | assumption
    | (apply nodesOk_putNode (hn := by bn_tac)))))


/-- the generic script: walk through the binds / matches of a handler -/
macro "inv_tac" d:term : tactic => `(tactic| (
  repeat' (first
    | (refine sat_bind (getNode_sat (j0 := (BState.jumps $d).size) ?_ _) (fun _ _ => ?_); (· nodes_tac))
    | (refine sat_bind (setNodeIdx_sat (j0 := (BState.jumps $d).size) ?_ _ ?_ _) (fun _ _ => ?_); (· nodes_tac); (· bn_tac))
    | exact sat_buildErr
    | exact sat_panic
    | exact ⟨by ext_tac, by nodes_tac⟩
    | simp only [bind_ok, bind_assoc]
    | split)))

section handlers
variable {d0 : BState F} {ctx : Ctx F}

theorem handleUnaryPrefix_inv (h : Inv d0 ctx) (ins : Instruction) (ni : Nat) (pn : ParseNode) :
    Sat (Inv d0) (handleUnaryPrefix ins ctx ni pn) := by
  obtain ⟨hd, hn⟩ := h
  unfold handleUnaryPrefix
  inv_tac d0

theorem handleUnarySuffix_inv (h : Inv d0 ctx) (ins : Instruction) (ni : Nat) (pn : ParseNode) :
    Sat (Inv d0) (handleUnarySuffix ins ctx ni pn) := by
  obtain ⟨hd, hn⟩ := h
  unfold handleUnarySuffix
  inv_tac d0

theorem handleBinaryOperationWithPush_inv (h : Inv d0 ctx) (ins : Instruction) (lr : Bool) (ni : Nat) (pn : ParseNode) :
    Sat (Inv d0) (handleBinaryOperationWithPush ins lr ctx ni pn) := by
  obtain ⟨hd, hn⟩ := h
  unfold handleBinaryOperationWithPush
  inv_tac d0

theorem handleBinaryOperation_inv (h : Inv d0 ctx) (ins : Instruction) (ni : Nat) (pn : ParseNode) :
    Sat (Inv d0) (handleBinaryOperation ins ctx ni pn) :=
  handleBinaryOperationWithPush_inv h ins false ni pn

theorem handleList_inv (h : Inv d0 ctx) (ni : Nat) (pn : ParseNode) : Sat (Inv d0) (handleList ctx ni pn) := by
  obtain ⟨hd, hn⟩ := h
  unfold handleList
  inv_tac d0

theorem handleGroup_inv (h : Inv d0 ctx) (ni : Nat) (pn : ParseNode) : Sat (Inv d0) (handleGroup ctx ni pn) := by
  obtain ⟨hd, hn⟩ := h
  unfold handleGroup
  inv_tac d0

theorem handleSideEffect_inv (h : Inv d0 ctx) (ni : Nat) (pn : ParseNode) : Sat (Inv d0) (handleSideEffect ctx ni pn) := by
  obtain ⟨hd, hn⟩ := h
  unfold handleSideEffect
  inv_tac d0

theorem handleReapply_inv (h : Inv d0 ctx) (ni : Nat) (pn : ParseNode) : Sat (Inv d0) (handleReapply ctx ni pn) := by
  obtain ⟨hd, hn⟩ := h
  unfold handleReapply
  inv_tac d0

theorem handleSubexpression_inv (h : Inv d0 ctx) (ni : Nat) (pn : ParseNode) : Sat (Inv d0) (handleSubexpression ctx ni pn) := by
  obtain ⟨hd, hn⟩ := h
  unfold handleSubexpression
  inv_tac d0

theorem handleInfixApply_inv (h : Inv d0 ctx) (ni : Nat) (pn : ParseNode) : Sat (Inv d0) (handleInfixApply ctx ni pn) := by
  obtain ⟨hd, hn⟩ := h
  unfold handleInfixApply
  inv_tac d0

theorem handleUnaryFixApply_inv (h : Inv d0 ctx) (child : Option Nat) (ni : Nat) (pn : ParseNode) :
    Sat (Inv d0) (handleUnaryFixApply child ctx ni pn) := by
  obtain ⟨hd, hn⟩ := h
  unfold handleUnaryFixApply
  inv_tac d0

theorem handleNestedExpression_inv (h : Inv d0 ctx) (crj ni : Nat) (pn : ParseNode) :
    Sat (Inv d0) (handleNestedExpression ctx crj ni pn) := by
  obtain ⟨hd, hn⟩ := h
  have hsz := hd.jumpsSize
  unfold handleNestedExpression
  inv_tac d0

theorem handleLogicalBinary_inv (h : Inv d0 ctx) (ins : Instruction) (ni : Nat) (pn : ParseNode) :
    Sat (Inv d0) (handleLogicalBinary ins ctx ni pn) := by
  obtain ⟨hd, hn⟩ := h
  have hsz := hd.jumpsSize
  unfold handleLogicalBinary
  inv_tac d0


/-- an `add_fn` closure only appends constants -/
def AddFnOk (addFn : AddFn F) : Prop :=
  ∀ (d0 d : BState F) (pn : ParseNode), Ext d0 d → Sat (fun r => Ext d0 r.1) (addFn d pn)

theorem handleValueLike_inv (h : Inv d0 ctx) {addFn : AddFn F} (ha : AddFnOk addFn) (ins : Instruction) (ni : Nat) (pn : ParseNode) :
    Sat (Inv d0) (handleValueLike addFn ins ctx ni pn) := by
  obtain ⟨hd, hn⟩ := h
  unfold handleValueLike
  refine sat_bind (getNode_sat (j0 := d0.jumps.size) hn _) (fun node hnode => ?_)
  split
  · inv_tac d0
  · refine sat_bind (ha d0 ctx.data pn hd) (fun r hr => ?_)
    exact ⟨ext_pushInstr hr _ _ _, hn⟩

theorem handleValuePrimitive_inv (h : Inv d0 ctx) {addFn : BState F → ParseNode → Outcome (BState F × Nat)}
    (ha : ∀ (d0 d : BState F) (pn : ParseNode), Ext d0 d → Sat (fun r => Ext d0 r.1) (addFn d pn)) (ni : Nat) (pn : ParseNode) :
    Sat (Inv d0) (handleValuePrimitive addFn ctx ni pn) := by
  unfold handleValuePrimitive
  apply handleValueLike_inv h
  intro d0 d pn hd
  exact sat_bind (ha d0 d pn hd) (fun r hr => hr)

theorem handleJumpIf_inv (h : Inv d0 ctx) (ins : Instruction) (ni : Nat) (pn : ParseNode) :
    Sat (Inv d0) (handleJumpIf ins ctx ni pn) := by
  obtain ⟨hd, hn⟩ := h
  have hsz := hd.jumpsSize
  unfold handleJumpIf
  refine sat_bind (getNode_sat (j0 := d0.jumps.size) hn _) (fun node hnode => ?_)
  split
  · inv_tac d0
  · split
    · exact sat_buildErr
    · split
      · split
        · rename_i parent hparent
          have hp : BnOk d0.jumps.size parent := hn _ _ hparent
          refine ⟨by ext_tac, nodesOk_putNode hn _ ?_⟩
          refine ⟨hp.1, ?_⟩
          intro c hc
          simp only [Array.toList_push, List.mem_append, List.mem_singleton] at hc
          rcases hc with hc | hc
          · exact hp.2 c hc
          · subst hc; simp only [getJumpTableLen]; exact hsz
        · exact ⟨by ext_tac, hn⟩
      · inv_tac d0

/-! the ElseJump arm -/

theorem elseJumpItems_ok {j0 : Nat} (containing jumpToIndex : Nat) (hj : j0 ≤ jumpToIndex) :
    ∀ (items : List ConditionItem) (rootStack : Array Nat) (newItems : Array (Nat × BuildNode)),
      (∀ c, c ∈ items → j0 ≤ c.jumpIndexToUpdate) → (∀ p, p ∈ newItems.toList → BnOk j0 p.2) →
      ∀ p, p ∈ (elseJumpItems containing jumpToIndex items rootStack newItems).2.toList → BnOk j0 p.2 := by
  intro items
  induction items with
  | nil => intro rs ni _ h2; simpa [elseJumpItems] using h2
  | cons c rest ih =>
    intro rs ni h1 h2
    simp only [elseJumpItems]
    apply ih
    · intro c' hc'; exact h1 c' (List.mem_cons_of_mem _ hc')
    · intro p hp
      simp only [Array.toList_push, List.mem_append, List.mem_singleton] at hp
      rcases hp with hp | hp
      · exact h2 p hp
      · subst hp
        exact bnOk_newWithJumpAndEnd _ _ _ (h1 c List.mem_cons_self)

theorem assignNewItems_sat {j0 : Nat} : ∀ (items : List (Nat × BuildNode)) (nodes : Nodes), NodesOk j0 nodes →
    (∀ p, p ∈ items → BnOk j0 p.2) → Sat (NodesOk j0) (assignNewItems nodes items) := by
  intro items
  induction items with
  | nil => intro nodes hn _; simpa [assignNewItems] using hn
  | cons p rest ih =>
    intro nodes hn hp
    obtain ⟨index, bn⟩ := p
    simp only [assignNewItems]
    refine sat_bind (setNodeIdx_sat hn _ (hp (index, bn) List.mem_cons_self) _) (fun nodes' hn' => ?_)
    exact ih nodes' hn' (fun q hq => hp q (List.mem_cons_of_mem _ hq))

theorem handleElseJump_inv (h : Inv d0 ctx) (ni : Nat) (pn : ParseNode) : Sat (Inv d0) (handleElseJump ctx ni pn) := by
  obtain ⟨hd, hn⟩ := h
  have hsz := hd.jumpsSize
  unfold handleElseJump
  refine sat_bind (getNode_sat (j0 := d0.jumps.size) hn _) (fun node hnode => ?_)
  split
  · inv_tac d0
  · split
    · exact ⟨hd, hn⟩
    · split
      · dsimp only
        generalize heq : elseJumpItems node.containingExpressionJump (getJumpTableLen ctx.data)
          node.conditionalItems.toList ctx.rootStack #[] = r
        obtain ⟨rootStack, newItems⟩ := r
        dsimp only
        refine sat_bind (assignNewItems_sat (j0 := d0.jumps.size) _ _ hn ?_) (fun nodes hnodes => ⟨by ext_tac, hnodes⟩)
        have := elseJumpItems_ok (j0 := d0.jumps.size) node.containingExpressionJump (getJumpTableLen ctx.data)
          (by simp only [getJumpTableLen]; exact hsz) node.conditionalItems.toList ctx.rootStack #[] hnode.2 (by simp)
        rw [heq] at this
        exact this
      · exact ⟨hd, hn⟩


/-! the `add_fn` closures -/

theorem addUnit_ok (d0 d : BState F) (pn : ParseNode) (h : Ext d0 d) : Sat (fun r => Ext d0 r.1) (addUnit d pn) :=
  ext_addConst h _
theorem addFalse_ok (d0 d : BState F) (pn : ParseNode) (h : Ext d0 d) : Sat (fun r => Ext d0 r.1) (addFalse d pn) :=
  ext_addConst h _
theorem addTrue_ok (d0 d : BState F) (pn : ParseNode) (h : Ext d0 d) : Sat (fun r => Ext d0 r.1) (addTrue d pn) :=
  ext_addConst h _

variable (parseFloat : List Char → Option F)

theorem parseAddNumber_ok (d0 d : BState F) (pn : ParseNode) (h : Ext d0 d) :
    Sat (fun r => Ext d0 r.1) (parseAddNumber parseFloat d pn) := by
  unfold parseAddNumber
  exact sat_bind sat_true (fun n _ => ext_addConst h _)
theorem parseAddCharList_ok (d0 d : BState F) (pn : ParseNode) (h : Ext d0 d) :
    Sat (fun r => Ext d0 r.1) (parseAddCharList parseFloat d pn) := by
  unfold parseAddCharList
  exact sat_bind sat_true (fun n _ => ext_addConst h _)
theorem parseAddByteList_ok (d0 d : BState F) (pn : ParseNode) (h : Ext d0 d) :
    Sat (fun r => Ext d0 r.1) (parseAddByteList parseFloat d pn) := by
  unfold parseAddByteList
  exact sat_bind sat_true (fun n _ => ext_addConst h _)
theorem parseAddSymbolLiteral_ok (d0 d : BState F) (pn : ParseNode) (h : Ext d0 d) :
    Sat (fun r => Ext d0 r.1) (parseAddSymbolLiteral d pn) := by
  unfold parseAddSymbolLiteral
  split
  · exact sat_panic
  · exact ext_parseAddSymbol h _
theorem parseAddSymbolText_ok : AddFnOk (parseAddSymbolText : AddFn F) := by
  intro d0 d pn h
  exact ext_parseAddSymbol h _
theorem noOperand_ok : AddFnOk (fun (data : BState F) (_ : ParseNode) => Outcome.ok (data, (none : Option Nat))) := by
  intro d0 d pn h
  exact h

theorem handleParseNode_inv (h : Inv d0 ctx) (crj ni : Nat) (pn : ParseNode) :
    Sat (Inv d0) (handleParseNode parseFloat ctx crj ni pn) := by
  unfold handleParseNode
  split
  · exact handleValuePrimitive_inv h addUnit_ok ni pn
  · exact handleValuePrimitive_inv h addFalse_ok ni pn
  · exact handleValuePrimitive_inv h addTrue_ok ni pn
  · exact handleValuePrimitive_inv h (parseAddNumber_ok parseFloat) ni pn
  · exact handleValuePrimitive_inv h (parseAddCharList_ok parseFloat) ni pn
  · exact handleValuePrimitive_inv h (parseAddByteList_ok parseFloat) ni pn
  · exact handleValuePrimitive_inv h parseAddSymbolLiteral_ok ni pn
  · exact handleValueLike_inv h noOperand_ok _ ni pn
  · exact handleValueLike_inv h parseAddSymbolText_ok _ ni pn
  · exact handleValueLike_inv h parseAddSymbolText_ok _ ni pn
  · exact handleValueLike_inv h noOperand_ok _ ni pn
  · exact handleUnaryPrefix_inv h _ ni pn
  · exact handleUnaryPrefix_inv h _ ni pn
  · exact handleUnaryPrefix_inv h _ ni pn
  · exact handleUnaryPrefix_inv h _ ni pn
  · exact handleUnaryPrefix_inv h _ ni pn
  · exact handleUnaryPrefix_inv h _ ni pn
  · exact handleUnaryPrefix_inv h _ ni pn
  · exact handleUnarySuffix_inv h _ ni pn
  · exact handleUnarySuffix_inv h _ ni pn
  · exact handleUnarySuffix_inv h _ ni pn
  · exact handleBinaryOperation_inv h _ ni pn
  · exact handleBinaryOperation_inv h _ ni pn
  · exact handleBinaryOperation_inv h _ ni pn
  · exact handleBinaryOperation_inv h _ ni pn
  · exact handleBinaryOperation_inv h _ ni pn
  · exact handleBinaryOperation_inv h _ ni pn
  · exact handleBinaryOperation_inv h _ ni pn
  · exact handleBinaryOperation_inv h _ ni pn
  · exact handleBinaryOperation_inv h _ ni pn
  · exact handleBinaryOperation_inv h _ ni pn
  · exact handleBinaryOperation_inv h _ ni pn
  · exact handleBinaryOperation_inv h _ ni pn
  · exact handleBinaryOperation_inv h _ ni pn
  · exact handleBinaryOperation_inv h _ ni pn
  · exact handleBinaryOperation_inv h _ ni pn
  · exact handleBinaryOperation_inv h _ ni pn
  · exact handleBinaryOperation_inv h _ ni pn
  · exact handleBinaryOperation_inv h _ ni pn
  · exact handleBinaryOperation_inv h _ ni pn
  · exact handleBinaryOperation_inv h _ ni pn
  · exact handleBinaryOperation_inv h _ ni pn
  · exact handleBinaryOperation_inv h _ ni pn
  · exact handleBinaryOperation_inv h _ ni pn
  · exact handleBinaryOperation_inv h _ ni pn
  · exact handleBinaryOperation_inv h _ ni pn
  · exact handleBinaryOperation_inv h _ ni pn
  · exact handleBinaryOperation_inv h _ ni pn
  · exact handleBinaryOperation_inv h _ ni pn
  · exact handleBinaryOperation_inv h _ ni pn
  · exact handleBinaryOperationWithPush_inv h _ _ ni pn
  · exact handleBinaryOperationWithPush_inv h _ _ ni pn
  · exact handleList_inv h ni pn
  · exact handleList_inv h ni pn
  · exact handleLogicalBinary_inv h _ ni pn
  · exact handleLogicalBinary_inv h _ ni pn
  · exact handleGroup_inv h ni pn
  · exact handleSideEffect_inv h ni pn
  · exact handleNestedExpression_inv h crj ni pn
  · exact handleJumpIf_inv h _ ni pn
  · exact handleJumpIf_inv h _ ni pn
  · exact handleElseJump_inv h ni pn
  · exact handleReapply_inv h ni pn
  · exact handleSubexpression_inv h ni pn
  · exact handleSubexpression_inv h ni pn
  · exact handleUnaryFixApply_inv h _ ni pn
  · exact handleUnaryFixApply_inv h _ ni pn
  · exact handleInfixApply_inv h ni pn
  · exact sat_buildErr

/-! ### the loops -/

theorem afterHandle_sat {j0 : Nat} {nodes : Nodes} (hn : NodesOk j0 nodes) (ni : Nat) : Sat (NodesOk j0) (afterHandle nodes ni) := by
  unfold afterHandle
  split
  · rename_i node hnode
    have hb : BnOk j0 node := hn _ _ hnode
    split
    · split
      · have h1 : NodesOk j0 (putNode nodes ni { node with contributesToList := false }) :=
          nodesOk_putNode hn _ (bnOk_congr hb rfl rfl)
        refine sat_bind (getNode_sat h1 _) (fun parentNode hp => ?_)
        exact nodesOk_putNode h1 _ (bnOk_congr hp rfl rfl)
      · exact hn
    · exact hn
  · exact hn

theorem innerLoop_inv (parseTree : Array ParseNode) (crj : Nat) :
    ∀ (stepFuel : Nat) (ctx : Ctx F), Inv d0 ctx → Sat (fun r => Inv d0 r.1) (innerLoop parseFloat parseTree crj stepFuel ctx) := by
  intro stepFuel
  induction stepFuel with
  | zero => intro ctx _; exact sat_fuelOut
  | succ n ih =>
    intro ctx h
    unfold innerLoop
    split
    · exact h
    · split
      · exact sat_buildErr
      · have h' : Inv d0 { ctx with stack := ctx.stack.pop } := h
        refine sat_bind (handleParseNode_inv parseFloat h' crj _ _) (fun ctx1 h1 => ?_)
        refine sat_bind (afterHandle_sat h1.2 _) (fun nodes hnodes => ?_)
        exact ih _ ⟨h1.1, hnodes⟩

theorem rootJump_sat {data : BState F} {nodes : Nodes} (hd : Ext d0 data) (hn : NodesOk d0.jumps.size nodes) (rootIndex : Nat) :
    Sat (fun r => Ext d0 r.1) (rootJump data nodes rootIndex) := by
  unfold rootJump
  dsimp only
  split
  · rename_i node hnode
    have hb : BnOk d0.jumps.size node := hn _ _ hnode
    split
    · rename_i index hidx
      split
      · rename_i data' hset
        exact ext_setJump hd (hb.1 index hidx) hset
      · exact sat_buildErr
    · exact ext_pushToJumpTable hd _
  · exact ext_pushToJumpTable hd _

theorem pushEndInstructions_ext (last : Option Instr) (rootStart : Nat) : ∀ (l : List Instr) (data : BState F), Ext d0 data →
    Ext d0 (pushEndInstructions last rootStart data l) := by
  intro l
  induction l with
  | nil => intro data h; exact h
  | cons e rest ih =>
    intro data h
    simp only [pushEndInstructions]
    apply ih
    split
    · split
      · exact h
      · exact ext_pushInstr h _ _ _
    · exact ext_pushInstr h _ _ _

theorem rootLoop_inv (parseTree : Array ParseNode) :
    ∀ (rootFuel stepFuel : Nat) (ctx : Ctx F), Inv d0 ctx → Sat (Inv d0) (Garnish.Model.Build.rootLoop parseFloat parseTree rootFuel stepFuel ctx) := by
  intro rootFuel
  induction rootFuel with
  | zero => intro _ ctx _; exact sat_fuelOut
  | succ n ih =>
    intro stepFuel ctx h
    unfold Garnish.Model.Build.rootLoop
    split
    · exact h
    · dsimp only
      refine sat_bind (rootJump_sat h.1 h.2 _) (fun r hr => ?_)
      obtain ⟨data, crj⟩ := r
      dsimp only
      refine sat_bind (innerLoop_inv parseFloat parseTree crj stepFuel _ ⟨hr, h.2⟩) (fun r2 h2 => ?_)
      obtain ⟨ctx2, fuel2⟩ := r2
      dsimp only
      exact ih _ _ ⟨pushEndInstructions_ext _ _ _ _ h2.1, h2.2⟩

/-- (c) `build` only appends: whatever it returns, the result state extends the initial state -/
theorem buildCore_ext (fuel parseRoot : Nat) (parseTree : Array ParseNode) (data : BState F) :
    Sat (fun r => Ext data r.1) (buildCore parseFloat fuel parseRoot parseTree data) := by
  unfold buildCore
  · dsimp only
    refine sat_bind (setNodeIdx_sat (j0 := data.jumps.size) (nodesOk_replicate _ _) _ (bnOk_new _ _ _) _) (fun nodes hnodes => ?_)
    refine sat_bind (rootLoop_inv parseFloat parseTree fuel fuel _ ⟨Ext.refl data, hnodes⟩) (fun ctx hctx => ?_)
    split
    · exact hctx.1
    · exact sat_buildErr

theorem build_ext (fuel parseRoot : Nat) (parseTree : Array ParseNode) (data : BState F) :
    Sat (fun r => Ext data r.1) (build parseFloat fuel parseRoot parseTree data) := by
  unfold build
  split
  · exact ext_pushInstr (ext_pushToJumpTable (Ext.refl data) _) _ _ _
  · exact sat_bind (Q := fun _ => True) sat_true (fun _ _ => buildCore_ext parseFloat _ _ _ _)

end handlers

/-- (c), spelled out: if `build` returns `ok`, then the initial instruction vector, constants and metadata are
    prefixes of the final ones, the initial jump table is a prefix of the final jump table (entries below the
    initial length are never modified), whatever the parse tree, the fuel and the start state are. -/
theorem build_appends_only (parseFloat : List Char → Option F) (fuel parseRoot : Nat) (parseTree : Array ParseNode)
    (data data' : BState F) (entry : Nat) (h : build parseFloat fuel parseRoot parseTree data = .ok (data', entry)) :
    data.instrs.toList <+: data'.instrs.toList ∧ data.consts.toList <+: data'.consts.toList ∧
    data.metadata.toList <+: data'.metadata.toList ∧ data.jumps.size ≤ data'.jumps.size ∧
    (∀ i, i < data.jumps.size → data'.jumps[i]? = data.jumps[i]?) := by
  have := build_ext parseFloat fuel parseRoot parseTree data
  rw [h] at this
  obtain ⟨⟨l1, h1⟩, ⟨l2, h2⟩, ⟨l3, h3⟩, h4, h5⟩ := this
  exact ⟨⟨l1, h1.symm⟩, ⟨l2, h2.symm⟩, ⟨l3, h3.symm⟩, h4, h5⟩


/-! ## (a) no panic on parse trees whose links are in range -/

/-- `SatNP P x` : `x` is not a panic, and if it is `ok a` then `P a` -/
def SatNP {α : Type} (P : α → Prop) : Outcome α → Prop
  | .ok a => P a
  | .panic _ => False
  | _ => True

section
variable {α β : Type} {P : α → Prop}
@[simp] theorem satNP_ok {a : α} : SatNP P (.ok a) ↔ P a := Iff.rfl
@[simp] theorem satNP_err {e : ErrClass} : SatNP P (.err e : Outcome α) := trivial
@[simp] theorem satNP_fuelOut : SatNP P (.fuelOut : Outcome α) := trivial
@[simp] theorem satNP_buildErr : SatNP P (buildErr : Outcome α) := trivial
@[simp] theorem satNP_dataErr : SatNP P (dataErr : Outcome α) := trivial

theorem satNP_bind {x : Outcome α} {f : α → Outcome β} {Q : α → Prop} {R : β → Prop}
    (hx : SatNP Q x) (hf : ∀ a, Q a → SatNP R (f a)) : SatNP R (Outcome.bind x f) := by
  cases x <;> simp_all [Outcome.bind, SatNP]

theorem satNP_mono {x : Outcome α} {Q : α → Prop} (hx : SatNP Q x) (h : ∀ a, Q a → P a) : SatNP P x := by
  cases x <;> simp_all [SatNP]

theorem satNP_noPanic {x : Outcome α} (h : SatNP P x) (s : String) : x ≠ .panic s := by
  intro hx; subst hx; exact h

theorem satNP_of_noPanic {x : Outcome α} (h : ∀ s, x ≠ .panic s) : SatNP (fun _ => True) x := by
  cases x <;> simp_all [SatNP]
end

/-! ### the literal parsers: numbers and char lists never panic -/

section literals
variable (parseFloat : List Char → Option F)

theorem parseNumberInternal_np (input : List Char) (radix : Nat) :
    SatNP (fun _ => True) (parseNumberInternal parseFloat input radix) := by
  unfold parseNumberInternal
  dsimp only
  refine satNP_bind (Q := fun _ => True) ?_ (fun r _ => ?_)
  · repeat' (first | exact satNP_dataErr | exact trivial | split)
  · obtain ⟨radix, input⟩ := r
    dsimp only
    repeat' (first | exact satNP_dataErr | exact trivial | split)

theorem charListStep_np (q : Nat) (st : CharListState) (c : Char) : SatNP (fun _ => True) (charListStep parseFloat q st c) := by
  unfold charListStep
  repeat' (first
    | exact satNP_dataErr
    | exact trivial
    | (refine satNP_bind (parseNumberInternal_np parseFloat _ _) (fun _ _ => ?_))
    | split)

theorem charListLoop_np (q : Nat) : ∀ (l : List Char) (st : CharListState), SatNP (fun _ => True) (charListLoop parseFloat q st l) := by
  intro l
  induction l with
  | nil => intro st; exact trivial
  | cons c rest ih =>
    intro st
    simp only [charListLoop]
    exact satNP_bind (charListStep_np parseFloat q st c) (fun st' _ => ih st')

theorem parseCharList_np (input : List Char) : SatNP (fun _ => True) (parseCharList parseFloat input) := by
  unfold parseCharList
  repeat' (first
    | exact trivial
    | (refine satNP_bind (charListLoop_np parseFloat _ _ _) (fun _ _ => ?_))
    | split
    | dsimp only)

end literals

/-! ### invariant: the node vector keeps its length and every recorded conditional item names a node -/

def BnNP (n : Nat) (bn : BuildNode) : Prop := ∀ c, c ∈ bn.conditionalItems.toList → c.nodeIndex < n

def NodesNP (n : Nat) (nodes : Nodes) : Prop :=
  nodes.size = n ∧ ∀ (i : Nat) (bn : BuildNode), nodes[i]? = some (some bn) → BnNP n bn

/-- the links of one parse node are in range -/
def PnOk (n : Nat) (pn : ParseNode) : Prop :=
  (∀ l, pn.left = some l → l < n) ∧ (∀ r, pn.right = some r → r < n)

theorem bnNP_congr {n : Nat} {b b' : BuildNode} (h : BnNP n b) (h2 : b'.conditionalItems = b.conditionalItems) : BnNP n b' := by
  unfold BnNP at *; rw [h2]; exact h
theorem bnNP_new (n a b : Nat) : BnNP n (BuildNode.new a b) := by simp [BnNP, BuildNode.new]
theorem bnNP_newWithList (n a b c : Nat) (d : Definition) : BnNP n (BuildNode.newWithList a b c d) := by
  simp [BnNP, BuildNode.newWithList, BuildNode.new]
theorem bnNP_newWithConditional (n a b c : Nat) : BnNP n (BuildNode.newWithConditional a b c) := by
  simp [BnNP, BuildNode.newWithConditional, BuildNode.new]
theorem bnNP_newWithJump (n a b j : Nat) : BnNP n (BuildNode.newWithJump a b j) := by
  simp [BnNP, BuildNode.newWithJump, BuildNode.new]
theorem bnNP_newWithJumpAndEnd (n a b j : Nat) (e : List Instr) : BnNP n (BuildNode.newWithJumpAndEnd a b j e) := by
  simp [BnNP, BuildNode.newWithJumpAndEnd, BuildNode.new]

theorem nodesNP_putNode {n : Nat} {nodes : Nodes} (h : NodesNP n nodes) (i : Nat) {b : BuildNode} (hb : BnNP n b) :
    NodesNP n (putNode nodes i b) := by
  refine ⟨by simp [putNode, h.1], ?_⟩
  intro k b' hk
  unfold putNode at hk
  rw [Array.getElem?_setIfInBounds] at hk
  split at hk
  · split at hk
    · cases hk; exact hb
    · cases hk
  · exact h.2 k b' hk

theorem setNodeIdx_np {n : Nat} {nodes : Nodes} (h : NodesNP n nodes) {i : Nat} (hi : i < n) {b : BuildNode} (hb : BnNP n b)
    (site : String) : SatNP (NodesNP n) (setNodeIdx nodes i b site) := by
  unfold setNodeIdx
  split
  · simp only [satNP_ok]
    refine ⟨by simp [h.1], ?_⟩
    intro k b' hk
    rw [Array.getElem?_set] at hk
    split at hk
    · cases hk; exact hb
    · exact h.2 k b' hk
  · rename_i hlt; exact absurd (h.1 ▸ hi) hlt

theorem getNode_np {n : Nat} {nodes : Nodes} (h : NodesNP n nodes) (i : Nat) : SatNP (BnNP n) (getNode nodes i) := by
  unfold getNode
  split
  · rename_i b hb; simp only [satNP_ok]; exact h.2 i b hb
  · exact satNP_buildErr

macro "nbn_tac" : tactic => `(tactic| (
  first
    | assumption
    | exact bnNP_newWithList _ _ _ _ _
    | exact bnNP_newWithConditional _ _ _ _
    | exact bnNP_newWithJump _ _ _ _
    | exact bnNP_newWithJumpAndEnd _ _ _ _ _
    | exact bnNP_new _ _ _
    | (apply bnNP_congr (by assumption); rfl)))

macro "nnodes_tac" : tactic => `(tactic| (
  repeat (first
    | assumption
    | (apply nodesNP_putNode (hb := by nbn_tac)))))

/-- closes `i < n` for a child index `i` read from the parse node (needs `hp : PnOk n pn` in the context) -/
macro "idx_tac" hp:term : tactic => `(tactic| (
  first
    | assumption
    | exact ($hp).1 _ (by assumption)
    | exact ($hp).2 _ (by assumption)
    | exact ($hp).1 _ rfl))

macro "np_tac" n:term "," hp:term : tactic => `(tactic| (
  repeat' (first
    | (refine satNP_bind (getNode_np (n := $n) ?_ _) (fun _ _ => ?_); (· nnodes_tac))
    | (refine satNP_bind (setNodeIdx_np (n := $n) ?_ ?_ ?_ _) (fun _ _ => ?_); (· nnodes_tac); (· idx_tac $hp); (· nbn_tac))
    | exact satNP_buildErr
    | (show NodesNP $n _; nnodes_tac; done)
    | simp only [bind_ok, bind_assoc]
    | split)))

section handlersNP
variable {n : Nat} {ctx : Ctx F}

abbrev NPost (n : Nat) : Ctx F → Prop := fun c => NodesNP n c.nodes

theorem handleUnaryPrefix_np (hn : NodesNP n ctx.nodes) {pn : ParseNode} (hp : PnOk n pn) (ins : Instruction) (ni : Nat) :
    SatNP (NPost n) (handleUnaryPrefix ins ctx ni pn) := by
  unfold handleUnaryPrefix
  np_tac n, hp


theorem handleUnarySuffix_np (hn : NodesNP n ctx.nodes) {pn : ParseNode} (hp : PnOk n pn) (ins : Instruction) (ni : Nat) :
    SatNP (NPost n) (handleUnarySuffix ins ctx ni pn) := by
  unfold handleUnarySuffix
  np_tac n, hp

theorem handleBinaryOperationWithPush_np (hn : NodesNP n ctx.nodes) {pn : ParseNode} (hp : PnOk n pn) (ins : Instruction) (lr : Bool) (ni : Nat) :
    SatNP (NPost n) (handleBinaryOperationWithPush ins lr ctx ni pn) := by
  unfold handleBinaryOperationWithPush
  np_tac n, hp

theorem handleList_np (hn : NodesNP n ctx.nodes) {pn : ParseNode} (hp : PnOk n pn)  (ni : Nat) :
    SatNP (NPost n) (handleList  ctx ni pn) := by
  unfold handleList
  np_tac n, hp

theorem handleGroup_np (hn : NodesNP n ctx.nodes) {pn : ParseNode} (hp : PnOk n pn)  (ni : Nat) :
    SatNP (NPost n) (handleGroup  ctx ni pn) := by
  unfold handleGroup
  np_tac n, hp

theorem handleSideEffect_np (hn : NodesNP n ctx.nodes) {pn : ParseNode} (hp : PnOk n pn)  (ni : Nat) :
    SatNP (NPost n) (handleSideEffect  ctx ni pn) := by
  unfold handleSideEffect
  np_tac n, hp

theorem handleReapply_np (hn : NodesNP n ctx.nodes) {pn : ParseNode} (hp : PnOk n pn)  (ni : Nat) :
    SatNP (NPost n) (handleReapply  ctx ni pn) := by
  unfold handleReapply
  np_tac n, hp

theorem handleSubexpression_np (hn : NodesNP n ctx.nodes) {pn : ParseNode} (hp : PnOk n pn)  (ni : Nat) :
    SatNP (NPost n) (handleSubexpression  ctx ni pn) := by
  unfold handleSubexpression
  np_tac n, hp

theorem handleInfixApply_np (hn : NodesNP n ctx.nodes) {pn : ParseNode} (hp : PnOk n pn)  (ni : Nat) :
    SatNP (NPost n) (handleInfixApply  ctx ni pn) := by
  unfold handleInfixApply
  np_tac n, hp

theorem handleLogicalBinary_np (hn : NodesNP n ctx.nodes) {pn : ParseNode} (hp : PnOk n pn) (ins : Instruction) (ni : Nat) :
    SatNP (NPost n) (handleLogicalBinary ins ctx ni pn) := by
  unfold handleLogicalBinary
  np_tac n, hp

theorem handleBinaryOperation_np (hn : NodesNP n ctx.nodes) {pn : ParseNode} (hp : PnOk n pn) (ins : Instruction) (ni : Nat) :
    SatNP (NPost n) (handleBinaryOperation ins ctx ni pn) :=
  handleBinaryOperationWithPush_np hn hp ins false ni

theorem handleNestedExpression_np (hn : NodesNP n ctx.nodes) {pn : ParseNode} (hp : PnOk n pn) (crj ni : Nat) :
    SatNP (NPost n) (handleNestedExpression ctx crj ni pn) := by
  unfold handleNestedExpression
  np_tac n, hp

theorem handleUnaryFixApply_np (hn : NodesNP n ctx.nodes) {pn : ParseNode} {child : Option Nat}
    (hc : ∀ r, child = some r → r < n) (ni : Nat) : SatNP (NPost n) (handleUnaryFixApply child ctx ni pn) := by
  unfold handleUnaryFixApply
  have hp : (∀ r, child = some r → r < n) ∧ (∀ r, child = some r → r < n) := ⟨hc, hc⟩
  np_tac n, hp

theorem handleValueLike_np (hn : NodesNP n ctx.nodes) {pn : ParseNode} (hp : PnOk n pn) {addFn : AddFn F}
    (ha : ∀ d, SatNP (fun _ => True) (addFn d pn)) (ins : Instruction) (ni : Nat) :
    SatNP (NPost n) (handleValueLike addFn ins ctx ni pn) := by
  unfold handleValueLike
  refine satNP_bind (getNode_np hn _) (fun node hnode => ?_)
  split
  · np_tac n, hp
  · exact satNP_bind (ha ctx.data) (fun r _ => hn)

theorem handleValuePrimitive_np (hn : NodesNP n ctx.nodes) {pn : ParseNode} (hp : PnOk n pn)
    {addFn : BState F → ParseNode → Outcome (BState F × Nat)} (ha : ∀ d, SatNP (fun _ => True) (addFn d pn)) (ni : Nat) :
    SatNP (NPost n) (handleValuePrimitive addFn ctx ni pn) := by
  unfold handleValuePrimitive
  apply handleValueLike_np hn hp
  intro d
  exact satNP_bind (ha d) (fun r _ => trivial)

theorem handleJumpIf_np (hn : NodesNP n ctx.nodes) {pn : ParseNode} (hp : PnOk n pn) (ins : Instruction) (ni : Nat) :
    SatNP (NPost n) (handleJumpIf ins ctx ni pn) := by
  unfold handleJumpIf
  refine satNP_bind (getNode_np hn _) (fun node hnode => ?_)
  split
  · np_tac n, hp
  · split
    · exact satNP_buildErr
    · rename_i right hright
      split
      · split
        · rename_i parent hparent
          have hpb : BnNP n parent := hn.2 _ _ hparent
          show NodesNP n _
          refine nodesNP_putNode hn _ ?_
          intro c hc
          simp only [Array.toList_push, List.mem_append, List.mem_singleton] at hc
          rcases hc with hc | hc
          · exact hpb c hc
          · subst hc; exact hp.2 _ hright
        · exact hn
      · np_tac n, hp

theorem elseJumpItems_np (containing jumpToIndex : Nat) :
    ∀ (items : List ConditionItem) (rootStack : Array Nat) (newItems : Array (Nat × BuildNode)),
      (∀ c, c ∈ items → c.nodeIndex < n) → (∀ p, p ∈ newItems.toList → p.1 < n ∧ BnNP n p.2) →
      ∀ p, p ∈ (elseJumpItems containing jumpToIndex items rootStack newItems).2.toList → p.1 < n ∧ BnNP n p.2 := by
  intro items
  induction items with
  | nil => intro rs ni _ h2; simpa [elseJumpItems] using h2
  | cons c rest ih =>
    intro rs ni h1 h2
    simp only [elseJumpItems]
    apply ih
    · intro c' hc'; exact h1 c' (List.mem_cons_of_mem _ hc')
    · intro p hp
      simp only [Array.toList_push, List.mem_append, List.mem_singleton] at hp
      rcases hp with hp | hp
      · exact h2 p hp
      · subst hp
        exact ⟨h1 c List.mem_cons_self, bnNP_newWithJumpAndEnd _ _ _ _ _⟩

theorem assignNewItems_np : ∀ (items : List (Nat × BuildNode)) (nodes : Nodes), NodesNP n nodes →
    (∀ p, p ∈ items → p.1 < n ∧ BnNP n p.2) → SatNP (NodesNP n) (assignNewItems nodes items) := by
  intro items
  induction items with
  | nil => intro nodes hn _; simpa [assignNewItems] using hn
  | cons p rest ih =>
    intro nodes hn hp
    obtain ⟨index, bn⟩ := p
    simp only [assignNewItems]
    have := hp (index, bn) List.mem_cons_self
    refine satNP_bind (setNodeIdx_np hn this.1 this.2 _) (fun nodes' hn' => ?_)
    exact ih nodes' hn' (fun q hq => hp q (List.mem_cons_of_mem _ hq))

theorem handleElseJump_np (hn : NodesNP n ctx.nodes) {pn : ParseNode} (hp : PnOk n pn) (ni : Nat) :
    SatNP (NPost n) (handleElseJump ctx ni pn) := by
  unfold handleElseJump
  refine satNP_bind (getNode_np hn _) (fun node hnode => ?_)
  split
  · np_tac n, hp
  · split
    · exact hn
    · split
      · dsimp only
        generalize heq : elseJumpItems node.containingExpressionJump (getJumpTableLen ctx.data)
          node.conditionalItems.toList ctx.rootStack #[] = r
        obtain ⟨rootStack, newItems⟩ := r
        dsimp only
        refine satNP_bind (assignNewItems_np _ _ hn ?_) (fun nodes hnodes => hnodes)
        have := elseJumpItems_np (n := n) node.containingExpressionJump (getJumpTableLen ctx.data)
          node.conditionalItems.toList ctx.rootStack #[] hnode (by simp)
        rw [heq] at this
        exact this
      · exact hn


/-- what (a) needs of one parse node: links in range, and literal texts on which the two literal parsers
    that can panic (`&text[1..]` of a symbol, the `&input[q..len-q]` slice of a multi-quote byte list) do not -/
structure NodeSafe (parseFloat : List Char → Option F) (n : Nat) (pn : ParseNode) : Prop where
  links : PnOk n pn
  symbol : pn.definition = .symbol → dropFirstByte pn.lexToken.text ≠ none
  byteList : pn.definition = .byteList → ∀ s, parseByteList parseFloat pn.lexToken.text ≠ .panic s

variable (parseFloat : List Char → Option F)

theorem parseAddNumber_np (pn : ParseNode) (d : BState F) : SatNP (fun _ => True) (parseAddNumber parseFloat d pn) := by
  unfold parseAddNumber parseSimpleNumber
  exact satNP_bind (parseNumberInternal_np parseFloat _ _) (fun _ _ => trivial)
theorem parseAddCharList_np (pn : ParseNode) (d : BState F) : SatNP (fun _ => True) (parseAddCharList parseFloat d pn) := by
  unfold parseAddCharList
  exact satNP_bind (parseCharList_np parseFloat _) (fun _ _ => trivial)
theorem parseAddByteList_np {pn : ParseNode} (h : ∀ s, parseByteList parseFloat pn.lexToken.text ≠ .panic s) (d : BState F) :
    SatNP (fun _ => True) (parseAddByteList parseFloat d pn) := by
  unfold parseAddByteList
  exact satNP_bind (satNP_of_noPanic h) (fun _ _ => trivial)
theorem parseAddSymbolLiteral_np {pn : ParseNode} (h : dropFirstByte pn.lexToken.text ≠ none) (d : BState F) :
    SatNP (fun _ => True) (parseAddSymbolLiteral d pn) := by
  unfold parseAddSymbolLiteral
  split
  · rename_i heq; exact absurd heq h
  · exact trivial

theorem addUnit_np (pn : ParseNode) (d : BState F) : SatNP (fun _ => True) (addUnit d pn) := trivial
theorem addFalse_np (pn : ParseNode) (d : BState F) : SatNP (fun _ => True) (addFalse d pn) := trivial
theorem addTrue_np (pn : ParseNode) (d : BState F) : SatNP (fun _ => True) (addTrue d pn) := trivial
theorem parseAddSymbolText_np (pn : ParseNode) (d : BState F) : SatNP (fun _ => True) (parseAddSymbolText d pn) := trivial
theorem noOperand_np (pn : ParseNode) (d : BState F) :
    SatNP (fun _ => True) ((fun (data : BState F) (_ : ParseNode) => Outcome.ok (data, (none : Option Nat))) d pn) := trivial

theorem handleParseNode_np (hn : NodesNP n ctx.nodes) {pn : ParseNode} (hs : NodeSafe parseFloat n pn) (crj ni : Nat) :
    SatNP (NPost n) (handleParseNode parseFloat ctx crj ni pn) := by
  unfold handleParseNode
  split
  · exact handleValuePrimitive_np hn hs.links (addUnit_np pn) ni
  · exact handleValuePrimitive_np hn hs.links (addFalse_np pn) ni
  · exact handleValuePrimitive_np hn hs.links (addTrue_np pn) ni
  · exact handleValuePrimitive_np hn hs.links (parseAddNumber_np parseFloat pn) ni
  · exact handleValuePrimitive_np hn hs.links (parseAddCharList_np parseFloat pn) ni
  · exact handleValuePrimitive_np hn hs.links (parseAddByteList_np parseFloat (hs.byteList (by assumption))) ni
  · exact handleValuePrimitive_np hn hs.links (parseAddSymbolLiteral_np (hs.symbol (by assumption))) ni
  · exact handleValueLike_np hn hs.links (noOperand_np pn) _ ni
  · exact handleValueLike_np hn hs.links (parseAddSymbolText_np pn) _ ni
  · exact handleValueLike_np hn hs.links (parseAddSymbolText_np pn) _ ni
  · exact handleValueLike_np hn hs.links (noOperand_np pn) _ ni
  · exact handleUnaryPrefix_np hn hs.links _ ni
  · exact handleUnaryPrefix_np hn hs.links _ ni
  · exact handleUnaryPrefix_np hn hs.links _ ni
  · exact handleUnaryPrefix_np hn hs.links _ ni
  · exact handleUnaryPrefix_np hn hs.links _ ni
  · exact handleUnaryPrefix_np hn hs.links _ ni
  · exact handleUnaryPrefix_np hn hs.links _ ni
  · exact handleUnarySuffix_np hn hs.links _ ni
  · exact handleUnarySuffix_np hn hs.links _ ni
  · exact handleUnarySuffix_np hn hs.links _ ni
  · exact handleBinaryOperation_np hn hs.links _ ni
  · exact handleBinaryOperation_np hn hs.links _ ni
  · exact handleBinaryOperation_np hn hs.links _ ni
  · exact handleBinaryOperation_np hn hs.links _ ni
  · exact handleBinaryOperation_np hn hs.links _ ni
  · exact handleBinaryOperation_np hn hs.links _ ni
  · exact handleBinaryOperation_np hn hs.links _ ni
  · exact handleBinaryOperation_np hn hs.links _ ni
  · exact handleBinaryOperation_np hn hs.links _ ni
  · exact handleBinaryOperation_np hn hs.links _ ni
  · exact handleBinaryOperation_np hn hs.links _ ni
  · exact handleBinaryOperation_np hn hs.links _ ni
  · exact handleBinaryOperation_np hn hs.links _ ni
  · exact handleBinaryOperation_np hn hs.links _ ni
  · exact handleBinaryOperation_np hn hs.links _ ni
  · exact handleBinaryOperation_np hn hs.links _ ni
  · exact handleBinaryOperation_np hn hs.links _ ni
  · exact handleBinaryOperation_np hn hs.links _ ni
  · exact handleBinaryOperation_np hn hs.links _ ni
  · exact handleBinaryOperation_np hn hs.links _ ni
  · exact handleBinaryOperation_np hn hs.links _ ni
  · exact handleBinaryOperation_np hn hs.links _ ni
  · exact handleBinaryOperation_np hn hs.links _ ni
  · exact handleBinaryOperation_np hn hs.links _ ni
  · exact handleBinaryOperation_np hn hs.links _ ni
  · exact handleBinaryOperation_np hn hs.links _ ni
  · exact handleBinaryOperation_np hn hs.links _ ni
  · exact handleBinaryOperation_np hn hs.links _ ni
  · exact handleBinaryOperation_np hn hs.links _ ni
  · exact handleBinaryOperationWithPush_np hn hs.links _ _ ni
  · exact handleBinaryOperationWithPush_np hn hs.links _ _ ni
  · exact handleList_np hn hs.links ni
  · exact handleList_np hn hs.links ni
  · exact handleLogicalBinary_np hn hs.links _ ni
  · exact handleLogicalBinary_np hn hs.links _ ni
  · exact handleGroup_np hn hs.links ni
  · exact handleSideEffect_np hn hs.links ni
  · exact handleNestedExpression_np hn hs.links crj ni
  · exact handleJumpIf_np hn hs.links _ ni
  · exact handleJumpIf_np hn hs.links _ ni
  · exact handleElseJump_np hn hs.links ni
  · exact handleReapply_np hn hs.links ni
  · exact handleSubexpression_np hn hs.links ni
  · exact handleSubexpression_np hn hs.links ni
  · exact handleUnaryFixApply_np hn hs.links.1 ni
  · exact handleUnaryFixApply_np hn hs.links.2 ni
  · exact handleInfixApply_np hn hs.links ni
  · exact satNP_buildErr

theorem afterHandle_np {nodes : Nodes} (hn : NodesNP n nodes) (ni : Nat) : SatNP (NodesNP n) (afterHandle nodes ni) := by
  unfold afterHandle
  split
  · rename_i node hnode
    have hb : BnNP n node := hn.2 _ _ hnode
    split
    · split
      · have h1 : NodesNP n (putNode nodes ni { node with contributesToList := false }) :=
          nodesNP_putNode hn _ (bnNP_congr hb rfl)
        refine satNP_bind (getNode_np h1 _) (fun parentNode hp => ?_)
        exact nodesNP_putNode h1 _ (bnNP_congr hp rfl)
      · exact hn
    · exact hn
  · exact hn

/-- every node of the tree is safe -/
def TreeSafe (parseTree : Array ParseNode) : Prop :=
  ∀ (i : Nat) (pn : ParseNode), parseTree[i]? = some pn → NodeSafe parseFloat parseTree.size pn

theorem innerLoop_np {parseTree : Array ParseNode} (ht : TreeSafe parseFloat parseTree) (crj : Nat) :
    ∀ (stepFuel : Nat) (ctx : Ctx F), NodesNP parseTree.size ctx.nodes →
      SatNP (fun r => NodesNP parseTree.size r.1.nodes) (innerLoop parseFloat parseTree crj stepFuel ctx) := by
  intro stepFuel
  induction stepFuel with
  | zero => intro ctx _; exact satNP_fuelOut
  | succ k ih =>
    intro ctx h
    unfold innerLoop
    split
    · exact h
    · split
      · exact satNP_buildErr
      · rename_i pn hpn
        have h' : NodesNP parseTree.size ({ ctx with stack := ctx.stack.pop } : Ctx F).nodes := h
        refine satNP_bind (handleParseNode_np parseFloat h' (ht _ _ hpn) crj _) (fun ctx1 h1 => ?_)
        refine satNP_bind (afterHandle_np h1 _) (fun nodes hnodes => ?_)
        exact ih _ hnodes

theorem rootJump_np (data : BState F) (nodes : Nodes) (rootIndex : Nat) : SatNP (fun _ => True) (rootJump data nodes rootIndex) := by
  unfold rootJump
  dsimp only
  repeat' (first | exact trivial | exact satNP_buildErr | split)

theorem rootLoop_np {parseTree : Array ParseNode} (ht : TreeSafe parseFloat parseTree) :
    ∀ (rootFuel stepFuel : Nat) (ctx : Ctx F), NodesNP parseTree.size ctx.nodes →
      SatNP (fun _ => True) (Garnish.Model.Build.rootLoop parseFloat parseTree rootFuel stepFuel ctx) := by
  intro rootFuel
  induction rootFuel with
  | zero => intro _ ctx _; exact satNP_fuelOut
  | succ k ih =>
    intro stepFuel ctx h
    unfold Garnish.Model.Build.rootLoop
    split
    · exact trivial
    · dsimp only
      refine satNP_bind (rootJump_np _ _ _) (fun r _ => ?_)
      obtain ⟨data, crj⟩ := r
      dsimp only
      refine satNP_bind (innerLoop_np parseFloat ht crj stepFuel _ h) (fun r2 h2 => ?_)
      obtain ⟨ctx2, fuel2⟩ := r2
      dsimp only
      exact ih _ _ h2

end handlersNP

theorem validateChild_np (nodes : Array ParseNode) (index : Nat) (visited : Array Bool) (stack : Array Nat) (child : Nat) :
    SatNP (fun _ => True) (validateChild nodes index visited stack child) := by
  unfold validateChild
  repeat' (first | exact trivial | exact satNP_buildErr | split)

theorem validateLoop_np (nodes : Array ParseNode) : ∀ (fuel : Nat) (visited : Array Bool) (stack : Array Nat),
    SatNP (fun _ => True) (validateLoop nodes fuel visited stack) := by
  intro fuel
  induction fuel with
  | zero => intro _ _; exact satNP_fuelOut
  | succ k ih =>
    intro visited stack
    unfold validateLoop
    split
    · exact trivial
    · split
      · exact satNP_buildErr
      · dsimp only
        refine satNP_bind (Q := fun _ => True) ?_ (fun r1 _ => ?_)
        · split
          · exact trivial
          · exact validateChild_np _ _ _ _ _
        · refine satNP_bind (Q := fun _ => True) ?_ (fun r2 _ => ih _ _)
          split
          · exact trivial
          · exact validateChild_np _ _ _ _ _

theorem validateParseTree_np (root : Nat) (nodes : Array ParseNode) : SatNP (fun _ => True) (validateParseTree root nodes) := by
  unfold validateParseTree
  split
  · exact satNP_buildErr
  · split
    · exact satNP_buildErr
    · dsimp only
      refine satNP_bind (validateLoop_np _ _ _ _) (fun _ _ => ?_)
      split
      · exact trivial
      · exact satNP_buildErr

/-- (a) for the traversal itself (everything after `validate_parse_tree`): no panic on a parse
    result whose root and links are in range and whose symbol / byte-list texts avoid the two slicing panics of the
    literal layer (any fuel, any start state).
    Number and char-list literals need no hypothesis: `parseNumberInternal_np`, `parseCharList_np`. -/
theorem buildCore_no_panic (parseFloat : List Char → Option F) (fuel parseRoot : Nat) (parseTree : Array ParseNode) (data : BState F)
    (hroot : parseRoot < parseTree.size) (ht : TreeSafe parseFloat parseTree) :
    SatNP (fun _ => True) (buildCore parseFloat fuel parseRoot parseTree data) := by
  unfold buildCore
  dsimp only
  have h0 : NodesNP parseTree.size (Array.replicate parseTree.size (none : Option BuildNode)) := by
    refine ⟨by simp, ?_⟩
    intro i b h
    simp [Array.getElem?_replicate] at h
  refine satNP_bind (setNodeIdx_np h0 hroot (bnNP_new _ _ _) _) (fun nodes hnodes => ?_)
  refine satNP_bind (rootLoop_np parseFloat ht fuel fuel _ hnodes) (fun _ _ => ?_)
  split
  · exact trivial
  · exact satNP_buildErr

/-- (a) `build` never panics under the same precondition -/
theorem build_no_panic (parseFloat : List Char → Option F) (fuel parseRoot : Nat) (parseTree : Array ParseNode) (data : BState F)
    (hroot : parseRoot < parseTree.size) (ht : TreeSafe parseFloat parseTree) (s : String) :
    build parseFloat fuel parseRoot parseTree data ≠ .panic s := by
  apply satNP_noPanic (P := fun _ => True)
  unfold build
  split
  · exact trivial
  · exact satNP_bind (validateParseTree_np _ _) (fun _ _ => buildCore_no_panic parseFloat _ _ _ _ hroot ht)


/-! ## (b), partial: the validation pass terminates within its fuel

`build` runs `validateParseTree` with fuel `nodes.size + 1`; the loop never exhausts it
(`validateParseTree_terminates`): every iteration pops one index and every push marks a fresh node, so
`stack.size + #unvisited` drops by one per iteration.  Termination of the emitting traversal on validated trees is
NOT proved here (it needs the tree structure established by the validation as an invariant of the work lists);
it is covered empirically: no `FUELOUT` from the model with fuel `20·n + 100` on any generated case once
`validate_parse_tree` is in place. -/

/-- `SatT P x` : `x` is not `fuelOut`, and if it is `ok a` then `P a` -/
def SatT {α : Type} (P : α → Prop) : Outcome α → Prop
  | .ok a => P a
  | .fuelOut => False
  | _ => True

theorem satT_bind {α β : Type} {x : Outcome α} {f : α → Outcome β} {Q : α → Prop} {R : β → Prop}
    (hx : SatT Q x) (hf : ∀ a, Q a → SatT R (f a)) : SatT R (Outcome.bind x f) := by
  cases x <;> simp_all [Outcome.bind, SatT]

def countFalse (v : Array Bool) : Nat := v.toList.count false

theorem count_set_true : ∀ (l : List Bool) (i : Nat), l[i]? = some false → (l.set i true).count false + 1 = l.count false := by
  intro l
  induction l with
  | nil => intro i h; simp at h
  | cons b rest ih =>
    intro i h
    cases i with
    | zero =>
      simp at h; subst h
      simp [List.set]
    | succ k =>
      simp at h
      have := ih k h
      simp only [List.set, List.count_cons]
      omega

theorem validateChild_measure (nodes : Array ParseNode) (index : Nat) (visited : Array Bool) (stack : Array Nat) (child : Nat) :
    SatT (fun r => r.2.size + countFalse r.1 = stack.size + countFalse visited) (validateChild nodes index visited stack child) := by
  unfold validateChild
  split
  · rename_i childNode childVisited hn hv
    split
    · exact trivial
    · split
      · exact trivial
      · rename_i hnv
        have hf : childVisited = false := by simpa using hnv
        subst hf
        show (stack.push child).size + countFalse (visited.setIfInBounds child true) = _
        have hl : visited.toList[child]? = some false := by simpa using hv
        have := count_set_true visited.toList child hl
        simp only [countFalse, Array.toList_setIfInBounds, Array.size_push]
        omega
  · exact trivial

theorem back_some_size_pos {α : Type} {a : Array α} {x : α} (h : a.back? = some x) : 0 < a.size := by
  rcases Nat.eq_zero_or_pos a.size with h0 | h0
  · have : a = #[] := Array.eq_empty_of_size_eq_zero h0
    subst this
    simp at h
  · exact h0

theorem validateLoop_terminates (nodes : Array ParseNode) : ∀ (fuel : Nat) (visited : Array Bool) (stack : Array Nat),
    stack.size + countFalse visited < fuel → SatT (fun _ => True) (validateLoop nodes fuel visited stack) := by
  intro fuel
  induction fuel with
  | zero => intro _ _ h; omega
  | succ k ih =>
    intro visited stack h
    unfold validateLoop
    split
    · exact trivial
    · rename_i index hback
      have hpos := back_some_size_pos hback
      split
      · exact trivial
      · dsimp only
        refine satT_bind (Q := fun r => r.2.size + countFalse r.1 = stack.pop.size + countFalse visited) ?_ (fun r1 h1 => ?_)
        · split
          · exact rfl
          · exact validateChild_measure _ _ _ _ _
        · obtain ⟨v1, s1⟩ := r1
          dsimp only at h1 ⊢
          refine satT_bind (Q := fun r => r.2.size + countFalse r.1 = s1.size + countFalse v1) ?_ (fun r2 h2 => ?_)
          · split
            · exact rfl
            · exact validateChild_measure _ _ _ _ _
          · obtain ⟨v2, s2⟩ := r2
            dsimp only at h2 ⊢
            apply ih
            have : stack.pop.size = stack.size - 1 := by simp
            omega

theorem countFalse_le (v : Array Bool) : countFalse v ≤ v.size := by
  unfold countFalse
  have := List.count_le_length (a := false) (l := v.toList)
  simpa using this

/-- (b), partial: `validate_parse_tree` never runs out of its fuel `nodes.size + 1` -/
theorem validateParseTree_terminates (root : Nat) (nodes : Array ParseNode) : validateParseTree root nodes ≠ .fuelOut := by
  have key : SatT (fun _ => True) (validateParseTree root nodes) := by
    unfold validateParseTree
    split
    · exact trivial
    · rename_i node hroot
      split
      · exact trivial
      · dsimp only
        refine satT_bind (Q := fun _ => True) (validateLoop_terminates nodes _ _ _ ?_) (fun _ _ => ?_)
        · -- one entry on the stack; the root is marked, so at most size - 1 unvisited nodes remain
          have hlt : root < nodes.size := by
            rcases Nat.lt_or_ge root nodes.size with h | h
            · exact h
            · simp [Array.getElem?_eq_none h] at hroot
          have hl : (Array.replicate nodes.size false).toList[root]? = some false := by
            simp [hlt]
          have h1 := count_set_true (Array.replicate nodes.size false).toList root hl
          have h2 := countFalse_le (Array.replicate nodes.size false)
          simp only [countFalse, Array.toList_setIfInBounds] at *
          simp only [Array.size_replicate] at h2
          simp only [List.size_toArray, List.length_cons, List.length_nil]
          omega
        · split
          · exact trivial
          · exact trivial
  intro h
  rw [h] at key
  exact key

/-! ## what a successful `validate_parse_tree` establishes -/

/-- `c` is a proper child of node `i`: it exists and names `i` as its parent -/
def ChildOk (tree : Array ParseNode) (G : Nat → Prop) (i : Nat) (child : Option Nat) : Prop :=
  ∀ c, child = some c → G c ∧ ∃ cn, tree[c]? = some cn ∧ cn.parent = some i

/-- node `i` exists and both its links are proper children inside `G` -/
def Closed (tree : Array ParseNode) (G : Nat → Prop) (i : Nat) : Prop :=
  ∃ pn, tree[i]? = some pn ∧ ChildOk tree G i pn.left ∧ ChildOk tree G i pn.right ∧
    ∀ a b, pn.left = some a → pn.right = some b → a ≠ b

theorem childOk_none {tree : Array ParseNode} {G : Nat → Prop} {i : Nat} {child : Option Nat} (h : child = none) :
    ChildOk tree G i child := fun c hc => by rw [h] at hc; cases hc

structure Validated (root : Nat) (tree : Array ParseNode) (G : Nat → Prop) : Prop where
  rootIn : G root
  rootParent : ∃ pn : ParseNode, tree[root]? = some pn ∧ pn.parent = none
  closed : ∀ i, G i → Closed tree G i
  rest : ∀ (i : Nat) (pn : ParseNode), tree[i]? = some pn → ¬ G i → pn.definition = .subexpression

def Vis (v : Array Bool) (i : Nat) : Prop := v[i]? = some true

theorem vis_set {v : Array Bool} {c i : Nat} (h : Vis v i) : Vis (v.setIfInBounds c true) i := by
  unfold Vis at *
  rw [Array.getElem?_setIfInBounds]
  split
  · rename_i hci
    subst hci
    have : c < v.size := by
      rcases Nat.lt_or_ge c v.size with h1 | h1
      · exact h1
      · rw [Array.getElem?_eq_none h1] at h; cases h
    simp [this]
  · exact h

theorem vis_set_self {v : Array Bool} {c : Nat} {b : Bool} (h : v[c]? = some b) : Vis (v.setIfInBounds c true) c := by
  unfold Vis
  rw [Array.getElem?_setIfInBounds]
  have : c < v.size := by
    rcases Nat.lt_or_ge c v.size with h1 | h1
    · exact h1
    · rw [Array.getElem?_eq_none h1] at h; cases h
  simp [this]

theorem vis_of_set {v : Array Bool} {c i : Nat} (h : Vis (v.setIfInBounds c true) i) : i = c ∨ Vis v i := by
  unfold Vis at *
  rw [Array.getElem?_setIfInBounds] at h
  split at h
  · rename_i hci; exact Or.inl hci.symm
  · exact Or.inr h

theorem closed_mono {tree : Array ParseNode} {G G' : Nat → Prop} (h : ∀ i, G i → G' i) {i : Nat} (hc : Closed tree G i) :
    Closed tree G' i := by
  obtain ⟨pn, h1, h2, h3, h4⟩ := hc
  exact ⟨pn, h1, fun c hc => ⟨h c (h2 c hc).1, (h2 c hc).2⟩, fun c hc => ⟨h c (h3 c hc).1, (h3 c hc).2⟩, h4⟩

/-- what one successful `validateChild` does -/
theorem validateChild_spec (nodes : Array ParseNode) (index : Nat) (visited : Array Bool) (stack : Array Nat) (child : Nat) :
    Sat (fun r => (∃ cn, nodes[child]? = some cn ∧ cn.parent = some index) ∧ visited[child]? = some false ∧
      r = (visited.setIfInBounds child true, stack.push child)) (validateChild nodes index visited stack child) := by
  unfold validateChild
  split
  · rename_i cn cv hn hv
    split
    · exact sat_buildErr
    · rename_i hp
      split
      · exact sat_buildErr
      · rename_i hcv
        refine ⟨⟨cn, hn, by simpa using hp⟩, ?_, rfl⟩
        rw [hv]; simp at hcv; rw [hcv]
  · exact sat_buildErr

/-- the loop invariant: every visited node is still on the stack or closed -/
def VInv (tree : Array ParseNode) (visited : Array Bool) (stack : Array Nat) : Prop :=
  ∀ i, Vis visited i → i ∈ stack.toList ∨ Closed tree (Vis visited) i

theorem mem_of_back {stack : Array Nat} {index i : Nat} (hb : stack.back? = some index) (hi : i ∈ stack.toList) :
    i = index ∨ i ∈ stack.pop.toList := by
  have hpos := back_some_size_pos hb
  have hne : stack.toList ≠ [] := by
    intro h; have : stack.size = 0 := by simpa using congrArg List.length h
    omega
  have hlast : stack.toList.getLast? = some index := by rw [Array.getLast?_toList]; exact hb
  rw [List.getLast?_eq_some_getLast hne] at hlast
  have hl : stack.toList.getLast hne = index := by simpa using hlast
  have := List.dropLast_concat_getLast hne
  rw [hl] at this
  rw [← this] at hi
  simp only [List.mem_append, List.mem_singleton] at hi
  rcases hi with hi | hi
  · exact Or.inr (by simpa using hi)
  · exact Or.inl hi

theorem validateLoop_closed (tree : Array ParseNode) : ∀ (fuel : Nat) (visited : Array Bool) (stack : Array Nat),
    VInv tree visited stack →
    Sat (fun v => (∀ i, Vis visited i → Vis v i) ∧ v.size = visited.size ∧ ∀ i, Vis v i → Closed tree (Vis v) i)
      (validateLoop tree fuel visited stack) := by
  intro fuel
  induction fuel with
  | zero => intro _ _ _; exact sat_fuelOut
  | succ k ih =>
    intro visited stack hinv
    unfold validateLoop
    split
    · rename_i hnone
      refine ⟨fun _ h => h, rfl, fun i hi => ?_⟩
      rcases hinv i hi with h1 | h1
      · have hsz : stack.size = 0 := by
          rcases Nat.eq_zero_or_pos stack.size with h0 | h0
          · exact h0
          · have : stack.back? = some stack[stack.size - 1] := by
              simp [Array.back?, Array.getElem?_eq_getElem (show stack.size - 1 < stack.size by omega)]
            rw [this] at hnone; cases hnone
        have : stack.toList = [] := by
          apply List.eq_nil_of_length_eq_zero; simpa using hsz
        rw [this] at h1; cases h1
      · exact h1
    · rename_i index hback
      split
      · exact sat_buildErr
      · rename_i node hnode
        dsimp only
        -- left child
        refine sat_bind (Q := fun r => (∀ i, Vis visited i → Vis r.1 i) ∧ r.1.size = visited.size ∧
            ChildOk tree (Vis r.1) index node.left ∧
            (∀ i, Vis r.1 i → Vis visited i ∨ i ∈ r.2.toList) ∧ (∀ i, i ∈ stack.pop.toList → i ∈ r.2.toList)) ?_ (fun r1 h1 => ?_)
        · split
          · rename_i hl
            exact ⟨fun _ h => h, rfl, childOk_none hl, fun i hi => Or.inl hi, fun i hi => hi⟩
          · rename_i c hl
            refine sat_mono (validateChild_spec tree index visited stack.pop c) (fun r hr => ?_)
            obtain ⟨⟨cn, hcn, hpar⟩, hvf, hr⟩ := hr
            subst hr
            refine ⟨fun i hi => vis_set hi, by simp, fun c' hc' => ?_, fun i hi => ?_, fun i hi => ?_⟩
            · rw [hl] at hc'; cases hc'
              exact ⟨vis_set_self hvf, cn, hcn, hpar⟩
            · rcases vis_of_set hi with h | h
              · subst h; exact Or.inr (by simp)
              · exact Or.inl h
            · simp only [Array.toList_push, List.mem_append]; exact Or.inl hi
        · obtain ⟨v1, s1⟩ := r1
          obtain ⟨m1, sz1, cl1, nw1, st1⟩ := h1
          dsimp only at m1 sz1 cl1 nw1 st1 ⊢
          refine sat_bind (Q := fun r => (∀ i, Vis v1 i → Vis r.1 i) ∧ r.1.size = v1.size ∧
              ChildOk tree (Vis r.1) index node.right ∧
              (∀ i, Vis r.1 i → Vis v1 i ∨ i ∈ r.2.toList) ∧ (∀ i, i ∈ s1.toList → i ∈ r.2.toList) ∧
              (∀ a b, node.left = some a → node.right = some b → a ≠ b)) ?_ (fun r2 h2 => ?_)
          · split
            · rename_i hl
              exact ⟨fun _ h => h, rfl, childOk_none hl, fun i hi => Or.inl hi, fun i hi => hi,
                fun a b _ hb => by rw [hl] at hb; cases hb⟩
            · rename_i c hl
              refine sat_mono (validateChild_spec tree index v1 s1 c) (fun r hr => ?_)
              obtain ⟨⟨cn, hcn, hpar⟩, hvf, hr⟩ := hr
              subst hr
              refine ⟨fun i hi => vis_set hi, by simp, fun c' hc' => ?_, fun i hi => ?_, fun i hi => ?_, fun a b ha hb => ?_⟩
              rotate_left 3
              · rw [hl] at hb; cases hb
                intro hab; subst hab
                have := (cl1 a ha).1
                unfold Vis at this
                rw [hvf] at this; cases this
              · rw [hl] at hc'; cases hc'
                exact ⟨vis_set_self hvf, cn, hcn, hpar⟩
              · rcases vis_of_set hi with h | h
                · subst h; exact Or.inr (by simp)
                · exact Or.inl h
              · simp only [Array.toList_push, List.mem_append]; exact Or.inl hi
          · obtain ⟨v2, s2⟩ := r2
            obtain ⟨m2, sz2, cl2, nw2, st2, dist⟩ := h2
            dsimp only at m2 sz2 cl2 nw2 st2 ⊢
            -- the invariant for the next iteration
            have hinv2 : VInv tree v2 s2 := by
              intro i hi
              rcases nw2 i hi with h | h
              · rcases nw1 i h with h' | h'
                · rcases hinv i h' with h'' | h''
                  · rcases mem_of_back hback h'' with h3 | h3
                    · subst h3
                      exact Or.inr ⟨node, hnode, fun c hc => ⟨m2 c (cl1 c hc).1, (cl1 c hc).2⟩, cl2, dist⟩
                    · exact Or.inl (st2 i (st1 i h3))
                  · exact Or.inr (closed_mono (fun j hj => m2 j (m1 j hj)) h'')
                · exact Or.inl (st2 i h')
              · exact Or.inl h
            refine sat_mono (ih v2 s2 hinv2) (fun v hv => ?_)
            exact ⟨fun i hi => hv.1 i (m2 i (m1 i hi)), by rw [hv.2.1, sz2, sz1], hv.2.2⟩


/-- (C03 a) a successful `validate_parse_tree` establishes: the root exists and has no parent; the set `G` of nodes it
marked contains the root and is closed under `left`/`right`, every such link is in range and the child names the node
as its parent (hence no node of `G` has two parents); every node outside `G` is a `Subexpression` -/
theorem validateParseTree_ok {root : Nat} {tree : Array ParseNode} (h : validateParseTree root tree = .ok ()) :
    ∃ G : Nat → Prop, Validated root tree G := by
  unfold validateParseTree at h
  split at h
  · cases h
  · rename_i node hnode
    split at h
    · cases h
    · rename_i hparent
      dsimp only at h
      have hlt : root < tree.size := by
        rcases Nat.lt_or_ge root tree.size with h1 | h1
        · exact h1
        · rw [Array.getElem?_eq_none h1] at hnode; cases hnode
      have hroot0 : (Array.replicate tree.size false)[root]? = some false := by simp [hlt]
      have hinv0 : VInv tree ((Array.replicate tree.size false).setIfInBounds root true) #[root] := by
        intro i hi
        rcases vis_of_set hi with h1 | h1
        · subst h1; exact Or.inl (by simp)
        · unfold Vis at h1
          rw [Array.getElem?_replicate] at h1
          split at h1 <;> cases h1
      have key := validateLoop_closed tree (tree.size + 1) _ _ hinv0
      cases hloop : validateLoop tree (tree.size + 1) ((Array.replicate tree.size false).setIfInBounds root true) #[root] with
      | ok v =>
        rw [hloop] at key h
        obtain ⟨k1, k2, k3⟩ := key
        simp only [bind_ok] at h
        split at h
        · rename_i hall
          refine ⟨Vis v, k1 root (vis_set_self hroot0), ⟨node, hnode, hparent⟩, k3, ?_⟩
          intro i pn hpn hnot
          have hi : i < tree.size := by
            rcases Nat.lt_or_ge i tree.size with h1 | h1
            · exact h1
            · rw [Array.getElem?_eq_none h1] at hpn; cases hpn
          have hvsz : v.size = tree.size := by rw [k2]; simp
          have hvi : v.toList[i]? = some v[i] := by
            simp [hvsz, hi]
          rw [List.all_eq_true] at hall
          have hmem : (pn, v[i]) ∈ tree.toList.zip v.toList := by
            rw [List.mem_iff_getElem?]
            exact ⟨i, List.getElem?_zip_eq_some.2 ⟨by simpa using hpn, hvi⟩⟩
          have := hall _ hmem
          simp only [Bool.or_eq_true, beq_iff_eq] at this
          rcases this with h1 | h1
          · exact absurd (show Vis v i by unfold Vis; simp [hvsz, hi, h1]) hnot
          · exact h1
        · cases h
      | err e => rw [hloop] at h; cases h
      | panic s => rw [hloop] at h; cases h
      | fuelOut => rw [hloop] at h; cases h

/-- corollary: after a successful validation the root index and every link of a marked node are in range -/
theorem validateParseTree_links {root : Nat} {tree : Array ParseNode} (h : validateParseTree root tree = .ok ()) :
    root < tree.size ∧ ∃ G : Nat → Prop, G root ∧
      ∀ i, G i → ∃ pn, tree[i]? = some pn ∧ (∀ c, pn.left = some c → c < tree.size ∧ G c) ∧
        (∀ c, pn.right = some c → c < tree.size ∧ G c) := by
  obtain ⟨G, hG⟩ := validateParseTree_ok h
  have lt_of_some : ∀ {i : Nat} {pn : ParseNode}, tree[i]? = some pn → i < tree.size := by
    intro i pn hp
    rcases Nat.lt_or_ge i tree.size with h1 | h1
    · exact h1
    · rw [Array.getElem?_eq_none h1] at hp; cases hp
  obtain ⟨pn, hpn, _⟩ := hG.rootParent
  refine ⟨lt_of_some hpn, G, hG.rootIn, fun i hi => ?_⟩
  obtain ⟨pn, h1, h2, h3, _⟩ := hG.closed i hi
  refine ⟨pn, h1, fun c hc => ?_, fun c hc => ?_⟩
  · obtain ⟨g, cn, hcn, _⟩ := h2 c hc; exact ⟨lt_of_some hcn, g⟩
  · obtain ⟨g, cn, hcn, _⟩ := h3 c hc; exact ⟨lt_of_some hcn, g⟩


end Garnish.Lemmas.Build
