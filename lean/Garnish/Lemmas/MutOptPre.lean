/-
`optimize` on a `WFq` store, preparations: the index phase names nodes, what the re-pointing loop does to the cells,
and the retained prefix of the compacted block.
-/
import Garnish.Lemmas.MutProv
import Garnish.Lemmas.MutSet
import Garnish.Lemmas.OptimizeResultWF2
set_option maxHeartbeats 2000000
namespace Garnish.BasicOpt
open Garnish

/-- the index phase of `optimize` on a `WFq` store names nodes only -/
theorem indexPhase_preq {s : Store} {roots : List Nat} {s5 : Store} (hwf : WFq s) (hroots : rootsOK s roots = true)
    (h : IndexPhase s roots s5) : FreshPre s.cells s5 s.cells.size s5.cells.size := by
  obtain ⟨s1, s2, s3, s4, h1, h2, h3, h4, h5⟩ := h
  have hkn := hwf.kidsNodes
  have hin0 : ItemsNodes s.cells s.cells.size s := ⟨fun _ _ h => h, fun j h1 h2 => by omega⟩
  obtain ⟨i1, z1⟩ := indexSymbols_nodes (Nat.le_refl _) hkn _ _ _ _ hin0 (Nat.le_refl _) (by
    intro c hc sy d hcd
    subst hcd
    have := hwf.syms _ hc
    exact node_shape (by simpa [symOK] using this)) h1
  obtain ⟨i2, z2⟩ := indexOpt_nodes (Nat.le_refl _) hkn i1 z1 (head_shape hwf.reg) h2
  obtain ⟨i3, z3⟩ := indexOpt_nodes (Nat.le_refl _) hkn i2 (by omega) (head_shape (headSV_node hwf.val)) h3
  obtain ⟨i4, z4⟩ := indexOpt_nodes (Nat.le_refl _) hkn i3 (by omega) (head_shape hwf.frm) h4
  obtain ⟨i5, z5⟩ := indexRoots_nodes (Nat.le_refl _) hkn _ _ _ i4 (by omega) (by
    intro r hr
    simp only [rootsOK, List.all_eq_true] at hroots
    exact node_shape (hroots r hr)) h5
  refine ⟨hkn, ?_⟩
  intro j hj1 hj2 o ho
  obtain ⟨o', sh, g1, g2⟩ := i5.items j hj1 hj2
  rw [ho] at g1
  simp only [Option.some.injEq, Cell.cloneItem.injEq] at g1
  subst g1; exact ⟨sh, g2⟩

/-- the store the index phase returns still holds the original cells -/
theorem indexPhase_agree {s : Store} {roots : List Nat} {s5 : Store} (h : IndexPhase s roots s5) :
    ∀ (i : Nat) (c : Cell), s.cells[i]? = some c → s5.cells[i]? = some c := by
  obtain ⟨s1, s2, s3, s4, h1, h2, h3, h4, h5⟩ := h
  have e15 : Ext s.cells.size s s5 :=
    ((((indexSymbols_ext _ _ _ _ _ h1).trans (indexOpt_ext _ h2)).trans (indexOpt_ext _ h3)).trans
      (indexOpt_ext _ h4)).trans (indexRoots_ext _ _ _ _ h5)
  intro i c hc
  have hi : i < s.cells.size := by
    rcases Nat.lt_or_ge i s.cells.size with h | h
    · exact h
    · rw [Array.getElem?_eq_none h] at hc; cases hc
  rw [e15.keep i hi hi]; exact hc

/-- **what the re-pointing loop does**: it leaves every cell that is not a retained cell of the input-value chain
as it was, and re-points the retained chain cells along links -/
theorem repoint_facts {s s6 sR : Store} {cA : Nat} (hwf : WFq s)
    (hagree : ∀ (i : Nat) (c : Cell), s.cells[i]? = some c → s6.cells[i]? = some c)
    (hret6 : s6.retention = s.retention) (hr : s.retention ≤ s.cells.size)
    (hR : Store.repointLoop (s6.start + s.cells.size) (s6.start + cA) s.cells.size s6 s.currentValue = .ok sR) :
    Ext 0 s6 sR ∧ sR.cells.size = s6.cells.size ∧
      (∀ j, ¬ (OnHead s.cells s.currentValue j ∧ j < s.retention) → sR.cells[j]? = s6.cells[j]?) ∧
      (∀ j, OnHead s.cells s.currentValue j → j < s.retention → Repointed s.cells s6 sR s.cells.size cA j) := by
  cases hcv : s.currentValue with
  | none =>
    rw [hcv] at hR
    have : sR = s6 := by
      cases hsz : s.cells.size <;> (rw [hsz] at hR; simp only [Store.repointLoop, Outcome.ok.injEq] at hR; exact hR.symm)
    subst this
    exact ⟨Ext.refl _ _, rfl, fun _ _ => rfl, fun j ⟨h, hh', _⟩ => by cases hh'⟩
  | some hd =>
    rw [hcv] at hR
    have hsv : svAt s.cells hd = true := by
      have := hwf.val
      rw [hcv] at this
      exact this
    have hlt : hd < s.cells.size := svAt_lt hsv
    obtain ⟨eA, eB, eC, eD⟩ := repointLoop_spec hwf.chain (c0 := s.cells.size) (cA := cA) hr
      s.cells.size s6 sR hd (by omega) hlt hsv
      (fun j hj => by
        have hjl : j < s.cells.size := by omega
        obtain ⟨c, hc⟩ : ∃ c, s.cells[j]? = some c := ⟨s.cells[j], by simp [hjl]⟩
        rw [hc]; exact hagree j c hc) hret6 hR
    refine ⟨eA, eB, ?_, ?_⟩
    · intro j hj
      exact eC j (fun ⟨h1, h2⟩ => hj ⟨⟨hd, rfl, h1⟩, h2⟩)
    · intro j ⟨h', hh', hch⟩ hjr
      cases hh'
      exact eD j hch hjr

theorem onHead_lt {cells : Array Cell} {o : Option Nat} {j : Nat} (h : OnHead cells o j) : j < cells.size := by
  obtain ⟨hd, _, hch⟩ := h
  exact svAt_lt hch.sv

/-- `(A ++ B).extract 0 A.size = A` -/
theorem extract_append_self (A B : Array Cell) : (A ++ B).extract 0 A.size = A := by
  rw [extract_append_prefix A B (Nat.le_refl _)]
  apply Array.ext_getElem?
  intro i
  rw [Array.getElem?_extract]
  by_cases hi : i < A.size
  · simp [hi]
  · simp [hi, Array.getElem?_eq_none (Nat.le_of_not_gt hi)]

end Garnish.BasicOpt
