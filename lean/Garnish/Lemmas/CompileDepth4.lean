/-
C06 static half on compiled code, part 4: the instructions after a condition (`JumpIf; PutValue`), after the left
operand of `&&`/`||` (`And`/`Or`) and the membership facts about the (root, depth) pairs they push.
-/
import Garnish.Lemmas.CompileDepth3
namespace Garnish.Abs
open Garnish Gen Garnish.Spec Garnish.Props.C06

variable {F : Type} {sF : LState F}

theorem jumps_some {sF : LState F} {j : Nat} (h : j < sF.jumps.size) : ∃ tb, sF.jumps[j]? = some tb :=
  ⟨sF.jumps[j], Array.getElem?_eq_getElem h⟩

theorem condTail_edges {cur : Nat} {onTrue : Bool} {t : Expr F} {s1 sM : LState F} {lo k : Nat}
    (hal : Al s1) (hk : s1.dep = k + 1) (hlo : lo ≤ s1.jumps.size)
    (hw : W2 lo (condTail cur onTrue t s1) sM) (hev : Ev sM sF) (had : AppD sM sF)
    (hroots : ∀ p ∈ sM.pending.zip sM.pendDep, lo ≤ p.1.patch → RootD sF p.1 p.2)
    (hnext : sF.instrs.size ≤ s1.instrs.size + 2 ∨ sF.depths[s1.instrs.size + 2]? = some (k + 1)) :
    EdgeOK sF s1.instrs.size ∧ EdgeOK sF (s1.instrs.size + 1) ∧ sF.depths[s1.instrs.size]? = some (k + 1) := by
  obtain ⟨hwi, hwa⟩ := hw
  simp only [condTail] at hwi hwa
  have hA := hwi.1
  -- the pushed root and its depth
  have hpair := hwa.keepZ _ (by
    simp only [pushJump_pending, pushRoot_pending, pushJump_pendDep, LState.pushRoot, List.zip_cons_cons]
    exact List.mem_cons_self)
  have hR := hroots _ hpair hlo
  have hdepR : ((((s1.pushJump 0).push (jumpIf onTrue) (some s1.jumps.size)).push .putValue none).dep - 1) = k := by
    cases onTrue <;> simp [jumpIf, fall, hk]
  simp only [hdepR] at hR
  -- instructions and depths
  have i1 := instr_at (t := s1.pushJump 0) (i := jumpIf onTrue) (d := some s1.jumps.size)
    ((((App.push _ _ _).trans (App.pushRoot _ _)).trans (App.pushJump _ _)).trans hA) hev
  have i2 := instr_at (t := (s1.pushJump 0).push (jumpIf onTrue) (some s1.jumps.size)) (i := .putValue) (d := none)
    (((App.pushRoot _ _).trans (App.pushJump _ _)).trans hA) hev
  have d1 := depth_at (t := s1.pushJump 0) (i := jumpIf onTrue) (d := some s1.jumps.size) (hal.pushJump 0)
    ((((AppD.push _ _ _).trans (AppD.pushRoot _ _)).trans (AppD.pushJump _ _)).trans hwa) had
  have d2 := depth_at (t := (s1.pushJump 0).push (jumpIf onTrue) (some s1.jumps.size)) (i := .putValue) (d := none)
    ((hal.pushJump 0).push _ _) (((AppD.pushRoot _ _).trans (AppD.pushJump _ _)).trans hwa) had
  have hd2 : ((s1.pushJump 0).push (jumpIf onTrue) (some s1.jumps.size)).dep = k := by
    cases onTrue <;> simp [jumpIf, fall, hk]
  simp only [pushJump_instrs, push_isize, pushJump_dep, hk, hd2] at i1 i2 d1 d2
  have hjlt : s1.jumps.size < sF.jumps.size := by
    have := hA.jsize; have := hev.jsize; simp at *; omega
  obtain ⟨tb, htb⟩ := jumps_some hjlt
  refine ⟨?_, ?_, d1⟩
  · refine .mk d1 (edges_jumpIf i1 htb) (fun e hm => ?_)
    simp only [List.mem_cons, List.not_mem_nil, or_false] at hm
    rcases hm with rfl | rfl
    · exact hR tb htb
    · by_cases hs : sF.instrs.size ≤ s1.instrs.size + 1
      · exact .inl hs
      · exact .inr d2
  · exact .next d2 (edges_push1 i2 (.inr (.inl rfl))) hnext

theorem logicalTail_edges {cur : Nat} {instr : Instruction} {r : Expr F} {s1 sM : LState F} {lo k : Nat}
    (hi : instr = .and ∨ instr = .or)
    (hal : Al s1) (hk : s1.dep = k + 1) (hlo : lo ≤ s1.jumps.size)
    (hw : W2 lo (logicalTail cur instr r s1) sM) (hev : Ev sM sF) (had : AppD sM sF)
    (hroots : ∀ p ∈ sM.pending.zip sM.pendDep, lo ≤ p.1.patch → RootD sF p.1 p.2)
    (hnext : sF.instrs.size ≤ s1.instrs.size + 1 ∨ sF.depths[s1.instrs.size + 1]? = some (k + 1)) :
    EdgeOK sF s1.instrs.size ∧ sF.depths[s1.instrs.size]? = some (k + 1) := by
  obtain ⟨hwi, hwa⟩ := hw
  simp only [logicalTail] at hwi hwa
  have hA := hwi.1
  have hpair := hwa.keepZ _ (by
    simp only [pushJump_pending, pushRoot_pending, pushJump_pendDep, LState.pushRoot, List.zip_cons_cons]
    exact List.mem_cons_self)
  have hR := hroots _ hpair hlo
  have hdepR : (((s1.pushJump 0).push instr (some s1.jumps.size)).dep - 1) = k := by
    rcases hi with rfl | rfl <;> simp [fall, hk]
  simp only [hdepR] at hR
  have i1 := instr_at (t := s1.pushJump 0) (i := instr) (d := some s1.jumps.size)
    (((App.pushRoot _ _).trans (App.pushJump _ _)).trans hA) hev
  have d1 := depth_at (t := s1.pushJump 0) (i := instr) (d := some s1.jumps.size) (hal.pushJump 0)
    (((AppD.pushRoot _ _).trans (AppD.pushJump _ _)).trans hwa) had
  simp only [pushJump_instrs, pushJump_dep, hk] at i1 d1
  have hjlt : s1.jumps.size < sF.jumps.size := by
    have := hA.jsize; have := hev.jsize; simp at *; omega
  obtain ⟨tb, htb⟩ := jumps_some hjlt
  refine ⟨.mk d1 (edges_logical i1 hi htb) (fun e hm => ?_), d1⟩
  simp only [List.mem_cons, List.not_mem_nil, or_false] at hm
  rcases hm with rfl | rfl
  · exact hR tb htb
  · exact hnext

theorem mem_zip_replicate {α : Type} {l : List α} {x : α} {d n : Nat} (hx : x ∈ l) (hn : l.length = n) :
    (x, d) ∈ l.zip (List.replicate n d) := by
  induction l generalizing n with
  | nil => simp at hx
  | cons y ys ih =>
    cases n with
    | zero => simp at hn
    | succ n =>
      simp only [List.replicate_succ, List.zip_cons_cons, List.mem_cons]
      simp only [List.mem_cons] at hx
      rcases hx with rfl | hx
      · exact .inl rfl
      · exact .inr (ih hx (by simpa using hn))

/-- the arm bodies of an else-chain are pushed with the depth the chain started at -/
theorem finishChain_pairs {cur : Nat} {s2 : LState F} {items : List (Expr F × Nat)} {it : Expr F × Nat}
    (hit : it ∈ items) :
    ((⟨.code it.1, it.2, [(.jumpTo, some s2.jumps.size)], cur⟩ : Root F), s2.dep - 1) ∈
      (finishChain cur s2 items).pending.zip (finishChain cur s2 items).pendDep := by
  cases items with
  | nil => simp at hit
  | cons it0 its =>
    simp only [finishChain]
    rw [List.zip_append (by simp [armRoots])]
    refine List.mem_append.2 (.inl (mem_zip_replicate ?_ (by simp [armRoots])))
    simp only [armRoots, List.mem_reverse, List.mem_map]
    exact ⟨it, hit, rfl⟩

theorem emitArms_first (root cur : Nat) (b : Bool) (c t : Expr F) (rest : List (Bool × Expr F × Expr F)) (s : LState F)
    (hal : Al s) (hw : wfEArms ((b, c, t) :: rest) = true) :
    (emitArms root cur ((b, c, t) :: rest) s).1.depths[s.instrs.size]? = some s.dep := by
  simp only [wfEArms, Bool.and_eq_true] at hw
  simp only [emitArms]
  exact first_app (emit_first root cur c s hal hw.1.1)
    (((AppD.pushJump _ _).trans (.push _ _ _)).trans (emitArms_dep root cur rest _ hw.2).1.app)

/-- the root pushed after a condition returns to a join whose instruction is entered one above the depth at
which the root starts -/
theorem condTail_terms {cur : Nat} {onTrue : Bool} {t : Expr F} {s1 sM : LState F} {lo k : Nat}
    (hp1 : PendOK s1) (hk : s1.dep = k + 1) (hlo : lo ≤ s1.jumps.size)
    (hw : W2 lo (condTail cur onTrue t s1) sM) (hev : Ev sM sF)
    (hnext : sF.instrs.size ≤ s1.instrs.size + 2 ∨ sF.depths[s1.instrs.size + 2]? = some (k + 1))
    (hcode : wfE t = true ∧ (noR t = true ∨ (tailR t = true ∧ k = 0)) ∧ ContOK sF cur) :
    ∀ p ∈ (condTail cur onTrue t s1).pending.zip (condTail cur onTrue t s1).pendDep,
      p ∉ s1.pending.zip s1.pendDep → TermOK sF p.1 p.2 := by
  intro p hp hn
  have hwi := hw.w
  simp only [condTail] at hwi hp
  simp only [pushJump_pending, pushRoot_pending, pushJump_pendDep, LState.pushRoot, List.zip_cons_cons, List.mem_cons,
    push_pending, push_pendDep] at hp
  rcases hp with rfl | hp
  · have jj := jump_at (App.refl _) (fun r hr => by
        simp only [pushJump_pending, pushRoot_pending, push_pending, List.mem_cons] at hr
        rcases hr with rfl | hr
        · simp
        · have := hp1 r hr; simp; omega) (by simp) (by simp; omega) hwi hev
    simp only [pushRoot_jumps, push_jumps, pushJump_jsize, push_isize, pushJump_instrs, toProg_jumps] at jj
    have hd : ((((s1.pushJump 0).push (jumpIf onTrue) (some s1.jumps.size)).push .putValue none).dep - 1) = k := by
      cases onTrue <;> simp [jumpIf, fall, hk]
    simp only [hd]
    refine ⟨?_, fun b hb => ?_, fun id hid => by cases hid⟩
    · intro j hj
      simp only [List.mem_singleton, Prod.mk.injEq, Option.some.injEq, true_and, push_jumps, pushJump_jsize] at hj
      subst hj
      exact ⟨_, jj, hnext⟩
    · simp only [RootKind.code.injEq] at hb
      subst hb
      exact ⟨hcode.1, hcode.2.1, hcode.2.2, .inl ⟨_, rfl⟩⟩
  · exact absurd hp hn

theorem logicalTail_terms {cur : Nat} {instr : Instruction} {r : Expr F} {s1 sM : LState F} {lo k : Nat}
    (hi : instr = .and ∨ instr = .or) (hp1 : PendOK s1) (hk : s1.dep = k + 1) (hlo : lo ≤ s1.jumps.size)
    (hw : W2 lo (logicalTail cur instr r s1) sM) (hev : Ev sM sF)
    (hnext : sF.instrs.size ≤ s1.instrs.size + 1 ∨ sF.depths[s1.instrs.size + 1]? = some (k + 1))
    (hcode : wfE r = true ∧ (noR r = true ∨ (tailR r = true ∧ k = 0)) ∧ ContOK sF cur) :
    ∀ p ∈ (logicalTail cur instr r s1).pending.zip (logicalTail cur instr r s1).pendDep,
      p ∉ s1.pending.zip s1.pendDep → TermOK sF p.1 p.2 := by
  intro p hp hn
  have hwi := hw.w
  simp only [logicalTail] at hwi hp
  simp only [pushJump_pending, pushRoot_pending, pushJump_pendDep, LState.pushRoot, List.zip_cons_cons, List.mem_cons,
    push_pending, push_pendDep] at hp
  rcases hp with rfl | hp
  · have jj := jump_at (App.refl _) (fun r hr => by
        simp only [pushJump_pending, pushRoot_pending, push_pending, List.mem_cons] at hr
        rcases hr with rfl | hr
        · simp
        · have := hp1 r hr; simp; omega) (by simp) (by simp; omega) hwi hev
    simp only [pushRoot_jumps, push_jumps, pushJump_jsize, push_isize, pushJump_instrs, toProg_jumps] at jj
    have hd : (((s1.pushJump 0).push instr (some s1.jumps.size)).dep - 1) = k := by
      rcases hi with rfl | rfl <;> simp [fall, hk]
    simp only [hd]
    refine ⟨?_, fun b hb => ?_, fun id hid => by cases hid⟩
    · intro j hj
      simp only [List.mem_cons, List.not_mem_nil, or_false, Prod.mk.injEq, Option.some.injEq, true_and, push_jumps,
        pushJump_jsize, reduceCtorEq, false_and, false_or] at hj
      subst hj
      exact ⟨_, jj, hnext⟩
    · simp only [RootKind.code.injEq] at hb
      subst hb
      exact ⟨hcode.1, hcode.2.1, hcode.2.2, .inr ⟨_, rfl⟩⟩
  · exact absurd hp hn

theorem mem_zip_replicate_snd {α : Type} {l : List α} {p : α × Nat} {d n : Nat} (hp : p ∈ l.zip (List.replicate n d)) :
    p.1 ∈ l ∧ p.2 = d := by
  have h1 := (List.of_mem_zip hp).1
  have h2 := (List.of_mem_zip hp).2
  exact ⟨h1, (List.mem_replicate.1 h2).2⟩

/-- the arm bodies of an else-chain return to the join after the final arm -/
theorem finishChain_terms {cur : Nat} {s2 sM : LState F} {items : List (Expr F × Nat)} {lo hi k : Nat}
    (hp2 : PendOK s2) (hk : s2.dep = k + 1) (ok : ItemsOK lo hi items) (hhi : hi ≤ s2.jumps.size) (hlo : lo ≤ s2.jumps.size)
    (hw : W2 lo (finishChain cur s2 items) sM) (hev : Ev sM sF)
    (hnext : sF.instrs.size ≤ s2.instrs.size ∨ sF.depths[s2.instrs.size]? = some (k + 1))
    (hcode : ∀ it ∈ items, wfE it.1 = true ∧ (noR it.1 = true ∨ (tailR it.1 = true ∧ k = 0)) ∧ ContOK sF cur) :
    ∀ p ∈ (finishChain cur s2 items).pending.zip (finishChain cur s2 items).pendDep,
      p ∉ s2.pending.zip s2.pendDep → TermOK sF p.1 p.2 := by
  intro p hp hn
  cases items with
  | nil => exact absurd hp hn
  | cons it0 its =>
    have hwi := hw.w
    simp only [finishChain] at hwi hp
    rw [List.zip_append (by simp [armRoots])] at hp
    simp only [List.mem_append] at hp
    rcases hp with hp | hp
    · obtain ⟨hr, hd⟩ := mem_zip_replicate_snd hp
      simp only [armRoots, List.mem_reverse, List.mem_map] at hr
      obtain ⟨it, hit, hrr⟩ := hr
      have jj : sF.toProg.jumps[s2.jumps.size]? = some s2.instrs.size := by
        refine jump_at (t := s2) (x := s2.instrs.size) (s' := _) ?_ ?_ ?_ hlo hwi hev
        · exact ⟨fun _ _ => rfl, Nat.le_refl _, fun _ _ => rfl, Nat.le_refl _, fun _ _ => rfl, Nat.le_refl _,
            fun r hr => List.mem_append.2 (.inr hr)⟩
        · intro r hr
          simp only [List.mem_append] at hr
          rcases hr with hr | hr
          · simp only [armRoots, List.mem_reverse, List.mem_map] at hr
            obtain ⟨it', hin, rfl⟩ := hr
            have := ok it' hin
            simp; omega
          · have := hp2 r hr
            simp at this ⊢; omega
        · simp
      have hdk : p.2 = k := by rw [hd, hk]; rfl
      rw [hdk]
      refine ⟨?_, fun b hb => ?_, fun id hid => by rw [← hrr] at hid; cases hid⟩
      · intro j hj
        rw [← hrr] at hj
        simp only [List.mem_singleton, Prod.mk.injEq, Option.some.injEq, true_and] at hj
        subst hj
        rw [toProg_jumps] at jj
        exact ⟨_, jj, hnext⟩
      · rw [← hrr] at hb ⊢
        simp only [RootKind.code.injEq] at hb
        subst hb
        have := hcode it hit
        exact ⟨this.1, this.2.1, this.2.2, .inl ⟨_, rfl⟩⟩
    · exact absurd hp hn

end Garnish.Abs
