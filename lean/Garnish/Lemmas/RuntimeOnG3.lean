/-
Relativised step theorem, group 3: `Reapply`, `StartSideEffect`, `EndSideEffect` handlers and steps; `MachOKOn3`, `refine_step_on3`.
-/
import Garnish.Lemmas.RuntimeOnStep5
set_option linter.unusedSimpArgs false
set_option linter.unusedVariables false
namespace Garnish.Lemmas.Runtime.On
open Garnish Gen Garnish.Abs Garnish.Model.Equality Garnish.Model.Runtime Garnish.Lemmas.Runtime
open Garnish.Props.RuntimeRefine

variable {F σ : Type} {S : RStore F σ} {Inv : σ → Prop} {Rd : σ → Nat → Prop} {P : Prog F} {host : Host F}
  (fo : FloatOps F)

section handlers
variable (L : StoreLawsOn S Inv Rd)
include L

theorem startSideEffect_nil {s : σ} (hv : S.vals s = []) (hinv : Inv s := by inv_tac) :
    ∃ a s', startSideEffect S s = .ok (none, s') ∧ Decodes (S.view s') a .unit ∧ EffI S Inv s s' (S.regs s) [a] := by
  have hg : getCurrentValue S s = .ok ((S.vals s).head?, s) := rfl
  obtain ⟨a, s1, h1, d1, e1⟩ := adds_i (L.addUnit s hinv)
  obtain ⟨s2, h2, e2⟩ := pushVal L d1 (by intro h; cases h)
  rw [e1.regs, e1.vals, hv] at e2
  refine ⟨a, s2, ?_, e2.dec d1, e1.trans e2⟩
  rw [startSideEffect, bind_ok hg, hv]
  simp only [List.head?_nil]; rw [bind_ok h1, bind_ok h2]; rfl

theorem startSideEffect_cons {s : σ} {v : Nat} {vs : List Nat} {val : Val F} (hv : S.vals s = v :: vs)
    (hd : Decodes (S.view s) v val) (hc : val ≠ .custom) (hinv : Inv s := by inv_tac) :
    ∃ s', startSideEffect S s = .ok (none, s') ∧ EffI S Inv s s' (S.regs s) (v :: v :: vs) := by
  have hg : getCurrentValue S s = .ok ((S.vals s).head?, s) := rfl
  obtain ⟨s1, h1, e1⟩ := pushVal L hd hc
  rw [hv] at e1
  refine ⟨s1, ?_, e1⟩
  rw [startSideEffect, bind_ok hg, hv]
  simp only [List.head?_cons]; rw [bind_ok h1]; rfl

theorem endSideEffect_cons {s : σ} {x r : Nat} {vs rs : List Nat} (hv : S.vals s = x :: vs) (hr : S.regs s = r :: rs)
    (hinv : Inv s := by inv_tac) (hdp : Deep S s rs := by deep_tac) :
    ∃ s', endSideEffect S s = .ok (none, s') ∧ EffI S Inv s s' rs vs := by
  obtain ⟨s1, h1, e1⟩ := popValCons L hv
  obtain ⟨s2, h2, e2⟩ := popReg L (e1.regs.trans hr)
  rw [e1.vals] at e2
  refine ⟨s2, ?_, e1.trans e2⟩
  rw [endSideEffect, bind_ok h1]
  simp only []
  rw [bind_ok h2]; rfl

theorem reapply_cons (j : Nat) {s : σ} {v x t : Nat} {rest vs : List Nat} {val : Val F}
    (hregs : S.regs s = v :: rest) (hj : S.jumpTable s j = some t) (hv : S.vals s = x :: vs)
    (hd : Decodes (S.view s) v val) (hc : val ≠ .custom)
    (hinv : Inv s := by inv_tac) (hdp : Deep S s rest := by deep_tac) :
    ∃ s', reapply S j s = .ok (some t, s') ∧ EffI S Inv s s' rest (v :: vs) := by
  obtain ⟨s0, h0, e0⟩ := nextRef_cons L hregs
  obtain ⟨s1, h1, e1⟩ := popValCons L (e0.vals.trans hv)
  obtain ⟨s2, h2, e2⟩ := pushVal L ((e0.trans e1).dec hd) hc
  rw [e1.regs, e1.vals, e0.regs] at e2
  refine ⟨s2, ?_, (e0.trans e1).trans e2⟩
  rw [reapply, bind_ok h0, bind_apply, jumpPoint_apply, e0.keeps.jump, hj]
  simp only []
  rw [bind_ok h1]
  simp only []
  rw [bind_ok h2]; rfl

end handlers

section steps
variable (L : StoreLawsOn S Inv Rd) (fuel : Nat) (H : OtherHandlers σ) {s : σ} {m : MState F} (hsim : Sim S P s m)
  (hi : Inv s)
include L hsim hi

theorem stepSim_startSideEffect {operand : Option Nat} (hfetch : P.instrs[m.pc]? = some (.startSideEffect, operand))
    (hok : ∀ v vs, m.vals = v :: vs → v ≠ .custom) : StepSimOn fo host S Inv P fuel H s m := by
  have hv := hsim.2.vals
  cases hmv : m.vals with
  | nil =>
    rw [hmv] at hv
    cases hsv : S.vals s with
    | cons _ _ => rw [hsv] at hv; cases hv
    | nil =>
      obtain ⟨a, s1, h1, d1, e1⟩ := startSideEffect_nil L hsv
      refine stepSim_of fo L fuel H hsim hfetch (r := .ok ({ m with vals := [.unit] }, m.pc + 1))
        (by unfold Abs.step; rw [hfetch]; simp only [hmv]; rfl) ?_
      exact handlerSim_ofEff hsim.2 (md := { m with vals := [.unit] }) h1 e1
        (Sim.tail e1 hsim.2.regs) (.cons d1 .nil) rfl (by simp [hsim.1])
  | cons v vs =>
    rw [hmv] at hv
    obtain ⟨a, as, hsv, da, ta⟩ := decodesList_cons_inv hv
    obtain ⟨s1, h1, e1⟩ := startSideEffect_cons L hsv da (hok v vs hmv)
    refine stepSim_of fo L fuel H hsim hfetch (r := .ok ({ m with vals := v :: v :: vs }, m.pc + 1))
      (by unfold Abs.step; rw [hfetch]; simp only [hmv]; rfl) ?_
    exact handlerSim_ofEff hsim.2 (md := { m with vals := v :: v :: vs }) h1 e1
      (Sim.tail e1 hsim.2.regs) (.cons (e1.dec da) (.cons (e1.dec da) (Sim.tail e1 ta))) rfl (by simp [hsim.1])

theorem stepSim_endSideEffect {operand : Option Nat} (hfetch : P.instrs[m.pc]? = some (.endSideEffect, operand))
    {v x : Val F} {rs vs : List (Val F)} (hregs : m.regs = v :: rs) (hvals : m.vals = x :: vs) (hm : MDeep m rs) :
    StepSimOn fo host S Inv P fuel H s m := by
  have hr := hsim.2.regs
  rw [hregs] at hr
  obtain ⟨a, rest, hsr, _, t⟩ := decodesList_cons_inv hr
  have hv := hsim.2.vals
  rw [hvals] at hv
  obtain ⟨b, bs, hsv, _, tv⟩ := decodesList_cons_inv hv
  have hdeep : Deep S s rest := deep_of_sim hsim.2 t hm
  obtain ⟨s1, h1, e1⟩ := endSideEffect_cons L hsv hsr
  refine stepSim_of fo L fuel H hsim hfetch (r := .ok ({ m with vals := vs, regs := rs }, m.pc + 1))
    (by unfold Abs.step; rw [hfetch]; simp only [hregs, hvals]; rfl) ?_
  exact handlerSim_ofEff hsim.2 (md := { m with vals := vs, regs := rs }) h1 e1
    (Sim.tail e1 t) (Sim.tail e1 tv) rfl (by simp [hsim.1])

theorem stepSim_reapply {j t : Nat} (hfetch : P.instrs[m.pc]? = some (.reapply, some j))
    (hj : P.jumps[j]? = some t) {v x : Val F} {rs vs : List (Val F)} (hregs : m.regs = v :: rs)
    (hvals : m.vals = x :: vs) (hc : v ≠ .custom) (hm : MDeep m rs) : StepSimOn fo host S Inv P fuel H s m := by
  have hr := hsim.2.regs
  rw [hregs] at hr
  obtain ⟨a, rest, hsr, da, tl⟩ := decodesList_cons_inv hr
  have hv := hsim.2.vals
  rw [hvals] at hv
  obtain ⟨b, bs, hsv, _, tv⟩ := decodesList_cons_inv hv
  have hdeep : Deep S s rest := deep_of_sim hsim.2 tl hm
  obtain ⟨s1, h1, e1⟩ := reapply_cons L j hsr (by rw [hsim.2.jumps, hj]) hsv da hc
  refine stepSim_of fo L fuel H hsim hfetch (r := .ok ({ m with regs := rs, vals := v :: vs }, t))
    (by unfold Abs.step; rw [hfetch]; simp only [hregs, hvals, jumpTarget_some hj]) ?_
  exact handlerSim_ofEff hsim.2 (md := { m with regs := rs, vals := v :: vs }) h1 e1 (Sim.tail e1 tl)
    (.cons (e1.dec da) (Sim.tail e1 tv)) rfl rfl

end steps

/-- group 3: `Apply`, `EmptyApply`, `Reapply`, `StartSideEffect`, `EndSideEffect` -/
def MachOKOn3 (S : RStore F σ) (Inv : σ → Prop) (P : Prog F) (fuel : Nat) (m : MState F) (instr : Instruction)
    (operand : Option Nat) : Prop :=
  match instr with
  | .apply => MDeepN m 2 ∧ ∀ vr vl rs, m.regs = vr :: vl :: rs →
      ApplyDomain fo fuel vl vr ∧ ApplyDomainOn fo S Inv true vl vr
  | .emptyApply => MDeepN m 1 ∧ ∀ vl rs, m.regs = vl :: rs →
      ApplyDomain fo fuel vl .unit ∧ ApplyDomainOn fo S Inv false vl .unit
  | .reapply => MDeepN m 1 ∧ ∀ v rs, m.regs = v :: rs → v ≠ .custom
  | .startSideEffect => ∀ v vs, m.vals = v :: vs → v ≠ .custom
  | .endSideEffect => MDeepN m 1
  | _ => MachOKOn2 fo P fuel m instr operand

theorem refine_step_on3 (L : StoreLawsOn S Inv Rd) (HR : HostRefinesI S Inv host) (fuel : Nat) (H : OtherHandlers σ)
    {s : σ} {m : MState F} (hsim : Sim S P s m) (hi : Inv s) (hl : Loaded S P s) {instr : Instruction}
    {operand : Option Nat} (hfetch : P.instrs[m.pc]? = some (instr, operand))
    (hok : MachOKOn3 fo S Inv P fuel m instr operand) : StepSimOn fo host S Inv P fuel H s m := by
  cases instr
  case apply =>
    cases hr : m.regs with
    | nil => machine_errs_on fo, fuel, H, s, hfetch, .state, [hr]
    | cons vr t =>
      cases t with
      | nil => machine_errs_on fo, fuel, H, s, hfetch, .state, [hr]
      | cons vl rs =>
        exact stepSim_apply fo L HR fuel H hsim hfetch hr (hok.2 vr vl rs hr).1 (hok.2 vr vl rs hr).2 hi (hok.1.two hr)
  case emptyApply =>
    cases hr : m.regs with
    | nil => machine_errs_on fo, fuel, H, s, hfetch, .state, [hr]
    | cons vl rs =>
      exact stepSim_emptyApply fo L HR fuel H hsim hfetch hr (hok.2 vl rs hr).1 (hok.2 vl rs hr).2 hi (hok.1.one hr)
  case reapply =>
    cases operand with
    | none => machine_errs_on fo, fuel, H, s, hfetch, .implementation, []
    | some j =>
      cases hr : m.regs with
      | nil => machine_errs_on fo, fuel, H, s, hfetch, .state, [hr]
      | cons v rs =>
        cases hj : P.jumps[j]? with
        | none => machine_errs_on fo, fuel, H, s, hfetch, .state, [hr, jumpTarget_none hj]
        | some t =>
          cases hv : m.vals with
          | nil => machine_errs_on fo, fuel, H, s, hfetch, .state, [hr, hv, jumpTarget_some hj]
          | cons x vs => exact stepSim_reapply fo L fuel H hsim hi hfetch hj hr hv (hok.2 v rs hr) (hok.1.one hr)
  case startSideEffect => exact stepSim_startSideEffect fo L fuel H hsim hi hfetch hok
  case endSideEffect =>
    cases hv : m.vals with
    | nil => machine_errs_on fo, fuel, H, s, hfetch, .state, [hv]
    | cons x vs =>
      cases hr : m.regs with
      | nil => machine_errs_on fo, fuel, H, s, hfetch, .state, [hr, hv]
      | cons v rs => exact stepSim_endSideEffect fo L fuel H hsim hi hfetch hr hv (MDeepN.one hok hr)
  all_goals exact refine_step_on2 fo L HR fuel H hsim hi hl hfetch hok

end Garnish.Lemmas.Runtime.On
