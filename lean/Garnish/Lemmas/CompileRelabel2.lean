/-
Relabelling of body ids (2): access, apply, the instruction tables.
-/
import Garnish.Lemmas.CompileRelabel
namespace Garnish.Abs
open Garnish Gen

variable {F : Type} (fo : FloatOps F) (ρ : Nat → Nat)

@[simp] theorem Acc.rl_some (v : Val F) : Acc.rl ρ (.some v) = .some (Val.rl ρ v) := rfl
@[simp] theorem Acc.rl_none : Acc.rl ρ (.none : Acc F) = .none := rfl
@[simp] theorem Acc.rl_unsupported : Acc.rl ρ (.unsupported : Acc F) = .unsupported := rfl
@[simp] theorem Acc.rl_err (e : ErrClass) : Acc.rl ρ (.err e : Acc F) = .err e := rfl
@[simp] theorem OpOut.rl_val (v : Val F) : OpOut.rl ρ (.val v) = .val (Val.rl ρ v) := rfl
@[simp] theorem OpOut.rl_defer (op : Instruction) (l r : Val F) : OpOut.rl ρ (.defer op l r) = .defer op (Val.rl ρ l) (Val.rl ρ r) := rfl
@[simp] theorem OpOut.rl_err (e : ErrClass) : OpOut.rl ρ (.err e : OpOut F) = .err e := rfl

theorem accessInt_rl (idx : Number F) (v : Val F) : accessInt fo idx (Val.rl ρ v) = Acc.rl ρ (accessInt fo idx v) := by
  cases v with
  | pair k r =>
    cases k <;> simp only [Val.rl, accessInt, Acc.rl_none]
    split <;> simp [Val.rl]
  | list items =>
    simp only [Val.rl_list, accessInt, List.length_map]
    split
    · rfl
    · cases idx with
      | int i =>
        simp only [List.getElem?_map]
        cases items[i.toNat]? <;> simp
      | float f => rfl
  | chars cs =>
    simp only [Val.rl, accessInt]
    repeat' split
    all_goals simp [Val.rl]
  | bytes cs =>
    simp only [Val.rl, accessInt]
    repeat' split
    all_goals simp [Val.rl]
  | symList cs =>
    simp only [Val.rl, accessInt]
    repeat' split
    all_goals simp [Val.rl]
  | range s e =>
    cases s with
    | num a =>
      cases e with
      | num b =>
        simp only [Val.rl, accessInt]
        repeat' split
        all_goals simp [Val.rl]
      | _ => simp [Val.rl, accessInt]
    | _ => simp [Val.rl, accessInt]
  | concat l r =>
    simp only [Val.rl, accessInt, flatItems_rl, ← List.map_append]
    cases idx with
    | int i =>
      simp only [List.getElem?_map]
      split
      · rfl
      · cases (flatItems l ++ flatItems r)[i.toNat]? <;> simp
    | float f => rfl
  | _ => simp [Val.rl, accessInt]

theorem accessSym_rl (s : Nat) (v : Val F) : accessSym s (Val.rl ρ v) = Acc.rl ρ (accessSym s v) := by
  cases v with
  | pair k r =>
    cases k <;> simp only [Val.rl, accessSym, Acc.rl_none]
    split <;> simp
  | list items =>
    simp only [Val.rl_list, accessSym, lookupSym_rl]
    cases lookupSym s items <;> simp
  | concat l r =>
    simp only [Val.rl, accessSym, lookupRev_rl]
    cases lookupRev s r <;> cases lookupRev s l <;> simp [Option.orElse]
  | _ => simp [Val.rl, accessSym]

theorem getAccess_rl (key v : Val F) : getAccess fo (Val.rl ρ key) (Val.rl ρ v) = Acc.rl ρ (getAccess fo key v) := by
  cases key <;> simp [Val.rl, getAccess, accessInt_rl, accessSym_rl]

theorem mergeSymList_rl (l r : Val F) : mergeSymList (Val.rl ρ l) (Val.rl ρ r) = (mergeSymList l r).map (Val.rl ρ) := by
  cases l <;> cases r <;> simp [mergeSymList, Val.rl]

theorem access_rl (l r : Val F) : access fo (Val.rl ρ l) (Val.rl ρ r) = OpOut.rl ρ (access fo l r) := by
  simp only [access, Val.rl_typeOf, mergeSymList_rl, getAccess_rl]
  split
  all_goals first
    | (cases mergeSymList l r <;> simp; done)
    | (cases getAccess fo r l <;> simp [Val.rl]; done)
    | simp

theorem accessLeftInternal_rl (v : Val F) : accessLeftInternal (Val.rl ρ v) = OpOut.rl ρ (accessLeftInternal v) := by
  cases v with
  | range s e => cases s <;> simp [Val.rl, accessLeftInternal]
  | _ => simp [Val.rl, accessLeftInternal]

theorem accessRightInternal_rl (v : Val F) : accessRightInternal (Val.rl ρ v) = OpOut.rl ρ (accessRightInternal v) := by
  cases v with
  | range s e => cases e <;> simp [Val.rl, accessRightInternal]
  | _ => simp [Val.rl, accessRightInternal]

theorem accessLengthInternal_rl (v : Val F) :
    accessLengthInternal fo (Val.rl ρ v) = OpOut.rl ρ (accessLengthInternal fo v) := by
  cases v with
  | pair k r => cases k <;> simp [Val.rl, accessLengthInternal]
  | list items => rw [Val.rl_list]; simp only [accessLengthInternal, List.length_map, OpOut.rl_val, Val.rl]
  | range s e =>
    cases s with
    | num a =>
      cases e with
      | num b => simp only [Val.rl, accessLengthInternal]; split <;> simp [Val.rl]
      | _ => simp [Val.rl, accessLengthInternal]
    | _ => simp [Val.rl, accessLengthInternal]
  | slice x r =>
    cases r with
    | range s e =>
      cases s with
      | num a =>
        cases e with
        | num b => simp only [Val.rl, accessLengthInternal]; split <;> simp [Val.rl]
        | _ => simp [Val.rl, accessLengthInternal]
      | _ => simp [Val.rl, accessLengthInternal]
    | _ => simp [Val.rl, accessLengthInternal]
  | concat l r => simp [Val.rl, accessLengthInternal, flatItems_rl]
  | _ => simp [Val.rl, accessLengthInternal]

theorem makeRange_rl (a b : Bool) (l r : Val F) : makeRange fo a b (Val.rl ρ l) (Val.rl ρ r) = OpOut.rl ρ (makeRange fo a b l r) := by
  cases l with
  | num x =>
    cases r with
    | num y => simp only [Val.rl, makeRange]; split <;> simp [Val.rl]
    | _ => simp [Val.rl, makeRange]
  | _ => simp [Val.rl, makeRange]

theorem typeEqual_rl (l r : Val F) : typeEqual (Val.rl ρ l) (Val.rl ρ r) = Val.rl ρ (typeEqual l r) := by
  cases r <;> simp only [typeEqual, Val.rl, Val.rl_typeOf, Val.rl_ofBool] <;> rfl

theorem accessPath_rl : ∀ (ps : List (SymPart F)) (cur : Val F),
    accessPath fo ps (Val.rl ρ cur) = Acc.rl ρ (accessPath fo ps cur)
  | [], cur => rfl
  | p :: ps, cur => by
    cases p with
    | sym s =>
      simp only [accessPath, accessSym_rl]
      cases h : accessSym s cur <;> simp [accessPath_rl ps, Val.rl]
    | num n =>
      simp only [accessPath, accessInt_rl]
      cases h : accessInt fo n cur <;> simp [accessPath_rl ps, Val.rl]

def rlExcept : Except ErrClass (Val F) → Except ErrClass (Val F)
  | .ok v => .ok (Val.rl ρ v)
  | .error e => .error e

theorem narrowRange_rl (a b : Val F) : narrowRange fo (Val.rl ρ a) (Val.rl ρ b) = rlExcept ρ (narrowRange fo a b) := by
  have hid : ∀ (x : Except ErrClass (Val F)), (∀ v, x = .ok v → Val.rl ρ v = v) → x = rlExcept ρ x := by
    intro x hx
    cases x with
    | ok v => simp [rlExcept, hx v rfl]
    | error e => rfl
  cases b with
  | range s e =>
    cases s with
    | num s1 =>
      cases e with
      | num e1 =>
        cases a with
        | range os oe =>
          cases os with
          | num o1 =>
            simp only [Val.rl, narrowRange]
            repeat' split
            all_goals simp [rlExcept, Val.rl]
          | _ => simp [Val.rl, narrowRange, rlExcept]
        | _ => simp [Val.rl, narrowRange, rlExcept]
      | _ => simp [Val.rl, narrowRange, rlExcept]
    | _ => simp [Val.rl, narrowRange, rlExcept]
  | _ => simp [Val.rl, narrowRange, rlExcept]

@[simp] theorem ApplyKind.rl_enter (j : Nat) (v : Val F) : ApplyKind.rl ρ (.enter j v) = .enter (ρ j) (Val.rl ρ v) := rfl
@[simp] theorem ApplyKind.rl_external (j : Nat) (v : Val F) : ApplyKind.rl ρ (.external j v) = .external j (Val.rl ρ v) := rfl
@[simp] theorem ApplyKind.rl_out (o : OpOut F) : ApplyKind.rl ρ (.out o) = .out (OpOut.rl ρ o) := rfl

theorem rl_pair_back (a b : Val F) : Val.pair (Val.rl ρ a) (Val.rl ρ b) = Val.rl ρ (.pair a b) := by simp [Val.rl]
theorem rl_list_back (l : List (Val F)) : Val.list (l.map (Val.rl ρ)) = Val.rl ρ (.list l) := by simp
theorem rl_symList_back (l : List (SymPart F)) : Val.symList l = Val.rl ρ (.symList l) := by simp [Val.rl]
theorem rl_range_back (a b : Val F) : Val.range (Val.rl ρ a) (Val.rl ρ b) = Val.rl ρ (.range a b) := by simp [Val.rl]
theorem rl_sym_back (s : Nat) : Val.sym s = Val.rl ρ (.sym s : Val F) := by simp [Val.rl]

theorem applyKind_rl (instr : Instruction) (useRight : Bool) (l r : Val F) :
    applyKind fo instr useRight (Val.rl ρ l) (Val.rl ρ r) = ApplyKind.rl ρ (applyKind fo instr useRight l r) := by
  cases l with
  | expr j => simp [Val.rl, applyKind]
  | ext n => simp [Val.rl, applyKind]
  | part f x =>
    cases f <;> simp only [Val.rl, applyKind, ApplyKind.rl_enter, ApplyKind.rl_out, OpOut.rl_val]
    cases useRight <;> simp [Val.rl]
  | sym s =>
    cases r with
    | symList ps => simp [Val.rl, applyKind, mergeSymList]
    | _ => simp [Val.rl, applyKind]
  | symList ps =>
    cases r with
    | sym s => simp [Val.rl, applyKind, mergeSymList]
    | symList qs => simp [Val.rl, applyKind, mergeSymList]
    | num n =>
      have h := accessInt_rl fo ρ n (.symList ps)
      simp only [Val.rl] at h
      simp only [Val.rl, applyKind]
      conv => lhs; rw [h]
      cases accessInt fo n (.symList ps) <;> simp [Val.rl]
    | range a b => simp [Val.rl, applyKind]
    | _ => simp [Val.rl, applyKind]
  | range a b =>
    cases r with
    | range c d =>
      simp only [Val.rl, applyKind]
      rw [rl_range_back, rl_range_back, narrowRange_rl]
      cases narrowRange fo (.range a b) (.range c d) <;> simp [rlExcept]
    | _ => simp [Val.rl, applyKind]
  | slice v sr =>
    cases r with
    | range c d =>
      simp only [Val.rl, applyKind]
      rw [rl_range_back, narrowRange_rl]
      cases narrowRange fo sr (.range c d) <;> simp [rlExcept, Val.rl]
    | _ => simp [Val.rl, applyKind]
  | list items =>
    cases r with
    | num n =>
      simp only [Val.rl_list]; simp only [Val.rl, applyKind]
      rw [rl_list_back, accessInt_rl]; cases accessInt fo n (.list items) <;> simp [Val.rl]
    | sym s =>
      simp only [Val.rl_list]; simp only [Val.rl, applyKind]
      rw [rl_list_back, accessSym_rl]; cases accessSym s (.list items) <;> simp [Val.rl]
    | symList ps =>
      simp only [Val.rl_list]; simp only [Val.rl, applyKind]
      rw [rl_list_back, accessPath_rl]; cases accessPath fo ps (.list items) <;> simp [Val.rl]
    | range a b => simp [Val.rl, applyKind]
    | _ => simp [Val.rl, applyKind]
  | pair a b =>
    cases r with
    | num n =>
      simp only [Val.rl, applyKind]
      rw [rl_pair_back, accessInt_rl]; cases accessInt fo n (.pair a b) <;> simp [Val.rl]
    | sym s =>
      simp only [Val.rl, applyKind]
      rw [rl_pair_back, accessSym_rl]; cases accessSym s (.pair a b) <;> simp [Val.rl]
    | _ => simp [Val.rl, applyKind]
  | _ => cases r <;> simp [Val.rl, applyKind]

theorem binaryOp_rl {ρ : Nat → Nat} (hρ : ∀ a b, ρ a = ρ b → a = b) (op : Instruction) (l r : Val F) :
    binaryOp fo op (Val.rl ρ l) (Val.rl ρ r) = (binaryOp fo op l r).map (OpOut.rl ρ) := by
  cases op <;>
    simp [binaryOp, numOpOf, arithBinary_rl, valEq_rl fo hρ, typeEqual_rl, access_rl, makeRange_rl, lessThan, lessThanOrEqual,
      greaterThan, greaterThanOrEqual, cmpOp_rl, Val.rl]

theorem unaryOp_rl (op : Instruction) (v : Val F) :
    unaryOp fo op (Val.rl ρ v) = (unaryOp fo op v).map (OpOut.rl ρ) := by
  cases op <;>
    simp [unaryOp, numOpOf, arithUnary_rl, accessLeftInternal_rl, accessRightInternal_rl, accessLengthInternal_rl, Val.rl]

end Garnish.Abs
