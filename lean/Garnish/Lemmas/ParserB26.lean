/-
Operators with optional operands, part 2: a leading `,` / infix identifier at the start of a frame's expression
(`expr_lead`).  `parse_token` is called with `left = last_left` = the bracket that opened the frame (or nothing at the
very beginning): the walk stops there at once (`is_our_group`), `parent == true_left` unsets the left operand, and the
node is pushed as the first node of the frame with a dangling `right` — like a prefix operator.
-/
import Garnish.Lemmas.ParserB25

namespace Garnish.Spec
open Garnish Garnish.Gen Garnish.Model.Parser

theorem walk_top_stopQ {nodes : Array ParseNode} {ug : Option Nat} {m qo q : Nat} {on : ParseNode} (rtl : Bool)
    (hm : nodes[m]? = some on) (hqo : priority on.definition = some qo)
    (hst : on.definition.isGroupLike = true ∧ ug = some m) :
    walkLoop nodes q ug rtl (nodes.size + 1) 0 (some m) (some m) = .ok (some m, some m) := by
  unfold walkLoop
  obtain ⟨hg, hu⟩ := hst
  subst hu; simp [hm, hqo, hg]

/-- an operator directly after the open bracket `m` (whose `right` already points to the operator's id) -/
theorem parseToken_topQ {ug : Option Nat} {m q : Nat} {d : Definition} {right : Option Nat} {nodes : Array ParseNode}
    {rtl : Bool} {on : ParseNode} (hq : priority d = some q) (hm : nodes[m]? = some on)
    (hw : walkLoop nodes q ug rtl (nodes.size + 1) 0 (some m) (some m) = .ok (some m, some m))
    (hor : on.right = some nodes.size) :
    parseToken nodes.size d (some m) right nodes ug rtl = .ok (nodes, ⟨d, some m, none, right⟩) := by
  have hms : m < nodes.size := (Array.getElem?_eq_some_iff.mp hm).1
  obtain ⟨n2, h2⟩ := modifyNode?_isSome (fun p => { p with right := some nodes.size }) hms
  have s2 := modifyNode?_size h2
  have g2 := modifyNode?_get h2
  have hn2 : n2 = nodes := by
    apply Array.ext_getElem?
    intro j
    rw [g2 j]
    by_cases hj : j = m
    · subst hj
      simp only [if_true, hm, Option.map_some]
      congr 1
      cases on
      simp_all
    · simp [hj]
  unfold parseToken
  rw [hq]
  simp only [hw, Outcome.bind, beq_self_eq_true, if_true, hm, h2, hor]
  rw [modifyNode?_none (by omega), hn2]

theorem parseToken_emptyQ {ug : Option Nat} {d : Definition} {q : Nat} {right : Option Nat} {rtl : Bool}
    (hq : priority d = some q) :
    parseToken 0 d none right #[] ug rtl = .ok (#[], ⟨d, none, none, right⟩) := by
  unfold parseToken
  rw [hq]
  unfold walkLoop
  simp [Outcome.bind]

/-- `,` and infix identifiers -/
def isOptTok (t : PToken) : Bool := (getDefinition t.type).2 == .optionalBinaryLeftToRight

theorem StartPrev.comp_opt {st : PState} (h : StartPrev st) :
    checkComposition st.previousSecondDef .optionalBinaryLeftToRight false = true := by
  rcases h with h | h | h | h | h | h <;> rw [h] <;> rfl

theorem opt_facts {op : PToken} (h : isOptTok op = true) :
    isBin3Tok op = true ∧ (getDefinition op.type).2 = .optionalBinaryLeftToRight := by
  unfold isOptTok at h
  have hs : (getDefinition op.type).2 = .optionalBinaryLeftToRight := by simpa using h
  unfold isBin3Tok
  exact ⟨by simp [hs], hs⟩

/-- a leading `,` / infix identifier on the reference side -/
theorem ref_opt_leadK (f : Frame) (stack : List Frame) (pos q : Nat) (op : PToken) (rest : List PToken)
    (hop : isOptTok op = true) (hq : priority (getDefinition op.type).1 = some q) (hl : f.last = .start) :
    refStep Table.gen f stack pos op rest =
      .ok ({ f with cur := attach Table.gen q false (getDefinition op.type).1 pos f.cur, last := .optOp, ws := false,
                    prevSep := false }, stack) := by
  obtain ⟨_, hs⟩ := opt_facts hop
  have hgen : Table.gen.define = getDefinition := rfl
  have hpr : Table.gen.prio = priority := rfl
  unfold refStep
  rw [hgen]
  generalize getDefinition op.type = ds at hs hq ⊢
  obtain ⟨d, s⟩ := ds
  simp only at hs hq ⊢
  subst hs
  have hr : (SecDef.optionalBinaryLeftToRight == SecDef.binaryRightToLeft) = false := rfl
  simp [hpr, hq, hl, hr]

/-- **a leading `,` / infix identifier, then the first operand of the frame** -/
theorem expr_lead {c : Nat} {inG : Bool} {x ws : List PToken} {op : PToken} (hx : OpdOK c x) (hop : isOptTok op = true)
    (hws : ∀ w ∈ ws, isTriviaTok w = true) (hxne : x ≠ []) :
    ExprOK c inG (op :: (ws ++ x)) false := by
  intro st0 ug p base hO hfs hprios hcg _ hsp pos hnum rest
  obtain ⟨hop3, hsd⟩ := opt_facts hop
  obtain ⟨q, hq, hq20, hnb⟩ := bin3_prio20 op.type (by unfold isBin3Tok at hop3; exact hop3)
  obtain ⟨_, _, f3, f4⟩ := bin3_def_facts op.type (by unfold isBin3Tok at hop3; exact hop3)
  obtain ⟨hbase, hp⟩ := hfs.base_eq
  have hopcol : op.col = pos := hnum.1
  have hnumx := numbered_append ws x _ hnum.2
  have hrtl : ((getDefinition op.type).2 == SecDef.binaryRightToLeft) = false := by rw [hsd]; rfl
  -- the operator's `parse_token`
  have hpt : parseToken st0.nodes.size (getDefinition op.type).1 st0.lastLeft (some (st0.nodes.size + 1)) st0.nodes ug
      ((getDefinition op.type).2 == .binaryRightToLeft) =
      .ok (st0.nodes, ⟨(getDefinition op.type).1, st0.lastLeft, none, some (st0.nodes.size + 1)⟩) := by
    rw [hrtl]
    cases hfs with
    | top h1 _ =>
      have hl : st0.lastLeft = none := by
        rcases hO.top with ⟨h, _⟩ | ⟨_, _, hpos, _⟩
        · exact h
        · rw [h1] at hpos; simp at hpos
      rw [hl, h1]; exact parseToken_emptyQ hq
    | bracket g G pg h1 _ hG hgl hpg hGr =>
      have hl : st0.lastLeft = some g := by rw [hO.lastLeft_eq (by omega), h1]; rfl
      rw [hl]
      exact parseToken_topQ hq hG (walk_top_stopQ false hG hpg ⟨hgl, rfl⟩) (by rw [hGr, h1])
  obtain ⟨st1, h1⟩ := step_bin3_okG st0 op hop3 hO.hug hO.adj (by rw [hO.cfl, hsd]; exact hsp.comp_opt) ⟨_, _, hpt⟩
  obtain ⟨nodes1, info1, hpt1, hn1, hl1, hc1, hnl1, hgs1, hcg1, hp1⟩ :=
    step_bin3_specG st0 st1 op hop3 hO.nnl hO.hug hO.adj h1
  have hnp1 := step_bin3_nextParentG st0 st1 op hop3 hO.nnl hO.hug hO.adj h1
  rw [hpt] at hpt1
  injection hpt1 with hpt1; injection hpt1 with e1 e2; subst e1; subst e2
  simp only at hn1
  have hs1 : st1.nodes.size = st0.nodes.size + 1 := by rw [hn1]; simp
  have hC1 : st1.nodes[st0.nodes.size]? = some ⟨(getDefinition op.type).1, (getDefinition op.type).2, st0.lastLeft, none,
      some (st0.nodes.size + 1), op⟩ := by rw [hn1]; simp
  have hug1 : underGroupOf st1 = .ok ug := by
    have := hO.hug; simp only [underGroupOf, hgs1, hcg1] at this ⊢; exact this
  have hO1 : OpenB st1 ug := by
    refine ⟨hc1, hnl1, hug1, by rw [hnp1, hl1], ?_, Or.inr ?_, ?_⟩
    · exact adjust_noop st1 ug (Or.inr ⟨_, _, hl1, hC1, Or.inl (not_sideEffect_of_not_groupLike f4)⟩)
    · exact ⟨_, q, by omega, by rw [hl1, hs1]; rfl, by rw [hs1, Nat.add_sub_cancel]; exact hC1, hq, by rw [hs1], f3,
        Or.inl ⟨by omega, f4⟩⟩
    · rw [hp1, hsd]
      exact Or.inr (Or.inr (Or.inr (Or.inr (Or.inr (Or.inr (Or.inr (Or.inr (Or.inl rfl))))))))
  have hprios1 : AllPrio st1.nodes := by
    intro i nd hi
    rw [hn1, Array.getElem?_push] at hi
    split at hi
    · injection hi with hi; subst hi; exact ⟨q, hq⟩
    · exact hprios i nd hi
  -- trivia, the operand
  obtain ⟨st1', hloopW, hO1', hn1', hnp1', _, hgs1', hcg1'⟩ :=
    trivia_runB ws st1 ug (x ++ rest) hO1 (by omega) hws (by simp [hxne])
  have hcg1ok : CGOK st1' := by
    unfold CGOK at hcg ⊢
    rw [hcg1', hgs1', hcg1, hgs1]; exact hcg
  obtain ⟨st2, sub, cb', P, hloopX, hres, hP, hcntX, hrefX⟩ :=
    hx st1' ug hO1' (by rw [hn1']; exact hprios1) hcg1ok _ hnumx rest
  have hres1 : OpdRes st1 st2 sub cb' := hres.transfer hn1'.symm hnp1'.symm hgs1'.symm hcg1'.symm
  have hC2 : st2.nodes[st0.nodes.size]? = some ⟨(getDefinition op.type).1, (getDefinition op.type).2, st0.lastLeft, none,
      some (st0.nodes.size + 1), op⟩ := by rw [hres1.below _ (by omega)]; exact hC1
  have hbelow : ∀ j, j < st0.nodes.size → st2.nodes[j]? = st0.nodes[j]? := by
    intro j hj
    rw [hres1.below j (by omega), hn1, Array.getElem?_push, if_neg (by omega)]
  have hsub := hres1.tree
  rw [hnp1, hs1] at hsub
  have hsubin := hres1.inord
  rw [hs1] at hsubin
  have hsubne : sub.inorder ≠ [] := List.ne_nil_of_mem hres1.tree.root_mem
  have hcbge := hres1.cb_ge
  have hdn : dfOf st2.nodes st0.nodes.size = (getDefinition op.type).1 := by simp [dfOf, hC2]
  have htree2 : IsTreeAt st2.nodes p (some base) (.node .nil st0.nodes.size op.col sub) := by
    rw [hbase]
    refine isTreeAt_node _ hC2 (by rw [hp, hO.link]) (.nil _) hsub rfl
  have hinv2 : UInv st2 ug p base (.node .nil st0.nodes.size op.col sub) base cb' := by
    have hsz2 := hres1.size
    refine ⟨⟨htree2, ?_, by rw [hbase]; simp [Tree.inorder], by omega, ?_, hres1.prios⟩, hres1.nnl, hres1.hug hug1, ?_,
      ?_, hres1.prev6⟩
    · simp only [Tree.inorder, List.nil_append]
      rw [hbase]
      exact (show SortedIn st0.nodes.size st0.nodes.size [] from ⟨List.Pairwise.nil, fun j hj => by cases hj⟩).append_cons
        hsubin (Nat.le_refl _) (by omega)
    · cases hfs with
      | top _ _ => exact .top 0
      | bracket g G pg h1' _ hG hgl hpg hGr =>
        exact .bracket g (g + 1) G pg (by rw [hbelow g (by omega)]; exact hG) hgl hpg hGr
    · cases hres1.bot with
      | plain hl hb h3 h4 =>
        refine .plain hl hb ?_ h4
        simp only [Tree.inorder, List.nil_append]
        rw [List.getLast?_cons_of_ne_nil hsubne]; exact h3
      | closed _ G h1' h2 h3 h4 h5 h6 => exact .closed _ G h1' h2 h3 h4 (Or.inr h5) h6
    · simp only [SpineG, if_neg (show st0.nodes.size ≠ cb' by omega), hdn]
      exact ⟨hnb, hres1.spine⟩
  refine ⟨st2, _, base, cb', ?_, hinv2, by rw [hres1.gs, hgs1], by rw [hres1.cg, hcg1],
    fun j hj => hbelow j (by omega), fun j hj => by rw [hbelow j (by omega)], fun _ => hres.ready,
    by simp only [Tree.inorder, List.nil_append, List.length_cons]; rw [hn1'] at hcntX; omega, ?_⟩
  · simp only [List.cons_append, loop]
    have he' : (ws ++ x ++ rest).isEmpty = false := by cases ws <;> cases x <;> simp_all
    rw [he', h1]
    simp only [Outcome.bind]
    rw [List.append_assoc, hloopW, hloopX]
  · intro f stack restR hc hl _
    simp only [List.cons_append]
    conv => lhs; unfold refLoop
    rw [ref_opt_leadK f stack pos q op _ hop hq hl]
    simp only [Outcome.bind]
    let fL : Frame :=
      { f with cur := attach Table.gen q false (getDefinition op.type).1 pos f.cur, last := Last.optOp, ws := false,
               prevSep := false }
    obtain ⟨b, hb⟩ := ref_skipK ws fL stack (pos + 1) (x ++ restR) hws
    rw [List.append_assoc, hb, hrefX _ stack restR (Or.inr (Or.inr (Or.inl rfl)))]
    have habove : aboveDef st1' = (getDefinition op.type).1 := by
      unfold aboveDef; rw [hn1', hs1, Nat.add_sub_cancel, hC1]; rfl
    have hcur : P (attach Table.gen q false (getDefinition op.type).1 pos f.cur) =
        toRG (dfOf st2.nodes) (.node .nil st0.nodes.size op.col sub) := by
      rw [hc]
      have : attach Table.gen q false (getDefinition op.type).1 pos RTree.nil =
          .node .nil (getDefinition op.type).1 pos .nil := rfl
      rw [this]
      have hf := hP.fresh .nil pos
      rw [habove] at hf
      rw [hf]
      simp only [toRG, hdn, hnb, Bool.false_eq_true, if_false, hopcol]
    simp only [fL]
    rw [hcur]
    have hlen : pos + 1 + ws.length + x.length = pos + (op :: (ws ++ x)).length := by
      simp only [List.length_append, List.length_cons]; omega
    rw [hlen]
    rfl

end Garnish.Spec
