/-
C04, builder half — the order of the out-of-line parts, part 14: small facts and tactics for the handler proofs.
-/
import Garnish.Lemmas.BuildLifo13
import Garnish.Lemmas.BuildOrder6
namespace Garnish.Lemmas.BuildSeq
open Garnish Garnish.Gen Garnish.Model.Parser Garnish.Model.Literals Garnish.Model.Build Garnish.Lemmas.Build
open Garnish.Lemmas.BuildTotal

variable {F : Type} {root : Nat} {tree : Array ParseNode} {G : Nat → Prop} {m0 : Nat}

theorem oolR_false {d : Definition} (hnl : isLate d = false) (hd : d ≠ .nestedExpression) : oolR d = false := by
  cases d <;> simp [isLate] at hnl <;> first | rfl | exact absurd rfl hd

theorem not_logical {d : Definition} (hnl : isLate d = false) : isLogical d = false := by
  cases d <;> simp [isLate] at hnl <;> rfl

theorem jumpIf_not_logical {d : Definition} (h : isJumpIf d = true) : isLogical d = false := by
  cases d <;> simp [isJumpIf] at h <;> rfl

theorem logical_not_else {d : Definition} (h : isLogical d = true) : d ≠ .elseJump := by
  intro e; subst e; simp [isLogical] at h

theorem logical_direct {d : Definition} (h : isLogical d = true) : isDirect d = true := by simp [isDirect, h]

/-- a node without out-of-line child: nothing to schedule in the last visit -/
theorem nool_last {d : Definition} (h : oolR d = false) {nodes : Nodes} {ni : Nat} {pn : ParseNode} (hd : pn.definition = d) :
    ∀ (r : Nat) (bn : BuildNode), pn.right = some r → nodes[ni]? = some (some bn) →
      ((isDirect pn.definition = true ∨ (isJumpIf pn.definition = true ∧ bn.conditionalParent = none)) → False) ∧
      (isJumpIf pn.definition = true → ∀ (cp : Nat) (parent : BuildNode), bn.conditionalParent = some cp →
        nodes[cp]? = some (some parent) → False) := by
  subst hd
  have h1 : isDirect pn.definition = false ∧ isJumpIf pn.definition = false := by
    cases hd : pn.definition <;> rw [hd] at h <;> simp [oolR, isLate] at h <;> exact ⟨rfl, rfl⟩
  intro r bn _ _
  refine ⟨fun h' => ?_, fun h' => by rw [h1.2] at h'; cases h'⟩
  rcases h' with h' | ⟨h', _⟩
  · rw [h1.1] at h'; cases h'
  · rw [h1.2] at h'; cases h'

theorem no_right_last {nodes : Nodes} {ni : Nat} {pn : ParseNode} (hr : pn.right = none) :
    ∀ (r : Nat) (bn : BuildNode), pn.right = some r → nodes[ni]? = some (some bn) →
      ((isDirect pn.definition = true ∨ (isJumpIf pn.definition = true ∧ bn.conditionalParent = none)) → False) ∧
      (isJumpIf pn.definition = true → ∀ (cp : Nat) (parent : BuildNode), bn.conditionalParent = some cp →
        nodes[cp]? = some (some parent) → False) := by
  intro r bn h; rw [hr] at h; cases h

theorem no_ilink_right_none {ni : Nat} {pn : ParseNode} (hpn : tree[ni]? = some pn) (hl : inlL (layout pn.definition) = false)
    (hr : pn.right = none) : ∀ c, ¬ ILink tree ni c := by
  intro c ⟨pn', h1, h2⟩
  rw [hpn] at h1; cases h1
  rcases h2 with ⟨_, h⟩ | ⟨h, _⟩
  · rw [hl] at h; cases h
  · rw [hr] at h; cases h

/-- the `conditional_parent` side condition for explicit lists of freshly built nodes: `e` proves that the node itself
keeps its field, `a` and `b` are the facts about the (at most two) children -/
macro "cp_one" a:term "," b:term "," e:term : tactic => `(tactic| (
  first
    | exact ⟨(fun _ => $e), (fun h => BuildNodeState.noConfusion h)⟩
    | exact ⟨(fun h => BuildNodeState.noConfusion h), (fun _ => $a)⟩
    | exact ⟨(fun h => BuildNodeState.noConfusion h), (fun _ => $b)⟩))

macro "cp_tac" a:term "," b:term "," e:term : tactic => `(tactic| (
  intro q hq
  simp only [List.mem_cons, List.mem_nil_iff, or_false] at hq
  first
    | (rcases hq with h | h | h <;> subst h <;> cp_one $a, $b, $e)
    | (rcases hq with h | h <;> subst h <;> cp_one $a, $b, $e)
    | (subst hq; cp_one $a, $b, $e)))

end Garnish.Lemmas.BuildSeq
