/-
Monotonicity of decoding: if every getter of `v2` answers as `v1` wherever `v1` answers (`ViewLe`), every
`Decodes` / `DecodesList` / `FlatOf` fact of `v1` holds of `v2`. This is how a concrete store shows that its
adders keep all earlier `Decodes` facts (`Keeps` of Model/Runtime/Store.lean).
-/
import Garnish.Model.Equality
namespace Garnish.Lemmas.Runtime
open Garnish Gen Garnish.Model.Equality
variable {F : Type}

/-- every getter of `v2` answers as `v1` wherever `v1` answers -/
structure ViewLe (v1 v2 : StoreView F) : Prop where
  typeOf : ∀ a x, v1.typeOf a = some x → v2.typeOf a = some x
  number : ∀ a x, v1.number a = some x → v2.number a = some x
  char : ∀ a x, v1.char a = some x → v2.char a = some x
  byte : ∀ a x, v1.byte a = some x → v2.byte a = some x
  symbol : ∀ a x, v1.symbol a = some x → v2.symbol a = some x
  expression : ∀ a x, v1.expression a = some x → v2.expression a = some x
  external : ∀ a x, v1.external a = some x → v2.external a = some x
  type_ : ∀ a x, v1.type_ a = some x → v2.type_ a = some x
  pair : ∀ a x, v1.pair a = some x → v2.pair a = some x
  range : ∀ a x, v1.range a = some x → v2.range a = some x
  concatenation : ∀ a x, v1.concatenation a = some x → v2.concatenation a = some x
  slice : ∀ a x, v1.slice a = some x → v2.slice a = some x
  partial_ : ∀ a x, v1.partial_ a = some x → v2.partial_ a = some x
  listItems : ∀ a x, v1.listItems a = some x → v2.listItems a = some x
  concatItems : ∀ a x, v1.concatItems a = some x → v2.concatItems a = some x
  chars : ∀ a x, v1.chars a = some x → v2.chars a = some x
  bytes : ∀ a x, v1.bytes a = some x → v2.bytes a = some x
  symList : ∀ a x, v1.symList a = some x → v2.symList a = some x

theorem flatOf_mono {v1 v2 : StoreView F} (le : ViewLe v1 v2) {a : Nat} {items : List Nat}
    (h : FlatOf v1 a items) : FlatOf v2 a items := by
  induction h with
  | list ht hi => exact .list (le.typeOf _ _ ht) (le.listItems _ _ hi)
  | concat ht hc _ _ ihl ihr => exact .concat (le.typeOf _ _ ht) (le.concatenation _ _ hc) ihl ihr
  | other ht h1 h2 => exact .other (le.typeOf _ _ ht) h1 h2

mutual
theorem decodes_mono {v1 v2 : StoreView F} (le : ViewLe v1 v2) : ∀ {a : Nat} {v : Val F},
    Decodes v1 a v → Decodes v2 a v
  | _, _, .unit h => .unit (le.typeOf _ _ h)
  | _, _, .tru h => .tru (le.typeOf _ _ h)
  | _, _, .fls h => .fls (le.typeOf _ _ h)
  | _, _, .num h g => .num (le.typeOf _ _ h) (le.number _ _ g)
  | _, _, .char h g => .char (le.typeOf _ _ h) (le.char _ _ g)
  | _, _, .byte h g => .byte (le.typeOf _ _ h) (le.byte _ _ g)
  | _, _, .sym h g => .sym (le.typeOf _ _ h) (le.symbol _ _ g)
  | _, _, .expr h g => .expr (le.typeOf _ _ h) (le.expression _ _ g)
  | _, _, .ext h g => .ext (le.typeOf _ _ h) (le.external _ _ g)
  | _, _, .type h g => .type (le.typeOf _ _ h) (le.type_ _ _ g)
  | _, _, .chars h g => .chars (le.typeOf _ _ h) (le.chars _ _ g)
  | _, _, .bytes h g => .bytes (le.typeOf _ _ h) (le.bytes _ _ g)
  | _, _, .symList h g => .symList (le.typeOf _ _ h) (le.symList _ _ g)
  | _, _, .pair h g dl dr => .pair (le.typeOf _ _ h) (le.pair _ _ g) (decodes_mono le dl) (decodes_mono le dr)
  | _, _, .list h g dl => .list (le.typeOf _ _ h) (le.listItems _ _ g) (decodesList_mono le dl)
  | _, _, .concat h g dl dr fl fr ci => .concat (le.typeOf _ _ h) (le.concatenation _ _ g) (decodes_mono le dl)
      (decodes_mono le dr) (flatOf_mono le fl) (flatOf_mono le fr) (le.concatItems _ _ ci)
  | _, _, .range h g dl dr => .range (le.typeOf _ _ h) (le.range _ _ g) (decodes_mono le dl) (decodes_mono le dr)
  | _, _, .slice h g dl dr => .slice (le.typeOf _ _ h) (le.slice _ _ g) (decodes_mono le dl) (decodes_mono le dr)
  | _, _, .part h g dl dr => .part (le.typeOf _ _ h) (le.partial_ _ _ g) (decodes_mono le dl) (decodes_mono le dr)
  | _, _, .custom h => .custom (le.typeOf _ _ h)
theorem decodesList_mono {v1 v2 : StoreView F} (le : ViewLe v1 v2) : ∀ {as : List Nat} {vs : List (Val F)},
    DecodesList v1 as vs → DecodesList v2 as vs
  | _, _, .nil => .nil
  | _, _, .cons h t => .cons (decodes_mono le h) (decodesList_mono le t)
end

end Garnish.Lemmas.Runtime
