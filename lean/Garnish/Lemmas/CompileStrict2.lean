/-
The strict evaluator and `evalF`: `strict_or` — they agree unless the strict one reports the state error.
-/
import Garnish.Lemmas.CompileStrict
namespace Garnish.Spec
open Garnish Gen Garnish.Abs

variable {F : Type} (fo : FloatOps F) (host : Host F)

macro "closeL" : tactic => `(tactic| first | exact .inl rfl | exact .inl trivial | (left; rfl) | (dsimp only; exact .inl rfl))

/-- the five statements for one amount of fuel -/
def StrictOr (fuel : Nat) : Prop :=
  (∀ bodies cur e st, evalFS fo host bodies cur fuel e st = evalF fo host bodies cur fuel e st ∨
      evalFS fo host bodies cur fuel e st = .err .state) ∧
  (∀ bodies cur items st acc, evalListS fo host bodies cur fuel items st acc = evalList fo host bodies cur fuel items st acc ∨
      evalListS fo host bodies cur fuel items st acc = .err .state) ∧
  (∀ bodies cur arms final st, evalChainS fo host bodies cur fuel arms final st = evalChain fo host bodies cur fuel arms final st ∨
      evalChainS fo host bodies cur fuel arms final st = .err .state) ∧
  (∀ bodies cur instr useRight f x st,
      applyValsS fo host bodies cur fuel instr useRight f x st = applyVals fo host bodies cur fuel instr useRight f x st ∨
      applyValsS fo host bodies cur fuel instr useRight f x st = .err .state) ∧
  (∀ bodies cur body st, evalBodyS fo host bodies cur fuel body st = evalBody fo host bodies cur fuel body st ∨
      evalBodyS fo host bodies cur fuel body st = .err .state)

theorem strictOr_zero : StrictOr fo host 0 := by
  refine ⟨fun _ _ _ _ => .inl ?_, fun _ _ _ _ _ => .inl ?_, fun _ _ _ _ _ => .inl ?_, fun _ _ _ _ _ _ _ => .inl ?_,
    fun _ _ _ _ => .inl ?_⟩
  · simp [evalFS, evalF]
  · simp [evalListS, evalList]
  · simp [evalChainS, evalChain]
  · simp [applyValsS, applyVals]
  · simp [evalBodyS, evalBody]

theorem strictF_step {fuel : Nat} (ih : StrictOr fo host fuel) (bodies : List (Nat × Expr F)) (cur : Nat) (e : Expr F) (st : St F) :
    evalFS fo host bodies cur (fuel + 1) e st = evalF fo host bodies cur (fuel + 1) e st ∨
    evalFS fo host bodies cur (fuel + 1) e st = .err .state := by
  obtain ⟨ihF, ihL, ihC, ihA, ihB⟩ := ih
  cases e with
  | lit v => exact .inl (by simp [evalFS, evalF])
  | input => exact .inl (by simp [evalFS, evalF])
  | ident sym =>
    simp only [evalFS, evalF]
    generalize resolveVal fo host st sym = o
    rcases o with ⟨⟨vf, st1⟩⟩ | e | _ <;> closeL
  | unary op x =>
    simp only [evalFS, evalF]
    rcases ihF bodies cur x st with hx | hx <;> rw [hx]
    · generalize evalF fo host bodies cur fuel x st = o
      rcases o with ⟨⟨v | v, st1⟩⟩ | e | _ <;> dsimp only <;> try (closeL)
      by_cases hop : (op == .emptyApply) = true
      · simp only [hop, if_true]; exact ihA bodies cur .emptyApply false v .unit st1
      · simp only [hop]; closeL
    · exact .inr rfl
  | binary op l r =>
    simp only [evalFS, evalF]
    rcases ihF bodies cur l st with hx | hx <;> rw [hx]
    case inr => exact .inr rfl
    generalize evalF fo host bodies cur fuel l st = o
    rcases o with ⟨⟨vl | vl, st1⟩⟩ | e | _ <;> dsimp only <;> try (closeL)
    rcases ihF bodies cur r st1 with hx | hx <;> rw [hx]
    case inr => exact .inr rfl
    generalize evalF fo host bodies cur fuel r st1 = o
    rcases o with ⟨⟨vr | vr, st2⟩⟩ | e | _ <;> dsimp only <;> try (closeL)
    by_cases hop : (op == .apply) = true
    · simp only [hop, if_true]; exact ihA bodies cur .apply true vl vr st2
    · simp only [hop]; closeL
  | pair l r =>
    simp only [evalFS, evalF]
    rcases ihF bodies cur r st with hx | hx <;> rw [hx]
    case inr => exact .inr rfl
    generalize evalF fo host bodies cur fuel r st = o
    rcases o with ⟨⟨vr | vr, st1⟩⟩ | e | _ <;> dsimp only <;> try (closeL)
    rcases ihF bodies cur l st1 with hx | hx <;> rw [hx]
    case inr => exact .inr rfl
    generalize evalF fo host bodies cur fuel l st1 = o
    rcases o with ⟨⟨vl | vl, st2⟩⟩ | e | _ <;> dsimp only <;> try (closeL)
  | applyTo x f =>
    simp only [evalFS, evalF]
    rcases ihF bodies cur f st with hx | hx <;> rw [hx]
    case inr => exact .inr rfl
    generalize evalF fo host bodies cur fuel f st = o
    rcases o with ⟨⟨vf | vf, st1⟩⟩ | e | _ <;> dsimp only <;> try (closeL)
    rcases ihF bodies cur x st1 with hx | hx <;> rw [hx]
    case inr => exact .inr rfl
    generalize evalF fo host bodies cur fuel x st1 = o
    rcases o with ⟨⟨vx | vx, st2⟩⟩ | e | _ <;> dsimp only <;> try (closeL)
    exact ihA bodies cur .apply true vf vx st2
  | list items =>
    simp only [evalFS, evalF]
    rcases ihL bodies cur items st [] with hx | hx <;> rw [hx]
    · closeL
    · exact .inr rfl
  | cond onTrue c t =>
    simp only [evalFS, evalF]
    rcases ihF bodies cur c st with hx | hx <;> rw [hx]
    case inr => exact .inr rfl
    generalize evalF fo host bodies cur fuel c st = o
    rcases o with ⟨⟨vc | vc, st1⟩⟩ | e | _ <;> dsimp only <;> try (closeL)
    by_cases hc : (vc.truthy == onTrue) = true
    · simp only [hc, if_true]; exact ihF bodies cur t st1
    · simp only [hc]; closeL
  | chain arms final =>
    simp only [evalFS, evalF]
    exact ihC bodies cur arms final st
  | and l r =>
    simp only [evalFS, evalF]
    rcases ihF bodies cur l st with hx | hx <;> rw [hx]
    case inr => exact .inr rfl
    generalize evalF fo host bodies cur fuel l st = o
    rcases o with ⟨⟨vl | vl, st1⟩⟩ | e | _ <;> dsimp only <;> try (closeL)
    by_cases hc : vl.truthy = true
    · simp only [hc, if_true]
      rcases ihF bodies cur r st1 with hx | hx <;> rw [hx]
      case inr => exact .inr rfl
      generalize evalF fo host bodies cur fuel r st1 = o
      rcases o with ⟨⟨vr | vr, st2⟩⟩ | e | _ <;> dsimp only <;> try (closeL)
    · simp only [hc]; closeL
  | or l r =>
    simp only [evalFS, evalF]
    rcases ihF bodies cur l st with hx | hx <;> rw [hx]
    case inr => exact .inr rfl
    generalize evalF fo host bodies cur fuel l st = o
    rcases o with ⟨⟨vl | vl, st1⟩⟩ | e | _ <;> dsimp only <;> try (closeL)
    by_cases hc : vl.truthy = true
    · simp only [hc, if_true]; closeL
    · simp only [hc]
      rcases ihF bodies cur r st1 with hx | hx <;> rw [hx]
      case inr => exact .inr rfl
      generalize evalF fo host bodies cur fuel r st1 = o
      rcases o with ⟨⟨vr | vr, st2⟩⟩ | e | _ <;> dsimp only <;> try (closeL)
  | seq a b =>
    simp only [evalFS, evalF]
    rcases ihF bodies cur a st with hx | hx <;> rw [hx]
    case inr => exact .inr rfl
    generalize evalF fo host bodies cur fuel a st = o
    rcases o with ⟨⟨va | va, st1⟩⟩ | e | _ <;> dsimp only <;> try (closeL)
    exact ihF bodies cur b _
  | sideAfter x body =>
    simp only [evalFS, evalF]
    rcases ihF bodies cur x st with hx | hx <;> rw [hx]
    case inr => exact .inr rfl
    generalize evalF fo host bodies cur fuel x st = o
    rcases o with ⟨⟨vx | vx, st1⟩⟩ | e | _ <;> dsimp only <;> try (closeL)
    rcases ihF bodies cur body st1 with hx | hx <;> rw [hx]
    case inr => exact .inr rfl
    generalize evalF fo host bodies cur fuel body st1 = o
    rcases o with ⟨⟨vb | vb, st2⟩⟩ | e | _ <;> dsimp only <;> try (closeL)
  | nested id => exact .inl (by simp only [evalFS, evalF])
  | emptyNested => exact .inl (by simp only [evalFS, evalF])
  | reapply x =>
    simp only [evalFS, evalF]
    rcases ihF bodies cur x st with hx | hx <;> rw [hx]
    case inr => exact .inr rfl
    generalize evalF fo host bodies cur fuel x st = o
    rcases o with ⟨⟨v | v, st1⟩⟩ | e | _ <;> dsimp only <;> try (closeL)
  | prefixApply sym x =>
    simp only [evalFS, evalF]
    generalize resolveVal fo host st sym = o
    rcases o with ⟨⟨vf, st1⟩⟩ | e | _ <;> dsimp only <;> try (closeL)
    rcases ihF bodies cur x st1 with hx | hx <;> rw [hx]
    case inr => exact .inr rfl
    generalize evalF fo host bodies cur fuel x st1 = o
    rcases o with ⟨⟨vx | vx, st2⟩⟩ | e | _ <;> dsimp only <;> try (closeL)
    exact ihA bodies cur .apply true vf vx st2
  | suffixApply x sym =>
    simp only [evalFS, evalF]
    generalize resolveVal fo host st sym = o
    rcases o with ⟨⟨vf, st1⟩⟩ | e | _ <;> dsimp only <;> try (closeL)
    rcases ihF bodies cur x st1 with hx | hx <;> rw [hx]
    case inr => exact .inr rfl
    generalize evalF fo host bodies cur fuel x st1 = o
    rcases o with ⟨⟨vx | vx, st2⟩⟩ | e | _ <;> dsimp only <;> try (closeL)
    exact ihA bodies cur .apply true vf vx st2
  | infixApply a sym b =>
    simp only [evalFS, evalF]
    generalize resolveVal fo host st sym = o
    rcases o with ⟨⟨vf, st1⟩⟩ | e | _ <;> dsimp only <;> try (closeL)
    rcases ihF bodies cur a st1 with hx | hx <;> rw [hx]
    case inr => exact .inr rfl
    generalize evalF fo host bodies cur fuel a st1 = o
    rcases o with ⟨⟨va | va, st2⟩⟩ | e | _ <;> dsimp only <;> try (closeL)
    rcases ihF bodies cur b st2 with hx | hx <;> rw [hx]
    case inr => exact .inr rfl
    generalize evalF fo host bodies cur fuel b st2 = o
    rcases o with ⟨⟨vb | vb, st3⟩⟩ | e | _ <;> dsimp only <;> try (closeL)
    exact ihA bodies cur .apply true vf (.list [va, vb]) st3

theorem strictOr_step {fuel : Nat} (ih : StrictOr fo host fuel) : StrictOr fo host (fuel + 1) := by
  refine ⟨strictF_step fo host ih, ?_, ?_, ?_, ?_⟩
  all_goals obtain ⟨ihF, ihL, ihC, ihA, ihB⟩ := ih
  · intro bodies cur items st acc
    cases items with
    | nil => exact .inl (by simp only [evalListS, evalList])
    | cons x xs =>
      simp only [evalListS, evalList]
      rcases ihF bodies cur x st with hx | hx <;> rw [hx]
      case inr => exact .inr rfl
      generalize evalF fo host bodies cur fuel x st = o
      rcases o with ⟨⟨v | v, st1⟩⟩ | e | _ <;> dsimp only <;> try closeL
      exact ihL bodies cur xs st1 (v :: acc)
  · intro bodies cur arms final st
    cases arms with
    | nil =>
      cases final with
      | none => exact .inr (by simp only [evalChainS])
      | some e => simp only [evalChainS, evalChain]; exact ihF bodies cur e st
    | cons a rest =>
      obtain ⟨onTrue, c, t⟩ := a
      simp only [evalChainS, evalChain]
      rcases ihF bodies cur c st with hx | hx <;> rw [hx]
      case inr => exact .inr rfl
      generalize evalF fo host bodies cur fuel c st = o
      rcases o with ⟨⟨vc | vc, st1⟩⟩ | e | _ <;> dsimp only <;> try closeL
      by_cases hc : (vc.truthy == onTrue) = true
      · simp only [hc, if_true]; exact ihF bodies cur t st1
      · simp only [hc]; exact ihC bodies cur rest final st1
  · intro bodies cur instr useRight f x st
    simp only [applyValsS, applyVals]
    cases applyKind fo instr useRight f x with
    | enter j input =>
      dsimp only
      cases lookupBody bodies j with
      | none => closeL
      | some body =>
        dsimp only
        rcases ihB bodies j body { st with inp := input } with hx | hx <;> rw [hx]
        · closeL
        · exact .inr rfl
    | external n arg => closeL
    | out o => closeL
  · intro bodies cur body st
    simp only [evalBodyS, evalBody]
    rcases ihF bodies cur body st with hx | hx <;> rw [hx]
    case inr => exact .inr rfl
    generalize evalF fo host bodies cur fuel body st = o
    rcases o with ⟨⟨v | v, st1⟩⟩ | e | _ <;> dsimp only <;> try closeL
    exact ihB bodies cur body _

theorem strictOr_all : ∀ fuel, StrictOr fo host fuel
  | 0 => strictOr_zero fo host
  | fuel + 1 => strictOr_step fo host (strictOr_all fuel)

/-- the strict evaluator agrees with `evalF` or reports the state error -/
theorem strict_or (bodies : List (Nat × Expr F)) (cur fuel : Nat) (body : Expr F) (st : St F) :
    evalBodyS fo host bodies cur fuel body st = evalBody fo host bodies cur fuel body st ∨
    evalBodyS fo host bodies cur fuel body st = .err .state :=
  (strictOr_all fo host fuel).2.2.2.2 bodies cur body st

/-- a value of the strict evaluator is the value of `evalF` -/
theorem strict_refines {bodies : List (Nat × Expr F)} {cur fuel : Nat} {body : Expr F} {st : St F} {r : Val F × St F}
    (h : evalBodyS fo host bodies cur fuel body st = .ok r) : evalBody fo host bodies cur fuel body st = .ok r := by
  rcases strict_or fo host bodies cur fuel body st with h' | h'
  · rw [← h', h]
  · rw [h'] at h; cases h

/-- … and when `evalF` gives a value, the strict evaluator gives the same value unless the evaluation reaches a missing
fall-through (which is what `.err .state` says then: `evalF` itself did not fail) -/
theorem strict_of_noFall {bodies : List (Nat × Expr F)} {cur fuel : Nat} {body : Expr F} {st : St F} {r : Val F × St F}
    (h : evalBody fo host bodies cur fuel body st = .ok r) (hn : evalBodyS fo host bodies cur fuel body st ≠ .err .state) :
    evalBodyS fo host bodies cur fuel body st = .ok r := by
  rcases strict_or fo host bodies cur fuel body st with h' | h'
  · rw [h', h]
  · exact absurd h' hn

end Garnish.Spec
