/-
Parentheses and the elaboration (3): `go` depends on a tree only through its shape, the token TEXT at its positions and the names
of its nested bodies (`TextEq`) — not on the positions themselves.  With `go_ungroup`: two trees whose `( )` nodes are all
redundant and that agree, parentheses removed, up to positions elaborate to the same program (`elabWith_wrap`, `elaborate_wrap`).
-/
import Garnish.Lemmas.WrapElab2
namespace Garnish.Abs.Source
open Garnish Garnish.Gen Garnish.Spec Garnish.Abs Garnish.Abs.Tree Garnish.Model.Parser Garnish.Model.Literals

variable {F : Type} (pf : List Char → Option F)

/-- same shape, same definitions, same token text at corresponding positions, same names for corresponding nested bodies -/
inductive TextEq (toks toks' : List PToken) (κ κ' : Nat → Nat) : RTree → RTree → Prop where
  | nil : TextEq toks toks' κ κ' .nil .nil
  | node {l l' r r' : RTree} {d : Definition} {k k' : Nat} : TextEq toks toks' κ κ' l l' → TextEq toks toks' κ κ' r r' →
      textAt toks k = textAt toks' k' → TextEq toks toks' κ κ' (.node l d k r) (.node l' d k' r')
  | group {i i' : RTree} {d : Definition} {k k' : Nat} : TextEq toks toks' κ κ' i i' → κ k = κ' k' →
      TextEq toks toks' κ κ' (.group d k i) (.group d k' i')

/-- the executable form -/
def textEqB (toks toks' : List PToken) (κ κ' : Nat → Nat) : RTree → RTree → Bool
  | .nil, .nil => true
  | .node l d k r, .node l' d' k' r' =>
    textEqB toks toks' κ κ' l l' && textEqB toks toks' κ κ' r r' && d == d' && textAt toks k == textAt toks' k'
  | .group d k i, .group d' k' i' => textEqB toks toks' κ κ' i i' && d == d' && κ k == κ' k'
  | _, _ => false

variable {toks toks' : List PToken} {κ κ' : Nat → Nat}

theorem textEqB_sound : ∀ (t t' : RTree), textEqB toks toks' κ κ' t t' = true → TextEq toks toks' κ κ' t t'
  | .nil, .nil, _ => .nil
  | .node l d k r, .node l' d' k' r', h => by
    simp only [textEqB, Bool.and_eq_true, beq_iff_eq] at h
    obtain ⟨⟨⟨h1, h2⟩, h3⟩, h4⟩ := h
    subst h3
    exact .node (textEqB_sound l l' h1) (textEqB_sound r r' h2) h4
  | .group d k i, .group d' k' i', h => by
    simp only [textEqB, Bool.and_eq_true, beq_iff_eq] at h
    obtain ⟨⟨h1, h2⟩, h3⟩ := h
    subst h2
    exact .group (textEqB_sound i i' h1) h3
  | .nil, .node _ _ _ _, h => by simp [textEqB] at h
  | .nil, .group _ _ _, h => by simp [textEqB] at h
  | .node _ _ _ _, .nil, h => by simp [textEqB] at h
  | .node _ _ _ _, .group _ _ _, h => by simp [textEqB] at h
  | .group _ _ _, .nil, h => by simp [textEqB] at h
  | .group _ _ _, .node _ _ _ _, h => by simp [textEqB] at h

theorem TextEq.map (f : Nat → Nat) : ∀ {t t' : RTree}, TextEq toks toks' κ κ' t t' →
    TextEq toks toks' (fun k => f (κ k)) (fun k => f (κ' k)) t t'
  | _, _, .nil => .nil
  | _, _, .node h1 h2 h3 => .node (h1.map f) (h2.map f) h3
  | _, _, .group h1 h2 => .group (h1.map f) (by simp only [h2])

theorem TextEq.nil_iff {t t' : RTree} (h : TextEq toks toks' κ κ' t t') : t = .nil ↔ t' = .nil := by
  cases h <;> simp

theorem TextEq.rootDef {t t' : RTree} (h : TextEq toks toks' κ κ' t t') : rootDef t = rootDef t' := by
  cases h <;> rfl

theorem TextEq.isSideNode {t t' : RTree} (h : TextEq toks toks' κ κ' t t') : isSideNode t = isSideNode t' := by
  cases h with
  | nil => rfl
  | group _ _ => rfl
  | node h1 _ _ => cases h1 <;> rfl

/-- **`go` sees the text, not the positions** -/
theorem go_textEq : ∀ (t t' : RTree), TextEq toks toks' κ κ' t t' → go pf κ toks t = go pf κ' toks' t'
  | _, _, .nil => by simp [go.eq_1]
  | .group d k i, .group _ k' i', .group hi hk => by
    have ih := go_textEq i i' hi
    have hn : i.isNil = i'.isNil := by
      cases hi <;> rfl
    rw [go_grp, go_grp, ih, hk, hn]
  | .node l d k r, .node l' _ k' r', .node hl hr ht => by
    have ihl := go_textEq l l' hl
    have ihr := go_textEq r r' hr
    have fl : ∀ d', rootIs l d' = rootIs l' d' := fun d' => by simp only [rootIs, hl.rootDef]
    have fr : ∀ d', rootIs r d' = rootIs r' d' := fun d' => by simp only [rootIs, hr.rootDef]
    by_cases hln : l = .nil
    · have hln' := hl.nil_iff.mp hln
      subst hln; subst hln'
      by_cases hrn : r = .nil
      · have hrn' := hr.nil_iff.mp hrn
        subst hrn; subst hrn'
        rw [go_leaf, go_leaf, ht]
      · have hrn' : r' ≠ .nil := fun e => hrn (hr.nil_iff.mpr e)
        by_cases hs : isSideNode r = true
        · have hs' : isSideNode r' = true := by rw [← hr.isSideNode]; exact hs
          cases hr with
          | nil => cases hs
          | group _ _ => cases hs
          | node h1 h2 h3 =>
            cases h1 with
            | node _ _ _ => cases hs
            | group _ _ => cases hs
            | nil =>
              simp only [isSideNode, beq_iff_eq] at hs
              subst hs
              rw [go_side, go_side, ht, go_textEq _ _ h2]
        · have hs0 : isSideNode r = false := by simpa using hs
          have hs0' : isSideNode r' = false := by rw [← hr.isSideNode]; exact hs0
          rw [go_pre _ _ _ _ _ _ hrn hs0, go_pre _ _ _ _ _ _ hrn' hs0', ihr, ht]
    · have hln' : l' ≠ .nil := fun e => hln (hl.nil_iff.mpr e)
      by_cases hrn : r = .nil
      · have hrn' := hr.nil_iff.mp hrn
        subst hrn; subst hrn'
        rw [go_suf _ _ _ _ _ _ hln, go_suf _ _ _ _ _ _ hln', ihl, ht]
      · have hrn' : r' ≠ .nil := fun e => hrn (hr.nil_iff.mpr e)
        rw [go_bin _ _ _ _ _ _ _ hln hrn, go_bin _ _ _ _ _ _ _ hln' hrn', ihl, ihr, ht]
        simp only [fl, fr, rootCond, isJumpIf, hl.rootDef, hr.rootDef]

end Garnish.Abs.Source
