/-
Operands with prefix operators, part 5: the first operand of a token list, the parse-level theorem `parse_oitems`
(acceptance + proper tree + reference tree) and the decidable recogniser `frag2` of
  (prefix* value) (trivia* binop trivia* prefix* value)*.
-/
import Garnish.Lemmas.ParserPrefix4

namespace Garnish.Spec
open Garnish Garnish.Gen Garnish.Model.Parser

theorem openInv_init : OpenInv PState.init :=
  ⟨rfl, rfl, rfl, rfl, rfl, Or.inl ⟨rfl, rfl⟩, Or.inl rfl⟩

/-- the first operand `prefix* value` of a token list, both sides -/
theorem first_operand (pre : List PToken) (a : PToken) (rest : List PToken) (hpre : ∀ p ∈ pre, isPrefixTok p = true)
    (ha : isAtom10 a = true) (hnum : NumberedFrom 0 (pre ++ a :: rest)) :
    ∃ st0, loop PState.init (pre ++ a :: rest) = loop st0 rest ∧
      FragInv st0 (chainTree 0 (pre.map (·.col)) a.col) 0 ∧
      refLoop Table.gen Frame.top [] 0 (pre ++ a :: rest) =
        refLoop Table.gen { Frame.top with cur := toRd (dfOf st0.nodes) (chainTree 0 (pre.map (·.col)) a.col),
                                            last := .operand } [] (pre.length + 1) rest := by
  obtain ⟨hsa, hqa⟩ := atom10_facts ha
  cases pre with
  | nil =>
    obtain ⟨st0, h0⟩ := first_step_ok a rest.isEmpty ha
    obtain ⟨hinv0, hdf0⟩ := first_step ha h0
    have hc0 : a.col = 0 := hnum.1
    refine ⟨st0, ?_, ?_, ?_⟩
    · simp only [List.nil_append, loop, h0, Outcome.bind]
    · simpa [chainTree] using hinv0
    · simp only [List.nil_append, List.map_nil, chainTree, toRd, hdf0, hc0, List.length_nil]
      exact ref_first a rest 0 ha
  | cons p ps =>
    obtain ⟨st2, nd, hloop, s2, lt2, hnd, lf2, hchain, ll2, c2, n2, g2, cg2, p2⟩ :=
      operand_tail openInv_init (p :: ps) (by simp [PState.init]) a rest hpre ha
    have hsz0 : PState.init.nodes.size = 0 := rfl
    rw [hsz0] at s2 lt2 hnd lf2 hchain ll2
    simp only [Nat.zero_add] at s2 lt2 hnd lf2 hchain ll2
    have hnp : PState.init.nextParent = none := rfl
    rw [hnp] at hchain
    have hpdef : ∀ (i : Nat) (h : i < (p :: ps).length),
        (st2.nodes[i]?).map (·.definition) = some (getDefinition ((p :: ps)[i]).type).1 := by
      intro i h
      rw [lt2 i h]
      have := pushP_def (p :: ps) PState.init i h
      rw [hsz0, Nat.zero_add] at this
      exact this
    have hnddef : nd.definition = (match (p :: ps).getLast? with
        | some q => (getDefinition q.type).1 | none => Definition.drop) := by
      have hidx := pushP_def (p :: ps) PState.init ((p :: ps).length - 1) (by simp)
      rw [hsz0, Nat.zero_add, hnd] at hidx
      simp only [Option.map_some, Option.some.injEq] at hidx
      rw [hidx]
      cases hgl : (p :: ps).getLast? with
      | none => simp at hgl
      | some pl =>
        have h1 := List.getLast?_eq_getElem? (l := p :: ps)
        rw [hgl] at h1
        have h2 := (List.getElem?_eq_some_iff.mp h1.symm)
        simp only
        rw [h2.2]
    have hinv0 : FragInv st2 (chainTree 0 ((p :: ps).map (·.col)) a.col) 0 := by
      refine ⟨hchain, ?_, by omega, by rw [ll2, s2]; rfl, c2, n2, g2, cg2, ?_, ?_, p2⟩
      · rw [chainTree_inorder, List.length_map, s2, List.range_eq_range']
      · intro i ndi hi
        by_cases c1 : i < (p :: ps).length
        · have := hpdef i c1
          rw [hi] at this
          simp only [Option.map_some, Option.some.injEq] at this
          rw [this]
          have hs : (getDefinition ((p :: ps)[i]).type).2 = .unaryPrefix := by
            have := hpre _ (List.getElem_mem c1)
            unfold isPrefixTok at this; simpa using this
          obtain ⟨qp, hqp, _⟩ := prefix_def_facts _ hs
          exact ⟨qp, hqp⟩
        · by_cases c2' : i = (p :: ps).length
          · subst c2'; rw [lf2] at hi; injection hi with hi; subst hi
            exact ⟨10, underDef_prio hqa⟩
          · have : st2.nodes[i]? = none := by apply Array.getElem?_eq_none; omega
            rw [this] at hi; cases hi
      · exact ⟨_, by rw [s2]; exact lf2, underDef_prio hqa⟩
    refine ⟨st2, hloop, hinv0, ?_⟩
    rw [ref_operand Frame.top 0 (p :: ps) a rest hpre ha (Or.inr rfl)]
    -- the reference tree of the first operand
    have hcur : plugLeaves Frame.top.cur (leavesP (p :: ps) 0 ++ [((getDefinition a.type).1, (p :: ps).length)]) =
        toRd (dfOf st2.nodes) (chainTree 0 ((p :: ps).map (·.col)) a.col) := by
      have hcp : p.col = 0 := hnum.1
      have hnumps : NumberedFrom 1 (ps ++ a :: rest) := hnum.2
      have hd0 : dfOf st2.nodes 0 = (getDefinition p.type).1 := by
        have := hpdef 0 (by simp)
        simp only [dfOf, this, Option.getD_some, List.getElem_cons_zero]
      have hsub := operand_hsub (dfOf st2.nodes) ps a 1 1 (getDefinition p.type).1 rest
        (fun x hx => hpre x (List.mem_cons_of_mem _ hx)) hnumps
        (by
          intro i h
          have := hpdef (i + 1) (by simp; omega)
          simp only [dfOf, Nat.add_comm 1 i, this, Option.getD_some, List.getElem_cons_succ])
        (by
          have e : 1 + ps.length = (p :: ps).length := by simp; omega
          simp only [dfOf, e, lf2, Option.map_some, Option.getD_some, hnddef]
          cases ps with
          | nil => rfl
          | cons p2 ps2 =>
            cases hgl : (p2 :: ps2).getLast? with
            | none => simp at hgl
            | some z => simp [List.getLast?_cons_cons, hgl])
        .nil 0
      have hfresh : plug RTree.nil (RTree.node .nil (getDefinition p.type).1 0 .nil) =
          RTree.node .nil (getDefinition p.type).1 0 .nil := rfl
      simp only [Frame.top, leavesP, List.cons_append, plugLeaves, hfresh, List.map_cons, chainTree, toRd, hd0, hcp]
      have e2 : (p :: ps).length = 1 + ps.length := by simp; omega
      rw [e2, Nat.zero_add]
      exact hsub
    simp only [Nat.zero_add]
    rw [hcur]
    rfl

theorem prefix_not_trimmable {p : PToken} (hp : isPrefixTok p = true) : isTrimmable p = false := by
  unfold isPrefixTok at hp
  unfold isTrimmable
  revert hp
  cases p.type <;> simp [getDefinition]

theorem last_atom_oitems : ∀ (items : List OItem) (a0 : PToken), isAtom10 a0 = true → (∀ it ∈ items, it.ok) →
    isAtom10 ((a0 :: flatDecO items).getLast (by simp)) = true
  | [], a0, h0, _ => by simpa [flatDecO] using h0
  | it :: items, a0, _, h => by
    have hok := h it (List.mem_cons_self ..)
    have := last_atom_oitems items it.atom hok.2.2.2.2 (fun x hx => h x (List.mem_cons_of_mem _ hx))
    have e : a0 :: flatDecO (it :: items) =
        (a0 :: (it.ws1 ++ it.op :: (it.ws2 ++ it.pre))) ++ (it.atom :: flatDecO items) := by
      simp [flatDecO, OItem.dec]
    simp only [e]
    rw [List.getLast_append_of_ne_nil _ (by simp)]
    exact this

/-- **stage 2, items form**: the model of `parse` accepts, the result is a proper tree, and it is the reference tree -/
theorem parse_oitems (pre0 : List PToken) (a0 : PToken) (items : List OItem) (hpre0 : ∀ p ∈ pre0, isPrefixTok p = true)
    (ha0 : isAtom10 a0 = true) (hoks : ∀ it ∈ items, it.ok) (hnum : NumberedFrom 0 (pre0 ++ a0 :: flatDecO items)) :
    ∃ r t, parse (pre0 ++ a0 :: flatDecO items) = .ok r ∧ toTree r = some t ∧
      refParse Table.gen (pre0 ++ a0 :: flatDecO items) = .ok (toRd (dfOf r.nodes) t) := by
  have hne : pre0 ++ a0 :: flatDecO items ≠ [] := by simp
  have hhead : isTrimmable ((pre0 ++ a0 :: flatDecO items).head hne) = false := by
    cases pre0 with
    | nil => exact atom10_not_trimmable ha0
    | cons p ps => exact prefix_not_trimmable (hpre0 p (List.mem_cons_self ..))
  have hlast : isTrimmable ((pre0 ++ a0 :: flatDecO items).getLast hne) = false := by
    rw [List.getLast_append_of_ne_nil _ (by simp)]
    exact atom10_not_trimmable (last_atom_oitems items a0 ha0 hoks)
  obtain ⟨htrim, hts, htr⟩ := trim_id _ hne hhead hlast
  obtain ⟨st0, hloop0, hinv0, href0⟩ := first_operand pre0 a0 (flatDecO items) hpre0 ha0 hnum
  have hnum' : NumberedFrom (pre0.length + 1) (flatDecO items) := by
    have := numbered_append pre0 (a0 :: flatDecO items) 0 hnum
    rw [Nat.zero_add] at this
    exact this.2
  obtain ⟨stF, TF, rtF, hlF, hinvF, hrefF⟩ := frag_loop_oitems items st0 _ 0
    { Frame.top with cur := toRd (dfOf st0.nodes) (chainTree 0 (pre0.map (·.col)) a0.col), last := .operand }
    (pre0.length + 1) hinv0 rfl rfl hoks hnum'
  obtain ⟨r, hr⟩ := finish_ok hinvF
  obtain ⟨ht, hn⟩ := finish_frag hinvF hr
  refine ⟨r, TF, ?_, ht, ?_⟩
  · unfold parse
    rw [htrim]
    have he : (pre0 ++ a0 :: flatDecO items).isEmpty = false := by cases pre0 <;> rfl
    simp only [Outcome.bind, he, Bool.false_eq_true, if_false, hloop0, hlF, hr]
  · have href : refParse Table.gen (pre0 ++ a0 :: flatDecO items) =
        refLoop Table.gen Frame.top [] 0 (pre0 ++ a0 :: flatDecO items) := by
      unfold refParse
      simp only [hts, htr]
      have hlen : ¬ (0 ≥ (pre0 ++ a0 :: flatDecO items).length) := by simp
      simp only [List.drop_zero, Nat.sub_zero, List.take_length, hlen, if_false]
    rw [href, href0, hn]
    exact hrefF

/-! ### decidable recogniser -/

inductive Acc2 where
  | start (ws1 : List PToken)
  | afterOp (ws1 : List PToken) (o : PToken) (ws2 : List PToken)
  | inPre (ws1 : List PToken) (o : PToken) (ws2 pre : List PToken)

/-- splits `(trivia* binop trivia* prefix* value)*` into items -/
def splitO : Acc2 → List PToken → Option (List OItem)
  | .start [], [] => some []
  | .start (_ :: _), [] => none
  | .afterOp _ _ _, [] => none
  | .inPre _ _ _ _, [] => none
  | .start ws1, t :: rest =>
    if isTriviaTok t then splitO (.start (ws1 ++ [t])) rest
    else if isBinopTok t then splitO (.afterOp ws1 t []) rest else none
  | .afterOp ws1 o ws2, t :: rest =>
    if isTriviaTok t then splitO (.afterOp ws1 o (ws2 ++ [t])) rest
    else if isPrefixTok t then splitO (.inPre ws1 o ws2 [t]) rest
    else if isAtom10 t then (splitO (.start []) rest).map (fun items => ⟨ws1, o, ws2, [], t⟩ :: items) else none
  | .inPre ws1 o ws2 pre, t :: rest =>
    if isPrefixTok t then splitO (.inPre ws1 o ws2 (pre ++ [t])) rest
    else if isAtom10 t then (splitO (.start []) rest).map (fun items => ⟨ws1, o, ws2, pre, t⟩ :: items) else none

def Acc2.toks : Acc2 → List PToken
  | .start ws1 => ws1
  | .afterOp ws1 o ws2 => ws1 ++ o :: ws2
  | .inPre ws1 o ws2 pre => ws1 ++ o :: (ws2 ++ pre)

def Acc2.ok : Acc2 → Prop
  | .start ws1 => ∀ w ∈ ws1, isTriviaTok w = true
  | .afterOp ws1 o ws2 => (∀ w ∈ ws1, isTriviaTok w = true) ∧ isBinopTok o = true ∧ ∀ w ∈ ws2, isTriviaTok w = true
  | .inPre ws1 o ws2 pre =>
    (∀ w ∈ ws1, isTriviaTok w = true) ∧ isBinopTok o = true ∧ (∀ w ∈ ws2, isTriviaTok w = true) ∧
      ∀ p ∈ pre, isPrefixTok p = true

theorem mem_snoc {α : Type} {P : α → Prop} {l : List α} {t : α} (hl : ∀ x ∈ l, P x) (ht : P t) : ∀ x ∈ l ++ [t], P x := by
  intro x hx
  rcases List.mem_append.mp hx with h | h
  · exact hl x h
  · simp at h; subst h; exact ht

theorem splitO_sound : ∀ (toks : List PToken) (acc : Acc2) (items : List OItem), acc.ok →
    splitO acc toks = some items → acc.toks ++ toks = flatDecO items ∧ ∀ it ∈ items, it.ok := by
  intro toks
  induction toks with
  | nil =>
    intro acc items _ h
    cases acc with
    | start ws1 =>
      cases ws1 with
      | nil => simp only [splitO, Option.some.injEq] at h; subst h; simp [Acc2.toks, flatDecO]
      | cons w ws => simp [splitO] at h
    | afterOp ws1 o ws2 => simp [splitO] at h
    | inPre ws1 o ws2 pre => simp [splitO] at h
  | cons t rest ih =>
    intro acc items hacc h
    cases acc with
    | start ws1 =>
      simp only [splitO] at h
      split at h
      · rename_i ht
        obtain ⟨e, hok⟩ := ih (.start (ws1 ++ [t])) items (mem_snoc hacc ht) h
        exact ⟨by simpa [Acc2.toks] using e, hok⟩
      · split at h
        · rename_i hb
          obtain ⟨e, hok⟩ := ih (.afterOp ws1 t []) items ⟨hacc, hb, by simp⟩ h
          exact ⟨by simpa [Acc2.toks] using e, hok⟩
        · cases h
    | afterOp ws1 o ws2 =>
      obtain ⟨h1, h2, h3⟩ := hacc
      simp only [splitO] at h
      split at h
      · rename_i ht
        obtain ⟨e, hok⟩ := ih (.afterOp ws1 o (ws2 ++ [t])) items ⟨h1, h2, mem_snoc h3 ht⟩ h
        exact ⟨by simpa [Acc2.toks] using e, hok⟩
      · split at h
        · rename_i hp
          obtain ⟨e, hok⟩ := ih (.inPre ws1 o ws2 [t]) items ⟨h1, h2, h3, by simpa using hp⟩ h
          exact ⟨by simpa [Acc2.toks] using e, hok⟩
        · split at h
          · rename_i ha
            cases hrec : splitO (.start []) rest with
            | none => simp [hrec] at h
            | some items' =>
              simp only [hrec, Option.map_some, Option.some.injEq] at h
              subst h
              obtain ⟨e, hok⟩ := ih (.start []) items' (by simp [Acc2.ok]) hrec
              simp only [Acc2.toks, List.nil_append] at e
              refine ⟨by simp [Acc2.toks, flatDecO, OItem.dec, e], ?_⟩
              intro it hit
              rcases List.mem_cons.mp hit with rfl | hit
              · exact ⟨h1, h2, h3, by simp, ha⟩
              · exact hok it hit
          · cases h
    | inPre ws1 o ws2 pre =>
      obtain ⟨h1, h2, h3, h4⟩ := hacc
      simp only [splitO] at h
      split at h
      · rename_i hp
        obtain ⟨e, hok⟩ := ih (.inPre ws1 o ws2 (pre ++ [t])) items ⟨h1, h2, h3, mem_snoc h4 hp⟩ h
        exact ⟨by simpa [Acc2.toks] using e, hok⟩
      · split at h
        · rename_i ha
          cases hrec : splitO (.start []) rest with
          | none => simp [hrec] at h
          | some items' =>
            simp only [hrec, Option.map_some, Option.some.injEq] at h
            subst h
            obtain ⟨e, hok⟩ := ih (.start []) items' (by simp [Acc2.ok]) hrec
            simp only [Acc2.toks, List.nil_append] at e
            refine ⟨by simp [Acc2.toks, flatDecO, OItem.dec, e], ?_⟩
            intro it hit
            rcases List.mem_cons.mp hit with rfl | hit
            · exact ⟨h1, h2, h3, h4, ha⟩
            · exact hok it hit
        · cases h

theorem takeWhile_all {α : Type} (f : α → Bool) : ∀ (l : List α) (x : α), x ∈ l.takeWhile f → f x = true
  | [], _, h => by simp at h
  | y :: ys, x, h => by
    simp only [List.takeWhile_cons] at h
    split at h
    · rename_i hy
      rcases List.mem_cons.mp h with rfl | h
      · exact hy
      · exact takeWhile_all f ys x h
    · simp at h

/-- **the stage 2 fragment**: `(prefix* value) (trivia* binop trivia* prefix* value)*` -/
def frag2 (toks : List PToken) : Bool :=
  match toks.dropWhile isPrefixTok with
  | a :: rest => isAtom10 a && (splitO (.start []) rest).isSome
  | [] => false

theorem frag2_sound {toks : List PToken} (h : frag2 toks = true) :
    ∃ pre0 a0 items, toks = pre0 ++ a0 :: flatDecO items ∧ (∀ p ∈ pre0, isPrefixTok p = true) ∧ isAtom10 a0 = true ∧
      ∀ it ∈ items, it.ok := by
  unfold frag2 at h
  cases hd : toks.dropWhile isPrefixTok with
  | nil => simp [hd] at h
  | cons a rest =>
    simp only [hd, Bool.and_eq_true] at h
    obtain ⟨ha, hs⟩ := h
    obtain ⟨items, hitems⟩ := Option.isSome_iff_exists.mp hs
    obtain ⟨e, hok⟩ := splitO_sound rest (.start []) items (by simp [Acc2.ok]) hitems
    simp only [Acc2.toks, List.nil_append] at e
    refine ⟨toks.takeWhile isPrefixTok, a, items, ?_, ?_, ha, hok⟩
    · rw [← e, ← hd, List.takeWhile_append_dropWhile]
    · intro p hp; exact takeWhile_all _ _ p hp

/-- **stage 2, recogniser form** -/
theorem parse_frag2 (toks : List PToken) (hf : frag2 toks = true) (hnum : NumberedFrom 0 toks) :
    ∃ r t, parse toks = .ok r ∧ toTree r = some t ∧ refParse Table.gen toks = .ok (toRd (dfOf r.nodes) t) := by
  obtain ⟨pre0, a0, items, rfl, hpre0, ha0, hoks⟩ := frag2_sound hf
  exact parse_oitems pre0 a0 items hpre0 ha0 hoks hnum

end Garnish.Spec
