/-
C04, builder half — the order of the out-of-line parts, part 9: the root pop, the neutral updates, the initial state.
-/
import Garnish.Lemmas.BuildLifo8
namespace Garnish.Lemmas.BuildSeq
open Garnish Garnish.Gen Garnish.Model.Parser Garnish.Model.Literals Garnish.Model.Build Garnish.Lemmas.Build
open Garnish.Lemmas.BuildTotal
open Garnish.Lemmas.BuildOrder (Above above_append_left above_append_mem above_append_right above_mem above_irrefl
  above_top_false above_init Attr get_append attr_append)

variable {F : Type} {root : Nat} {tree : Array ParseNode} {G : Nat → Prop} {m0 : Nat}

theorem pop_linv (V : Validated root tree G) {ph : Nat → Phase} {ctx : Ctx F} (hinv : Inv root tree G ph ctx) {r0 : Nat}
    (hb : ctx.rootStack.back? = some r0) {nodes : Nodes} {M : Array (Option Nat)}
    (ho : SInv root tree G m0 ph [] nodes M) (hl : LInv root tree G m0 ph nodes ctx.rootStack.toList M) :
    LInv root tree G m0 (popPhase ph r0) nodes ctx.rootStack.pop.toList M := by
  have hR := toList_of_back hb
  have hnd : (ctx.rootStack.pop.toList ++ [r0]).Nodup := by rw [← hR]; exact hinv.rootNodup
  have hmem : r0 ∈ ctx.rootStack.toList := by rw [hR]; simp
  obtain ⟨_, hrp⟩ := hinv.rootOk r0 hmem
  have hr' : popPhase ph r0 r0 = .p1 := by simp [popPhase]
  have hother : ∀ x, x ≠ r0 → popPhase ph r0 x = ph x := by intro x hx; simp [popPhase, hx]
  have hnone : ∀ x, ¬ Act ph x := fun x hx => by have := ho.onStack x hx; cases this
  -- a phase other than p1 is the old phase
  have hold : ∀ x, popPhase ph r0 x ≠ .p1 → x ≠ r0 ∧ popPhase ph r0 x = ph x := by
    intro x hx
    have : x ≠ r0 := fun e => hx (e ▸ hr')
    exact ⟨this, hother x this⟩
  have h3 : ∀ x, ph x = .p3 → popPhase ph r0 x = .p3 := by
    intro x hx
    have : x ≠ r0 := fun e => by rw [e, hrp] at hx; cases hx
    rw [hother x this]; exact hx
  have hne0 : ∀ x, ph x ≠ .p0 → popPhase ph r0 x ≠ .p0 := by
    intro x hx
    rcases Classical.em (x = r0) with e | e
    · rw [e, hr']; intro h; cases h
    · rw [hother x e]; exact hx
  have hnpc : ∀ x, (∀ o, ph x ≠ .pc o) → ∀ o, popPhase ph r0 x ≠ .pc o := by
    intro x hx o
    rcases Classical.em (x = r0) with e | e
    · rw [e, hr']; intro h; cases h
    · rw [hother x e]; exact hx o
  refine ⟨?_, ?_, ?_, hl.cpOk, ?_, ?_, ?_, ?_, ?_, ?_, ?_, ?_, ?_, ?_, ?_, hl.noGroup, hl.ordL⟩
  · intro x hx
    rcases Classical.em (x = r0) with e | e
    · exact hl.reach x (by rw [e, hrp]; intro h; cases h)
    · rw [hother x e] at hx; exact hl.reach x hx
  · intro x hx
    have := hold x (by rcases hx with h | ⟨o, h⟩ <;> rw [h] <;> intro h' <;> cases h')
    rw [this.2] at hx; exact hl.noNode x hx
  · intro x h0 hc
    rcases Classical.em (x = r0) with e | e
    · exact hl.hasNode x (by rw [e, hrp]; intro h; cases h) (fun o h => by rw [e, hrp] at h; cases h)
    · rw [hother x e] at h0
      exact hl.hasNode x h0 (fun o h => hc o (by rw [hother x e]; exact h))
  · intro x hx
    obtain ⟨hxr, hsame⟩ := hold x (by rw [hx]; intro h; cases h)
    rw [hsame] at hx
    have := hl.onRoot x hx
    rw [hR] at this
    rcases List.mem_append.1 this with h | h
    · exact h
    · simp only [List.mem_singleton] at h; exact absurd h hxr
  · intro y c hy hc hyv
    obtain ⟨_, hsame⟩ := hold y (by rcases hyv with h | h <;> rw [h] <;> intro h' <;> cases h')
    rw [hsame] at hyv
    exact hne0 c (hl.sched y c hy hc hyv)
  · intro x o hx
    obtain ⟨_, hsame⟩ := hold x (by rw [hx]; intro h; cases h)
    rw [hsame] at hx
    obtain ⟨k, kn, bn, g1, g2, g3, g4, g5, g6, g7⟩ := hl.recd x o hx
    exact ⟨k, kn, bn, g1, g2, g3, g4, h3 k g5, g6, g7⟩
  · intro r s k hs hs3
    obtain ⟨_, hsame⟩ := hold s (by rw [hs3]; intro h; cases h)
    rw [hsame] at hs3
    obtain ⟨a, b⟩ := hl.pushed r s k hs hs3
    exact ⟨hne0 r a, hnpc r b⟩
  · intro r s k ha hk3
    obtain ⟨_, hsame⟩ := hold k (by rw [hk3]; intro h; cases h)
    rw [hsame] at hk3
    exact hne0 r (hl.armRec r s k ha hk3)
  · intro r s k ha hr
    refine h3 s (hl.armLate r s k ha ?_)
    rcases Classical.em (r = r0) with e | e
    · rw [e]; exact Or.inl hrp
    · rw [hother r e] at hr; exact hr
  · intro r1 r2 x hrel hsx hxp
    obtain ⟨hxr, hsame⟩ := hold x (by rw [hxp]; intro h; cases h)
    rw [hsame] at hxp
    obtain ⟨hp, hab⟩ := hl.lifoR r1 r2 x hrel hsx hxp
    rw [hR] at hab
    have hr1 : r1 ≠ r0 := fun e => above_top_false hnd (e ▸ hab)
    exact ⟨by rw [hother r1 hr1]; exact hp, above_init hab hxr⟩
  · intro r1 r2 x hrel hsx hact
    have hx : x = r0 := by
      rcases Classical.em (x = r0) with e | e
      · exact e
      · rw [Act, hother x e] at hact; exact absurd hact (hnone x)
    subst hx
    obtain ⟨hp, hab⟩ := hl.lifoR r1 r2 x hrel hsx hrp
    rw [hR] at hab
    have hr1 : r1 ≠ x := fun e => above_irrefl hnd (e ▸ hab)
    rw [hother r1 hr1]; exact hp
  · intro r1 r2 s k1 k2 bn ha1 ha2 hlb hr2 hbn
    obtain ⟨_, hsame⟩ := hold r2 (by rw [hr2]; intro h; cases h)
    rw [hsame] at hr2
    obtain ⟨hp, hab⟩ := hl.armsOrd r1 r2 s k1 k2 bn ha1 ha2 hlb hr2 hbn
    have hr1 : r1 ≠ r0 := fun e => by rw [e, hrp] at hp; cases hp
    exact ⟨by rw [hother r1 hr1]; exact hp, hab⟩
  · intro k r hk hool hr
    refine hl.schedEx k r hk hool ?_
    rcases Classical.em (r = r0) with e | e
    · rw [e]; exact Or.inl hrp
    · rw [hother r e] at hr; exact hr
  · intro y c hy hc hnl hno
    have h0 := hl.ignored y c hy hc hnl hno
    have hcr : c ≠ r0 := fun e => by rw [e, hrp] at h0; cases h0
    rw [hother c hcr]; exact h0

/-- `LInv` looks at the build nodes only through their existence, `conditional_parent` and `conditional_items` -/
theorem linv_nodes {ph : Nat → Phase} {R : List Nat} {nodes nodes' : Nodes} {M : Array (Option Nat)}
    (hl : LInv root tree G m0 ph nodes R M)
    (h1 : ∀ (x : Nat) (bn' : BuildNode), nodes'[x]? = some (some bn') → ∃ bn : BuildNode, nodes[x]? = some (some bn) ∧
      bn'.conditionalParent = bn.conditionalParent ∧ itemsOf bn' = itemsOf bn)
    (h2 : ∀ (x : Nat) (bn : BuildNode), nodes[x]? = some (some bn) → ∃ bn' : BuildNode, nodes'[x]? = some (some bn')) :
    LInv root tree G m0 ph nodes' R M := by
  refine ⟨hl.reach, ?_, ?_, ?_, hl.onRoot, hl.sched, ?_, hl.pushed, hl.armRec, hl.armLate, hl.lifoR, hl.lifoA, ?_, hl.schedEx,
    hl.ignored, hl.noGroup, hl.ordL⟩
  · intro x hx bn' hb'
    obtain ⟨bn, hb, _⟩ := h1 x bn' hb'
    exact hl.noNode x hx bn hb
  · intro x h0 hc
    obtain ⟨bn, hb⟩ := hl.hasNode x h0 hc
    exact h2 x bn hb
  · intro x bn' hb'
    obtain ⟨bn, hb, hc, _⟩ := h1 x bn' hb'
    rw [hc]; exact hl.cpOk x bn hb
  · intro x o hx
    obtain ⟨k, kn, bn, g1, g2, g3, g4, g5, g6, g7⟩ := hl.recd x o hx
    obtain ⟨bn', hb'⟩ := h2 o bn g6
    obtain ⟨bn0, hb0, _, hit⟩ := h1 o bn' hb'
    rw [g6] at hb0; cases hb0
    exact ⟨k, kn, bn', g1, g2, g3, g4, g5, hb', by rw [hit]; exact g7⟩
  · intro r1 r2 s k1 k2 bn' ha1 ha2 hlb hr2 hb'
    obtain ⟨bn, hb, _, hit⟩ := h1 s bn' hb'
    rw [hit]; exact hl.armsOrd r1 r2 s k1 k2 bn ha1 ha2 hlb hr2 hb

theorem linv_putNode_same {ph : Nat → Phase} {R : List Nat} {nodes : Nodes} {M : Array (Option Nat)}
    (hl : LInv root tree G m0 ph nodes R M) {i : Nat} {bn bn' : BuildNode} (hb : nodes[i]? = some (some bn))
    (hc : bn'.conditionalParent = bn.conditionalParent) (hi : bn'.conditionalItems = bn.conditionalItems) :
    LInv root tree G m0 ph (putNode nodes i bn') R M := by
  have hlt : i < nodes.size := by
    rcases Nat.lt_or_ge i nodes.size with h | h
    · exact h
    · rw [Array.getElem?_eq_none h] at hb; cases hb
  refine linv_nodes hl (fun x b hx => ?_) (fun x b hx => ?_)
  · rw [getElem?_putNode] at hx
    rcases Classical.em (i = x) with hix | hix
    · rw [if_pos hix, if_pos hlt] at hx
      subst hix
      cases hx; exact ⟨bn, hb, hc, by simp [itemsOf, hi]⟩
    · rw [if_neg hix] at hx
      exact ⟨b, hx, rfl, rfl⟩
  · rw [getElem?_putNode]
    rcases Classical.em (i = x) with hix | hix
    · rw [if_pos hix, if_pos hlt]; exact ⟨bn', rfl⟩
    · rw [if_neg hix]; exact ⟨b, hx⟩

theorem linv_meta_none {ph : Nat → Phase} {R : List Nat} {nodes : Nodes} {M M' : Array (Option Nat)}
    (hl : LInv root tree G m0 ph nodes R M) (l : List (Option Nat)) (hM : M'.toList = M.toList ++ l)
    (hn : ∀ m, m ∈ l → m = none) : LInv root tree G m0 ph nodes R M' := by
  refine ⟨hl.reach, hl.noNode, hl.hasNode, hl.cpOk, hl.onRoot, hl.sched, hl.recd, hl.pushed, hl.armRec, hl.armLate, hl.lifoR,
    hl.lifoA, hl.armsOrd, hl.schedEx, hl.ignored, ?_, ?_⟩
  · intro x xn hx hd hattr
    rcases attr_append hM hattr with h | h
    · exact hl.noGroup x xn hx hd h
    · have := hn _ h; cases this
  intro x z hp kx kz hkx hkz hmx hmz
  rcases get_append hM hmx with ⟨_, hx2⟩ | ⟨_, hx2⟩
  · rcases get_append hM hmz with ⟨_, hz2⟩ | ⟨_, hz2⟩
    · exact hl.ordL x z hp kx kz hkx hkz hx2 hz2
    · have := hn _ hz2; cases this
  · have := hn _ hx2; cases this

end Garnish.Lemmas.BuildSeq
