/-
The strict evaluator and `evalF` agree on programs in which every else-chain has its final arm (`wfE`).
-/
import Garnish.Lemmas.CompileStrict2
import Garnish.Lemmas.CompileBase
namespace Garnish.Abs
open Garnish Gen Garnish.Spec

variable {F : Type} (fo : FloatOps F) (host : Host F) (bodies : List (Nat × Expr F))

def StrictEq (fuel : Nat) : Prop :=
  (∀ cur e st, wfE e = true → evalFS fo host bodies cur fuel e st = evalF fo host bodies cur fuel e st) ∧
  (∀ cur items st acc, wfEList items = true →
      evalListS fo host bodies cur fuel items st acc = evalList fo host bodies cur fuel items st acc) ∧
  (∀ cur arms fe st, wfEArms arms = true → wfE fe = true →
      evalChainS fo host bodies cur fuel arms (some fe) st = evalChain fo host bodies cur fuel arms (some fe) st) ∧
  (∀ cur instr useRight f x st,
      applyValsS fo host bodies cur fuel instr useRight f x st = applyVals fo host bodies cur fuel instr useRight f x st) ∧
  (∀ cur body st, wfE body = true → evalBodyS fo host bodies cur fuel body st = evalBody fo host bodies cur fuel body st)

variable {fo host bodies}

theorem strictEq_zero : StrictEq fo host bodies 0 := by
  refine ⟨fun _ _ _ _ => ?_, fun _ _ _ _ _ => ?_, fun _ _ _ _ _ _ => ?_, fun _ _ _ _ _ _ => ?_, fun _ _ _ _ => ?_⟩
  · simp [evalFS, evalF]
  · simp [evalListS, evalList]
  · simp [evalChainS, evalChain]
  · simp [applyValsS, applyVals]
  · simp [evalBodyS, evalBody]

theorem strictEqF_step {fuel : Nat} (ih : StrictEq fo host bodies fuel) (cur : Nat) (e : Expr F) (st : St F) (hw : wfE e = true) :
    evalFS fo host bodies cur (fuel + 1) e st = evalF fo host bodies cur (fuel + 1) e st := by
  obtain ⟨ihF, ihL, ihC, ihA, ihB⟩ := ih
  cases e with
  | lit v => simp only [evalFS, evalF]
  | input => simp only [evalFS, evalF]
  | ident sym =>
    simp only [evalFS, evalF]
    generalize resolveVal fo host st sym = o
    rcases o with ⟨⟨vf, st1⟩⟩ | e | _ <;> dsimp only <;> rfl
  | unary op x =>
    simp only [wfE, Bool.and_eq_true] at hw
    simp only [evalFS, evalF]
    rw [ihF cur x st hw.2]
    generalize evalF fo host bodies cur fuel x st = o
    rcases o with ⟨⟨v | v, st1⟩⟩ | e | _ <;> dsimp only <;> try rfl
    rw [ihA]
    by_cases hop : (op == .emptyApply) = true
    · simp only [hop, if_true]
    · simp only [hop]; rfl
  | binary op l r =>
    simp only [wfE, Bool.and_eq_true] at hw
    simp only [evalFS, evalF]
    rw [ihF cur l st hw.1.2]
    generalize evalF fo host bodies cur fuel l st = o
    rcases o with ⟨⟨vl | vl, st1⟩⟩ | e | _ <;> dsimp only <;> try rfl
    rw [ihF cur r st1 hw.2]
    generalize evalF fo host bodies cur fuel r st1 = o
    rcases o with ⟨⟨vr | vr, st2⟩⟩ | e | _ <;> dsimp only <;> try rfl
    rw [ihA]
    by_cases hop : (op == .apply) = true
    · simp only [hop, if_true]
    · simp only [hop]; rfl
  | pair l r =>
    simp only [wfE, Bool.and_eq_true] at hw
    simp only [evalFS, evalF]
    rw [ihF cur r st hw.2]
    generalize evalF fo host bodies cur fuel r st = o
    rcases o with ⟨⟨vr | vr, st1⟩⟩ | e | _ <;> dsimp only <;> try rfl
    rw [ihF cur l st1 hw.1]
    generalize evalF fo host bodies cur fuel l st1 = o
    rcases o with ⟨⟨vl | vl, st2⟩⟩ | e | _ <;> dsimp only <;> rfl
  | applyTo x f =>
    simp only [wfE, Bool.and_eq_true] at hw
    simp only [evalFS, evalF]
    rw [ihF cur f st hw.2]
    generalize evalF fo host bodies cur fuel f st = o
    rcases o with ⟨⟨vf | vf, st1⟩⟩ | e | _ <;> dsimp only <;> try rfl
    rw [ihF cur x st1 hw.1]
    generalize evalF fo host bodies cur fuel x st1 = o
    rcases o with ⟨⟨vx | vx, st2⟩⟩ | e | _ <;> dsimp only <;> try rfl
    exact ihA _ _ _ _ _ _
  | list items =>
    simp only [wfE] at hw
    simp only [evalFS, evalF]
    rw [ihL cur items st [] hw]
    rfl
  | cond onTrue c t =>
    simp only [wfE, Bool.and_eq_true] at hw
    simp only [evalFS, evalF]
    rw [ihF cur c st hw.1]
    generalize evalF fo host bodies cur fuel c st = o
    rcases o with ⟨⟨vc | vc, st1⟩⟩ | e | _ <;> dsimp only <;> try rfl
    rw [ihF cur t st1 hw.2]
  | chain arms final =>
    rw [wfE_chain] at hw
    simp only [Bool.and_eq_true] at hw
    cases final with
    | none => simp at hw
    | some fe =>
      simp only [evalFS, evalF]
      exact ihC cur arms fe st hw.1 hw.2
  | and l r =>
    simp only [wfE, Bool.and_eq_true] at hw
    simp only [evalFS, evalF]
    rw [ihF cur l st hw.1]
    generalize evalF fo host bodies cur fuel l st = o
    rcases o with ⟨⟨vl | vl, st1⟩⟩ | e | _ <;> dsimp only <;> try rfl
    rw [ihF cur r st1 hw.2]
    by_cases hc : vl.truthy = true
    · simp only [hc, if_true]
      generalize evalF fo host bodies cur fuel r st1 = o
      rcases o with ⟨⟨vr | vr, st2⟩⟩ | e | _ <;> rfl
    · simp only [hc]; rfl
  | or l r =>
    simp only [wfE, Bool.and_eq_true] at hw
    simp only [evalFS, evalF]
    rw [ihF cur l st hw.1]
    generalize evalF fo host bodies cur fuel l st = o
    rcases o with ⟨⟨vl | vl, st1⟩⟩ | e | _ <;> dsimp only <;> try rfl
    rw [ihF cur r st1 hw.2]
    by_cases hc : vl.truthy = true
    · simp only [hc, if_true]
    · simp only [hc]
      generalize evalF fo host bodies cur fuel r st1 = o
      rcases o with ⟨⟨vr | vr, st2⟩⟩ | e | _ <;> rfl
  | seq a b =>
    simp only [wfE, Bool.and_eq_true] at hw
    simp only [evalFS, evalF]
    rw [ihF cur a st hw.1]
    generalize evalF fo host bodies cur fuel a st = o
    rcases o with ⟨⟨va | va, st1⟩⟩ | e | _ <;> dsimp only <;> try rfl
    exact ihF cur b _ hw.2
  | sideAfter x body =>
    simp only [wfE, Bool.and_eq_true] at hw
    simp only [evalFS, evalF]
    rw [ihF cur x st hw.1.1]
    generalize evalF fo host bodies cur fuel x st = o
    rcases o with ⟨⟨vx | vx, st1⟩⟩ | e | _ <;> dsimp only <;> try rfl
    rw [ihF cur body st1 hw.1.2]
    generalize evalF fo host bodies cur fuel body st1 = o
    rcases o with ⟨⟨vb | vb, st2⟩⟩ | e | _ <;> dsimp only <;> rfl
  | nested id => simp only [evalFS, evalF]
  | emptyNested => simp only [evalFS, evalF]
  | reapply x =>
    simp only [wfE] at hw
    simp only [evalFS, evalF]
    rw [ihF cur x st hw]
    generalize evalF fo host bodies cur fuel x st = o
    rcases o with ⟨⟨v | v, st1⟩⟩ | e | _ <;> dsimp only <;> rfl
  | prefixApply sym x =>
    simp only [wfE] at hw
    simp only [evalFS, evalF]
    generalize resolveVal fo host st sym = o
    rcases o with ⟨⟨vf, st1⟩⟩ | e | _ <;> dsimp only <;> try rfl
    rw [ihF cur x st1 hw]
    generalize evalF fo host bodies cur fuel x st1 = o
    rcases o with ⟨⟨vx | vx, st2⟩⟩ | e | _ <;> dsimp only <;> try rfl
    exact ihA _ _ _ _ _ _
  | suffixApply x sym =>
    simp only [wfE] at hw
    simp only [evalFS, evalF]
    generalize resolveVal fo host st sym = o
    rcases o with ⟨⟨vf, st1⟩⟩ | e | _ <;> dsimp only <;> try rfl
    rw [ihF cur x st1 hw]
    generalize evalF fo host bodies cur fuel x st1 = o
    rcases o with ⟨⟨vx | vx, st2⟩⟩ | e | _ <;> dsimp only <;> try rfl
    exact ihA _ _ _ _ _ _
  | infixApply a sym b =>
    simp only [wfE, Bool.and_eq_true] at hw
    simp only [evalFS, evalF]
    generalize resolveVal fo host st sym = o
    rcases o with ⟨⟨vf, st1⟩⟩ | e | _ <;> dsimp only <;> try rfl
    rw [ihF cur a st1 hw.1]
    generalize evalF fo host bodies cur fuel a st1 = o
    rcases o with ⟨⟨va | va, st2⟩⟩ | e | _ <;> dsimp only <;> try rfl
    rw [ihF cur b st2 hw.2]
    generalize evalF fo host bodies cur fuel b st2 = o
    rcases o with ⟨⟨vb | vb, st3⟩⟩ | e | _ <;> dsimp only <;> try rfl
    exact ihA _ _ _ _ _ _

theorem strictEq_step (hb : ∀ id b, lookupBody bodies id = some b → wfE b = true) {fuel : Nat}
    (ih : StrictEq fo host bodies fuel) : StrictEq fo host bodies (fuel + 1) := by
  refine ⟨strictEqF_step ih, ?_, ?_, ?_, ?_⟩
  all_goals obtain ⟨ihF, ihL, ihC, ihA, ihB⟩ := ih
  · intro cur items st acc hw
    cases items with
    | nil => simp only [evalListS, evalList]
    | cons x xs =>
      simp only [wfEList, Bool.and_eq_true] at hw
      simp only [evalListS, evalList]
      rw [ihF cur x st hw.1]
      generalize evalF fo host bodies cur fuel x st = o
      rcases o with ⟨⟨v | v, st1⟩⟩ | e | _ <;> dsimp only <;> try rfl
      exact ihL cur xs st1 _ hw.2
  · intro cur arms fe st hwa hwf
    cases arms with
    | nil => simp only [evalChainS, evalChain]; exact ihF cur fe st hwf
    | cons a rest =>
      obtain ⟨onTrue, c, t⟩ := a
      simp only [wfEArms, Bool.and_eq_true] at hwa
      simp only [evalChainS, evalChain]
      rw [ihF cur c st hwa.1.1]
      generalize evalF fo host bodies cur fuel c st = o
      rcases o with ⟨⟨vc | vc, st1⟩⟩ | e | _ <;> dsimp only <;> try rfl
      by_cases hc : (vc.truthy == onTrue) = true
      · simp only [hc, if_true]; exact ihF cur t st1 hwa.1.2
      · simp only [hc]; exact ihC cur rest fe st1 hwa.2 hwf
  · intro cur instr useRight f x st
    simp only [applyValsS, applyVals]
    cases applyKind fo instr useRight f x with
    | enter j input =>
      dsimp only
      cases hl : lookupBody bodies j with
      | none => rfl
      | some body =>
        dsimp only
        rw [ihB j body _ (hb j body hl)]
        rfl
    | external n arg => rfl
    | out o => rfl
  · intro cur body st hw
    simp only [evalBodyS, evalBody]
    rw [ihF cur body st hw]
    generalize evalF fo host bodies cur fuel body st = o
    rcases o with ⟨⟨v | v, st1⟩⟩ | e | _ <;> dsimp only <;> try rfl
    exact ihB cur body _ hw

theorem strictEq_all (hb : ∀ id b, lookupBody bodies id = some b → wfE b = true) : ∀ fuel, StrictEq fo host bodies fuel
  | 0 => strictEq_zero
  | fuel + 1 => strictEq_step hb (strictEq_all hb fuel)

/-- on a program in which every else-chain has its final arm the strict evaluator IS `evalF` -/
theorem strict_eq (hb : ∀ id b, lookupBody bodies id = some b → wfE b = true) (cur fuel : Nat) (body : Expr F) (st : St F)
    (hw : wfE body = true) : evalBodyS fo host bodies cur fuel body st = evalBody fo host bodies cur fuel body st :=
  (strictEq_all hb fuel).2.2.2.2 cur body st hw

end Garnish.Abs
