/-
C04, builder half — evaluation order, part 14: `build`.
-/
import Garnish.Lemmas.BuildSeq13
namespace Garnish.Lemmas.BuildSeq
open Garnish Garnish.Gen Garnish.Model.Parser Garnish.Model.Literals Garnish.Model.Build Garnish.Lemmas.Build
open Garnish.Lemmas.BuildTotal
open Garnish.Lemmas.BuildOrder (Above Attr)
open Garnish.Lemmas.BuildAttr (setNodeIdx_sat_eq)

variable {F : Type} {root : Nat} {tree : Array ParseNode} {G : Nat → Prop}

/-- `y` is a node of the tree: reachable from `root`, or not a `Subexpression` (the only definition that
`validate_parse_tree` allows to stay outside the tree) -/
def InTree (tree : Array ParseNode) (root y : Nat) : Prop :=
  Sub tree root y ∨ ∃ pn, tree[y]? = some pn ∧ pn.definition ≠ .subexpression

theorem inTree_G (V : Validated root tree G) {y : Nat} (h : InTree tree root y) : G y := by
  rcases h with h | ⟨pn, h1, h2⟩
  · exact sub_G V V.rootIn h
  · rcases Classical.em (G y) with hy | hy
    · exact hy
    · exact absurd (V.rest y pn h1 hy) h2

/-- `Prec` for the nodes of the tree below `root`, without the set of validated indices -/
def PrecT (tree : Array ParseNode) (root x z : Nat) : Prop :=
  (∃ y a b, InTree tree root y ∧ Ord tree y a b ∧ IDesc tree a x ∧ IDesc tree b z) ∨
  (∃ y c pn, InTree tree root y ∧ PreC tree y c ∧ tree[y]? = some pn ∧ pn.definition ≠ .sideEffect ∧ IDesc tree c x ∧ z = y) ∨
  (∃ y c, InTree tree root y ∧ PostC tree y c ∧ IDesc tree c z ∧ x = y) ∨
  (∃ ρ y r, InTree tree root ρ ∧ IDesc tree ρ y ∧ OolChild tree y r ∧ IDesc tree ρ x ∧ Sub tree r z)

/-- what a successful build guarantees about the order of the metadata records it appended -/
def SeqFacts (tree : Array ParseNode) (root m0 : Nat) (M : Array (Option Nat)) : Prop :=
  (∀ x z, PrecT tree root x z → ∀ kx kz : Nat, m0 ≤ kx → m0 ≤ kz → M[kx]? = some (some x) → M[kz]? = some (some z) → kx < kz) ∧
  (∀ (y : Nat) (pn : ParseNode) (c x kx : Nat), InTree tree root y → tree[y]? = some pn → pn.definition = .sideEffect →
    ILink tree y c → IDesc tree c x → m0 ≤ kx → M[kx]? = some (some x) →
    (∃ ky, m0 ≤ ky ∧ ky < kx ∧ M[ky]? = some (some y)) ∧ (∃ ky, kx < ky ∧ M[ky]? = some (some y)))

theorem prec_of_precT (V : Validated root tree G) {x z : Nat} (h : PrecT tree root x z) : Prec tree G x z := by
  have hG : ∀ y, InTree tree root y → G y := fun y hy => inTree_G V hy
  rcases h with ⟨y, a, b, h0, h1, h2, h3⟩ | ⟨y, c, pn, h0, h1, h2, h3, h4, h5⟩ | ⟨y, c, h0, h1, h2, h3⟩ | ⟨ρ, y, r, h0, h1, h2, h3, h4⟩
  · exact Or.inl ⟨y, a, b, hG y h0, h1, h2, h3⟩
  · exact Or.inr (Or.inl ⟨y, c, pn, hG y h0, h1, h2, h3, h4, h5⟩)
  · exact Or.inr (Or.inr (Or.inl ⟨y, c, hG y h0, h1, h2, h3⟩))
  · exact Or.inr (Or.inr (Or.inr ⟨ρ, y, r, hG ρ h0, h1, h2, h3, h4⟩))

section
variable (parseFloat : List Char → Option F)

theorem buildCore_seq (V : Validated root tree G) (fuel : Nat) (data : BState F) :
    Sat (fun r => SeqFacts tree root data.metadata.size r.1.metadata) (buildCore parseFloat fuel root tree data) := by
  unfold buildCore
  dsimp only
  refine sat_bind (setNodeIdx_sat_eq _ _ _ _) (fun N hN => ?_)
  subst hN
  let ph0 : Nat → Phase := fun x => if x = root then .pr else .p0
  have hph0 : ∀ x, ph0 x = .pr ∨ ph0 x = .p0 := by
    intro x; simp only [ph0]; split
    · exact Or.inl rfl
    · exact Or.inr rfl
  have hget : ∀ (x : Nat) (bn : BuildNode),
      (putNode (Array.replicate tree.size none) root (BuildNode.new root (getJumpTableLen data)))[x]? = some (some bn) →
      x = root ∧ bn = BuildNode.new root (getJumpTableLen data) := by
    intro x bn hx
    rw [getElem?_putNode] at hx
    rcases Classical.em (root = x) with hrx | hrx
    · rw [if_pos hrx] at hx
      split at hx
      · cases hx; exact ⟨hrx.symm, rfl⟩
      · cases hx
    · rw [if_neg hrx] at hx
      simp [Array.getElem?_replicate] at hx
  have hinv : Inv root tree G ph0
      (⟨data, putNode (Array.replicate tree.size none) root (BuildNode.new root (getJumpTableLen data)), #[root], #[]⟩ : Ctx F) := by
    refine ⟨by simp, fun x hx => by simp at hx, by simp, fun x hx => ?_, by simp [size_putNode], ?_, ?_, ?_, ?_, ?_, ?_⟩
    · have : x = root := by simpa using hx
      subst this; exact ⟨V.rootIn, by simp [ph0]⟩
    · intro x bn _ hp2
      simp only [ph0] at hp2
      split at hp2 <;> cases hp2
    · intro x bn hx _ it hit
      obtain ⟨_, hb⟩ := hget x bn hx
      subst hb
      simp [BuildNode.new] at hit
    · intro x bn hx _
      obtain ⟨_, hb⟩ := hget x bn hx
      subst hb
      simp [BuildNode.new]
    · intro c _ hc0
      simp only [ph0] at hc0
      split at hc0
      · rename_i hcr; exact Or.inl hcr
      · exact absurd rfl hc0
    · intro x pn _ hp2
      simp only [ph0] at hp2
      split at hp2 <;> cases hp2
    · intro x bn hx
      obtain ⟨hxr, hb⟩ := hget x bn hx
      subst hb; subst hxr; rfl
  have hnoattr : ∀ x, ¬ Attr data.metadata.size data.metadata x := by
    intro x ⟨k, hk, hm⟩
    rw [Array.getElem?_eq_none hk] at hm; cases hm
  have hno : ∀ x, ph0 x ≠ .p1 ∧ ph0 x ≠ .p2 ∧ ph0 x ≠ .p3 := by
    intro x
    rcases hph0 x with h | h <;> rw [h] <;> exact ⟨(fun h => by cases h), (fun h => by cases h), (fun h => by cases h)⟩
  have hnact : ∀ x, ¬ Act ph0 x := by
    intro x hx
    rcases hx with h | h
    · exact (hno x).1 h
    · exact (hno x).2.1 h
  have hnvis : ∀ x, ¬ (ph0 x = .p2 ∨ ph0 x = .p3) := by
    intro x hx
    rcases hx with h | h
    · exact (hno x).2.1 h
    · exact (hno x).2.2 h
  have ho : FInv root tree G data.metadata.size ph0 []
      (putNode (Array.replicate tree.size none) root (BuildNode.new root (getJumpTableLen data))) data.metadata := by
    refine ⟨⟨List.nodup_nil, ?_, ?_, ?_, ?_, ?_, ?_, ?_, ?_, ?_, ?_, ?_, ?_, ?_⟩, ⟨?_, ?_, ?_⟩, Nat.le_refl _⟩
    · intro x hx; exact absurd hx (hnact x)
    · intro x hx; exact absurd hx (hnoattr x)
    · intro y pn _ _ hy; exact absurd hy (hnoattr y)
    · intro y c hy hc
      have hcr := child_ne_root V hy hc.isChild
      simp only [ph0, hcr, if_false]
      exact ⟨(fun h => by cases h), (fun o h => by cases h)⟩
    · intro y a b x _ _ _ hx; exact absurd hx (hnact x)
    · intro y a b x _ _ _ _; exact hnact x
    · intro y c x _ _ _ hx; exact absurd hx (hnact x)
    · intro y c x _ _ _ _; exact hnact x
    · intro y c z _ _ _ hz; exact absurd hz (hnact z)
    · intro y c z _ _ _ hz; exact absurd hz (hnvis z)
    · intro ρ y r x _ _ _ _ _; exact hnact x
    · intro x bn hx _
      obtain ⟨_, hb⟩ := hget x bn hx
      subst hb; rfl
    · intro x z _ kx kz hkx _ hmx _
      rw [Array.getElem?_eq_none hkx] at hmx; cases hmx
    · intro y pn _ _ hy; exact absurd hy (hnvis y)
    · intro y pn c x kx _ _ _ _ _ hkx hmx
      rw [Array.getElem?_eq_none hkx] at hmx; cases hmx
    · intro y pn c x kx _ _ _ _ _ hkx hmx
      rw [Array.getElem?_eq_none hkx] at hmx; cases hmx
  refine sat_bind (rootLoop_seq parseFloat V fuel fuel ph0 _ hinv ho) (fun ctx hctx => ?_)
  obtain ⟨ph', hinv', ho'⟩ := hctx
  split
  · refine ⟨fun x z hp => ho'.1.ord x z (prec_of_precT V hp), ?_⟩
    intro y pn c x kx hy hpy hd hc hdc hkx hmx
    have hyG := inTree_G V hy
    refine ⟨ho'.2.1.before y pn c x kx hyG hpy hd hc hdc hkx hmx, ?_⟩
    have hxv := ho'.1.attrVisited x ⟨kx, hkx, hmx⟩
    have hx0 : ph' x ≠ .p0 := by rcases hxv with h | h <;> rw [h] <;> intro h' <;> cases h'
    have hyv := idesc_parent_visited V hinv' hyG hc.isChild hdc hx0
    have hy3 : ph' y = .p3 := by
      rcases hyv with h | h
      · have := ho'.1.onStack y (Or.inr h); cases this
      · exact h
    exact ho'.2.1.after y pn c x kx hyG hpy hd hc hdc hkx hmx hy3
  · exact sat_buildErr

/-- after a successful `build` the metadata records appended by it are ordered as the arrangement of the handlers says -/
theorem build_seq (fuel root : Nat) (data : BState F) :
    Sat (fun r => SeqFacts tree root data.metadata.size r.1.metadata) (build parseFloat fuel root tree data) := by
  unfold build
  split
  · rename_i hempty
    have hsz : tree.size = 0 := by simpa [Array.isEmpty] using hempty
    have hnone : ∀ (y : Nat) (pn : ParseNode), tree[y]? ≠ some pn := by
      intro y pn h
      rw [Array.getElem?_eq_none (by omega)] at h; cases h
    refine ⟨?_, ?_⟩
    · intro x z hp
      rcases hp with ⟨y, a, b, _, ⟨pn, _, _, h1, _⟩, _⟩ | ⟨y, c, pn, _, _, h1, _⟩ | ⟨y, c, _, ⟨pn, h1, _⟩, _⟩ |
        ⟨ρ, y, r, _, _, ⟨pn, h1, _⟩, _⟩
      all_goals exact absurd h1 (hnone _ _)
    · intro y pn c x kx _ hpy
      exact absurd hpy (hnone _ _)
  · cases hv : validateParseTree root tree with
    | ok u =>
      cases u
      simp only [bind_ok]
      obtain ⟨G, V⟩ := validateParseTree_ok hv
      exact buildCore_seq parseFloat V fuel data
    | err e => exact sat_err
    | panic s => exact sat_panic
    | fuelOut => exact sat_fuelOut

end

end Garnish.Lemmas.BuildSeq
