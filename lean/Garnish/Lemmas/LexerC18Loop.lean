/-
Lexer half of C18, loop level: `lex` does not depend on the position counters (`lexLoop_congr`): two runs from
lexers that agree up to positions, on the same remaining input, both fail or both succeed with token lists that
agree in types and texts.
-/
import Garnish.Lemmas.LexerC18
set_option linter.unusedSimpArgs false
set_option linter.unusedVariables false
namespace Garnish.Model.Lexer

/-- same length, and token by token the same type and text -/
def SameTT (l l' : List LexerToken) : Prop :=
  l.map (fun t => (t.tokenType, t.text)) = l'.map (fun t => (t.tokenType, t.text))

theorem SameTT.refl (l : List LexerToken) : SameTT l l := rfl

theorem SameTT_snoc {l l' : List LexerToken} {t t' : LexerToken} (h : SameTT l l') (ht : TokEq t t') :
    SameTT (l ++ [t]) (l' ++ [t']) := by
  unfold SameTT at *
  simp only [List.map_append, List.map_cons, List.map_nil, h, ht.1, ht.2]

/-- both runs fail, or both succeed with token lists `l0 ++ rest` / `l0' ++ rest'` whose new parts have the same
types and texts -/
def OutSameExt (l0 l0' : List LexerToken) :
    Outcome (List LexerToken × Lexer) → Outcome (List LexerToken × Lexer) → Prop
  | .ok p, .ok q => ∃ rest rest', p.1 = l0 ++ rest ∧ q.1 = l0' ++ rest' ∧ SameTT rest rest'
  | .err _, .err _ => True
  | .fuelOut, .fuelOut => True
  | _, _ => False

/-- both runs fail, or both succeed with token lists of the same types and texts -/
def OutSame : Outcome (List LexerToken × Lexer) → Outcome (List LexerToken × Lexer) → Prop := OutSameExt [] []

theorem lexFinish_same {a b : Lexer} {l0 l0' m m' : List LexerToken} (h : a.result = b.result) (hl : SameTT m m') :
    OutSameExt l0 l0' (lexFinish a (l0 ++ m)) (lexFinish b (l0' ++ m')) := by
  unfold lexFinish
  rw [h]
  cases b.result
  · exact ⟨m, m', rfl, rfl, hl⟩
  · trivial

/-- the two `process_char` calls, packaged: both succeed, results agree up to positions, invariants kept -/
theorem processChar_pair (cc : CharClass) (hcc : cc.Sane) {a b : Lexer} (ch : Char) (h : PosEq a b) (ha : Inv a)
    (hb : Inv b) :
    ∃ a1 b1 ot ot', processChar cc a ch = .ok (a1, ot) ∧ processChar cc b ch = .ok (b1, ot') ∧
      PosEq a1 b1 ∧ OptTokEq ot ot' ∧ Inv a1 ∧ Inv b1 := by
  obtain ⟨a1, ot, hpa, hia⟩ := processChar_ok cc hcc a ch ha
  obtain ⟨b1, ot', hpb, hib⟩ := processChar_ok cc hcc b ch hb
  have := processChar_congr_inv cc ch h ha hb
  rw [hpa, hpb] at this
  exact ⟨a1, b1, ot, ot', hpa, hpb, this.1, this.2, hia, hib⟩

theorem lexEnd_congr (cc : CharClass) (hcc : cc.Sane) (l0 l0' : List LexerToken) :
    ∀ (fuel : Nat) (a b : Lexer) (l l' : List LexerToken),
    PosEq a b → Inv a → Inv b → SameTT l l' →
    OutSameExt l0 l0' (lexEnd cc fuel a (l0 ++ l)) (lexEnd cc fuel b (l0' ++ l'))
  | 0, _, _, _, _, _, _, _, _ => by simp [lexEnd, OutSameExt]
  | fuel + 1, a, b, l, l', h, ha, hb, hl => by
    obtain ⟨e0, e3, e2, e4, e1, e5, e6, e7, e8, e9, e10⟩ := (posEq_iff a b).mp h
    simp only [lexEnd]
    have hEb : b.result.isErr = a.result.isErr := by rw [e9]
    rw [hEb]
    by_cases hE : a.result.isErr = true
    · rw [if_pos hE, if_pos hE]
      exact lexFinish_same e9.symm hl
    · rw [if_neg hE, if_neg hE]
      have hpe : PosEq { a with atEnd := true } { b with atEnd := true } := by rw [posEq_iff]; simp [*]
      obtain ⟨a1, b1, ot, ot', hpa, hpb, hp1, hot, hia, hib⟩ :=
        processChar_pair cc hcc '\x00' hpe (Inv_congr rfl rfl ha) (Inv_congr rfl rfl hb)
      (try simp only [])
      rw [hpa, hpb]
      obtain ⟨f0, f3, f2, f4, f1, f5, f6, f7, f8, f9, f10⟩ := (posEq_iff a1 b1).mp hp1
      cases ot <;> cases ot' <;> simp only [OptTokEq] at hot
      · (try simp only [])
        rw [f3, f9]
        split
        · exact lexFinish_same rfl hl
        · exact lexFinish_same f9.symm hl
      · simp only []
        rw [f9]
        cases a1.result with
        | err => simp [OutSameExt]
        | ok =>
          simp only [List.append_assoc]
          exact lexEnd_congr cc hcc l0 l0' fuel a1 b1 _ _ hp1 hia hib (SameTT_snoc hl hot)

/-- `lex` does not depend on the position counters -/
theorem lexLoop_congr (cc : CharClass) (hcc : cc.Sane) (l0 l0' : List LexerToken) :
    ∀ (input : List Char) (a b : Lexer) (l l' : List LexerToken),
    PosEq a b → Inv a → Inv b → SameTT l l' →
    OutSameExt l0 l0' (lexLoop cc input a (l0 ++ l)) (lexLoop cc input b (l0' ++ l'))
  | [], a, b, l, l', h, ha, hb, hl => by
    simp only [lexLoop]
    exact lexEnd_congr cc hcc l0 l0' endFuel a b l l' h ha hb hl
  | c :: rest, a, b, l, l', h, ha, hb, hl => by
    obtain ⟨e0, e3, e2, e4, e1, e5, e6, e7, e8, e9, e10⟩ := (posEq_iff a b).mp h
    simp only [lexLoop]
    have hEb : b.result.isErr = a.result.isErr := by rw [e9]
    rw [hEb]
    by_cases hE : a.result.isErr = true
    · rw [if_pos hE, if_pos hE]
      exact lexFinish_same e9.symm hl
    · rw [if_neg hE, if_neg hE]
      obtain ⟨a1, b1, ot, ot', hpa, hpb, hp1, hot, hia, hib⟩ := processChar_pair cc hcc c h ha hb
      rw [hpa, hpb]
      obtain ⟨f0, f3, f2, f4, f1, f5, f6, f7, f8, f9, f10⟩ := (posEq_iff a1 b1).mp hp1
      cases ot <;> cases ot' <;> simp only [OptTokEq] at hot
      · exact lexLoop_congr cc hcc l0 l0' rest a1 b1 l l' hp1 hia hib hl
      · simp only []
        rw [f9]
        cases a1.result with
        | err => simp [OutSameExt]
        | ok =>
          simp only [List.append_assoc]
          exact lexLoop_congr cc hcc l0 l0' rest a1 b1 _ _ hp1 hia hib (SameTT_snoc hl hot)

end Garnish.Model.Lexer
