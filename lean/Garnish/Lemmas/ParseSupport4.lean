/-
Numbering of the parse result for `v [ body ]` (a value followed by a side-effect block): the proofs of `side_body`
(Lemmas/ParserB13) and `parse_value_block` (Lemmas/ParserB14) once more, exporting the node count of the body and the
sortedness of the in-order walk instead of the reference tree.
-/
import Garnish.Lemmas.ParseSupport2
import Garnish.Lemmas.ParserB14

namespace Garnish.Spec
open Garnish Garnish.Gen Garnish.Model.Parser

/-- **the body of a side-effect block**, from the state after `[` to the state after `]` -/
theorem side_body_count (stp : PState) (o c : PToken) (nodes' : Array ParseNode) (info : Info) (body : Ex)
    (wsA wsB : List PToken) (hsz : nodes'.size = stp.nodes.size) (hir : info.right = some (stp.nodes.size + 1))
    (hnnl : stp.nextLastLeft = none) (hprios : AllPrio nodes') (hc : c.type = .endSideEffect)
    {F : Fl} (hbody : body.ok F false = true) (hwA : ∀ w ∈ wsA, isTriviaTok w = true) (hwB : ∀ w ∈ wsB, isTriviaTok w = true)
    (pos : Nat) (hnum : NumberedFrom pos body.toks) (rest : List PToken) :
    ∃ (st2 : PState) (E : Tree) (re : Nat) (S : ParseNode),
      loop (stepSE stp o nodes' info) (wsA ++ (body.toks ++ (wsB ++ [c])) ++ rest) = loop st2 rest ∧
      (∀ j, j < stp.nodes.size → st2.nodes[j]? = nodes'[j]?) ∧
      st2.nodes[stp.nodes.size]? = some S ∧ S.definition = .sideEffect ∧ S.parent = info.parent ∧ S.left = info.left ∧
      S.right = some re ∧ S.lexToken = o ∧
      IsTreeAt st2.nodes (some stp.nodes.size) (some re) E ∧
      SortedIn (stp.nodes.size + 1) st2.nodes.size E.inorder ∧
      stp.nodes.size + 1 < st2.nodes.size ∧ AllPrio st2.nodes ∧
      st2.groupStack = stp.groupStack ∧ st2.previousSecondDef = .endSideEffect ∧
      st2.checkForList = stp.checkForList ∧ st2.lastLeft = some stp.nodes.size ∧ st2.nextLastLeft = none ∧
      st2.currentGroup = (if stp.groupStack.isEmpty then none else some (stp.groupStack.size - 1)) ∧
      E.inorder.length + (stp.nodes.size + 1) + body.garb = st2.nodes.size := by
  obtain ⟨hOO, hfs, hpriosO, hcgO⟩ := openB_stepSE stp o nodes' info hsz hir hnnl hprios
  have hgO : (stepSE stp o nodes' info).nodes[stp.nodes.size]? =
      some ⟨.sideEffect, .startSideEffect, info.parent, info.left, info.right, o⟩ := by
    simp only [stepSE]; rw [Array.getElem?_push, if_pos hsz.symm]
  obtain ⟨sO', hloopA, hOO', hnO', hnpO', hllO', hgsO', hcgO', hprevO'⟩ :=
    trivia_runB_prev wsA (stepSE stp o nodes' info) (some stp.nodes.size) (body.toks ++ (wsB ++ [c]) ++ rest) hOO
      (by simp [stepSE]) hwA
  have hspO : StartPrev sO' := by
    rcases hprevO' with h | h | h
    · exact Or.inr (Or.inr (Or.inl (by rw [h]; rfl)))
    · exact Or.inr (Or.inr (Or.inr (Or.inl h)))
    · exact Or.inr (Or.inr (Or.inr (Or.inr (Or.inl h))))
  have hfs' : FrameStart sO' (some stp.nodes.size) (some stp.nodes.size) (stp.nodes.size + 1) := by
    cases hfs with
    | bracket g G pg h1 h2 h3 h4 h5 h6 =>
      exact .bracket _ G pg (by rw [hnO']; exact h1) (by rw [hnpO']; exact h2) (by rw [hnO']; exact h3) h4 h5 h6
  obtain ⟨stE, E, re, cbE, hloopE, hinvE, hgsE, hcgE, ho1E, ho2E, hrdE, hcntE, hrefE⟩ :=
    (ex_ok body false hbody).1 sO' _ _ _ hOO' hfs' (by rw [hnO']; exact hpriosO)
      (by unfold CGOK at hcgO ⊢; rw [hcgO', hgsO']; exact hcgO)
      ⟨_, by rw [hnO']; exact hgO, rfl⟩ hspO pos hnum ((wsB ++ [c]) ++ rest)
  obtain ⟨stE', hloopB, hinvE', hnE', hgsE', hcgE'⟩ := trivia_runU wsB stE ([c] ++ rest) hinvE hwB
  have hgE : ∃ G', stE.nodes[stp.nodes.size]? = some G' ∧ G'.right = some re ∧
      G'.definition = .sideEffect ∧ G'.parent = info.parent ∧ G'.left = info.left ∧ G'.lexToken = o := by
    cases hfr : hinvE.n.frame with
    | bracket g re' G' pg hG' _ _ hGr =>
      refine ⟨G', hG', hGr, ?_⟩
      have := ho2E stp.nodes.size (by omega)
      rw [hG', hnO', hgO] at this
      simp only [Option.map_some, Option.some.injEq] at this
      obtain ⟨e1, e2, e3, e4, _⟩ := setRight_none_eq this
      exact ⟨e1, e2, e3, e4⟩
  obtain ⟨G', hG', hGr', hGd', hGp', hGl', hGt'⟩ := hgE
  have hback : stE'.groupStack.back? = some (stp.nodes.size, stp.checkForList) := by
    rw [hgsE', hgsE, hgsO']
    simp [stepSE]
  have hclose := step_closeU hinvE' G' (by rw [hnE']; exact hG') stp.checkForList hback c
    (by rw [hGd']; exact Or.inr (Or.inr ⟨rfl, hc⟩)) rest.isEmpty
  have hsd : (getDefinition c.type).2 = .endSideEffect := by rw [hc]; rfl
  have hS2 : (stepC stE' stp.nodes.size stp.checkForList c).nodes[stp.nodes.size]? = some G' := by
    show stE'.nodes[_]? = _
    rw [hnE']; exact hG'
  refine ⟨stepC stE' stp.nodes.size stp.checkForList c, E, re, G', ?_, ?_, hS2, hGd', hGp', hGl', hGr', hGt', ?_, ?_, ?_,
    ?_, ?_, hsd, rfl, rfl, hinvE'.nnl, ?_, ?_⟩
  · have e2 : wsA ++ (body.toks ++ (wsB ++ [c])) ++ rest = wsA ++ (body.toks ++ (wsB ++ [c]) ++ rest) := by simp
    have e3 : body.toks ++ (wsB ++ [c]) ++ rest = body.toks ++ ((wsB ++ [c]) ++ rest) := by simp
    have e4 : (wsB ++ [c]) ++ rest = wsB ++ ([c] ++ rest) := by simp
    rw [e2, hloopA, e3, hloopE, e4, hloopB]
    simp only [List.cons_append, List.nil_append, loop, hclose, Outcome.bind]
  · intro j hj
    show stE'.nodes[j]? = _
    rw [hnE', ho1E j (by omega), hnO']
    simp only [stepSE, Array.getElem?_push]
    rw [if_neg (by omega)]
  · show IsTreeAt stE'.nodes _ _ _
    rw [hnE']; exact hinvE.n.tree
  · show SortedIn _ stE'.nodes.size E.inorder
    rw [hnE']; exact hinvE.n.inord
  · show _ < stE'.nodes.size
    rw [hnE']; exact hinvE.n.pos
  · show AllPrio stE'.nodes
    rw [hnE']; exact hinvE.n.prios
  · show stE'.groupStack.pop = stp.groupStack
    rw [hgsE', hgsE, hgsO']
    simp [stepSE]
  · show (if stE'.groupStack.pop.isEmpty then none else some (stE'.groupStack.pop.size - 1)) = _
    have : stE'.groupStack.pop = stp.groupStack := by
      rw [hgsE', hgsE, hgsO']
      simp [stepSE]
    rw [this]
  · show _ = stE'.nodes.size
    rw [hnE']; exact hcntE

/-- **`v [ body ]`**: the model of `parse` accepts; the result is the value node, the SideEffect node as its right child,
    and the tree of the body below the SideEffect node -/
theorem parse_value_block_numbered (v o c : PToken) (ws wsA wsB : List PToken) (body : Ex) (hv : isAtom10 v = true)
    (ho : o.type = .startSideEffect) (hc : c.type = .endSideEffect) {F : Fl} (hbody : body.ok F false = true)
    (hws : ∀ w ∈ ws, isTriviaTok w = true) (hwA : ∀ w ∈ wsA, isTriviaTok w = true)
    (hwB : ∀ w ∈ wsB, isTriviaTok w = true)
    (hnum : NumberedFrom 0 (v :: (ws ++ (o :: (wsA ++ (body.toks ++ (wsB ++ [c]))))))) :
    ∃ r t, parse (v :: (ws ++ (o :: (wsA ++ (body.toks ++ (wsB ++ [c])))))) = .ok r ∧ toTree r = some t ∧
      SortedIn 0 r.nodes.size t.inorder ∧ t.inorder.length + body.garb = r.nodes.size := by
  obtain ⟨hsa, hqa⟩ := atom10_facts hv
  have hne : v :: (ws ++ (o :: (wsA ++ (body.toks ++ (wsB ++ [c]))))) ≠ [] := by simp
  have hhead : isTrimmable ((v :: (ws ++ (o :: (wsA ++ (body.toks ++ (wsB ++ [c])))))).head hne) = false := by
    simp only [List.head_cons]; exact atom10_not_trimmable hv
  have hlast : isTrimmable ((v :: (ws ++ (o :: (wsA ++ (body.toks ++ (wsB ++ [c])))))).getLast hne) = false := by
    have e : v :: (ws ++ (o :: (wsA ++ (body.toks ++ (wsB ++ [c]))))) =
        (v :: (ws ++ (o :: (wsA ++ (body.toks ++ wsB))))) ++ [c] := by simp
    rw [getLast_of_eq_append hne e]; simp only [isTrimmable, hc]; rfl
  obtain ⟨htrim, _, _⟩ := trim_id _ hne hhead hlast
  -- positions
  have hnum1 : NumberedFrom (0 + 1) (ws ++ (o :: (wsA ++ (body.toks ++ (wsB ++ [c]))))) := hnum.2
  have hnum2 := numbered_append ws _ _ hnum1
  have hnum3 := numbered_append wsA _ _ hnum2.2
  have hnumB : NumberedFrom (1 + ws.length + 1 + wsA.length) body.toks := by
    have := numbered_prefix body.toks _ _ hnum3
    rw [Nat.zero_add] at this; exact this
  -- the value
  obtain ⟨stV, hV, hnV, hlV, hcV, hnnlV, hgsV, hcgV, hpV⟩ := value_stepB PState.init none v false openB_init hv
  let V : ParseNode := ⟨underDef (aboveDef PState.init) (getDefinition v.type).1, (getDefinition v.type).2, none, none, none, v⟩
  have hVprio : priority V.definition = some 10 := underDef_prio hqa
  have hnV' : stV.nodes = #[V] := by rw [hnV]; rfl
  have hszV : stV.nodes.size = 1 := by rw [hnV']; rfl
  have hV0 : stV.nodes[0]? = some V := by rw [hnV']; rfl
  have hinvV : UInv stV none none 0 (.node .nil 0 v.col .nil) 0 stV.nodes.size := by
    refine ⟨⟨isTreeAt_node V hV0 rfl (.nil _) (.nil _) rfl, by rw [hszV]; exact sortedIn_range' 0 1 1 (by omega),
      by simp [Tree.inorder], by omega, .top 0, ?_⟩, hnnlV, ?_, ?_, ?_, ?_⟩
    · intro i nd hi
      rw [hnV'] at hi
      cases i with
      | zero => simp at hi; subst hi; exact ⟨10, hVprio⟩
      | succ k => simp at hi
    · simp [underGroupOf, hcgV, PState.init]
    · refine .plain (by rw [hlV, hszV]; rfl) ⟨V, by rw [hszV]; exact hV0, rfl, prio10_not_groupLike hVprio⟩ ?_ ?_
      · rw [hszV]; rfl
      · intro nd hnd
        rw [hszV, hV0] at hnd
        injection hnd with hnd; rw [← hnd]
        show ((getDefinition v.type).2 == SecDef.subexpression) = false
        rcases hsa with h | h <;> rw [h] <;> rfl
    · simp only [SpineG, if_neg (show 0 ≠ stV.nodes.size by omega)]
      have : dfOf stV.nodes 0 = V.definition := by simp [dfOf, hV0]
      rw [this]
      exact ⟨prio10_not_bracket hVprio, trivial⟩
    · rcases hpV with h | h
      · exact Or.inl h
      · exact Or.inr (Or.inl h)
  -- trivia
  obtain ⟨stV', hloopW, hinvV', hnV2, hgsV2, hcgV2⟩ :=
    trivia_runU ws stV ((o :: (wsA ++ (body.toks ++ (wsB ++ [c])))) ++ []) hinvV hws
  have hszV' : stV'.nodes.size = 1 := by rw [hnV2]; exact hszV
  have hllV' : stV'.lastLeft = some 0 := by
    have hb := hinvV'.bot
    generalize hcb : stV.nodes.size = cb0 at hb
    cases hb with
    | plain hl _ _ _ => rw [hl, hszV']
    | closed cb G h1 _ _ _ _ _ => omega
  -- the side-effect token
  have hw : walkLoop stV'.nodes 5 none false (stV'.nodes.size + 1) 0 (some 0) (some 0) = .ok (some 0, some 0) := by
    unfold walkLoop
    rw [hnV2]
    simp [hV0, hVprio]
  have hq5 : priority Definition.sideEffect = some 5 := rfl
  obtain ⟨nodes', info, hpt⟩ := parseToken_bottom_ok (id := stV'.nodes.size) (right := some (stV'.nodes.size + 1)) hq5 hw
    (by rw [hnV2]; exact hV0) rfl
  obtain ⟨hinfo, hg⟩ := parseToken_bottom hq5 hw (by rw [hnV2]; exact hV0) rfl hpt
  have hsz' : nodes'.size = stV'.nodes.size := (parseToken_size_def hpt).1
  have hn0 : nodes'[0]? = some (setRight (some 1) V) := by
    rw [hg 0, if_pos rfl, hnV2, hV0, hszV]; rfl
  have hstep := step_sideOpen stV' none o ho hinvV'.hug hinvV'.adjust hinvV'.nnl hinvV'.comp_sideOpen
    (by rw [hllV']; exact hpt)
  have hprios' : AllPrio nodes' := by
    intro i nd hi
    cases i with
    | zero => rw [hn0] at hi; injection hi with hi; subst hi; exact ⟨10, hVprio⟩
    | succ k =>
      have : nodes'[k + 1]? = none := by apply Array.getElem?_eq_none; omega
      rw [this] at hi; cases hi
  obtain ⟨st2, E, re, S, hloop, hbelow, hS, hSd, hSp, hSl, hSr, hSt, htreeE, hinE, hszE, _, hgs2, hprev2, _, _, _, _, hcntB⟩ :=
    side_body_count stV' o c nodes' info body wsA wsB hsz' (by rw [hinfo]) hinvV'.nnl hprios' hc hbody hwA hwB _ hnumB []
  rw [hszV'] at hbelow hS htreeE hinE hszE hcntB
  rw [hinfo] at hSp hSl
  -- the final tree
  have h20 : st2.nodes[0]? = some (setRight (some 1) V) := by rw [hbelow 0 (by omega)]; exact hn0
  have htree : IsTreeAt st2.nodes none (some 0) (.node .nil 0 v.col (.node .nil 1 o.col E)) := by
    refine isTreeAt_node (setRight (some 1) V) h20 rfl (.nil _) ?_ rfl
    show IsTreeAt st2.nodes (some 0) (some 1) _
    exact isTreeAt_node S hS hSp (by rw [hSl]; exact .nil _) (by rw [hSr]; exact htreeE) (by simp [tokPos, hSt])
  have hnd : (Tree.node .nil 0 v.col (.node .nil 1 o.col E)).inorder.Nodup := by
    simp only [Tree.inorder, List.nil_append]
    rw [List.nodup_cons]
    refine ⟨?_, nodup_cons_sorted 1 2 _ _ (by omega) hinE⟩
    intro hm
    rcases List.mem_cons.mp hm with e | e
    · omega
    · have := (hinE.2 0 e).1; omega
  obtain ⟨r, hr, ht, hn⟩ := finish_gen (st := st2) (by rw [hprev2]; exact comp_endSE _)
    (by rw [hgs2, hgsV2, hgsV]; rfl) htree hnd (by simp [Tree.inorder]) (by omega)
  refine ⟨r, _, ?_, ht, ?_, ?_⟩
  rotate_left 1
  · rw [hn]
    simp only [Tree.inorder, List.nil_append]
    refine ⟨?_, ?_⟩
    · rw [List.pairwise_cons]
      refine ⟨?_, ?_⟩
      · intro x hx
        rcases List.mem_cons.mp hx with e | e
        · omega
        · have := (hinE.2 x e).1; omega
      · rw [List.pairwise_cons]
        exact ⟨fun x hx => by have := (hinE.2 x hx).1; omega, hinE.1⟩
    · intro j hj
      rcases List.mem_cons.mp hj with e | e
      · omega
      · rcases List.mem_cons.mp e with e | e
        · omega
        · have := hinE.2 j e; omega
  · rw [hn]
    simp only [Tree.inorder, List.nil_append, List.length_cons]
    omega
  unfold parse
  rw [htrim]
  simp only [Outcome.bind, List.isEmpty_cons, Bool.false_eq_true, if_false, loop]
  have he : (ws ++ (o :: (wsA ++ (body.toks ++ (wsB ++ [c]))))).isEmpty = false := by cases ws <;> simp
  rw [he, hV]
  simp only [Outcome.bind]
  have e1 : ws ++ (o :: (wsA ++ (body.toks ++ (wsB ++ [c])))) =
      ws ++ ((o :: (wsA ++ (body.toks ++ (wsB ++ [c])))) ++ []) := by simp
  rw [e1, hloopW]
  simp only [List.append_nil, loop]
  have he2 : (wsA ++ (body.toks ++ (wsB ++ [c]))).isEmpty = false := by cases wsA <;> simp [body.toks_ne]
  rw [he2, hstep]
  simp only [Outcome.bind]
  have := hloop
  simp only [List.append_nil, loop] at this
  rw [this]
  exact hr

end Garnish.Spec
