/-
`e op [ body ] v` once more (the proof of `parse_op_block_value`, Lemmas/ParserB30), exporting the node count and the
sortedness of the in-order walk instead of the reference tree.
-/
import Garnish.Lemmas.ParseSupport4
import Garnish.Lemmas.ParserB30

namespace Garnish.Spec
open Garnish Garnish.Gen Garnish.Model.Parser

/-- **`e op [ body ] v`** -/
theorem parse_op_block_value_numbered {F : Fl} (e body : Ex) (op o c v : PToken) (ws1 ws2 wsA wsB ws3 : List PToken)
    (he : e.ok F false = true) (hbody : body.ok F false = true) (hop : isBin3Tok op = true)
    (ho : o.type = .startSideEffect) (hc : c.type = .endSideEffect) (hv : isAtom10 v = true)
    (hw1 : ∀ w ∈ ws1, isTriviaTok w = true) (hw2 : ∀ w ∈ ws2, isTriviaTok w = true)
    (hwA : ∀ w ∈ wsA, isTriviaTok w = true) (hwB : ∀ w ∈ wsB, isTriviaTok w = true)
    (hw3 : ∀ w ∈ ws3, isTriviaTok w = true)
    (hnum : NumberedFrom 0
      (e.toks ++ (ws1 ++ (op :: (ws2 ++ (o :: (wsA ++ (body.toks ++ (wsB ++ (c :: (ws3 ++ [v]))))))))))) :
    ∃ r t,
      parse (e.toks ++ (ws1 ++ (op :: (ws2 ++ (o :: (wsA ++ (body.toks ++ (wsB ++ (c :: (ws3 ++ [v])))))))))) = .ok r ∧
      toTree r = some t ∧ SortedIn 0 r.nodes.size t.inorder ∧ t.inorder.length + (e.garb + body.garb) = r.nodes.size := by
  obtain ⟨hsv, hqv⟩ := atom10_facts hv
  obtain ⟨_, av2, _⟩ := prio10_facts hqv
  -- trimming
  have hne : e.toks ++ (ws1 ++ (op :: (ws2 ++ (o :: (wsA ++ (body.toks ++ (wsB ++ (c :: (ws3 ++ [v]))))))))) ≠ [] := by
    have := e.toks_ne; simp [this]
  obtain ⟨th, trest, hth, hthn⟩ := ex_head e false he
  have hhead : isTrimmable
      ((e.toks ++ (ws1 ++ (op :: (ws2 ++ (o :: (wsA ++ (body.toks ++ (wsB ++ (c :: (ws3 ++ [v])))))))))).head hne) = false := by
    have : (e.toks ++ (ws1 ++ (op :: (ws2 ++ (o :: (wsA ++ (body.toks ++ (wsB ++ (c :: (ws3 ++ [v])))))))))).head hne = th := by
      simp [hth]
    rw [this]; exact hthn
  have hlast : isTrimmable
      ((e.toks ++ (ws1 ++ (op :: (ws2 ++ (o :: (wsA ++ (body.toks ++ (wsB ++ (c :: (ws3 ++ [v])))))))))).getLast hne) =
      false := by
    have e1 : e.toks ++ (ws1 ++ (op :: (ws2 ++ (o :: (wsA ++ (body.toks ++ (wsB ++ (c :: (ws3 ++ [v]))))))))) =
        (e.toks ++ (ws1 ++ (op :: (ws2 ++ (o :: (wsA ++ (body.toks ++ (wsB ++ (c :: ws3))))))))) ++ [v] := by simp
    rw [getLast_of_eq_append hne e1]; exact atom10_not_trimmable hv
  obtain ⟨htrim, _, _⟩ := trim_id _ hne hhead hlast
  -- positions
  have hnume := numbered_prefix e.toks _ 0 hnum
  have hn1 := numbered_append e.toks _ 0 hnum
  have hn2 := numbered_append ws1 _ _ hn1
  have hopcol : op.col = 0 + e.toks.length + ws1.length := hn2.1
  have hn3 := numbered_append ws2 _ _ hn2.2
  have hocol : o.col = 0 + e.toks.length + ws1.length + 1 + ws2.length := hn3.1
  have hn4 := numbered_append wsA _ _ hn3.2
  have hnumB := numbered_prefix body.toks _ _ hn4
  have hn5 := numbered_append wsB _ _ (numbered_append body.toks _ _ hn4)
  have hn6 := numbered_append ws3 [v] _ hn5.2
  have hvcol : v.col = 0 + e.toks.length + ws1.length + 1 + ws2.length + 1 + wsA.length + body.toks.length + wsB.length + 1 +
      ws3.length := hn6.1
  -- e
  obtain ⟨st1, E, re, cb, hloop, hinv, hgs, hcg, _, _, _, hcnt, href⟩ :=
    (ex_ok e false he).1 PState.init none none 0 openB_init (.top rfl rfl) (by intro i nd h; simp [PState.init] at h) rfl
      rfl (Or.inl rfl) 0 hnume (ws1 ++ (op :: (ws2 ++ (o :: (wsA ++ (body.toks ++ (wsB ++ (c :: (ws3 ++ [v])))))))))
  obtain ⟨st1', hloopW1, hinv', hn1', hgs1', hcg1'⟩ :=
    trivia_runU ws1 st1 ((op :: (ws2 ++ (o :: (wsA ++ (body.toks ++ (wsB ++ (c :: (ws3 ++ [v])))))))) ++ []) hinv hw1
  -- the operator
  obtain ⟨q, nodes', info, s1, hq, h1, hns1, hsz', hO1, hgsS, hcgS, hdefs, _, _, htreeK⟩ := op_effectU hinv' hop
  obtain ⟨q0, hq0, hq20, hnb⟩ := bin3_prio20 op.type (by unfold isBin3Tok at hop; exact hop)
  have hqq : q0 = q := by rw [hq0] at hq; injection hq
  obtain ⟨_, _, f3, f4⟩ := bin3_def_facts op.type (by unfold isBin3Tok at hop; exact hop)
  have hs1 : s1.nodes.size = st1'.nodes.size + 1 := by rw [hns1]; simp [hsz']
  have hon1 : s1.nodes[st1'.nodes.size]? = some ⟨(getDefinition op.type).1, (getDefinition op.type).2, info.parent,
      info.left, some (st1'.nodes.size + 1), op⟩ := by rw [hns1, Array.getElem?_push, if_pos hsz'.symm]
  obtain ⟨_, _, _, _, _, _, _, _, _, hp1⟩ := step_bin3_specG st1' s1 op hop hinv'.nnl hinv'.hug hinv'.adjust h1
  have hopsd : (getDefinition op.type).2 = .binaryLeftToRight ∨ (getDefinition op.type).2 = .binaryRightToLeft ∨
      (getDefinition op.type).2 = .optionalBinaryLeftToRight ∨ (getDefinition op.type).2 = .whitespace ∨
      (getDefinition op.type).2 = .annotation := by
    rcases bin3_secdef hop with h' | h' | h'
    · exact Or.inl h'
    · exact Or.inr (Or.inl h')
    · exact Or.inr (Or.inr (Or.inl h'))
  -- trivia, `[`
  obtain ⟨s1', hloopW2, hO1', hns1', _, hll1', hgs1'', hcg1'', hprev1'⟩ :=
    trivia_runB_prev ws2 s1 none ((o :: (wsA ++ (body.toks ++ (wsB ++ (c :: (ws3 ++ [v])))))) ++ []) hO1 (by omega) hw2
  have hll : s1'.lastLeft = some st1'.nodes.size := by
    rw [hll1', hO1.lastLeft_eq (by omega), hs1]; rfl
  have hq5 : priority Definition.sideEffect = some 5 := rfl
  have hm1 : s1'.nodes[st1'.nodes.size]? = some ⟨(getDefinition op.type).1, (getDefinition op.type).2, info.parent,
      info.left, some (st1'.nodes.size + 1), op⟩ := by rw [hns1']; exact hon1
  have hpt : parseToken s1'.nodes.size .sideEffect s1'.lastLeft (some (s1'.nodes.size + 1)) s1'.nodes none false =
      .ok (s1'.nodes, ⟨.sideEffect, some st1'.nodes.size, none, some (s1'.nodes.size + 1)⟩) := by
    rw [hll]
    exact parseToken_topQ hq5 hm1 (walk_top_stopP false hm1 hq (by omega)) (by rw [hns1', hs1])
  have hcompS : checkComposition s1'.previousSecondDef .startSideEffect s1'.checkForList = true := by
    rw [hO1'.cfl]
    apply comp_sideOpen_after_op
    rcases hprev1' with h | h | h
    · rw [h, hp1]; exact hopsd
    · exact Or.inr (Or.inr (Or.inr (Or.inl h)))
    · exact Or.inr (Or.inr (Or.inr (Or.inr h)))
  have hstepS := step_sideOpen s1' none o ho hO1'.hug hO1'.adj hO1'.nnl hcompS hpt
  have hprios1 : AllPrio s1'.nodes := by
    rw [hns1']
    intro i nd hi
    by_cases c1 : i < st1'.nodes.size
    · have := hdefs i c1
      rw [hns1, Array.getElem?_push, if_neg (by omega)] at hi
      rw [hi] at this
      cases hsi : st1'.nodes[i]? with
      | none => rw [hsi] at this; cases this
      | some nd0 =>
        rw [hsi] at this
        simp only [Option.map_some, Option.some.injEq] at this
        rw [this]; exact hinv'.n.prios i nd0 hsi
    · by_cases c2 : i = st1'.nodes.size
      · subst c2; rw [hon1] at hi; injection hi with hi; subst hi; exact ⟨q, hq⟩
      · have : s1.nodes[i]? = none := by apply Array.getElem?_eq_none; omega
        rw [this] at hi; cases hi
  -- the body
  obtain ⟨st2, Eb, reb, S, hloopB, hbelow, hS, hSd, hSp, hSl, hSr, hSt, htreeB, hinB, hszB, hprios2, hgs2, hprev2, hcfl2,
      hll2, hnnl2, hcg2, hcntB⟩ :=
    side_body_count s1' o c s1'.nodes ⟨.sideEffect, some st1'.nodes.size, none, some (s1'.nodes.size + 1)⟩ body wsA wsB rfl rfl
      hO1'.nnl hprios1 hc hbody hwA hwB _ hnumB (ws3 ++ [v])
  have hs1' : s1'.nodes.size = st1'.nodes.size + 1 := by rw [hns1']; exact hs1
  rw [hs1'] at hbelow hS htreeB hinB hszB hll2 hcntB
  simp only at hSp hSl
  have hgs0 : s1'.groupStack = #[] := by rw [hgs1'', hgsS, hgs1', hgs]; rfl
  have hcgn : st2.currentGroup = none := by rw [hcg2, hgs0]; rfl
  have hgs2' : st2.groupStack = #[] := by rw [hgs2, hgs0]
  have hug2 : underGroupOf st2 = .ok none := by simp [underGroupOf, hcgn]
  have hon2 : st2.nodes[st1'.nodes.size]? = some ⟨(getDefinition op.type).1, (getDefinition op.type).2, info.parent,
      info.left, some (st1'.nodes.size + 1), op⟩ := by rw [hbelow _ (by omega)]; exact hm1
  -- the jump of `last_left` to the operator
  let sA : PState := { st2 with lastLeft := some st1'.nodes.size, previousSecondDef := (getDefinition op.type).2 }
  have hadj2 : adjustLastLeft st2 none = .ok sA := by
    unfold adjustLastLeft
    simp [hll2, hS, hSd, hSp, hon2, sA]
  have hTA : TrivOK sA := ⟨_, _, rfl, hon2, f3, f4⟩
  have hadjA : adjustLastLeft sA none = .ok sA := adjustLastLeft_trivOK hTA none
  have hugA : underGroupOf sA = .ok none := hug2
  -- trivia
  obtain ⟨sA', hloopW3, hnA', hllA', hcflA', hnnlA', hgsA', hcgA', hprevA'⟩ :=
    trivia_runT ws3 sA none [v] hTA hnnl2 hugA hw3
  have hnA'' : sA'.nodes = st2.nodes := hnA'
  have hTA' : TrivOK sA' := ⟨_, _, by rw [hllA'], by rw [hnA'']; exact hon2, f3, f4⟩
  have hugA' : underGroupOf sA' = .ok none := by
    have : sA'.currentGroup = none := by rw [hcgA']; exact hcgn
    simp [underGroupOf, this]
  -- the value
  have hsz2 : st1'.nodes.size + 1 + 1 < st2.nodes.size := hszB
  have hwv : walkLoop sA'.nodes 10 none false (sA'.nodes.size + 1) 0 (some st1'.nodes.size) (some st1'.nodes.size) =
      .ok (some st1'.nodes.size, some st1'.nodes.size) := by
    rw [hnA'']
    exact walk_top_stop false hon2 hq (Or.inl (by omega))
  obtain ⟨nodes3, hpt3, hs3, hg3⟩ := parseToken_steal (id := sA'.nodes.size) (d := (getDefinition v.type).1) (right := none)
    hqv hwv (by rw [hnA'']; exact hon2) rfl (show st1'.nodes.size + 1 < sA'.nodes.size by rw [hnA'']; omega)
  have hcompV : checkComposition sA'.previousSecondDef (getDefinition v.type).2 false = true := by
    apply comp_value_after_op _ _ _ hsv
    rcases hprevA' with h | h | h
    · rw [h]; exact hopsd
    · exact Or.inr (Or.inr (Or.inr (Or.inl h)))
    · exact Or.inr (Or.inr (Or.inr (Or.inr h)))
  have hcflA : sA'.checkForList = false := by rw [hcflA']; show st2.checkForList = false; rw [hcfl2]; exact hO1'.cfl
  obtain ⟨st3, h3⟩ := step_atom_okG sA' v true hsv hcflA hugA' (adjustLastLeft_trivOK hTA' none) hcompV
    ⟨_, _, by rw [hllA']; exact hpt3⟩
  obtain ⟨nodes3', info3, hpt3', hn3, hl3, hc3, hnl3, hgs3, hcg3, hp3⟩ :=
    step_atom_specG sA' st3 v true hsv av2 hcflA hnnlA' hugA' (adjustLastLeft_trivOK hTA' none) h3
  rw [hllA', hpt3] at hpt3'
  injection hpt3' with hpt3'; injection hpt3' with e1 e2; subst e1; subst e2
  simp only at hn3
  have hszA : sA'.nodes.size = st2.nodes.size := by rw [hnA'']
  have hrd : renameDef (getDefinition v.type).1 (some st1'.nodes.size) nodes3 =
      underDef (getDefinition op.type).1 (getDefinition v.type).1 := by
    have hn3op : nodes3[st1'.nodes.size]? = some (setRight (some sA'.nodes.size)
        ⟨(getDefinition op.type).1, (getDefinition op.type).2, info.parent, info.left, some (st1'.nodes.size + 1), op⟩) := by
      rw [hg3, if_neg (by omega), if_pos rfl, hnA'', hon2]; rfl
    unfold renameDef underDef
    cases (getDefinition v.type).1 <;> simp [hn3op, setRight]
  -- the final array
  have hV3 : st3.nodes[st2.nodes.size]? = some ⟨underDef (getDefinition op.type).1 (getDefinition v.type).1,
      (getDefinition v.type).2, some st1'.nodes.size, some (st1'.nodes.size + 1), none, v⟩ := by
    rw [hn3, Array.getElem?_push, if_pos (by rw [hs3, hszA]), hrd]
  have hlt3 : ∀ j, j < st2.nodes.size → st3.nodes[j]? = nodes3[j]? := by
    intro j hj; rw [hn3, Array.getElem?_push, if_neg (by omega)]
  have hop3 : st3.nodes[st1'.nodes.size]? = some ⟨(getDefinition op.type).1, (getDefinition op.type).2, info.parent,
      info.left, some st2.nodes.size, op⟩ := by
    rw [hlt3 _ (by omega), hg3, if_neg (by omega), if_pos rfl, hszA, hnA'', hon2]; rfl
  have hS3 : st3.nodes[st1'.nodes.size + 1]? = some (setParent (some st2.nodes.size) S) := by
    rw [hlt3 _ (by omega), hg3, if_pos rfl, if_neg (by omega), hszA, hnA'', hS]; rfl
  have hrest3 : ∀ j, j < st2.nodes.size → j ≠ st1'.nodes.size → j ≠ st1'.nodes.size + 1 → st3.nodes[j]? = st2.nodes[j]? := by
    intro j hj h1' h2'
    rw [hlt3 j hj, hg3, if_neg h2', if_neg h1', hnA'']
  -- the tree
  have htreeB3 : IsTreeAt st3.nodes (some (st1'.nodes.size + 1)) (some reb) Eb := by
    apply htreeB.frame
    intro j hj
    have := hinB.2 j hj
    exact hrest3 j this.2 (by omega) (by omega)
  let sub : Tree := .node (.node .nil (st1'.nodes.size + 1) o.col Eb) st2.nodes.size v.col .nil
  have hsub : IsTreeAt st3.nodes (some st1'.nodes.size) (some st2.nodes.size) sub := by
    refine isTreeAt_node _ hV3 rfl ?_ (.nil _) rfl
    show IsTreeAt st3.nodes (some st2.nodes.size) (some (st1'.nodes.size + 1)) _
    refine isTreeAt_node _ hS3 rfl (by show IsTreeAt _ _ S.left _; rw [hSl]; exact .nil _)
      (by show IsTreeAt _ _ S.right _; rw [hSr]; exact htreeB3) (by simp [tokPos, setParent, hSt])
  have hlt3' : ∀ j, j < st1'.nodes.size → st3.nodes[j]? = nodes'[j]? := by
    intro j hj
    rw [hrest3 j (by omega) (by omega) (by omega), hbelow j (by omega), hns1', hns1, Array.getElem?_push, if_neg (by omega)]
  obtain ⟨re', htree', _⟩ := htreeK st3.nodes sub op.col hlt3' ⟨_, hop3, rfl, rfl, rfl, rfl⟩ hsub
  have hpos := hinv'.n.pos
  have hs3' : st3.nodes.size = st2.nodes.size + 1 := by rw [hn3]; simp [hs3, hszA]
  have hinT : (insertC cb (prioAt st1'.nodes) q ((getDefinition op.type).2 == .binaryRightToLeft) st1'.nodes.size op.col
      sub E).inorder = E.inorder ++ st1'.nodes.size :: ((st1'.nodes.size + 1) :: Eb.inorder ++ [st2.nodes.size]) := by
    rw [insertC_inorder]; simp [sub, Tree.inorder]
  have hsortedT : SortedIn 0 st3.nodes.size
      (E.inorder ++ st1'.nodes.size :: ((st1'.nodes.size + 1) :: Eb.inorder ++ [st2.nodes.size])) := by
    apply hinv'.n.inord.append_cons _ (by omega) (by omega)
    have h1' : SortedIn (st1'.nodes.size + 1) st2.nodes.size ((st1'.nodes.size + 1) :: Eb.inorder) := by
      have := (show SortedIn (st1'.nodes.size + 1) (st1'.nodes.size + 1) [] from
        ⟨List.Pairwise.nil, fun j hj => by cases hj⟩).append_cons hinB (Nat.le_refl _) (by omega)
      simpa using this
    have := h1'.append_cons (l2 := []) (b := st3.nodes.size) ⟨List.Pairwise.nil, fun j hj => by cases hj⟩ (by omega)
      (by omega)
    exact this
  obtain ⟨r, hr, ht, hn⟩ := finish_gen (st := st3)
    (by rw [hp3, hc3]; rcases hsv with h | h <;> rw [h] <;> rfl)
    (by rw [hgs3, hgsA']; exact hgs2') htree' (by rw [hinT]; exact hsortedT.nodup)
    (by rw [hinT]; exact List.mem_append_left _ hinv'.n.first) (by omega)
  refine ⟨r, _, ?_, ht, by rw [hn, hinT]; exact hsortedT, ?_⟩
  · unfold parse
    rw [htrim]
    have hemp : (e.toks ++ (ws1 ++ (op :: (ws2 ++ (o :: (wsA ++ (body.toks ++ (wsB ++ (c :: (ws3 ++ [v])))))))))).isEmpty =
        false := by
      cases h : e.toks ++ (ws1 ++ (op :: (ws2 ++ (o :: (wsA ++ (body.toks ++ (wsB ++ (c :: (ws3 ++ [v]))))))))) with
      | nil => exact absurd h hne
      | cons _ _ => rfl
    simp only [Outcome.bind, hemp, Bool.false_eq_true, if_false]
    have e0 : ws1 ++ (op :: (ws2 ++ (o :: (wsA ++ (body.toks ++ (wsB ++ (c :: (ws3 ++ [v])))))))) =
        ws1 ++ ((op :: (ws2 ++ (o :: (wsA ++ (body.toks ++ (wsB ++ (c :: (ws3 ++ [v])))))))) ++ []) := by simp
    rw [hloop, e0, hloopW1]
    simp only [List.append_nil, loop]
    have he1 : (ws2 ++ (o :: (wsA ++ (body.toks ++ (wsB ++ (c :: (ws3 ++ [v]))))))).isEmpty = false := by cases ws2 <;> simp
    rw [he1, h1]
    simp only [Outcome.bind]
    have e2 : ws2 ++ (o :: (wsA ++ (body.toks ++ (wsB ++ (c :: (ws3 ++ [v])))))) =
        ws2 ++ ((o :: (wsA ++ (body.toks ++ (wsB ++ (c :: (ws3 ++ [v])))))) ++ []) := by simp
    rw [e2, hloopW2]
    simp only [List.append_nil, loop]
    have he2 : (wsA ++ (body.toks ++ (wsB ++ (c :: (ws3 ++ [v]))))).isEmpty = false := by cases wsA <;> simp [body.toks_ne]
    rw [he2, hstepS]
    simp only [Outcome.bind]
    have e3 : wsA ++ (body.toks ++ (wsB ++ (c :: (ws3 ++ [v])))) = wsA ++ (body.toks ++ (wsB ++ [c])) ++ (ws3 ++ [v]) := by
      simp
    rw [e3, hloopB]
    -- after the block: the jump, trivia, the value
    have hjump : loop st2 (ws3 ++ [v]) = loop sA (ws3 ++ [v]) := by
      cases hw : ws3 with
      | nil =>
        simp only [List.nil_append, loop]
        rw [step_adjust_eq st2 sA none v _ hug2 hadj2 rfl hugA hadjA]
      | cons w ws =>
        simp only [List.cons_append, loop]
        rw [step_adjust_eq st2 sA none w _ hug2 hadj2 rfl hugA hadjA]
    rw [hjump, hloopW3]
    simp only [loop, List.isEmpty_nil, h3, Outcome.bind]
    exact hr
  · rw [hn, hinT, hs3']
    simp only [List.length_append, List.length_cons, List.length_nil]
    simp only [Nat.add_zero] at hcnt
    have hsz1 : st1'.nodes.size = st1.nodes.size := by rw [hn1']
    omega

end Garnish.Spec
