/-
`StoreLaws` for `BasicGarnishData`, continued: the register stack and the input-value stack (linked cells in the data
block, read by `regsOf` / `valsOf`).  Basic version of the push laws: the address pushed is a readable address (the
handlers push nothing else; pushing a dangling address would break `WFq`).
-/
import Garnish.Lemmas.BasicLaws2
import Garnish.Lemmas.RuntimeBase
set_option linter.unusedSimpArgs false
set_option maxHeartbeats 1000000
namespace Garnish.Lemmas.Runtime.Basic
open Garnish Gen Garnish.Model.Equality Garnish.Model.Runtime Garnish.Model.Runtime.Basic Garnish.BasicOpt
open Garnish.Lemmas.Runtime Garnish.Lemmas.EqualityRefine

variable {F : Type}

/-- the invariant after one more cell, with possibly a new register head -/
theorem binv_push_cell {st : BState} (hinv : BInv st) {s' : Store} {c : Cell}
    (hcells : s'.cells = st.store.cells.push c) (hw : WFq s') (hfit : Fits s')
    (hhead : ∀ a, s'.currentRegister = some a →
      st.store.currentRegister = some a ∨ (a = st.store.cells.size ∧ isRegCell s'.cells a = true))
    (hcreg : ∀ p v, c = Cell.register p v → isRegCell st.store.cells p = true)
    (hcfr : ∀ p r, (c = Cell.frame p r ∨ c = Cell.frameRegister r) → r < st.store.cells.size)
    (hfr : s'.currentFrame = st.store.currentFrame) (hnf : frameKind c = false) :
    BInv { st with store := s' } := by
  have hsub : Sub st.store.cells s'.cells := by rw [hcells]; simpa using sub_append st.store.cells #[c]
  have hnew : ∀ i x, s'.cells[i]? = some x → (i < st.store.cells.size ∧ st.store.cells[i]? = some x) ∨ x = c := by
    intro i x hx
    rcases Nat.lt_or_ge i st.store.cells.size with h | h
    · exact Or.inl ⟨h, by rw [← hsub.get h]; exact hx⟩
    · right
      have hi : i < s'.cells.size := cell_lt hx
      have : i = st.store.cells.size := by rw [hcells] at hi; simp at hi; omega
      subst this
      rw [hcells] at hx
      simpa using hx.symm
  have hsz : st.store.cells.size ≤ s'.cells.size := by rw [hcells]; simp
  refine ⟨hw, hfit, ?_, ?_, ?_, hinv.ftyped.push hcells hfr hnf⟩
  · intro a ha
    rcases hhead a ha with h | ⟨_, h⟩
    · exact isRegCell_sub hsub (hinv.regHead a h)
    · exact h
  · intro i p v hx
    rcases hnew i _ hx with ⟨_, hi⟩ | hc
    · exact isRegCell_sub hsub (hinv.regPrev i p v hi)
    · exact isRegCell_sub hsub (hcreg p v hc.symm)
  · intro i p r hx
    rcases hx with hx | hx
    · rcases hnew i _ hx with ⟨_, hi⟩ | hc
      · exact Nat.lt_of_lt_of_le (hinv.frameSaved i p r (Or.inl hi)) hsz
      · exact Nat.lt_of_lt_of_le (hcfr p r (Or.inl hc.symm)) hsz
    · rcases hnew i _ hx with ⟨_, hi⟩ | hc
      · exact Nat.lt_of_lt_of_le (hinv.frameSaved i p r (Or.inr hi)) hsz
      · exact Nat.lt_of_lt_of_le (hcfr p r (Or.inr hc.symm)) hsz

/-- what appending cells keeps, head by head -/
theorem keeps_sub (nc : NumCode F) {st : BState} {s' : Store} (hsub : Sub st.store.cells s'.cells) :
    Keeps (basicRStore nc) st { st with store := s' } :=
  ⟨fun a v h => decodes_mono (basicView_le _ hsub.agreeNS) h, rfl, rfl, rfl, rfl⟩

theorem vals_sub {st : BState} {s' : Store} (hinv : BInv st) (hsub : Sub st.store.cells s'.cells)
    (hv : s'.currentValue = st.store.currentValue) :
    valsOf s'.cells s'.currentValue = valsOf st.store.cells st.store.currentValue := by
  rw [hv]
  exact valsOf_sub hsub (fun a ha => by have := hinv.wfq.val; rw [ha] at this; exact svAt_lt this)

theorem regs_sub {st : BState} {s' : Store} (hinv : BInv st) (hsub : Sub st.store.cells s'.cells)
    (hv : s'.currentRegister = st.store.currentRegister) :
    regsOf s'.cells s'.currentRegister = regsOf st.store.cells st.store.currentRegister := by
  rw [hv]
  exact regsOf_sub hsub (fun a ha => by have := hinv.wfq.reg; rw [ha] at this; exact node_lt this)

theorem frames_sub {st : BState} {s' : Store} (hinv : BInv st) (hsub : Sub st.store.cells s'.cells)
    (hv : s'.currentFrame = st.store.currentFrame) :
    framesOf s'.cells s'.currentFrame = framesOf st.store.cells st.store.currentFrame := by
  rw [hv]
  exact framesOf_sub hsub hinv.frameSaved (fun a ha => by have := hinv.wfq.frm; rw [ha] at this; exact node_lt this)

theorem liftUnit_ok {f : Store → Outcome Store} {st : BState} {s' : Store} (h : f st.store = .ok s') :
    liftUnit f st = .ok ((), { st with store := s' }) := by simp [liftUnit, h]

theorem liftPop_ok {f : Store → Outcome (Store × Option Nat)} {st : BState} {s' : Store} {o : Option Nat}
    (h : f st.store = .ok (s', o)) : liftPop f st = .ok (o, { st with store := s' }) := by simp [liftPop, h]

/-- **`push_register(a)`** for a readable address -/
theorem pushRegister_law (nc : NumCode F) {st : BState} (hinv : BInv st) {a : Nat}
    (ha : isNode st.store.cells a = true) :
    ∃ st', (basicRStore nc).pushRegister a st = .ok ((), st') ∧
      Eff (basicRStore nc) st st' (a :: (basicRStore nc).regs st) ((basicRStore nc).vals st) ∧ BInv st' := by
  have key : ∀ c, (∀ s1 i, st.store.push c = .ok (s1, i) →
        st.store.pushRegister a = .ok { s1 with currentRegister := some i }) →
      regsOf (st.store.cells.push c) (some st.store.cells.size) =
        a :: regsOf st.store.cells st.store.currentRegister →
      isRegCell (st.store.cells.push c) st.store.cells.size = true →
      (∀ p v, c = Cell.register p v → isRegCell st.store.cells p = true) →
      (∀ p r, (c = Cell.frame p r ∨ c = Cell.frameRegister r) → False) → frameKind c = false →
      ∃ st', (basicRStore nc).pushRegister a st = .ok ((), st') ∧
        Eff (basicRStore nc) st st' (a :: (basicRStore nc).regs st) ((basicRStore nc).vals st) ∧ BInv st' := by
    intro c hop hregs htyped hcreg hcfr hnf
    obtain ⟨s1, hp, hcells, hfit⟩ := push_total c hinv.fits
    obtain ⟨_, _, hf⟩ := push_ok hp
    have hopr := hop s1 _ hp
    have hw := pushRegister_wfq hinv.wfq ha hopr
    have hsub : Sub st.store.cells s1.cells := by rw [hcells]; simpa using sub_append st.store.cells #[c]
    refine ⟨_, liftUnit_ok (f := fun s => s.pushRegister a) hopr, ⟨keeps_sub nc (s' := { s1 with currentRegister := some st.store.cells.size }) hsub,
      ?_, ?_, rfl, ?_⟩, ?_⟩
    · show regsOf s1.cells (some st.store.cells.size) = _
      rw [hcells]; exact hregs
    · exact vals_sub (s' := { s1 with currentRegister := some st.store.cells.size }) hinv hsub hf.2.2.2.1
    · exact frames_sub (s' := { s1 with currentRegister := some st.store.cells.size }) hinv hsub hf.2.2.2.2.2
    · refine binv_push_cell hinv (c := c) hcells hw ⟨by simpa using hfit.1, hfit.2⟩ ?_ hcreg
        (fun p r h => (hcfr p r h).elim) hf.2.2.2.2.2 hnf
      intro x hx
      simp only [Option.some.injEq] at hx
      exact Or.inr ⟨hx.symm, by rw [← hx]; show isRegCell s1.cells _ = true; rw [hcells]; exact htyped⟩
  cases hreg : st.store.currentRegister with
  | none =>
    refine key (.registerRoot a) ?_ ?_ ?_ ?_ ?_ rfl
    · intro s1 i hp; simp [Store.pushRegister, hreg, hp, bind, Outcome.bind, pure]
    · rw [regsOf_root (v := a) (by simp), hreg]; rfl
    · simp [isRegCell]
    · intro p v h; cases h
    · intro p r h; rcases h with h | h <;> cases h
  | some p =>
    have hpt := hinv.regHead p hreg
    have hplt : p < st.store.cells.size := by
      unfold isRegCell at hpt
      cases hc : st.store.cells[p]? with
      | none => simp [hc] at hpt
      | some c => exact cell_lt hc
    refine key (.register p a) ?_ ?_ ?_ ?_ ?_ rfl
    · intro s1 i hp; simp [Store.pushRegister, hreg, hp, bind, Outcome.bind, pure]
    · rw [regsOf_register (p := p) (v := a) (by simp) hplt, hreg]
      congr 1
      exact regsOf_sub (by simpa using sub_append st.store.cells #[Cell.register p a]) (fun x hx => by cases hx; exact hplt)
    · simp [isRegCell]
    · intro p' v h; cases h; exact hpt
    · intro p' r h; rcases h with h | h <;> cases h

/-- **`pop_register`** -/
theorem popRegister_law (nc : NumCode F) {st : BState} (hinv : BInv st) :
    (∀ (hnil : (basicRStore nc).regs st = []), ∃ st', (basicRStore nc).popRegister st = .ok (none, st') ∧
      Eff (basicRStore nc) st st' [] ((basicRStore nc).vals st) ∧ BInv st') ∧
    (∀ a rest, (basicRStore nc).regs st = a :: rest → ∃ st', (basicRStore nc).popRegister st = .ok (some a, st') ∧
      Eff (basicRStore nc) st st' rest ((basicRStore nc).vals st) ∧ BInv st') := by
  have same : ∀ (o : Option Nat), (∀ x, o = some x → isRegCell st.store.cells x = true) →
      Eff (basicRStore nc) st { st with store := { st.store with currentRegister := o } }
        (regsOf st.store.cells o) ((basicRStore nc).vals st) ∧
      BInv { st with store := { st.store with currentRegister := o } } := by
    intro o ho
    refine ⟨⟨⟨fun _ _ h => h, rfl, rfl, rfl, rfl⟩, rfl, rfl, rfl, rfl⟩, ?_, hinv.fits, ho, hinv.regPrev, hinv.frameSaved,
      ⟨hinv.ftyped.head, hinv.ftyped.prev, hinv.ftyped.reg⟩⟩
    refine hinv.wfq.withHeads o _ _ ?_ hinv.wfq.val hinv.wfq.frm
    cases o with
    | none => rfl
    | some x =>
      have := ho x rfl
      unfold isRegCell at this
      cases hc : st.store.cells[x]? with
      | none => simp [hc] at this
      | some c =>
        rw [hc] at this
        cases c <;> simp at this
        · exact (by simp [headOK, isNode, shape_of_solo hc (sh := ⟨.register 0 0, [], [_, _]⟩) rfl])
        · exact (by simp [headOK, isNode, shape_of_solo hc (sh := ⟨.registerRoot 0, [], [_]⟩) rfl])
  cases hreg : st.store.currentRegister with
  | none =>
    constructor
    · intro _
      have hop : st.store.popRegister = .ok (st.store, none) := by simp [Store.popRegister, hreg]
      refine ⟨_, liftPop_ok (f := fun s => s.popRegister) hop, ?_, ?_⟩
      · have := Eff.refl (basicRStore nc) st
        have hr : (basicRStore nc).regs st = [] := by show regsOf _ st.store.currentRegister = []; rw [hreg]; rfl
        rw [hr] at this; exact this
      · exact hinv
    · intro a rest h
      have hr : (basicRStore nc).regs st = [] := by show regsOf _ st.store.currentRegister = []; rw [hreg]; rfl
      rw [hr] at h; cases h
  | some i =>
    have hit := hinv.regHead i hreg
    unfold isRegCell at hit
    cases hc : st.store.cells[i]? with
    | none => simp [hc] at hit
    | some c =>
      rw [hc] at hit
      have hget : st.store.get i = .ok c := by simp [Store.get, hc]
      cases c <;> simp at hit
      · rename_i p v
        have hsh : shape st.store.cells i = some ⟨.register 0 0, [], [p, v]⟩ := shape_of_solo hc rfl
        have hp : p < i := hinv.wfq.kid_lt hsh (by simp [svAt, hc, isSV]) (by simp)
        have hregs : (basicRStore nc).regs st = v :: regsOf st.store.cells (some p) := by
          show regsOf _ st.store.currentRegister = _
          rw [hreg]; exact regsOf_register hc hp
        have hop : st.store.popRegister = .ok ({ st.store with currentRegister := some p }, some v) := by
          simp [Store.popRegister, hreg, hget, bind, Outcome.bind, pure]
        obtain ⟨he, hi⟩ := same (some p) (fun x hx => by cases hx; exact hinv.regPrev i p v hc)
        constructor
        · intro hnil; rw [hregs] at hnil; cases hnil
        · intro a rest h
          rw [hregs] at h
          simp only [List.cons.injEq] at h
          obtain ⟨rfl, rfl⟩ := h
          exact ⟨_, liftPop_ok (f := fun s => s.popRegister) hop, he, hi⟩
      · rename_i v
        have hregs : (basicRStore nc).regs st = [v] := by
          show regsOf _ st.store.currentRegister = _
          rw [hreg]; exact regsOf_root hc
        have hop : st.store.popRegister = .ok ({ st.store with currentRegister := none }, some v) := by
          simp [Store.popRegister, hreg, hget, bind, Outcome.bind, pure]
        obtain ⟨he, hi⟩ := same none (fun x hx => by cases hx)
        constructor
        · intro hnil; rw [hregs] at hnil; cases hnil
        · intro a rest h
          rw [hregs] at h
          simp only [List.cons.injEq] at h
          obtain ⟨rfl, rfl⟩ := h
          exact ⟨_, liftPop_ok (f := fun s => s.popRegister) hop, he, hi⟩

end Garnish.Lemmas.Runtime.Basic
