/-
`refParseB` on `e op [ body ]` and `e op [ body ] v`, reference side, part 1: the run over a fragment expression ends with a
complete operand (`expr_run`, by probing the loop-form conjunct of `ex_ok` with `+ 0`), trees without block nodes (`noBG`)
and `unB` of a plugged block, and the pending-block steps of `refStepB`.
-/
import Garnish.Lemmas.ParseBlocksB3
import Garnish.Lemmas.ParserB30

namespace Garnish.Spec
open Garnish Garnish.Gen Garnish.Model.Parser Garnish.Abs.Source

def probePlus : PToken := { text := [], type := .plusSign, row := 0, col := 0 }
def probeNum : PToken := { text := [], type := .number, row := 0, col := 0 }

theorem shift_zero : ∀ t : RTree, t.shift 0 = t
  | .nil => rfl
  | .node l d p r => by simp only [RTree.shift, shift_zero l, shift_zero r, Nat.add_zero]
  | .group d p i => by simp only [RTree.shift, shift_zero i, Nat.add_zero]

/-- **the run over an expression of the fragment from a fresh frame**, run form, with the last item -/
theorem expr_run {F : Fl} (body : Ex) (hok : body.ok F false = true) (p : Nat) (hnum : NumberedFrom p body.toks)
    (tb : RTree) (href : refParse Table.gen body.toks = .ok tb) (f0 : Frame) (h0c : f0.cur = .nil) (h0l : f0.last = .start)
    (h0g : f0.inGroup = false) (S : List Frame) (rest : List PToken) :
    ∃ g, refRun Table.gen f0 S p body.toks rest = .ok (g, S) ∧ g.cur = tb.shift p ∧ g.ctx = f0.ctx ∧
      (g.last = .operand ∨ g.last = .suffix) ∧ ∀ t ∈ body.toks, noBlockTok t = true := by
  obtain ⟨g, hrun, hcur, hctx, _, hnb⟩ := body_run body hok p hnum tb href f0 h0c h0l h0g S rest
  refine ⟨g, hrun, hcur, hctx, ?_, hnb⟩
  -- probe with `+ 0`
  obtain ⟨st1, E, re, cb, _, _, _, _, _, _, _, _, hL⟩ :=
    (ex_ok body false hok).1 PState.init none none 0 openB_init (.top rfl rfl) (by intro i nd h; simp [PState.init] at h) rfl
      rfl (Or.inl rfl) p hnum []
  have hprobe : ∃ T, refLoop Table.gen f0 [] p (body.toks ++ [probePlus, probeNum]) = .ok T := by
    rw [hL f0 [] [probePlus, probeNum] h0c h0l h0g]
    cases body.endsSuffix <;> exact ⟨_, rfl⟩
  obtain ⟨T, hT⟩ := hprobe
  rw [refLoop_append Table.gen body.toks [probePlus, probeNum]] at hT
  obtain ⟨init, z, hz, hz1, hz2⟩ := ex_last_nosep body false hok
  obtain ⟨g', hrun', _, _, _, _⟩ := body_run body hok p hnum tb href f0 h0c h0l h0g [] [probePlus, probeNum]
  have hgg : g' = g := by
    have h1 : refRun Table.gen f0 [] p body.toks rest = .ok (g', []) := by
      rw [← hrun', hz]; exact refRun_ends' hz1 hz2 init _ _ _ _ _
    have h2 := refRun_base Table.gen S body.toks f0 [] p rest h1
    simp only [List.nil_append] at h2
    rw [hrun] at h2
    injection h2 with h2; injection h2 with h2 _; exact h2.symm
  rw [hrun', hgg] at hT
  simp only [Outcome.bind, refLoop] at hT
  cases hl : g.last with
  | operand => exact Or.inl rfl
  | suffix => exact Or.inr rfl
  | start => exfalso; unfold refStep at hT; simp [probePlus, Table.gen, getDefinition, hl, priority] at hT
  | op => exfalso; unfold refStep at hT; simp [probePlus, Table.gen, getDefinition, hl, priority] at hT
  | optOp => exfalso; unfold refStep at hT; simp [probePlus, Table.gen, getDefinition, hl, priority] at hT
  | sep => exfalso; unfold refStep at hT; simp [probePlus, Table.gen, getDefinition, hl, priority] at hT

/-! ### trees without block nodes -/

def noBG : RTree → Bool
  | .nil => true
  | .node l _ _ r => noBG l && noBG r
  | .group d _ i => !(d == .sideEffect) && noBG i

theorem unB_of_noBG : ∀ t : RTree, noBG t = true → unB t = t
  | .nil, _ => rfl
  | .node l d k r, h => by
    simp only [noBG, Bool.and_eq_true] at h
    simp only [unB, unB_of_noBG l h.1, unB_of_noBG r h.2]
  | .group d k i, h => by
    simp only [noBG, Bool.and_eq_true, Bool.not_eq_true'] at h
    simp only [unB, h.1, Bool.false_eq_true, if_false, unB_of_noBG i h.2]

theorem noBG_of_unB : ∀ t : RTree, unB t = t → noBG t = true
  | .nil, _ => rfl
  | .node l d k r, h => by
    simp only [unB, RTree.node.injEq, true_and] at h
    simp only [noBG, noBG_of_unB l h.1, noBG_of_unB r h.2, Bool.and_self]
  | .group d k i, h => by
    simp only [unB] at h
    split at h
    · cases h
    · rename_i hd
      simp only [RTree.group.injEq, true_and] at h
      simp only [noBG, noBG_of_unB i h, Bool.and_true]
      simpa using hd

theorem noBG_absorb (tbl : Table) (q : Nat) (rtl : Bool) (d : Definition) (k : Nat) :
    ∀ (t t' : RTree), noBG t = true → absorb tbl q rtl d k t = some t' → noBG t' = true
  | .nil, _, _, h => by cases h
  | .group _ _ _, _, _, h => by cases h
  | .node l a ka r, t', hn, h => by
    simp only [noBG, Bool.and_eq_true] at hn
    simp only [absorb] at h
    cases h1 : absorb tbl q rtl d k r with
    | some r' => rw [h1] at h; cases h; simp only [noBG, hn.1, noBG_absorb tbl q rtl d k r r' hn.2 h1, Bool.and_self]
    | none =>
      rw [h1] at h
      cases hp : tbl.prio a with
      | none => rw [hp] at h; cases h
      | some pa =>
        rw [hp] at h
        simp only at h
        split at h
        · cases h; simp [noBG, hn.1, hn.2]
        · cases h

theorem noBG_attach (tbl : Table) (q : Nat) (rtl : Bool) (d : Definition) (k : Nat) (t : RTree) (h : noBG t = true) :
    noBG (attach tbl q rtl d k t) = true := by
  unfold attach
  cases ha : absorb tbl q rtl d k t with
  | some t' => exact noBG_absorb tbl q rtl d k t t' h ha
  | none => simp [noBG, h]

/-- `unB` of an operand plugged into a tree without block nodes -/
theorem unB_plug : ∀ (A X : RTree), noBG A = true → asProperty X = X → asProperty (unB X) = unB X →
    unB (plug A X) = plug A (unB X)
  | .nil, X, _, _, _ => rfl
  | .group d k i, X, h, _, _ => by simp only [plug]; exact unB_of_noBG _ h
  | .node l d k r, X, h, h1, h2 => by
    simp only [noBG, Bool.and_eq_true] at h
    simp only [plug]
    split
    · simp only [unB, unB_of_noBG l h.1, h1, h2, ite_self]
    · simp only [unB, unB_of_noBG l h.1, unB_plug r X h.2 h1 h2]

theorem bottomIsAccess_eq : ∀ t : RTree, bottomIsAccess t = accessBottom t
  | .nil => rfl
  | .group _ _ _ => rfl
  | .node l d k r => by simp only [bottomIsAccess, accessBottom, bottomIsAccess_eq r]

/-! ### the pending-block steps -/

theorem refStepB_open_pending {o : PToken} (ho : o.type = .startSideEffect) (s : BSt) (hp : s.pend = none)
    (hl : s.f.last = .op ∨ s.f.last = .optOp) (pos : Nat) (rest : List PToken) :
    refStepB Table.gen s pos o rest =
      .ok { f := blockFrame pos, stack := s.f :: s.stack, modes := .pending false :: s.modes, pend := none } := by
  unfold refStepB
  rw [ho]
  have : Table.gen.define TokenType.startSideEffect = (Definition.sideEffect, SecDef.startSideEffect) := rfl
  rcases hl with hl | hl <;> (simp only [this, hp, hl]; rfl)

theorem refStepB_close_pending {c : PToken} (hc : c.type = .endSideEffect) (s : BSt) (gp : Nat) (parent : Frame)
    (st : List Frame) (ms : List BMode) (hctx : s.f.ctx = some (.sideEffect, gp)) (hst : s.stack = parent :: st)
    (hm : s.modes = .pending false :: ms) (hp : s.pend = none) (hl : (s.f.last == .op || s.f.last == .sep) = false)
    (pos : Nat) (rest : List PToken) :
    refStepB Table.gen s pos c rest =
      .ok { f := { parent with cur := plug parent.cur (.group .sideEffect gp s.f.cur), last := parent.last, ws := false,
                               prevSep := false },
            stack := st, modes := ms, pend := some (parent.cur, .group .sideEffect gp s.f.cur, false) } := by
  unfold refStepB
  rw [hc]
  have : Table.gen.define TokenType.endSideEffect = (Definition.drop, SecDef.endSideEffect) := rfl
  simp only [this, hctx, hst, hm, hp, hl]
  rfl

/-- trivia while a block is pending -/
theorem refLoopB_pend_trivia : ∀ (ws : List PToken), (∀ w ∈ ws, isTriviaTok w = true) → ∀ (s : BSt) (pos : Nat)
    (rest : List PToken), s.pend.isSome = true →
    ∃ b, refLoopB Table.gen s pos (ws ++ rest) =
      refLoopB Table.gen { s with f := { s.f with ws := b } } (pos + ws.length) rest
  | [], _, s, pos, rest, _ => ⟨s.f.ws, rfl⟩
  | w :: ws, h, s, pos, rest, hp => by
    have hw := h w (List.mem_cons_self ..)
    obtain ⟨pd, hpd⟩ : ∃ pd, s.pend = some pd := by cases hs : s.pend with
      | none => rw [hs] at hp; cases hp
      | some pd => exact ⟨pd, rfl⟩
    have hstep : ∃ b, refStepB Table.gen s pos w (ws ++ rest) = .ok { s with f := { s.f with ws := b } } := by
      unfold isTriviaTok at hw
      simp only [Bool.or_eq_true, beq_iff_eq] at hw
      unfold refStepB
      rcases hw with (hw | hw) | hw
      · refine ⟨true, ?_⟩
        have : Table.gen.define w.type = (Definition.drop, SecDef.whitespace) := by rw [hw]; rfl
        simp only [this, hpd]
        rw [refStep_whitespace (by simp [isWsTok, hw])]
        simp only [liftStep, hpd]
      · refine ⟨s.f.ws, ?_⟩
        have : Table.gen.define w.type = (Definition.drop, SecDef.annotation) := by rw [hw]; rfl
        simp only [this, hpd]
        rw [refStep_annotation (by simp [isAnnTok, hw])]
        simp only [liftStep, hpd]
      · refine ⟨s.f.ws, ?_⟩
        have : Table.gen.define w.type = (Definition.drop, SecDef.annotation) := by rw [hw]; rfl
        simp only [this, hpd]
        rw [refStep_annotation (by simp [isAnnTok, hw])]
        simp only [liftStep, hpd]
    obtain ⟨b, hb⟩ := hstep
    obtain ⟨b', hb'⟩ := refLoopB_pend_trivia ws (fun x hx => h x (List.mem_cons_of_mem _ hx))
      { s with f := { s.f with ws := b } } (pos + 1) rest hp
    refine ⟨b', ?_⟩
    rw [List.cons_append, refLoopB, hb]
    simp only [Outcome.bind]
    rw [hb']
    have : pos + 1 + ws.length = pos + (ws.length + 1) := by omega
    simp only [List.length_cons, this]

/-- the definition of a value that takes over a pending block (Property after `.`) -/
def stealDef (c : RTree) (d : Definition) : Definition := if bottomIsAccess c && d == .identifier then .property else d

def stolenFrame (f : Frame) (c se : RTree) (d : Definition) (pos : Nat) : Frame :=
  { f with cur := plug c (.node se (stealDef c d) pos .nil), last := .operand, ws := false, prevSep := false }

/-- a value takes the pending block as its left child -/
theorem refStepB_pend_value {v : PToken} (hv : isValueTok v = true) (s : BSt) (c se : RTree)
    (hp : s.pend = some (c, se, false)) (hse : se.isNil = false) (pos : Nat) (rest : List PToken) :
    refStepB Table.gen s pos v rest =
      .ok { s with f := stolenFrame s.f c se (getDefinition v.type).1 pos, pend := none } := by
  unfold isValueTok at hv
  unfold refStepB stolenFrame stealDef
  have hd : Table.gen.define v.type = getDefinition v.type := rfl
  rw [hd]
  generalize getDefinition v.type = ds at hv
  obtain ⟨d, sd⟩ := ds
  simp only [Bool.and_eq_true, Bool.or_eq_true, beq_iff_eq, Bool.not_eq_true'] at hv
  obtain ⟨hs, hnd⟩ := hv
  rcases hs with hs | hs <;> subst hs <;> simp only [hp, hnd, hse, Bool.false_and, Bool.false_eq_true, if_false]

end Garnish.Spec
