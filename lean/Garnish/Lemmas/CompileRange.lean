/-
C20 at the compile level, "own pieces": the instructions that `emit` writes refer only to jump entries `≥ lo` (when
the root, the containing body and the jump table are), the `Expression` constants it allocates name such entries, the
constants its `Put`/`Resolve` refer to are the ones it allocated, and the roots it pushes are again of this kind.
-/
import Garnish.Lemmas.CompileShared
namespace Garnish.Abs
open Garnish Gen Garnish.Spec

variable {F : Type}

/-- the jump-table operand of an instruction -/
def jumpOperand : Instr → Option Nat
  | (.jumpTo, some j) | (.jumpIfTrue, some j) | (.jumpIfFalse, some j) | (.and, some j) | (.or, some j)
  | (.reapply, some j) => some j
  | _ => none

/-- a pending root of the program being compiled: own jump entry, own containing body, own join, well-formed piece -/
def RootOwn (lo : Nat) (r : Root F) : Prop :=
  lo ≤ r.patch ∧ lo ≤ r.containing ∧ (∀ j, (Instruction.jumpTo, some j) ∈ r.term → lo ≤ j) ∧
  (∀ b, r.kind = .code b → wfE b = true) ∧
  (∀ t ∈ r.term, (∃ j, t = (.jumpTo, some j)) ∨ t = (.tis, none) ∨ t = (.endExpression, none))

structure RangeOK (lo : Nat) (s s' : LState F) : Prop where
  ops : ∀ i x j, s.instrs.size ≤ i → s'.instrs[i]? = some x → jumpOperand x = some j → lo ≤ j
  exprs : ∀ k j, s.consts.size ≤ k → s'.consts[k]? = some (.expr j) → lo ≤ j
  cidx : ∀ i ins k, s.instrs.size ≤ i → s'.instrs[i]? = some (ins, some k) → (ins = .put ∨ ins = .resolve) → s.consts.size ≤ k
  roots : ∀ r ∈ s'.pending, r ∈ s.pending ∨ RootOwn lo r

theorem RangeOK.trans {lo : Nat} {a b c : LState F} (h1 : RangeOK lo a b) (h2 : RangeOK lo b c) (p : App b c)
    (q : a.consts.size ≤ b.consts.size) :
    RangeOK lo a c where
  ops i x j hi hx hj := by
    by_cases hlt : i < b.instrs.size
    · rw [p.instrs i hlt] at hx; exact h1.ops i x j hi hx hj
    · exact h2.ops i x j (by omega) hx hj
  exprs k j hk hx := by
    by_cases hlt : k < b.consts.size
    · rw [p.consts k hlt] at hx; exact h1.exprs k j hk hx
    · exact h2.exprs k j (by omega) hx
  cidx i ins k hi hx ho := by
    by_cases hlt : i < b.instrs.size
    · rw [p.instrs i hlt] at hx; exact h1.cidx i ins k hi hx ho
    · have := h2.cidx i ins k (by omega) hx ho; omega
  roots r hr := by
    rcases h2.roots r hr with h | h
    · exact h1.roots r h
    · exact .inr h

theorem RangeOK.refl (lo : Nat) (s : LState F) : RangeOK lo s s where
  ops i x j hi hx _ := by rw [Array.getElem?_eq_none hi] at hx; cases hx
  exprs k j hk hx := by rw [Array.getElem?_eq_none hk] at hx; cases hx
  cidx i ins k hi hx _ := by rw [Array.getElem?_eq_none hi] at hx; cases hx
  roots r hr := .inl hr

theorem RangeOK.push {lo : Nat} (s : LState F) (i : Instruction) (d : Option Nat)
    (h : ∀ j, jumpOperand (i, d) = some j → lo ≤ j) (hc : i ≠ .put ∧ i ≠ .resolve) : RangeOK lo s (s.push i d) where
  ops k x j hk hx hj := by
    simp only [LState.push, Array.getElem?_push] at hx
    split at hx
    · simp only [Option.some.injEq] at hx; subst hx; exact h j hj
    · rw [Array.getElem?_eq_none hk] at hx; cases hx
  exprs k j hk hx := by simp only [LState.push] at hx; rw [Array.getElem?_eq_none hk] at hx; cases hx
  cidx k ins c hk hx ho := by
    simp only [LState.push, Array.getElem?_push] at hx
    split at hx
    · simp only [Option.some.injEq, Prod.mk.injEq] at hx
      rcases ho with rfl | rfl
      · exact absurd hx.1 hc.1
      · exact absurd hx.1 hc.2
    · rw [Array.getElem?_eq_none hk] at hx; cases hx
  roots r hr := .inl hr

theorem RangeOK.pushConst {lo : Nat} (s : LState F) (i : Instruction) (v : Val F) (hi : i = .put ∨ i = .resolve)
    (hv : ∀ j, v = .expr j → lo ≤ j) : RangeOK lo s (s.pushConst i v) where
  ops k x j hk hx hj := by
    simp only [LState.pushConst, Array.getElem?_push] at hx
    split at hx
    · simp only [Option.some.injEq] at hx; subst hx
      rcases hi with rfl | rfl <;> simp [jumpOperand] at hj
    · rw [Array.getElem?_eq_none hk] at hx; cases hx
  exprs k j hk hx := by
    simp only [LState.pushConst, Array.getElem?_push] at hx
    split at hx
    · simp only [Option.some.injEq] at hx; exact hv j hx
    · rw [Array.getElem?_eq_none hk] at hx; cases hx
  cidx k ins c hk hx _ := by
    simp only [LState.pushConst, Array.getElem?_push] at hx
    split at hx
    · simp only [Option.some.injEq, Prod.mk.injEq] at hx; omega
    · rw [Array.getElem?_eq_none hk] at hx; cases hx
  roots r hr := .inl hr

theorem RangeOK.pushJump {lo : Nat} (s : LState F) (t : Nat) : RangeOK lo s (s.pushJump t) :=
  ⟨(RangeOK.refl lo s).ops, (RangeOK.refl lo s).exprs, (RangeOK.refl lo s).cidx, fun r hr => .inl hr⟩

theorem RangeOK.pushRoot {lo : Nat} (s : LState F) (r : Root F) (h : RootOwn lo r) : RangeOK lo s (s.pushRoot r) :=
  ⟨(RangeOK.refl lo s).ops, (RangeOK.refl lo s).exprs, (RangeOK.refl lo s).cidx, fun q hq => by
    simp only [LState.pushRoot, List.mem_cons] at hq
    rcases hq with rfl | hq
    · exact .inr h
    · exact .inl hq⟩

/-- append an instruction after an emission -/
theorem RangeOK.thenPush {lo : Nat} {a b : LState F} (h : RangeOK lo a b) (q : a.consts.size ≤ b.consts.size)
    (i : Instruction) (d : Option Nat)
    (hj : ∀ j, jumpOperand (i, d) = some j → lo ≤ j) (hc : i ≠ .put ∧ i ≠ .resolve) : RangeOK lo a (b.push i d) :=
  h.trans (.push b i d hj hc) (.push _ _ _) q

theorem jumpOperand_none (i : Instruction) : jumpOperand (i, none) = none := by cases i <;> rfl

theorem noJump {lo : Nat} {i : Instruction} {d : Option Nat} (h : jumpOperand (i, d) = none) :
    ∀ j, jumpOperand (i, d) = some j → lo ≤ j := by
  intro j hj; rw [h] at hj; cases hj

theorem condTail_range {lo cur : Nat} {b : Bool} {t : Expr F} {s1 : LState F} (hlo : lo ≤ s1.jumps.size) (hcur : lo ≤ cur)
    (hw : wfE t = true) : RangeOK lo s1 (condTail cur b t s1) := by
  simp only [condTail]
  have hj : ∀ j, jumpOperand (jumpIf b, some s1.jumps.size) = some j → lo ≤ j := by
    intro j hj; cases b <;> simp [jumpIf, jumpOperand] at hj <;> omega
  have hn : jumpIf b ≠ .put ∧ jumpIf b ≠ .resolve := by cases b <;> simp [jumpIf]
  have r1 := (RangeOK.pushJump (lo := lo) s1 0).thenPush (Nat.le_refl _) (jumpIf b) (some s1.jumps.size) hj hn
  have r2 := r1.thenPush (Nat.le_refl _) .putValue none (noJump rfl) (by simp)
  have hR : RootOwn lo (⟨.code t, s1.jumps.size, [(.jumpTo, some (((s1.pushJump 0).push (jumpIf b)
      (some s1.jumps.size)).push .putValue none).jumps.size)], cur⟩ : Root F) :=
    ⟨hlo, hcur, fun j hj => (by simp at hj; omega), fun b' hb => (by cases hb; exact hw), fun t ht => by simp at ht; exact .inl ⟨_, ht⟩⟩
  exact (r2.trans (.pushRoot _ _ hR) (.pushRoot _ _) (Nat.le_refl _)).trans (.pushJump _ _) (.pushJump _ _) (Nat.le_refl _)

theorem logicalTail_range {lo cur : Nat} {i : Instruction} {r : Expr F} {s1 : LState F} (hi : i = .and ∨ i = .or)
    (hlo : lo ≤ s1.jumps.size) (hcur : lo ≤ cur) (hw : wfE r = true) :
    RangeOK lo s1 (logicalTail cur i r s1) := by
  simp only [logicalTail]
  have hj : ∀ j, jumpOperand (i, some s1.jumps.size) = some j → lo ≤ j := by
    intro j hj; rcases hi with rfl | rfl <;> simp [jumpOperand] at hj <;> omega
  have hn : i ≠ .put ∧ i ≠ .resolve := by rcases hi with rfl | rfl <;> simp
  have r1 := (RangeOK.pushJump (lo := lo) s1 0).thenPush (Nat.le_refl _) i (some s1.jumps.size) hj hn
  have hR : RootOwn lo (⟨.code r, s1.jumps.size, [(.tis, none), (.jumpTo, some ((s1.pushJump 0).push i
      (some s1.jumps.size)).jumps.size)], cur⟩ : Root F) :=
    ⟨hlo, hcur, fun j hj => (by simp at hj; omega), fun b' hb => (by cases hb; exact hw), fun t ht => by
      simp only [List.mem_cons, List.not_mem_nil, or_false] at ht
      rcases ht with rfl | rfl
      · exact .inr (.inl rfl)
      · exact .inl ⟨_, rfl⟩⟩
  exact (r1.trans (.pushRoot _ _ hR) (.pushRoot _ _) (Nat.le_refl _)).trans (.pushJump _ _) (.pushJump _ _) (Nat.le_refl _)

/-- `RangeOK` together with `Pre` (so that steps compose) -/
structure RP (lo : Nat) (s t : LState F) : Prop where
  r : RangeOK lo s t
  p : Pre s t

theorem RP.trans {lo : Nat} {a b c : LState F} (h1 : RP lo a b) (h2 : RP lo b c) : RP lo a c :=
  ⟨h1.r.trans h2.r h2.p.toApp h1.p.csize, h1.p.trans h2.p⟩

theorem RP.refl (lo : Nat) (s : LState F) : RP lo s s := ⟨.refl lo s, .refl s⟩

theorem RP.push {lo : Nat} (s : LState F) (i : Instruction) (d : Option Nat)
    (h : ∀ j, jumpOperand (i, d) = some j → lo ≤ j) (hc : i ≠ .put ∧ i ≠ .resolve) : RP lo s (s.push i d) :=
  ⟨.push s i d h hc, .push s i d⟩

theorem RP.pushConst {lo : Nat} (s : LState F) (i : Instruction) (v : Val F) (hi : i = .put ∨ i = .resolve)
    (hv : ∀ j, v = .expr j → lo ≤ j) : RP lo s (s.pushConst i v) := ⟨.pushConst s i v hi hv, .pushConst s i v⟩

theorem RP.pushJump {lo : Nat} (s : LState F) (t : Nat) : RP lo s (s.pushJump t) := ⟨.pushJump s t, .pushJump s t⟩

/-- an operator instruction (no operand) -/
theorem RP.op {lo : Nat} (s : LState F) (i : Instruction) (hc : i ≠ .put ∧ i ≠ .resolve) : RP lo s (s.push i none) :=
  .push s i none (noJump (jumpOperand_none i)) hc

theorem unOK_ne {op : Instruction} (h : unOK op = true) : op ≠ .put ∧ op ≠ .resolve := by
  cases op <;> simp [unOK] at h <;> simp

theorem binOK_ne {op : Instruction} (h : binOK op = true) : op ≠ .put ∧ op ≠ .resolve := by
  cases op <;> simp [binOK] at h <;> simp

theorem finishChain_range {lo cur : Nat} {s2 : LState F} {items : List (Expr F × Nat)} (hcur : lo ≤ cur)
    (hlo : lo ≤ s2.jumps.size) (hit : ∀ it ∈ items, lo ≤ it.2 ∧ wfE it.1 = true) :
    RangeOK lo s2 (finishChain cur s2 items) := by
  cases items with
  | nil => exact .refl lo s2
  | cons it its =>
    simp only [finishChain]
    refine ⟨(RangeOK.refl lo s2).ops, (RangeOK.refl lo s2).exprs, (RangeOK.refl lo s2).cidx, fun r hr => ?_⟩
    simp only [List.mem_append] at hr
    rcases hr with hr | hr
    · simp only [armRoots, List.mem_reverse, List.mem_map] at hr
      obtain ⟨it', hin, rfl⟩ := hr
      exact .inr ⟨(hit it' hin).1, hcur, fun j hj => (by simp at hj; omega), fun b hb => (by cases hb; exact (hit it' hin).2),
        fun t ht => by simp at ht; exact .inl ⟨_, ht⟩⟩
    · exact .inl hr

mutual
theorem emit_range (lo root cur : Nat) (hroot : lo ≤ root) (hcur : lo ≤ cur) : ∀ (e : Expr F) (s : LState F),
    lo ≤ s.jumps.size → cur < s.jumps.size → wfE e = true → RP lo s (emit root cur e s)
  | .lit v, s, _, _, hw => by
    simp only [emit]
    exact .pushConst s _ _ (.inl rfl) (fun j hj => by subst hj; simp [wfE] at hw)
  | .input, s, _, _, _ => by simp only [emit]; exact .op s _ (by simp)
  | .ident sym, s, _, _, _ => by simp only [emit]; exact .pushConst s _ _ (.inr rfl) (fun j hj => by cases hj)
  | .emptyNested, s, _, _, _ => by
    simp only [emit]; exact .pushConst s _ _ (.inl rfl) (fun j hj => by cases hj; exact hcur)
  | .nested id, s, hlo, _, _ => by
    simp only [emit]
    have r1 : RP lo s ((s.pushJump 0).pushConst .put (.expr s.jumps.size)) :=
      (RP.pushJump s 0).trans (.pushConst _ _ _ (.inl rfl) (fun j hj => by simp only [Val.expr.injEq] at hj; omega))
    have hR : RootOwn lo (⟨.ref id, s.jumps.size, [(.endExpression, none)], s.jumps.size⟩ : Root F) :=
      ⟨hlo, hlo, fun j hj => (by simp at hj), fun b hb => (by cases hb), fun t ht => by simp at ht; exact .inr (.inr ht)⟩
    exact ⟨r1.r.trans (.pushRoot _ _ hR) (.pushRoot _ _) r1.p.csize,
      Pre.pushRootAfter r1.p _ (Nat.le_refl _) (by simp) (by simp) (fun _ _ => ⟨rfl, rfl⟩)⟩
  | .unary op x, s, hlo, hc, hw => by
    simp only [wfE, Bool.and_eq_true] at hw
    simp only [emit]
    exact (emit_range lo root cur hroot hcur x s hlo hc hw.2).trans (.op _ _ (unOK_ne hw.1))
  | .binary op l r, s, hlo, hc, hw => by
    simp only [wfE, Bool.and_eq_true] at hw
    simp only [emit]
    have h1 := emit_range lo root cur hroot hcur l s hlo hc hw.1.2
    have j1 := h1.p.jsize
    exact (h1.trans (emit_range lo root cur hroot hcur r _ (by omega) (by omega) hw.2)).trans (.op _ _ (binOK_ne hw.1.1))
  | .pair l r, s, hlo, hc, hw => by
    simp only [wfE, Bool.and_eq_true] at hw
    simp only [emit]
    have h1 := emit_range lo root cur hroot hcur r s hlo hc hw.2
    have j1 := h1.p.jsize
    exact (h1.trans (emit_range lo root cur hroot hcur l _ (by omega) (by omega) hw.1)).trans (.op _ _ (by simp))
  | .applyTo x f, s, hlo, hc, hw => by
    simp only [wfE, Bool.and_eq_true] at hw
    simp only [emit]
    have h1 := emit_range lo root cur hroot hcur f s hlo hc hw.2
    have j1 := h1.p.jsize
    exact (h1.trans (emit_range lo root cur hroot hcur x _ (by omega) (by omega) hw.1)).trans (.op _ _ (by simp))
  | .list items, s, hlo, hc, hw => by
    simp only [wfE] at hw
    simp only [emit]
    exact (emitList_range lo root cur hroot hcur items s hlo hc hw).trans
      (.push _ _ _ (noJump (by simp [jumpOperand])) (by simp))
  | .cond onTrue c t, s, hlo, hc, hw => by
    simp only [wfE, Bool.and_eq_true] at hw
    simp only [emit]
    have h1 := emit_range lo root cur hroot hcur c s hlo hc hw.1
    have j1 := h1.p.jsize
    exact h1.trans ⟨condTail_range (by omega) hcur hw.2, (condTail_pre (by omega)).1⟩
  | .and l r, s, hlo, hc, hw => by
    simp only [wfE, Bool.and_eq_true] at hw
    simp only [emit]
    have h1 := emit_range lo root cur hroot hcur l s hlo hc hw.1
    have j1 := h1.p.jsize
    exact h1.trans ⟨logicalTail_range (.inl rfl) (by omega) hcur hw.2, (logicalTail_pre (by omega)).1⟩
  | .or l r, s, hlo, hc, hw => by
    simp only [wfE, Bool.and_eq_true] at hw
    simp only [emit]
    have h1 := emit_range lo root cur hroot hcur l s hlo hc hw.1
    have j1 := h1.p.jsize
    exact h1.trans ⟨logicalTail_range (.inr rfl) (by omega) hcur hw.2, (logicalTail_pre (by omega)).1⟩
  | .seq a b, s, hlo, hc, hw => by
    simp only [wfE, Bool.and_eq_true] at hw
    simp only [emit]
    have h1 := (emit_range lo root cur hroot hcur a s hlo hc hw.1).trans (.op _ .updateValue (by simp))
    have j1 := h1.p.jsize
    exact h1.trans (emit_range lo root cur hroot hcur b _ (by omega) (by omega) hw.2)
  | .sideAfter x b, s, hlo, hc, hw => by
    simp only [wfE, Bool.and_eq_true] at hw
    simp only [emit]
    have h1 := (emit_range lo root cur hroot hcur x s hlo hc hw.1.1).trans (.op _ .startSideEffect (by simp))
    have j1 := h1.p.jsize
    exact (h1.trans (emit_range lo root cur hroot hcur b _ (by omega) (by omega) hw.1.2)).trans (.op _ _ (by simp))
  | .reapply x, s, hlo, hc, hw => by
    simp only [wfE] at hw
    simp only [emit]
    exact ((emit_range lo root cur hroot hcur x s hlo hc hw).trans (.op _ .updateValue (by simp))).trans
      (.push _ .jumpTo (some cur) (fun j hj => by simp [jumpOperand] at hj; omega) (by simp))
  | .prefixApply sym x, s, hlo, hc, hw => by
    simp only [wfE] at hw
    simp only [emit]
    exact ((RP.pushConst s .resolve (.sym sym) (.inr rfl) (fun j hj => by cases hj)).trans
      (emit_range lo root cur hroot hcur x _ (by simpa using hlo) (by simpa using hc) hw)).trans (.op _ _ (by simp))
  | .suffixApply x sym, s, hlo, hc, hw => by
    simp only [wfE] at hw
    simp only [emit]
    exact ((RP.pushConst s .resolve (.sym sym) (.inr rfl) (fun j hj => by cases hj)).trans
      (emit_range lo root cur hroot hcur x _ (by simpa using hlo) (by simpa using hc) hw)).trans (.op _ _ (by simp))
  | .infixApply a sym b, s, hlo, hc, hw => by
    simp only [wfE, Bool.and_eq_true] at hw
    simp only [emit]
    have h1 := (RP.pushConst (lo := lo) s .resolve (.sym sym) (.inr rfl) (fun j hj => by cases hj)).trans
      (emit_range lo root cur hroot hcur a _ (by simpa using hlo) (by simpa using hc) hw.1)
    have j1 := h1.p.jsize
    exact ((h1.trans (emit_range lo root cur hroot hcur b _ (by omega) (by omega) hw.2)).trans
      (.push _ _ _ (noJump (by simp [jumpOperand])) (by simp))).trans (.op _ _ (by simp))
  | .chain arms none, s, _, _, hw => by simp [wfE_chain] at hw
  | .chain arms (some e), s, hlo, hc, hw => by
    simp only [wfE_chain, Bool.and_eq_true] at hw
    simp only [emit]
    obtain ⟨h1, hit⟩ := emitArms_range lo root cur hroot hcur arms s hlo hc hw.1
    have j1 := h1.p.jsize
    have h2 := h1.trans (emit_range lo root cur hroot hcur e _ (by omega) (by omega) hw.2)
    have j2 := h2.p.jsize
    obtain ⟨_, _, ok1⟩ := emitArms_pre root cur arms s hc
    obtain ⟨p2, _⟩ := emit_pre root cur e (emitArms root cur arms s).1 (by omega)
    refine ⟨h2.r.trans (finishChain_range hcur (by omega) hit) ?_ h2.p.csize, ?_⟩
    · cases (emitArms root cur arms s).2 with
      | nil => exact .refl _
      | cons it its =>
        simp only [finishChain]
        exact ⟨fun _ _ => rfl, Nat.le_refl _, fun _ _ => rfl, Nat.le_refl _,
          fun k hk => by simp [LState.pushJump, Array.getElem?_push, Nat.ne_of_lt hk], by simp,
          fun r hr => List.mem_append.2 (.inr hr)⟩
    · exact (finishChain_pre h2.p (fun it hit' => ⟨(ok1 it hit').1, by have := (ok1 it hit').2; have := p2.jsize; omega⟩)
        (by have := p2.jsize; omega)).1

theorem emitList_range (lo root cur : Nat) (hroot : lo ≤ root) (hcur : lo ≤ cur) : ∀ (items : List (Expr F)) (s : LState F),
    lo ≤ s.jumps.size → cur < s.jumps.size → wfEList items = true → RP lo s (emitList root cur items s)
  | [], s, _, _, _ => by simp only [emitList]; exact .refl lo s
  | x :: xs, s, hlo, hc, hw => by
    simp only [wfEList, Bool.and_eq_true] at hw
    simp only [emitList]
    have h1 := emit_range lo root cur hroot hcur x s hlo hc hw.1
    have j1 := h1.p.jsize
    exact h1.trans (emitList_range lo root cur hroot hcur xs _ (by omega) (by omega) hw.2)

theorem emitArms_range (lo root cur : Nat) (hroot : lo ≤ root) (hcur : lo ≤ cur) :
    ∀ (arms : List (Bool × Expr F × Expr F)) (s : LState F),
    lo ≤ s.jumps.size → cur < s.jumps.size → wfEArms arms = true →
    RP lo s (emitArms root cur arms s).1 ∧ ∀ it ∈ (emitArms root cur arms s).2, lo ≤ it.2 ∧ wfE it.1 = true
  | [], s, _, _, _ => by simp only [emitArms]; exact ⟨.refl lo s, fun _ h => by simp at h⟩
  | (b, c, t) :: rest, s, hlo, hc, hw => by
    simp only [wfEArms, Bool.and_eq_true] at hw
    simp only [emitArms]
    have h1 := emit_range lo root cur hroot hcur c s hlo hc hw.1.1
    have j1 := h1.p.jsize
    have hj : ∀ j, jumpOperand (jumpIf b, some (emit root cur c s).jumps.size) = some j → lo ≤ j := by
      intro j hj; cases b <;> simp [jumpIf, jumpOperand] at hj <;> omega
    have hn : jumpIf b ≠ .put ∧ jumpIf b ≠ .resolve := by cases b <;> simp [jumpIf]
    have h2 := (h1.trans (.pushJump _ 0)).trans (.push _ (jumpIf b) (some (emit root cur c s).jumps.size) hj hn)
    have j2 := h2.p.jsize
    obtain ⟨h3, hit⟩ := emitArms_range lo root cur hroot hcur rest
      (((emit root cur c s).pushJump 0).push (jumpIf b) (some (emit root cur c s).jumps.size))
      (by omega) (by omega) hw.2
    refine ⟨h2.trans h3, fun it hm => ?_⟩
    simp only [List.mem_cons] at hm
    rcases hm with rfl | hm
    · exact ⟨by simp only; omega, hw.1.2⟩
    · exact hit it hm
end

/-! ### the loop -/

/-- the pieces written from `s` on are the program's own -/
structure Own (lo : Nat) (s s' : LState F) : Prop where
  ops : ∀ i x j, s.instrs.size ≤ i → s'.instrs[i]? = some x → jumpOperand x = some j → lo ≤ j
  exprs : ∀ k j, s.consts.size ≤ k → s'.consts[k]? = some (.expr j) → lo ≤ j
  cidx : ∀ i ins k, s.instrs.size ≤ i → s'.instrs[i]? = some (ins, some k) → (ins = .put ∨ ins = .resolve) → s.consts.size ≤ k

theorem RangeOK.own {lo : Nat} {s s' : LState F} (h : RangeOK lo s s') : Own lo s s' := ⟨h.ops, h.exprs, h.cidx⟩

theorem Own.trans {lo : Nat} {a b c : LState F} (h1 : Own lo a b) (h2 : Own lo b c)
    (pi : ∀ i, i < b.instrs.size → c.instrs[i]? = b.instrs[i]?) (pc : ∀ k, k < b.consts.size → c.consts[k]? = b.consts[k]?)
    (q : a.consts.size ≤ b.consts.size) : Own lo a c where
  ops i x j hi hx hj := by
    by_cases hlt : i < b.instrs.size
    · rw [pi i hlt] at hx; exact h1.ops i x j hi hx hj
    · exact h2.ops i x j (by omega) hx hj
  exprs k j hk hx := by
    by_cases hlt : k < b.consts.size
    · rw [pc k hlt] at hx; exact h1.exprs k j hk hx
    · exact h2.exprs k j (by omega) hx
  cidx i ins k hi hx ho := by
    by_cases hlt : i < b.instrs.size
    · rw [pi i hlt] at hx; exact h1.cidx i ins k hi hx ho
    · have := h2.cidx i ins k (by omega) hx ho; omega

theorem addTerms_range {lo : Nat} (start : Nat) (last : Option Instr) : ∀ (terms : List Instr) (s : LState F),
    (∀ t ∈ terms, (∃ j, t = (Instruction.jumpTo, some j) ∧ lo ≤ j) ∨ t = (.tis, none) ∨ t = (.endExpression, none)) →
    RP lo s (addTerms start last terms s)
  | [], s, _ => .refl lo s
  | t :: ts, s, h => by
    simp only [addTerms]
    have ih := fun u => addTerms_range (lo := lo) start last ts u (fun t' ht' => h t' (List.mem_cons_of_mem _ ht'))
    split
    · exact ih s
    · refine (RP.push s t.1 t.2 ?_ ?_).trans (ih _)
      · intro j hj
        rcases h t List.mem_cons_self with ⟨j', rfl, hlo⟩ | rfl | rfl
        · simp [jumpOperand] at hj; omega
        · simp [jumpOperand] at hj
        · simp [jumpOperand] at hj
      · rcases h t List.mem_cons_self with ⟨j', rfl, _⟩ | rfl | rfl <;> simp

section loop
variable (bodies : List (Nat × Expr F))

theorem layoutRoot_own {lo : Nat} {s : LState F} {r : Root F} {rest : List (Root F)} (inv : Inv s) (hp : s.pending = r :: rest)
    (hown : ∀ q ∈ s.pending, RootOwn lo q) (hlo : lo ≤ s.jumps.size)
    (hprog : ∀ id b, lookupBody bodies id = some b → wfE b = true) :
    Own lo s (layoutRoot bodies r { s with pending := rest }) ∧
    (∀ q ∈ (layoutRoot bodies r { s with pending := rest }).pending, RootOwn lo q) ∧
    s.consts.size ≤ (layoutRoot bodies r { s with pending := rest }).consts.size := by
  have hr_mem : r ∈ s.pending := by rw [hp]; exact List.mem_cons_self
  have hrest : ∀ q ∈ rest, q ∈ s.pending := fun q hq => by rw [hp]; exact List.mem_cons_of_mem _ hq
  obtain ⟨ho1, ho2, ho3, ho4, ho5⟩ := hown r hr_mem
  rw [layoutRoot_eq]
  simp only
  generalize hs1 : LState.mk s.instrs (s.jumps.setIfInBounds r.patch s.instrs.size) s.consts rest (r :: s.done)
    s.depths (s.pendDep.headD 0) s.pendDep.tail = s1
  have s1_instrs : s1.instrs = s.instrs := by rw [← hs1]
  have s1_consts : s1.consts = s.consts := by rw [← hs1]
  have s1_jsize : s1.jumps.size = s.jumps.size := by rw [← hs1]; simp
  have s1_pending : s1.pending = rest := by rw [← hs1]
  have hcont1 : r.containing < s1.jumps.size := by rw [s1_jsize]; exact inv.cont r hr_mem
  generalize hs2 : bodyState bodies r s1 = s2
  have h12 : RP lo s1 s2 := by
    rw [← hs2]
    simp only [bodyState]
    cases hb : rootBody bodies r with
    | none => exact .refl lo s1
    | some b =>
      have hwb : wfE b = true := by
        simp only [rootBody] at hb
        cases hk : r.kind with
        | code e => rw [hk] at hb; simp only [Option.some.injEq] at hb; subst hb; exact ho4 e hk
        | ref id => rw [hk] at hb; exact hprog id b hb
      exact emit_range lo r.patch r.containing ho1 ho2 b s1 (by omega) hcont1 hwb
  have hT := addTerms_range (lo := lo) s.instrs.size s2.instrs.back? r.term s2 (fun t ht => by
    rcases ho5 t ht with ⟨j, rfl⟩ | h | h
    · exact .inl ⟨j, rfl, ho3 j ht⟩
    · exact .inr (.inl h)
    · exact .inr (.inr h))
  have h1T := h12.trans hT
  refine ⟨⟨fun i x j hi hx hj => h1T.r.ops i x j (by rw [s1_instrs]; exact hi) hx hj,
    fun k j hk hx => h1T.r.exprs k j (by rw [s1_consts]; exact hk) hx,
    fun i ins k hi hx ho => by have := h1T.r.cidx i ins k (by rw [s1_instrs]; exact hi) hx ho; rw [s1_consts] at this; exact this⟩,
    fun q hq => ?_, by have := h1T.p.csize; rw [s1_consts] at this; exact this⟩
  rcases h1T.r.roots q hq with h | h
  · rw [s1_pending] at h; exact hown q (hrest q h)
  · exact h

theorem layoutRoots_own {lo : Nat} : ∀ (fuel : Nat) (s : LState F), Inv s → (∀ q ∈ s.pending, RootOwn lo q) →
    lo ≤ s.jumps.size → (∀ id b, lookupBody bodies id = some b → wfE b = true) →
    Own lo s (layoutRoots bodies fuel s)
  | 0, s, _, _, _, _ => (RangeOK.refl lo s).own
  | fuel + 1, s, inv, hown, hlo, hprog => by
    cases hp : s.pending with
    | nil => simp only [layoutRoots, hp]; exact (RangeOK.refl lo s).own
    | cons r rest =>
      simp only [layoutRoots, hp]
      obtain ⟨inv', _, hjs', _⟩ := layoutRoot_facts bodies inv hp
      obtain ⟨o1, hown', hcs⟩ := layoutRoot_own bodies inv hp hown hlo hprog
      have ih := layoutRoots_own fuel _ inv' hown' (by omega) hprog
      have ev := layoutRoots_ev bodies fuel _ inv'
      exact o1.trans ih ev.instrs ev.consts hcs

end loop

end Garnish.Abs
