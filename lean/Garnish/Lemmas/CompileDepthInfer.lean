/-
C06 static half, completeness of the analysis: if SOME total assignment `D` of depths to the instructions of a
program is consistent (every instruction finds its operands at its depth, and each of its edges leads to an
instruction whose depth is the one the edge carries) and gives depth 0 to the entries, then the work-list search of
`absDepth` succeeds and its answer passes the consistency check. (Nothing here is about compiled code.)
-/
import Garnish.Props.C06Static
namespace Garnish.Props.C06
open Garnish Gen Garnish.Abs

variable {F : Type}

theorem needs_len {n k : Nat} {r es : List (Nat × Nat)} (h : (if n ≤ k then some r else none) = some es) :
    es.length = r.length := by
  obtain ⟨_, rfl⟩ := needs_some h; rfl

/-- an instruction has at most two successors -/
theorem edges_len {P : Prog F} {pc k : Nat} {es : List (Nat × Nat)} (h : edges P pc k = some es) : es.length ≤ 2 := by
  unfold edges at h
  split at h
  · simp only [Option.some.injEq] at h; subst h; simp
  · rename_i i o _
    have tgt : ∀ {r : Nat → List (Nat × Nat)} {n : Nat}, (∀ t, (r t).length ≤ 2) →
        ((o.bind (fun j => P.jumps[j]?)).bind (fun t => if n ≤ k then some (r t) else none)) = some es → es.length ≤ 2 := by
      intro r n hr hh
      cases ht : o.bind (fun j => P.jumps[j]?) with
      | none => simp [ht] at hh
      | some t =>
        rw [ht] at hh
        have hh' : (if n ≤ k then some (r t) else none) = some es := hh
        rw [needs_len hh']; exact hr t
    cases i <;> simp only [] at h
    case jumpTo =>
      cases ht : o.bind (fun j => P.jumps[j]?) with
      | none => simp [ht] at h
      | some t => simp only [ht, Option.map, Option.some.injEq] at h; subst h; simp
    case jumpIfTrue => exact tgt (r := fun t => [(t, k - 1), (pc + 1, k - 1)]) (fun _ => by simp) h
    case jumpIfFalse => exact tgt (r := fun t => [(t, k - 1), (pc + 1, k - 1)]) (fun _ => by simp) h
    case and => exact tgt (r := fun t => [(t, k - 1), (pc + 1, k)]) (fun _ => by simp) h
    case or => exact tgt (r := fun t => [(t, k - 1), (pc + 1, k)]) (fun _ => by simp) h
    case reapply => exact tgt (r := fun t => [(t, k - 1)]) (fun _ => by simp) h
    case endExpression => split at h <;> simp at h; subst h; simp
    case makeList =>
      cases o with
      | none => simp at h
      | some n => simp only [Option.bind] at h; rw [needs_len h]; simp
    all_goals first
      | (simp only [Option.some.injEq] at h; subst h; simp; done)
      | (rw [needs_len h]; simp; done)
      | (split at h
         · rw [needs_len h]; simp
         · split at h
           · rw [needs_len h]; simp
           · cases h)

/-- a total, consistent assignment of depths -/
structure DOK (P : Prog F) (D : Array Nat) : Prop where
  size : D.size = P.instrs.size
  ok : ∀ pc k, D[pc]? = some k → ∃ es, edges P pc k = some es ∧ ∀ e ∈ es, P.instrs.size ≤ e.1 ∨ D[e.1]? = some e.2

theorem count_set_none {l : List (Option Nat)} {i k : Nat} (h : l[i]? = some none) :
    (l.set i (some k)).count none + 1 = l.count none := by
  induction l generalizing i with
  | nil => simp at h
  | cons x xs ih =>
    cases i with
    | zero =>
      simp only [List.getElem?_cons_zero, Option.some.injEq] at h
      subst h
      simp
    | succ i =>
      simp only [List.getElem?_cons_succ] at h
      simp only [List.set_cons_succ, List.count_cons]
      have := ih h
      omega

section
variable {P : Prog F} {D : Array Nat}

/-- the state of the work-list search agrees with `D` and is closed up to the work that is left -/
structure InferInv (P : Prog F) (D : Array Nat) (entries : List Nat) (work : List (Nat × Nat)) (d : Array (Option Nat)) : Prop where
  size : d.size = P.instrs.size
  agree : ∀ (pc k : Nat), d[pc]? = some (some k) → D[pc]? = some k
  workOK : ∀ e ∈ work, P.instrs.size ≤ e.1 ∨ D[e.1]? = some e.2
  closed : ∀ (pc k : Nat), d[pc]? = some (some k) → ∃ es, edges P pc k = some es ∧
    ∀ e ∈ es, P.instrs.size ≤ e.1 ∨ d[e.1]? = some (some e.2) ∨ e ∈ work
  entriesOK : ∀ t ∈ entries, P.instrs.size ≤ t ∨ d[t]? = some (some 0) ∨ ((t, 0) : Nat × Nat) ∈ work

theorem infer_ok (hD : DOK P D) (entries : List Nat) : ∀ (fuel : Nat) (work : List (Nat × Nat)) (d : Array (Option Nat)),
    InferInv P D entries work d → work.length + 3 * d.toList.count none ≤ fuel →
    ∃ d', infer P fuel work d = .ok d' ∧ InferInv P D entries [] d' := by
  intro fuel
  induction fuel with
  | zero =>
    intro work d inv hm
    have : work = [] := List.eq_nil_of_length_eq_zero (by omega)
    subst this
    exact ⟨d, rfl, inv⟩
  | succ fuel ih =>
    intro work d inv hm
    cases work with
    | nil => exact ⟨d, rfl, inv⟩
    | cons item work =>
      obtain ⟨pc, k⟩ := item
      simp only [infer]
      by_cases hpc : P.instrs.size ≤ pc
      · rw [if_pos hpc]
        refine ih work d ⟨inv.size, inv.agree, fun e he => inv.workOK e (List.mem_cons_of_mem _ he), ?_, ?_⟩
          (by simp only [List.length_cons] at hm; omega)
        · intro pc' k' h
          obtain ⟨es, he, hes⟩ := inv.closed pc' k' h
          refine ⟨es, he, fun e hm => ?_⟩
          rcases hes e hm with h1 | h1 | h1
          · exact .inl h1
          · exact .inr (.inl h1)
          · simp only [List.mem_cons] at h1
            rcases h1 with rfl | h1
            · exact .inl hpc
            · exact .inr (.inr h1)
        · intro t ht
          rcases inv.entriesOK t ht with h1 | h1 | h1
          · exact .inl h1
          · exact .inr (.inl h1)
          · simp only [List.mem_cons, Prod.mk.injEq] at h1
            rcases h1 with ⟨rfl, _⟩ | h1
            · exact .inl hpc
            · exact .inr (.inr h1)
      · rw [if_neg hpc]
        have hlt : pc < d.size := by rw [inv.size]; omega
        have hDk : D[pc]? = some k := by
          rcases inv.workOK (pc, k) (List.mem_cons_self) with h | h
          · exact absurd h hpc
          · exact h
        have hget : d[pc]? = some d[pc] := Array.getElem?_eq_getElem hlt
        cases hx : d[pc] with
        | some k' =>
          rw [hx] at hget
          simp only [hget]
          have hk' := inv.agree pc k' hget
          rw [hDk] at hk'
          simp only [Option.some.injEq] at hk'
          subst hk'
          simp only [if_true]
          refine ih work d ⟨inv.size, inv.agree, fun e he => inv.workOK e (List.mem_cons_of_mem _ he), ?_, ?_⟩
            (by simp only [List.length_cons] at hm; omega)
          · intro pc' k' h
            obtain ⟨es, he, hes⟩ := inv.closed pc' k' h
            refine ⟨es, he, fun e hm => ?_⟩
            rcases hes e hm with h1 | h1 | h1
            · exact .inl h1
            · exact .inr (.inl h1)
            · simp only [List.mem_cons] at h1
              rcases h1 with rfl | h1
              · exact .inr (.inl hget)
              · exact .inr (.inr h1)
          · intro t ht
            rcases inv.entriesOK t ht with h1 | h1 | h1
            · exact .inl h1
            · exact .inr (.inl h1)
            · simp only [List.mem_cons, Prod.mk.injEq] at h1
              rcases h1 with ⟨rfl, rfl⟩ | h1
              · exact .inr (.inl hget)
              · exact .inr (.inr h1)
        | none =>
          rw [hx] at hget
          simp only [hget]
          obtain ⟨es, he, hes⟩ := hD.ok pc k hDk
          simp only [he]
          have hset : ∀ q, (d.setIfInBounds pc (some k))[q]? = if q = pc then some (some k) else d[q]? := by
            intro q
            by_cases hq : q = pc
            · subst hq; simp [Array.getElem?_setIfInBounds, hlt]
            · simp [Array.getElem?_setIfInBounds, hq, Ne.symm hq]
          have hcount : (d.setIfInBounds pc (some k)).toList.count none + 1 = d.toList.count none := by
            rw [Array.toList_setIfInBounds]
            exact count_set_none (by rw [Array.getElem?_toList]; exact hget)
          have hlen := edges_len he
          refine ih (es ++ work) (d.setIfInBounds pc (some k)) ⟨by simp [inv.size], ?_, ?_, ?_, ?_⟩
            (by simp only [List.length_cons, List.length_append] at hm ⊢; omega)
          · intro q kq h
            rw [hset] at h
            split at h
            · rename_i hq; subst hq
              simp only [Option.some.injEq] at h; subst h; exact hDk
            · exact inv.agree q kq h
          · intro e hm
            simp only [List.mem_append] at hm
            rcases hm with hm | hm
            · exact hes e hm
            · exact inv.workOK e (List.mem_cons_of_mem _ hm)
          · intro q kq h
            rw [hset] at h
            split at h
            · rename_i hq; subst hq
              simp only [Option.some.injEq] at h; subst h
              exact ⟨es, he, fun e hm => .inr (.inr (List.mem_append.2 (.inl hm)))⟩
            · obtain ⟨es', he', hes'⟩ := inv.closed q kq h
              refine ⟨es', he', fun e hm => ?_⟩
              rcases hes' e hm with h1 | h1 | h1
              · exact .inl h1
              · right; left
                rw [hset]
                split
                · rename_i hq; rw [hq, hget] at h1; cases h1
                · exact h1
              · simp only [List.mem_cons] at h1
                rcases h1 with rfl | h1
                · right; left; rw [hset]; simp
                · exact .inr (.inr (List.mem_append.2 (.inr h1)))
          · intro t ht
            rcases inv.entriesOK t ht with h1 | h1 | h1
            · exact .inl h1
            · right; left
              rw [hset]
              split
              · rename_i hq; rw [hq, hget] at h1; cases h1
              · exact h1
            · simp only [List.mem_cons, Prod.mk.injEq] at h1
              rcases h1 with ⟨rfl, rfl⟩ | h1
              · right; left; rw [hset]; simp
              · exact .inr (.inr (List.mem_append.2 (.inr h1)))
end

/-- **completeness of `absDepth`**: a consistent assignment exists ⇒ the analysis succeeds -/
theorem absDepth_complete {P : Prog F} {D : Array Nat} {entry : Nat} (hD : DOK P D)
    (hentries : ∀ t ∈ entry :: exprEntries P, P.instrs.size ≤ t ∨ D[t]? = some 0) :
    ∃ d, absDepth P entry = some d := by
  have inv0 : InferInv P D (entry :: exprEntries P) ((entry :: exprEntries P).map (fun t => (t, 0)))
      (Array.replicate P.instrs.size none) := by
    refine ⟨by simp, fun pc k h => ?_, fun e he => ?_, fun pc k h => ?_, fun t ht => ?_⟩
    · simp [Array.getElem?_replicate] at h
    · simp only [List.mem_map] at he
      obtain ⟨t, ht, rfl⟩ := he
      exact hentries t ht
    · simp [Array.getElem?_replicate] at h
    · exact .inr (.inr (List.mem_map.2 ⟨t, ht, rfl⟩))
  obtain ⟨d, hd, inv⟩ := infer_ok hD (entry :: exprEntries P) (3 * P.instrs.size + (entry :: exprEntries P).length + 1) _ _ inv0
    (by rw [Array.toList_replicate, List.count_replicate_self, List.length_map]; omega)
  have hcheck : checkDepth P (entry :: exprEntries P) d = true := by
    simp only [checkDepth, Bool.and_eq_true, beq_iff_eq, List.all_eq_true, List.mem_range]
    refine ⟨⟨inv.size, fun t ht => ?_⟩, fun pc hpc => ?_⟩
    · rcases inv.entriesOK t ht with h | h | h
      · simp [h]
      · simp [h]
      · simp at h
    · simp only [checkAt]
      split
      · rename_i k hk
        obtain ⟨es, he, hes⟩ := inv.closed pc k hk
        simp only [he, List.all_eq_true]
        intro e hm
        rcases hes e hm with h | h | h
        · simp [h]
        · simp [h]
        · simp at h
      · rfl
  refine ⟨d, ?_⟩
  simp only [absDepth, absDepthE]
  rw [hd]
  simp [hcheck]

end Garnish.Props.C06
