/-
Lemmas/RuntimeConcat2.lean over `StoreLawsOn`: clean-up loop, `iterate_concatenation`, integer index and symbol look-up in a concatenation.
-/
import Garnish.Lemmas.RuntimeOnConcat
set_option linter.unusedSimpArgs false
set_option linter.unusedVariables false
namespace Garnish.Lemmas.Runtime.On
open Garnish Gen Garnish.Abs Garnish.Model.Equality Garnish.Model.Runtime Garnish.Lemmas.Runtime

variable {F σ : Type} {S : RStore F σ} {Inv : σ → Prop} {Rd : σ → Nat → Prop} (fo : FloatOps F)

theorem getPair_of' {s : σ} {a x y : Nat} (h : (S.view s).pair a = some (x, y)) :
    getPair S a s = .ok ((x, y), s) := by
  simp [getPair, RM.lift, h, fetch, Outcome.ofOption, Outcome.bind]

theorem getSymbol_of' {s : σ} {a y : Nat} (h : Decodes (S.view s) a (.sym y)) : getSymbol S a s = .ok (y, s) := by
  cases h with
  | sym _ hn => simp [getSymbol, RM.lift, hn, fetch, Outcome.ofOption, Outcome.bind]

/-- the clean-up loop pops what the work-list left behind -/
theorem clearBorrowed_spec (L : StoreLawsOn S Inv Rd) (base : List Nat) : ∀ (fuel : Nat) (extra : List Nat) (s : σ),
    Inv s → Deep S s base → S.regs s = extra ++ base → extra.length + 1 ≤ fuel →
    ∃ s', clearBorrowed S base.length fuel s = .ok ((), s') ∧ EffI S Inv s s' base (S.vals s) := by
  intro fuel
  induction fuel with
  | zero => intro extra s _ _ _ hf; omega
  | succ fuel ih =>
    intro extra s hinv hdb hregs hf
    have hlen : getRegisterLen S s = .ok ((extra ++ base).length, s) := by
      show Outcome.ok ((S.regs s).length, s) = _
      rw [hregs]
    rw [clearBorrowed, bind_ok hlen]
    cases extra with
    | nil =>
      simp only [List.nil_append, Nat.lt_irrefl, gt_iff_lt, if_false]
      exact ⟨s, rfl, ⟨⟨Keeps.refl S s, by simpa using hregs, rfl, rfl, rfl⟩, hinv⟩⟩
    | cons x xs =>
      have hgt : (x :: xs ++ base).length > base.length := by simp; omega
      simp only [hgt, if_true]
      obtain ⟨s1, h1, e1⟩ := popReg L hregs hinv (deep_app hdb xs)
      obtain ⟨s2, h2, e2⟩ := ih xs s1 e1.inv (e1.deep hdb) e1.regs (by simp at hf; omega)
      rw [e1.vals] at e2
      exact ⟨s2, by rw [bind_ok h1]; exact h2, e1.trans e2⟩

/-- `iterate_concatenation_mut_with_method` on a concatenation: the first item, in visiting order, that the check
accepts; the registers it borrowed are given back -/
theorem iterateConcatenation_spec (L : StoreLawsOn S Inv Rd) (rev : Bool)
    {checkFn : Unit → Number F → Nat → RM σ (Option Nat × Unit)} {vchk : Nat → Val F → Option (Val F)}
    (hchk : CheckRefines S checkFn vchk) (fuel : Nat) {s : σ} {addr : Nat} {vl vr : Val F}
    (h : Decodes (S.view s) addr (.concat vl vr)) (hf : nodes vl + nodes vr + 1 ≤ fuel)
    (hb : (visit rev (.concat vl vr)).length ≤ 2147483647) (hnc : ncNodes (.concat vl vr))
    (hinv : Inv s := by inv_tac) (hdp : Deep S s (S.regs s) := by deep_tac) :
    ∃ r idx' s', iterateConcatenation fo S rev fuel addr checkFn () s = .ok (((r, idx'), ()), s') ∧
      EffI S Inv s s' (S.regs s) (S.vals s) ∧
      match firstHit vchk 0 (visit rev (.concat vl vr)) with
      | some w => ∃ a, r = some a ∧ Decodes (S.view s') a w
      | none => r = none := by
  obtain ⟨la, ra, hc, dl, dr⟩ := concat_of h
  have hlen : getRegisterLen S s = .ok ((S.regs s).length, s) := rfl
  rw [iterateConcatenation, bind_ok (getMethod_of rev hc)]
  -- the two pushes, in either order
  have pushes : ∀ (cur next : Nat) (vc vn : Val F), ncNodes vc → ncNodes vn →
      Decodes (S.view s) cur vc → Decodes (S.view s) next vn →
      nodes vc + nodes vn + 1 ≤ fuel → (visitAll rev [vc, vn]).length ≤ 2147483647 →
      ∃ r idx' s', ((do
          let startRegister ← getRegisterLen S
          S.pushRegister next
          S.pushRegister cur
          let ((result, index), acc) ← iterLoop fo S rev checkFn startRegister fuel 0 ()
          clearBorrowed S startRegister fuel
          pure ((result, index), acc) : RM σ ((Option Nat × Nat) × Unit)) s = .ok (((r, idx'), ()), s')) ∧
        EffI S Inv s s' (S.regs s) (S.vals s) ∧
        match firstHit vchk 0 (visitAll rev [vc, vn]) with
        | some w => ∃ a, r = some a ∧ Decodes (S.view s') a w
        | none => r = none := by
    intro cur next vc vn nc1 nc2 dc dn hfu hbb
    obtain ⟨s1, h1, e1⟩ := pushReg L dn (ncNodes_ne nc2)
    obtain ⟨s2, h2, e2⟩ := pushReg L (e1.dec dc) (ncNodes_ne nc1)
    rw [e1.regs, e1.vals] at e2
    have e02 := e1.trans e2
    have hloop := iterLoop_spec fo L rev hchk (S.regs s) fuel [cur, next] [vc, vn] 0 s2 e2.inv (e02.deep hdp)
      (fun x hx => by rcases List.mem_cons.mp hx with rfl | hx; exact nc1; rcases List.mem_cons.mp hx with rfl | hx; exact nc2; cases hx)
      (by rw [e2.regs]; rfl) (.cons (e02.dec dc) (.cons (e02.dec dn) .nil))
      (by simp only [nodesAll]; omega) (by simpa using hbb)
    obtain ⟨r, idx', s3, extra, h3, e3, hx, hm⟩ := hloop
    rw [e2.vals] at e3
    obtain ⟨s4, h4, e4⟩ := clearBorrowed_spec L (S.regs s) fuel extra s3 e3.inv ((e02.trans e3).deep hdp) e3.regs
      (by simp only [nodesAll] at hx; omega)
    rw [e3.vals] at e4
    refine ⟨r, idx', s4, ?_, (e02.trans e3).trans e4, ?_⟩
    · rw [bind_ok hlen, bind_ok h1, bind_ok h2, bind_ok h3]
      simp only []
      rw [bind_ok h4]; rfl
    · cases hfh : firstHit vchk 0 (visitAll rev [vc, vn]) with
      | some w =>
        rw [hfh] at hm
        obtain ⟨a, ha, da⟩ := hm
        exact ⟨a, ha, e4.dec da⟩
      | none => rw [hfh] at hm; exact hm.1
  cases rev with
  | false =>
    simp only [Bool.false_eq_true, if_false]
    have := pushes la ra vl vr hnc.1 hnc.2 dl dr hf (by simpa [visitAll, visit] using hb)
    simpa [visitAll, visit] using this
  | true =>
    simp only [if_true]
    have := pushes ra la vr vl hnc.2 hnc.1 dr dl (by omega) (by simpa [visitAll, visit] using hb)
    simpa [visitAll, visit] using this

/-! ### the two uses -/

theorem visit_false : ∀ (v : Val F), visit false v = flatItems v
  | .concat l r => by simp [visit, flatItems, visit_false l, visit_false r]
  | .list items => rfl
  | .unit | .tru | .fls | .num _ | .char _ | .byte _ | .sym _ | .expr _ | .ext _ | .type _ | .chars _
  | .bytes _ | .symList _ | .pair _ _ | .range _ _ | .slice _ _ | .part _ _ | .custom => rfl

theorem visit_length (rev : Bool) : ∀ (v : Val F), (visit rev v).length = (flatItems v).length
  | .concat l r => by
    cases rev <;> simp [visit, flatItems, visit_length _ l, visit_length _ r]; omega
  | .list items => rfl
  | .unit | .tru | .fls | .num _ | .char _ | .byte _ | .sym _ | .expr _ | .ext _ | .type _ | .chars _
  | .bytes _ | .symList _ | .pair _ _ | .range _ _ | .slice _ _ | .part _ _ | .custom => rfl

theorem firstHit_idx (i : Int) : ∀ (k : Nat) (xs : List (Val F)),
    firstHit (idxChk i) k xs = if (k : Int) ≤ i then xs[(i - k).toNat]? else none
  | k, [] => by simp [firstHit]
  | k, x :: xs => by
    simp only [firstHit, idxChk]
    by_cases h : (k : Int) = i
    · subst h; simp
    · simp only [h, if_false]
      rw [firstHit_idx i (k + 1) xs]
      by_cases h2 : (k : Int) ≤ i
      · have h3 : ((k + 1 : Nat) : Int) ≤ i := by omega
        have e : (i - (k : Int)).toNat = (i - ((k + 1 : Nat) : Int)).toNat + 1 := by omega
        simp only [h2, h3, if_true, e, List.getElem?_cons_succ]
      · have h3 : ¬ ((k + 1 : Nat) : Int) ≤ i := by omega
        simp only [h2, h3, if_false]

theorem numEq_int (a b : Int) : Number.numEq fo (.int a) (.int b) = (a == b) := rfl

/-- `index_concatenation_for` at an integer index refines Abs/Ops `accessInt` on a concatenation -/
theorem indexConcatenationFor_spec (L : StoreLawsOn S Inv Rd) (fuel : Nat) {s : σ} {addr : Nat} {vl vr : Val F} (i : Int)
    (h : Decodes (S.view s) addr (.concat vl vr)) (hf : nodes vl + nodes vr + 1 ≤ fuel)
    (hb : (flatItems vl ++ flatItems vr).length ≤ 2147483647)
    (hnc : ncNodes (.concat vl vr))
    (hinv : Inv s := by inv_tac) (hdp : Deep S s (S.regs s) := by deep_tac) :
    AccOutI S Inv s (indexConcatenationFor fo S fuel addr (.int i) s) (accessInt fo (.int i) (.concat vl vr)) := by
  have hchk : CheckRefines S (fun (_ : Unit) (currentIndex : Number F) (a : Nat) =>
      (pure (if Number.numEq fo currentIndex (.int i) then some a else none, ()) : RM σ (Option Nat × Unit)))
      (idxChk i) := by
    intro st k a v _ dv
    refine ⟨if (k : Int) = i then some a else none, ?_, ?_⟩
    · show Outcome.ok ((if Number.numEq fo (.int (k : Int)) (.int i) = true then some a else none, ()), st) = _
      rw [numEq_int]
      by_cases hk : (k : Int) = i <;> simp [hk]
    · simp only [idxChk]
      by_cases hk : (k : Int) = i
      · simp only [hk, if_true]; exact ⟨a, rfl, dv⟩
      · simp only [hk, if_false]
  have hvis : visit false (.concat vl vr) = flatItems vl ++ flatItems vr := by
    rw [visit_false]; rfl
  obtain ⟨r, idx', s', h1, e1, hm⟩ := iterateConcatenation_spec fo L false hchk fuel h hf (by rw [hvis]; exact hb) hnc
  rw [hvis, firstHit_idx] at hm
  rw [indexConcatenationFor, bind_ok h1]
  simp only [accessInt]
  by_cases hneg : i < 0
  · have : ¬ ((0 : Nat) : Int) ≤ i := by omega
    simp only [this, if_false] at hm
    simp only [hneg, if_true]
    subst hm
    exact ⟨s', rfl, e1⟩
  · have h0 : (0 : Int) ≤ i := by omega
    simp only [Int.natCast_zero, h0, if_true, Int.sub_zero] at hm
    simp only [hneg, if_false]
    cases hx : (flatItems vl ++ flatItems vr)[i.toNat]? with
    | none => rw [hx] at hm; subst hm; exact ⟨s', rfl, e1⟩
    | some x =>
      rw [hx] at hm
      obtain ⟨a, rfl, da⟩ := hm
      exact ⟨a, s', rfl, da, e1⟩

theorem lookupSym_cons (sym : Nat) (x : Val F) (xs : List (Val F)) :
    lookupSym sym (x :: xs) = match keyedVal sym x with
      | some w => some w
      | none => lookupSym sym xs := by
  cases x <;> try rfl
  rename_i l r
  cases l <;> try rfl
  rename_i k
  simp only [lookupSym, keyedVal]
  cases k == sym <;> rfl

theorem firstHit_keyed (sym : Nat) : ∀ (k : Nat) (xs : List (Val F)),
    firstHit (fun _ v => keyedVal sym v) k xs = lookupSym sym xs
  | _, [] => rfl
  | k, x :: xs => by
    rw [lookupSym_cons, firstHit, firstHit_keyed sym (k + 1) xs]
    cases keyedVal sym x <;> rfl

/-- visiting right-to-left and taking the first keyed pair is Abs/Ops `lookupRev` -/
theorem firstHit_visit_rev (sym : Nat) : ∀ (v : Val F) (k : Nat),
    firstHit (fun _ v => keyedVal sym v) k (visit true v) = lookupRev sym v
  | .concat l r, k => by
    simp only [visit, if_true, firstHit_append, firstHit_visit_rev sym r k, firstHit_visit_rev sym l, lookupRev]
    cases lookupRev sym r <;> rfl
  | .list items, k => by simp only [visit, firstHit_keyed, lookupRev]
  | .pair l r, k => by simp only [visit, firstHit_keyed, lookupRev]
  | .unit, k | .tru, k | .fls, k | .num _, k | .char _, k | .byte _, k | .sym _, k | .expr _, k | .ext _, k
  | .type _, k | .chars _, k | .bytes _, k | .symList _, k | .range _ _, k | .slice _ _, k | .part _ _, k
  | .custom, k => by simp only [visit, firstHit_keyed, lookupRev]

/-- `get_value_if_association` reads only, and answers with the address of the keyed value -/
theorem getValueIfAssociation_spec (sym : Nat) {s : σ} {addr : Nat} {v : Val F} (h : Decodes (S.view s) addr v) :
    ∃ o, getValueIfAssociation S addr sym s = .ok (o, s) ∧
      match keyedVal sym v with
      | some w => ∃ a, o = some a ∧ Decodes (S.view s) a w
      | none => o = none := by
  rw [getValueIfAssociation, bind_ok (getDataType_of h)]
  cases v
  case pair vl vr =>
    cases h with
    | pair _ hp dl dr =>
      simp only [Val.typeOf]
      rw [bind_ok (getPair_of' hp)]
      simp only []
      rw [bind_ok (getDataType_of dl)]
      cases vl
      case sym k =>
        simp only [Val.typeOf, keyedVal]
        rw [bind_ok (getSymbol_of' dl)]
        by_cases hk : k = sym
        · subst hk; simp only [beq_self_eq_true, if_true]; exact ⟨_, rfl, _, rfl, dr⟩
        · have : (k == sym) = false := by simpa using hk
          simp only [this, Bool.false_eq_true, if_false]; exact ⟨_, rfl, rfl⟩
      all_goals exact ⟨none, rfl, rfl⟩
  all_goals exact ⟨none, rfl, rfl⟩

/-- `access_with_symbol` on a concatenation refines Abs/Ops `accessSym` (`lookupRev`: operands right to left) -/
theorem accessWithSymbol_concat_spec (L : StoreLawsOn S Inv Rd) (fuel : Nat) {s : σ} {addr : Nat} {vl vr : Val F} (sym : Nat)
    (h : Decodes (S.view s) addr (.concat vl vr)) (hf : nodes vl + nodes vr + 1 ≤ fuel)
    (hb : (flatItems vl ++ flatItems vr).length ≤ 2147483647)
    (hnc : ncNodes (.concat vl vr))
    (hinv : Inv s := by inv_tac) (hdp : Deep S s (S.regs s) := by deep_tac) :
    AccOutI S Inv s (accessWithSymbol fo S fuel sym addr s) (accessSym sym (.concat vl vr)) := by
  have hchk : CheckRefines S (fun (_ : Unit) (_index : Number F) (a : Nat) =>
      (do pure (← getValueIfAssociation S a sym, ()) : RM σ (Option Nat × Unit)))
      (fun _ v => keyedVal sym v) := by
    intro st k a v _ dv
    obtain ⟨o, h1, hm⟩ := getValueIfAssociation_spec sym dv
    exact ⟨o, by show (getValueIfAssociation S a sym >>= fun x => pure (x, ())) st = _; rw [bind_ok h1]; rfl, hm⟩
  have hlen : (visit true (.concat vl vr)).length ≤ 2147483647 := by
    rw [visit_length]; simpa [flatItems] using hb
  obtain ⟨r, idx', s', h1, e1, hm⟩ := iterateConcatenation_spec fo L true hchk fuel h hf hlen hnc
  rw [firstHit_visit_rev] at hm
  rw [accessWithSymbol, bind_ok (getDataType_of h)]
  simp only [Val.typeOf]
  rw [bind_ok h1]
  simp only [accessSym]
  have e : lookupRev sym (.concat vl vr) = (lookupRev sym vr).orElse (fun _ => lookupRev sym vl) := rfl
  rw [e] at hm
  cases hx : (lookupRev sym vr).orElse (fun _ => lookupRev sym vl) with
  | none => rw [hx] at hm; subst hm; exact ⟨s', rfl, e1⟩
  | some x =>
    rw [hx] at hm
    obtain ⟨a, rfl, da⟩ := hm
    exact ⟨a, s', rfl, da, e1⟩

end Garnish.Lemmas.Runtime.On
