/-
`StoreLawsOn` for `BasicGarnishData`, continued: the frame chain (`push_frame`, `pop_frame`).
-/
import Garnish.Lemmas.BasicLaws4
import Garnish.Lemmas.MutOps2
set_option linter.unusedSimpArgs false
set_option linter.unusedVariables false
set_option maxHeartbeats 2000000
namespace Garnish.Lemmas.Runtime.Basic
open Garnish Gen Garnish.Model.Equality Garnish.Model.Runtime Garnish.Model.Runtime.Basic Garnish.BasicOpt
open Garnish.Lemmas.Runtime Garnish.Lemmas.EqualityRefine

variable {F : Type}

/-! ### the frame chain, one cell at a time -/

theorem framesOf_frame {cells : Array Cell} {a p r : Nat} (hc : cells[a]? = some (Cell.frame p r)) (hp : p < a) :
    framesOf cells (some a) = (retOf cells a, regsOf cells (some r)) :: framesOf cells (some p) := by
  have h1 : frameChain cells (a + 1) a =
      (retOf cells a, regsOf cells (some r)) :: (if p < a then frameChain cells a p else []) := by
    simp only [frameChain, hc]
  show frameChain cells (a + 1) a = _ :: frameChain cells (p + 1) p
  rw [h1, if_pos hp, frameChain_fuel cells a p hp]

theorem framesOf_index {cells : Array Cell} {a p : Nat} (hc : cells[a]? = some (Cell.frameIndex p)) (hp : p < a) :
    framesOf cells (some a) = (retOf cells a, []) :: framesOf cells (some p) := by
  have h1 : frameChain cells (a + 1) a = (retOf cells a, []) :: (if p < a then frameChain cells a p else []) := by
    simp only [frameChain, hc]
  show frameChain cells (a + 1) a = _ :: frameChain cells (p + 1) p
  rw [h1, if_pos hp, frameChain_fuel cells a p hp]

theorem framesOf_freg {cells : Array Cell} {a r : Nat} (hc : cells[a]? = some (Cell.frameRegister r)) :
    framesOf cells (some a) = [(retOf cells a, regsOf cells (some r))] := by
  show frameChain cells (a + 1) a = _
  simp only [frameChain, hc]

theorem framesOf_root {cells : Array Cell} {a : Nat} (hc : cells[a]? = some Cell.frameRoot) :
    framesOf cells (some a) = [(retOf cells a, [])] := by
  show frameChain cells (a + 1) a = _
  simp only [frameChain, hc]

theorem isFrameCell_lt {cells : Array Cell} {a : Nat} (h : isFrameCell cells a = true) : a < cells.size := by
  unfold isFrameCell at h
  cases hc : cells[a]? with
  | none => simp [hc] at h
  | some c => exact cell_lt hc

theorem isRegCell_lt {cells : Array Cell} {a : Nat} (h : isRegCell cells a = true) : a < cells.size := by
  unfold isRegCell at h
  cases hc : cells[a]? with
  | none => simp [hc] at h
  | some c => exact cell_lt hc

/-- **`push_frame(j)`** -/
theorem pushFrame_law (nc : NumCode F) {st : BState} (hinv : BInv st) (j : Nat) :
    ∃ st', (basicRStore nc).pushFrame j st = .ok ((), st') ∧
      FEff (basicRStore nc) st st' ((basicRStore nc).regs st) ((basicRStore nc).vals st)
        ((j, (basicRStore nc).regs st) :: (basicRStore nc).frames st) ∧ BInv st' := by
  obtain ⟨s1, hp1, hc1, fit1⟩ := push_total (.jumpPoint j) hinv.fits
  obtain ⟨_, _, hf1⟩ := push_ok hp1
  -- the frame cell
  let c : Cell := match st.store.currentFrame, st.store.currentRegister with
    | some f, some r => Cell.frame f r
    | some f, none => .frameIndex f
    | none, some r => .frameRegister r
    | none, none => .frameRoot
  obtain ⟨s2, hp2, hc2, fit2⟩ := push_total c fit1
  obtain ⟨_, _, hf2⟩ := push_ok hp2
  have hf := hf1.trans hf2
  have hsz1 : s1.cells.size = st.store.cells.size + 1 := by rw [hc1]; simp
  have hcells : s2.cells = (st.store.cells.push (.jumpPoint j)).push c := by rw [hc2, hc1]
  have hop : st.store.pushFrame j = .ok { s2 with currentFrame := some (st.store.cells.size + 1) } := by
    have e1 : s1.currentFrame = st.store.currentFrame := hf1.2.2.2.2.2
    have e2 : s1.currentRegister = st.store.currentRegister := hf1.2.2.2.2.1
    simp only [Store.pushFrame, bind, Outcome.bind, hp1, e1, e2, pure]
    have hp2' := hp2
    revert hp2'
    simp only [c]
    cases st.store.currentFrame <;> cases st.store.currentRegister <;> intro hp2' <;> simp only [hp2', hsz1]
  have hw := pushFrame_wfq hinv.wfq hop
  have hsub : Sub st.store.cells s2.cells := by
    rw [hcells]
    intro i x hx
    have hi := cell_lt hx
    rw [Array.getElem?_push, Array.getElem?_push]
    simp only [Array.size_push]
    rw [if_neg (by omega), if_neg (by omega)]; exact hx
  have hn0 : s2.cells[st.store.cells.size]? = some (Cell.jumpPoint j) := by
    rw [hcells, Array.getElem?_push]; simp
  have hn1 : s2.cells[st.store.cells.size + 1]? = some c := by rw [hcells]; exact get_push2 _ _ _
  have hnew : ∀ (i : Nat) (x : Cell), s2.cells[i]? = some x → st.store.cells[i]? = some x ∨
      x = Cell.jumpPoint j ∨ (i = st.store.cells.size + 1 ∧ x = c) := by
    intro i x hx
    rcases Nat.lt_or_ge i st.store.cells.size with h | h
    · exact Or.inl (by rw [← hsub.get h]; exact hx)
    · have hi : i < s2.cells.size := cell_lt hx
      have hs2 : s2.cells.size = st.store.cells.size + 2 := by rw [hcells]; simp
      rcases Nat.lt_or_ge i (st.store.cells.size + 1) with h' | h'
      · have : i = st.store.cells.size := by omega
        subst this; rw [hn0] at hx; exact Or.inr (Or.inl (Option.some.inj hx).symm)
      · have : i = st.store.cells.size + 1 := by omega
        subst this; rw [hn1] at hx; exact Or.inr (Or.inr ⟨rfl, (Option.some.inj hx).symm⟩)
  have hret : retOf s2.cells (st.store.cells.size + 1) = j := by simp only [retOf, hn0]
  have hrlt : ∀ r, st.store.currentRegister = some r → r < st.store.cells.size :=
    fun r hr => isRegCell_lt (hinv.regHead r hr)
  have hflt : ∀ f, st.store.currentFrame = some f → f < st.store.cells.size :=
    fun f hf' => isFrameCell_lt (hinv.ftyped.head f hf')
  have hregsR : ∀ r, st.store.currentRegister = some r →
      regsOf s2.cells (some r) = (basicRStore nc).regs st := by
    intro r hr
    show _ = regsOf st.store.cells st.store.currentRegister
    rw [hr]; exact regsOf_sub hsub (fun x hx => by cases hx; exact hrlt r hr)
  have hframesF : ∀ f, st.store.currentFrame = some f →
      framesOf s2.cells (some f) = (basicRStore nc).frames st := by
    intro f hf'
    show _ = framesOf st.store.cells st.store.currentFrame
    rw [hf']; exact framesOf_sub hsub hinv.frameSaved (fun x hx => by cases hx; exact hflt f hf')
  have hframes : framesOf s2.cells (some (st.store.cells.size + 1)) =
      (j, (basicRStore nc).regs st) :: (basicRStore nc).frames st := by
    cases hcf : st.store.currentFrame with
    | none =>
      have hfr0 : (basicRStore nc).frames st = [] := by
        show framesOf _ st.store.currentFrame = []; rw [hcf]; rfl
      cases hcr : st.store.currentRegister with
      | none =>
        have hce : c = Cell.frameRoot := by simp only [c, hcf, hcr]
        have hr0 : (basicRStore nc).regs st = [] := by show regsOf _ st.store.currentRegister = []; rw [hcr]; rfl
        rw [framesOf_root (by rw [hn1, hce]), hret, hfr0, hr0]
      | some r =>
        have hce : c = Cell.frameRegister r := by simp only [c, hcf, hcr]
        rw [framesOf_freg (r := r) (by rw [hn1, hce]), hret, hfr0, hregsR r hcr]
    | some f =>
      cases hcr : st.store.currentRegister with
      | none =>
        have hce : c = Cell.frameIndex f := by simp only [c, hcf, hcr]
        have hr0 : (basicRStore nc).regs st = [] := by show regsOf _ st.store.currentRegister = []; rw [hcr]; rfl
        rw [framesOf_index (p := f) (by rw [hn1, hce]) (by have := hflt f hcf; omega), hret, hframesF f hcf, hr0]
      | some r =>
        have hce : c = Cell.frame f r := by simp only [c, hcf, hcr]
        rw [framesOf_frame (p := f) (r := r) (by rw [hn1, hce]) (by have := hflt f hcf; omega), hret,
          hframesF f hcf, hregsR r hcr]
  have hck : frameKind c = true := by
    simp only [c]; cases st.store.currentFrame <;> cases st.store.currentRegister <;> rfl
  refine ⟨_, liftUnit_ok (f := fun s => s.pushFrame j) hop,
    ⟨keeps_sub nc (s' := { s2 with currentFrame := some (st.store.cells.size + 1) }) hsub, ?_, ?_, rfl, hframes⟩, ?_⟩
  · exact regs_sub (s' := { s2 with currentFrame := some (st.store.cells.size + 1) }) hinv hsub hf.2.2.2.2.1
  · exact vals_sub (s' := { s2 with currentFrame := some (st.store.cells.size + 1) }) hinv hsub hf.2.2.2.1
  · have hsz : st.store.cells.size ≤ s2.cells.size := by rw [hcells]; simp; omega
    have hcreg : ∀ p v, c ≠ Cell.register p v := by
      intro p v h; rw [h] at hck; cases hck
    have hcframe : ∀ p r, c = Cell.frame p r → st.store.currentFrame = some p ∧ st.store.currentRegister = some r := by
      intro p r h
      cases hcf : st.store.currentFrame <;> cases hcr : st.store.currentRegister <;> simp [c, hcf, hcr] at h
      exact ⟨by rw [h.1], by rw [h.2]⟩
    have hcfi : ∀ p, c = Cell.frameIndex p → st.store.currentFrame = some p := by
      intro p h
      cases hcf : st.store.currentFrame <;> cases hcr : st.store.currentRegister <;> simp [c, hcf, hcr] at h
      rw [h]
    have hcfr : ∀ r, c = Cell.frameRegister r → st.store.currentRegister = some r := by
      intro r h
      cases hcf : st.store.currentFrame <;> cases hcr : st.store.currentRegister <;> simp [c, hcf, hcr] at h
      rw [h]
    refine ⟨hw, ⟨by simpa using fit2.1, fit2.2⟩, ?_, ?_, ?_, ⟨?_, ?_, ?_⟩⟩
    · intro a ha
      have : st.store.currentRegister = some a := by rw [← hf.2.2.2.2.1]; exact ha
      exact isRegCell_sub hsub (hinv.regHead a this)
    · intro i p v hx
      rcases hnew i _ hx with h | h | ⟨_, h⟩
      · exact isRegCell_sub hsub (hinv.regPrev i p v h)
      · cases h
      · exact absurd h.symm (hcreg p v)
    · intro i p r hx
      rcases hx with hx | hx
      · rcases hnew i _ hx with h | h | ⟨_, h⟩
        · exact Nat.lt_of_lt_of_le (hinv.frameSaved i p r (Or.inl h)) hsz
        · cases h
        · exact Nat.lt_of_lt_of_le (hrlt r (hcframe p r h.symm).2) hsz
      · rcases hnew i _ hx with h | h | ⟨_, h⟩
        · exact Nat.lt_of_lt_of_le (hinv.frameSaved i p r (Or.inr h)) hsz
        · cases h
        · exact Nat.lt_of_lt_of_le (hrlt r (hcfr r h.symm)) hsz
    · intro a ha
      simp only [Option.some.injEq] at ha
      subst ha
      show isFrameCell s2.cells _ = true
      unfold isFrameCell
      rw [hn1]
      cases hcf : st.store.currentFrame <;> cases hcr : st.store.currentRegister <;> simp [c, hcf, hcr]
    · intro i p hx
      rcases hx with ⟨r, hx⟩ | hx
      · rcases hnew i _ hx with h | h | ⟨_, h⟩
        · exact isFrameCell_sub hsub (hinv.ftyped.prev i p (Or.inl ⟨r, h⟩))
        · cases h
        · exact isFrameCell_sub hsub (hinv.ftyped.head p (hcframe p r h.symm).1)
      · rcases hnew i _ hx with h | h | ⟨_, h⟩
        · exact isFrameCell_sub hsub (hinv.ftyped.prev i p (Or.inr h))
        · cases h
        · exact isFrameCell_sub hsub (hinv.ftyped.head p (hcfi p h.symm))
    · intro i r hx
      rcases hx with ⟨p, hx⟩ | hx
      · rcases hnew i _ hx with h | h | ⟨_, h⟩
        · exact isRegCell_sub hsub (hinv.ftyped.reg i r (Or.inl ⟨p, h⟩))
        · cases h
        · exact isRegCell_sub hsub (hinv.regHead r (hcframe p r h.symm).2)
      · rcases hnew i _ hx with h | h | ⟨_, h⟩
        · exact isRegCell_sub hsub (hinv.ftyped.reg i r (Or.inr h))
        · cases h
        · exact isRegCell_sub hsub (hinv.regHead r (hcfr r h.symm))

end Garnish.Lemmas.Runtime.Basic
