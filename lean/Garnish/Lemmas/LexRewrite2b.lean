/-
Text-level rewrites, lexer side, part 2b (C18): a blank ends the pending token exactly as the end-of-input sentinel does
(`blank_vs_sentinel`), the invariants along a prefix run (`runChars_core`), and the lexer-level theorem for trailing
blanks (`lex_trailing`): `s ++ w` lexes to the tokens of `s` followed by one Whitespace token spelling `w`.
-/
import Garnish.Lemmas.LexRewrite2
set_option linter.unusedSimpArgs false
set_option linter.unusedVariables false
namespace Garnish.Model.Lexer
open Garnish.Model Garnish.Model.Parser Garnish.Spec

theorem endOf_fields (σ : Lexer) :
    (endOf σ).currentCharacters = σ.currentCharacters ∧ (endOf σ).state = σ.state ∧
    (endOf σ).tokenStartRow = σ.tokenStartRow ∧ (endOf σ).tokenStartColumn = σ.tokenStartColumn ∧
    (endOf σ).shouldCreate = σ.shouldCreate ∧ (endOf σ).operatorTree = σ.operatorTree ∧ (endOf σ).atEnd = σ.atEnd := by
  unfold endOf symFix
  split
  · split <;> exact ⟨rfl, rfl, rfl, rfl, rfl, rfl, rfl⟩
  · exact ⟨rfl, rfl, rfl, rfl, rfl, rfl, rfl⟩

theorem endOf_type_congr {σ τ : Lexer} (h1 : τ.state = σ.state) (h2 : τ.currentCharacters = σ.currentCharacters)
    (h3 : τ.currentTokenType = σ.currentTokenType) : (endOf τ).currentTokenType = (endOf σ).currentTokenType := by
  unfold endOf symFix
  rw [h1, h2]
  split
  · split
    · rfl
    · exact h3
  · exact h3

theorem canCreate_congr {σ τ : Lexer} (h2 : τ.currentCharacters = σ.currentCharacters)
    (h3 : τ.currentTokenType = σ.currentTokenType) :
    canCreateValidToken { τ with canFloat := !blocksFloat τ.currentTokenType } =
    canCreateValidToken { σ with canFloat := !blocksFloat σ.currentTokenType } := by
  unfold canCreateValidToken
  simp only [h2, h3]

/-- the pending token of a plain state: its text and type when a blank or the sentinel ends it -/
def pendingTok (σ : Lexer) (ty : Gen.TokenType) : LexerToken :=
  ⟨σ.currentCharacters, ty, σ.tokenStartRow, σ.tokenStartColumn⟩

/-- **a blank ends the pending token exactly as the end-of-input sentinel does** (plain states):
either both record an error and emit nothing, or both emit the same token — after the sentinel the lexer is done, after
the blank it is inside a Whitespace token -/
theorem blank_vs_sentinel (cc : CharClass) (hcc : cc.SaneBlank) (σ : Lexer) (c : Char) (hc : IsBlank c)
    (hs : PlainState σ.state) (htr : σ.operatorTree = theTree) (hcr : σ.shouldCreate = true) :
    (∃ σ1 σ2, processChar cc { σ with atEnd := true } '\x00' = .ok (σ1, none) ∧ σ1.result = .err ∧
        processChar cc σ c = .ok (σ2, none) ∧ σ2.result = .err) ∨
    (∃ ty σ1 σ2, processChar cc { σ with atEnd := true } '\x00' = .ok (σ1, some (pendingTok σ ty)) ∧
        σ1.state = .noToken ∧ σ1.result = .ok ∧ σ1.operatorTree = theTree ∧
        processChar cc σ c = .ok (σ2, some (pendingTok σ ty)) ∧ InWhitespace σ2 [c] ∧ σ2.operatorTree = theTree ∧
        σ2.atEnd = σ.atEnd) := by
  -- the two lexers handed to `stateStep`
  let τa : Lexer := { ({ σ with atEnd := true } : Lexer) with charactersLexed := σ.charactersLexed + 1 }
  let τb : Lexer := { σ with charactersLexed := σ.charactersLexed + 1 }
  have hxa : Ender '\x00' := Or.inr (Or.inr rfl)
  have hxb : Ender c := by rcases hc with h | h; exact Or.inl h; exact Or.inr (Or.inl h)
  have hsa := stateStep_ender cc hcc τa '\x00' hxa hs htr
  have hsb := stateStep_ender cc hcc τb c hxb hs htr
  have hpa : processChar cc { σ with atEnd := true } '\x00' = .ok (finishChar cc (endOf τa) '\x00' none true) := by
    unfold processChar; simp only []; rw [show stateStep cc τa '\x00' = _ from hsa]
  have hpb : processChar cc σ c = .ok (finishChar cc (endOf τb) c none true) := by
    unfold processChar; simp only []; rw [show stateStep cc τb c = _ from hsb]
  rw [hpa, hpb]
  obtain ⟨fa1, fa2, fa3, fa4, fa5, fa6, fa7⟩ := endOf_fields τa
  obtain ⟨fb1, fb2, fb3, fb4, fb5, fb6, fb7⟩ := endOf_fields τb
  have hnta : (endOf τa).state ≠ .noToken := by
    rw [fa2]; show σ.state ≠ _; rcases hs with h | h | h | h | h <;> (rw [h]; decide)
  have hntb : (endOf τb).state ≠ .noToken := by
    rw [fb2]; show σ.state ≠ _; rcases hs with h | h | h | h | h <;> (rw [h]; decide)
  have htyab : (endOf τa).currentTokenType = (endOf τb).currentTokenType := endOf_type_congr rfl rfl rfl
  have hcvab : canCreateValidToken { endOf τa with canFloat := !blocksFloat (endOf τa).currentTokenType } =
      canCreateValidToken { endOf τb with canFloat := !blocksFloat (endOf τb).currentTokenType } :=
    canCreate_congr (by rw [fa1, fb1]) htyab
  cases hcv : canCreateValidToken { endOf τb with canFloat := !blocksFloat (endOf τb).currentTokenType } with
  | err =>
    left
    have ha := finishChar_bad cc (endOf τa) '\x00' hnta (Or.inl (by rw [hcvab]; exact hcv))
    have hb := finishChar_bad cc (endOf τb) c hntb (Or.inl hcv)
    exact ⟨_, _, congrArg Outcome.ok (Prod.ext rfl ha.2), ha.1, congrArg Outcome.ok (Prod.ext rfl hb.2), hb.1⟩
  | ok =>
    cases hty : (endOf τb).currentTokenType with
    | none =>
      left
      have ha := finishChar_bad cc (endOf τa) '\x00' hnta (Or.inr (by rw [htyab]; exact hty))
      have hb := finishChar_bad cc (endOf τb) c hntb (Or.inr hty)
      exact ⟨_, _, congrArg Outcome.ok (Prod.ext rfl ha.2), ha.1, congrArg Outcome.ok (Prod.ext rfl hb.2), hb.1⟩
    | some ty =>
      right
      obtain ⟨σ1, h1, h1s, h1c, h1r, h1t⟩ := finishChar_sentinel cc hcc.toSane (endOf τa) hnta ty
        (by rw [hcvab]; exact hcv) (by rw [htyab]; exact hty) (by rw [fa6]; exact htr) (by rw [fa5]; exact hcr)
        (by rw [fa7])
      obtain ⟨σ2, h2, h2w, h2t, h2a⟩ := finishChar_blank cc (endOf τb) c hc hntb ty hcv hty (by rw [fb6]; exact htr)
        (by rw [fb5]; exact hcr)
      have etok1 : (⟨(endOf τa).currentCharacters, ty, (endOf τa).tokenStartRow, (endOf τa).tokenStartColumn⟩ : LexerToken) =
          pendingTok σ ty := by rw [fa1, fa3, fa4]; rfl
      have etok2 : (⟨(endOf τb).currentCharacters, ty, (endOf τb).tokenStartRow, (endOf τb).tokenStartColumn⟩ : LexerToken) =
          pendingTok σ ty := by rw [fb1, fb3, fb4]; rfl
      rw [etok1] at h1
      rw [etok2] at h2
      exact ⟨ty, σ1, σ2, by rw [h1], h1s, h1r, h1t, by rw [h2], h2w, h2t, by rw [h2a, fb7]⟩

/-- end of input inside a Whitespace token: the token is emitted, then the lexer is done -/
theorem lexEnd_inWhitespace (cc : CharClass) (hcc : cc.Sane) (fuel : Nat) (σ : Lexer) (cs : List Char)
    (toks : List LexerToken) (h : InWhitespace σ cs) (htr : σ.operatorTree = theTree) :
    ∃ σ', lexEnd cc (fuel + 2) σ toks =
      .ok (toks ++ [⟨cs, .whitespace, σ.tokenStartRow, σ.tokenStartColumn⟩], σ') := by
  obtain ⟨⟨h1, h2, h3, h4, h5⟩, hty⟩ := h
  let τ : Lexer := { ({ σ with atEnd := true } : Lexer) with charactersLexed := σ.charactersLexed + 1 }
  have hstep : stateStep cc τ '\x00' = .ok (.cont τ none true) := by
    unfold stateStep
    rw [show τ.state = .spaces from h1]
    simp [Step.ofPair, armSpaces]
  have hcv : canCreateValidToken { τ with canFloat := !blocksFloat τ.currentTokenType } = .ok := by
    simp only [canCreateValidToken]
    rw [show τ.currentTokenType = some .whitespace from hty]
  obtain ⟨σ1, hf, hs1, _, hr1, ht1⟩ := finishChar_sentinel cc hcc τ (by rw [show τ.state = .spaces from h1]; decide)
    .whitespace hcv hty htr h4 rfl
  have hp : processChar cc { σ with atEnd := true } '\x00' =
      .ok (σ1, some ⟨cs, .whitespace, σ.tokenStartRow, σ.tokenStartColumn⟩) := by
    unfold processChar
    simp only []
    rw [show stateStep cc τ '\x00' = _ from hstep]
    simp only []
    rw [hf]
    rw [show τ.currentCharacters = cs from h2]
  rw [show fuel + 2 = (fuel + 1) + 1 from rfl, lexEnd]
  simp only [isErr_of_ok h5, Bool.false_eq_true, ↓reduceIte]
  rw [hp]
  simp only [hr1]
  exact lexEnd_done cc hcc fuel σ1 _ hs1 hr1 ht1

theorem runChars_err_head (cc : CharClass) (x : List Char) (σ1 σ : Lexer) (t1 toks : List LexerToken)
    (herr : σ1.result = .err) (h : runChars cc x σ1 t1 = .ok (σ, toks)) : x = [] ∧ σ = σ1 ∧ toks = t1 := by
  cases x with
  | nil =>
    simp only [runChars, Outcome.ok.injEq, Prod.mk.injEq] at h
    exact ⟨rfl, h.1.symm, h.2.symm⟩
  | cons d r => simp [runChars, herr, LexResult.isErr] at h

/-- the invariants along a prefix run (the last step may have recorded an error) -/
theorem runChars_core (cc : CharClass) (hcc : cc.Sane2) : ∀ (x : List Char) (σ0 σ : Lexer) (c0 : List Char)
    (t0 toks : List LexerToken), Core σ0 c0 t0 → Inv σ0 → σ0.atEnd = false →
    runChars cc x σ0 t0 = .ok (σ, toks) →
    (σ.result = .err ∨ Core σ (c0 ++ x) toks) ∧ Inv σ ∧ σ.atEnd = false ∧ σ.operatorTree = σ0.operatorTree
  | [], σ0, σ, c0, t0, toks, hc, hi, ha, h => by
    simp only [runChars, Outcome.ok.injEq, Prod.mk.injEq] at h
    obtain ⟨rfl, rfl⟩ := h
    exact ⟨Or.inr (by simpa using hc), hi, ha, rfl⟩
  | c :: x, σ0, σ, c0, t0, toks, hc, hi, ha, h => by
    simp only [runChars, isErr_of_ok hc.ok, Bool.false_eq_true, ↓reduceIte] at h
    obtain ⟨σ1, ot, hp, hi1⟩ := processChar_ok cc hcc.toSane σ0 c hi
    have hf := processChar_frame cc _ _ _ _ hp
    have hns : ¬Sentinel σ0 c := fun hs => by have := hs.2; rw [ha] at this; cases this
    have hstep := processChar_core cc hcc σ0 c c0 t0 hc hi hns σ1 ot hp
    have ha1 : σ1.atEnd = false := by rw [hf.2.1]; exact ha
    rw [hp] at h
    have hcons : c0 ++ c :: x = (c0 ++ [c]) ++ x := by simp
    -- the rest of the run, from `σ1` with the tokens so far
    have hrest : ∃ t1, runChars cc x σ1 t1 = .ok (σ, toks) ∧ t1 = t0 ++ ot.toList := by
      cases ot with
      | none => exact ⟨t0, h, by simp⟩
      | some t =>
        simp only [] at h
        cases hr : σ1.result with
        | err => rw [hr] at h; cases h
        | ok => rw [hr] at h; exact ⟨t0 ++ [t], h, by simp⟩
    obtain ⟨t1, hrun1, ht1⟩ := hrest
    rcases hstep with herr | hcore1
    · obtain ⟨rfl, rfl, _⟩ := runChars_err_head cc x σ1 σ t1 toks herr hrun1
      exact ⟨Or.inl herr, hi1, ha1, hf.1⟩
    · have := runChars_core cc hcc x σ1 σ (c0 ++ [c]) t1 toks (by rw [ht1]; exact hcore1) hi1 ha1 hrun1
      rw [hcons]
      exact ⟨this.1, this.2.1, this.2.2.1, this.2.2.2.trans hf.1⟩

/-- blanks until the end of the input, from inside a Whitespace token: one Whitespace token with all of them -/
theorem lexLoop_blanks_end (cc : CharClass) (hcc : cc.Sane) (r : List Char) (hr : ∀ x ∈ r, IsBlank x) (σ : Lexer)
    (cs : List Char) (T : List LexerToken) (h : InWhitespace σ cs) (htr : σ.operatorTree = theTree) :
    ∃ ws σ', lexLoop cc r σ T = .ok (T ++ [ws], σ') ∧ ws.tokenType = .whitespace ∧ ws.text = cs ++ r := by
  obtain ⟨σ3, hrun, hin3, _⟩ := inWhitespace_run cc r σ cs T h hr
  have htr3 : σ3.operatorTree = theTree := by rw [(runChars_frame cc r σ σ3 T T hrun).1]; exact htr
  have e := lexLoop_append cc r [] σ σ3 T T hrun
  rw [List.append_nil] at e
  obtain ⟨σ', hend⟩ := lexEnd_inWhitespace cc hcc 2 σ3 (cs ++ r) T hin3 htr3
  exact ⟨_, σ', by rw [e]; simpa [lexLoop, endFuel] using hend, rfl, rfl⟩

/-- a blank between tokens starts a Whitespace token -/
theorem noToken_blank (cc : CharClass) (σ : Lexer) (c : Char) (hc : IsBlank c) (hs : σ.state = .noToken)
    (htr : σ.operatorTree = theTree) (hcr : σ.shouldCreate = true) (hok : σ.result = .ok)
    (hcb : σ.couldBeSubExpression = false) :
    ∃ σ2, processChar cc σ c = .ok (σ2, none) ∧ InWhitespace σ2 [c] ∧ σ2.operatorTree = theTree := by
  rw [processChar_noToken cc σ c hs]
  refine ⟨_, rfl, ?_⟩
  rw [startToken_blank cc _ c hc (by simpa using htr)]
  rcases hc with rfl | rfl
  all_goals
    refine ⟨⟨⟨?_, ?_, ?_, ?_, ?_⟩, ?_⟩, ?_⟩ <;> simp [bumpColumn, hcr, htr, hok, hcb]

/-- the lexer state in which the input may end for trailing blanks to add exactly one Whitespace token: a pending
number / float / identifier / annotation / operator, or between tokens -/
def TrailState (σ : Lexer) : Prop :=
  PlainState σ.state ∨ (σ.state = .noToken ∧ σ.couldBeSubExpression = false)

theorem lexFull_eq_lexEnd (cc : CharClass) (s : List Char) (σ : Lexer) (toks : List LexerToken)
    (hrun : runChars cc s (Lexer.init theTree) [] = .ok (σ, toks)) : lexFull cc s = lexEnd cc endFuel σ toks := by
  unfold lexFull
  rw [new_eq]
  simp only []
  have e := lexLoop_append cc s [] _ σ [] toks hrun
  rw [List.append_nil] at e
  rw [e]; rfl

/-- **trailing blanks, lexer level**: if `s` lexes to `t` and the lexer ends `s` in a `TrailState`, then `s ++ w`
(`w` a non-empty run of spaces/tabs) lexes to `t` followed by ONE Whitespace token spelling `w` -/
theorem lex_trailing (cc : CharClass) (hcc : cc.SaneBlank) (hcc2 : cc.Sane2) (s : List Char) (c : Char) (r : List Char)
    (hc : IsBlank c) (hr : ∀ x ∈ r, IsBlank x) (σ : Lexer) (toks : List LexerToken)
    (hrun : runChars cc s (Lexer.init theTree) [] = .ok (σ, toks)) (hG : TrailState σ) (t : List LexerToken)
    (hl : lex cc s = .ok t) :
    ∃ ws, lex cc (s ++ c :: r) = .ok (t ++ [ws]) ∧ ws.tokenType = .whitespace ∧ ws.text = c :: r := by
  obtain ⟨hcore, hinv, hat, htr⟩ := runChars_core cc hcc2 s _ σ [] [] toks (Core_init theTree)
    (fun h => by simp [Lexer.init] at h) rfl hrun
  have htr : σ.operatorTree = theTree := htr
  obtain ⟨σf, hfull⟩ := lex_of_lexFull hl
  rw [lexFull_eq_lexEnd cc s σ toks hrun] at hfull
  -- no error is recorded at the end of `s`
  have hok : σ.result = .ok := by
    cases hres : σ.result with
    | ok => rfl
    | err => rw [show endFuel = 3 + 1 from rfl, lexEnd_err cc 3 σ toks hres] at hfull; cases hfull
  have hcore : Core σ ([] ++ s) toks := by
    rcases hcore with h | h
    · rw [hok] at h; cases h
    · exact h
  have hcr := hcore.create
  -- the run on `s ++ c :: r` goes through `σ` as well
  have hfull' : lexFull cc (s ++ c :: r) = lexLoop cc (c :: r) σ toks := by
    unfold lexFull
    rw [new_eq]
    simp only []
    exact lexLoop_append cc s (c :: r) _ σ [] toks hrun
  suffices hsuff : ∃ ws σ', lexLoop cc (c :: r) σ toks = .ok (t ++ [ws], σ') ∧ ws.tokenType = .whitespace ∧
      ws.text = c :: r by
    obtain ⟨ws, σ', h1, h2, h3⟩ := hsuff
    exact ⟨ws, by simp [lex, hfull', h1], h2, h3⟩
  simp only [lexLoop, isErr_of_ok hok, Bool.false_eq_true, ↓reduceIte]
  rcases hG with hplain | ⟨hnt, hcb⟩
  · rcases blank_vs_sentinel cc hcc σ c hc hplain htr hcr with
      ⟨σ1, σ2, hp1, he1, _, _⟩ | ⟨ty, σ1, σ2, hp1, hs1, hr1, ht1, hp2, hw2, ht2, _⟩
    · -- the sentinel records an error: `s` would not lex
      exfalso
      rw [show endFuel = 3 + 1 from rfl, lexEnd] at hfull
      simp only [isErr_of_ok hok, Bool.false_eq_true, ↓reduceIte] at hfull
      rw [hp1] at hfull
      simp only [] at hfull
      have := (lexFinish_ok hfull).2
      split at this
      · simp at this
      · rw [he1] at this; cases this
    · -- both end the pending token
      have ht : t = toks ++ [pendingTok σ ty] := by
        rw [show endFuel = 3 + 1 from rfl, lexEnd] at hfull
        simp only [isErr_of_ok hok, Bool.false_eq_true, ↓reduceIte] at hfull
        rw [hp1] at hfull
        simp only [hr1] at hfull
        exact lexEnd_second cc 2 σ1 σf _ t hs1 hfull
      rw [hp2]
      simp only [hw2.wsA.ok]
      obtain ⟨ws, σ', h1, h2, h3⟩ := lexLoop_blanks_end cc hcc.toSane r hr σ2 [c] (toks ++ [pendingTok σ ty]) hw2 ht2
      exact ⟨ws, σ', by rw [ht]; exact h1, h2, by simpa using h3⟩
  · -- between tokens
    have ht : t = toks := by
      obtain ⟨σ', hd⟩ := lexEnd_done cc hcc.toSane 3 σ toks hnt hok htr
      rw [show endFuel = 3 + 1 from rfl, hd] at hfull
      simp only [Outcome.ok.injEq, Prod.mk.injEq] at hfull
      exact hfull.1.symm
    obtain ⟨σ2, hp2, hw2, ht2⟩ := noToken_blank cc σ c hc hnt htr hcr hok hcb
    rw [hp2]
    simp only []
    obtain ⟨ws, σ', h1, h2, h3⟩ := lexLoop_blanks_end cc hcc.toSane r hr σ2 [c] toks hw2 ht2
    exact ⟨ws, σ', by rw [ht]; exact h1, h2, by simpa using h3⟩

end Garnish.Model.Lexer
