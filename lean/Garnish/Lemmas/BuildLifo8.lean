/-
C04, builder half — the order of the out-of-line parts, part 8: positions on `root_stack` (`lifoR`, `lifoA`), the key step
for the metadata, and `stepL_linv`: one handler call keeps `LInv`.
-/
import Garnish.Lemmas.BuildLifo7
namespace Garnish.Lemmas.BuildSeq
open Garnish Garnish.Gen Garnish.Model.Parser Garnish.Model.Literals Garnish.Model.Build Garnish.Lemmas.Build
open Garnish.Lemmas.BuildTotal
open Garnish.Lemmas.BuildOrder (Above above_append_left above_append_mem above_append_right above_mem above_irrefl
  above_top_false above_init Attr Moving nm1 nm2 nm3 nmr nm23 nm123 get_append attr_append)

variable {F : Type} {root : Nat} {tree : Array ParseNode} {G : Nat → Prop} {m0 : Nat}

/-- the nodes named by `Rel` are in the validated set -/
theorem Rel.facts (V : Validated root tree G) {r1 r2 : Nat} (h : Rel tree G root r1 r2) :
    G r1 ∧ G r2 ∧ ∀ w, G w → ¬ ILink tree w r2 := by
  obtain ⟨ρ, s1, k1, s2, k2, hρ, h1, h2, h3, h4, _⟩ := h
  have hk1 := idesc_G V (idesc_G V hρ h1) h3.idesc
  have hk2 := idesc_G V (idesc_G V hρ h2) h4.idesc
  refine ⟨(child_facts V hk1 h3.ool.isChild).1, (child_facts V hk2 h4.ool.isChild).1, fun w hw hl => ?_⟩
  have := parent_unique V hw hk2 hl.isChild h4.ool.isChild
  subst this
  exact ool_not_ilink V hw h4.ool hl

/-- the node on top of the work list, still being visited: nothing below a root that was pushed earlier is attributed yet -/
theorem lifo_key (V : Validated root tree G) {ph : Nat → Phase} {ctx : Ctx F} (hinv : Inv root tree G ph ctx) {S0 R : List Nat}
    {x : Nat} {nodes : Nodes} {M : Array (Option Nat)} (ho : SInv root tree G m0 ph (S0 ++ [x]) nodes M)
    (hl : LInv root tree G m0 ph nodes R M) (hx : Act ph x) {z : Nat} (hp : PrecL tree G root x z) :
    ¬ Attr m0 M z ∧ z ≠ x := by
  obtain ⟨r1, r2, hrel, hsx, hsz⟩ := hp
  have hr1 := hl.lifoA r1 r2 x hrel hsx hx
  have hr1G := (hrel.facts V).1
  suffices hkey : (ph z = .p1 ∨ ph z = .p2 ∨ ph z = .p3) → False by
    refine ⟨fun ha => hkey (Or.inr (ho.attrVisited z ha)), fun e => hkey ?_⟩
    subst e
    rcases hx with h | h
    · exact Or.inl h
    · exact Or.inr (Or.inl h)
  intro hzv
  have hz0 : ph z ≠ .p0 := by rcases hzv with h | h | h <;> rw [h] <;> intro h' <;> cases h'
  rcases sub_climb V hinv hr1G hsz hz0 with e | e
  · subst e; rw [hr1] at hzv; rcases hzv with h | h | h <;> cases h
  · rw [hr1] at e; rcases e with e | e <;> cases e

section step
variable {ph ph' : Nat → Phase} {ctx ctx' : Ctx F} {ni : Nat} {pn : ParseNode} {vni : Phase} {cs rs suf rsuf : List Nat}
  {l : List (Option Nat)} {M M' : Array (Option Nat)}

theorem stepL_lifoA (sl : StepL root tree G ph ph' ctx ctx' ni pn vni cs rs suf rsuf l M M')
    (hl : LInv root tree G m0 ph ctx.nodes ctx.rootStack.toList M) :
    ∀ r1 r2 x, Rel tree G root r1 r2 → Sub tree r2 x → Act ph' x → ph' r1 = .pr := by
  intro r1 r2 x hrel hsx hact
  have V := sl.st.V
  obtain ⟨_, hr2G, hr2nl⟩ := hrel.facts V
  have keepR : ph r1 = .pr → ph' r1 = .pr := by
    intro h
    have hn : r1 ≠ ni := fun e => sl.st.hph.nepr (e ▸ h)
    rw [sl.st.keep (nmr h) hn]; exact h
  rcases sl.st.act' hact with ⟨e, _, _⟩ | ⟨e, _, _, hch⟩ | ⟨_, _, hax, _⟩
  · subst e; exact keepR (hl.lifoA r1 r2 x hrel hsx sl.st.hph)
  · have hne : x ≠ r2 := fun e' => hr2nl ni sl.st.hG (e' ▸ sl.st.hinl x e)
    exact keepR (hl.lifoA r1 r2 ni hrel (sub_parent V hr2G hsx hne sl.st.hG hch) sl.st.hph)
  · exact keepR (hl.lifoA r1 r2 x hrel hsx hax)

theorem stepL_lifoR (sl : StepL root tree G ph ph' ctx ctx' ni pn vni cs rs suf rsuf l M M')
    (ho : SInv root tree G m0 ph (ctx.stack.toList ++ [ni]) ctx.nodes M)
    (hl : LInv root tree G m0 ph ctx.nodes ctx.rootStack.toList M) :
    ∀ r1 r2 x, Rel tree G root r1 r2 → Sub tree r2 x → ph' x = .pr → ph' r1 = .pr ∧ Above ctx'.rootStack.toList x r1 := by
  intro r1 r2 x hrel hsx hxp
  have V := sl.st.V
  obtain ⟨hr1G, hr2G, hr2nl⟩ := hrel.facts V
  have keepR : ph r1 = .pr → ph' r1 = .pr := by
    intro h
    have hn : r1 ≠ ni := fun e => sl.st.hph.nepr (e ▸ h)
    rw [sl.st.keep (nmr h) hn]; exact h
  rcases sl.st.cases x with e | ⟨e, _⟩ | ⟨e, _⟩ | ⟨h1, h2⟩
  · subst e; rw [sl.st.hni'] at hxp; rcases sl.st.hv with h | h <;> rw [h] at hxp <;> cases hxp
  · rw [sl.st.hcs' x e] at hxp; cases hxp
  · -- x is pushed in this step
    have hxs : x ∈ rsuf := (sl.hrsuf x).2 ⟨e, hxp⟩
    have hv3 := sl.hrs3 (List.ne_nil_of_mem e)
    have fromPR : ph r1 = .pr → ph' r1 = .pr ∧ Above ctx'.rootStack.toList x r1 := fun h =>
      ⟨keepR h, by rw [sl.hR]; exact above_append_mem (hl.onRoot r1 h) hxs⟩
    have viaNi : Sub tree r2 ni → ph' r1 = .pr ∧ Above ctx'.rootStack.toList x r1 := fun h =>
      fromPR (hl.lifoA r1 r2 ni hrel h sl.st.hph)
    obtain ⟨ρ, s1, k1, s2, k2, hρ, hd1, hd2, hs1, hs2, hdisj⟩ := hrel
    have hs1G := idesc_G V hρ hd1
    have hk2G := idesc_G V (idesc_G V hρ hd2) hs2.idesc
    have hrel' : Rel tree G root r1 r2 := ⟨ρ, s1, k1, s2, k2, hρ, hd1, hd2, hs1, hs2, hdisj⟩
    -- the case of a scheduler that finished before the visited node
    have viaLast : s2 = ni → LastB tree G s1 ni → ph' r1 = .pr ∧ Above ctx'.rootStack.toList x r1 := by
      intro es hlb
      subst es
      have hs13 := last_done sl ho hl hv3 hs1G hlb
      obtain ⟨h0, hc⟩ := hl.pushed r1 s1 k1 hs1 hs13
      refine fromPR ?_
      cases hp : ph r1 with
      | p0 => exact absurd hp h0
      | pc o => exact absurd hp (hc o)
      | pr => rfl
      | p1 => exact absurd sl.st.hph (ho.owner ρ k1 r1 s2 hρ (hd1.trans hs1.idesc) hs1.ool (Or.inl hp) hd2)
      | p2 => exact absurd sl.st.hph (ho.owner ρ k1 r1 s2 hρ (hd1.trans hs1.idesc) hs1.ool (Or.inr (Or.inl hp)) hd2)
      | p3 => exact absurd sl.st.hph (ho.owner ρ k1 r1 s2 hρ (hd1.trans hs1.idesc) hs1.ool (Or.inr (Or.inr hp)) hd2)
    obtain ⟨bn, hn⟩ := sl.node hl
    rcases sl.hrsFrom x e with ⟨h0, hright⟩ | ⟨hpc, hdef, _, hnone⟩
    · -- x was unscheduled: the out-of-line child of the visited node, pushed directly
      rcases Classical.em (x = r2) with e2 | e2
      · subst e2
        have hk2 := parent_unique V hk2G sl.st.hG hs2.ool.isChild ⟨pn, sl.st.hpn, Or.inr hright⟩
        subst hk2
        have hdir := sl.hdirect x e h0 hxp bn hn
        -- the scheduler of x is the visited node itself
        have hs2k : s2 = k2 := by
          rcases hs2.cases with ⟨e', _⟩ | ha
          · exact e'
          · obtain ⟨kn, g1, _, g3, g4, _⟩ := ha
            rw [sl.st.hpn] at g1; cases g1
            rcases hdir with hd | ⟨_, hcn⟩
            · rw [jumpIf_not_direct g3] at hd; cases hd
            · have := hl.cpOk k2 bn hn
              rw [hcn] at this
              exact absurd this (fun hn' => CP.excl V g4 hn')
        subst hs2k
        rcases hdisj with hlb | ⟨es, hlb⟩
        · exact viaLast rfl hlb
        · subst es
          -- both are scheduled by the visited node: impossible
          exfalso
          rcases hs1.cases with ⟨e', _⟩ | ha
          · subst e'; exact lastB_irrefl V (hl.reach s1 sl.st.hph.ne0) hlb
          · obtain ⟨_, _, _, _, _, sn, g5, g6⟩ := ha
            rw [sl.st.hpn] at g5; cases g5
            rcases hdir with hd | ⟨hj, _⟩
            · exact direct_not_else hd g6
            · exact jumpIf_not_else hj g6
      · exact viaNi (sub_parent V hr2G hsx e2 sl.st.hG ⟨pn, sl.st.hpn, Or.inr hright⟩)
    · -- x was a recorded arm of the visited node, which is the head of an else-chain
      obtain ⟨k', kn, _, q1, q2, q3, q4, _, _, _⟩ := hl.recd x ni hpc
      have hk'G : G k' := def_G V q1 (by intro e'; rw [e'] at q2; simp [isJumpIf] at q2)
      rcases Classical.em (x = r2) with e2 | e2
      · subst e2
        have hk2 := parent_unique V hk2G hk'G hs2.ool.isChild ⟨kn, q1, Or.inr q3⟩
        subst hk2
        -- x is an arm of the visited node
        have ha2 : Arm tree G root x s2 k2 := by
          rcases hs2.cases with ⟨_, kn', g1, _, g3⟩ | ha
          · exfalso
            rw [q1] at g1; cases g1
            rcases g3 with hd | ⟨_, hncp⟩
            · rw [jumpIf_not_direct q2] at hd; cases hd
            · exact CP.excl V q4 hncp
          · exact ha
        have hs2ni := (recd_owner V hl ha2 hpc).1
        subst hs2ni
        rcases hdisj with hlb | ⟨es, hlb⟩
        · exact viaLast rfl hlb
        · subst es
          rcases hs1.cases with ⟨e', kn', g1, _, g3⟩ | ha1
          · exfalso
            subst e'
            rw [sl.st.hpn] at g1; cases g1
            rcases g3 with hd | ⟨hj, _⟩
            · exact direct_not_else hd hdef
            · exact jumpIf_not_else hj hdef
          · obtain ⟨hp1, hab⟩ := hl.armsOrd r1 x s1 k1 k2 bn ha1 ha2 hlb hpc hn
            have hsuf := sl.helse hv3 hdef bn hn (hnone bn hn)
            obtain ⟨_, _, bn1, hb1, hmem1⟩ := recd_owner V hl ha1 hp1
            rw [hn] at hb1; cases hb1
            refine ⟨((sl.hrsuf r1).1 (by rw [hsuf]; exact hmem1)).2, ?_⟩
            rw [sl.hR, hsuf]; exact above_append_right hab
      · have hk' := sub_parent V hr2G hsx e2 hk'G ⟨kn, q1, Or.inr q3⟩
        exact viaNi (sub_of_idesc V sl.st.hG hr2G hr2nl q4.idesc hk')
  · rw [sl.st.hother x h1 h2] at hxp
    obtain ⟨hp, hab⟩ := hl.lifoR r1 r2 x hrel hsx hxp
    exact ⟨keepR hp, by rw [sl.hR]; exact above_append_left hab⟩

theorem stepL_schedEx (sl : StepL root tree G ph ph' ctx ctx' ni pn vni cs rs suf rsuf l M M')
    (hl : LInv root tree G m0 ph ctx.nodes ctx.rootStack.toList M) :
    ∀ k r, G k → OolChild tree k r → (ph' r = .pr ∨ ph' r = .p1 ∨ ph' r = .p2 ∨ ph' r = .p3) →
      ∃ s, Sched tree G root r s k := by
  intro k r hk hool hr
  have V := sl.st.V
  rcases sl.st.cases r with e | ⟨e, _⟩ | ⟨e, _⟩ | ⟨h1, h2⟩
  · subst e
    refine hl.schedEx k r hk hool ?_
    rcases sl.st.hph with h | h
    · exact Or.inr (Or.inl h)
    · exact Or.inr (Or.inr (Or.inl h))
  · have := sl.st.parent_cs hk hool.isChild e
    subst this
    exact absurd (sl.st.hinl r e) (ool_not_ilink V hk hool)
  · have hpr : ph' r = .pr := by
      rcases sl.hrsph r e with h | ⟨o, h⟩
      · exact h
      · rw [h] at hr; rcases hr with h' | h' | h' | h' <;> cases h'
    rcases sl.hrsFrom r e with ⟨h0, hright⟩ | ⟨hpc, hdef, _, _⟩
    · have hkni := parent_unique V hk sl.st.hG hool.isChild ⟨pn, sl.st.hpn, Or.inr hright⟩
      subst hkni
      obtain ⟨bn, hn⟩ := sl.node hl
      refine ⟨k, pn, sl.st.hpn, hright, Or.inl ⟨rfl, ?_⟩⟩
      rcases sl.hdirect r e h0 hpr bn hn with hd | ⟨hj, hnone⟩
      · exact Or.inl hd
      · have := hl.cpOk k bn hn
        rw [hnone] at this
        exact Or.inr ⟨hj, this⟩
    · obtain ⟨k', kn, _, q1, q2, q3, q4, _⟩ := hl.recd r ni hpc
      have hk'G : G k' := def_G V q1 (by intro e'; rw [e'] at q2; simp [isJumpIf] at q2)
      have := parent_unique V hk hk'G hool.isChild ⟨kn, q1, Or.inr q3⟩
      subst this
      exact ⟨ni, kn, q1, q3, Or.inr ⟨q2, q4, pn, sl.st.hpn, hdef⟩⟩
  · rw [sl.st.hother r h1 h2] at hr
    exact hl.schedEx k r hk hool hr

theorem stepL_ignored (sl : StepL root tree G ph ph' ctx ctx' ni pn vni cs rs suf rsuf l M M')
    (hl : LInv root tree G m0 ph ctx.nodes ctx.rootStack.toList M) :
    ∀ y c, G y → IsChild tree y c → ¬ ILink tree y c → ¬ OolChild tree y c → ph' c = .p0 := by
  intro y c hy hc hnl hno
  have V := sl.st.V
  have hold := hl.ignored y c hy hc hnl hno
  rcases sl.st.cases c with e | ⟨e, _⟩ | ⟨e, hm⟩ | ⟨h1, h2⟩
  · subst e; exact absurd hold sl.st.hph.ne0
  · have := sl.st.parent_cs hy hc e
    subst this
    exact absurd (sl.st.hinl c e) hnl
  · rcases sl.hrsFrom c e with ⟨h0, _⟩ | ⟨hpc, _⟩
    · have hoo := sl.st.hool c e h0
      have := parent_unique V hy sl.st.hG hc hoo.isChild
      subst this
      exact absurd hoo hno
    · rw [hold] at hpc; cases hpc
  · rw [sl.st.hother c h1 h2]; exact hold

theorem stepL_linv (sl : StepL root tree G ph ph' ctx ctx' ni pn vni cs rs suf rsuf l M M')
    (ho : SInv root tree G m0 ph (ctx.stack.toList ++ [ni]) ctx.nodes M)
    (hl : LInv root tree G m0 ph ctx.nodes ctx.rootStack.toList M) :
    LInv root tree G m0 ph' ctx'.nodes ctx'.rootStack.toList M' := by
  refine ⟨stepL_reach sl hl, stepL_noNode sl hl, stepL_hasNode sl hl, stepL_cpOk sl hl, stepL_onRoot sl hl, stepL_sched sl hl,
    stepL_recd sl hl, stepL_pushed sl ho hl, stepL_armRec sl ho hl, stepL_armLate sl hl, stepL_lifoR sl ho hl,
    stepL_lifoA sl hl, stepL_armsOrd sl ho hl, stepL_schedEx sl hl, stepL_ignored sl hl, ?_, ?_⟩
  · intro x xn hx hd hattr
    rcases attr_append sl.st.hM hattr with h | h
    · exact hl.noGroup x xn hx hd h
    · rcases sl.st.hl _ h with h' | h'
      · cases h'
      · cases h'
        rw [sl.st.hpn] at hx; cases hx
        exact sl.hgroup hd h
  intro x z hp kx kz hkx hkz hmx hmz
  rcases get_append sl.st.hM hmx with ⟨hx1, hx2⟩ | ⟨hx1, hx2⟩
  · rcases get_append sl.st.hM hmz with ⟨hz1, hz2⟩ | ⟨hz1, _⟩
    · exact hl.ordL x z hp kx kz hkx hkz hx2 hz2
    · omega
  · rcases sl.st.hl _ hx2 with h | h
    · cases h
    · cases h
      obtain ⟨hna, hzn⟩ := lifo_key sl.st.V sl.st.hinv ho hl sl.st.hph hp
      rcases get_append sl.st.hM hmz with ⟨_, hz2⟩ | ⟨_, hz2⟩
      · exact absurd ⟨kz, hkz, hz2⟩ hna
      · rcases sl.st.hl _ hz2 with h | h
        · cases h
        · cases h; exact absurd rfl hzn

end step

end Garnish.Lemmas.BuildSeq
