/-
Separators, part 6: `prefix* { fill* E trivia* blank-line fill* }` — a nested expression whose content ends with a
blank-line separator: the separator node is inserted and then unlinked again by the EndGrouping arm
(`opd_bracket_trail`); the node stays in the array, unreachable from the root.
-/
import Garnish.Lemmas.ParserB23

namespace Garnish.Spec
open Garnish Garnish.Gen Garnish.Model.Parser

theorem closer_follows {o c : PToken} (hc : isCloseFor (getDefinition o.type).1 c) (r : List PToken) :
    closerFollows (c :: r) = true := by
  rcases hc with ⟨_, h⟩ | ⟨_, h⟩ <;> simp [closerFollows, h, isFiller, isSeparator, isCloser]

theorem opd_bracket_trail {k : Nat} {inner : List PToken} {ls : Bool} (pre : List PToken) (o c t : PToken)
    (wsA ws1 ws2 : List PToken) (hng : ((getDefinition o.type).1 == Definition.group) = false)
    (hin : ExprOK k false inner ls) (hpre : ∀ p ∈ pre, isPrefixTok p = true) (ho : isOpenTok o = true)
    (hc : isCloseFor (getDefinition o.type).1 c) (hwA : ∀ w ∈ wsA, isFillTok w = true)
    (hw1 : ∀ w ∈ ws1, isTriviaTok w = true) (ht : t.type = .subexpression) (hw2 : ∀ w ∈ ws2, isFillTok w = true)
    (hne : inner ≠ []) :
    OpdOK (k + 1) (pre ++ (o :: (wsA ++ (inner ++ (ws1 ++ (t :: (ws2 ++ [c]))))))) := by
  intro st1 ug hO hprios hcg pos hnum rest
  have htsep : isSepTok t = true := by unfold isSepTok; rw [ht]; rfl
  have htd : (getDefinition t.type).1 = .subexpression := by rw [ht]; rfl
  have hsz1 := pushP_size pre st1
  have hnumO := numbered_append pre _ pos hnum
  have hnumA := numbered_append wsA _ _ hnumO.2
  have hnumI := numbered_prefix inner _ _ hnumA
  obtain ⟨sO', hloopO, hOO', hfs, hpriosO, hcgO, hkO, hnO', hgsO', hspO⟩ :=
    bracket_open st1 ug pre o wsA (inner ++ (ws1 ++ (t :: (ws2 ++ [c])))) rest hO hprios hpre ho hwA (by simp [hne])
  rw [hng] at hkO
  have hgO : sO'.nodes[(pushP st1 pre).nodes.size]? = some ⟨(getDefinition o.type).1, .startGrouping,
      (pushP st1 pre).nextParent, none, some ((pushP st1 pre).nodes.size + 1), o⟩ := by rw [hnO']; simp
  -- the inner expression
  obtain ⟨stE, E, re, cbE, hloopE, hinvE, hgsE, hcgE, ho1E, ho2E, hrdE, hcntE, hrefE⟩ :=
    hin sO' _ _ _ hOO' hfs hpriosO hcgO hkO hspO _ hnumI ((ws1 ++ (t :: (ws2 ++ [c]))) ++ rest)
  have hkE : KindOK stE (some (pushP st1 pre).nodes.size) false :=
    hkO.transfer (base := (pushP st1 pre).nodes.size + 1) (fun g hg => by injection hg with hg; omega) ho2E
  obtain ⟨G', hG', hGr', hGd', hGp', hGl', hGt', hGs'⟩ := bracket_node hinvE hgO ho2E
  -- trivia, the blank line
  obtain ⟨stE1, hloopW1, hinvE1, hnE1, hgsE1, hcgE1⟩ := trivia_runU ws1 stE ((t :: (ws2 ++ [c])) ++ rest) hinvE hw1
  have hkE1 : KindOK stE1 (some (pushP st1 pre).nodes.size) false := hkE.congr (fun g _ => by rw [hnE1])
  obtain ⟨q, nodes', info, hq, h1, hsz', hir, hO1, hprios1, _, hdefs, _, _, hundo, _⟩ := sep_stepU hinvE1 hkE1 t htsep
  obtain ⟨hS1, hs1, hk1, htop1, hfp1⟩ := sep_open hinvE1 hkE1 t htsep nodes' info hsz' hdefs
  obtain ⟨hpar, hundo⟩ := hundo htd
  have hparS := hpar _ rfl
  obtain ⟨P, hP⟩ : ∃ P, info.parent = some P := by
    cases hp : info.parent with
    | none => rw [hp] at hparS; cases hparS
    | some P => exact ⟨P, rfl⟩
  obtain ⟨l, hl, hln, hPn, hlP, hun⟩ := hundo P hP
  -- dropped separators / trivia, then the closing bracket
  obtain ⟨s1', hloopW2, hO1', hn1', _, hll1', hgs1', hcg1', hfp1'⟩ :=
    skip_runB (some (pushP st1 pre).nodes.size) false ws2 (sepState stE1 t nodes' info) ([c] ++ rest) hO1 hk1 (by omega)
      htop1 hfp1 hw2
  have hsE : (pushP st1 pre).nodes.size + 1 < stE.nodes.size := hinvE.n.pos
  have hnE1s : stE1.nodes.size = stE.nodes.size := by rw [hnE1]
  have hG1 : ∃ G1, s1'.nodes[(pushP st1 pre).nodes.size]? = some G1 ∧ G1.definition = (getDefinition o.type).1 := by
    have hd := hdefs (pushP st1 pre).nodes.size (by omega)
    rw [hnE1, hG'] at hd
    rw [hn1']
    simp only [sepState]
    rw [Array.getElem?_push, if_neg (by omega)]
    cases hn : nodes'[(pushP st1 pre).nodes.size]? with
    | none => rw [hn] at hd; cases hd
    | some G1 =>
      rw [hn] at hd
      simp only [Option.map_some, Option.some.injEq] at hd
      exact ⟨G1, rfl, by rw [hd, hGd']⟩
  obtain ⟨G1, hG1, hG1d⟩ := hG1
  have hsd : (getDefinition c.type).2 = .endGrouping := isCloseFor_secdef hc
  have hback : s1'.groupStack.back? = some ((pushP st1 pre).nodes.size, false) := by
    rw [hgs1']
    show stE1.groupStack.back? = _
    rw [hgsE1, hgsE, hgsO']
    simp
  obtain ⟨nodes2, hclose, hs2, hg2⟩ := step_close_unlink s1' (pushP st1 pre).nodes.size stE1.nodes.size l P
    ⟨(getDefinition t.type).1, .subexpression, info.parent, info.left, info.right, t⟩ G1 false c rest.isEmpty
    hO1'.hug hO1'.adj hO1'.nnl (hfp1'.comp_close _ (Or.inl hsd) _) hback hG1 (by rw [hG1d]; exact isCloseFor_closes hc)
    (by rw [hn1']; exact hs1) (by rw [hll1']; rfl) (by rw [hn1']; exact hS1) htd hir hP hl hln hPn (by omega)
  -- the array after the unlinking
  have hn2 : ∀ j, j < stE.nodes.size → nodes2[j]? = stE.nodes[j]? := by
    intro j hj
    have hjn : j < stE1.nodes.size := by omega
    have hs1j : s1'.nodes[j]? = nodes'[j]? := by
      rw [hn1']; simp only [sepState]; rw [Array.getElem?_push, if_neg (by omega)]
    have hPs : s1'.nodes[P]? = nodes'[P]? := by
      rw [hn1']; simp only [sepState]; rw [Array.getElem?_push, if_neg (by omega)]
    rw [hg2 j, ← hnE1, ← hun j]
    by_cases hjP : j = P
    · subst hjP
      rw [if_pos rfl, if_pos rfl, if_neg (fun e => hlP e.symm), hPs]
    · rw [if_neg hjP, if_neg hjP, hs1j]
  have hagree : ∀ j, j < (pushP st1 pre).nodes.size → stE.nodes[j]? = (pushP st1 pre).nodes[j]? := by
    intro j hj
    rw [ho1E j (by omega), hnO', Array.getElem?_push, if_neg (by omega)]
  have hpop : s1'.groupStack.pop = st1.groupStack := by
    rw [hgs1']
    show stE1.groupStack.pop = _
    rw [hgsE1, hgsE, hgsO']; simp
  have hprios2 : AllPrio nodes2 := by
    intro i nd hi
    by_cases c1 : i < stE.nodes.size
    · rw [hn2 i c1] at hi; exact hinvE.n.prios i nd hi
    · by_cases c2 : i = stE1.nodes.size
      · subst c2
        rw [hg2, if_neg (by omega), if_neg (by omega), hn1', hS1] at hi
        injection hi with hi; subst hi; exact ⟨q, hq⟩
      · have : nodes2[i]? = none := by apply Array.getElem?_eq_none; omega
        rw [this] at hi; cases hi
  obtain ⟨hres, hPl⟩ := bracket_result st1 ug pre o hO hpre ho stE.nodes E re hinvE.n hagree G' hG' hGr' hGd' hGp' hGl' hGt'
    hGs' (stepCU s1' (pushP st1 pre).nodes.size false c nodes2) hn2 (by show _ ≤ nodes2.size; omega) hprios2 hO1'.nnl hpop
    (by show (if s1'.groupStack.pop.isEmpty then none else some (s1'.groupStack.pop.size - 1)) = _
        rw [hpop]; exact hcg.symm)
    rfl hsd pos _ hnum
  have hcnt : (chainR st1.nodes.size (pre.map (·.col)) (.node .nil (pushP st1 pre).nodes.size o.col E)).inorder.length +
      st1.nodes.size + (k + 1) = (stepCU s1' (pushP st1 pre).nodes.size false c nodes2).nodes.size := by
    show _ = nodes2.size
    rw [hs2, hnE1s, chainR_inorder, List.length_map]
    simp only [Tree.inorder, List.nil_append, List.length_append, List.length_range', List.length_cons]
    omega
  refine ⟨stepCU s1' (pushP st1 pre).nodes.size false c nodes2, _, _, _, ?_, hres, hPl, hcnt, ?_⟩
  · have e3 : inner ++ (ws1 ++ (t :: (ws2 ++ [c]))) ++ rest = inner ++ ((ws1 ++ (t :: (ws2 ++ [c]))) ++ rest) := by simp
    have e4 : (ws1 ++ (t :: (ws2 ++ [c]))) ++ rest = ws1 ++ ((t :: (ws2 ++ [c])) ++ rest) := by simp
    rw [hloopO, e3, hloopE, e4, hloopW1]
    simp only [List.cons_append, loop]
    have he' : (ws2 ++ [c] ++ rest).isEmpty = false := by cases ws2 <;> simp
    rw [he', h1]
    simp only [Outcome.bind]
    rw [List.append_assoc, hloopW2]
    simp only [List.cons_append, List.nil_append, loop, hclose, Outcome.bind]
  · intro f stack restR hf
    have e1 : pre ++ (o :: (wsA ++ (inner ++ (ws1 ++ (t :: (ws2 ++ [c])))))) ++ restR =
        pre ++ (o :: (wsA ++ (inner ++ (ws1 ++ (t :: (ws2 ++ ([c] ++ restR))))))) := by simp
    obtain ⟨lst, b2, bA, hlst, h⟩ := ref_bracket_open pre o wsA (inner ++ (ws1 ++ (t :: (ws2 ++ ([c] ++ restR))))) pos hpre
      ho hwA f stack hf
    rw [e1, h, hrefE _ _ (ws1 ++ (t :: (ws2 ++ ([c] ++ restR)))) rfl rfl (by rw [inGroup_ctx]; exact hng)]
    let fE : Frame :=
      { ctx := some ((getDefinition o.type).1, pos + pre.length), cur := toRG (dfOf stE.nodes) E,
        last := (if ls then Last.suffix else Last.operand), ws := false, prevSep := false }
    obtain ⟨b1, hb1⟩ := ref_skipK ws1 fE
      ({ f with cur := plugLeaves f.cur (leavesP pre pos), last := lst, ws := false, prevSep := b2 } :: stack)
      (pos + pre.length + 1 + wsA.length + inner.length) (t :: (ws2 ++ ([c] ++ restR))) hw1
    rw [hb1]
    conv => lhs; unfold refLoop
    let fE1 : Frame := { fE with ws := b1 }
    have hig1 : fE1.inGroup = false := by show Frame.inGroup _ = false; rw [inGroup_ctx]; exact hng
    have hcf : closerFollows (ws2 ++ ([c] ++ restR)) = true := by
      rw [closerFollows_skip ws2 _ hw2]; exact closer_follows hc restR
    rw [ref_sep_trailK fE1 _ _ t _ ht hig1 hcf]
    simp only [Outcome.bind]
    let fT : Frame := { fE1 with prevSep := true }
    obtain ⟨bT, hbT⟩ := ref_skip_fillK ws2 fT
      ({ f with cur := plugLeaves f.cur (leavesP pre pos), last := lst, ws := false, prevSep := b2 } :: stack)
      (pos + pre.length + 1 + wsA.length + inner.length + ws1.length + 1) ([c] ++ restR) hw2 (Or.inr rfl)
    rw [hbT]
    conv => lhs; unfold refLoop
    simp only [List.cons_append, List.nil_append]
    rw [ref_close_stepK _ _ stack _ c restR (getDefinition o.type).1 (pos + pre.length) rfl hc
      (by cases ls <;> simp [fT, fE1, fE])]
    simp only [Outcome.bind]
    have hlen : pos + pre.length + 1 + wsA.length + inner.length + ws1.length + 1 + ws2.length + 1 =
        pos + (pre ++ (o :: (wsA ++ (inner ++ (ws1 ++ (t :: (ws2 ++ [c]))))))).length := by
      simp only [List.length_append, List.length_cons, List.length_nil]; omega
    rw [hlen]

end Garnish.Spec
