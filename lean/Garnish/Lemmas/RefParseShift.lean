/-
The reference parser only uses its position counter to label the nodes it creates: starting the count at `k` instead of
`0` shifts all positions in the result by `k` (`refLoop_top_shift`).  Used to state the block-body theorems of C02 against
`refParse` of the body.
-/
import Garnish.Spec.RefParse

namespace Garnish.Spec
open Garnish Garnish.Gen Garnish.Model.Parser

/-- add `k` to every token position -/
def RTree.shift (k : Nat) : RTree → RTree
  | .nil => .nil
  | .node l d p r => .node (l.shift k) d (p + k) (r.shift k)
  | .group d p inner => .group d (p + k) (inner.shift k)

def Frame.shift (k : Nat) (f : Frame) : Frame :=
  { f with ctx := f.ctx.map (fun dp => (dp.1, dp.2 + k)), cur := f.cur.shift k }

def _root_.Garnish.Outcome.mapT {α β : Type} (g : α → β) : Outcome α → Outcome β
  | .ok a => .ok (g a)
  | .err e => .err e
  | .panic s => .panic s
  | .fuelOut => .fuelOut

theorem shift_isNil (k : Nat) (t : RTree) : (t.shift k).isNil = t.isNil := by cases t <;> rfl

theorem asProperty_shift (k : Nat) (t : RTree) : asProperty (t.shift k) = (asProperty t).shift k := by
  unfold asProperty
  split
  · rename_i kk heq
    cases t with
    | nil => simp [RTree.shift] at heq
    | group _ _ _ => simp [RTree.shift] at heq
    | node l d p r =>
      simp only [RTree.shift, RTree.node.injEq] at heq
      obtain ⟨h1, h2, h3, h4⟩ := heq
      cases l <;> cases r <;> simp_all [RTree.shift]
  · rename_i hne
    split
    · rename_i kk
      exfalso
      exact hne (kk + k) rfl
    · rfl

theorem plug_shift (k : Nat) : ∀ (R x : RTree), plug (R.shift k) (x.shift k) = (plug R x).shift k
  | .nil, x => rfl
  | .group _ _ _, _ => rfl
  | .node l d p r, x => by
    simp only [RTree.shift, plug, shift_isNil]
    split
    · split
      · simp only [RTree.shift, asProperty_shift]
      · rfl
    · simp only [RTree.shift, plug_shift k r x]

theorem absorb_shift (tbl : Table) (q : Nat) (rtl : Bool) (d : Definition) (p k : Nat) :
    ∀ t : RTree, absorb tbl q rtl d (p + k) (t.shift k) = (absorb tbl q rtl d p t).map (RTree.shift k)
  | .nil => rfl
  | .group _ _ _ => rfl
  | .node l a ka r => by
    simp only [RTree.shift, absorb, absorb_shift tbl q rtl d p k r]
    cases absorb tbl q rtl d p r with
    | some r' => rfl
    | none =>
      simp only [Option.map_none]
      cases tbl.prio a with
      | none => rfl
      | some pa => simp only; split <;> rfl

theorem attach_shift (tbl : Table) (q : Nat) (rtl : Bool) (d : Definition) (p k : Nat) (t : RTree) :
    attach tbl q rtl d (p + k) (t.shift k) = (attach tbl q rtl d p t).shift k := by
  unfold attach
  rw [absorb_shift]
  cases absorb tbl q rtl d p t <;> rfl

theorem frame_shift_fields (k : Nat) (f : Frame) :
    (f.shift k).last = f.last ∧ (f.shift k).ws = f.ws ∧ (f.shift k).prevSep = f.prevSep ∧
      (f.shift k).inGroup = f.inGroup ∧ (f.shift k).cur = f.cur.shift k := by
  refine ⟨rfl, rfl, rfl, ?_, rfl⟩
  unfold Frame.inGroup Frame.shift
  cases f.ctx with
  | none => rfl
  | some dp => obtain ⟨d, p⟩ := dp; cases d <;> rfl

theorem beforeOperand_shift (tbl : Table) (k : Nat) (f : Frame) (pos : Nat) (hpos : f.last = .operand → 0 < pos) :
    beforeOperand tbl (f.shift k) (pos + k) = (beforeOperand tbl f pos).mapT (Frame.shift k) := by
  unfold beforeOperand
  have hl : (f.shift k).last = f.last := rfl
  have hw : (f.shift k).ws = f.ws := rfl
  rw [hl, hw]
  cases hlast : f.last <;> simp only [Outcome.mapT]
  cases f.ws with
  | false => rfl
  | true =>
    simp only [if_true]
    cases tbl.prio .list with
    | none => rfl
    | some q =>
      simp only [Outcome.mapT]
      have h0 := hpos hlast
      have e : pos + k - 1 = (pos - 1) + k := by omega
      have hc : (f.shift k).cur = f.cur.shift k := rfl
      rw [e, hc, attach_shift]
      rfl

/-- one step commutes with the shift -/
theorem refStep_shift (tbl : Table) (k : Nat) (f : Frame) (stack : List Frame) (pos : Nat) (t : PToken)
    (rest : List PToken) (hpos : f.last = .operand → 0 < pos) :
    refStep tbl (f.shift k) (stack.map (Frame.shift k)) (pos + k) t rest =
      (refStep tbl f stack pos t rest).mapT (fun fs => (fs.1.shift k, fs.2.map (Frame.shift k))) := by
  obtain ⟨hl, hw, hps, hig, hc⟩ := frame_shift_fields k f
  unfold refStep
  generalize tbl.define t.type = ds
  obtain ⟨d, s⟩ := ds
  cases s with
  | none => rfl
  | annotation => rfl
  | whitespace => rfl
  | startSideEffect => rfl
  | endSideEffect => rfl
  | value =>
    simp only
    split
    · rfl
    · rw [beforeOperand_shift tbl k f pos hpos]
      cases hb : beforeOperand tbl f pos <;> simp only [Outcome.bind, Outcome.mapT]
      rename_i f'
      have hc' : (f'.shift k).cur = f'.cur.shift k := rfl
      have : plug (f'.shift k).cur (RTree.node .nil d (pos + k) .nil) = (plug f'.cur (RTree.node .nil d pos .nil)).shift k := by
        rw [hc', ← plug_shift]; rfl
      simp only [this]
      rfl
  | identifier =>
    simp only
    split
    · rfl
    · rw [beforeOperand_shift tbl k f pos hpos]
      cases hb : beforeOperand tbl f pos <;> simp only [Outcome.bind, Outcome.mapT]
      rename_i f'
      have hc' : (f'.shift k).cur = f'.cur.shift k := rfl
      have : plug (f'.shift k).cur (RTree.node .nil d (pos + k) .nil) = (plug f'.cur (RTree.node .nil d pos .nil)).shift k := by
        rw [hc', ← plug_shift]; rfl
      simp only [this]
      rfl
  | binaryRightToLeft =>
    simp only
    cases tbl.prio d with
    | none => rfl
    | some q =>
      simp only [hl]
      split
      · rfl
      · simp only [Outcome.mapT, hc, attach_shift]; rfl
  | binaryLeftToRight =>
    simp only
    cases tbl.prio d with
    | none => rfl
    | some q =>
      simp only [hl]
      split
      · rfl
      · simp only [Outcome.mapT, hc, attach_shift]; rfl
  | optionalBinaryLeftToRight =>
    simp only
    cases tbl.prio d with
    | none => rfl
    | some q =>
      simp only [hl]
      split
      · rfl
      · simp only [Outcome.mapT, hc, attach_shift]; rfl
  | unarySuffix =>
    simp only
    cases tbl.prio d with
    | none => rfl
    | some q =>
      simp only [hl]
      split
      · rfl
      · simp only [Outcome.mapT, hc, attach_shift]; rfl
  | unaryPrefix =>
    simp only
    rw [beforeOperand_shift tbl k f pos hpos]
    cases hb : beforeOperand tbl f pos <;> simp only [Outcome.bind, Outcome.mapT]
    rename_i f'
    have hc' : (f'.shift k).cur = f'.cur.shift k := rfl
    have : plug (f'.shift k).cur (RTree.node .nil d (pos + k) .nil) = (plug f'.cur (RTree.node .nil d pos .nil)).shift k := by
      rw [hc', ← plug_shift]; rfl
    simp only [this]
    rfl
  | startGrouping =>
    simp only
    rw [beforeOperand_shift tbl k f pos hpos]
    cases hb : beforeOperand tbl f pos <;> simp only [Outcome.bind, Outcome.mapT]
    rfl
  | endGrouping =>
    simp only
    cases hctx : f.ctx with
    | none =>
      have : (f.shift k).ctx = none := by simp [Frame.shift, hctx]
      simp only [this]
      rfl
    | some gp =>
      obtain ⟨gd, gpos⟩ := gp
      have : (f.shift k).ctx = some (gd, gpos + k) := by simp [Frame.shift, hctx]
      simp only [this]
      cases stack with
      | nil => rfl
      | cons parent stack' =>
        simp only [List.map_cons, hl]
        split
        · rfl
        · split
          · rfl
          · simp only [Outcome.mapT]
            have hpc : (parent.shift k).cur = parent.cur.shift k := rfl
            have : plug (parent.shift k).cur (RTree.group gd (gpos + k) (f.shift k).cur) =
                (plug parent.cur (RTree.group gd gpos f.cur)).shift k := by
              rw [hpc, hc, ← plug_shift]; rfl
            simp only [this]
            rfl
  | subexpression =>
    simp only [hig, hps, hl]
    split
    · rfl
    · split
      · rfl
      · split
        · rfl
        · cases tbl.prio d with
          | none => rfl
          | some q => simp only [Outcome.mapT, hc, attach_shift]; rfl

theorem refStep_last_pos (tbl : Table) (f f' : Frame) (stack stack' : List Frame) (pos : Nat) (t : PToken)
    (rest : List PToken) (_ : refStep tbl f stack pos t rest = .ok (f', stack')) : f'.last = .operand → 0 < pos + 1 :=
  fun _ => Nat.succ_pos _

/-- the loop commutes with the shift -/
theorem refLoop_shift (tbl : Table) (k : Nat) : ∀ (toks : List PToken) (f : Frame) (stack : List Frame) (pos : Nat),
    (f.last = .operand → 0 < pos) →
    refLoop tbl (f.shift k) (stack.map (Frame.shift k)) (pos + k) toks =
      (refLoop tbl f stack pos toks).mapT (RTree.shift k)
  | [], f, stack, pos, _ => by
    unfold refLoop
    have hl : (f.shift k).last = f.last := rfl
    rw [hl]
    cases stack with
    | nil =>
      simp only [List.map_nil, List.isEmpty_nil, Bool.not_true, Bool.false_eq_true, if_false]
      split <;> rfl
    | cons s ss => rfl
  | t :: rest, f, stack, pos, hpos => by
    unfold refLoop
    rw [refStep_shift tbl k f stack pos t rest hpos]
    cases hs : refStep tbl f stack pos t rest with
    | ok fs =>
      obtain ⟨f', stack'⟩ := fs
      simp only [Outcome.mapT, Outcome.bind]
      have e : pos + k + 1 = (pos + 1) + k := by omega
      rw [e]
      exact refLoop_shift tbl k rest f' stack' (pos + 1) (fun _ => Nat.succ_pos _)
    | err e => rfl
    | panic s => rfl
    | fuelOut => rfl

/-- **counting positions from `k`** shifts the reference tree by `k` -/
theorem refLoop_top_shift (tbl : Table) (k : Nat) (toks : List PToken) :
    refLoop tbl Frame.top [] k toks = (refLoop tbl Frame.top [] 0 toks).mapT (RTree.shift k) := by
  have := refLoop_shift tbl k toks Frame.top [] 0 (fun h => by cases h)
  simpa [Frame.shift, Frame.top, RTree.shift] using this

end Garnish.Spec
