/-
`WFq`: the well-formedness of stores on which programs have run.  `get_current_value_mut` (runtime `update_value`,
`end_expression`, reapply) overwrites the `value` link of the top input-value cell with the address of data created
later, so an input-value cell may link upwards; everything else is as in `WF` (Lemmas/OptimizeWF.lean).  In addition
the input-value stack is a chain: `previous` of a `Value` cell is a lower input-value cell, and the head of the stack
is an input-value cell (what the re-pointing loop of `optimize` walks).
This file: the predicate, its decision procedure, appending cells, and `Heap.WF` of every representing heap.
-/
import Garnish.Lemmas.OptimizeWFv
import Garnish.Lemmas.OptimizeOps
import Garnish.Lemmas.AccessReach2
namespace Garnish.BasicOpt
open Garnish Garnish.Access

/-- input-value cells: `previous` is a lower input-value cell, `value` is readable (anywhere); every other node links
downwards to readable addresses -/
def nodeOKq (cells : Array Cell) (i : Nat) : Bool :=
  match cells[i]? with
  | some (.value p v) => decide (p < i) && svAt cells p && isNode cells v
  | some (.valueRoot v) => isNode cells v
  | _ => nodeOK cells i

def wfq (s : Store) : Bool :=
  decide (s.retention ≤ s.cells.size) &&
  (List.range s.cells.size).all (fun i => nodeOKq s.cells i && listOK s.cells i && headerOK s.cells i) &&
  (List.range s.retention).all (extentOK s.cells s.retention) &&
  headOK s.cells s.currentRegister && headSV s.cells s.currentValue && headOK s.cells s.currentFrame &&
  s.symtab.toList.all (symOK s.cells)

structure WFq (s : Store) : Prop where
  retLe : s.retention ≤ s.cells.size
  nodes : ∀ i, i < s.cells.size → nodeOKq s.cells i = true
  lists : ∀ i, i < s.cells.size → listOK s.cells i = true
  headers : ∀ i, i < s.cells.size → headerOK s.cells i = true
  extent : ∀ i, i < s.retention → extentOK s.cells s.retention i = true
  reg : headOK s.cells s.currentRegister = true
  val : headSV s.cells s.currentValue = true
  frm : headOK s.cells s.currentFrame = true
  syms : ∀ c ∈ s.symtab.toList, symOK s.cells c = true

theorem wfq_iff (s : Store) : wfq s = true ↔ WFq s := by
  unfold wfq
  simp only [Bool.and_eq_true, decide_eq_true_eq, List.all_eq_true, List.mem_range]
  constructor
  · rintro ⟨⟨⟨⟨⟨⟨h1, h2⟩, h3⟩, h4⟩, h5⟩, h6⟩, h7⟩
    exact ⟨h1, fun i hi => (h2 i hi).1.1, fun i hi => (h2 i hi).1.2, fun i hi => (h2 i hi).2, h3, h4, h5, h6, h7⟩
  · intro h
    exact ⟨⟨⟨⟨⟨⟨h.retLe, fun i hi => ⟨⟨h.nodes i hi, h.lists i hi⟩, h.headers i hi⟩⟩, h.extent⟩, h.reg⟩, h.val⟩,
      h.frm⟩, h.syms⟩

instance (s : Store) : Decidable (WFq s) := decidable_of_iff _ (wfq_iff s)

theorem WFq_fresh : WFq Store.fresh := by decide

/-- on a cell that is not an input-value cell `nodeOKq` is `nodeOK` -/
theorem nodeOKq_of_cell {cells : Array Cell} {i : Nat} {c : Cell} (hc : cells[i]? = some c) (hns : isSV c = false) :
    nodeOKq cells i = nodeOK cells i := by
  unfold nodeOKq
  rw [hc]
  cases c <;> simp [isSV] at hns <;> rfl

theorem nodeOKq_of_none {cells : Array Cell} {i : Nat} (hsh : shape cells i = none) : nodeOKq cells i = true := by
  unfold nodeOKq
  cases hc : cells[i]? with
  | none => simp [nodeOK, hsh]
  | some c =>
    cases c <;> try (simp [nodeOK, hsh]; done)
    · rw [shape_of_solo hc (sh := ⟨.value 0 0, [], [_, _]⟩) rfl] at hsh; cases hsh
    · rw [shape_of_solo hc (sh := ⟨.valueRoot 0, [], [_]⟩) rfl] at hsh; cases hsh

theorem headSV_node {cells : Array Cell} {o : Option Nat} (h : headSV cells o = true) : headOK cells o = true := by
  cases o with
  | none => rfl
  | some a => exact sv_isNode h

/-- the links of every node lead to nodes -/
theorem WFq.kid_node {s : Store} (hwf : WFq s) {i : Nat} {sh : Shape} (hsh : shape s.cells i = some sh) {k : Nat}
    (hk : k ∈ sh.kids) : isNode s.cells k = true := by
  have hok := hwf.nodes i (shape_lt hsh)
  obtain ⟨c, hc⟩ := shape_cell hsh
  by_cases hsv : isSV c = true
  · cases c <;> simp [isSV] at hsv
    · rename_i p v
      rw [shape_of_solo hc (sh := ⟨.value 0 0, [], [p, v]⟩) rfl] at hsh
      simp only [Option.some.injEq] at hsh
      subst hsh
      simp only [nodeOKq, hc, Bool.and_eq_true, decide_eq_true_eq] at hok
      simp at hk
      rcases hk with rfl | rfl
      · exact sv_isNode hok.1.2
      · exact hok.2
    · rename_i v
      rw [shape_of_solo hc (sh := ⟨.valueRoot 0, [], [v]⟩) rfl] at hsh
      simp only [Option.some.injEq] at hsh
      subst hsh
      simp only [nodeOKq, hc] at hok
      simp at hk
      subst hk; exact hok
  · rw [nodeOKq_of_cell hc (by simpa using hsv)] at hok
    simp only [nodeOK, hsh, List.all_eq_true, Bool.and_eq_true, decide_eq_true_eq] at hok
    exact (hok k hk).2

theorem WFq.kidsNodes {s : Store} (hwf : WFq s) : KidsNodes s.cells := by
  intro i sh hsh k hk
  have := hwf.kid_node hsh hk
  simpa [isNode, Option.isSome_iff_exists] using this

/-- the links of a node that is not an input-value cell lead downwards -/
theorem WFq.kid_lt {s : Store} (hwf : WFq s) {i : Nat} {sh : Shape} (hsh : shape s.cells i = some sh)
    (hns : svAt s.cells i = false) {k : Nat} (hk : k ∈ sh.kids) : k < i := by
  have hok := hwf.nodes i (shape_lt hsh)
  obtain ⟨c, hc⟩ := shape_cell hsh
  rw [nodeOKq_of_cell hc (by simpa [svAt, hc] using hns)] at hok
  simp only [nodeOK, hsh, List.all_eq_true, Bool.and_eq_true, decide_eq_true_eq] at hok
  exact (hok k hk).1

theorem WFq.chain {s : Store} (hwf : WFq s) : ChainWF s.cells := by
  intro i p v hc
  have hi : i < s.cells.size := by
    rcases Nat.lt_or_ge i s.cells.size with h | h
    · exact h
    · rw [Array.getElem?_eq_none h] at hc; cases hc
  have hok := hwf.nodes i hi
  simp only [nodeOKq, hc, Bool.and_eq_true, decide_eq_true_eq] at hok
  exact hok.1

theorem WFq.listsWF {s : Store} (h : WFq s) : ListsWF s.cells := by
  intro i n k hc
  have hi : i < s.cells.size := by
    rcases Nat.lt_or_ge i s.cells.size with h | h
    · exact h
    · rw [Array.getElem?_eq_none h] at hc; cases hc
  have := h.lists i hi
  simpa [listOK, hc] using this

theorem svAt_append (A B : Array Cell) {i : Nat} (hi : i < A.size) : svAt (A ++ B) i = svAt A i := by
  simp only [svAt, getElem?_append_old A B hi]

theorem nodeOKq_append (A B : Array Cell) (hh : ∀ i, i < A.size → headerOK A i = true) {i : Nat} (hi : i < A.size)
    (hok : nodeOKq A i = true) : nodeOKq (A ++ B) i = true := by
  unfold nodeOKq at hok ⊢
  rw [getElem?_append_old A B hi]
  split at hok
  · rename_i p v _
    simp only [Bool.and_eq_true, decide_eq_true_eq] at hok ⊢
    obtain ⟨⟨h1, h2⟩, h3⟩ := hok
    exact ⟨⟨h1, by rw [svAt_append A B (by omega)]; exact h2⟩,
      by rw [isNode_append A B hh (node_lt h3)]; exact h3⟩
  · rw [isNode_append A B hh (node_lt hok)]; exact hok
  · rw [nodeOK_append A B hh hi]; exact hok

/-- **appending a block of cells keeps `WFq`** when the new cells are themselves well formed -/
theorem append_wfq {s s' : Store} (B : Array Cell) (hwf : WFq s) (hcells : s'.cells = s.cells ++ B)
    (hret : s'.retention = s.retention) (hsym : s'.symtab = s.symtab)
    (hnew : ∀ i, s.cells.size ≤ i → i < s'.cells.size →
      nodeOKq s'.cells i = true ∧ listOK s'.cells i = true ∧ headerOK s'.cells i = true)
    (hreg : headOK s'.cells s'.currentRegister = true) (hval : headSV s'.cells s'.currentValue = true)
    (hfrm : headOK s'.cells s'.currentFrame = true) : WFq s' := by
  have hh := hwf.headers
  refine ⟨?_, ?_, ?_, ?_, ?_, hreg, hval, hfrm, ?_⟩
  · rw [hret, hcells]; simp; have := hwf.retLe; omega
  · intro i hi
    by_cases hold : i < s.cells.size
    · rw [hcells]; exact nodeOKq_append _ _ hh hold (hwf.nodes i hold)
    · exact (hnew i (by omega) hi).1
  · intro i hi
    by_cases hold : i < s.cells.size
    · have := hwf.lists i hold
      simp only [listOK, hcells, getElem?_append_old _ B hold] at this ⊢
      exact this
    · exact (hnew i (by omega) hi).2.1
  · intro i hi
    by_cases hold : i < s.cells.size
    · have := hwf.headers i hold
      simp only [headerOK, hcells, getElem?_append_old _ B hold, isNode_append _ _ hh hold] at this ⊢
      exact this
    · exact (hnew i (by omega) hi).2.2
  · intro i hi
    rw [hret] at hi ⊢
    have hlt : i < s.cells.size := by have := hwf.retLe; omega
    have := hwf.extent i hi
    simp only [extentOK, decide_eq_true_eq] at this ⊢
    rw [hcells, extract_append_prefix _ _ hwf.retLe, shape_append_eq _ _ hh hlt]
    exact this
  · intro c hc
    rw [hsym] at hc
    have := hwf.syms c hc
    cases c <;> simp only [symOK] at this ⊢ <;> try (simp at this; done)
    rename_i sy d
    rw [hcells, isNode_append _ _ hh (node_lt this)]; exact this

theorem headOK_appendq {s : Store} (hwf : WFq s) (B : Array Cell) {o : Option Nat} (h : headOK s.cells o = true) :
    headOK (s.cells ++ B) o = true := by
  cases o with
  | none => rfl
  | some a =>
    simp only [headOK] at h ⊢
    rw [isNode_append _ _ hwf.headers (node_lt h)]; exact h

theorem headSV_append {s : Store} (B : Array Cell) {o : Option Nat} (h : headSV s.cells o = true) :
    headSV (s.cells ++ B) o = true := by
  cases o with
  | none => rfl
  | some a =>
    simp only [headSV] at h ⊢
    rw [svAt_append _ _ (svAt_lt h)]; exact h

/-- changing the heads keeps `WFq` -/
theorem WFq.withHeads {s : Store} (hwf : WFq s) (r v f : Option Nat) (hr : headOK s.cells r = true)
    (hv : headSV s.cells v = true) (hf : headOK s.cells f = true) :
    WFq { s with currentRegister := r, currentValue := v, currentFrame := f } :=
  ⟨hwf.retLe, hwf.nodes, hwf.lists, hwf.headers, hwf.extent, hr, hv, hf, hwf.syms⟩

/-- **every heap that represents a `WFq` store satisfies the well-formedness of the accessor model** -/
theorem wfq_implies_accessWF {s : Store} {h : Heap} (hwf : WFq s) (hr : Represents s h) : h.WF := by
  refine accessWF_of_headers hwf.headers ?_ hr
  intro i l r hc
  have hi : i < s.cells.size := cell_lt hc
  have hsh : shape s.cells i = some ⟨.concatenation 0 0, [], [l, r]⟩ := shape_of_solo hc rfl
  have hn := hwf.nodes i hi
  rw [nodeOKq_of_cell hc rfl] at hn
  simp only [nodeOK, hsh, List.all_eq_true, Bool.and_eq_true, decide_eq_true_eq] at hn
  exact ⟨(hn l (by simp)).1, (hn r (by simp)).1⟩

end Garnish.BasicOpt
