/-
The tie between the two builder models (7): unary operators.
-/
import Garnish.Lemmas.CompileTree6
namespace Garnish.Abs.Tree
open Garnish Garnish.Gen Garnish.Spec Garnish.Abs Garnish.Model.Parser Garnish.Model.Literals Garnish.Model.Build

variable {F : Type} {pf : List Char → Option F} {tree : Array ParseNode} {bodies : List (Nat × Expr F)}

/-- the child `c` scheduled with `BuildNode.new` is ready to be popped -/
theorem Pre.child {nodes : Nodes} {lo hi c cur : Nat} (cp : Option Nat) (p : BuildNode) (hsz : nodes.size = tree.size)
    (hc : nodes[c]? = some (some (mkNode c cur none (Ex.ofCond cp)))) (hcond : (∃ x, cp = some x) → NotCond tree c) :
    Pre tree nodes lo hi c cur none (Ex.ofCond cp) p :=
  ⟨hsz, hc, fun _ _ h => (by cases h), hcond⟩

theorem ival_succ (i hi : Nat) (h : i < hi) (x : Nat) : (x = i ∨ Ival (i + 1) hi x) ↔ Ival i hi x := by
  simp only [Ival]; omega

/-- **a node with one operand scheduled inline**: first visit (may emit `pre`), the operand, second visit (emits `post`) -/
theorem sim_one_childF {lo hi clo chi i c : Nat} {g : Nat → Nat → LState F → LState F} {x : Expr F} {pn : ParseNode}
    {pre_ : LState F → LState F} {post : Nat → LState F → LState F}
    (hpn : tree[i]? = some pn) (hin : lo ≤ i ∧ i < hi) (hci : clo ≤ c ∧ c < chi) (hct : c < tree.size)
    (hiv : ∀ y, (y = i ∨ Ival clo chi y) ↔ Ival lo hi y) (hni : ¬ Ival clo chi i)
    (hfirst : ∀ (crj : Nat) (data : BState F) (nodes : Nodes) (RS S : Array Nat) (b : BuildNode) (s : LState F),
      nodes[i]? = some (some b) → b.state = .uninitialized → b.parseNodeIndex = i → c < nodes.size → DataEq data s →
      ∃ dataF, handleParseNode pf ⟨data, nodes, RS, S⟩ crj i pn =
          .ok ⟨dataF, putNode (putNode nodes i (visited b)) c (BuildNode.new c b.containingExpressionJump), RS, (S.push i).push c⟩ ∧
        DataEq dataF (pre_ s))
    (hsecond : ∀ (crj cur : Nat) (data : BState F) (nodes : Nodes) (RS S : Array Nat) (b : BuildNode) (s : LState F),
      nodes[i]? = some (some b) → b.state = .initialized → b.parseNodeIndex = i → b.containingExpressionJump = cur →
      DataEq data s →
      ∃ dataZ, handleParseNode pf ⟨data, nodes, RS, S⟩ crj i pn = .ok ⟨dataZ, nodes, RS, S⟩ ∧ DataEq dataZ (post cur s))
    (hpre_p : ∀ s, (pre_ s).pending = s.pending) (hpre_j : ∀ s, s.jumps.size ≤ (pre_ s).jumps.size)
    (hpost_p : ∀ cur s, (post cur s).pending = s.pending)
    (hemit : ∀ root cur s, g root cur s = post cur (emit root cur x (pre_ s)))
    (ih : SimT pf tree bodies clo chi c x) : SimF pf tree bodies lo hi i g := by
  intro crj root cur data nodes RS S s lp cp pbn pre hdat hcur
  have hlt : i < nodes.size := lt_of_get pre.node
  have hic : i ≠ c := fun h => hni (h ▸ hci)
  have hcin : Ival lo hi c := (hiv c).1 (.inr hci)
  have hne : ∀ par d, lp = some (par, d) → par ≠ i ∧ par ≠ c := fun par d h => by
    have := (pre.par par d h).1; have := hcin.1; have := hcin.2; exact ⟨by omega, by omega⟩
  have hclt : c < nodes.size := by rw [pre.size]; exact hct
  -- first visit
  obtain ⟨dataF, hhF, hdF⟩ := hfirst crj data nodes RS S _ s pre.node rfl rfl hclt hdat
  rw [show (mkNode i cur lp cp).containingExpressionJump = cur from rfl] at hhF
  generalize hH : putNode (putNode nodes i (visited (mkNode i cur lp cp))) c (BuildNode.new c cur) = nodesH at hhF
  have hHi : nodesH[i]? = some (some (visited (mkNode i cur lp cp))) := by
    rw [← hH, get_putNode_ne (Ne.symm hic), get_putNode_same hlt]
  have hHc : nodesH[c]? = some (some (mkNode c cur none Ex.none)) := by
    rw [← hH, get_putNode_same (by simpa using hclt)]; rfl
  have hHo : ∀ y, y ≠ i → y ≠ c → nodesH[y]? = nodes[y]? := fun y h1 h2 => by
    rw [← hH, get_putNode_ne (Ne.symm h2), get_putNode_ne (Ne.symm h1)]
  have st1 := first_visit (pf := pf) (crj := crj) (data := data) (RS := RS) (S := S) pre hin hpn hhF hHi
    (fun par d h => hHo par (hne par d h).1 (hne par d h).2)
  generalize hA : counted nodesH i (visited (mkNode i cur lp cp)) lp pbn = A at st1
  have hAi : A[i]? = some (some (node1 i cur lp cp)) := by rw [← hA]; exact counted_node hHi (fun p d h => (hne p d h).1)
  have hAo : ∀ y, y ≠ i → (∀ par d, lp = some (par, d) → y ≠ par) → A[y]? = nodesH[y]? := fun y h1 h2 => by
    rw [← hA]; exact counted_other h1 h2
  have hAsz : A.size = nodes.size := by rw [← hA, counted_size, ← hH]; simp
  -- the operand
  have preC : Pre tree A clo chi c cur none Ex.none pbn :=
    Pre.child none pbn (by rw [hAsz, pre.size]) (by rw [hAo c (Ne.symm hic) (fun p d h => Ne.symm (hne p d h).2), hHc])
      (fun ⟨_, h⟩ => by cases h)
  obtain ⟨k1, data1, C, RS1, R1, stC, hk1, hd1, hrs1, hp1, done1, _⟩ :=
    ih crj root cur dataF A RS (S.push i) (pre_ s) none Ex.none pbn preC hdF (by have := hpre_j s; omega)
  -- second visit
  have hCi : C[i]? = some (some (node1 i cur lp cp)) := by
    rw [done1.frame i hni (fun _ _ h => by cases h)]; exact hAi
  obtain ⟨dataZ, hhZ, hdZ⟩ := hsecond crj cur data1 C RS1 S _ _ hCi rfl rfl rfl hd1
  have st2 := second_visit (lp := lp) (crj := crj) (RS := RS1) (S := S) hpn hhZ hCi rfl rfl
  have hkk : k1 + wsum R1 ≤ 2 * (hi - lo) - 2 := by
    have h1 := (hiv clo).2
    have h2 := (hiv (chi - 1)).2
    have hcl : clo < chi := by omega
    have a1 : Ival lo hi clo := (hiv clo).1 (.inr ⟨Nat.le_refl _, hcl⟩)
    have a2 : Ival lo hi (chi - 1) := (hiv (chi - 1)).1 (.inr ⟨by omega, by omega⟩)
    have a3 : ¬ (clo ≤ i ∧ i < chi) := hni
    simp only [Ival] at a1 a2
    omega
  refine ⟨1 + k1 + 1, dataZ, C, RS1, R1, (st1.trans stC).trans st2, by have := hin.1; have := hin.2; omega, ?_, hrs1, ?_, ?_, ⟨_, hCi, rfl⟩⟩
  · rw [hemit]; exact hdZ
  · rw [hemit, hpost_p, hp1, hpre_p]
  · refine (Done.wrap (i := i) (lp := lp) (pbn := pbn) (N := nodes) done1 hAsz (fun y h1 h2 h3 => ?_) ⟨_, hAi⟩
      hni (fun par d h => ⟨?_, ?_⟩)).cong hiv
    · have : y ≠ c := fun e => h2 (by subst e; exact hci)
      rw [hAo y h1 h3, hHo y h1 this]
    · intro hh
      have := (pre.par par d h).1
      have := (hiv par).1 (.inr hh)
      simp only [Ival] at this; omega
    · subst h
      rw [← hA]
      refine counted_parent ?_
      rw [hHo par (hne par d rfl).1 (hne par d rfl).2]
      exact (pre.par par d rfl).2.1

/-- … for a node that is an expression of its own -/
theorem sim_one_child {lo hi clo chi i c : Nat} {e x : Expr F} {pn : ParseNode}
    {pre_ : LState F → LState F} {post : Nat → LState F → LState F}
    (hpn : tree[i]? = some pn) (hin : lo ≤ i ∧ i < hi) (hci : clo ≤ c ∧ c < chi) (hct : c < tree.size)
    (hiv : ∀ y, (y = i ∨ Ival clo chi y) ↔ Ival lo hi y) (hni : ¬ Ival clo chi i)
    (hfirst : ∀ (crj : Nat) (data : BState F) (nodes : Nodes) (RS S : Array Nat) (b : BuildNode) (s : LState F),
      nodes[i]? = some (some b) → b.state = .uninitialized → b.parseNodeIndex = i → c < nodes.size → DataEq data s →
      ∃ dataF, handleParseNode pf ⟨data, nodes, RS, S⟩ crj i pn =
          .ok ⟨dataF, putNode (putNode nodes i (visited b)) c (BuildNode.new c b.containingExpressionJump), RS, (S.push i).push c⟩ ∧
        DataEq dataF (pre_ s))
    (hsecond : ∀ (crj cur : Nat) (data : BState F) (nodes : Nodes) (RS S : Array Nat) (b : BuildNode) (s : LState F),
      nodes[i]? = some (some b) → b.state = .initialized → b.parseNodeIndex = i → b.containingExpressionJump = cur →
      DataEq data s →
      ∃ dataZ, handleParseNode pf ⟨data, nodes, RS, S⟩ crj i pn = .ok ⟨dataZ, nodes, RS, S⟩ ∧ DataEq dataZ (post cur s))
    (hpre_p : ∀ s, (pre_ s).pending = s.pending) (hpre_j : ∀ s, s.jumps.size ≤ (pre_ s).jumps.size)
    (hpost_p : ∀ cur s, (post cur s).pending = s.pending)
    (hemit : ∀ root cur s, emit root cur e s = post cur (emit root cur x (pre_ s)))
    (ih : SimT pf tree bodies clo chi c x) : SimT pf tree bodies lo hi i e :=
  SimF.toT (sim_one_childF hpn hin hci hct hiv hni hfirst hsecond hpre_p hpre_j hpost_p hemit ih)

theorem sim_unaryPre {hi i r : Nat} {op : Instruction} {x : Expr F} {pn : ParseNode} (hpn : tree[i]? = some pn)
    (hop : prefixOp pn.definition = some op) (hr : pn.right = some r) (hri : i + 1 ≤ r ∧ r < hi) (hrt : r < tree.size)
    (ih : SimT pf tree bodies (i + 1) hi r x) : SimT pf tree bodies i hi i (.unary op x) := by
  refine sim_one_child (pre_ := id) (post := fun _ s => s.push op none) hpn ⟨Nat.le_refl _, by omega⟩ hri hrt
    (ival_succ i hi (by omega)) (by simp only [Ival]; omega) ?_ ?_ (fun _ => rfl) (fun _ => Nat.le_refl _) (fun _ _ => rfl)
    (fun _ _ _ => by simp only [emit, id]) ih
  · intro crj data nodes RS S b s hb hs hpi hlt hd
    exact ⟨data, by rw [prefix_first hop hr hb hs hlt, hpi], hd⟩
  · intro crj cur data nodes RS S b s hb hs hpi _ hd
    exact ⟨_, prefix_second hop hb hs, hd.push _ _ _⟩

theorem ival_pred (lo i : Nat) (h : lo ≤ i) (x : Nat) : (x = i ∨ Ival lo i x) ↔ Ival lo (i + 1) x := by
  simp only [Ival]; omega

theorem sim_unarySuf {lo i l : Nat} {op : Instruction} {x : Expr F} {pn : ParseNode} (hpn : tree[i]? = some pn)
    (hop : suffixOp pn.definition = some op) (hl : pn.left = some l) (hli : lo ≤ l ∧ l < i) (hlt : l < tree.size)
    (ih : SimT pf tree bodies lo i l x) : SimT pf tree bodies lo (i + 1) i (.unary op x) := by
  refine sim_one_child (pre_ := id) (post := fun _ s => s.push op none) hpn ⟨by omega, by omega⟩ hli hlt
    (ival_pred lo i (by omega)) (by simp only [Ival]; omega) ?_ ?_ (fun _ => rfl) (fun _ => Nat.le_refl _) (fun _ _ => rfl)
    (fun _ _ _ => by simp only [emit, id]) ih
  · intro crj data nodes RS S b s hb hs hpi hlt hd
    exact ⟨data, by rw [suffix_first hop hl hb hs hlt, hpi], hd⟩
  · intro crj cur data nodes RS S b s hb hs hpi _ hd
    exact ⟨_, suffix_second hop hb hs, hd.push _ _ _⟩

end Garnish.Abs.Tree
