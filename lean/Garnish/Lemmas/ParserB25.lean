/-
Operators with optional operands, part 1: a trailing comma before a closing bracket — `prefix* ( fill* E trivia* , trivia* )`.
The comma is processed like a binary operator (its `right` points to the next node id); the EndGrouping arm then finds
`last_left` to be an optional node and resets its `right` (`step_close_opt`), so the comma ends up with a left operand only.
(Infix identifiers are not `is_optional`: without right operand their `right` would stay dangling — not in the fragment.)
-/
import Garnish.Lemmas.ParserB24

namespace Garnish.Spec
open Garnish Garnish.Gen Garnish.Model.Parser

/-- `trivia_runB` with the information what `previous_second_def` is afterwards -/
theorem trivia_runB_prev : ∀ (ws : List PToken) (st : PState) (ug : Option Nat) (rest : List PToken), OpenB st ug →
    0 < st.nodes.size → (∀ w ∈ ws, isTriviaTok w = true) →
    ∃ st', loop st (ws ++ rest) = loop st' rest ∧ OpenB st' ug ∧ st'.nodes = st.nodes ∧ st'.nextParent = st.nextParent ∧
      st'.lastLeft = st.lastLeft ∧ st'.groupStack = st.groupStack ∧ st'.currentGroup = st.currentGroup ∧
      (st'.previousSecondDef = st.previousSecondDef ∨ st'.previousSecondDef = .whitespace ∨
        st'.previousSecondDef = .annotation)
  | [], st, _, _, h, _, _ => ⟨st, rfl, h, rfl, rfl, rfl, rfl, rfl, Or.inl rfl⟩
  | w :: ws, st, ug, rest, h, hpos, hws => by
    have hw := hws w (List.mem_cons_self ..)
    obtain ⟨st', h1, h2, h3, h4, h5, h6, h7, h8⟩ :=
      trivia_runB_prev ws { st with previousSecondDef := (getDefinition w.type).2, lastToken := w } ug rest (h.trivia w hw)
        hpos (fun x hx => hws x (List.mem_cons_of_mem _ hx))
    refine ⟨st', ?_, h2, h3, h4, h5, h6, h7, ?_⟩
    · simp only [List.cons_append, loop]
      rw [step_triviaB st ug w _ hw h hpos]
      simp only [Outcome.bind]
      exact h1
    · rcases h8 with h8 | h8 | h8
      · rw [h8]; exact Or.inr (trivia_secdef hw)
      · exact Or.inr (Or.inl h8)
      · exact Or.inr (Or.inr h8)

/-- the optional-node branch of `endGroupingFixLastLeft` -/
theorem endFix_opt (st : PState) (g n : Nat) (C : ParseNode) (hsz : st.nodes.size = n + 1) (hl : st.lastLeft = some n)
    (hC : st.nodes[n]? = some C) (hCd : C.definition = .commaList) :
    ∃ nodes2, endGroupingFixLastLeft st (n + 1) g = .ok { st with nodes := nodes2 } ∧ nodes2.size = n + 1 ∧
      ∀ j, nodes2[j]? = if j = n then some { C with right := none } else st.nodes[j]? := by
  have hopt : C.definition.isOptional = true := by rw [hCd]; rfl
  obtain ⟨n1, h1⟩ := modifyNode?_isSome (a := st.nodes) (fun _ => { C with right := none }) (show n < st.nodes.size by omega)
  refine ⟨n1, ?_, by rw [modifyNode?_size h1]; exact hsz, ?_⟩
  · have hns : (C.definition == Definition.subexpression) = false := by rw [hCd]; rfl
    unfold endGroupingFixLastLeft
    simp only [hl, hC, hopt, Bool.true_or, if_true, h1, hns, Bool.false_and, Bool.false_eq_true, if_false]
  · intro j
    rw [modifyNode?_get h1 j]
    split
    · rename_i hj; subst hj; rw [hC]; rfl
    · rfl

/-- **the closing bracket directly after a comma** (possibly with trivia in between): the comma's `right` is reset -/
theorem step_close_opt (st : PState) (g n : Nat) (C G : ParseNode) (fl : Bool) (c : PToken) (il : Bool)
    (hug : underGroupOf st = .ok (some g)) (hadj : adjustLastLeft st (some g) = .ok st) (hnnl : st.nextLastLeft = none)
    (hcomp : checkComposition st.previousSecondDef (getDefinition c.type).2 st.checkForList = true)
    (hback : st.groupStack.back? = some (g, fl)) (hG : st.nodes[g]? = some G) (hcl : closes G.definition c)
    (hsz : st.nodes.size = n + 1) (hl : st.lastLeft = some n) (hC : st.nodes[n]? = some C)
    (hCd : C.definition = .commaList) :
    ∃ nodes2, step st c il = .ok (stepCU st g fl c nodes2) ∧ nodes2.size = n + 1 ∧
      ∀ j, nodes2[j]? = if j = n then some { C with right := none } else st.nodes[j]? := by
  have hsd : (getDefinition c.type).1 = .drop ∧
      ((getDefinition c.type).2 = .endGrouping ∨ (getDefinition c.type).2 = .endSideEffect) := by
    rcases hcl with ⟨_, h⟩ | ⟨_, h⟩ | ⟨_, h⟩ <;> rw [h] <;> simp [getDefinition]
  have hfix : ∀ (stx : PState), stx.lastLeft = st.lastLeft → stx.nodes = st.nodes →
      ∃ nodes2, endGroupingFixLastLeft stx st.nodes.size g = .ok { stx with nodes := nodes2 } ∧ nodes2.size = n + 1 ∧
        ∀ j, nodes2[j]? = if j = n then some { C with right := none } else st.nodes[j]? := by
    intro stx h1 h2
    have := endFix_opt stx g n C (by rw [h2]; exact hsz) (by rw [h1]; exact hl) (by rw [h2]; exact hC) hCd
    rw [h2] at this
    rw [hsz]; exact this
  obtain ⟨nodes2, hf, hs2, hg2⟩ := hfix
    { st with previousSecondDef := (getDefinition c.type).2, groupStack := st.groupStack.pop, nextLastLeft := some g,
              checkForList := fl,
              currentGroup := if st.groupStack.pop.isEmpty then none else some (st.groupStack.pop.size - 1) } rfl rfl
  refine ⟨nodes2, ?_, hs2, hg2⟩
  unfold step stepCU
  simp only [hug, hadj, Outcome.bind]
  generalize getDefinition c.type = ds at hsd hcomp hf ⊢
  obtain ⟨d, sc⟩ := ds
  simp only at hsd hcomp hf ⊢
  obtain ⟨hd, hsc⟩ := hsd
  subst hd
  rcases hsc with hsc | hsc <;> subst hsc <;> rcases hcl with ⟨k1, k2⟩ | ⟨k1, k2⟩ | ⟨k1, k2⟩ <;>
  · simp only [hcomp, Bool.not_true, Bool.false_eq_true, if_false, dispatch, armEndGrouping, hback, hG, k1, k2,
      Outcome.bind, bne_self_eq_false, hf]
    simp [pushNode, hnnl]

def isCommaTok (t : PToken) : Bool := t.type == .comma

theorem comma_facts {k : PToken} (hk : isCommaTok k = true) :
    isBin3Tok k = true ∧ getDefinition k.type = (.commaList, .optionalBinaryLeftToRight) := by
  unfold isCommaTok at hk
  have : k.type = .comma := by simpa using hk
  unfold isBin3Tok
  rw [this]; exact ⟨rfl, rfl⟩

theorem ref_close_stepK' (f parent : Frame) (stack : List Frame) (pos : Nat) (c : PToken) (rest : List PToken)
    (gd : Definition) (gpos : Nat) (hctx : f.ctx = some (gd, gpos)) (hc : isCloseFor gd c) (hl : f.last = .optOp) :
    refStep Table.gen f (parent :: stack) pos c rest =
      .ok ({ parent with cur := plug parent.cur (.group gd gpos f.cur), last := .operand, ws := false,
                         prevSep := false }, stack) := by
  have hgen : Table.gen.define = getDefinition := rfl
  unfold refStep
  rw [hgen]
  rcases hc with ⟨h1, h2⟩ | ⟨h1, h2⟩ <;> subst h1 <;> rw [h2] <;> simp [getDefinition, hctx, closerFor, hl]

theorem comp_close_after_comma (s : SecDef) (hs : s = .optionalBinaryLeftToRight ∨ s = .whitespace ∨ s = .annotation)
    (c : Bool) : checkComposition s .endGrouping c = true := by
  rcases hs with rfl | rfl | rfl <;> cases c <;> rfl

/-- `prefix* ( fill* E trivia* , trivia* )` / `prefix* { .. }` is a complete operand -/
theorem opd_bracket_comma {n : Nat} {inner : List PToken} {ls : Bool} (pre : List PToken) (o c k : PToken)
    (wsA ws1 wsB : List PToken) (hin : ExprOK n ((getDefinition o.type).1 == .group) inner ls)
    (hpre : ∀ p ∈ pre, isPrefixTok p = true) (ho : isOpenTok o = true)
    (hc : isCloseFor (getDefinition o.type).1 c) (hwA : ∀ w ∈ wsA, isFillTok w = true)
    (hw1 : ∀ w ∈ ws1, isTriviaTok w = true) (hk : isCommaTok k = true) (hwB : ∀ w ∈ wsB, isTriviaTok w = true)
    (hne : inner ≠ []) :
    OpdOK n (pre ++ (o :: (wsA ++ (inner ++ (ws1 ++ (k :: (wsB ++ [c]))))))) := by
  intro st1 ug hO hprios hcg pos hnum rest
  obtain ⟨hk3, hkd⟩ := comma_facts hk
  have hsz1 := pushP_size pre st1
  have hnumO := numbered_append pre _ pos hnum
  have hnumA := numbered_append wsA _ _ hnumO.2
  have hnumI := numbered_prefix inner _ _ hnumA
  have hnumK := numbered_append ws1 _ _ (numbered_append inner _ _ hnumA)
  have hkcol : k.col = pos + pre.length + 1 + wsA.length + inner.length + ws1.length := hnumK.1
  obtain ⟨sO', hloopO, hOO', hfs, hpriosO, hcgO, hkO, hnO', hgsO', hspO⟩ :=
    bracket_open st1 ug pre o wsA (inner ++ (ws1 ++ (k :: (wsB ++ [c])))) rest hO hprios hpre ho hwA (by simp [hne])
  have hgO : sO'.nodes[(pushP st1 pre).nodes.size]? = some ⟨(getDefinition o.type).1, .startGrouping,
      (pushP st1 pre).nextParent, none, some ((pushP st1 pre).nodes.size + 1), o⟩ := by rw [hnO']; simp
  obtain ⟨stE, E, re, cbE, hloopE, hinvE, hgsE, hcgE, ho1E, ho2E, hrdE, hcntE, hrefE⟩ :=
    hin sO' _ _ _ hOO' hfs hpriosO hcgO hkO hspO _ hnumI ((ws1 ++ (k :: (wsB ++ [c]))) ++ rest)
  obtain ⟨G', hG', hGr', hGd', hGp', hGl', hGt', hGs'⟩ := bracket_node hinvE hgO ho2E
  -- trivia, the comma
  obtain ⟨stE1, hloopW1, hinvE1, hnE1, hgsE1, hcgE1⟩ := trivia_runU ws1 stE ((k :: (wsB ++ [c])) ++ rest) hinvE hw1
  obtain ⟨q, nodes', info, s1, hq, h1, hn1, hsz', hO1, hgs1, hcg1, hdefs, hout1, hout2, htreeK⟩ := op_effectU hinvE1 hk3
  rw [hkd] at hq hn1 htreeK
  simp only at hq hn1 htreeK
  have hq900 : q = 900 := by injection hq with hq; exact hq.symm
  have hs1 : s1.nodes.size = stE1.nodes.size + 1 := by rw [hn1]; simp [hsz']
  have hC1 : s1.nodes[stE1.nodes.size]? = some ⟨.commaList, .optionalBinaryLeftToRight, info.parent, info.left,
      some (stE1.nodes.size + 1), k⟩ := by rw [hn1, Array.getElem?_push, if_pos hsz'.symm]
  have hprevs1 : s1.previousSecondDef = .optionalBinaryLeftToRight := by
    rcases hO1.prev with h | h | h | h | h | h | h | h | h | h
    all_goals first | exact h | skip
    all_goals
      -- the operator step sets `previous_second_def` to the operator's class
      have := step_bin3_specG stE1 s1 k hk3 hinvE1.nnl hinvE1.hug hinvE1.adjust h1
      obtain ⟨_, _, _, _, _, _, _, _, _, hp⟩ := this
      rw [hkd] at hp; exact hp
  -- trivia, the closing bracket
  obtain ⟨s1', hloopW2, hO1', hn1', _, hll1', hgs1', hcg1', hprev1'⟩ :=
    trivia_runB_prev wsB s1 (some (pushP st1 pre).nodes.size) ([c] ++ rest) hO1 (by omega) hwB
  have hsE : (pushP st1 pre).nodes.size + 1 < stE.nodes.size := hinvE.n.pos
  have hnE1s : stE1.nodes.size = stE.nodes.size := by rw [hnE1]
  have hG1' : ∃ G1, s1'.nodes[(pushP st1 pre).nodes.size]? = some G1 ∧ G1.definition = (getDefinition o.type).1 := by
    have hd := hdefs (pushP st1 pre).nodes.size (by omega)
    rw [hnE1, hG'] at hd
    rw [hn1', hn1, Array.getElem?_push, if_neg (by omega)]
    cases hn : nodes'[(pushP st1 pre).nodes.size]? with
    | none => rw [hn] at hd; cases hd
    | some G1 =>
      rw [hn] at hd
      simp only [Option.map_some, Option.some.injEq] at hd
      exact ⟨G1, rfl, by rw [hd, hGd']⟩
  obtain ⟨G1, hG1, hG1d⟩ := hG1'
  have hsd : (getDefinition c.type).2 = .endGrouping := isCloseFor_secdef hc
  have hback : s1'.groupStack.back? = some ((pushP st1 pre).nodes.size, false) := by
    rw [hgs1', hgs1, hgsE1, hgsE, hgsO']; simp
  have hcompC : checkComposition s1'.previousSecondDef (getDefinition c.type).2 s1'.checkForList = true := by
    rw [hsd]; apply comp_close_after_comma
    rcases hprev1' with h | h | h
    · left; rw [h]; exact hprevs1
    · exact Or.inr (Or.inl h)
    · exact Or.inr (Or.inr h)
  obtain ⟨nodes2, hclose, hs2, hg2⟩ := step_close_opt s1' (pushP st1 pre).nodes.size stE1.nodes.size _ G1 false c
    rest.isEmpty hO1'.hug hO1'.adj hO1'.nnl hcompC hback hG1 (by rw [hG1d]; exact isCloseFor_closes hc)
    (by rw [hn1']; exact hs1) (by rw [hll1']; exact hO1.lastLeft_eq (by omega) ▸ (by rw [hs1]; rfl))
    (by rw [hn1']; exact hC1) rfl
  -- the content of the bracket: the comma with a left operand only
  have hlt2 : ∀ j, j < stE1.nodes.size → nodes2[j]? = nodes'[j]? := by
    intro j hj
    rw [hg2 j, if_neg (by omega), hn1', hn1, Array.getElem?_push, if_neg (by omega)]
  have hC2 : nodes2[stE1.nodes.size]? = some ⟨.commaList, .optionalBinaryLeftToRight, info.parent, info.left, none, k⟩ := by
    rw [hg2, if_pos rfl]
  obtain ⟨re', htree', hfr'⟩ := htreeK nodes2 .nil k.col hlt2 ⟨_, hC2, rfl, rfl, rfl, rfl⟩ (.nil _)
  have hprios2 : AllPrio nodes2 := by
    intro i nd hi
    by_cases c1 : i < stE1.nodes.size
    · rw [hlt2 i c1] at hi
      have := hdefs i c1
      rw [hi] at this
      cases hsi : stE1.nodes[i]? with
      | none => rw [hsi] at this; cases this
      | some nd0 =>
        rw [hsi] at this
        simp only [Option.map_some, Option.some.injEq] at this
        rw [this]; exact hinvE1.n.prios i nd0 hsi
    · by_cases c2 : i = stE1.nodes.size
      · subst c2; rw [hC2] at hi; injection hi with hi; subst hi; exact ⟨900, rfl⟩
      · have : nodes2[i]? = none := by apply Array.getElem?_eq_none; omega
        rw [this] at hi; cases hi
  have hnE2 : NInv nodes2 (some (pushP st1 pre).nodes.size) (some (pushP st1 pre).nodes.size)
      ((pushP st1 pre).nodes.size + 1)
      (insertC cbE (prioAt stE1.nodes) q false stE1.nodes.size k.col .nil E) re' := by
    have hin1 : (insertC cbE (prioAt stE1.nodes) q false stE1.nodes.size k.col .nil E).inorder =
        E.inorder ++ [stE1.nodes.size] := by rw [insertC_inorder]; rfl
    refine ⟨htree', ?_, ?_, by omega, ?_, hprios2⟩
    · rw [hin1, hs2]
      exact hinvE1.n.inord.append_cons (l2 := []) ⟨List.Pairwise.nil, fun j hj => by cases hj⟩ (by omega) (by omega)
    · rw [hin1]; exact List.mem_append_left _ hinvE1.n.first
    · obtain ⟨G2, hG2, hGr2, hgl2, pg2, hpg2⟩ := hfr' _ rfl
      exact .bracket _ re' G2 pg2 hG2 hgl2 hpg2 hGr2
  -- the bracket node in the final array
  have hG2 : ∃ G2, nodes2[(pushP st1 pre).nodes.size]? = some G2 ∧ G2.right = some re' ∧
      G2.definition = (getDefinition o.type).1 ∧ G2.parent = (pushP st1 pre).nextParent ∧ G2.left = none ∧
      G2.lexToken = o ∧ G2.secondaryDefinition = .startGrouping := by
    obtain ⟨G2, hG2, hGr2, _, _, _⟩ := hfr' _ rfl
    refine ⟨G2, hG2, hGr2, ?_⟩
    have h1' := hout1 (pushP st1 pre).nodes.size (by omega)
    rw [← hlt2 _ (by omega), hG2, hnE1, hG'] at h1'
    simp only [Option.map_some, Option.some.injEq] at h1'
    obtain ⟨e1, e2, e3, e4, e5⟩ := setRight_none_eq h1'
    exact ⟨by rw [e1, hGd'], by rw [e2, hGp'], by rw [e3, hGl'], by rw [e4, hGt'], by rw [e5, hGs']⟩
  obtain ⟨G2, hG2, hGr2, hGd2, hGp2, hGl2, hGt2, hGs2⟩ := hG2
  have hagree2 : ∀ j, j < (pushP st1 pre).nodes.size → nodes2[j]? = (pushP st1 pre).nodes[j]? := by
    intro j hj
    rw [hlt2 j (by omega), hout2 j (by omega), hnE1, ho1E j (by omega), hnO', Array.getElem?_push, if_neg (by omega)]
  have hpop : s1'.groupStack.pop = st1.groupStack := by
    rw [hgs1', hgs1, hgsE1, hgsE, hgsO']; simp
  obtain ⟨hres, hPl⟩ := bracket_result st1 ug pre o hO hpre ho nodes2 _ re' hnE2 hagree2 G2 hG2 hGr2 hGd2 hGp2 hGl2 hGt2
    hGs2 (stepCU s1' (pushP st1 pre).nodes.size false c nodes2) (fun j _ => rfl) (Nat.le_refl _) hprios2 hO1'.nnl hpop
    (by show (if s1'.groupStack.pop.isEmpty then none else some (s1'.groupStack.pop.size - 1)) = _
        rw [hpop]; exact hcg.symm)
    rfl hsd pos _ hnum
  have hcnt : (chainR st1.nodes.size (pre.map (·.col)) (.node .nil (pushP st1 pre).nodes.size o.col
      (insertC cbE (prioAt stE1.nodes) q false stE1.nodes.size k.col .nil E))).inorder.length +
      st1.nodes.size + n = (stepCU s1' (pushP st1 pre).nodes.size false c nodes2).nodes.size := by
    show _ = nodes2.size
    rw [hs2, hnE1s, chainR_inorder, List.length_map]
    simp only [Tree.inorder, List.nil_append, List.length_append, List.length_range', List.length_cons, insertC_inorder,
      List.length_nil]
    omega
  refine ⟨stepCU s1' (pushP st1 pre).nodes.size false c nodes2, _, _, _, ?_, hres, hPl, hcnt, ?_⟩
  · have e3 : inner ++ (ws1 ++ (k :: (wsB ++ [c]))) ++ rest = inner ++ ((ws1 ++ (k :: (wsB ++ [c]))) ++ rest) := by simp
    have e4 : (ws1 ++ (k :: (wsB ++ [c]))) ++ rest = ws1 ++ ((k :: (wsB ++ [c])) ++ rest) := by simp
    rw [hloopO, e3, hloopE, e4, hloopW1]
    simp only [List.cons_append, loop]
    have he' : (wsB ++ [c] ++ rest).isEmpty = false := by cases wsB <;> simp
    rw [he', h1]
    simp only [Outcome.bind]
    rw [List.append_assoc, hloopW2]
    simp only [List.cons_append, List.nil_append, loop, hclose, Outcome.bind]
  · intro f stack restR hf
    have e1 : pre ++ (o :: (wsA ++ (inner ++ (ws1 ++ (k :: (wsB ++ [c])))))) ++ restR =
        pre ++ (o :: (wsA ++ (inner ++ (ws1 ++ (k :: (wsB ++ ([c] ++ restR))))))) := by simp
    obtain ⟨lst, b2, bA, hlst, h⟩ := ref_bracket_open pre o wsA (inner ++ (ws1 ++ (k :: (wsB ++ ([c] ++ restR))))) pos hpre
      ho hwA f stack hf
    rw [e1, h, hrefE _ _ (ws1 ++ (k :: (wsB ++ ([c] ++ restR)))) rfl rfl (inGroup_ctx _ _ _ _ _ _)]
    let fE : Frame :=
      { ctx := some ((getDefinition o.type).1, pos + pre.length), cur := toRG (dfOf stE.nodes) E,
        last := (if ls then Last.suffix else Last.operand), ws := false, prevSep := false }
    obtain ⟨b1, hb1⟩ := ref_skipK ws1 fE
      ({ f with cur := plugLeaves f.cur (leavesP pre pos), last := lst, ws := false, prevSep := b2 } :: stack)
      (pos + pre.length + 1 + wsA.length + inner.length) (k :: (wsB ++ ([c] ++ restR))) hw1
    rw [hb1]
    conv => lhs; unfold refLoop
    let fE1 : Frame := { fE with ws := b1 }
    rw [ref_op_stepK fE1 _ _ 900 k _ hk3 (by rw [hkd]; rfl) (by cases ls <;> simp [fE1, fE])]
    simp only [Outcome.bind, hkd]
    let fK : Frame :=
      { fE1 with cur := attach Table.gen 900 (SecDef.optionalBinaryLeftToRight == SecDef.binaryRightToLeft)
                   Definition.commaList (pos + pre.length + 1 + wsA.length + inner.length + ws1.length) fE1.cur,
                 last := lastAfter SecDef.optionalBinaryLeftToRight, ws := false, prevSep := false }
    obtain ⟨bB, hbB⟩ := ref_skipK wsB fK
      ({ f with cur := plugLeaves f.cur (leavesP pre pos), last := lst, ws := false, prevSep := b2 } :: stack)
      (pos + pre.length + 1 + wsA.length + inner.length + ws1.length + 1) ([c] ++ restR) hwB
    rw [hbB]
    conv => lhs; unfold refLoop
    simp only [List.cons_append, List.nil_append]
    rw [ref_close_stepK' _ _ stack _ c restR (getDefinition o.type).1 (pos + pre.length) rfl hc rfl]
    simp only [Outcome.bind]
    have hdn2 : dfOf nodes2 stE1.nodes.size = .commaList := by simp [dfOf, hC2]
    have hcong : ∀ i ∈ E.inorder, dfOf stE.nodes i = dfOf nodes2 i := by
      intro i hi
      have hi' := (hinvE.n.mem i hi).2
      have := hdefs i (by omega)
      rw [← hlt2 i (by omega), hnE1] at this
      simp only [dfOf, this]
    have hcur : attach Table.gen 900 false Definition.commaList
          (pos + pre.length + 1 + wsA.length + inner.length + ws1.length) (toRG (dfOf stE.nodes) E) =
        toRG (dfOf nodes2) (insertC cbE (prioAt stE1.nodes) q false stE1.nodes.size k.col .nil E) := by
      rw [toRG_congr _ _ E hcong, ← hdn2, hkcol, hq900]
      apply insertC_toRG_nil (dfOf nodes2) (prioAt stE1.nodes) 900 false stE1.nodes.size _ cbE (by rw [hdn2]; rfl) E
      · intro i hi
        rw [← hcong i hi, hnE1]
        exact prio_dfOf hinvE.n.prios (hinvE.n.mem i hi).2
      · exact hinvE.spine.congr hcong
    have hlen : pos + pre.length + 1 + wsA.length + inner.length + ws1.length + 1 + wsB.length + 1 =
        pos + (pre ++ (o :: (wsA ++ (inner ++ (ws1 ++ (k :: (wsB ++ [c]))))))).length := by
      simp only [List.length_append, List.length_cons, List.length_nil]; omega
    rw [hlen]
    simp only [fK, fE1, fE]
    have hrtl : (SecDef.optionalBinaryLeftToRight == SecDef.binaryRightToLeft) = false := rfl
    rw [hrtl, hcur]

end Garnish.Spec
