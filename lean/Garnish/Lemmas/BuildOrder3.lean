/-
C04, builder half — sibling order, part 3: the step lemma for the concrete phase updates of Lemmas/BuildTotal*
(`stepPhase`, `condPhase`, `elsePhase`, `popPhase`) and the neutral updates.
-/
import Garnish.Lemmas.BuildOrder2
namespace Garnish.Lemmas.BuildOrder
open Garnish Garnish.Gen Garnish.Model.Parser Garnish.Model.Literals Garnish.Model.Build Garnish.Lemmas.Build
open Garnish.Lemmas.BuildTotal

variable {F : Type} {root : Nat} {tree : Array ParseNode} {G : Nat → Prop} {m0 : Nat}

/-- the children a handler is about to schedule are unscheduled (as in `step_inv`) -/
theorem children_fresh (V : Validated root tree G) {ph : Nat → Phase} {ctx : Ctx F} (h : Inv root tree G ph ctx) {ni : Nat}
    (hG : G ni) (hph : ph ni = .p1 ∨ ph ni = .p2) {vni : Phase} (cs : List Nat)
    (hchild : ∀ c, c ∈ cs → IsChild tree ni c ∧ (LateRight tree ni c → vni = .p3) ∧ (ph ni = .p2 → LateRight tree ni c)) :
    ∀ c, c ∈ cs → ph c = .p0 ∧ G c ∧ c ≠ ni ∧ IsChild tree ni c := by
  intro c hc
  obtain ⟨hchild1, _, hchild3⟩ := hchild c hc
  have hnot : ¬ SchedDone tree ph ni c := by
    intro ⟨hs1, hs2⟩
    rcases hph with h1 | h2
    · rw [h1] at hs1; rcases hs1 with h | h <;> cases h
    · have := hs2 (hchild3 h2); rw [h2] at this; cases this
  obtain ⟨h0, hcG⟩ := child_fresh V h hG hchild1 hnot
  refine ⟨h0, hcG, fun hcn => ?_, hchild1⟩
  subst hcn
  rcases hph with h1 | h1 <;> rw [h1] at h0 <;> cases h0

/-- `step_ord_gen` for the phase update of `step_inv` -/
theorem step_ord (V : Validated root tree G) {ph : Nat → Phase} {ctx ctx' : Ctx F} (hinv : Inv root tree G ph ctx)
    {ni : Nat} (hG : G ni) (hph : ph ni = .p1 ∨ ph ni = .p2) {pn : ParseNode} (hpn : tree[ni]? = some pn)
    {M M' : Array (Option Nat)} (ho : OInv root tree G m0 ph (ctx.stack.toList ++ [ni]) ctx.nodes M)
    (vni : Phase) (hv : vni = .p2 ∨ vni = .p3) (hv2 : vni = .p2 → ph ni = .p1)
    (cs rs suf : List Nat) (asg : List (Nat × BuildNode)) (l : List (Option Nat))
    (hS : ctx'.stack.toList = ctx.stack.toList ++ suf) (hN : ctx'.nodes = assign ctx.nodes asg)
    (hM : M'.toList = M.toList ++ l) (hl : ∀ m, m ∈ l → m = none ∨ m = some ni)
    (hsufni : vni = .p2 → ni ∈ suf) (hsufcs : ∀ c, c ∈ cs → c ∈ suf)
    (hnodup' : ctx'.stack.toList.Nodup)
    (hcr : (cs ++ rs).Nodup)
    (hchild : ∀ c, c ∈ cs ++ rs → IsChild tree ni c ∧ (LateRight tree ni c → vni = .p3) ∧ (ph ni = .p2 → LateRight tree ni c))
    (hasgkeys : ∀ q, q ∈ asg → q.1 = ni ∨ (q.1 ∈ cs ++ rs ∧ q.2.state = .uninitialized))
    (hasgall : ∀ c, c ∈ cs ++ rs → ∃ b, (c, b) ∈ asg)
    (hB1 : isB pn.definition = true → rs = [])
    (hB2 : isB pn.definition = true → vni = .p2 →
      (∀ c, BChild tree ni c → c ∈ cs ∧ Above suf c ni) ∧ (∀ a b, Ordered tree ni a b → Above suf a b) ∧
      (∀ m, m ∈ l → m = none))
    (hB3 : isB pn.definition = true → vni = .p3 → ph ni = .p2 ∧ cs = []) :
    OInv root tree G m0 (stepPhase ph ni vni cs rs) ctx'.stack.toList ctx'.nodes M' := by
  have hfr := children_fresh V hinv hG hph (cs ++ rs) hchild
  have hdisj : ∀ c, c ∈ cs → c ∉ rs := fun c hc hr => (List.nodup_append.1 hcr).2.2 c hc c hr rfl
  refine step_ord_gen V hinv hG hph hpn ho vni hv hv2 cs rs suf l (by simp [stepPhase]) ?_ ?_ ?_ hS hM hl hsufni hsufcs hnodup'
    (fun c hc => ⟨(hfr c (List.mem_append_left _ hc)).1, (hfr c (List.mem_append_left _ hc)).2.2.1,
      (hfr c (List.mem_append_left _ hc)).2.2.2⟩)
    (fun c hc => ⟨Or.inl (hfr c (List.mem_append_right _ hc)).1, (hfr c (List.mem_append_right _ hc)).2.2.1⟩)
    ?_ hB1 hB2 hB3
  · intro c hc
    have := (hfr c (List.mem_append_left _ hc)).2.2.1
    simp [stepPhase, this, hc]
  · intro c hc
    have h1 := (hfr c (List.mem_append_right _ hc)).2.2.1
    have h2 : c ∉ cs := fun hcc => hdisj c hcc hc
    simp [stepPhase, h1, h2, hc]
  · intro x hxn hx
    have h1 : x ∉ cs := fun hm => hx (List.mem_append_left _ hm)
    have h2 : x ∉ rs := fun hm => hx (List.mem_append_right _ hm)
    simp [stepPhase, hxn, h1, h2]
  · intro x bn hx _ hxn
    rw [hN] at hx
    rcases assign_get asg ctx.nodes x _ hx with ⟨b, hb, hvb⟩ | ⟨hold, hno⟩
    · cases hvb
      rcases hasgkeys _ hb with h | ⟨h1, h2⟩
      · exact absurd h hxn
      · exact ⟨fun _ => h2, fun hm => absurd h1 hm⟩
    · refine ⟨fun hm => ?_, fun _ => ⟨bn, hold, rfl⟩⟩
      obtain ⟨b, hb⟩ := hasgall x hm
      exact absurd hb (hno b)

/-- the order invariant does not look at `data`, and of the build nodes only at their state -/
theorem oinv_nodes {ph : Nat → Phase} {S : List Nat} {nodes nodes' : Nodes} {M : Array (Option Nat)}
    (ho : OInv root tree G m0 ph S nodes M)
    (h : ∀ (x : Nat) (bn : BuildNode), nodes'[x]? = some (some bn) → ∃ bn0, nodes[x]? = some (some bn0) ∧ bn.state = bn0.state) :
    OInv root tree G m0 ph S nodes' M := by
  obtain ⟨h1, h2, h3, h4, h5, h6, h7, h8, h9, h10, h11⟩ := ho
  refine ⟨h1, h2, h3, h4, h5, h6, h7, h8, h9, ?_, h11⟩
  intro x bn hx hp
  obtain ⟨bn0, hb0, hs⟩ := h x bn hx
  rw [hs]; exact h10 x bn0 hb0 hp

theorem oinv_putNode_same {ph : Nat → Phase} {S : List Nat} {nodes : Nodes} {M : Array (Option Nat)}
    (ho : OInv root tree G m0 ph S nodes M) {i : Nat} {bn bn' : BuildNode} (hb : nodes[i]? = some (some bn))
    (hs : bn'.state = bn.state) : OInv root tree G m0 ph S (putNode nodes i bn') M := by
  refine oinv_nodes ho (fun x b hx => ?_)
  rw [getElem?_putNode] at hx
  rcases Classical.em (i = x) with hix | hix
  · rw [if_pos hix] at hx
    subst hix
    split at hx
    · cases hx; exact ⟨bn, hb, hs⟩
    · cases hx
  · rw [if_neg hix] at hx
    exact ⟨b, hx, rfl⟩

/-- appending records that name no node -/
theorem oinv_meta_none {ph : Nat → Phase} {S : List Nat} {nodes : Nodes} {M M' : Array (Option Nat)}
    (ho : OInv root tree G m0 ph S nodes M) (l : List (Option Nat)) (hM : M'.toList = M.toList ++ l)
    (hl : ∀ m, m ∈ l → m = none) : OInv root tree G m0 ph S nodes M' := by
  have hattr : ∀ x, Attr m0 M' x → Attr m0 M x := by
    intro x h
    rcases attr_append hM h with h1 | h1
    · exact h1
    · have := hl _ h1; cases this
  obtain ⟨h1, h2, h3, h4, h5, h6, h7, h8, h9, h10, h11⟩ := ho
  refine ⟨h1, h2, fun x hx => h3 x (hattr x hx), fun y pn hy hb ha => h4 y pn hy hb (hattr y ha), h5, h6, h7, h8, h9, h10, ?_⟩
  intro x z hp kx kz hkx hkz hmx hmz
  rcases get_append hM hmx with ⟨_, hx2⟩ | ⟨_, hx2⟩
  · rcases get_append hM hmz with ⟨_, hz2⟩ | ⟨_, hz2⟩
    · exact h11 x z hp kx kz hkx hkz hx2 hz2
    · have := hl _ hz2; cases this
  · have := hl _ hx2; cases this

end Garnish.Lemmas.BuildOrder
