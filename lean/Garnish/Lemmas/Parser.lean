/-
Panic / fuel freedom of the parser model (`Garnish.Model.Parser.parse`), for the model as it is.

`Safe o` : the outcome is `ok` or `err`, i.e. neither `panic` (a Rust panic site was hit) nor `fuelOut`
(the model's recursion fuel ran out before the Rust `count > nodes.len()` cap fired).
Main theorem: `parse_safe : ∀ tokens, Safe (parse tokens)`.

Potential panic sites of parser.rs (non-test code, lines 1–1312) and their status
  780   `end -= 1` in `trim_tokens` (usize subtraction)      modelled as `Outcome.panic`; unreachable: `trimEnd_ok`
  790   `&tokens[start..end]` (slice)                         modelled as `Outcome.panic`; unreachable: `trimTokens_safe`
                                                              (`start <= end` by the test on line 786, `end <= len` by `trimEnd_ok`)
  1099  `group_stack.len() - 1` (usize subtraction)           under `!group_stack.is_empty()`: `groupStack_len_sub_one_guarded`
  1292  `unreachable!()`                                      `match node.get_parent() { None => .. }` inside
                                                              `while !node.parent.is_none()`: same field, no mutation in between
  535, 640, 772, 859, 862, 933, 937, 995, 1021, 1304  `+ 1` / `+= 1` on usize: overflow needs ~2^64 nodes (not modelled, `Nat`)
  every `nodes.get(..)`, `nodes.get_mut(..)`, `group_stack.get(..)`, `group_stack.pop()`, `priority_map.get(..)` has an explicit
  `None` arm (returns `Err` or `()`); there is no `nodes[i]`, `unwrap`, `expect`, `panic!`, `assert!` in the non-test code.
The two loops that are not `for` loops (lines 491–539 and 1290–1308) are capped by `count > nodes.len()`:
`walkLoop_safe`, `rootLoop_safe` show that the model's fuel `nodes.size + 1` is never exhausted before that cap fires.
-/
import Garnish.Model.Parser

namespace Garnish.Model.Parser
open Garnish Garnish.Gen

/-- neither `panic` nor `fuelOut` -/
def Safe {α : Type} : Outcome α → Prop
  | .ok _ => True
  | .err _ => True
  | .panic _ => False
  | .fuelOut => False

@[simp] theorem safe_ok {α : Type} (a : α) : Safe (Outcome.ok a) := trivial
@[simp] theorem safe_err {α : Type} (e : ErrClass) : Safe (Outcome.err e : Outcome α) := trivial
@[simp] theorem safe_implErr {α : Type} : Safe (implErr : Outcome α) := trivial
@[simp] theorem safe_syntaxErr {α : Type} : Safe (syntaxErr : Outcome α) := trivial
@[simp] theorem not_safe_panic {α : Type} (s : String) : ¬ Safe (Outcome.panic s : Outcome α) := id
@[simp] theorem not_safe_fuelOut {α : Type} : ¬ Safe (Outcome.fuelOut : Outcome α) := id

theorem Safe.ne_panic {α : Type} {o : Outcome α} (h : Safe o) (s : String) : o ≠ .panic s := by
  intro e; subst e; exact h
theorem Safe.ne_fuelOut {α : Type} {o : Outcome α} (h : Safe o) : o ≠ .fuelOut := by
  intro e; subst e; exact h

/-! ### the parent walk of `parse_token`: the Rust cap fires before the fuel runs out -/

theorem walkLoop_safe (nodes : Array ParseNode) (myPriority : Nat) (underGroup : Option Nat) (rightToLeft : Bool) :
    ∀ (fuel count : Nat) (trueLeft currentLeft : Option Nat),
      count ≤ nodes.size → nodes.size + 1 ≤ fuel + count →
      Safe (walkLoop nodes myPriority underGroup rightToLeft fuel count trueLeft currentLeft) := by
  intro fuel
  induction fuel with
  | zero =>
    intro count trueLeft currentLeft h1 h2
    omega
  | succ fuel ih =>
    intro count trueLeft currentLeft h1 h2
    cases currentLeft with
    | none => unfold walkLoop; simp
    | some leftIndex =>
      unfold walkLoop
      dsimp only
      cases hn : nodes[leftIndex]? with
      | none => simp
      | some n =>
        dsimp only
        cases hp : priority n.definition with
        | none => simp
        | some theirPriority =>
          dsimp only
          repeat' split
          all_goals first | (simp; done) | (apply ih <;> omega)

theorem safe_bind {α β : Type} {x : Outcome α} {f : α → Outcome β} (hx : Safe x) (hf : ∀ a, Safe (f a)) :
    Safe (Outcome.bind x f) := by
  cases x with
  | ok a => exact hf a
  | err e => trivial
  | panic s => exact hx
  | fuelOut => exact hx

/-- decompose a goal `Safe (..)` along binds, matches, ifs; close leaves with the `@[simp]` safety lemmas -/
macro "safe_auto" : tactic =>
  `(tactic| repeat' (first | (simp; done) | apply safe_bind | intro _ | split | (dsimp only)))

@[simp] theorem parseToken_safe (id : Nat) (definition : Definition) (left right : Option Nat) (nodes : Array ParseNode)
    (underGroup : Option Nat) (rightToLeft : Bool) :
    Safe (parseToken id definition left right nodes underGroup rightToLeft) := by
  unfold parseToken
  split
  · simp
  · apply safe_bind
    · exact walkLoop_safe _ _ _ _ _ _ _ _ (Nat.zero_le _) (Nat.le_refl _)
    · safe_auto

@[simp] theorem parseTokenSt_safe (st : PState) (id : Nat) (definition : Definition) (left right underGroup : Option Nat)
    (rtl : Bool) : Safe (parseTokenSt st id definition left right underGroup rtl) := by
  unfold parseTokenSt; safe_auto

@[simp] theorem parseTokenLeftToRight_safe (st : PState) (id : Nat) (definition : Definition)
    (left right underGroup : Option Nat) : Safe (parseTokenLeftToRight st id definition left right underGroup) := by
  unfold parseTokenLeftToRight; simp

@[simp] theorem parseTokenRightToLeft_safe (st : PState) (id : Nat) (definition : Definition)
    (left right underGroup : Option Nat) : Safe (parseTokenRightToLeft st id definition left right underGroup) := by
  unfold parseTokenRightToLeft; simp

@[simp] theorem pushListNode_safe (st : PState) (id ourId : Nat) (underGroup : Option Nat) :
    Safe (pushListNode st id ourId underGroup) := by
  unfold pushListNode; safe_auto

@[simp] theorem parseValueLike_safe (st : PState) (id : Nat) (definition : Definition) (underGroup : Option Nat) :
    Safe (parseValueLike st id definition underGroup) := by
  unfold parseValueLike; safe_auto

@[simp] theorem setupSpaceListCheck_safe (st : PState) (currentGroup : Option Nat) :
    Safe (setupSpaceListCheck st currentGroup) := by
  unfold setupSpaceListCheck; safe_auto

/-! ### `trim_tokens`: `end -= 1` cannot underflow and the slice `&tokens[start..end]` is in range -/

/-- the reverse loop runs at most `tokens.len()` times, so `end -= 1` never underflows, and `end` only decreases -/
theorem trimEnd_ok : ∀ (rev : List PToken) (end_ : Nat), rev.length ≤ end_ →
    ∃ e, trimEnd rev end_ = .ok e ∧ e ≤ end_ := by
  intro rev
  induction rev with
  | nil => intro end_ _; exact ⟨end_, rfl, Nat.le_refl _⟩
  | cons t rest ih =>
    intro end_ h
    simp only [List.length_cons] at h
    unfold trimEnd
    split
    · have h0 : end_ ≠ 0 := by omega
      simp only [h0, if_false]
      obtain ⟨e, he, hle⟩ := ih (end_ - 1) (by omega)
      exact ⟨e, he, by omega⟩
    · exact ⟨end_, rfl, Nat.le_refl _⟩

@[simp] theorem trimTokens_safe (tokens : List PToken) : Safe (trimTokens tokens) := by
  unfold trimTokens
  obtain ⟨e, he, hle⟩ := trimEnd_ok tokens.reverse tokens.length (by simp)
  rw [he]
  simp only [Outcome.bind]
  have : ¬ e > tokens.length := by omega
  safe_auto
  all_goals omega

@[simp] theorem underGroupOf_safe (st : PState) : Safe (underGroupOf st) := by
  unfold underGroupOf; safe_auto

@[simp] theorem adjustLastLeft_safe (st : PState) (underGroup : Option Nat) : Safe (adjustLastLeft st underGroup) := by
  unfold adjustLastLeft; safe_auto

@[simp] theorem armUnaryPrefix_safe (st : PState) (currentId : Nat) (definition : Definition)
    (assumedRight underGroup : Option Nat) : Safe (armUnaryPrefix st currentId definition assumedRight underGroup) := by
  unfold armUnaryPrefix; safe_auto

@[simp] theorem armStartGrouping_safe (st : PState) (currentId : Nat) (definition : Definition)
    (assumedRight underGroup : Option Nat) : Safe (armStartGrouping st currentId definition assumedRight underGroup) := by
  unfold armStartGrouping; safe_auto

@[simp] theorem armStartSideEffect_safe (st : PState) (currentId : Nat) (definition : Definition)
    (assumedRight underGroup : Option Nat) : Safe (armStartSideEffect st currentId definition assumedRight underGroup) := by
  unfold armStartSideEffect; safe_auto

@[simp] theorem endGroupingFixLastLeft_safe (st : PState) (currentId endedGroup : Nat) :
    Safe (endGroupingFixLastLeft st currentId endedGroup) := by
  unfold endGroupingFixLastLeft; safe_auto

@[simp] theorem armEndGrouping_safe (st : PState) (currentId : Nat) (token : PToken) :
    Safe (armEndGrouping st currentId token) := by
  unfold armEndGrouping; safe_auto

@[simp] theorem armSubexpression_safe (st : PState) (currentId : Nat) (definition : Definition)
    (assumedRight underGroup : Option Nat) : Safe (armSubexpression st currentId definition assumedRight underGroup) := by
  unfold armSubexpression; safe_auto

@[simp] theorem dispatch_safe (st : PState) (currentId : Nat) (token : PToken) (definition : Definition)
    (secondaryDefinition : SecDef) (assumedRight underGroup : Option Nat) :
    Safe (dispatch st currentId token definition secondaryDefinition assumedRight underGroup) := by
  unfold dispatch; safe_auto

@[simp] theorem step_safe (st : PState) (token : PToken) (isLast : Bool) : Safe (step st token isLast) := by
  unfold step; safe_auto

@[simp] theorem loop_safe : ∀ (tokens : List PToken) (st : PState), Safe (loop st tokens) := by
  intro tokens
  induction tokens with
  | nil => intro st; unfold loop; simp
  | cons t rest ih =>
    intro st
    unfold loop
    apply safe_bind
    · simp
    · intro st'; exact ih st'

/-- line 1099 `group_stack.len() - 1` is evaluated only under `!group_stack.is_empty()`, so the `usize` subtraction
    cannot underflow (the model writes the truncated `Nat` subtraction under the same guard) -/
theorem groupStack_len_sub_one_guarded {α : Type} (groupStack : Array α) (h : groupStack.isEmpty = false) :
    groupStack.size - 1 + 1 = groupStack.size := by
  have : groupStack.size ≠ 0 := by
    intro h0
    simp [Array.isEmpty, h0] at h
  omega

/-! ### the root walk: the Rust cap fires before the fuel runs out -/

theorem rootLoop_safe (nodes : Array ParseNode) :
    ∀ (fuel count root : Nat) (node : ParseNode),
      count ≤ nodes.size → nodes.size + 1 ≤ fuel + count → Safe (rootLoop nodes fuel count root node) := by
  intro fuel
  induction fuel with
  | zero => intro count root node h1 h2; omega
  | succ fuel ih =>
    intro count root node h1 h2
    unfold rootLoop
    cases hp : node.parent with
    | none => simp
    | some i =>
      dsimp only
      cases hn : nodes[i]? with
      | none => simp
      | some parent =>
        dsimp only
        repeat' split
        all_goals first | (simp; done) | (apply ih <;> omega)

@[simp] theorem finish_safe (st : PState) : Safe (finish st) := by
  unfold finish
  repeat' split
  all_goals first
    | (simp; done)
    | (apply safe_bind
       · exact rootLoop_safe _ _ _ _ _ (Nat.zero_le _) (Nat.le_refl _)
       · intro _; simp)

/-- **Main theorem.** For every token list the model of `parse` returns `ok` or `err`: no modelled panic site
    (`end -= 1`, `&tokens[start..end]`) is reachable and both parent walks are stopped by the Rust
    `count > nodes.len()` cap (or earlier) before the model's fuel `nodes.size + 1` is used up. -/
theorem parse_safe (tokens : List PToken) : Safe (parse tokens) := by
  unfold parse
  safe_auto

theorem parse_ne_panic (tokens : List PToken) (site : String) : parse tokens ≠ .panic site :=
  (parse_safe tokens).ne_panic site

theorem parse_ne_fuelOut (tokens : List PToken) : parse tokens ≠ .fuelOut :=
  (parse_safe tokens).ne_fuelOut

end Garnish.Model.Parser
