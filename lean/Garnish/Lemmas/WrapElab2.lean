/-
Parentheses and the elaboration (2): redundant parentheses do not change what `go` computes — `go_ungroup`.
-/
import Garnish.Lemmas.WrapElab
namespace Garnish.Abs.Source
open Garnish Garnish.Gen Garnish.Spec Garnish.Abs Garnish.Abs.Tree Garnish.Model.Parser Garnish.Model.Literals

variable {F : Type} (pf : List Char → Option F) (κ : Nat → Nat) (toks : List PToken)

theorem preE_fix (d : Definition) (tx : List Char) (t : RTree) (x : Res F) : preE d tx (fixP t x) = preE d tx x := by
  unfold fixP; split <;> rfl

theorem sufE_fix (d : Definition) (tx : List Char) (t : RTree) (x : Res F) : sufE d tx (fixP t x) = sufE d tx x := by
  unfold fixP; split <;> rfl

/-- the left operand in redundant parentheses -/
theorem binE_plain_left (d : Definition) (tx : List Char) (lIs rIs lC rC rJ : Bool) (a b : Res F)
    (h1 : listD d = true → lIs = false) (h2 : (d == .and || d == .or) = true → lC = false) (h3 : d ≠ .elseJump) :
    binE d tx false rIs false rC rJ (plain a.e a.bodies) b = binE d tx lIs rIs lC rC rJ a b := by
  unfold binE
  simp only [plain]
  split
  · rfl
  · split <;> first
      | rfl
      | (have := h1 (by simp [listD]); subst this; rfl)
      | (have := h2 (by simp); subst this; rfl)
      | exact absurd rfl h3

/-- the right operand in redundant parentheses -/
theorem binE_plain_right (d : Definition) (tx : List Char) (lIs rIs lC rC rJ : Bool) (a b : Res F)
    (h1 : listD d = true → rIs = false) (h2 : d = .elseJump → rC = false ∧ rJ = false) :
    binE d tx lIs false lC false false a (plain b.e b.bodies) = binE d tx lIs rIs lC rC rJ a b := by
  unfold binE
  simp only [plain]
  split
  · rfl
  · split <;> first
      | rfl
      | (have := h1 (by simp [listD]); subst this; rfl)
      | (obtain ⟨e1, e2⟩ := h2 rfl; subst e1; subst e2; rfl)

theorem go_grp (d : Definition) (k : Nat) (i : RTree) :
    go pf κ toks (.group d k i) =
      if d == .group then (go pf κ toks i).bind (fun x => some (plain x.e x.bodies))
      else if d == .nestedExpression then
        (if i.isNil then some (plain .emptyNested [])
         else (go pf κ toks i).bind (fun x => some (plain (.nested (κ k)) ((κ k, x.e) :: x.bodies))))
      else none := by
  cases i with
  | nil =>
    rw [go.eq_2]
    simp only [go.eq_1, RTree.isNil, if_true, Option.bind]
  | node l d' k' r =>
    rw [go.eq_3 _ _ _ _ _ _ (by simp)]
    simp only [RTree.isNil, Bool.false_eq_true, if_false]
    cases go pf κ toks (.node l d' k' r) <;> rfl
  | group d' k' i' =>
    rw [go.eq_3 _ _ _ _ _ _ (by simp)]
    simp only [RTree.isNil, Bool.false_eq_true, if_false]
    cases go pf κ toks (.group d' k' i') <;> rfl

theorem isNil_iff (t : RTree) : t.isNil = true ↔ t = .nil := by cases t <;> simp [RTree.isNil]

theorem paren_ne_nil {t : RTree} (h : paren t = true) : t ≠ .nil := by intro e; subst e; cases h

/-- the flags `go` passes to `binE`, with and without the parentheses of the operand -/
theorem flags_left (d : Definition) (l : RTree) (hd : d ≠ .group) (hp : paren l = true) :
    rootIs l d = false ∧ rootCond l = false := ⟨paren_rootIs hp d hd, paren_rootCond hp⟩

theorem map_fix_node (l : RTree) (d : Definition) (k : Nat) (r : RTree) (o : Option (Res F)) :
    o.map (fixP (.node l d k r)) = o := by cases o <;> rfl

/-- **redundant parentheses do not change what `go` computes** (up to the reset of items / arms at a `( )` root) -/
theorem go_ungroup : ∀ (t : RTree), safe t = true →
    go pf κ toks t = (go pf κ toks (ungroup t)).map (fixP t)
  | .nil, _ => by simp [ungroup, go.eq_1]
  | .group d k i, hs => by
    simp only [safe, Bool.and_eq_true] at hs
    have ih := go_ungroup i hs.1
    have hnil := ungroup_nil_iff i hs.1
    rw [go_grp]
    by_cases hd : (d == .group) = true
    · have hfg : ∀ x : Res F, fixP (.group d k i) x = plain x.e x.bodies := fun x => by simp [fixP, paren, hd]
      simp only [hd, if_true, ungroup, ih]
      cases go pf κ toks (ungroup i) with
      | none => rfl
      | some x => simp only [Option.map_some, Option.bind_some, fixP_e, fixP_bodies, hfg]
    · have hd' : (d == .group) = false := by simpa using hd
      simp only [hd', Bool.false_eq_true, if_false, ungroup]
      rw [go_grp]
      simp only [hd', Bool.false_eq_true, if_false]
      have hf : ∀ x : Res F, fixP (.group d k i) x = x := fun x => by simp [fixP, paren, hd']
      by_cases hn : (d == .nestedExpression) = true
      · simp only [hn, if_true]
        have e : i.isNil = (ungroup i).isNil := by
          cases h1 : i.isNil <;> cases h2 : (ungroup i).isNil <;> try rfl
          · exact absurd (hnil.mp ((isNil_iff _).mp h2)) (fun e => by rw [e] at h1; cases h1)
          · have := (isNil_iff _).mp h1; subst this; cases h2
        rw [← e]
        cases hi : i.isNil
        · simp only [Bool.false_eq_true, if_false, ih]
          cases go pf κ toks (ungroup i) with
          | none => rfl
          | some x => simp [fixP_e, fixP_bodies, hf]
        · simp [hf]
      · have hn' : (d == .nestedExpression) = false := by simpa using hn
        simp [hn']
  | .node l d k r, hs => by
    simp only [safe, Bool.and_eq_true] at hs
    obtain ⟨⟨⟨hsl, hsr⟩, hL⟩, hR⟩ := hs
    have ihl := go_ungroup l hsl
    have ihr := go_ungroup r hsr
    have hnl := ungroup_nil_iff l hsl
    have hnr := ungroup_nil_iff r hsr
    have hf : ∀ x : Res F, fixP (.node l d k r) x = x := fun x => rfl
    simp only [ungroup]
    by_cases hl : l = .nil
    · subst hl
      simp only [ungroup] at hR ⊢
      by_cases hr : r = .nil
      · subst hr
        simp only [ungroup]
        exact (map_fix_node _ _ _ _ _).symm
      · have hur : ungroup r ≠ .nil := fun e => hr (hnr.mp e)
        by_cases hside : isSideNode r = true
        · -- `v [ body ]`
          have hpr : paren r = false := by
            cases hp : paren r
            · rfl
            · rw [paren_isSideNode hp] at hside; cases hside
          cases r with
          | nil => exact absurd rfl hr
          | group _ _ _ => cases hside
          | node rl d2 k2 body =>
            cases rl with
            | node _ _ _ _ => cases hside
            | group _ _ _ => cases hside
            | nil =>
              simp only [isSideNode, beq_iff_eq] at hside
              subst hside
              simp only [safe, Bool.and_eq_true] at hsr
              have ihb := go_ungroup body hsr.1.1.2
              simp only [ungroup, go_side, ihb]
              cases leafE pf d (textAt toks k) with
              | none => rfl
              | some e =>
                cases go pf κ toks (ungroup body) with
                | none => rfl
                | some x =>
                  simp only [Option.map_some, Option.bind_some, fixP_e, fixP_bodies]
                  rfl
        · have hside' : isSideNode r = false := by simpa using hside
          have hus : isSideNode (ungroup r) = false := by
            cases hp : paren r
            · rw [isSideNode_ungroup r hsr hp]; exact hside'
            · simp only [rightSafe, hp, Bool.not_true, Bool.false_or, Bool.and_eq_true, Bool.not_eq_true'] at hR
              simpa [ungroup, RTree.isNil] using hR.2
          rw [go_pre _ _ _ _ _ _ hr hside', go_pre _ _ _ _ _ _ hur hus, ihr]
          cases go pf κ toks (ungroup r) with
          | none => rfl
          | some x =>
            simp only [Option.map_some, Option.bind_some, preE_fix]
            exact (map_fix_node _ _ _ _ _).symm
    · have hul : ungroup l ≠ .nil := fun e => hl (hnl.mp e)
      by_cases hr : r = .nil
      · subst hr
        simp only [ungroup]
        rw [go_suf _ _ _ _ _ _ hl, go_suf _ _ _ _ _ _ hul, ihl]
        cases go pf κ toks (ungroup l) with
        | none => rfl
        | some x =>
          simp only [Option.map_some, Option.bind_some, sufE_fix]
          exact (map_fix_node _ _ _ _ _).symm
      · have hur : ungroup r ≠ .nil := fun e => hr (hnr.mp e)
        rw [go_bin _ _ _ _ _ _ _ hl hr, go_bin _ _ _ _ _ _ _ hul hur, ihl, ihr]
        cases go pf κ toks (ungroup l) with
        | none => rfl
        | some a =>
          cases go pf κ toks (ungroup r) with
          | none => rfl
          | some b =>
            simp only [Option.map_some, Option.bind_some]
            have key : binE d (textAt toks k) (rootIs l d) (rootIs r d) (rootCond l) (rootCond r) (isJumpIf r) (fixP l a) (fixP r b) =
                binE d (textAt toks k) (rootIs (ungroup l) d) (rootIs (ungroup r) d) (rootCond (ungroup l)) (rootCond (ungroup r))
                  (isJumpIf (ungroup r)) a b := by
              by_cases hdg : d = .group
              · subst hdg; unfold binE; rfl
              · -- first the right operand, then the left one
                have step1 : binE d (textAt toks k) (rootIs l d) (rootIs r d) (rootCond l) (rootCond r) (isJumpIf r) (fixP l a) (fixP r b) =
                    binE d (textAt toks k) (rootIs l d) (rootIs (ungroup r) d) (rootCond l) (rootCond (ungroup r))
                      (isJumpIf (ungroup r)) (fixP l a) b := by
                  cases hp : paren r
                  · simp only [fixP, hp, Bool.false_eq_true, if_false, rootIs_ungroup r d hp, rootCond_ungroup r hp,
                      isJumpIf_ungroup r hp]
                  · simp only [rightSafe, hp, Bool.not_true, Bool.false_or, Bool.and_eq_true, Bool.not_eq_true',
                      Bool.and_eq_false_iff] at hR
                    simp only [fixP, hp, if_true, paren_rootIs hp d hdg, paren_rootCond hp, paren_isJumpIf hp]
                    refine binE_plain_right d _ _ _ _ _ _ _ _ (fun hld => ?_) (fun hde => ?_)
                    · rcases hR.1.1 with h | h
                      · rw [hld] at h; cases h
                      · exact h
                    · subst hde
                      rcases hR.1.2 with h | h
                      · cases h
                      · refine ⟨h, ?_⟩
                        simp only [rootCond] at h
                        simp only [isJumpIf, rootIs]
                        cases hrd : rootDef (ungroup r) with
                        | none => rfl
                        | some d' =>
                          rw [hrd] at h
                          simp only at h
                          cases d' <;> simp_all [condDef]
                rw [step1]
                cases hp : paren l
                · simp only [fixP, hp, Bool.false_eq_true, if_false, rootIs_ungroup l d hp, rootCond_ungroup l hp]
                · simp only [leftSafe, hp, Bool.not_true, Bool.false_or, Bool.and_eq_true, Bool.not_eq_true',
                    Bool.and_eq_false_iff, bne_iff_ne] at hL
                  simp only [fixP, hp, if_true, paren_rootIs hp d hdg, paren_rootCond hp]
                  refine binE_plain_left d _ _ _ _ _ _ _ _ (fun hld => ?_) (fun hao => ?_) hL.2
                  · rcases hL.1.1 with h | h
                    · rw [hld] at h; cases h
                    · exact h
                  · rcases hL.1.2 with h | h
                    · rw [hao] at h; cases h
                    · exact h
            rw [key]
            exact (map_fix_node _ _ _ _ _).symm

end Garnish.Abs.Source
