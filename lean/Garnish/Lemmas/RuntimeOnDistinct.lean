/-
The `Access` and `Resolve` step lemmas of the relativised refinement chain (Lemmas/RuntimeOnAccess3.lean,
RuntimeOnResolve.lean, RuntimeOnStep6.lean) with the look-up hypothesis `(… ≠ .list _) ∨ ListSymOn S Inv` replaced by
"the list looked into has distinct keys" + `ListSymDistinctOn S Inv` (Lemmas/SimpleListSym3.lean) — the form that can
be discharged for SimpleGarnishData.  Produced from those files by substitution; the proofs are unchanged but for the
one call of `getAccessAddr_spec`.
-/
import Garnish.Lemmas.RuntimeOnG4
import Garnish.Lemmas.SimpleListSym3
set_option linter.unusedSimpArgs false
set_option linter.unusedVariables false
namespace Garnish.Lemmas.Runtime.On
open Garnish Gen Garnish.Abs Garnish.Model.Equality Garnish.Model.Runtime Garnish.Lemmas.Runtime
open Garnish.Props.RuntimeRefine Garnish.Lemmas.Runtime.SimpleSym

variable {F σ : Type} {S : RStore F σ} {Inv : σ → Prop} {Rd : σ → Nat → Prop} {P : Prog F} {host : Host F}
  (fo : FloatOps F)

/-- `access` refines Abs/Ops `access` -/
theorem access_spec_d (L : StoreLawsOn S Inv Rd) (LS : ListSymDistinctOn S Inv) (fuel : Nat) {s : σ} {r l : Nat} {vr vl : Val F} {rest : List Nat}
    (hregs : S.regs s = r :: l :: rest) (hl : Decodes (S.view s) l vl) (hr : Decodes (S.view s) r vr)
    (hd : accessArm vl.typeOf vr.typeOf = .get → AccessDomain vl ∧ accessFuel vl ≤ fuel ∧
      ∀ n, vr = .num n → (∃ i, n = .int i) ∧ RangeOrdered fo n vl)
    (hx : accessArm vl.typeOf vr.typeOf = .get → ncConcat vl ∧
      (∀ y, vr = .sym y → ∀ vs, vl = .list vs → DistinctKeys vs) ∧ ∀ v, getAccess fo vr vl = .some v → v ≠ .custom)
    (hmg : accessArm vl.typeOf vr.typeOf = .merge → (∀ n, vl ≠ .num n) ∧ (∀ n, vr ≠ .num n))
    (hinv : Inv s := by inv_tac) (hdp : Deep S s rest := by deep_tac) :
    RefinesOutI S Inv s (Model.Runtime.access fo S fuel s) none rest l r (Abs.access fo vl vr) := by
  obtain ⟨s1, h1, e1⟩ := nextRef_cons L hregs
  obtain ⟨s0, h2, e2⟩ := nextRef_cons L e1.regs
  rw [e1.vals] at e2
  have e0 := e1.trans e2
  have hl0 := e0.dec hl
  have hr0 := e0.dec hr
  rw [Model.Runtime.access, bind_ok h1, bind_ok h2, bind_ok (getDataType_of hl0), bind_ok (getDataType_of hr0),
    accessMatch_arm, access_arm]
  cases harm : accessArm vl.typeOf vr.typeOf with
  | defer =>
    simp only []
    exact ⟨s0, e0, deferOrUnit_spec L s0 .access _ _ none⟩
  | merge =>
    simp only []
    obtain ⟨v, hv⟩ := merge_arm_some harm
    rw [hv]
    obtain ⟨x, s2, h3, d3, e3⟩ := adds_i (L.mergeSome l r vl vr v s0 e0.inv hl0 hr0 hv (hmg harm).1 (hmg harm).2)
    have hvc : v ≠ .custom := by
      intro hc; subst hc
      cases vl <;> cases vr <;> simp [mergeSymList] at hv
    obtain ⟨s3, h4, e4⟩ := pushReg L d3 hvc
    rw [e3.regs, e3.vals, e0.regs, e0.vals] at e4
    exact ⟨x, s3, by rw [bind_apply, bind_ok h3, h4]; rfl, e4.dec d3, (e0.trans e3).trans e4⟩
  | get =>
    simp only []
    obtain ⟨hdom, hfu, hkey⟩ := hd harm
    obtain ⟨hnc, hls, hres⟩ := hx harm
    have ha := getAccessAddr_spec_distinct fo L LS fuel hr0 hl0 hdom hkey hfu hnc hls
    have hne := getAccess_ne_unsupportedErr fo (key := vr) hdom
    rw [bind_apply, accessGet]
    cases hga : getAccess fo vr vl with
    | some v =>
      rw [hga] at ha
      obtain ⟨x, s2, h3, d3, e3⟩ := ha
      obtain ⟨s3, h4, e4⟩ := pushReg L d3 (hres v hga)
      rw [e3.regs, e3.vals, e0.regs, e0.vals] at e4
      simp only [h3, h4]
      exact ⟨x, s3, rfl, e4.dec d3, (e0.trans e3).trans e4⟩
    | none =>
      rw [hga] at ha
      obtain ⟨s2, h3, e3⟩ := ha
      obtain ⟨x, s3, h4, d4, e4⟩ := pushUnit_spec L s2
      rw [e3.regs, e3.vals, e0.regs, e0.vals] at e4
      simp only [h3, h4]
      exact ⟨x, s3, rfl, d4, (e0.trans e3).trans e4⟩
    | unsupported =>
      rw [hga] at ha
      simp only [AccOutI] at ha
      simp only [ha, beq_self_eq_true, if_true]
      refine ⟨s0, e0, ?_⟩
      rw [bind_ok (getDataType_of hl0), bind_ok (getDataType_of hr0)]
      exact deferOrUnit_spec L s0 .access _ _ none
    | err e =>
      rw [hga] at ha hne
      simp only [AccOutI] at ha
      have : (e == ErrClass.unsupported) = false := by
        cases e <;> first | rfl | exact absurd rfl hne
      simp only [ha, this, Bool.false_eq_true, if_false]
      rfl

/-- `resolve` (C17): the key is looked up in the current input value first (`get_access_addr`, Abs/Ops
`getAccess`). Found ↦ the value's address is pushed and the host is NOT asked. Not found, or the input value
cannot be looked into with this kind of key ↦ the context: a symbol key is offered to the host exactly once with
that symbol (`ResolveProtocol`), unit is pushed iff it declines; any other key gives unit without a host call.
Another error of the lookup is the instruction's error. -/
theorem C17_refine_resolve_d (L : StoreLawsOn S Inv Rd) (LS : ListSymDistinctOn S Inv) (fuel : Nat) {s : σ} {data c : Nat} {vs : List Nat} {key cur : Val F}
    (hv : S.vals s = c :: vs) (hk : Decodes (S.view s) data key) (hc : Decodes (S.view s) c cur)
    (hd : AccessDomain cur) (hkey : ∀ n, key = .num n → (∃ i, n = .int i) ∧ RangeOrdered fo n cur)
    (hf : accessFuel cur ≤ fuel) (hnc : ncConcat cur)
    (hls : ∀ y, key = .sym y → ∀ vs, cur = .list vs → DistinctKeys vs)
    (hres : ∀ v, getAccess fo key cur = .some v → v ≠ .custom)
    (hinv : Inv s := by inv_tac) (hdp : Deep S s (S.regs s) := by deep_tac) :
    match getAccess fo key cur with
    | .some v => PushedI S Inv s (Model.Runtime.resolve fo S fuel data s) none (S.regs s) v
    | .none => ResolveContextI S Inv s (Model.Runtime.resolve fo S fuel data s) none key
    | .unsupported => ResolveContextI S Inv s (Model.Runtime.resolve fo S fuel data s) none key
    | .err e => e ≠ .unsupported → Model.Runtime.resolve fo S fuel data s = .err e := by
  have hg : getCurrentValue S s = .ok (some c, s) := by
    show Outcome.ok ((S.vals s).head?, s) = _
    rw [hv]; rfl
  have ha := getAccessAddr_spec_distinct fo L LS fuel hk hc hd hkey hf hnc hls
  rw [Model.Runtime.resolve, bind_ok hg]
  simp only []
  cases hga : getAccess fo key cur with
  | some v =>
    rw [hga] at ha
    obtain ⟨x, s1, h1, d1, e1⟩ := ha
    obtain ⟨s2, h2, e2⟩ := pushReg L d1 (hres v hga)
    rw [e1.regs, e1.vals] at e2
    simp only [h1]
    exact ⟨x, s2, by rw [bind_ok h2]; rfl, e2.dec d1, e1.trans e2⟩
  | none =>
    rw [hga] at ha
    obtain ⟨s1, h1, e1⟩ := ha
    simp only [h1]
    exact resolveContext_spec L e1 (e1.dec hk)
  | unsupported =>
    rw [hga] at ha
    simp only [AccOutI] at ha
    simp only [ha, beq_self_eq_true, if_true]
    exact resolveContext_spec L (EffI.refl s (by inv_tac)) hk
  | err e =>
    rw [hga] at ha
    simp only [AccOutI] at ha
    intro hne
    have : (e == ErrClass.unsupported) = false := by simpa using hne
    simp only [ha, this, Bool.false_eq_true, if_false]



/-- `Access` -/
theorem stepSim_access_d (L : StoreLawsOn S Inv Rd) (LS : ListSymDistinctOn S Inv) (HR : HostRefinesI S Inv host) (fuel : Nat) (H : OtherHandlers σ)
    {s : σ} {m : MState F} (hsim : Sim S P s m) {operand : Option Nat}
    (hfetch : P.instrs[m.pc]? = some (.access, operand)) {vr vl : Val F} {rs : List (Val F)}
    (hregs : m.regs = vr :: vl :: rs) (hi : Inv s) (hm : MDeep m rs)
    (hd : accessArm vl.typeOf vr.typeOf = .get → AccessDomain vl ∧ accessFuel vl ≤ fuel ∧
      ∀ n, vr = .num n → (∃ i, n = .int i) ∧ RangeOrdered fo n vl)
    (hx : accessArm vl.typeOf vr.typeOf = .get → ncConcat vl ∧
      (∀ y, vr = .sym y → ∀ vs, vl = .list vs → DistinctKeys vs) ∧ ∀ v, getAccess fo vr vl = .some v → v ≠ .custom)
    (hmg : accessArm vl.typeOf vr.typeOf = .merge → (∀ n, vl ≠ .num n) ∧ (∀ n, vr ≠ .num n)) :
    StepSimOn fo host S Inv P fuel H s m :=
  stepSim_binary fo L HR fuel H hsim hfetch rfl hregs (o := Abs.access fo vl vr) rfl rfl
    (fun r l rest hr hdp dl dr => access_spec_d fo L LS fuel hr dl dr hd hx hmg) (fun op' a b h => access_defer fo h) hi hm


/-- `Resolve k` -/
theorem stepSim_resolve_d (L : StoreLawsOn S Inv Rd) (LS : ListSymDistinctOn S Inv) (HR : HostRefinesI S Inv host) (fuel : Nat) (H : OtherHandlers σ)
    {s : σ} {m : MState F} (hsim : Sim S P s m) {k : Nat} {key : Val F}
    (hfetch : P.instrs[m.pc]? = some (.resolve, some k)) (hc : P.consts[k]? = some key)
    (hdk : Decodes (S.view s) k key)
    (hdom : ∀ cur vs, m.vals = cur :: vs → AccessDomain cur ∧ accessFuel cur ≤ fuel ∧
      ∀ n, key = .num n → (∃ i, n = .int i) ∧ RangeOrdered fo n cur)
    (hx : ∀ cur vs, m.vals = cur :: vs → ncConcat cur ∧
      (∀ y, key = .sym y → ∀ vs, cur = .list vs → DistinctKeys vs) ∧ ∀ v, getAccess fo key cur = .some v → v ≠ .custom)
    (hinv : Inv s) (hm : MDeepN m 0) :
    StepSimOn fo host S Inv P fuel H s m := by
  have hdp : Deep S s (S.regs s) := deep_of_sim hsim.2 hsim.2.regs (fun fr frs hf => by have := hm fr frs hf; omega)
  have hstep : Abs.step fo host P m = finish P (seqR m (resolveStep fo host m key)) := by
    unfold Abs.step; rw [hfetch]; simp only [hc, seqNext_eq]
  refine stepSim_of fo L fuel H hsim hfetch hstep ?_
  show HandlerSimOn S Inv P s (Model.Runtime.resolve fo S fuel k s) _
  -- from a `ResolvedTo` and a related final state to the handler simulation
  have close : ∀ (v : Val F) (s1 : σ), ResolvedTo m (resolveStep fo host m key) v →
      Model.Runtime.resolve fo S fuel k s = .ok (none, s1) → S.cursor s1 = S.cursor s →
      SimD S P s1 (v :: m.regs) m.vals m.frames → DecKept S s s1 → Inv s1 →
      HandlerSimOn S Inv P s (Model.Runtime.resolve fo S fuel k s) (seqR m (resolveStep fo host m key)) := by
    intro v s1 ⟨md, hmd, hr, hv, hf⟩ h1 hc1 hd1 hk1 hi1
    rw [hmd]
    exact ⟨none, s1, h1, by simp [hsim.1], hc1, by rw [hr, hv, hf]; exact hd1, hk1, hi1⟩
  have hvals := hsim.2.vals
  cases hmv : m.vals with
  | nil =>
    rw [hmv] at hvals
    have hsv : S.vals s = [] := by
      generalize S.vals s = sv at hvals
      cases hvals; rfl
    obtain ⟨s1, h1, hc1, hd1, hk1, hi1⟩ := handlerSim_resolveContext HR hsim (C17_refine_resolve_no_input fo L fuel hsv hdk)
    exact close _ s1 (resolveStep_context fo m key (by rw [hmv]; trivial)) h1 hc1 hd1 hk1 hi1
  | cons cur vs =>
    rw [hmv] at hvals
    obtain ⟨c, cs, hsv, dc, _⟩ := decodesList_cons_inv hvals
    obtain ⟨hd1, hfu, hkey⟩ := hdom cur vs hmv
    obtain ⟨hnc, hls, hres⟩ := hx cur vs hmv
    have h := C17_refine_resolve_d fo L LS fuel hsv hdk dc hd1 hkey hfu hnc hls hres
    cases hga : getAccess fo key cur with
    | some v =>
      rw [hga] at h
      obtain ⟨a, s1, h1, d1, e1⟩ := h
      exact close v s1 (resolveStep_found fo m key cur v vs hmv hga) h1 e1.keeps.cur
        (SimD.ofEff hsim.2 e1.toEff (.cons d1 (Sim.tail e1 hsim.2.regs)) (Sim.tail e1 hsim.2.vals)) e1.keeps.dec e1.inv
    | none =>
      rw [hga] at h
      obtain ⟨s1, h1, hc1, hd1', hk1, hi1⟩ := handlerSim_resolveContext HR hsim h
      exact close _ s1 (resolveStep_context fo m key (by rw [hmv]; exact Or.inl hga)) h1 hc1 hd1' hk1 hi1
    | unsupported =>
      rw [hga] at h
      obtain ⟨s1, h1, hc1, hd1', hk1, hi1⟩ := handlerSim_resolveContext HR hsim h
      exact close _ s1 (resolveStep_context fo m key (by rw [hmv]; exact Or.inr hga)) h1 hc1 hd1' hk1 hi1
    | err e =>
      -- the machine errs (inside the domain never with the "not modelled" marker): nothing to show
      have hne := getAccess_ne_unsupportedErr fo (key := key) hd1
      rw [hga] at hne
      have : resolveStep fo host m key = .error e := by
        unfold resolveStep
        simp only [hmv, hga]
        cases e <;> first | rfl | exact absurd rfl hne
      rw [this]; trivial


end Garnish.Lemmas.Runtime.On
