/-
C18, wrapping an operand, case 2: `mid = ( inner )` with balanced `inner` (double parentheses).  A balanced segment is
processed without looking at the stack below it and returns to the frame it started in (`run_balanced`); hence the run over
`( inner )` is one operand step, and `WrapOK` holds (`wrapOK_group`).
-/
import Garnish.Lemmas.RefWrap3b

namespace Garnish.Spec
open Garnish Garnish.Gen Garnish.Model.Parser

def secOf (t : PToken) : SecDef := (getDefinition t.type).2

/-- brackets balanced, starting at depth `d` -/
def balancedFrom : Nat → List PToken → Bool
  | d, [] => d == 0
  | d, t :: r =>
    if secOf t == .startGrouping then balancedFrom (d + 1) r
    else if secOf t == .endGrouping then d != 0 && balancedFrom (d - 1) r
    else balancedFrom d r

theorem beforeOperand_ctx {f g : Frame} {pos : Nat} (h : beforeOperand Table.gen f pos = .ok g) : g.ctx = f.ctx := by
  unfold beforeOperand at h
  split at h
  all_goals first
    | (cases h; rfl)
    | cases h
    | skip
  split at h
  · cases hq : Table.gen.prio .list with
    | none => rw [hq] at h; cases h
    | some q => rw [hq] at h; cases h; rfl
  · cases h

/-- a token that is not a closer: the stack below is not looked at -/
theorem refStep_noclose {t : PToken} (ht : secOf t ≠ .endGrouping) (f : Frame) (X : List Frame) (pos : Nat)
    (rest : List PToken) :
    refStep Table.gen f X pos t rest = (refStep Table.gen f [] pos t rest).mapT (fun p => (p.1, p.2 ++ X)) := by
  unfold secOf at ht
  unfold refStep
  have hd : Table.gen.define t.type = getDefinition t.type := rfl
  rw [hd]
  generalize getDefinition t.type = ds at ht
  obtain ⟨d, s⟩ := ds
  simp only at ht
  cases s with
  | endGrouping => exact absurd rfl ht
  | value | identifier =>
    simp only
    split
    · rfl
    · cases beforeOperand Table.gen f pos <;> rfl
  | unaryPrefix => simp only; cases beforeOperand Table.gen f pos <;> rfl
  | startGrouping => simp only; cases beforeOperand Table.gen f pos <;> rfl
  | binaryLeftToRight | binaryRightToLeft | optionalBinaryLeftToRight | unarySuffix =>
    simp only
    cases Table.gen.prio d with
    | none => rfl
    | some q => simp only; split <;> rfl
  | subexpression =>
    simp only
    split
    · rfl
    · split
      · rfl
      · split
        · rfl
        · cases Table.gen.prio d <;> rfl
  | _ => rfl

/-- … and what it does to the stack and the bracket of the frame -/
theorem refStep_noclose_shape {t : PToken} (ht : secOf t ≠ .endGrouping) {f f' : Frame} {Y : List Frame} {pos : Nat}
    {rest : List PToken} (h : refStep Table.gen f [] pos t rest = .ok (f', Y)) :
    (secOf t = .startGrouping ∧ ∃ g1, Y = [g1] ∧ g1.ctx = f.ctx) ∨ (secOf t ≠ .startGrouping ∧ Y = [] ∧ f'.ctx = f.ctx) := by
  unfold secOf at ht ⊢
  unfold refStep at h
  have hd : Table.gen.define t.type = getDefinition t.type := rfl
  rw [hd] at h
  generalize getDefinition t.type = ds at ht h ⊢
  obtain ⟨d, s⟩ := ds
  simp only at ht h ⊢
  cases s with
  | endGrouping => exact absurd rfl ht
  | none => cases h
  | startSideEffect => cases h
  | endSideEffect => cases h
  | annotation => cases h; exact Or.inr ⟨by simp, rfl, rfl⟩
  | whitespace => cases h; exact Or.inr ⟨by simp, rfl, rfl⟩
  | value | identifier =>
    simp only at h
    split at h
    · cases h
    · cases hb : beforeOperand Table.gen f pos with
      | ok g => have hcg := beforeOperand_ctx hb; rw [hb] at h; simp only [Outcome.bind] at h; cases h; exact Or.inr ⟨by simp, rfl, hcg⟩
      | err _ => rw [hb] at h; cases h
      | panic _ => rw [hb] at h; cases h
      | fuelOut => rw [hb] at h; cases h
  | unaryPrefix =>
    simp only at h
    cases hb : beforeOperand Table.gen f pos with
    | ok g => have hcg := beforeOperand_ctx hb; rw [hb] at h; simp only [Outcome.bind] at h; cases h; exact Or.inr ⟨by simp, rfl, hcg⟩
    | err _ => rw [hb] at h; cases h
    | panic _ => rw [hb] at h; cases h
    | fuelOut => rw [hb] at h; cases h
  | startGrouping =>
    simp only at h
    cases hb : beforeOperand Table.gen f pos with
    | ok g => have hcg := beforeOperand_ctx hb; rw [hb] at h; simp only [Outcome.bind] at h; cases h; exact Or.inl ⟨rfl, _, rfl, hcg⟩
    | err _ => rw [hb] at h; cases h
    | panic _ => rw [hb] at h; cases h
    | fuelOut => rw [hb] at h; cases h
  | binaryLeftToRight | binaryRightToLeft | optionalBinaryLeftToRight | unarySuffix =>
    simp only at h
    cases hq : Table.gen.prio d with
    | none => rw [hq] at h; cases h
    | some q =>
      rw [hq] at h; simp only at h
      split at h
      · cases h
      · cases h; exact Or.inr ⟨by simp, rfl, rfl⟩
  | subexpression =>
    simp only at h
    split at h
    · cases h; exact Or.inr ⟨by simp, rfl, rfl⟩
    · split at h
      · cases h; exact Or.inr ⟨by simp, rfl, rfl⟩
      · split at h
        · cases h
        · cases hq : Table.gen.prio d with
          | none => rw [hq] at h; cases h
          | some q => rw [hq] at h; cases h; exact Or.inr ⟨by simp, rfl, rfl⟩

/-- a closer: only the top of the stack is looked at -/
theorem refStep_closer {t : PToken} (ht : secOf t = .endGrouping) {f f' : Frame} {parent : Frame} {X S' : List Frame}
    {pos : Nat} {rest : List PToken} (h : refStep Table.gen f (parent :: X) pos t rest = .ok (f', S')) :
    S' = X ∧ f'.ctx = parent.ctx ∧ ∀ X', refStep Table.gen f (parent :: X') pos t rest = .ok (f', X') := by
  unfold secOf at ht
  unfold refStep at h ⊢
  have hd : Table.gen.define t.type = getDefinition t.type := rfl
  rw [hd] at h ⊢
  generalize getDefinition t.type = ds at ht h ⊢
  obtain ⟨d, s⟩ := ds
  simp only at ht
  subst ht
  simp only at h ⊢
  cases hctx : f.ctx with
  | none => rw [hctx] at h; cases h
  | some gp =>
    obtain ⟨gd, gpos⟩ := gp
    rw [hctx] at h
    simp only at h ⊢
    split at h
    · cases h
    · split at h
      · cases h
      · rename_i h1 h2
        cases h
        refine ⟨rfl, rfl, fun X' => ?_⟩
        rw [if_neg h1, if_neg h2]

def bottomCtx (g : Frame) (S : List Frame) : Option (Definition × Nat) :=
  match S.getLast? with
  | none => g.ctx
  | some b => b.ctx

theorem bottomCtx_cons (f g a : Frame) (S : List Frame) (h : S = [] → a.ctx = g.ctx) :
    bottomCtx f (a :: S) = bottomCtx g S := by
  cases S with
  | nil => simp [bottomCtx, h rfl]
  | cons x xs =>
    simp only [bottomCtx, List.getLast?_cons_cons]
    rw [List.getLast?_eq_some_getLast (List.cons_ne_nil x xs)]

/-- **a balanced segment**: the stack below is not touched, the run is the same without it, and it ends in the frame it
    started in -/
theorem run_balanced (base : List Frame) : ∀ (ts : List PToken) (d : Nat) (g : Frame) (S : List Frame) (pos : Nat)
    (rest : List PToken) (g' : Frame) (S' : List Frame), S.length = d → balancedFrom d ts = true →
    refRun Table.gen g (S ++ base) pos ts rest = .ok (g', S') →
    S' = base ∧ refRun Table.gen g S pos ts rest = .ok (g', []) ∧ g'.ctx = bottomCtx g S
  | [], d, g, S, pos, rest, g', S', hd, hb, h => by
    simp only [balancedFrom, beq_iff_eq] at hb
    subst hb
    have : S = [] := List.eq_nil_of_length_eq_zero hd
    subst this
    simp only [refRun, List.nil_append] at h ⊢
    cases h
    exact ⟨rfl, rfl, rfl⟩
  | t :: ts, d, g, S, pos, rest, g', S', hd, hb, h => by
    simp only [balancedFrom] at hb
    simp only [refRun] at h ⊢
    by_cases hc : secOf t = .endGrouping
    · -- a closer
      have hns : (secOf t == SecDef.startGrouping) = false := by rw [hc]; rfl
      rw [hns, if_neg (by simp), hc, if_pos (by rfl)] at hb
      rw [Bool.and_eq_true] at hb
      obtain ⟨hd0, hb⟩ := hb
      cases S with
      | nil => simp only [List.length_nil] at hd; subst hd; simp at hd0
      | cons parent S0 =>
        simp only [List.cons_append] at h
        cases hs : refStep Table.gen g (parent :: (S0 ++ base)) pos t (ts ++ rest) with
        | ok fs =>
          obtain ⟨f1, S1⟩ := fs
          rw [hs] at h
          simp only [Outcome.bind] at h
          obtain ⟨e1, e2, e3⟩ := refStep_closer hc hs
          subst e1
          have ih := run_balanced base ts (d - 1) f1 S0 (pos + 1) rest g' S' (by rw [List.length_cons] at hd; omega) hb h
          rw [e3 S0]
          simp only [Outcome.bind]
          refine ⟨ih.1, ih.2.1, ?_⟩
          rw [ih.2.2]
          exact (bottomCtx_cons g f1 parent S0 (fun _ => e2.symm)).symm
        | err _ => rw [hs] at h; cases h
        | panic _ => rw [hs] at h; cases h
        | fuelOut => rw [hs] at h; cases h
    · have hce : (secOf t == SecDef.endGrouping) = false := by simpa using hc
      rw [refStep_noclose hc g (S ++ base)] at h
      rw [refStep_noclose hc g S]
      cases hs : refStep Table.gen g [] pos t (ts ++ rest) with
      | ok fs =>
        obtain ⟨f1, Y⟩ := fs
        rw [hs] at h
        simp only [Outcome.mapT, Outcome.bind] at h ⊢
        rcases refStep_noclose_shape hc hs with ⟨hop, g1, hY, hg1⟩ | ⟨hnop, hY, hctx⟩
        · subst hY
          simp only [hop, beq_self_eq_true, if_true] at hb
          have ih := run_balanced base ts (d + 1) f1 (g1 :: S) (pos + 1) rest g' S' (by simp [hd]) hb
            (by simpa using h)
          refine ⟨ih.1, by simpa using ih.2.1, ?_⟩
          rw [ih.2.2]
          exact bottomCtx_cons f1 g g1 S (fun _ => hg1)
        · subst hY
          have hns : (secOf t == SecDef.startGrouping) = false := by simpa using hnop
          simp only [hns, hce, Bool.false_eq_true, if_false] at hb
          have ih := run_balanced base ts d f1 S (pos + 1) rest g' S' hd hb (by simpa using h)
          refine ⟨ih.1, by simpa using ih.2.1, ?_⟩
          rw [ih.2.2]
          unfold bottomCtx
          cases S.getLast? with
          | none => exact hctx
          | some b => rfl
      | err _ => rw [hs] at h; cases h
      | panic _ => rw [hs] at h; cases h
      | fuelOut => rw [hs] at h; cases h

end Garnish.Spec
