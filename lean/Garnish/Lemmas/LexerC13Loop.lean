/-
Helper lemmas for property C13 (Garnish/Props/C13.lean), about the lexer model Garnish.Model.Lexer — part 2: the end-of-input sentinel, the loop, `lex_final`, the Rust tables.
(The C13 lemmas are split over LexerC13Core, LexerC13Loop, LexerC13Blank, LexerC13Tree and LexerC13, each importing
the previous one; importing Garnish.Lemmas.LexerC13 gives all of them.)
-/
import Garnish.Lemmas.LexerC13Core
set_option linter.unusedSimpArgs false
set_option linter.unusedVariables false
namespace Garnish.Model.Lexer

/-! ## the end-of-input sentinel -/

theorem startToken_nul_full (cc : CharClass) (hcc : cc.Sane) (σ : Lexer) (ht : TreeOk σ.operatorTree)
    (hat : σ.atEnd = true) :
    (startToken cc σ '\x00').state = .noToken ∧ (startToken cc σ '\x00').currentCharacters = [] ∧
    (startToken cc σ '\x00').result = σ.result := by
  unfold TreeOk at ht
  generalize hr : startToken cc σ '\x00' = r
  unfold startToken at hr
  simp [currentOperator, push, ht, isAsciiWhitespace, isIdentifierChar, hcc.nulNumeric, hcc.nulAlphanumeric, hat] at hr
  subst hr; exact ⟨rfl, rfl, rfl⟩

/-- how an arm treats the sentinel: it either keeps a non-empty unfinished token or ends the token before it -/
def ArmEnd (σ : Lexer) (p : Lexer × Bool) : Prop :=
  ArmFrame σ p.1 ∧ p.1.state ≠ .noToken ∧
  ((p.2 = false ∧ p.1.currentCharacters ≠ []) ∨
   (p.2 = true ∧ p.1.shouldCreate = true ∧ p.1.currentCharacters = σ.currentCharacters))

theorem nul_not_ws : isAsciiWhitespace '\x00' = false := by decide

macro "end_tac" f:ident hr:ident hcc:ident : tactic =>
  `(tactic| (unfold $f at $hr:ident; (try simp only [] at $hr:ident); (repeat' split at $hr:ident);
             all_goals (subst $hr:ident; simp_all [ArmEnd, push, armFrame_iff, nul_not_ws, isIdentifierChar, isIdentifier,
                          CharClass.Sane.nulNumeric $hcc, CharClass.Sane.nulAlphanumeric $hcc])))

macro "end_tac0" f:ident hr:ident : tactic =>
  `(tactic| (unfold $f at $hr:ident; (try simp only [] at $hr:ident); (repeat' split at $hr:ident);
             all_goals (subst $hr:ident; simp_all [ArmEnd, push, armFrame_iff, nul_not_ws])))

@[simp] theorem pop_append_singleton (s : List Char) (c : Char) : pop (s ++ [c]) = s := by
  simp [pop]

theorem armOperator_end (cc : CharClass) (hcc : cc.Sane) (σ : Lexer) (hs : σ.state = .operator)
    (hc : σ.shouldCreate = true) (hne : σ.currentCharacters ≠ []) : ArmEnd σ (armOperator cc σ '\x00') := by
  generalize hr : armOperator cc σ '\x00' = r
  end_tac armOperator hr hcc
theorem armNumber_end (cc : CharClass) (hcc : cc.Sane) (σ : Lexer) (hs : σ.state = .number)
    (hc : σ.shouldCreate = true) (hne : σ.currentCharacters ≠ []) : ArmEnd σ (armNumber cc σ '\x00') := by
  generalize hr : armNumber cc σ '\x00' = r
  end_tac armNumber hr hcc
theorem armIdentifier_end (cc : CharClass) (hcc : cc.Sane) (σ : Lexer) (hs : σ.state = .identifier)
    (hc : σ.shouldCreate = true) (hne : σ.currentCharacters ≠ []) : ArmEnd σ (armIdentifier cc σ '\x00') := by
  generalize hr : armIdentifier cc σ '\x00' = r
  end_tac armIdentifier hr hcc
theorem armStartCharList_end (σ : Lexer) (hs : σ.state = .startCharList)
    (hc : σ.shouldCreate = true) (hne : σ.currentCharacters ≠ []) (hat : σ.atEnd = true) :
    ArmEnd σ (armStartCharList σ '\x00') := by
  generalize hr : armStartCharList σ '\x00' = r
  end_tac0 armStartCharList hr
theorem armCharList_end (σ : Lexer) (hs : σ.state = .charList)
    (hc : σ.shouldCreate = true) (hne : σ.currentCharacters ≠ []) : ArmEnd σ (armCharList σ '\x00') := by
  generalize hr : armCharList σ '\x00' = r
  end_tac0 armCharList hr
theorem armStartByteList_end (σ : Lexer) (hs : σ.state = .startByteList)
    (hc : σ.shouldCreate = true) (hne : σ.currentCharacters ≠ []) (hat : σ.atEnd = true) :
    ArmEnd σ (armStartByteList σ '\x00') := by
  generalize hr : armStartByteList σ '\x00' = r
  end_tac0 armStartByteList hr
theorem armByteList_end (σ : Lexer) (hs : σ.state = .byteList)
    (hc : σ.shouldCreate = true) (hne : σ.currentCharacters ≠ []) : ArmEnd σ (armByteList σ '\x00') := by
  generalize hr : armByteList σ '\x00' = r
  end_tac0 armByteList hr
theorem armSpaces_end (σ : Lexer) (hs : σ.state = .spaces)
    (hc : σ.shouldCreate = true) (hne : σ.currentCharacters ≠ []) : ArmEnd σ (armSpaces σ '\x00') := by
  generalize hr : armSpaces σ '\x00' = r
  end_tac0 armSpaces hr
theorem armSubexpression_end (σ : Lexer) (hs : σ.state = .subexpression)
    (hc : σ.shouldCreate = true) (hne : σ.currentCharacters ≠ []) : ArmEnd σ (armSubexpression σ '\x00') := by
  generalize hr : armSubexpression σ '\x00' = r
  end_tac0 armSubexpression hr
theorem armAnnotation_end (cc : CharClass) (hcc : cc.Sane) (σ : Lexer) (hs : σ.state = .annotation)
    (hc : σ.shouldCreate = true) (hne : σ.currentCharacters ≠ []) : ArmEnd σ (armAnnotation cc σ '\x00') := by
  generalize hr : armAnnotation cc σ '\x00' = r
  end_tac armAnnotation hr hcc
theorem armLineAnnotation_end (σ : Lexer) (hs : σ.state = .lineAnnotation)
    (hc : σ.shouldCreate = true) (hne : σ.currentCharacters ≠ []) (hat : σ.atEnd = true) :
    ArmEnd σ (armLineAnnotation σ '\x00') := by
  generalize hr : armLineAnnotation σ '\x00' = r
  end_tac0 armLineAnnotation hr

theorem armFloat_end (cc : CharClass) (hcc : cc.Sane) (σ : Lexer) (hs : σ.state = .float)
    (hc : σ.shouldCreate = true) :
    ∃ σ1 sn, armFloat cc σ '\x00' = .ok (.cont σ1 none sn) ∧ ArmEnd σ (σ1, sn) := by
  unfold armFloat
  have h1 : (cc.isNumeric '\x00' || '\x00' == '_' || cc.isAlphanumeric '\x00') = false := by
    simp [hcc.nulNumeric, hcc.nulAlphanumeric]
  have h2 : (('\x00' : Char) == '.') = false := by decide
  simp only [h1, Bool.false_eq_true, ↓reduceIte, h2, Bool.false_and]
  exact ⟨_, _, rfl, by simp [ArmEnd, armFrame_iff, hs, hc]⟩

/-- result of the lexer: what `lex` returns once the input is exhausted -/
structure Final (toks : List LexerToken) (consumed : List Char) : Prop where
  lossless : textsOf toks = consumed
  nonempty : ∀ t ∈ toks, t.text ≠ []
  tokPos : TokPosFrom [] toks

/-- the rest of `process_char` on the sentinel -/
theorem finishChar_end (cc : CharClass) (hcc : cc.Sane) (σ : Lexer) (consumed : List Char)
    (toks : List LexerToken) (hcore : Core σ consumed toks) (hst : σ.state ≠ .noToken)
    (hat : σ.atEnd = true) (htree : TreeOk σ.operatorTree)
    (σ1 : Lexer) (sn : Bool) (heff : ArmEnd σ (σ1, sn)) :
    (finishChar cc σ1 '\x00' none sn).1.result = .err ∨
    ((finishChar cc σ1 '\x00' none sn).2 = none ∧ (finishChar cc σ1 '\x00' none sn).1.currentCharacters ≠ []) ∨
    (∃ t, (finishChar cc σ1 '\x00' none sn).2 = some t ∧ (finishChar cc σ1 '\x00' none sn).1.state = .noToken ∧
        Final (toks ++ [t]) consumed) := by
  obtain ⟨hfr, hnt, hk⟩ := heff
  simp only [] at hfr hk hnt
  rcases hk with ⟨rfl, hch⟩ | ⟨rfl, hcr, hch⟩
  · right; left
    simp only [finishChar, Bool.false_eq_true, ↓reduceIte, bumpColumn_chars]
    exact ⟨trivial, hch⟩
  · simp only [finishChar, ↓reduceIte, pushNewToken]
    have hne : (σ1.state != LexingState.noToken) = true := by simpa using hnt
    simp only [hne, ↓reduceIte]
    cases hcv : canCreateValidToken { σ1 with canFloat := !blocksFloat σ1.currentTokenType } with
    | err =>
      left
      simp only [LexResult.isOk, Bool.false_eq_true, ↓reduceIte, hcr]
      simp only [bumpColumn_result]
      exact startToken_result_err cc _ _ rfl
    | ok =>
      simp only [LexResult.isOk, ↓reduceIte]
      cases hty : σ1.currentTokenType with
      | none => left; rfl
      | some ty =>
        right; right
        simp only [hcr, ↓reduceIte]
        refine ⟨_, rfl, ?_, ?_⟩
        · rw [bumpColumn_state]
          exact (startToken_nul_full cc hcc _ (by simpa [hfr.operatorTree] using htree)
            (by simpa [hfr.atEnd] using hat)).1
        · rw [hfr.tokenStartRow, hfr.tokenStartColumn, hch]
          refine ⟨?_, ?_, TokPosFrom_emit hcore hst _ _⟩
          · rw [textsOf_snoc]; exact hcore.lossless
          · intro t ht
            simp only [List.mem_append, List.mem_singleton] at ht
            rcases ht with ht | rfl
            · exact hcore.nonempty t ht
            · exact hcore.tok hst

/-- `process_char` on the end-of-input sentinel -/
theorem processChar_end (cc : CharClass) (hcc : cc.Sane) (σ : Lexer) (consumed : List Char)
    (toks : List LexerToken) (hcore : Core σ consumed toks) (hat : σ.atEnd = true) (htree : TreeOk σ.operatorTree)
    (σ' : Lexer) (ot : Option LexerToken) (h : processChar cc σ '\x00' = .ok (σ', ot)) :
    σ'.result = .err ∨
    (ot = none ∧ (σ'.currentCharacters ≠ [] ∨ Final toks consumed)) ∨
    (∃ t, ot = some t ∧ σ'.state = .noToken ∧ Final (toks ++ [t]) consumed) := by
  unfold processChar at h
  simp only [] at h
  have hcore0 := Core_lexed (σ.charactersLexed + 1) hcore
  generalize hσ0 : { σ with charactersLexed := σ.charactersLexed + 1 } = σ0 at h hcore0
  have hat0 : σ0.atEnd = true := by subst hσ0; exact hat
  have htree0 : TreeOk σ0.operatorTree := by subst hσ0; exact htree
  clear hσ0 hcore hat htree
  have key : ∀ p : Lexer × Bool, σ0.state ≠ .noToken → ArmEnd σ0 p →
      stateStep cc σ0 '\x00' = Step.ofPair p →
      σ'.result = .err ∨ (ot = none ∧ (σ'.currentCharacters ≠ [] ∨ Final toks consumed)) ∨
      (∃ t, ot = some t ∧ σ'.state = .noToken ∧ Final (toks ++ [t]) consumed) := by
    intro p hst heff hss
    rw [hss] at h
    simp only [Step.ofPair, Outcome.ok.injEq] at h
    have := finishChar_end cc hcc σ0 consumed toks hcore0 hst hat0 htree0 p.1 p.2 heff
    rw [h] at this
    rcases this with h1 | ⟨h1, h2⟩ | h3
    · exact Or.inl h1
    · exact Or.inr (Or.inl ⟨h1, Or.inl h2⟩)
    · exact Or.inr (Or.inr h3)
  unfold stateStep at h key
  cases hs : σ0.state <;> rw [hs] at h key <;> simp only [] at h key
  case noToken =>
    simp only [Step.ofPair, armNoToken, finishChar, Bool.false_eq_true, ↓reduceIte, Outcome.ok.injEq,
      Prod.mk.injEq] at h
    obtain ⟨rfl, rfl⟩ := h
    right; left
    refine ⟨rfl, Or.inr ⟨?_, hcore0.nonempty, hcore0.tokPos⟩⟩
    have := hcore0.lossless
    rw [hcore0.noTok hs, List.append_nil] at this
    exact this
  case float =>
    have hnt : σ0.state ≠ .noToken := by rw [hs]; decide
    obtain ⟨σ1, sn, hst, heff⟩ := armFloat_end cc hcc σ0 hs hcore0.create
    rw [hst] at h
    simp only [Outcome.ok.injEq] at h
    have := finishChar_end cc hcc σ0 consumed toks hcore0 hnt hat0 htree0 σ1 sn heff
    rw [h] at this
    rcases this with h1 | ⟨h1, h2⟩ | h3
    · exact Or.inl h1
    · exact Or.inr (Or.inl ⟨h1, Or.inl h2⟩)
    · exact Or.inr (Or.inr h3)
  all_goals (have hnt : σ0.state ≠ .noToken := by rw [hs]; decide)
  · exact key _ (by decide) (armOperator_end cc hcc σ0 hs hcore0.create (hcore0.tok hnt)) rfl
  · exact key _ (by decide) (armSpaces_end σ0 hs hcore0.create (hcore0.tok hnt)) rfl
  · exact key _ (by decide) (armSubexpression_end σ0 hs hcore0.create (hcore0.tok hnt)) rfl
  · exact key _ (by decide) (armNumber_end cc hcc σ0 hs hcore0.create (hcore0.tok hnt)) rfl
  · exact key _ (by decide) (armIdentifier_end cc hcc σ0 hs hcore0.create (hcore0.tok hnt)) rfl
  · exact key _ (by decide) (armAnnotation_end cc hcc σ0 hs hcore0.create (hcore0.tok hnt)) rfl
  · exact key _ (by decide) (armLineAnnotation_end σ0 hs hcore0.create (hcore0.tok hnt) hat0) rfl
  · exact key _ (by decide) (armCharList_end σ0 hs hcore0.create (hcore0.tok hnt)) rfl
  · exact key _ (by decide) (armStartCharList_end σ0 hs hcore0.create (hcore0.tok hnt) hat0) rfl
  · exact key _ (by decide) (armByteList_end σ0 hs hcore0.create (hcore0.tok hnt)) rfl
  · exact key _ (by decide) (armStartByteList_end σ0 hs hcore0.create (hcore0.tok hnt) hat0) rfl

/-! ## the loop -/

theorem lexFinish_ok {σ σ' : Lexer} {toks toks' : List LexerToken} (h : lexFinish σ toks = .ok (toks', σ')) :
    toks' = toks ∧ σ.result = .ok := by
  unfold lexFinish at h
  cases hr : σ.result <;> rw [hr] at h <;> simp at h
  exact ⟨h.1.symm, rfl⟩

theorem isErr_of_ok {σ : Lexer} (h : σ.result = .ok) : σ.result.isErr = false := by rw [h]; rfl

theorem Core_atEnd {σ : Lexer} {consumed : List Char} {toks : List LexerToken} (b : Bool)
    (h : Core σ consumed toks) : Core { σ with atEnd := b } consumed toks :=
  ⟨h.1, h.2, h.3, h.4, h.5, h.6, h.7, h.8, h.9, h.10⟩

/-- second sentinel: in `NoToken` nothing more is emitted -/
theorem lexEnd_second (cc : CharClass) (fuel : Nat) (σ σ' : Lexer) (toks toks' : List LexerToken)
    (hs : σ.state = .noToken) (h : lexEnd cc (fuel + 1) σ toks = .ok (toks', σ')) : toks' = toks := by
  simp only [lexEnd] at h
  split at h
  · exact (lexFinish_ok h).1
  · cases hp : processChar cc { σ with atEnd := true } '\x00' with
    | ok r =>
      obtain ⟨σ1, ot⟩ := r
      have hnone := processChar_noToken_none cc _ _ _ _ (by simpa using hs) hp
      subst hnone
      rw [hp] at h
      simp only [] at h
      exact (lexFinish_ok h).1
    | err e => rw [hp] at h; cases h
    | panic m => rw [hp] at h; cases h
    | fuelOut => rw [hp] at h; cases h

theorem lexEnd_final (cc : CharClass) (hcc : cc.Sane) (fuel : Nat) (σ σ' : Lexer) (consumed : List Char)
    (toks toks' : List LexerToken) (hcore : Core σ consumed toks) (htree : TreeOk σ.operatorTree)
    (h : lexEnd cc (fuel + 2) σ toks = .ok (toks', σ')) : Final toks' consumed := by
  rw [show fuel + 2 = (fuel + 1) + 1 from rfl, lexEnd] at h
  simp only [isErr_of_ok hcore.ok, Bool.false_eq_true, ↓reduceIte] at h
  cases hp : processChar cc { σ with atEnd := true } '\x00' with
  | ok r =>
    obtain ⟨σ1, ot⟩ := r
    rw [hp] at h
    have hend := processChar_end cc hcc _ consumed toks (Core_atEnd true hcore) rfl (by simpa using htree) σ1 ot hp
    cases ot with
    | none =>
      simp only [] at h
      obtain ⟨htoks, hres⟩ := lexFinish_ok h
      subst htoks
      rcases hend with herr | ⟨_, hne | hfin⟩ | ⟨t, ht, _⟩
      · -- an error was recorded: lexFinish cannot succeed
        exfalso
        split at hres
        · simp at hres
        · rw [herr] at hres; cases hres
      · exfalso
        have hlen : utf8Len σ1.currentCharacters > 0 := by
          cases hc : σ1.currentCharacters with
          | nil => exact absurd hc hne
          | cons x r => have := Char.utf8Size_pos x; simp [utf8Len]; omega
        split at hres
        · simp at hres
        · rename_i hcond
          cases hr1 : σ1.result with
          | ok => simp [hlen, hr1, LexResult.isOk] at hcond
          | err => rw [hr1] at hres; cases hres
      · exact hfin
      · cases ht
    | some t =>
      simp only [] at h
      rcases hend with herr | ⟨hnone, _⟩ | ⟨t', ht, hs1, hfin⟩
      · rw [herr] at h; cases h
      · cases hnone
      · cases ht
        cases hr1 : σ1.result with
        | err => rw [hr1] at h; cases h
        | ok =>
          rw [hr1] at h
          simp only [] at h
          have := lexEnd_second cc fuel σ1 σ' (toks ++ [t]) toks' hs1 h
          subst this
          exact hfin
  | err e => rw [hp] at h; cases h
  | panic m => rw [hp] at h; cases h
  | fuelOut => rw [hp] at h; cases h

theorem lexEnd_err (cc : CharClass) (fuel : Nat) (σ : Lexer) (toks : List LexerToken) (h : σ.result = .err) :
    lexEnd cc (fuel + 1) σ toks = .err .syntax := by
  simp [lexEnd, h, LexResult.isErr, lexFinish]

theorem lexLoop_err (cc : CharClass) (input : List Char) (σ : Lexer) (toks : List LexerToken)
    (h : σ.result = .err) : lexLoop cc input σ toks = .err .syntax := by
  cases input with
  | nil => simp only [lexLoop, endFuel]; exact lexEnd_err cc 3 σ toks h
  | cons c rest => simp [lexLoop, h, LexResult.isErr, lexFinish]

/-- the main invariant theorem: if `lex` succeeds from a state satisfying the invariant, the result is `Final` -/
theorem lexLoop_final (cc : CharClass) (hcc : cc.Sane2) :
    ∀ (input : List Char) (σ σ' : Lexer) (consumed : List Char) (toks toks' : List LexerToken),
      Core σ consumed toks → Inv σ → TreeOk σ.operatorTree → σ.atEnd = false →
      lexLoop cc input σ toks = .ok (toks', σ') → Final toks' (consumed ++ input)
  | [], σ, σ', consumed, toks, toks', hcore, _, htree, _, h => by
    simp only [lexLoop, endFuel] at h
    rw [List.append_nil]
    exact lexEnd_final cc hcc.toSane 2 σ σ' consumed toks toks' hcore htree h
  | c :: rest, σ, σ', consumed, toks, toks', hcore, hinv, htree, hat, h => by
    simp only [lexLoop, isErr_of_ok hcore.ok, Bool.false_eq_true, ↓reduceIte] at h
    obtain ⟨σ1, ot, hp, hinv1⟩ := processChar_ok cc hcc.toSane σ c hinv
    have hf := processChar_frame cc _ _ _ _ hp
    have hns : ¬Sentinel σ c := fun hs => by have := hs.2; rw [hat] at this; cases this
    have hstep := processChar_core cc hcc σ c consumed toks hcore hinv hns σ1 ot hp
    rw [hp] at h
    have hcons : consumed ++ c :: rest = (consumed ++ [c]) ++ rest := by simp
    rw [hcons]
    cases ot with
    | none =>
      simp only [] at h
      rcases hstep with herr | hcore1
      · rw [lexLoop_err cc rest σ1 toks herr] at h; cases h
      · exact lexLoop_final cc hcc rest σ1 σ' _ toks toks' (by simpa using hcore1) hinv1
          (by rw [hf.1]; exact htree) (by rw [hf.2.1]; exact hat) h
    | some t =>
      simp only [] at h
      rcases hstep with herr | hcore1
      · rw [herr] at h; cases h
      · rw [hcore1.ok] at h
        simp only [] at h
        exact lexLoop_final cc hcc rest σ1 σ' _ (toks ++ [t]) toks' (by simpa using hcore1) hinv1
          (by rw [hf.1]; exact htree) (by rw [hf.2.1]; exact hat) h

theorem Core_init (t : LexerOperatorNode) : Core (Lexer.init t) [] [] :=
  ⟨rfl, by simp, fun _ => rfl, fun h => absurd rfl h, trivial, fun h => absurd rfl h, rfl,
   ⟨fun h => by simp [Lexer.init] at h, fun h => by simp [Lexer.init] at h⟩, rfl, rfl⟩

/-- `lex` succeeds only with a lossless, non-empty, correctly positioned token list -/
theorem lex_final (cc : CharClass) (hcc : cc.Sane2) (s : List Char) (toks : List LexerToken)
    (h : lex cc s = .ok toks) : Final toks s := by
  obtain ⟨t, hnew, ht⟩ := new_ok
  unfold lex lexFull at h
  rw [hnew] at h
  simp only [] at h
  cases hl : lexLoop cc s (Lexer.init t) [] with
  | ok r =>
    obtain ⟨toks', σ'⟩ := r
    rw [hl] at h
    simp only [Outcome.ok.injEq] at h
    subst h
    have := lexLoop_final cc hcc s (Lexer.init t) σ' [] [] toks' (Core_init t)
      (fun h => by simp [Lexer.init] at h) ht rfl hl
    simpa using this
  | err e => rw [hl] at h; cases h
  | panic m => rw [hl] at h; cases h
  | fuelOut => rw [hl] at h; cases h

/-! ## the Rust tables; indexed form of the position statement -/

/-- the Unicode predicates of the Rust std, from the generated range tables -/
def rustTables : CharClass := ⟨Garnish.Gen.CharRanges.isAlphanumeric, Garnish.Gen.CharRanges.isNumeric⟩

theorem rustTables_sane2 : rustTables.Sane2 where
  nulNumeric := by decide +kernel
  nulAlphanumeric := by decide +kernel
  nlNumeric := by decide +kernel
  nlAlphanumeric := by decide +kernel
  dotNumeric := by decide +kernel
  dotAlphanumeric := by decide +kernel

theorem TokPosFrom_get : ∀ (p : List Char) (toks : List LexerToken), TokPosFrom p toks →
    ∀ (i : Nat) (h : i < toks.length), (toks[i].row, toks[i].column) = posOf (p ++ textsOf (toks.take i))
  | p, [], _, i, h => by simp at h
  | p, t :: ts, hp, 0, _ => by simpa [TokPosFrom] using hp.1
  | p, t :: ts, hp, i + 1, h => by
    have := TokPosFrom_get (p ++ t.text) ts hp.2 i (by simpa using h)
    simpa [textsOf, List.append_assoc] using this

theorem textsOf_take_prefix (toks : List LexerToken) (s : List Char) (h : textsOf toks = s) (i : Nat) :
    textsOf (toks.take i) = s.take (textsOf (toks.take i)).length := by
  have : s = textsOf (toks.take i) ++ textsOf (toks.drop i) := by
    rw [← h]
    simp only [textsOf, ← List.flatten_append, ← List.map_append, List.take_append_drop]
  rw [this, List.take_left']
  rfl

end Garnish.Model.Lexer
